(* Properties/C08_rules.v — C08, anonymity / independence of representation, continued: the
   pairwise layer, elect_cands_from_set_ranking with a tiebreak rule, and the remaining rules of
   Model/Rules.v (DominatingSets, CondoBorda, the rating family, TopTwo, Alaska, RandomDictator,
   BoostedRandomDictator), candidate-order independence of every rule, and what holds / fails for
   PluralityVeto.  Statements only (Properties/C08.v has neutrality, the scoring utilities, the
   one-shot rules without tiebreak and the STV family).

   Proofs: Proofs/C08_pairwise.v, C08_rules.v, C08_dictator.v, C08_scripts.v, C08_pv.v,
   C08_candorder.v.
   Vocabulary: Spec/Anon.v ([dist_eq], [profile_equiv], [groups_equiv], [scores_equiv],
   [state_equiv], [res_equiv], [mres_equiv], [one_shot_domain], [stv_domain]) and Spec/AnonRules.v
   ([pw_domain], [pwc_equiv], [dict_equiv], [elect_equiv_tb], [det_tiebreak], [rating_domain],
   [rating_ballot_ok], [bloc_limit], [dictator_domain], [call_equiv], [mstate_equiv],
   [mres_equiv_log], [same_law], [integral_wts]); laws: Model/Laws.v, Spec/LawSpec.v.

   [profile_equiv p p'] : every ballot content ((ranking, scores), positions compared as sets)
   carries the same total weight in both profiles — this covers reordering, splitting, merging and
   condensing (Properties/C08.v, c08_dist_eq_... theorems) — and the candidate lists are permutations of each
   other.  Scores are part of the content, so the same relation serves the rating family.

   Reading of the conclusions: [mres_equiv (Forall2 state_equiv) x y] — both runs fail with the
   same error, or both succeed with the same number of rounds, agreeing round by round (round
   number; remaining / elected / eliminated groups as sets, in the same order; recorded tiebreaks;
   tallies with [==] values, keys in any order) and leave the same draw script and call log.
   [mres_equiv_log] is the same except that the logged primitive calls may differ in the
   representation of their argument ([call_equiv]). *)
From Coq Require Import List ZArith QArith Bool Permutation.
From VK Require Import Base Core STV Pairwise Rules PV Laws.
From VK.Spec Require Import Content ScoreSpec EditSpec Anon LawSpec AnonRules.
From VK.Proofs Require Import C08_anon C08_stv C08_pairwise C08_rules C08_dictator C08_scripts C08_pv C08_candorder.
From VK.Properties Require Import C08.
Import ListNotations.
Open Scope Q_scope.

Section C08_rules.
Variable cand : Type.
Variable ceqb : cand -> cand -> bool.
Hypothesis ceqb_spec : forall a b, reflect (a = b) (ceqb a b).

Notation cset := (cset cand).
Notation ranking := (ranking cand).
Notation ballot := (ballot cand).
Notation profile := (profile cand).
Notation scores := (scores cand).
Notation mstate := (mstate cand).
Notation estate := (estate cand).
Notation dist_eq := (dist_eq cand ceqb).
Notation groups_equiv := (groups_equiv cand).
Notation scores_equiv := (scores_equiv cand).
Notation state_equiv := (state_equiv cand).
Notation profile_equiv := (profile_equiv cand ceqb).
Notation wf_profile := (wf_profile cand).
Notation one_shot_domain := (one_shot_domain cand).
Notation stv_domain := (stv_domain cand).
Notation pw_domain := (pw_domain cand).
Notation pwc_equiv := (pwc_equiv cand).
Notation elect_equiv_tb := (elect_equiv_tb cand).
Notation det_tiebreak := (det_tiebreak cand).
Notation rating_domain := (rating_domain cand).
Notation dictator_domain := (dictator_domain cand).
Notation mstate_equiv := (mstate_equiv cand ceqb).
Notation mres_equiv_log := (mres_equiv_log cand ceqb).
Notation same_law := (same_law cand ceqb).
Notation integral_wts := (integral_wts cand).
Notation rd_domain := (rd_domain cand).

(* ====================================================================== *)
(** * 1. The pairwise layer *)

(* ballot_fill: equivalent profiles (ranked ballots, ties and short ballots allowed, weights >= 0)
   have equivalent filled profiles; the filled candidate lists are duplicate-free *)
Theorem c08_ballot_fill_anonymous : forall p p' : profile,
  pw_domain p -> pw_domain p' -> profile_equiv p p' ->
  exists fp fp', ballot_fill cand ceqb p = inl fp /\ ballot_fill cand ceqb p' = inl fp' /\
    profile_equiv fp fp' /\ NoDup (cands fp) /\ NoDup (cands fp').
Proof. exact (ballot_fill_anonymous cand ceqb ceqb_spec). Qed.

(* PairwiseComparisonGraph: same candidates, same pairwise dictionary (same keys, [==] margins),
   same dominating tiers — as sets, in the same order *)
Theorem c08_pairwise_graph_anonymous : forall p p' : profile,
  pw_domain p -> pw_domain p' -> profile_equiv p p' ->
  res_equiv pwc_equiv (pairwise_graph cand ceqb p) (pairwise_graph cand ceqb p').
Proof. exact (pairwise_graph_anonymous cand ceqb ceqb_spec). Qed.

(* in particular every margin recorded in both dictionaries is the same number *)
Theorem c08_pairwise_margin_anonymous : forall (p p' : profile) g g' a b v v',
  pw_domain p -> pw_domain p' -> profile_equiv p p' ->
  pairwise_graph cand ceqb p = inl g -> pairwise_graph cand ceqb p' = inl g' ->
  In (a, b, v) (pw_dict g) -> In (a, b, v') (pw_dict g') -> v == v'.
Proof. exact (pairwise_margin_anonymous cand ceqb ceqb_spec). Qed.

(* the tiers only depend on the digraph as a relation and on the SET of nodes (no hypothesis on
   the lists at all) *)
Theorem c08_tiers_of_graph : forall (es es' : list (cand * cand * Q)) (cs cs' : cset),
  (forall a b, edge cand ceqb es a b = edge cand ceqb es' a b) -> Permutation cs cs' ->
  groups_equiv (tiers_of cand ceqb es cs) (tiers_of cand ceqb es' cs').
Proof. exact (tiers_of_equiv cand ceqb ceqb_spec). Qed.

Theorem c08_dominating_tiers_anonymous : forall p p' : profile,
  pw_domain p -> pw_domain p' -> profile_equiv p p' ->
  res_equiv groups_equiv (dominating_tiers cand ceqb p) (dominating_tiers cand ceqb p').
Proof. exact (dominating_tiers_anonymous cand ceqb ceqb_spec). Qed.

Theorem c08_has_condorcet_winner_anonymous : forall p p' : profile,
  pw_domain p -> pw_domain p' -> profile_equiv p p' ->
  res_equiv eq (has_condorcet_winner cand ceqb p) (has_condorcet_winner cand ceqb p').
Proof. exact (has_condorcet_winner_anonymous cand ceqb ceqb_spec). Qed.

(* ====================================================================== *)
(** * 2. Tiebreak rules on the deterministic path
   "Deterministic path" = the draw script is empty, so that a tie which the configured rule
   (first-place votes, Borda) does not resolve, or a "random" rule, fails with EScript — on both
   sides, identically. *)

(* elect_cands_from_set_ranking, every tiebreak setting (None, random, first_place, borda, invalid) *)
Theorem c08_elect_top_m_tiebreak_anonymous :
  forall (r r' : ranking) (m : Z) (p p' : profile) (tb : option tb_kind) (s : mstate),
  groups_equiv r r' -> scr s = [] -> wf_profile p -> wf_profile p' -> profile_equiv p p' ->
  mres_equiv cand elect_equiv_tb (elect_top_m cand ceqb r m (Some p) tb s)
                                 (elect_top_m cand ceqb r' m (Some p') tb s).
Proof. exact (elect_top_m_tiebreak_anonymous cand ceqb ceqb_spec). Qed.

(* the one-shot rules with any tiebreak setting: [det_tiebreak k tb s] = no tiebreak rule, or a
   ranked kind and an empty script *)
Theorem c08_one_shot_tiebreak_anonymous :
  forall (k : score_kind) (m : Z) (tb : option tb_kind) (p p' : profile) (s : mstate),
  det_tiebreak k tb s -> one_shot_domain k p -> one_shot_domain k p' -> profile_equiv p p' ->
  mres_equiv cand (Forall2 state_equiv)
    (run_one_shot cand ceqb k m tb p s) (run_one_shot cand ceqb k m tb p' s).
Proof. exact (one_shot_tiebreak_anonymous cand ceqb ceqb_spec). Qed.

Theorem c08_plurality_tiebreak_anonymous :
  forall (m : Z) (tb : option tb_kind) (p p' : profile) (s : mstate),
  det_tiebreak SKFpv tb s -> one_shot_domain SKFpv p -> one_shot_domain SKFpv p' -> profile_equiv p p' ->
  mres_equiv cand (Forall2 state_equiv)
    (run_rule cand ceqb (RPlurality m tb) p s) (run_rule cand ceqb (RPlurality m tb) p' s).
Proof. exact (plurality_tiebreak_anonymous cand ceqb ceqb_spec). Qed.

Theorem c08_borda_tiebreak_anonymous :
  forall (m : Z) (v : option (list Q)) (tb : option tb_kind) (p p' : profile) (s : mstate),
  det_tiebreak SKBorda tb s -> one_shot_domain SKBorda p -> one_shot_domain SKBorda p' -> profile_equiv p p' ->
  mres_equiv cand (Forall2 state_equiv)
    (run_rule cand ceqb (RBorda m v tb) p s) (run_rule cand ceqb (RBorda m v tb) p' s).
Proof. exact (borda_tiebreak_anonymous cand ceqb ceqb_spec). Qed.

(* ---- beyond the deterministic path: EVERY tiebreak setting and EVERY draw script.  A
   random.sample(S) is recorded by the order it returned, which answers any listing of the same set
   S; so the same script drives both runs through the same draws.  Only the logged arguments may be
   listed differently ([mres_equiv_log], [call_equiv]: CSample sets up to permutation). ---- *)

Theorem c08_elect_top_m_script_anonymous :
  forall (r r' : ranking) (m : Z) (p p' : profile) (tb : option tb_kind) (s : mstate),
  groups_equiv r r' -> wf_profile p -> wf_profile p' -> profile_equiv p p' ->
  mres_equiv_log elect_equiv_tb (elect_top_m cand ceqb r m (Some p) tb s)
                                (elect_top_m cand ceqb r' m (Some p') tb s).
Proof. exact (elect_top_m_script_anonymous cand ceqb ceqb_spec). Qed.

(* one-shot rules: any tiebreak rule for the ranked kinds (none for the rating kind) *)
Theorem c08_one_shot_script_anonymous :
  forall (k : score_kind) (m : Z) (tb : option tb_kind) (p p' : profile) (s : mstate),
  tb = None \/ ranked_kind k -> one_shot_domain k p -> one_shot_domain k p' -> profile_equiv p p' ->
  mres_equiv_log (Forall2 state_equiv)
    (run_one_shot cand ceqb k m tb p s) (run_one_shot cand ceqb k m tb p' s).
Proof. exact (one_shot_script_anonymous cand ceqb ceqb_spec). Qed.

Theorem c08_plurality_script_anonymous :
  forall (m : Z) (tb : option tb_kind) (p p' : profile) (s : mstate),
  one_shot_domain SKFpv p -> one_shot_domain SKFpv p' -> profile_equiv p p' ->
  mres_equiv_log (Forall2 state_equiv)
    (run_rule cand ceqb (RPlurality m tb) p s) (run_rule cand ceqb (RPlurality m tb) p' s).
Proof. exact (plurality_script_anonymous cand ceqb ceqb_spec). Qed.

Theorem c08_borda_script_anonymous :
  forall (m : Z) (v : option (list Q)) (tb : option tb_kind) (p p' : profile) (s : mstate),
  one_shot_domain SKBorda p -> one_shot_domain SKBorda p' -> profile_equiv p p' ->
  mres_equiv_log (Forall2 state_equiv)
    (run_rule cand ceqb (RBorda m v tb) p s) (run_rule cand ceqb (RBorda m v tb) p' s).
Proof. exact (borda_script_anonymous cand ceqb ceqb_spec). Qed.

Theorem c08_condo_script_anonymous : forall (m : Z) (p p' : profile) (s : mstate),
  one_shot_domain SKBorda p -> one_shot_domain SKBorda p' -> profile_equiv p p' ->
  mres_equiv_log (Forall2 state_equiv)
    (run_rule cand ceqb (RCondoBorda m) p s) (run_rule cand ceqb (RCondoBorda m) p' s).
Proof. exact (condo_script_anonymous cand ceqb ceqb_spec). Qed.

Theorem c08_toptwo_script_anonymous : forall (tb : option tb_kind) (p p' : profile) (s : mstate),
  one_shot_domain SKFpv p -> one_shot_domain SKFpv p' -> profile_equiv p p' ->
  mres_equiv_log (Forall2 state_equiv)
    (run_rule cand ceqb (RTopTwo tb) p s) (run_rule cand ceqb (RTopTwo tb) p' s).
Proof. exact (toptwo_script_anonymous cand ceqb ceqb_spec). Qed.

(* ====================================================================== *)
(** * 3. DominatingSets and CondoBorda *)

(* DominatingSets makes no draw at all: every source state *)
Theorem c08_dominating_anonymous : forall (p p' : profile) (s : mstate),
  pw_domain p -> pw_domain p' -> profile_equiv p p' ->
  mres_equiv cand (Forall2 state_equiv)
    (run_rule cand ceqb RDominating p s) (run_rule cand ceqb RDominating p' s).
Proof. exact (dominating_anonymous cand ceqb ceqb_spec). Qed.

(* CondoBorda breaks ties inside a tier by Borda scores; empty script (see section 2) *)
Theorem c08_condo_anonymous : forall (m : Z) (p p' : profile) (s : mstate), scr s = [] ->
  one_shot_domain SKBorda p -> one_shot_domain SKBorda p' -> profile_equiv p p' ->
  mres_equiv cand (Forall2 state_equiv)
    (run_rule cand ceqb (RCondoBorda m) p s) (run_rule cand ceqb (RCondoBorda m) p' s).
Proof. exact (condo_anonymous cand ceqb ceqb_spec). Qed.

(* ====================================================================== *)
(** * 4. The rating family, no tiebreak rule
   [rating_domain L k p]: rated ballots (Spec/Anon.v), weights >= 0, and every ballot of weight
   ZERO is a valid rating for (L, k).  (Positive-weight ballots may be invalid: then both runs
   fail with TypeError.)  Without the clause on zero-weight ballots the statement is false on the
   model: c08_rating_zero_weight_refuted below. *)

Theorem c08_rating_validate_anonymous : forall (L : Q) (k : option Q) (p p' : profile),
  rating_domain L k p -> rating_domain L k p' -> profile_equiv p p' ->
  rating_validate cand L k p = rating_validate cand L k p'.
Proof. exact (rating_validate_anonymous cand ceqb ceqb_spec). Qed.

(* GeneralRating / Rating / Cumulative / Approval *)
Theorem c08_rating_anonymous : forall (m : Z) (L : Q) (k : option Q) (p p' : profile) (s : mstate),
  rating_domain L k p -> rating_domain L k p' -> profile_equiv p p' ->
  mres_equiv cand (Forall2 state_equiv)
    (run_rule cand ceqb (RRating m L k None) p s) (run_rule cand ceqb (RRating m L k None) p' s).
Proof. exact (rating_rule_anonymous cand ceqb ceqb_spec). Qed.

(* Limited *)
Theorem c08_limited_anonymous : forall (m : Z) (k : Q) (p p' : profile) (s : mstate),
  rating_domain k (Some k) p -> rating_domain k (Some k) p' -> profile_equiv p p' ->
  mres_equiv cand (Forall2 state_equiv)
    (run_rule cand ceqb (RLimited m k None) p s) (run_rule cand ceqb (RLimited m k None) p' s).
Proof. exact (limited_rule_anonymous cand ceqb ceqb_spec). Qed.

(* BlocPlurality *)
Theorem c08_bloc_anonymous : forall (m : Z) (k : option Z) (p p' : profile) (s : mstate),
  rating_domain 1 (Some (inject_Z (bloc_limit m k))) p ->
  rating_domain 1 (Some (inject_Z (bloc_limit m k))) p' -> profile_equiv p p' ->
  mres_equiv cand (Forall2 state_equiv)
    (run_rule cand ceqb (RBloc m k None) p s) (run_rule cand ceqb (RBloc m k None) p' s).
Proof. exact (bloc_rule_anonymous cand ceqb ceqb_spec). Qed.

(* ====================================================================== *)
(** * 5. TopTwo and Alaska *)

(* TopTwo, any tiebreak setting on the deterministic path (in particular: no tiebreak rule, any
   source state): the three records agree; the Plurality replay made by get_profile is included *)
Theorem c08_toptwo_anonymous : forall (tb : option tb_kind) (p p' : profile) (s : mstate),
  det_tiebreak SKFpv tb s -> one_shot_domain SKFpv p -> one_shot_domain SKFpv p' -> profile_equiv p p' ->
  mres_equiv cand (Forall2 state_equiv)
    (run_rule cand ceqb (RTopTwo tb) p s) (run_rule cand ceqb (RTopTwo tb) p' s).
Proof. exact (toptwo_anonymous cand ceqb ceqb_spec). Qed.

(* Alaska: Plurality stage, then the STV count of the survivors, then the STV replay made by
   get_profile; no tiebreak rule, deterministic transfer, empty script *)
Theorem c08_alaska_anonymous : forall (m1 m2 : Z) (cfg : stv_cfg) (p p' : profile) (s : mstate),
  s_tiebreak cfg = None -> s_transfer cfg <> TRandom -> scr s = [] ->
  stv_domain p -> stv_domain p' -> profile_equiv p p' ->
  mres_equiv cand (Forall2 state_equiv)
    (run_rule cand ceqb (RAlaska m1 m2 cfg) p s) (run_rule cand ceqb (RAlaska m1 m2 cfg) p' s).
Proof. exact (alaska_anonymous cand ceqb ceqb_spec). Qed.

(* the replay that Alaska performs: on the deterministic path a finished STV count can be
   replayed round by round, from the same source state, without consuming anything *)
Theorem c08_stv_replay_succeeds : forall (cfg : stv_cfg) (t : Q) (p : profile) (s : mstate) sts s',
  s_tiebreak cfg = None -> s_transfer cfg <> TRandom -> scr s = [] -> stv_domain p ->
  stv_init cand cfg p = inl t -> run_stv cand ceqb cfg p s = inl (sts, s') ->
  s' = s /\ exists pf, stv_replay cand ceqb cfg t p [] p (removelast sts) s = inl (pf, s).
Proof. exact (stv_run_replay cand ceqb ceqb_spec). Qed.

(* ====================================================================== *)
(** * 6. RandomDictator and BoostedRandomDictator
   [dictator_domain p]: ranked, score-free ballots, weights >= 0, and not "some ballots, all of
   weight zero" (that case is refuted below).  The script records the drawn ballot by its ranking,
   so the SAME script drives both runs; ANY script, any tie among first choices included. *)

(* general form: equivalent source states (same script, equivalent logs) *)
Theorem c08_dictator_runs : forall (boosted : bool) (m : Z) (p p' : profile) (s s' : mstate),
  dictator_domain p -> dictator_domain p' -> profile_equiv p p' -> mstate_equiv s s' ->
  mres_equiv_log (Forall2 state_equiv)
    (run_dictator cand ceqb boosted m p s) (run_dictator cand ceqb boosted m p' s').
Proof. exact (run_dictator_log cand ceqb ceqb_spec). Qed.

Theorem c08_random_dictator_anonymous : forall (m : Z) (p p' : profile) (s : mstate),
  dictator_domain p -> dictator_domain p' -> profile_equiv p p' ->
  mres_equiv_log (Forall2 state_equiv)
    (run_rule cand ceqb (RRandomDictator m) p s) (run_rule cand ceqb (RRandomDictator m) p' s).
Proof. exact (random_dictator_anonymous cand ceqb ceqb_spec). Qed.

Theorem c08_boosted_dictator_anonymous : forall (m : Z) (p p' : profile) (s : mstate),
  dictator_domain p -> dictator_domain p' -> profile_equiv p p' ->
  mres_equiv_log (Forall2 state_equiv)
    (run_rule cand ceqb (RBoosted m) p s) (run_rule cand ceqb (RBoosted m) p' s).
Proof. exact (boosted_dictator_anonymous cand ceqb ceqb_spec). Qed.

(* the law: the closed form and the one-step distribution over elected candidates only depend on
   the electorate (the candidate list plays no role) *)
Theorem c08_rd_closed_form_anonymous : forall (p p' : profile) (c : cand),
  rd_domain p -> rd_domain p' -> dist_eq (ballots p) (ballots p') ->
  rd_closed_form cand ceqb p c == rd_closed_form cand ceqb p' c.
Proof. exact (rd_closed_form_anonymous cand ceqb ceqb_spec). Qed.

Theorem c08_rd_law_anonymous : forall p p' : profile,
  rd_domain p -> rd_domain p' -> dist_eq (ballots p) (ballots p') ->
  same_law (law_rd_winner cand p) (law_rd_winner cand p').
Proof. exact (rd_law_anonymous cand ceqb ceqb_spec). Qed.

(* BoostedRandomDictator: equivalent profiles and equivalent previous-round tallies *)
Theorem c08_brd_law_anonymous : forall (p p' : profile) (d d' : scores),
  rd_domain p -> rd_domain p' -> profile_equiv p p' -> (1 <= length (cands p))%nat ->
  NoDup (map fst d) -> NoDup (map fst d') -> scores_equiv d d' ->
  0 < qsum (map (fun q : cand * Q => snd q * snd q) d) ->
  same_law (law_brd_winner cand p d) (law_brd_winner cand p' d').
Proof. exact (brd_law_anonymous cand ceqb ceqb_spec). Qed.

(* ====================================================================== *)
(** * 7. Listing the candidates in a different order *)

Theorem c08_pairwise_graph_cand_order : forall (bs : list ballot) (cs cs' : cset),
  pw_domain (mkProfile bs cs) -> Permutation cs cs' ->
  res_equiv pwc_equiv (pairwise_graph cand ceqb (mkProfile bs cs)) (pairwise_graph cand ceqb (mkProfile bs cs')).
Proof. exact (pairwise_graph_cand_order cand ceqb ceqb_spec). Qed.

Theorem c08_dominating_cand_order : forall (bs : list ballot) (cs cs' : cset) (s : mstate),
  pw_domain (mkProfile bs cs) -> Permutation cs cs' ->
  mres_equiv cand (Forall2 state_equiv)
    (run_rule cand ceqb RDominating (mkProfile bs cs) s) (run_rule cand ceqb RDominating (mkProfile bs cs') s).
Proof. exact (dominating_cand_order cand ceqb ceqb_spec). Qed.

Theorem c08_condo_cand_order : forall (m : Z) (bs : list ballot) (cs cs' : cset) (s : mstate), scr s = [] ->
  one_shot_domain SKBorda (mkProfile bs cs) -> Permutation cs cs' ->
  mres_equiv cand (Forall2 state_equiv)
    (run_rule cand ceqb (RCondoBorda m) (mkProfile bs cs) s) (run_rule cand ceqb (RCondoBorda m) (mkProfile bs cs') s).
Proof. exact (condo_cand_order cand ceqb ceqb_spec). Qed.

Theorem c08_one_shot_tiebreak_cand_order :
  forall (k : score_kind) (m : Z) (tb : option tb_kind) (bs : list ballot) (cs cs' : cset) (s : mstate),
  det_tiebreak k tb s -> one_shot_domain k (mkProfile bs cs) -> Permutation cs cs' ->
  mres_equiv cand (Forall2 state_equiv)
    (run_one_shot cand ceqb k m tb (mkProfile bs cs) s) (run_one_shot cand ceqb k m tb (mkProfile bs cs') s).
Proof. exact (one_shot_tiebreak_cand_order cand ceqb ceqb_spec). Qed.

Theorem c08_rating_cand_order :
  forall (m : Z) (L : Q) (k : option Q) (bs : list ballot) (cs cs' : cset) (s : mstate),
  rating_domain L k (mkProfile bs cs) -> Permutation cs cs' ->
  mres_equiv cand (Forall2 state_equiv)
    (run_rule cand ceqb (RRating m L k None) (mkProfile bs cs) s)
    (run_rule cand ceqb (RRating m L k None) (mkProfile bs cs') s).
Proof. exact (rating_cand_order cand ceqb ceqb_spec). Qed.

Theorem c08_toptwo_cand_order : forall (tb : option tb_kind) (bs : list ballot) (cs cs' : cset) (s : mstate),
  det_tiebreak SKFpv tb s -> one_shot_domain SKFpv (mkProfile bs cs) -> Permutation cs cs' ->
  mres_equiv cand (Forall2 state_equiv)
    (run_rule cand ceqb (RTopTwo tb) (mkProfile bs cs) s) (run_rule cand ceqb (RTopTwo tb) (mkProfile bs cs') s).
Proof. exact (toptwo_cand_order cand ceqb ceqb_spec). Qed.

Theorem c08_stv_cand_order : forall (cfg : stv_cfg) (bs : list ballot) (cs cs' : cset) (s : mstate),
  s_tiebreak cfg = None -> s_transfer cfg <> TRandom -> scr s = [] ->
  stv_domain (mkProfile bs cs) -> Permutation cs cs' ->
  mres_equiv cand (Forall2 state_equiv)
    (run_rule cand ceqb (RSTV cfg) (mkProfile bs cs) s) (run_rule cand ceqb (RSTV cfg) (mkProfile bs cs') s).
Proof. exact (stv_cand_order cand ceqb ceqb_spec). Qed.

Theorem c08_alaska_cand_order :
  forall (m1 m2 : Z) (cfg : stv_cfg) (bs : list ballot) (cs cs' : cset) (s : mstate),
  s_tiebreak cfg = None -> s_transfer cfg <> TRandom -> scr s = [] ->
  stv_domain (mkProfile bs cs) -> Permutation cs cs' ->
  mres_equiv cand (Forall2 state_equiv)
    (run_rule cand ceqb (RAlaska m1 m2 cfg) (mkProfile bs cs) s)
    (run_rule cand ceqb (RAlaska m1 m2 cfg) (mkProfile bs cs') s).
Proof. exact (alaska_cand_order cand ceqb ceqb_spec). Qed.

Theorem c08_dictator_cand_order :
  forall (boosted : bool) (m : Z) (bs : list ballot) (cs cs' : cset) (s : mstate),
  dictator_domain (mkProfile bs cs) -> Permutation cs cs' ->
  mres_equiv_log (Forall2 state_equiv)
    (run_rule cand ceqb (if boosted then RBoosted m else RRandomDictator m) (mkProfile bs cs) s)
    (run_rule cand ceqb (if boosted then RBoosted m else RRandomDictator m) (mkProfile bs cs') s).
Proof. exact (dictator_cand_order cand ceqb ceqb_spec). Qed.

(* ====================================================================== *)
(** * 8. PluralityVeto: what is invariant
   PluralityVeto de-condenses the profile into unit ballots and the voters veto in sequence, in
   the order given by the script as INDICES into the de-condensed list.  Invariant (whole-number
   weights): the de-condensed electorate and therefore round 0.  Later rounds are not (section 9). *)

Theorem c08_pv_decondense_anonymous : forall bs bs' : list ballot,
  integral_wts bs -> integral_wts bs' -> dist_eq bs bs' ->
  dist_eq (decondense cand bs) (decondense cand bs').
Proof. exact (decondense_anonymous cand ceqb ceqb_spec). Qed.

(* round 0: the first-place tallies of the de-condensed profile and their ranking *)
Theorem c08_pv_round0_anonymous : forall p p' : profile, wf_profile p -> wf_profile p' ->
  integral_wts (ballots p) -> integral_wts (ballots p') -> profile_equiv p p' ->
  res_equiv state_equiv
    (round0 cand ceqb SKFpv (mkProfile (decondense cand (ballots p)) (cands p)))
    (round0 cand ceqb SKFpv (mkProfile (decondense cand (ballots p')) (cands p'))).
Proof. exact (pv_round0_anonymous cand ceqb ceqb_spec). Qed.

(* ... and that round 0 is the first record of every successful run, whatever the tiebreak
   setting and the scripts: two successful runs on equivalent profiles start with equivalent
   records *)
Theorem c08_pv_first_round_anonymous :
  forall (m : Z) (tb : option tb_kind) (p p' : profile) (s1 s1' s2 s2' : mstate) sts sts',
  wf_profile p -> wf_profile p' -> integral_wts (ballots p) -> integral_wts (ballots p') ->
  profile_equiv p p' ->
  run_pv cand ceqb m tb p s1 = inl (sts, s1') -> run_pv cand ceqb m tb p' s2 = inl (sts', s2') ->
  exists a0 l b0 l', sts = a0 :: l /\ sts' = b0 :: l' /\ state_equiv a0 b0.
Proof. exact (pv_first_round_anonymous cand ceqb ceqb_spec). Qed.

End C08_rules.

Print Assumptions c08_ballot_fill_anonymous.
Print Assumptions c08_pairwise_graph_anonymous.
Print Assumptions c08_pairwise_margin_anonymous.
Print Assumptions c08_tiers_of_graph.
Print Assumptions c08_dominating_tiers_anonymous.
Print Assumptions c08_has_condorcet_winner_anonymous.
Print Assumptions c08_elect_top_m_tiebreak_anonymous.
Print Assumptions c08_one_shot_tiebreak_anonymous.
Print Assumptions c08_plurality_tiebreak_anonymous.
Print Assumptions c08_borda_tiebreak_anonymous.
Print Assumptions c08_elect_top_m_script_anonymous.
Print Assumptions c08_one_shot_script_anonymous.
Print Assumptions c08_plurality_script_anonymous.
Print Assumptions c08_borda_script_anonymous.
Print Assumptions c08_condo_script_anonymous.
Print Assumptions c08_toptwo_script_anonymous.
Print Assumptions c08_dominating_anonymous.
Print Assumptions c08_condo_anonymous.
Print Assumptions c08_rating_validate_anonymous.
Print Assumptions c08_rating_anonymous.
Print Assumptions c08_limited_anonymous.
Print Assumptions c08_bloc_anonymous.
Print Assumptions c08_toptwo_anonymous.
Print Assumptions c08_alaska_anonymous.
Print Assumptions c08_stv_replay_succeeds.
Print Assumptions c08_dictator_runs.
Print Assumptions c08_random_dictator_anonymous.
Print Assumptions c08_boosted_dictator_anonymous.
Print Assumptions c08_rd_closed_form_anonymous.
Print Assumptions c08_rd_law_anonymous.
Print Assumptions c08_brd_law_anonymous.
Print Assumptions c08_pairwise_graph_cand_order.
Print Assumptions c08_dominating_cand_order.
Print Assumptions c08_condo_cand_order.
Print Assumptions c08_one_shot_tiebreak_cand_order.
Print Assumptions c08_rating_cand_order.
Print Assumptions c08_toptwo_cand_order.
Print Assumptions c08_stv_cand_order.
Print Assumptions c08_alaska_cand_order.
Print Assumptions c08_dictator_cand_order.
Print Assumptions c08_pv_decondense_anonymous.
Print Assumptions c08_pv_round0_anonymous.
Print Assumptions c08_pv_first_round_anonymous.

(* ====================================================================== *)
(** * 9. Where the statement of C08 fails on the model (witnesses, computed; cand := positive) *)

(* PluralityVeto depends on the order of the ballots under one and the same script: two voters,
   1>2 and 2>1, script "the voter at index 0 vetoes first".  Round 0 is the same; then the ballot
   order decides who is eliminated and who wins. *)
Theorem c08_pv_order_dependent_refuted :
  exists (p p' : profile positive) (s : mstate positive),
    Permutation (ballots p) (ballots p') /\ cands p = cands p' /\
    exists a0 a1 a2 b0 b1 b2 s1,
      run_pv positive Pos.eqb 1 None p s = inl ([a0; a1; a2], s1) /\
      run_pv positive Pos.eqb 1 None p' s = inl ([b0; b1; b2], s1) /\
      escores a0 = escores b0 /\
      eliminated a1 = [[2%positive]] /\ elected a2 = [[1%positive]] /\
      eliminated b1 = [[1%positive]] /\ elected b2 = [[2%positive]].
Proof. exact C08Witness.pv_order_dependent_ex. Qed.

(* PluralityVeto rejects (TypeError) a weight-1 ballot split into two halves *)
Theorem c08_pv_split_refuted :
  exists (p p' : profile positive) (s : mstate positive),
    profile_equiv positive Pos.eqb p p' /\
    (exists sts s1, run_pv positive Pos.eqb 1 None p s = inl (sts, s1)) /\
    run_pv positive Pos.eqb 1 None p' s = inr EType.
Proof. exact C08Witness.pv_split_rejected_ex. Qed.

(* rating family: a ballot of weight ZERO carrying an out-of-range rating makes the election fail
   (TypeError), although it is invisible in the electorate *)
Theorem c08_rating_zero_weight_refuted :
  exists (p p' : profile positive) (s : mstate positive),
    profile_equiv positive Pos.eqb p p' /\
    one_shot_domain positive SKBallotScores p /\ one_shot_domain positive SKBallotScores p' /\
    run_rule positive Pos.eqb (RRating 1 1 None None) p s = inr EType /\
    exists sts, run_rule positive Pos.eqb (RRating 1 1 None None) p' s = inl (sts, s).
Proof. exact C08Witness.rating_zero_weight_ex. Qed.

(* RandomDictator: no ballots -> IndexError; one ballot of weight zero -> ValueError *)
Theorem c08_dictator_zero_weight_refuted :
  exists (p p' : profile positive) (s : mstate positive),
    profile_equiv positive Pos.eqb p p' /\
    one_shot_domain positive SKFpv p /\ one_shot_domain positive SKFpv p' /\
    run_rule positive Pos.eqb (RRandomDictator 1) p s = inr EIndex /\
    run_rule positive Pos.eqb (RRandomDictator 1) p' s = inr EValue.
Proof. exact C08Witness.dictator_zero_weight_ex. Qed.

Print Assumptions c08_pv_order_dependent_refuted.
Print Assumptions c08_pv_split_refuted.
Print Assumptions c08_rating_zero_weight_refuted.
Print Assumptions c08_dictator_zero_weight_refuted.

(* ====================================================================== *)
(** * Non-vacuity
   [ex_p], [ex_p2] (Properties/C08.v): 4 x (1>2>3), 3 x (2>3>1), 2 x (3>2>1) — and the same
   electorate with the first ballot split 4 = 1 + 3, the ballots reversed and the candidates listed
   as [3;1;2].  [c08_ex_profile_equiv], [c08_ex_domain], [c08_ex_stv_domain] are proved there. *)

Module C08RulesExamples.

Definition pe := c08_ex_profile_equiv.
Definition d1 : one_shot_domain positive SKFpv ex_p := proj1 c08_ex_domain.
Definition d2 : one_shot_domain positive SKFpv ex_p2 := proj2 c08_ex_domain.
(* the ranked kinds share one domain *)
Definition b1 : one_shot_domain positive SKBorda ex_p := proj1 c08_ex_domain.
Definition b2 : one_shot_domain positive SKBorda ex_p2 := proj2 c08_ex_domain.

Example ex_pw_domain : pw_domain positive ex_p /\ pw_domain positive ex_p2.
Proof. split; (split; [apply c08_ex_domain|apply c08_ex_domain]). Qed.

(* the two profiles are different lists of ballots and candidates *)
Example ex_really_different :
  length (ballots ex_p) = 3%nat /\ length (ballots ex_p2) = 4%nat /\ cands ex_p <> cands ex_p2.
Proof. repeat split. discriminate. Qed.

(* pairwise layer: both graphs, computed: 1 is beaten by 2 and 3 (5 to 4), 2 beats 3 (7 to 2) *)
Example ex_tiers :
  dominating_tiers positive Pos.eqb ex_p = inl [[2]; [3]; [1]]%positive /\
  dominating_tiers positive Pos.eqb ex_p2 = inl [[2]; [3]; [1]]%positive.
Proof. split; vm_compute; reflexivity. Qed.

Example ex_graph_by_theorem :
  res_equiv (pwc_equiv positive) (pairwise_graph positive Pos.eqb ex_p) (pairwise_graph positive Pos.eqb ex_p2).
Proof.
  exact (c08_pairwise_graph_anonymous positive Pos.eqb Pos.eqb_spec ex_p ex_p2
           (proj1 ex_pw_domain) (proj2 ex_pw_domain) pe).
Qed.

(* the dictionaries list their entries in different orders *)
Example ex_dicts_differ :
  exists g g', pairwise_graph positive Pos.eqb ex_p = inl g /\ pairwise_graph positive Pos.eqb ex_p2 = inl g' /\
    map fst (pw_dict g) = [(2, 3); (3, 1); (2, 1)]%positive /\
    map fst (pw_dict g') = [(2, 1); (3, 1); (2, 3)]%positive.
Proof. eexists. eexists. vm_compute. repeat split. Qed.

Example ex_dominating_by_theorem :
  mres_equiv positive (Forall2 (state_equiv positive))
    (run_rule positive Pos.eqb RDominating ex_p ex_s0) (run_rule positive Pos.eqb RDominating ex_p2 ex_s0).
Proof.
  exact (c08_dominating_anonymous positive Pos.eqb Pos.eqb_spec ex_p ex_p2 ex_s0
           (proj1 ex_pw_domain) (proj2 ex_pw_domain) pe).
Qed.

Example ex_dominating_runs :
  exists a0 a1 b0 b1,
    run_rule positive Pos.eqb RDominating ex_p ex_s0 = inl ([a0; a1], ex_s0) /\
    run_rule positive Pos.eqb RDominating ex_p2 ex_s0 = inl ([b0; b1], ex_s0) /\
    elected a1 = [[2%positive]] /\ elected b1 = [[2%positive]] /\
    remaining a0 = [[1; 2; 3]%positive] /\ remaining b0 = [[3; 1; 2]%positive].
Proof. eexists. eexists. eexists. eexists. vm_compute. repeat split. Qed.

(* CondoBorda electing two: the top tier {2}, then {3} *)
Example ex_condo_by_theorem :
  mres_equiv positive (Forall2 (state_equiv positive))
    (run_rule positive Pos.eqb (RCondoBorda 2) ex_p ex_s0) (run_rule positive Pos.eqb (RCondoBorda 2) ex_p2 ex_s0).
Proof.
  exact (c08_condo_anonymous positive Pos.eqb Pos.eqb_spec 2 ex_p ex_p2 ex_s0 eq_refl b1 b2 pe).
Qed.

Example ex_condo_runs :
  exists a0 a1 b0 b1,
    run_rule positive Pos.eqb (RCondoBorda 2) ex_p ex_s0 = inl ([a0; a1], ex_s0) /\
    run_rule positive Pos.eqb (RCondoBorda 2) ex_p2 ex_s0 = inl ([b0; b1], ex_s0) /\
    elected a1 = [[2]; [3]]%positive /\ elected b1 = [[2]; [3]]%positive.
Proof. eexists. eexists. eexists. eexists. vm_compute. repeat split. Qed.

(* a tiebreak rule that is actually used: Plurality for 1 seat among tallies 4,3,2 needs none, so
   take a tied electorate: 1>2 and 2>1, once each; first_place cannot separate them -> EScript on
   both representations; Borda tiebreak on ex_p for SNTV(2) is not needed either; the theorem covers
   all of these uniformly *)
Example ex_plurality_tiebreak_by_theorem :
  mres_equiv positive (Forall2 (state_equiv positive))
    (run_rule positive Pos.eqb (RPlurality 1 (Some TBBorda)) ex_p ex_s0)
    (run_rule positive Pos.eqb (RPlurality 1 (Some TBBorda)) ex_p2 ex_s0).
Proof.
  apply (c08_plurality_tiebreak_anonymous positive Pos.eqb Pos.eqb_spec 1 (Some TBBorda) ex_p ex_p2 ex_s0);
    [right; split; [exact I|reflexivity]|exact d1|exact d2|exact pe].
Qed.

(* a random tiebreak that IS drawn: tallies 2, 2, 1 — Plurality for one seat must break {1, 2};
   the script answers "2 first"; the tied set is listed (and logged) as [1;2] on one representation
   and [2;1] on the other; the records agree *)
Definition t_p : profile positive :=
  mkProfile [ex_b [1;2;3]%positive 2; ex_b [2;1;3]%positive 2; ex_b [3;1;2]%positive 1] [1;2;3]%positive.
Definition t_split : list (ballot positive) :=
  [ex_b [1;2;3]%positive 2; ex_b [2;1;3]%positive 1; ex_b [2;1;3]%positive 1; ex_b [3;1;2]%positive 1].
Definition t_p2 : profile positive := mkProfile (rev t_split) [2;3;1]%positive.
Definition t_script : mstate positive := mkM [DPerm [2;1]%positive] [].

Example ex_tied_equiv : profile_equiv positive Pos.eqb t_p t_p2.
Proof.
  split.
  - apply (dist_eq_trans positive Pos.eqb _ t_split).
    + apply (c08_dist_eq_split positive Pos.eqb Pos.eqb_spec [ex_b [1;2;3]%positive 2]
               (ex_b [2;1;3]%positive 2) [ex_b [3;1;2]%positive 1]
               [ex_b [2;1;3]%positive 1; ex_b [2;1;3]%positive 1]).
      * repeat constructor.
      * vm_compute. reflexivity.
    + apply c08_dist_eq_reorder. apply Permutation_rev.
  - cbn [cands t_p t_p2]. apply (Permutation_cons_append [2;3]%positive 1%positive).
Qed.

Example ex_tied_domain : one_shot_domain positive SKFpv t_p /\ one_shot_domain positive SKFpv t_p2.
Proof.
  assert (P213 : Permutation [2;1;3]%positive [1;2;3]%positive) by apply perm_swap.
  assert (P312 : Permutation [3;1;2]%positive [1;2;3]%positive).
  { apply (Permutation_cons_append [1;2]%positive 3%positive). }
  split; apply ex_wf.
  - intros c Hc; exact Hc.
  - repeat constructor; cbn; intuition discriminate.
  - repeat constructor.
    + exists [1;2;3]%positive, 2%Z. repeat split; [discriminate|apply Permutation_refl].
    + exists [2;1;3]%positive, 2%Z. repeat split; [discriminate|exact P213].
    + exists [3;1;2]%positive, 1%Z. repeat split; [discriminate|exact P312].
  - cbn. intuition (subst; auto).
  - repeat constructor; cbn; intuition discriminate.
  - repeat constructor.
    + exists [3;1;2]%positive, 1%Z. repeat split; [discriminate|exact P312].
    + exists [2;1;3]%positive, 1%Z. repeat split; [discriminate|exact P213].
    + exists [2;1;3]%positive, 1%Z. repeat split; [discriminate|exact P213].
    + exists [1;2;3]%positive, 2%Z. repeat split; [discriminate|apply Permutation_refl].
Qed.

Example ex_tied_by_theorem :
  mres_equiv_log positive Pos.eqb (Forall2 (state_equiv positive))
    (run_rule positive Pos.eqb (RPlurality 1 (Some TBRandom)) t_p t_script)
    (run_rule positive Pos.eqb (RPlurality 1 (Some TBRandom)) t_p2 t_script).
Proof.
  exact (c08_plurality_script_anonymous positive Pos.eqb Pos.eqb_spec 1 (Some TBRandom) t_p t_p2 t_script
           (proj1 ex_tied_domain) (proj2 ex_tied_domain) ex_tied_equiv).
Qed.

Example ex_tied_runs :
  exists a0 a1 b0 b1 sa sb,
    run_rule positive Pos.eqb (RPlurality 1 (Some TBRandom)) t_p t_script = inl ([a0; a1], sa) /\
    run_rule positive Pos.eqb (RPlurality 1 (Some TBRandom)) t_p2 t_script = inl ([b0; b1], sb) /\
    elected a1 = [[2%positive]] /\ elected b1 = [[2%positive]] /\
    tiebreaks a1 = [([1;2]%positive, [[2];[1]]%positive)] /\
    tiebreaks b1 = [([2;1]%positive, [[2];[1]]%positive)] /\
    sa = mkM [] [CSample [1;2]%positive] /\ sb = mkM [] [CSample [2;1]%positive].
Proof. eexists. eexists. eexists. eexists. eexists. eexists. vm_compute. repeat split. Qed.

(* the same electorate on the deterministic path: with an empty script both fail with EScript *)
Example ex_tied_empty_script :
  run_rule positive Pos.eqb (RPlurality 1 (Some TBRandom)) t_p ex_s0 = inr EScript /\
  run_rule positive Pos.eqb (RPlurality 1 (Some TBRandom)) t_p2 ex_s0 = inr EScript.
Proof. split; vm_compute; reflexivity. Qed.

(* TopTwo: 1 and 2 go through, then 2 beats 1 five to four *)
Example ex_toptwo_by_theorem :
  mres_equiv positive (Forall2 (state_equiv positive))
    (run_rule positive Pos.eqb (RTopTwo None) ex_p ex_s0) (run_rule positive Pos.eqb (RTopTwo None) ex_p2 ex_s0).
Proof.
  apply (c08_toptwo_anonymous positive Pos.eqb Pos.eqb_spec None ex_p ex_p2 ex_s0);
    [left; reflexivity|exact d1|exact d2|exact pe].
Qed.

Example ex_toptwo_runs :
  exists a0 a1 a2 b0 b1 b2,
    run_rule positive Pos.eqb (RTopTwo None) ex_p ex_s0 = inl ([a0; a1; a2], ex_s0) /\
    run_rule positive Pos.eqb (RTopTwo None) ex_p2 ex_s0 = inl ([b0; b1; b2], ex_s0) /\
    eliminated a1 = [[3%positive]] /\ eliminated b1 = [[3%positive]] /\
    elected a2 = [[2%positive]] /\ elected b2 = [[2%positive]] /\
    escores a1 = [(1%positive, 4); (2%positive, 5)] /\ escores b1 = [(1%positive, 4); (2%positive, 5)].
Proof. eexists. eexists. eexists. eexists. eexists. eexists. vm_compute. repeat split. Qed.

(* Alaska: top 2 by plurality, then IRV among them *)
Example ex_alaska_by_theorem :
  mres_equiv positive (Forall2 (state_equiv positive))
    (run_rule positive Pos.eqb (RAlaska 2 1 ex_cfg) ex_p ex_s0) (run_rule positive Pos.eqb (RAlaska 2 1 ex_cfg) ex_p2 ex_s0).
Proof.
  apply (c08_alaska_anonymous positive Pos.eqb Pos.eqb_spec 2 1 ex_cfg ex_p ex_p2 ex_s0);
    [reflexivity|discriminate|reflexivity|apply c08_ex_stv_domain|apply c08_ex_stv_domain|exact pe].
Qed.

Example ex_alaska_runs :
  exists a0 a1 a2 b0 b1 b2,
    run_rule positive Pos.eqb (RAlaska 2 1 ex_cfg) ex_p ex_s0 = inl ([a0; a1; a2], ex_s0) /\
    run_rule positive Pos.eqb (RAlaska 2 1 ex_cfg) ex_p2 ex_s0 = inl ([b0; b1; b2], ex_s0) /\
    eliminated a1 = [[3%positive]] /\ eliminated b1 = [[3%positive]] /\
    elected a2 = [[2%positive]] /\ elected b2 = [[2%positive]].
Proof. eexists. eexists. eexists. eexists. eexists. eexists. vm_compute. repeat split. Qed.

(* RandomDictator with a script that draws the ballot 1>2>3: present (with weight 4, resp. 1 and 3)
   in both representations; the logged populations differ, the records agree *)
Definition ex_rd_script : mstate positive := mkM [DRank [[1]; [2]; [3]]%positive] [].

Example ex_dictator_domain : dictator_domain positive ex_p /\ dictator_domain positive ex_p2.
Proof. split; (split; [apply c08_ex_domain|intros _; vm_compute; reflexivity]). Qed.

Example ex_rd_by_theorem :
  mres_equiv_log positive Pos.eqb (Forall2 (state_equiv positive))
    (run_rule positive Pos.eqb (RRandomDictator 1) ex_p ex_rd_script)
    (run_rule positive Pos.eqb (RRandomDictator 1) ex_p2 ex_rd_script).
Proof.
  exact (c08_random_dictator_anonymous positive Pos.eqb Pos.eqb_spec 1 ex_p ex_p2 ex_rd_script
           (proj1 ex_dictator_domain) (proj2 ex_dictator_domain) pe).
Qed.

Example ex_rd_runs :
  exists a0 a1 b0 b1 sa sb,
    run_rule positive Pos.eqb (RRandomDictator 1) ex_p ex_rd_script = inl ([a0; a1], sa) /\
    run_rule positive Pos.eqb (RRandomDictator 1) ex_p2 ex_rd_script = inl ([b0; b1], sb) /\
    elected a1 = [[1%positive]] /\ elected b1 = [[1%positive]] /\
    scr sa = [] /\ scr sb = [] /\
    lg sa = [CChoices [([[1]; [2]; [3]]%positive, 4); ([[2]; [3]; [1]]%positive, 3); ([[3]; [2]; [1]]%positive, 2)]] /\
    lg sb = [CChoices [([[3]; [2]; [1]]%positive, 2); ([[2]; [3]; [1]]%positive, 3);
                       ([[1]; [2]; [3]]%positive, 3); ([[1]; [2]; [3]]%positive, 1)]].
Proof. eexists. eexists. eexists. eexists. eexists. eexists. vm_compute. repeat split. Qed.

(* BoostedRandomDictator taking the proportional-to-squares branch: u = 0, then candidate 2 *)
Definition ex_brd_script : mstate positive := mkM [DUnit 0; DCand 2%positive] [].

Example ex_brd_by_theorem :
  mres_equiv_log positive Pos.eqb (Forall2 (state_equiv positive))
    (run_rule positive Pos.eqb (RBoosted 1) ex_p ex_brd_script)
    (run_rule positive Pos.eqb (RBoosted 1) ex_p2 ex_brd_script).
Proof.
  exact (c08_boosted_dictator_anonymous positive Pos.eqb Pos.eqb_spec 1 ex_p ex_p2 ex_brd_script
           (proj1 ex_dictator_domain) (proj2 ex_dictator_domain) pe).
Qed.

Example ex_brd_runs :
  exists a0 a1 b0 b1 sa sb,
    run_rule positive Pos.eqb (RBoosted 1) ex_p ex_brd_script = inl ([a0; a1], sa) /\
    run_rule positive Pos.eqb (RBoosted 1) ex_p2 ex_brd_script = inl ([b0; b1], sb) /\
    elected a1 = [[2%positive]] /\ elected b1 = [[2%positive]] /\ scr sa = [] /\ scr sb = [].
Proof. eexists. eexists. eexists. eexists. eexists. eexists. vm_compute. repeat split. Qed.

(* the law: 1 is elected with probability 4/9 on both representations *)
Example ex_rd_domain : rd_domain positive ex_p /\ rd_domain positive ex_p2.
Proof.
  split; (split; [|vm_compute; reflexivity]); repeat constructor;
    (eexists; eexists; split; [reflexivity|split; [discriminate|repeat constructor; intros []]]).
Qed.

Example ex_rd_law_by_theorem :
  same_law positive Pos.eqb (law_rd_winner positive ex_p) (law_rd_winner positive ex_p2).
Proof.
  exact (c08_rd_law_anonymous positive Pos.eqb Pos.eqb_spec ex_p ex_p2
           (proj1 ex_rd_domain) (proj2 ex_rd_domain) (proj1 pe)).
Qed.

Example ex_rd_law_values :
  prob (Pos.eqb 1) (law_rd_winner positive ex_p) == 4 # 9 /\
  prob (Pos.eqb 1) (law_rd_winner positive ex_p2) == 4 # 9.
Proof. split; vm_compute; reflexivity. Qed.

(* ---- the rating family: rated ballots, one split 2 = 1 + 1 with its score map written in the
   other order, the ballots reordered, the candidates listed in another order ---- *)
Definition sbal (d : list (positive * Q)) (w : Q) : ballot positive := mkBallot [] w d None None.
Definition rp : profile positive :=
  mkProfile [sbal [(1%positive, 1); (2%positive, 1)] 2; sbal [(2%positive, 1)] 3] [1; 2; 3]%positive.
Definition rp_split : list (ballot positive) :=
  [sbal [(2%positive, 1); (1%positive, 1)] 1; sbal [(1%positive, 1); (2%positive, 1)] 1; sbal [(2%positive, 1)] 3].
Definition rp2 : profile positive := mkProfile (rev rp_split) [3; 1; 2]%positive.

Example ex_rated_equiv : profile_equiv positive Pos.eqb rp rp2.
Proof.
  split.
  - apply (dist_eq_trans positive Pos.eqb _ rp_split).
    + apply (c08_dist_eq_split positive Pos.eqb Pos.eqb_spec []
               (sbal [(1%positive, 1); (2%positive, 1)] 2) [sbal [(2%positive, 1)] 3]
               [sbal [(2%positive, 1); (1%positive, 1)] 1; sbal [(1%positive, 1); (2%positive, 1)] 1]).
      * repeat constructor.
      * vm_compute. reflexivity.
    + apply c08_dist_eq_reorder. apply Permutation_rev.
  - cbn [cands rp rp2].
    apply (Permutation_trans (l' := [1; 3; 2]%positive)); [apply perm_skip, perm_swap|apply perm_swap].
Qed.

Example ex_rated_domain : rating_domain positive 1 None rp /\ rating_domain positive 1 None rp2.
Proof.
  assert (H : forall bs cs, (forall c, In c [1; 2]%positive -> In c cs) -> NoDup cs ->
            Forall (fun b => exists d w, b = sbal d w /\ 0 < w /\ d <> [] /\ NoDup (map fst d) /\
                                         incl (map fst d) [1; 2]%positive) bs ->
            rating_domain positive 1 None (mkProfile bs cs)).
  { intros bs cs Hcs Hnd Hbs. rewrite Forall_forall in Hbs. split; [split; [|split]|]; cbn [ballots cands].
    - apply Forall_forall. intros b Hb. destruct (Hbs b Hb) as [d [w [-> [Hw _]]]]. cbn [wt sbal].
      apply Qlt_le_weak. exact Hw.
    - exact Hnd.
    - apply Forall_forall. intros b Hb. destruct (Hbs b Hb) as [d [w [-> [_ [Hne [Hn Hi]]]]]].
      split; [reflexivity|]. split; [exact Hne|]. split; [exact Hn|].
      intros c Hc. apply Hcs. apply Hi. exact Hc.
    - apply Forall_forall. intros b Hb. destruct (Hbs b Hb) as [d [w [-> [Hw _]]]]. cbn [wt sbal].
      intros Hz. rewrite Hz in Hw. exfalso. apply (Qlt_irrefl 0). exact Hw. }
  split; apply H.
  - intros c [<-|[<-|[]]]; cbn; tauto.
  - repeat constructor; cbn; intuition discriminate.
  - repeat constructor; (eexists; eexists; split; [reflexivity|]);
      (split; [reflexivity|split; [discriminate|split; [repeat constructor; cbn; intuition discriminate|]]]);
      intros c Hc; cbn in Hc |- *; tauto.
  - intros c [<-|[<-|[]]]; cbn; tauto.
  - repeat constructor; cbn; intuition discriminate.
  - repeat constructor; (eexists; eexists; split; [reflexivity|]);
      (split; [reflexivity|split; [discriminate|split; [repeat constructor; cbn; intuition discriminate|]]]);
      intros c Hc; cbn in Hc |- *; tauto.
Qed.

Example ex_rating_by_theorem :
  mres_equiv positive (Forall2 (state_equiv positive))
    (run_rule positive Pos.eqb (RRating 1 1 None None) rp ex_s0)
    (run_rule positive Pos.eqb (RRating 1 1 None None) rp2 ex_s0).
Proof.
  exact (c08_rating_anonymous positive Pos.eqb Pos.eqb_spec 1 1 None rp rp2 ex_s0
           (proj1 ex_rated_domain) (proj2 ex_rated_domain) ex_rated_equiv).
Qed.

(* approval tallies 2, 5, 0: candidate 2 wins on both representations *)
Example ex_rating_runs :
  exists a0 a1 b0 b1,
    run_rule positive Pos.eqb (RRating 1 1 None None) rp ex_s0 = inl ([a0; a1], ex_s0) /\
    run_rule positive Pos.eqb (RRating 1 1 None None) rp2 ex_s0 = inl ([b0; b1], ex_s0) /\
    elected a1 = [[2%positive]] /\ elected b1 = [[2%positive]] /\
    escores a0 = [(1%positive, 2); (2%positive, 5); (3%positive, 0)] /\
    escores b0 = [(3%positive, 0); (1%positive, 2); (2%positive, 5)].
Proof. eexists. eexists. eexists. eexists. vm_compute. repeat split. Qed.

(* candidate order alone *)
Example ex_cand_order_by_theorem :
  mres_equiv positive (Forall2 (state_equiv positive))
    (run_rule positive Pos.eqb (RCondoBorda 1) (mkProfile (ballots ex_p) [1; 2; 3]%positive) ex_s0)
    (run_rule positive Pos.eqb (RCondoBorda 1) (mkProfile (ballots ex_p) [3; 1; 2]%positive) ex_s0).
Proof.
  apply (c08_condo_cand_order positive Pos.eqb Pos.eqb_spec 1 (ballots ex_p) [1; 2; 3]%positive [3; 1; 2]%positive ex_s0);
    [reflexivity|exact b1|].
  apply (Permutation_trans (l' := [1; 3; 2]%positive)); [apply perm_skip, perm_swap|apply perm_swap].
Qed.

(* PluralityVeto: whole-number weights, and the first records of two runs with DIFFERENT scripts *)
Example ex_pv_integral : integral_wts positive (ballots ex_p) /\ integral_wts positive (ballots ex_p2).
Proof.
  split; repeat constructor;
    [exists 4%nat|exists 3%nat|exists 2%nat|exists 2%nat|exists 3%nat|exists 3%nat|exists 1%nat]; reflexivity.
Qed.

Example ex_pv_round0_by_theorem :
  res_equiv (state_equiv positive)
    (round0 positive Pos.eqb SKFpv (mkProfile (decondense positive (ballots ex_p)) (cands ex_p)))
    (round0 positive Pos.eqb SKFpv (mkProfile (decondense positive (ballots ex_p2)) (cands ex_p2))).
Proof.
  exact (c08_pv_round0_anonymous positive Pos.eqb Pos.eqb_spec ex_p ex_p2
           (proj1 (proj2 d1)) (proj1 (proj2 d2)) (proj1 ex_pv_integral) (proj2 ex_pv_integral) pe).
Qed.

End C08RulesExamples.
