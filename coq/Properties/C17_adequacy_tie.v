(* Properties/C17_adequacy_tie.v — C17, last sentence ("a random tiebreak orders the tied
   candidates uniformly, so each tied candidate is equally likely to take the contested seat or be
   the one eliminated"), LINKED to the model's functions.  Properties/C17.v proves the algebra of
   the uniform-permutation law [uperm] on abstract events of the drawn order ([among_first],
   [is_last]); Properties/C05_tiebreaks.v / C10_stv2.v describe what one script does.  Here the law
   of the OUTCOME is the push-forward of [uperm g] through the MODEL function run on the script
   whose next draw is the order:

     push law f                      the law of f(a) for a ~ law      (Spec/TieLawSpec.v)
     prob ev d                       sum of the weights of the support points of d satisfying ev
     next_order l rest lg0           the random-source state whose next answer is the order l
     listed c                        the event "c is among the listed candidates"
     tiebreak_first j / top_m_elected / run_winners / round_elected / round_eliminated
                                     the outcome read off the answer of tiebreak_set / elect_top_m /
                                     run_rule (= get_elected()) / stv_step (nobody if it fails)

   Trusted, as in Properties/C17.v: random.sample(S, |S|) has the law [uperm S].
   Statements only; proofs are in Proofs/C17_adequacy_tie.v. *)
From VK Require Import Base Core STV Pairwise Rules PV Election Laws.
From VK.Spec Require Import ScoreSpec EditSpec STVSpec TieSpec RunSpec OneShotSpec LawSpec TieLawSpec.
From VK.Proofs Require Import C17_adequacy_tie STV_final.
From Coq Require Import Permutation.

(* the push-forward: P_{push law f}(ev) = P_law(ev o f), and the mass is kept *)
Theorem c17_push_prob : forall {A B} (ev : B -> bool) (law : dist A) (f : A -> B),
  prob ev (push law f) == prob (fun a => ev (f a)) law.
Proof. exact @prob_push. Qed.

Theorem c17_push_mass : forall {A B} (law : dist A) (f : A -> B), mass (push law f) == mass law.
Proof. exact @mass_push. Qed.

Print Assumptions c17_push_prob.
Print Assumptions c17_push_mass.

Section C17_adequacy_tie.
Variable cand : Type.
Variable ceqb : cand -> cand -> bool.
Hypothesis ceqb_spec : forall a b, reflect (a = b) (ceqb a b).

Notation cset := (cset cand).
Notation ranking := (ranking cand).
Notation profile := (profile cand).
Notation scores := (scores cand).
Notation estate := (estate cand).
Notation mstate := (mstate cand).
Notation flat := (flat cand).
Notation singletons := (singletons cand).
Notation memb := (memb cand ceqb).
Notation uperm := (uperm cand).
Notation listed := (listed cand ceqb).
Notation next_order := (next_order cand).
Notation tiebreak_first := (tiebreak_first cand).
Notation top_m_elected := (top_m_elected cand).
Notation run_winners := (run_winners cand).
Notation round_elected := (round_elected cand).
Notation round_eliminated := (round_eliminated cand).
Notation score_to_ranking := (score_to_ranking cand).
Notation first_place_votes := (first_place_votes cand ceqb).
Notation tiebreak_set := (tiebreak_set cand ceqb).
Notation elect_top_m := (elect_top_m cand ceqb).
Notation score_fn := (score_fn cand ceqb).
Notation run_rule := (run_rule cand ceqb).
Notation one_shot_params := (one_shot_params cand).
Notation one_shot_valid := (one_shot_valid cand).
Notation big := (big cand).
Notation rebuild := (rebuild cand).
Notation no_group := (no_group cand).
Notation tally := (tally cand ceqb).
Notation step_ctx := (step_ctx cand ceqb).
Notation stv_step := (stv_step cand ceqb).
Notation tied_at := (tied_at cand).
Notation set_diff := (set_diff cand ceqb).

(* ================================================================== *)
(** * 1. tiebreak_set(g, "random"): the first j of its answer *)

(* for every duplicate-free g and every 0 <= j <= |g| (j = 0 and j = |g| included): under the
   uniform-permutation law of the draw, each member of g is among the first j entries of the
   answer of the model's [tiebreak_set] with probability exactly j/|g|, everybody else with
   probability 0 *)
Theorem c17_tiebreak_set_seat_law : forall (g : cset) (po : option profile) j rest lg0 c,
  NoDup g -> (j <= length g)%nat ->
  prob (listed c)
       (push (uperm g) (fun l => tiebreak_first j (tiebreak_set g po TBRandom (next_order l rest lg0))))
  == if memb c g then Qnat j / Qnat (length g) else 0.
Proof. exact (tiebreak_set_seat_law cand ceqb ceqb_spec). Qed.

(* ================================================================== *)
(** * 2. elect_top_m (elect_cands_from_set_ranking) with tiebreak = random *)

(* a group g of a duplicate-free ranking straddles seat m, j = m - |pre| seats are left for it:
   on every order l of g the model elects the groups before g, then the first j of l; under the
   uniform law each member of g is elected with probability exactly j/|g|, the candidates ranked
   before g with probability 1, those ranked after g with probability 0 *)
Theorem c17_elect_top_m_boundary_tie_law :
  forall (pre : ranking) (g : cset) (post : ranking) m (po : option profile) rest lg0,
  NoDup (flat (pre ++ g :: post)) ->
  (Z.of_nat (length (flat pre)) < m < Z.of_nat (length (flat pre) + length g))%Z ->
  let j := (Z.to_nat m - length (flat pre))%nat in
  let outcome := fun l =>
    top_m_elected (elect_top_m (pre ++ g :: post) m po (Some TBRandom) (next_order l rest lg0)) in
  (0 < j < length g)%nat /\
  (forall l, Permutation l g -> NoDup l -> outcome l = flat pre ++ firstn j l) /\
  (forall c, In c g -> prob (listed c) (push (uperm g) outcome) == Qnat j / Qnat (length g)) /\
  (forall c, In c (flat pre) -> prob (listed c) (push (uperm g) outcome) == 1) /\
  (forall c, In c (flat post) -> prob (listed c) (push (uperm g) outcome) == 0).
Proof. exact (elect_top_m_boundary_law cand ceqb ceqb_spec). Qed.

(* ================================================================== *)
(** * 3. the one-shot rules (Plurality / SNTV, Borda, GeneralRating, Limited, BlocPlurality, hence
      Rating, Approval, Cumulative): the law of get_elected() *)

(* under the hypotheses of [c05_random_tiebreak] (valid input, tiebreak = random, the group g of
   the round-0 ranking straddles seat m, j = m - |pre| seats are left for it): g is duplicate-free
   and 0 < j < |g|; on every order l of g the run of the MODEL succeeds, consumes that one draw
   (logged as random.sample(g)) and get_elected() lists the groups before g, then the first j of l;
   hence, the draw having the uniform-permutation law [uperm g] (each of the |g|! orders with
   probability 1/|g|!, Properties/C17.v), each member of g is a winner with probability exactly
   j/|g|, the candidates ranked before g with probability 1, those ranked after g with
   probability 0, and the law of the winner list has total mass 1 *)
Theorem c17_oneshot_boundary_tie_law : forall r (p : profile) k m d pre g post rest lg0,
  one_shot_params r p = Some (k, m, Some TBRandom) -> one_shot_valid r p -> score_fn k p = inl d ->
  score_to_ranking d true = pre ++ g :: post ->
  (Z.of_nat (length (flat pre)) < m < Z.of_nat (length (flat pre) + length g))%Z ->
  let j := (Z.to_nat m - length (flat pre))%nat in
  let winners := fun l => run_winners (run_rule r p (next_order l rest lg0)) in
  NoDup g /\ (0 < j < length g)%nat /\
  (forall l, Permutation l g -> NoDup l ->
     (exists sts, run_rule r p (next_order l rest lg0) = inl (sts, mkM rest (CSample g :: lg0))) /\
     winners l = flat pre ++ firstn j l) /\
  (forall c, In c g -> prob (listed c) (push (uperm g) winners) == Qnat j / Qnat (length g)) /\
  (forall c, In c (flat pre) -> prob (listed c) (push (uperm g) winners) == 1) /\
  (forall c, In c (flat post) -> prob (listed c) (push (uperm g) winners) == 0) /\
  mass (push (uperm g) winners) == 1.
Proof. exact (oneshot_boundary_tie_law cand ceqb ceqb_spec). Qed.

(* ================================================================== *)
(** * 4. one STV round: a tie for elimination

   MODEL FACT (src/votekit/elections/election_types/ranking/stv.py:307): the elimination tie is NOT
   broken by the configured tiebreak; it is always tiebreak_set(lowest, initial profile,
   "first_place"), which draws a random order only inside the sub-groups of [lowest] still tied on
   the first-place votes d0 of the INITIAL profile p0.  The candidate eliminated is the last entry
   of the answer, i.e. the last of the order drawn for the LAST sub-group g (the members of [lowest]
   with the fewest initial first-place votes).  So "each tied candidate is equally likely to be
   the one eliminated" holds among the members of g, the other members of [lowest] are never
   eliminated in that round. *)

(* the round context ([step_ctx], Spec/STVSpec.v: valid initial profile p0, current profile p over
   candidates of p0, prev reports p's tallies), nobody reaches the threshold, the seats cannot be
   filled by default, the lowest group [low] has two or more members; r2 = [low] re-ranked by the
   initial first-place votes = pre2 ++ [g] with |g| >= 2; the script answers the draws for the tied
   sub-groups of pre2 by ANY valid orders ls1, then the draw for g by l.  Then: on every order l of
   g the round succeeds, the draw is logged as random.sample(g), the eliminated candidate is the
   LAST of l and the recorded tiebreak ends with l; under the uniform law of that draw each member
   of g is eliminated with probability exactly 1/|g|, everybody else with probability 0 *)
Theorem c17_stv_elimination_tie_law :
  forall cfg t (p0 p : profile) prev n, step_ctx p0 p prev ->
  forall pre low d0 pre2 g ls1 rest lg0,
  (forall c, In c (cands p) -> tally c (ballots p) < t) ->
  Z.of_nat (length (cands p)) <> (s_m cfg - n)%Z ->
  remaining prev = pre ++ [low] -> (2 <= length low)%nat ->
  first_place_votes p0 = inl d0 ->
  score_to_ranking (filter (fun q => memb (fst q) low) d0) true = pre2 ++ [g] ->
  (2 <= length g)%nat ->
  Forall2 (fun l sg => Permutation l sg /\ NoDup l) ls1 (filter big pre2) ->
  let run := fun l => stv_step cfg t p0 n p prev (mkM (map DPerm ls1 ++ DPerm l :: rest) lg0) in
  NoDup g /\ incl g low /\
  (forall l, Permutation l g -> NoDup l ->
     exists x l' np st,
       l = l' ++ [x] /\
       run l = inl ((np, st), mkM rest (CSample g :: rev (map CSample (filter big pre2)) ++ lg0)) /\
       eliminated st = [[x]] /\ elected st = no_group /\
       tiebreaks st = [(low, rebuild pre2 ls1 ++ singletons l)]) /\
  (forall c, In c g ->
     prob (listed c) (push (uperm g) (fun l => round_eliminated (run l))) == 1 / Qnat (length g)) /\
  (forall c, ~ In c g ->
     prob (listed c) (push (uperm g) (fun l => round_eliminated (run l))) == 0) /\
  mass (push (uperm g) (fun l => round_eliminated (run l))) == 1.
Proof. exact (stv_elimination_tie_law cand ceqb ceqb_spec). Qed.

(* the case of the property: the whole lowest group is also tied on the initial first-place votes
   (always so in the first round, where p = p0).  Then the model makes ONE draw, on a listing g of
   the whole group, the last of the drawn order is eliminated, and each member of the lowest group
   is eliminated with probability exactly 1/|low| *)
Theorem c17_stv_elimination_tie_law_tied :
  forall cfg t (p0 p : profile) prev n, step_ctx p0 p prev ->
  forall pre low d0 k0 rest lg0,
  (forall c, In c (cands p) -> tally c (ballots p) < t) ->
  Z.of_nat (length (cands p)) <> (s_m cfg - n)%Z ->
  remaining prev = pre ++ [low] -> (2 <= length low)%nat ->
  first_place_votes p0 = inl d0 -> tied_at d0 low k0 ->
  exists g, Permutation g low /\ NoDup g /\
    let run := fun l => stv_step cfg t p0 n p prev (next_order l rest lg0) in
    (forall l, Permutation l g -> NoDup l ->
       exists x l' np st,
         l = l' ++ [x] /\ run l = inl ((np, st), mkM rest (CSample g :: lg0)) /\
         eliminated st = [[x]] /\ tiebreaks st = [(low, singletons l)]) /\
    (forall c, In c low ->
       prob (listed c) (push (uperm g) (fun l => round_eliminated (run l))) == 1 / Qnat (length low)).
Proof. exact (stv_elimination_tie_law_tied cand ceqb ceqb_spec). Qed.

(* ================================================================== *)
(** * 5. one STV round: a tie for the seat of a one-by-one election round, tiebreak = random *)

(* one-by-one election (s_simul = false), tiebreak = random, deterministic transfer; the top group
   g of the previous ranking has two or more members and somebody reaches the threshold.  What the
   draw affects is only WHICH member of g is elected in this round: on every order l of g, if the
   round succeeds, the head of l is the one elected, nobody is eliminated, (g, l) is recorded and
   the next profile keeps every other candidate — the other members of g included.  With a
   positive threshold the round succeeds on every order of g, and under the uniform law each member
   of g is the one elected in this round with probability exactly 1/|g| *)
Theorem c17_stv_election_tie_law : forall cfg t (p0 p : profile) prev n, step_ctx p0 p prev ->
  forall g post rest lg0,
  s_simul cfg = false -> s_tiebreak cfg = Some TBRandom -> s_transfer cfg <> TRandom ->
  remaining prev = g :: post -> (2 <= length g)%nat ->
  (exists c, In c (cands p) /\ t <= tally c (ballots p)) ->
  let run := fun l => stv_step cfg t p0 n p prev (next_order l rest lg0) in
  NoDup g /\
  (forall l np st s', Permutation l g -> NoDup l -> run l = inl ((np, st), s') ->
     exists w l', l = w :: l' /\ elected st = [[w]] /\ eliminated st = no_group /\
       tiebreaks st = [(g, singletons l)] /\ cands np = set_diff (cands p) [w]) /\
  (0 < t ->
     (forall l, Permutation l g -> NoDup l -> exists out, run l = inl out) /\
     (forall c, In c g ->
        prob (listed c) (push (uperm g) (fun l => round_elected (run l))) == 1 / Qnat (length g)) /\
     (forall c, ~ In c g ->
        prob (listed c) (push (uperm g) (fun l => round_elected (run l))) == 0)).
Proof. exact (stv_election_tie_law cand ceqb ceqb_spec). Qed.

End C17_adequacy_tie.

Print Assumptions c17_tiebreak_set_seat_law.
Print Assumptions c17_elect_top_m_boundary_tie_law.
Print Assumptions c17_oneshot_boundary_tie_law.
Print Assumptions c17_stv_elimination_tie_law.
Print Assumptions c17_stv_elimination_tie_law_tied.
Print Assumptions c17_stv_election_tie_law.

(* ================================================================== *)
(** * Non-vacuity: concrete inputs (cand := positive), laws computed by vm_compute on the model *)
Module C17AdequacyTieExamples.
Open Scope positive_scope.

Definition P (c : positive) (d : dist (list positive)) : Q := prob (listed positive Pos.eqb c) d.
Definition fresh : list positive -> mstate positive := fun l => next_order positive l [] [].

Ltac ex_nodup := repeat (constructor; [cbn; intuition discriminate|]); constructor.
Ltac ex_incl := let x := fresh "x" in let Hx := fresh "Hx" in
  intros x Hx; cbn in Hx |- *; intuition.

(* (a) tiebreak_set on three tied candidates, two contested seats: 2/3 each; j = 0 and j = 3 *)
Example c17_ex_tiebreak_set :
  let law j := push (uperm positive [1;2;3])
                 (fun l => tiebreak_first positive j
                             (tiebreak_set positive Pos.eqb [1;2;3] None TBRandom (fresh l))) in
  mass (law 2%nat) == 1 /\
  P 1 (law 2%nat) == 2 # 3 /\ P 2 (law 2%nat) == 2 # 3 /\ P 3 (law 2%nat) == 2 # 3 /\
  P 4 (law 2%nat) == 0 /\ P 1 (law 0%nat) == 0 /\ P 1 (law 3%nat) == 1 /\ P 1 (law 1%nat) == 1 # 3.
Proof. repeat split; vm_compute; reflexivity. Qed.

(* (b) Plurality, three seats; first-place votes 5 -> 2, 1 -> 1, 2 -> 1, 3 -> 1, 4 -> 0: the
   round-0 ranking is [[5]; [1;2;3]; [4]], the group [1;2;3] straddles seat 3, j = 2 *)
Definition B (r : Core.ranking positive) (w : Q) := plain_ballot positive r w.
Definition ex1 : profile positive :=
  mkProfile [B [[5];[4]] 2; B [[1];[4]] 1; B [[2];[4]] 1; B [[3];[4]] 1] [1;2;3;4;5].
Definition d1 : scores positive := Eval vm_compute in
  match first_place_votes positive Pos.eqb ex1 with inl d => d | inr _ => [] end.

Definition pre1 : ranking positive := [[5]].
Definition g1 : cset positive := [1;2;3].

Example c17_ex_oneshot_hyps :
  one_shot_params positive (RPlurality 3 (Some TBRandom)) ex1 = Some (SKFpv, 3%Z, Some TBRandom) /\
  one_shot_valid positive (RPlurality 3 (Some TBRandom)) ex1 /\
  score_fn positive Pos.eqb SKFpv ex1 = inl d1 /\
  score_to_ranking positive d1 true = pre1 ++ g1 :: [[4]] /\
  (Z.of_nat (length (flat positive pre1)) < 3
   < Z.of_nat (length (flat positive pre1) + length g1))%Z.
Proof.
  split; [reflexivity|]. split.
  - assert (Hwf : wf_profile positive ex1).
    { split; [cbn; ex_nodup|].
      repeat (constructor; [cbn; repeat split;
        [discriminate|repeat (constructor; [discriminate|]); constructor|ex_nodup|ex_incl]|]).
      constructor. }
    split; [exact Hwf|]. repeat constructor.
  - split; [vm_compute; reflexivity|]. split; [vm_compute; reflexivity|]. cbn. split; reflexivity.
Qed.

Example c17_ex_oneshot_law :
  let law := push (uperm positive [1;2;3])
               (fun l => run_winners positive
                           (run_rule positive Pos.eqb (RPlurality 3 (Some TBRandom)) ex1 (fresh l))) in
  mass law == 1 /\
  P 1 law == 2 # 3 /\ P 2 law == 2 # 3 /\ P 3 law == 2 # 3 /\ P 5 law == 1 /\ P 4 law == 0 /\
  (* the six equally likely winner lists *)
  map fst law = [[5;1;2]; [5;2;1]; [5;2;3]; [5;1;3]; [5;3;1]; [5;3;2]].
Proof. repeat split; vm_compute; reflexivity. Qed.

(* (c) STV elimination tie.  Current profile q: 4 -> 5, 1 -> 2, 2 -> 2, 3 -> 2, one seat, quota 6:
   nobody reaches it, the lowest group is [1;2;3].  In the initial profile q0 candidate 1 had 2
   first-place votes, 2 and 3 had 1 each (they each received one vote from 6, 7 since): the
   first_place tiebreak ranks [[1]; [2;3]] and draws an order of [2;3] only — 2 and 3 are eliminated
   with probability 1/2 each, candidate 1 never, although it is tied with them now *)
Definition bal (r : list positive) (w : Q) : ballot positive :=
  mkBallot (map (fun c => [c]) r) w [] None None.
Definition q0 : profile positive :=
  mkProfile [bal [4] 5; bal [1] 2; bal [2] 1; bal [3] 1; bal [6;2] 1; bal [7;3] 1] [1;2;3;4;6;7].
Definition q : profile positive := mkProfile [bal [4] 5; bal [1] 2; bal [2] 2; bal [3] 2] [1;2;3;4].
Definition qs : estate positive :=
  match initial_state positive Pos.eqb q with inl s0 => s0 | inr _ => mkState 0%Z [] [] [] [] [] end.
Definition qcfg : stv_cfg := mkStv 1%Z QDroop true TFractional None.
Definition dq0 : scores positive := Eval vm_compute in
  match first_place_votes positive Pos.eqb q0 with inl d => d | inr _ => [] end.

Ltac valid := apply (STV_final.wf_stv_profile_b_ok positive Pos.eqb Pos.eqb_spec); vm_compute; reflexivity.

Example c17_ex_elim_hyps :
  step_ctx positive Pos.eqb q0 q qs /\
  (forall c, In c (cands q) -> (tally positive Pos.eqb c (ballots q) < 6)%Q) /\
  Z.of_nat (length (cands q)) <> (s_m qcfg - 0)%Z /\
  remaining qs = [[4]] ++ [[1;2;3]] /\
  first_place_votes positive Pos.eqb q0 = inl dq0 /\
  score_to_ranking positive (filter (fun x => memb positive Pos.eqb (fst x) [1;2;3]) dq0) true
    = [[1]] ++ [[2;3]] /\
  Forall2 (fun l sg => Permutation l sg /\ NoDup l) [] (filter (big positive) [[1]]).
Proof.
  split.
  { assert (H0 : wf_stv_profile positive q0) by valid.
    assert (H1 : wf_stv_profile positive q) by valid.
    constructor; [apply H0|ex_incl|apply H1|split; vm_compute; reflexivity]. }
  split.
  { intros c Hc. cbn in Hc.
    destruct Hc as [<-|[<-|[<-|[<-|[]]]]]; vm_compute; reflexivity. }
  split; [discriminate|]. split; [vm_compute; reflexivity|]. split; [vm_compute; reflexivity|].
  split; [vm_compute; reflexivity|constructor].
Qed.

Example c17_ex_elim_law :
  let law := push (uperm positive [2;3])
               (fun l => round_eliminated positive
                           (stv_step positive Pos.eqb qcfg 6 q0 0 q qs (mkM (DPerm l :: []) []))) in
  mass law == 1 /\ P 2 law == 1 # 2 /\ P 3 law == 1 # 2 /\ P 1 law == 0 /\ P 4 law == 0.
Proof. repeat split; vm_compute; reflexivity. Qed.

(* (d) first round, three candidates tied for elimination (also on the initial first-place votes,
   the current profile being the initial one): 1/3 each *)
Definition e0 : profile positive := mkProfile [bal [4] 3; bal [1] 1; bal [2] 1; bal [3] 1] [1;2;3;4].
Definition es : estate positive :=
  match initial_state positive Pos.eqb e0 with inl s0 => s0 | inr _ => mkState 0%Z [] [] [] [] [] end.
Definition de0 : scores positive := Eval vm_compute in
  match first_place_votes positive Pos.eqb e0 with inl d => d | inr _ => [] end.

Example c17_ex_elim3_hyps :
  step_ctx positive Pos.eqb e0 e0 es /\
  (forall c, In c (cands e0) -> (tally positive Pos.eqb c (ballots e0) < 4)%Q) /\
  Z.of_nat (length (cands e0)) <> (s_m qcfg - 0)%Z /\
  remaining es = [[4]] ++ [[1;2;3]] /\
  first_place_votes positive Pos.eqb e0 = inl de0 /\ tied_at positive de0 [1;2;3] 1.
Proof.
  split.
  { assert (H0 : wf_stv_profile positive e0) by valid.
    constructor; [apply H0|apply incl_refl|apply H0|split; vm_compute; reflexivity]. }
  split.
  { intros c Hc. cbn in Hc.
    destruct Hc as [<-|[<-|[<-|[<-|[]]]]]; vm_compute; reflexivity. }
  split; [discriminate|]. split; [vm_compute; reflexivity|]. split; [vm_compute; reflexivity|].
  intros c Hc. cbn in Hc.
  destruct Hc as [<-|[<-|[<-|[]]]]; (exists (27 # 27)%Q; split; [cbn; intuition|reflexivity]).
Qed.

Example c17_ex_elim3_law :
  let law := push (uperm positive [1;2;3])
               (fun l => round_eliminated positive
                           (stv_step positive Pos.eqb qcfg 4 e0 0 e0 es (fresh l))) in
  mass law == 1 /\ P 1 law == 1 # 3 /\ P 2 law == 1 # 3 /\ P 3 law == 1 # 3 /\ P 4 law == 0.
Proof. repeat split; vm_compute; reflexivity. Qed.

(* (e) one-by-one STV election tie under tiebreak = random: A>C x3, B>C x3, C>A x1; two seats;
   Droop quota 3; A and B share the top tally 3: each is the one elected in round 1 with
   probability 1/2 (the other one is elected in round 2 whatever the draw) *)
Definition t0 : profile positive := mkProfile [bal [1; 3] 3; bal [2; 3] 3; bal [3; 1] 1] [1; 2; 3].
Definition ts : estate positive :=
  match initial_state positive Pos.eqb t0 with inl s0 => s0 | inr _ => mkState 0%Z [] [] [] [] [] end.
Definition tcfg : stv_cfg := mkStv 2%Z QDroop false TFractional (Some TBRandom).

Example c17_ex_election_hyps :
  step_ctx positive Pos.eqb t0 t0 ts /\ remaining ts = [1;2] :: [[3]] /\
  (exists c, In c (cands t0) /\ (3 <= tally positive Pos.eqb c (ballots t0))%Q).
Proof.
  split.
  { assert (H0 : wf_stv_profile positive t0) by valid.
    constructor; [apply H0|apply incl_refl|apply H0|split; vm_compute; reflexivity]. }
  split; [vm_compute; reflexivity|].
  exists 1. split; [left; reflexivity|]. vm_compute. discriminate.
Qed.

Example c17_ex_election_law :
  let law := push (uperm positive [1;2])
               (fun l => round_elected positive
                           (stv_step positive Pos.eqb tcfg 3 t0 0 t0 ts (fresh l))) in
  mass law == 1 /\ P 1 law == 1 # 2 /\ P 2 law == 1 # 2 /\ P 3 law == 0 /\
  (* whatever the draw, the run elects both *)
  (forall l, In l [[1;2]; [2;1]] ->
     match run_stv positive Pos.eqb tcfg t0 (fresh l) with
     | inl (sts, _) => map (@elected positive) sts = [[[]]; [[hd 1 l]]; [[hd 1 (tl l)]]]
     | inr _ => False
     end).
Proof.
  split; [vm_compute; reflexivity|]. split; [vm_compute; reflexivity|].
  split; [vm_compute; reflexivity|]. split; [vm_compute; reflexivity|].
  intros l [<-|[<-|[]]]; vm_compute; reflexivity.
Qed.

End C17AdequacyTieExamples.
