(* Properties/C11_ctor.v — property C11, ballot construction: "a ballot's weight and scores are
   stored as exact rationals (integers and fractions with denominators up to one million
   unchanged, floats as the closest such fraction, zero scores dropped)".

   Subject: Model/BallotCtor.v, i.e. [limit_den] / [ld_loop] (a line-by-line Gallina port of
   CPython 3.12's Fraction.limit_denominator with max_denominator = 10^6), [conv_weight],
   [conv_scores], [make_ballot] (the two field validators of votekit/ballot.py).
   Proofs: Proofs/C11_limit_den.v.

   Trusted, not proved: that the value returned by CPython's algorithm is THE closest fraction
   with denominator <= 10^6 (CPython documentation).  What is proved instead, for every rational:
   the port never runs out of fuel, returns a fraction in lowest terms with denominator in
   [1, 10^6], at distance at most 1/(2*10^6) from its argument, and is the identity on every
   fraction whose reduced denominator is <= 10^6.  A float argument is represented by its exact
   dyadic value ([PFloat q]); the theorems hold for every rational [q]. *)
From Coq Require Import List ZArith QArith Qreduction Qabs Bool.
From VK Require Import Base Core BallotCtor.
From VK.Proofs Require Import C11_limit_den.
Import ListNotations.

(* ---------- limit_den ---------- *)

(* A1. a value whose reduced denominator is at most one million is returned unchanged (in lowest
   terms, as the Fraction constructor does) *)
Theorem c11_limit_den_small_identity :
  forall q : Q, (Zpos (Qden (Qred q)) <= 1000000)%Z -> limit_den q = Qred q /\ limit_den q == q.
Proof. exact limit_den_small_identity. Qed.
Print Assumptions c11_limit_den_small_identity.

(* ... literally unchanged when it is already in lowest terms, as every Python Fraction is *)
Theorem c11_limit_den_reduced_identity :
  forall q : Q,
    Z.gcd (Qnum q) (Zpos (Qden q)) = 1%Z -> (Zpos (Qden q) <= 1000000)%Z -> limit_den q = q.
Proof. exact limit_den_reduced_identity. Qed.
Print Assumptions c11_limit_den_reduced_identity.

Theorem c11_limit_den_int : forall z : Z, limit_den (inject_Z z) = inject_Z z.
Proof. exact limit_den_int. Qed.
Print Assumptions c11_limit_den_int.

(* A2. the denominator of the result never exceeds one million *)
Theorem c11_limit_den_bound : forall q : Q, (Zpos (Qden (limit_den q)) <= 1000000)%Z.
Proof. exact limit_den_bound. Qed.
Print Assumptions c11_limit_den_bound.

(* A2'. the fuel of the port is never exhausted: whenever the loop is entered (reduced
   denominator > 10^6) it stops because its test [max_den < q0 + (n / d) * q1] fired, for the
   dividend [n] of the abandoned iteration, in a state satisfying the continued-fraction
   invariants (so the division [n / d] and the later [(max_den - q0) / q1] are by positive
   numbers, as in the Python run) *)
Theorem c11_limit_den_loop_exits :
  forall q : Q,
    (1000000 < Zpos (Qden (Qred q)))%Z ->
    match ld_loop (2 * Pos.size_nat (Qden (Qred q)) + 4) 0 1 1 0
                  (Qnum (Qred q)) (Zpos (Qden (Qred q))) with
    | (p0, q0, p1, q1, d) =>
        exists n : Z,
          (max_den < q0 + (n / d) * q1 /\
           0 <= q0 <= max_den /\ 1 <= q1 <= max_den /\ 0 < d < n /\
           q1 * n + q0 * d = Zpos (Qden (Qred q)) /\
           p1 * n + p0 * d = Qnum (Qred q) /\
           (p1 * q0 - p0 * q1 = 1 \/ p1 * q0 - p0 * q1 = -1))%Z
    end.
Proof. exact limit_den_loop_exits. Qed.
Print Assumptions c11_limit_den_loop_exits.

(* the result is in lowest terms *)
Theorem c11_limit_den_lowest_terms :
  forall q : Q,
    Z.gcd (Qnum (limit_den q)) (Zpos (Qden (limit_den q))) = 1%Z /\
    Qred (limit_den q) = limit_den q.
Proof. exact limit_den_lowest_terms. Qed.
Print Assumptions c11_limit_den_lowest_terms.

(* A3. the result is within 1/(2*10^6) of the argument; in particular only a tiny value can be
   rounded to zero *)
Theorem c11_limit_den_error_bound :
  forall q : Q, Qabs (limit_den q - q) <= 1 # 2000000.
Proof. exact limit_den_error_bound. Qed.
Print Assumptions c11_limit_den_error_bound.

Theorem c11_limit_den_zero_only_if_tiny :
  forall q : Q, limit_den q == 0 -> Qabs q <= 1 # 2000000.
Proof. exact limit_den_zero_only_if_tiny. Qed.
Print Assumptions c11_limit_den_zero_only_if_tiny.

(* ---------- the validators ---------- *)

(* A4. weights: an int is stored as that integer, a Fraction as it is, a float through
   limit_denominator (hence unchanged when its reduced denominator is <= 10^6) *)
Theorem c11_weight_exact :
  (forall z : Z, conv_weight (PInt z) = inject_Z z) /\
  (forall q : Q, conv_weight (PFrac q) = q) /\
  (forall q : Q, conv_weight (PFloat q) = limit_den q) /\
  (forall q : Q, (Zpos (Qden (Qred q)) <= 1000000)%Z -> conv_weight (PFloat q) == q).
Proof.
  destruct weight_exact as [H1 [H2 H3]]. repeat split; try assumption.
  intros q H. rewrite H3. exact (proj2 (limit_den_small_identity q H)).
Qed.
Print Assumptions c11_weight_exact.

Section C11_scores.
Variable cand : Type.

(* a score entry that is left unchanged by construction: a non-zero int, or a non-zero value in
   lowest terms with denominator <= 10^6 *)
Definition small_exact (x : pynum) : Prop :=
  match x with
  | PInt z => z <> 0%Z
  | PFrac q | PFloat q =>
      Z.gcd (Qnum q) (Zpos (Qden q)) = 1%Z /\ (Zpos (Qden q) <= 1000000)%Z /\ ~ q == 0
  end.

(* scores: the dict is converted entry by entry, in order; an entry is dropped exactly when its
   converted value is zero; the stored value is [limit_den] of the given one *)
Theorem c11_scores_exact_zero_dropped :
  forall d : list (cand * pynum),
    (* the exact shape: the conversion is a left-to-right scan *)
    conv_scores cand [] = [] /\
    (forall c x,
       conv_scores cand ((c, x) :: d) =
       if Qeq_bool (limit_den (pynum_val x)) 0 then conv_scores cand d
       else (c, limit_den (pynum_val x)) :: conv_scores cand d) /\
    (* membership *)
    (forall c v, In (c, v) (conv_scores cand d) <->
                 exists x, In (c, x) d /\ v = limit_den (pynum_val x) /\ ~ v == 0) /\
    (* no zero is stored *)
    Forall (fun p => ~ snd p == 0) (conv_scores cand d) /\
    (* a non-zero entry with reduced denominator <= 10^6 is stored with its exact value *)
    (forall c x, In (c, x) d -> (Zpos (Qden (Qred (pynum_val x))) <= 1000000)%Z ->
                 ~ pynum_val x == 0 ->
                 In (c, Qred (pynum_val x)) (conv_scores cand d) /\
                 Qred (pynum_val x) == pynum_val x) /\
    (* if every entry is such a value in lowest terms, the dict is stored as it is *)
    (Forall (fun p => small_exact (snd p)) d ->
     conv_scores cand d = map (fun p => (fst p, pynum_val (snd p))) d).
Proof.
  intros d. split; [reflexivity|]. split; [intros c x; apply conv_scores_cons|].
  split; [apply conv_scores_in|]. split; [apply conv_scores_nonzero|].
  split; [apply conv_scores_keeps_small|]. exact (conv_scores_unchanged cand d).
Qed.

(* the constructor stores the converted weight and scores and passes the other fields through *)
Theorem c11_make_ballot_fields :
  forall (r : ranking cand) (w : pynum) (d : list (cand * pynum)) i v,
    rk (make_ballot cand r w d i v) = r /\
    wt (make_ballot cand r w d i v) = conv_weight w /\
    sc (make_ballot cand r w d i v) = conv_scores cand d /\
    bid (make_ballot cand r w d i v) = i /\
    vs (make_ballot cand r w d i v) = v.
Proof. exact (make_ballot_fields cand). Qed.

End C11_scores.
Print Assumptions c11_scores_exact_zero_dropped.
Print Assumptions c11_make_ballot_fields.

(* ---------- non-vacuity ---------- *)

(* a tiny non-zero value is rounded to zero (so "zero dropped" must test after conversion) *)
Example ex_tiny_to_zero : limit_den (1 # 3000001) == 0 /\ ~ (1 # 3000001) == 0.
Proof. split; [vm_compute; reflexivity|intros H; discriminate H]. Qed.

(* Fraction(3.14159265358979).limit_denominator() *)
Example ex_pi : limit_den (314159265358979 # 100000000000000) = 3126535 # 995207.
Proof. vm_compute. reflexivity. Qed.

(* the float 1/3 = 6004799503160661 / 2^54 *)
Example ex_third : limit_den (6004799503160661 # 18014398509481984) = 1 # 3.
Proof. vm_compute. reflexivity. Qed.

(* negative values, the first iteration with a negative quotient *)
Example ex_negative : limit_den (- (6004799503160661 # 18014398509481984)) = (-1) # 3.
Proof. vm_compute. reflexivity. Qed.

(* small-denominator hypotheses are satisfiable, also by an unreduced representative *)
Example ex_small : (Zpos (Qden (Qred (2 # 2000000))) <= 1000000)%Z /\
                   limit_den (2 # 2000000) = 1 # 1000000.
Proof. split; [vm_compute; discriminate|vm_compute; reflexivity]. Qed.

(* the loop is really entered and left by its test on the pi example *)
Example ex_loop_entered :
  (1000000 < Zpos (Qden (Qred (314159265358979 # 100000000000000))))%Z /\
  ld_loop (2 * Pos.size_nat (Qden (Qred (314159265358979 # 100000000000000))) + 4) 0 1 1 0
          314159265358979 100000000000000 =
  (833719, 265381, 1146408, 364913, 58896173)%Z.
Proof. split; vm_compute; reflexivity. Qed.

(* the error bound is nearly attained: 1/2000001 is rounded to 0, at distance just under 1/(2*10^6) *)
Example ex_error : limit_den (1 # 2000001) == 0 /\ Qabs (0 - (1 # 2000001)) <= 1 # 2000000.
Proof. split; [vm_compute; reflexivity|vm_compute; discriminate]. Qed.

(* scores: a zero int, a float that rounds to zero, a kept float and a kept Fraction *)
Example ex_scores :
  conv_scores positive
    [(1%positive, PInt 0); (2%positive, PFloat (1 # 3000001));
     (3%positive, PFloat (6004799503160661 # 18014398509481984)); (4%positive, PFrac (5 # 7));
     (5%positive, PInt 2)]
  = [(3%positive, 1 # 3); (4%positive, 5 # 7); (5%positive, 2 # 1)].
Proof. vm_compute. reflexivity. Qed.

Example ex_small_exact :
  Forall (fun p : positive * pynum => small_exact (snd p))
         [(4%positive, PFrac (5 # 7)); (5%positive, PInt 2)].
Proof.
  repeat constructor; cbn; try discriminate.
Qed.

Example ex_make_ballot :
  make_ballot positive [[1%positive]; [2%positive]] (PFloat (3 # 2)) [(1%positive, PInt 0)] None None
  = mkBallot [[1%positive]; [2%positive]] (3 # 2) [] None None.
Proof. vm_compute. reflexivity. Qed.
