(* Properties/C14_sizes.v — C14: the bloc-structured generators return per-bloc profiles of exactly
   the apportioned sizes and an aggregate of exactly N ballots.  Statements only; proofs are in
   Proofs/C14_sizes.v.  Vocabulary: [cross_props], [pair_sums] in Spec/ApportionSpec.v;
   [finish_blocs] (per bloc PreferenceProfile(...).condense_ballots(), aggregate by +=) in
   Model/Generators.v.

   TRUSTED ASSUMPTION (the Section hypothesis [apportion_ok] below): the external oracle
   apportionment.compute("huntington", props, N), for a non-empty list of proportions, returns one
   size per proportion and the sizes add up to N.  It is checked at run time on every recorded
   call.  It is a premise of the closed theorems, not an axiom.  It is stated for non-empty [props]
   only: without that restriction no function satisfies it
   ([c14_unrestricted_contract_inconsistent]). *)
From VK Require Import Base Core GenValidation PrefInterval Generators ApportionSpec.
From VK.Proofs Require Import C14_wf C14_sizes.
From Coq Require Import Lia.

(* pools of prescribed sizes (no oracle involved): one profile per pool, same bloc labels, the i-th
   of total weight sizes_i, the aggregate of total weight Σ sizes *)
Theorem c14_sizes_prescribed : forall (sizes : list nat) pools by_bloc agg,
  map (fun bp : bloc * list gballot => length (snd bp)) pools = sizes ->
  (forall bp b, In bp pools -> In b (snd bp) -> wt b == 1) ->
  finish_blocs pools = inl (by_bloc, agg) ->
  length by_bloc = length sizes /\
  map fst by_bloc = map fst pools /\
  Forall2 (fun (bq : bloc * gprofile) n => total_wt pcand (ballots (snd bq)) == Qnat n) by_bloc sizes /\
  total_wt pcand (ballots agg) == Qnat (list_sum sizes).
Proof. exact finish_sizes. Qed.
Print Assumptions c14_sizes_prescribed.

Section C14_sizes.
Variable apportion : list Q -> nat -> list nat.
Hypothesis apportion_ok : forall props N, props <> [] ->
  length (apportion props N) = length props /\ fold_right Nat.add 0%nat (apportion props N) = N.

(* name_/short_name_PlackettLuce, name_BradleyTerry, name_Cumulative, slate_PlackettLuce,
   slate_BradleyTerry: bloc i generates (apportion props N)_i unit-weight ballots.  Then there is one
   profile per proportion, labelled like the pools; the i-th has total weight exactly
   (apportion props N)_i and the aggregate has total weight exactly N *)
Theorem c14_bloc_sizes : forall props N pools by_bloc agg,
  props <> [] ->
  map (fun bp : bloc * list gballot => length (snd bp)) pools = apportion props N ->
  (forall bp b, In bp pools -> In b (snd bp) -> wt b == 1) ->
  finish_blocs pools = inl (by_bloc, agg) ->
  length by_bloc = length props /\
  map fst by_bloc = map fst pools /\
  (forall i bq, nth_error by_bloc i = Some bq ->
     total_wt pcand (ballots (snd bq)) == Qnat (nth i (apportion props N) 0%nat)) /\
  total_wt pcand (ballots agg) == Qnat N.
Proof. exact (bloc_sizes_proof apportion apportion_ok). Qed.

(* AlternatingCrossover, CambridgeSampler: [cp] lists (cohesion_b, prop_b) per bloc; the oracle is
   asked for the voter types (b,"bloc"), (b,"cross") in bloc order with proportions
   cohesion_b * prop_b and (1 - cohesion_b) * prop_b; bloc i generates n_(i,bloc) + n_(i,cross)
   unit-weight ballots.  Then there is one profile per bloc, the i-th of total weight exactly
   n_(i,bloc) + n_(i,cross), and the aggregate has total weight exactly N *)
Theorem c14_crossover_sizes : forall (cp : list (Q * Q)) N pools by_bloc agg,
  cp <> [] ->
  map (fun bp : bloc * list gballot => length (snd bp)) pools
    = pair_sums (apportion (cross_props cp) N) ->
  (forall bp b, In bp pools -> In b (snd bp) -> wt b == 1) ->
  finish_blocs pools = inl (by_bloc, agg) ->
  length (apportion (cross_props cp) N) = (2 * length cp)%nat /\
  length by_bloc = length cp /\
  map fst by_bloc = map fst pools /\
  (forall i bq, nth_error by_bloc i = Some bq ->
     total_wt pcand (ballots (snd bq)) ==
     Qnat (nth (2 * i) (apportion (cross_props cp) N) 0%nat +
           nth (2 * i + 1) (apportion (cross_props cp) N) 0%nat)) /\
  total_wt pcand (ballots agg) == Qnat N.
Proof. exact (cross_sizes_proof apportion apportion_ok). Qed.

End C14_sizes.

Print Assumptions c14_bloc_sizes.
Print Assumptions c14_crossover_sizes.

(* the voter-type proportions of a bloc add up to the bloc's proportion *)
Theorem c14_cross_props_sum : forall cp : list (Q * Q),
  length (cross_props cp) = (2 * length cp)%nat /\ qsum (cross_props cp) == qsum (map snd cp).
Proof. exact (fun cp => conj (cross_props_length cp) (cross_props_sum cp)). Qed.
Print Assumptions c14_cross_props_sum.

(* the contract cannot be asked of the empty proportion list: no function at all satisfies
   "one size per proportion, sizes add up to N" for props = [] and N = 1 *)
Theorem c14_unrestricted_contract_inconsistent :
  ~ exists apportion : list Q -> nat -> list nat, forall props N,
      length (apportion props N) = length props /\ fold_right Nat.add 0%nat (apportion props N) = N.
Proof. exact unrestricted_contract_inconsistent. Qed.
Print Assumptions c14_unrestricted_contract_inconsistent.

(* ====================== non-vacuity ====================== *)
Module C14SizesExamples.
Local Open Scope positive_scope.

(* the trusted hypothesis is satisfiable: a function that halves N between two proportions and
   otherwise gives everything to the first *)
Definition ex_apportion (props : list Q) (N : nat) : list nat :=
  match props with
  | [_; _] => [(N - N / 2)%nat; (N / 2)%nat]
  | _ => first_takes_all props N
  end.

Example ex_apportion_ok : forall props N, props <> [] ->
  length (ex_apportion props N) = length props /\ fold_right Nat.add 0%nat (ex_apportion props N) = N.
Proof.
  intros props N H. destruct props as [|a [|b [|c rest]]]; try (apply first_takes_all_ok; exact H).
  cbn [ex_apportion length fold_right]. split; [reflexivity|].
  pose proof (Nat.div_le_upper_bound N 2 N) as Hd. assert ((N / 2 <= N)%nat) by (apply Hd; lia). lia.
Qed.

Definition ub (r : list pcand) : gballot := unit_ballot (singletons pcand r).

(* two blocs, N = 3: sizes [2; 1] *)
Definition ex_pools : list (bloc * list gballot) := [(1, [ub [1; 2]; ub [1; 2]]); (2, [ub [2; 1]])].

Example ex_bloc_sizes : exists by_bloc agg,
  finish_blocs ex_pools = inl (by_bloc, agg) /\
  map (fun bp : bloc * list gballot => length (snd bp)) ex_pools = ex_apportion [2#3; 1#3]%Q 3 /\
  (forall bp b, In bp ex_pools -> In b (snd bp) -> wt b == 1) /\
  map (fun bq : bloc * gprofile => total_wt pcand (ballots (snd bq))) by_bloc = [2; 1]%Q /\
  total_wt pcand (ballots agg) == 3.
Proof.
  destruct (finish_blocs_never_errors ex_pools) as ([by_bloc agg] & H).
  exists by_bloc, agg. split; [exact H|]. split; [reflexivity|].
  assert (Hu : forall bp b, In bp ex_pools -> In b (snd bp) -> wt b == 1).
  { intros bp b [<-|[<-|[]]] Hb; cbn [snd] in Hb;
      repeat (destruct Hb as [<-|Hb]; [reflexivity|]); destruct Hb. }
  split; [exact Hu|].
  destruct (c14_bloc_sizes ex_apportion ex_apportion_ok [2#3; 1#3]%Q 3 ex_pools by_bloc agg
              ltac:(discriminate) eq_refl Hu H) as (_ & _ & _ & Ht).
  split; [|exact Ht]. vm_compute in H. injection H as <- <-. vm_compute. reflexivity.
Qed.

(* crossover: two blocs with cohesion 3/4 and 1/2, proportions 1/2 each, N = 4: under
   first_takes_all the voter-type sizes are [4;0;0;0], hence bloc sizes [4; 0] *)
Definition ex_cp : list (Q * Q) := [(3#4, 1#2); (1#2, 1#2)]%Q.
Definition ex_cross_pools : list (bloc * list gballot) :=
  [(1, [ub [1; 2]; ub [1; 2]; ub [2; 1]; ub [1; 2]]); (2, [])].

Example ex_cross_sizes : exists by_bloc agg,
  finish_blocs ex_cross_pools = inl (by_bloc, agg) /\
  cross_props ex_cp = [(3#4) * (1#2); (1 - (3#4)) * (1#2); (1#2) * (1#2); (1 - (1#2)) * (1#2)]%Q /\
  map (fun bp : bloc * list gballot => length (snd bp)) ex_cross_pools
    = pair_sums (first_takes_all (cross_props ex_cp) 4) /\
  length by_bloc = 2%nat /\ total_wt pcand (ballots agg) == 4.
Proof.
  destruct (finish_blocs_never_errors ex_cross_pools) as ([by_bloc agg] & H).
  exists by_bloc, agg. split; [exact H|]. split; [reflexivity|]. split; [reflexivity|].
  assert (Hu : forall bp b, In bp ex_cross_pools -> In b (snd bp) -> wt b == 1).
  { intros bp b [<-|[<-|[]]] Hb; cbn [snd] in Hb;
      repeat (destruct Hb as [<-|Hb]; [reflexivity|]); destruct Hb. }
  destruct (c14_crossover_sizes first_takes_all first_takes_all_ok ex_cp 4 ex_cross_pools by_bloc agg
              ltac:(discriminate) eq_refl Hu H) as (_ & Hl & _ & _ & Ht).
  split; [exact Hl|exact Ht].
Qed.

End C14SizesExamples.
