(* Properties/C14_dispatch.v — the typed whole-run functions of Spec/GenRunSpec.v are what the
   harness entry points of Model/Dispatch.v compute.  For every generator op: if the encoded
   argument decodes (decoders of Spec/GenDecodeSpec.v = the op's own decoding steps), the op's
   answer is the encoding ([eGen] / [eCam] / [eProfile] of Model/Dispatch.v, errors as [VE e]) of the
   typed run function on the decoded argument.  So the theorems of Properties/C14_runs.v and
   Properties/C16_runs.v are statements about the very values the differential harness compares with
   the implementation on every run.
   (On an argument that does NOT decode the op answers an error: EScript, or the error of a kernel
   of an earlier bloc, because the ops decode and run bloc by bloc.)
   Proofs: Proofs/C14_dispatch.v. *)
From VK Require Import Base Core GenValidation PrefInterval Generators Generators2 Dispatch.
From VK.Spec Require Import GenSpec GenRunSpec GenDecodeSpec.
From VK.Proofs Require Import C14_dispatch.

Theorem c14_gen_finish_is_run_finish : forall pools, gen_finish pools = run_finish pools.
Proof. exact gen_finish_run_finish. Qed.
Print Assumptions c14_gen_finish_is_run_finish.

Theorem c14_op_gen_pl : forall bl blocs bl' bs,
  dNat bl = inl bl' -> dList dPlBloc blocs = inl bs ->
  op_gen_pl (VL [bl; blocs]) = eRes eGen (gen_pl_run bl' bs).
Proof. exact op_gen_pl_typed. Qed.
Print Assumptions c14_op_gen_pl.

Theorem c14_op_gen_cumulative : forall nv blocs nv' bs,
  dNat nv = inl nv' -> dList dCumBloc blocs = inl bs ->
  op_gen_cumulative (VL [nv; blocs]) = eRes eGen (gen_cumulative_run nv' bs).
Proof. exact op_gen_cumulative_typed. Qed.
Print Assumptions c14_op_gen_cumulative.

Theorem c14_op_gen_bt : forall blocs bs,
  dList dBtBloc blocs = inl bs -> op_gen_bt blocs = eRes eGen (gen_bt_run bs).
Proof. exact op_gen_bt_typed. Qed.
Print Assumptions c14_op_gen_bt.

Theorem c14_op_gen_slate_pl : forall blocs bs,
  dList dSplBloc blocs = inl bs -> op_gen_slate_pl blocs = eRes eGen (gen_slate_pl_run bs).
Proof. exact op_gen_slate_pl_typed. Qed.
Print Assumptions c14_op_gen_slate_pl.

Theorem c14_op_gen_slate_bt : forall blocs bs,
  dList dSbtBloc blocs = inl bs -> op_gen_slate_bt blocs = eRes eGen (gen_slate_bt_run bs).
Proof. exact op_gen_slate_bt_typed. Qed.
Print Assumptions c14_op_gen_slate_bt.

Theorem c14_op_gen_ac : forall blocs bs,
  dList dAcBloc blocs = inl bs -> op_gen_ac blocs = eRes eGen (gen_ac_run bs).
Proof. exact op_gen_ac_typed. Qed.
Print Assumptions c14_op_gen_ac.

Theorem c14_op_gen_spatial : forall cs dists cs' ds,
  dCands cs = inl cs' -> dList (dList dQ) dists = inl ds ->
  op_gen_spatial (VL [cs; dists]) = eRes Codec.eProfile (gen_spatial_run cs' ds).
Proof. exact op_gen_spatial_typed. Qed.
Print Assumptions c14_op_gen_spatial.

Theorem c14_op_gen_bt_mcmc : forall blocs bs,
  dList dBtmBloc blocs = inl bs -> op_gen_bt_mcmc blocs = eRes eGen (gen_bt_mcmc_run bs).
Proof. exact op_gen_bt_mcmc_typed. Qed.
Print Assumptions c14_op_gen_bt_mcmc.

Theorem c14_op_gen_slate_mcmc : forall blocs bs,
  dList dSmBloc blocs = inl bs -> op_gen_slate_mcmc blocs = eRes eGen (gen_slate_mcmc_run bs).
Proof. exact op_gen_slate_mcmc_typed. Qed.
Print Assumptions c14_op_gen_slate_mcmc.

Theorem c14_op_gen_cambridge : forall freqs blocs fr bs,
  dList (dPair (dList dPos) dQ) freqs = inl fr -> dList dCamBloc blocs = inl bs ->
  op_gen_cambridge (VL [freqs; blocs]) = eRes eCam (gen_cambridge_run fr bs).
Proof. exact op_gen_cambridge_typed. Qed.
Print Assumptions c14_op_gen_cambridge.

(* ====================== non-vacuity ====================== *)
Module C14DispatchExamples.
Local Open Scope positive_scope.

(* an encoded name-PL argument: ballot length 3, one bloc with two draws *)
Definition enc_iv : val := VL [VS [VL [VZ 1; VQ (1#2)]; VL [VZ 2; VQ (1#2)]]; VS [VZ 3]].
Definition enc_arg : val :=
  VL [VZ 3; VL [VL [VZ 1; enc_iv;
                    VL [VL [VL [VZ 2; VZ 1]; VL [VZ 3]]; VL [VL [VZ 1; VZ 2]; VL [VZ 3]]]]]].

Example ex_decodes : exists bs,
  dList dPlBloc (VL [VL [VZ 1; enc_iv;
                         VL [VL [VL [VZ 2; VZ 1]; VL [VZ 3]]; VL [VL [VZ 1; VZ 2]; VL [VZ 3]]]]]) = inl bs /\
  bs = [(1, mkPI [(1, 1#2); (2, 1#2)] [3], [([2; 1], [3]); ([1; 2], [3])])].
Proof. eexists. split; vm_compute; reflexivity. Qed.

Example ex_op_runs : exists by_bloc agg calls,
  gen_pl_run 3 [(1, mkPI [(1, 1#2); (2, 1#2)] [3], [([2; 1], [3]); ([1; 2], [3])])] = inl (by_bloc, agg, calls) /\
  op_gen_pl enc_arg = eGen (by_bloc, agg, calls) /\
  total_wt pcand (ballots agg) == 2.
Proof. do 3 eexists. split; [vm_compute; reflexivity|]. split; vm_compute; reflexivity. Qed.

End C14DispatchExamples.
