(* Properties/C09_drawfree2.v — property C09 for DominatingSets, TopTwo and Alaska with the premise
   the property text uses: "a finished election whose recorded rounds involved NO RANDOM CHOICE".
   Properties/C09_replay.v (c09_toptwo_get_profile, c09_alaska_get_profile) and the [replay_safe]
   of Spec/DrawFreeSpec.v assume, for TopTwo and Alaska, that NO TIEBREAK IS RECORDED.  That is
   stronger than needed: the Plurality stage of either rule may meet a tie at the cut that the
   borda / first_place scores resolve (Properties/C09_drawfree.v, c09_scored_tiebreak_no_draw); the
   tiebreak is then recorded, yet the run logged no call to the generator.  Here the premise is
   DRAW-FREE only:

   A. get_profile CONTENT — for EVERY valid index (all rounds: round 2 of TopTwo, the STV rounds of
      Alaska, and, for Alaska, ANY transfer rule, the random one included): the answer is the same
      from every state of the random source, which is left untouched; get_step returns it with the
      record addressed; its candidates are exactly the recorded remaining ones; its first-place
      tallies are the recorded scores.  DominatingSets (which never draws) in the same shape,
      including the case where the top tier is everybody and the profile of round 1 is empty.
   B. [replay_safe2] = [replay_safe] without the "no tiebreak" conjuncts (and without the
      restriction on Alaska's transfer rule): still every in-range get_profile / get_step succeeds
      from every state, IndexError is the only exception and is raised exactly out of range, and
      every sequence of queries is isolated and leaves the random source untouched.
   Nothing is refuted and nothing is partial: the replay made by get_profile calls the very
   computations the run made, and a computation that succeeded without a draw succeeds alike
   from every state.

   Vocabulary: Spec/DrawFreeSpec.v, Spec/QuerySpec.v, Spec/ReplaySpec.v, Spec/PairwiseSpec.v.
   Proofs: Proofs/C09_drawfree2.v. *)
From Coq Require Import List ZArith QArith Bool Permutation Lia.
From VK Require Import Base Core STV Pairwise Rules PV Election Election2.
From VK.Spec Require Import STVSpec QuerySpec TieSpec ScoreSpec PairwiseSpec ReplaySpec QuietSpec
  DrawFreeSpec.
From VK.Proofs Require Import C09_drawfree2.
Import ListNotations.

Section C09_drawfree2.
Variable cand : Type.
Variable ceqb : cand -> cand -> bool.
Hypothesis ceqb_spec : forall a b, reflect (a = b) (ceqb a b).

Notation profile := (profile cand).
Notation estate := (estate cand).
Notation mstate := (mstate cand).
Notation flat := (flat cand).
Notation stv_trace := (stv_trace cand ceqb).
Notation stv_init := (stv_init cand).
Notation run_stv := (run_stv cand ceqb).
Notation run_rule := (run_rule cand ceqb).
Notation first_place_votes := (first_place_votes cand ceqb).
Notation remove_cand_prof := (remove_cand_prof cand ceqb).
Notation get_profile := (get_profile cand ceqb).
Notation get_step := (get_step cand ceqb).
Notation no_tiebreak := (no_tiebreak cand).
Notation untied_profile := (untied_profile cand).
Notation draw_free := (draw_free cand ceqb).
Notation replay_safe := (replay_safe cand ceqb).
Notation election := (election cand).
Notation ask_all := (ask_all cand ceqb).
Notation alone := (alone cand ceqb).
Notation total_replay := (total_replay cand ceqb).

(* ====================== A1: TopTwo ====================== *)

(* duplicate-free candidate list, a run that logged no call — tiebreaks MAY be recorded: the source
   is untouched; the records are [s0; s1; s2]; p1 = p without the candidates eliminated in round 1,
   p2 = p1 without the winner; for EVERY valid index (0, 1, 2, -1, -2, -3) get_profile and get_step
   return from every state, untouched, the stage profile p / p1 / p2 (with the record addressed);
   its first-place tallies are the recorded scores and its candidates are exactly the remaining
   ones (a duplicate-free list) *)
Theorem c09_toptwo_no_call : forall tb (p : profile) (s s' : mstate) sts,
  NoDup (cands p) -> run_rule (RTopTwo tb) p s = inl (sts, s') -> lg s' = lg s ->
  s' = s /\
  exists s0 s1 s2 p1 p2,
    sts = [s0; s1; s2] /\
    remove_cand_prof (flat (eliminated s1)) true false p = inl p1 /\
    remove_cand_prof (flat (elected s2)) true false p1 = inl p2 /\
    forall i, in_range 3 i ->
      exists pr st,
        nth_error [p; p1; p2] (round_of 3 i) = Some pr /\
        nth_error sts (round_of 3 i) = Some st /\
        (forall sx : mstate, get_profile (RTopTwo tb) p sts i sx = inl (pr, sx)) /\
        (forall sx : mstate, get_step (RTopTwo tb) p sts i sx = inl ((pr, st), sx)) /\
        first_place_votes pr = inl (escores st) /\
        Permutation (cands pr) (flat (remaining st)) /\ NoDup (cands pr).
Proof. exact (toptwo_drawfree cand ceqb ceqb_spec). Qed.

(* the same from "the run succeeds from an empty script" *)
Theorem c09_toptwo_draw_free : forall tb (p : profile) sts,
  NoDup (cands p) -> draw_free (RTopTwo tb) p sts ->
  exists s0 s1 s2 p1 p2,
    sts = [s0; s1; s2] /\
    remove_cand_prof (flat (eliminated s1)) true false p = inl p1 /\
    remove_cand_prof (flat (elected s2)) true false p1 = inl p2 /\
    forall i, in_range 3 i ->
      exists pr st,
        nth_error [p; p1; p2] (round_of 3 i) = Some pr /\
        nth_error sts (round_of 3 i) = Some st /\
        (forall sx : mstate, get_profile (RTopTwo tb) p sts i sx = inl (pr, sx)) /\
        (forall sx : mstate, get_step (RTopTwo tb) p sts i sx = inl ((pr, st), sx)) /\
        first_place_votes pr = inl (escores st) /\
        Permutation (cands pr) (flat (remaining st)) /\ NoDup (cands pr).
Proof. exact (toptwo_draw_free cand ceqb ceqb_spec). Qed.

(* ====================== A2: Alaska ====================== *)

(* duplicate-free candidate list, ANY transfer rule, a run that logged no call — tiebreaks may be
   recorded in the Plurality stage and in the STV stage: the source is untouched; the records are
   s0, s1 and the renumbered records 1.. of the inner STV(m2) run [ssts] on p1 = p without the
   candidates eliminated in round 1; that inner run, itself draw-free, has a trace [ps] starting at
   p1; for EVERY valid index get_profile and get_step return from every state, untouched, p for
   round 0, p1 for round 1 and the inner trace profile k-1 for round k >= 2 (with the record
   addressed); its first-place tallies are the recorded scores and its candidates are exactly the
   remaining ones *)
Theorem c09_alaska_no_call : forall m1 m2 cfg (p : profile) (s s' : mstate) sts,
  NoDup (cands p) -> run_rule (RAlaska m1 m2 cfg) p s = inl (sts, s') -> lg s' = lg s ->
  s' = s /\
  exists s0 s1 p1 ssts t ps ss,
    sts = s0 :: s1 :: map (bump cand) (tl ssts) /\
    remove_cand_prof (flat (eliminated s1)) true false p = inl p1 /\
    run_stv (with_m cfg m2) p1 s = inl (ssts, s) /\
    stv_init (with_m cfg m2) p1 = inl t /\
    stv_trace (with_m cfg m2) t p1 ssts ps ss /\ nth_error ps 0 = Some p1 /\
    forall i, in_range (length sts) i ->
      exists pr st,
        nth_error (p :: ps) (round_of (length sts) i) = Some pr /\
        nth_error sts (round_of (length sts) i) = Some st /\
        (forall sx : mstate, get_profile (RAlaska m1 m2 cfg) p sts i sx = inl (pr, sx)) /\
        (forall sx : mstate, get_step (RAlaska m1 m2 cfg) p sts i sx = inl ((pr, st), sx)) /\
        first_place_votes pr = inl (escores st) /\
        Permutation (cands pr) (flat (remaining st)).
Proof. exact (alaska_drawfree cand ceqb ceqb_spec). Qed.

(* the same from "the run succeeds from an empty script" *)
Theorem c09_alaska_draw_free : forall m1 m2 cfg (p : profile) sts,
  NoDup (cands p) -> draw_free (RAlaska m1 m2 cfg) p sts ->
  exists s0 s1 p1 ssts t ps ss,
    sts = s0 :: s1 :: map (bump cand) (tl ssts) /\
    remove_cand_prof (flat (eliminated s1)) true false p = inl p1 /\
    draw_free (RSTV (with_m cfg m2)) p1 ssts /\
    stv_init (with_m cfg m2) p1 = inl t /\
    stv_trace (with_m cfg m2) t p1 ssts ps ss /\ nth_error ps 0 = Some p1 /\
    forall i, in_range (length sts) i ->
      exists pr st,
        nth_error (p :: ps) (round_of (length sts) i) = Some pr /\
        nth_error sts (round_of (length sts) i) = Some st /\
        (forall sx : mstate, get_profile (RAlaska m1 m2 cfg) p sts i sx = inl (pr, sx)) /\
        (forall sx : mstate, get_step (RAlaska m1 m2 cfg) p sts i sx = inl ((pr, st), sx)) /\
        first_place_votes pr = inl (escores st) /\
        Permutation (cands pr) (flat (remaining st)).
Proof. exact (alaska_draw_free cand ceqb ceqb_spec). Qed.

(* ====================== A3: DominatingSets ====================== *)

(* untied profile, any successful run: DominatingSets never consults the random source and records
   no tiebreak; the records are [s0; s1]; np = p without the top tier; for EVERY valid index
   get_profile and get_step return from every state, untouched, p / np (with the record addressed);
   the rule keeps no tallies (the recorded scores are empty); the candidates are exactly the
   remaining ones (a duplicate-free list), and when the top tier is everybody the profile of
   round 1 has no candidate and no ballot *)
Theorem c09_dominating_draw_free : forall (p : profile) (s s' : mstate) sts,
  untied_profile p -> run_rule RDominating p s = inl (sts, s') ->
  s' = s /\
  exists s0 s1 np,
    sts = [s0; s1] /\
    remove_cand_prof (flat (elected s1)) true false p = inl np /\
    Forall no_tiebreak sts /\
    forall i, in_range 2 i ->
      exists pr st,
        nth_error [p; np] (round_of 2 i) = Some pr /\
        nth_error sts (round_of 2 i) = Some st /\
        (forall sx : mstate, get_profile RDominating p sts i sx = inl (pr, sx)) /\
        (forall sx : mstate, get_step RDominating p sts i sx = inl ((pr, st), sx)) /\
        escores st = [] /\
        Permutation (cands pr) (flat (remaining st)) /\ NoDup (cands pr) /\
        (flat (remaining st) = [] -> ballots pr = []).
Proof. exact (dominating_drawfree cand ceqb ceqb_spec). Qed.

(* ====================== B: the finished elections covered ====================== *)

(* [replay_safe] (Spec/DrawFreeSpec.v) with the "no tiebreak recorded" conjuncts of TopTwo and
   Alaska, and the restriction on Alaska's transfer rule, dropped: the run consumed no draw and the
   input lies in the domain on which the rule's replay is analysed *)
Definition replay_safe2 (r : rule) (p : profile) (sts : list estate) : Prop :=
  draw_free r p sts /\
  match r with
  | RSTV _ => True
  | RPlurality _ _ | RBorda _ _ _ | RRating _ _ _ _ | RLimited _ _ _ | RBloc _ _ _
  | RTopTwo _ | RAlaska _ _ _ => NoDup (cands p)
  | RDominating | RCondoBorda _ => untied_profile p
  | RRandomDictator _ | RBoosted _ => False
  end.

(* it is weaker than [replay_safe], and the same condition for every rule but TopTwo / Alaska *)
Theorem c09_replay_safe_weaker : forall r (p : profile) sts,
  replay_safe r p sts -> replay_safe2 r p sts.
Proof. exact (replay_safe_safe2 cand ceqb). Qed.

Theorem c09_replay_safe2_other_rules : forall r (p : profile) sts,
  (forall tb, r <> RTopTwo tb) -> (forall m1 m2 cfg, r <> RAlaska m1 m2 cfg) ->
  replay_safe2 r p sts -> replay_safe r p sts.
Proof. exact (safe2_replay_safe_other cand ceqb). Qed.

(* every in-range index is answered from every state, untouched, by get_profile and — with the
   record addressed — by get_step *)
Theorem c09_replay_safe2_total : forall r (p : profile) sts,
  replay_safe2 r p sts ->
  forall i, in_range (length sts) i ->
  exists pr st,
    nth_error sts (round_of (length sts) i) = Some st /\
    (forall s2 : mstate, get_profile r p sts i s2 = inl (pr, s2)) /\
    (forall s2 : mstate, get_step r p sts i s2 = inl ((pr, st), s2)).
Proof. exact (safe2_total cand ceqb ceqb_spec). Qed.

(* IndexError is raised EXACTLY out of range, it is the only exception either query can raise,
   and in range both succeed, leaving the random source as it was *)
Theorem c09_index_error_iff2 : forall r (p : profile) sts,
  replay_safe2 r p sts ->
  forall i (s2 : mstate),
    (get_profile r p sts i s2 = inr EIndex <-> ~ in_range (length sts) i) /\
    (get_step r p sts i s2 = inr EIndex <-> ~ in_range (length sts) i) /\
    (forall e, get_profile r p sts i s2 = inr e -> e = EIndex) /\
    (forall e, get_step r p sts i s2 = inr e -> e = EIndex) /\
    (in_range (length sts) i ->
       exists pr st, get_profile r p sts i s2 = inl (pr, s2) /\
                     get_step r p sts i s2 = inl ((pr, st), s2)).
Proof. exact (safe2_index_error cand ceqb ceqb_spec). Qed.

(* such an election satisfies the premise of c09_ask_all_isolated / c09_index_error_iff_of_total
   (Properties/C09_drawfree.v) *)
Theorem c09_replay_safe2_total_replay : forall e : election,
  replay_safe2 (e_rule cand e) (e_profile cand e) (e_states cand e) -> total_replay e.
Proof. exact (safe2_total_replay cand ceqb ceqb_spec). Qed.

(* ANY sequence of queries (get_profile / get_step / get_elected / get_eliminated / get_remaining /
   get_ranking / get_status_df; repetitions, any order, positive, negative and out-of-range
   indices), from ANY state s: each answer is the one the query gets in isolation from ANY state
   s0, the source comes out as it went in; and, for one query q asked after a history pre and
   before the queries post, having asked it does not change the answers to post *)
Theorem c09_ask_all_replay_safe2 : forall e : election,
  replay_safe2 (e_rule cand e) (e_profile cand e) (e_states cand e) ->
  forall qs (s s0 : mstate),
    ask_all e qs s = (map (fun q => alone e q s0) qs, s) /\
    (forall pre q post, qs = pre ++ q :: post ->
       nth_error (fst (ask_all e qs s)) (length pre) = Some (alone e q s0) /\
       fst (ask_all e post (snd (ask_all e (pre ++ [q]) s))) = fst (ask_all e post s0)).
Proof. exact (ask_all_safe2 cand ceqb ceqb_spec). Qed.

End C09_drawfree2.

Print Assumptions c09_toptwo_no_call.
Print Assumptions c09_toptwo_draw_free.
Print Assumptions c09_alaska_no_call.
Print Assumptions c09_alaska_draw_free.
Print Assumptions c09_dominating_draw_free.
Print Assumptions c09_replay_safe_weaker.
Print Assumptions c09_replay_safe2_other_rules.
Print Assumptions c09_replay_safe2_total.
Print Assumptions c09_index_error_iff2.
Print Assumptions c09_replay_safe2_total_replay.
Print Assumptions c09_ask_all_replay_safe2.

(* ------------------------------------------------------------------ *)
(* Non-vacuity (cand := positive): recorded tiebreaks that consumed no draw. *)
Module C09DrawFree2Examples.
Open Scope positive_scope.

Definition lb (l : list positive) (w : Q) : ballot positive :=
  plain_ballot positive (Core.singletons positive l) w.
Definition st0 : Core.mstate positive := mkM [] [].
(* a state of the random source with draws pending and calls already logged *)
Definition st1 : Core.mstate positive := mkM [DPerm [2; 1]; DUnit (1#2)] [CUniform].
Definition states_of (x : res (list (estate positive) * Core.mstate positive))
  : list (estate positive) := match x with inl (sts, _) => sts | inr _ => [] end.
Definition blank : estate positive := mkState 0 [] [] [] [] [].
Ltac ex_nodup := repeat (constructor; [cbn; intuition discriminate|]); constructor.

(* get_profile(i) / get_step(i) succeed from two different states of the random source with the
   same answer, leaving each untouched; the profile returned has exactly the remaining candidates
   of the record addressed and re-scores to its tallies *)
Definition consistent_at (r : rule) (p : Core.profile positive) (sts : list (estate positive)) (i : Z)
  : Prop :=
  exists pr st,
    nth_error sts (round_of (length sts) i) = Some st /\
    get_profile positive Pos.eqb r p sts i st0 = inl (pr, st0) /\
    get_profile positive Pos.eqb r p sts i st1 = inl (pr, st1) /\
    get_step positive Pos.eqb r p sts i st1 = inl ((pr, st), st1) /\
    cset_eqb positive Pos.eqb (cands pr) (flat positive (remaining st)) = true /\
    first_place_votes positive Pos.eqb pr = inl (escores st).
Ltac ex_consistent :=
  eexists; eexists; split; [reflexivity|]; split; [vm_compute; reflexivity|];
  split; [vm_compute; reflexivity|]; split; [vm_compute; reflexivity|];
  split; vm_compute; reflexivity.

(* ---- TopTwo, tiebreak = borda.  A>B>C>D x5, B>C>A>D x3, C>D>B>A x3, D>C>B>A x1: first places
   5, 3, 3, 1: B and C tie for the second place of the Plurality(2) stage; their Borda scores 35
   and 34 separate them: B stays, the tiebreak is RECORDED in round 1, nothing is drawn.  Round 2:
   A 5, B 7, B wins.  The run succeeds from the empty script. ---- *)
Definition tt_p : Core.profile positive :=
  mkProfile [lb [1; 2; 3; 4] 5; lb [2; 3; 1; 4] 3; lb [3; 4; 2; 1] 3; lb [4; 3; 2; 1] 1] [1; 2; 3; 4].
Definition tt_rule : rule := RTopTwo (Some TBBorda).
Definition tt_sts := Eval vm_compute in states_of (run_rule positive Pos.eqb tt_rule tt_p st0).

Example ex_toptwo_premises :
  NoDup (cands tt_p) /\
  run_rule positive Pos.eqb tt_rule tt_p st0 = inl (tt_sts, st0) /\
  draw_free positive Pos.eqb tt_rule tt_p tt_sts /\
  replay_safe2 positive Pos.eqb tt_rule tt_p tt_sts /\
  (* a tiebreak IS recorded: the earlier theorems and [replay_safe] do not apply *)
  tiebreaks (nth 1 tt_sts blank) = [([2; 3], [[2]; [3]])] /\
  ~ Forall (no_tiebreak positive) tt_sts /\
  ~ replay_safe positive Pos.eqb tt_rule tt_p tt_sts /\
  map (fun st => (remaining st, elected st, eliminated st)) tt_sts
    = [([[1]; [2; 3]; [4]], [[]], [[]]); ([[1]; [2]], [[]], [[3]; [4]]); ([[1]], [[2]], [[]])].
Proof.
  assert (Hrun : run_rule positive Pos.eqb tt_rule tt_p st0 = inl (tt_sts, st0))
    by (vm_compute; reflexivity).
  assert (Hnd : NoDup (cands tt_p)) by ex_nodup.
  assert (Hdf : draw_free positive Pos.eqb tt_rule tt_p tt_sts) by (exists [], st0; exact Hrun).
  assert (Hno : ~ Forall (no_tiebreak positive) tt_sts).
  { intros H. rewrite Forall_forall in H.
    assert (Hin : In (nth 1 tt_sts blank) tt_sts) by (cbn; tauto).
    specialize (H _ Hin). discriminate H. }
  split; [exact Hnd|]. split; [exact Hrun|]. split; [exact Hdf|]. split; [split; [exact Hdf|exact Hnd]|].
  split; [reflexivity|]. split; [exact Hno|]. split; [|reflexivity].
  intros [_ [_ H]]. exact (Hno H).
Qed.

(* rounds 0, 1, 2 and the negative indices, computed *)
Example ex_toptwo_replay :
  consistent_at tt_rule tt_p tt_sts 0 /\ consistent_at tt_rule tt_p tt_sts 1 /\
  consistent_at tt_rule tt_p tt_sts 2 /\ consistent_at tt_rule tt_p tt_sts (-1) /\
  consistent_at tt_rule tt_p tt_sts (-2) /\ consistent_at tt_rule tt_p tt_sts (-3) /\
  get_profile positive Pos.eqb tt_rule tt_p tt_sts 3 st1 = inr EIndex /\
  get_step positive Pos.eqb tt_rule tt_p tt_sts (-4) st1 = inr EIndex /\
  map (fun i => match get_profile positive Pos.eqb tt_rule tt_p tt_sts i st1 with
                | inl (pr, _) => cands pr | inr _ => [] end) [0; 1; 2]%Z
    = [[1; 2; 3; 4]; [1; 2]; [1]].
Proof.
  split; [ex_consistent|]. split; [ex_consistent|]. split; [ex_consistent|].
  split; [ex_consistent|]. split; [ex_consistent|]. split; [ex_consistent|].
  repeat split; vm_compute; reflexivity.
Qed.

(* the general theorem applied to the example (index 2, a round after the recorded tiebreak) *)
Example ex_toptwo_apply :
  exists pr st, nth_error tt_sts 2 = Some st /\
    (forall sx, get_profile positive Pos.eqb tt_rule tt_p tt_sts 2 sx = inl (pr, sx)) /\
    (forall sx, get_step positive Pos.eqb tt_rule tt_p tt_sts 2 sx = inl ((pr, st), sx)) /\
    first_place_votes positive Pos.eqb pr = inl (escores st) /\
    Permutation (cands pr) (flat positive (remaining st)).
Proof.
  destruct ex_toptwo_premises as [Hnd [_ [Hdf _]]].
  destruct (c09_toptwo_draw_free positive Pos.eqb Pos.eqb_spec (Some TBBorda) tt_p tt_sts Hnd Hdf)
    as [s0 [s1 [s2 [p1 [p2 [Hsts [_ [_ Hall]]]]]]]].
  destruct (Hall 2%Z ltac:(unfold in_range; cbn; lia)) as [pr [st [_ [Hst [Hg [Hgs [Hd [Hperm _]]]]]]]].
  exists pr, st. repeat split; assumption.
Qed.

(* with tiebreak = first_place the same tie cannot be resolved by the scores (B and C are tied on
   the very tally used): the run needs a draw, it is NOT draw-free *)
Example ex_toptwo_first_place_draws :
  run_rule positive Pos.eqb (RTopTwo (Some TBFirstPlace)) tt_p st0 = inr EScript.
Proof. vm_compute. reflexivity. Qed.

(* ---- Alaska(3, 1), fractional transfer, tiebreak = borda.  A>B x5, B>A x3, C>B>A x2, D>C>A x2,
   E>C x1: first places 5, 3, 2, 2, 1: C and D tie for the third place of the Plurality(3) stage;
   Borda separates them: C stays, the tiebreak is recorded in round 1, nothing is drawn.  STV
   stage on {A, B, C} (A 5, B 3, C 5, quota 7): B eliminated, then A elected. ---- *)
Definition ak_p : Core.profile positive :=
  mkProfile [lb [1; 2] 5; lb [2; 1] 3; lb [3; 2; 1] 2; lb [4; 3; 1] 2; lb [5; 3] 1] [1; 2; 3; 4; 5].
Definition ak_cfg : stv_cfg := mkStv 1 QDroop true TFractional (Some TBBorda).
Definition ak_rule : rule := RAlaska 3 1 ak_cfg.
Definition ak_sts := Eval vm_compute in states_of (run_rule positive Pos.eqb ak_rule ak_p st0).

Example ex_alaska_premises :
  NoDup (cands ak_p) /\
  run_rule positive Pos.eqb ak_rule ak_p st0 = inl (ak_sts, st0) /\
  draw_free positive Pos.eqb ak_rule ak_p ak_sts /\
  replay_safe2 positive Pos.eqb ak_rule ak_p ak_sts /\
  length ak_sts = 4%nat /\
  tiebreaks (nth 1 ak_sts blank) = [([3; 4], [[3]; [4]])] /\
  ~ Forall (no_tiebreak positive) ak_sts /\
  ~ replay_safe positive Pos.eqb ak_rule ak_p ak_sts /\
  map (fun st => (remaining st, elected st, eliminated st)) ak_sts
    = [([[1]; [2]; [3; 4]; [5]], [[]], [[]]); ([[1]; [2]; [3]], [[]], [[4]; [5]]);
       ([[1]; [3]], [[]], [[2]]); ([[3]], [[1]], [[]])].
Proof.
  assert (Hrun : run_rule positive Pos.eqb ak_rule ak_p st0 = inl (ak_sts, st0))
    by (vm_compute; reflexivity).
  assert (Hnd : NoDup (cands ak_p)) by ex_nodup.
  assert (Hdf : draw_free positive Pos.eqb ak_rule ak_p ak_sts) by (exists [], st0; exact Hrun).
  assert (Hno : ~ Forall (no_tiebreak positive) ak_sts).
  { intros H. rewrite Forall_forall in H.
    assert (Hin : In (nth 1 ak_sts blank) ak_sts) by (cbn; tauto).
    specialize (H _ Hin). discriminate H. }
  split; [exact Hnd|]. split; [exact Hrun|]. split; [exact Hdf|]. split; [split; [exact Hdf|exact Hnd]|].
  split; [reflexivity|]. split; [reflexivity|]. split; [exact Hno|]. split; [|reflexivity].
  intros [_ [_ [_ H]]]. exact (Hno H).
Qed.

(* rounds 0, 1 (Plurality stage) and 2, 3 (STV stage, get_profile rebuilds and re-runs an STV) *)
Example ex_alaska_replay :
  consistent_at ak_rule ak_p ak_sts 0 /\ consistent_at ak_rule ak_p ak_sts 1 /\
  consistent_at ak_rule ak_p ak_sts 2 /\ consistent_at ak_rule ak_p ak_sts 3 /\
  consistent_at ak_rule ak_p ak_sts (-1) /\ consistent_at ak_rule ak_p ak_sts (-3) /\
  get_profile positive Pos.eqb ak_rule ak_p ak_sts 4 st1 = inr EIndex /\
  get_step positive Pos.eqb ak_rule ak_p ak_sts (-5) st1 = inr EIndex /\
  map (fun i => match get_profile positive Pos.eqb ak_rule ak_p ak_sts i st1 with
                | inl (pr, _) => cands pr | inr _ => [] end) [0; 1; 2; 3]%Z
    = [[1; 2; 3; 4; 5]; [1; 2; 3]; [1; 3]; [3]].
Proof.
  split; [ex_consistent|]. split; [ex_consistent|]. split; [ex_consistent|].
  split; [ex_consistent|]. split; [ex_consistent|]. split; [ex_consistent|].
  repeat split; vm_compute; reflexivity.
Qed.

Example ex_alaska_apply :
  exists pr st, nth_error ak_sts 3 = Some st /\
    (forall sx, get_profile positive Pos.eqb ak_rule ak_p ak_sts (-1) sx = inl (pr, sx)) /\
    (forall sx, get_step positive Pos.eqb ak_rule ak_p ak_sts (-1) sx = inl ((pr, st), sx)) /\
    first_place_votes positive Pos.eqb pr = inl (escores st) /\
    Permutation (cands pr) (flat positive (remaining st)).
Proof.
  destruct ex_alaska_premises as [Hnd [_ [Hdf _]]].
  destruct (c09_alaska_draw_free positive Pos.eqb Pos.eqb_spec 3 1 ak_cfg ak_p ak_sts Hnd Hdf)
    as [s0 [s1 [p1 [ssts [t [ps [ss [_ [_ [_ [_ [_ [_ Hall]]]]]]]]]]]]].
  destruct (Hall (-1)%Z ltac:(unfold in_range; cbn; lia)) as [pr [st [_ [Hst [Hg [Hgs [Hd Hperm]]]]]]].
  exists pr, st. repeat split; assumption.
Qed.

(* ---- Alaska(3, 1) with the RANDOM (Cambridge) transfer, tiebreak = borda.  A x5, B x4, C x2,
   D x2, E>C x1: C and D tie for the third place, Borda keeps C (recorded tiebreak, no draw).  STV
   stage on {A, B, C} (5, 4, 3, quota 7): C is eliminated, then B, and A is elected by default:
   nobody reaches the quota, so the random transfer is never performed.  Five records, no draw:
   the transfer rule need not be restricted. ---- *)
Definition akr_p : Core.profile positive :=
  mkProfile [lb [1] 5; lb [2] 4; lb [3] 2; lb [4] 2; lb [5; 3] 1] [1; 2; 3; 4; 5].
Definition akr_cfg : stv_cfg := mkStv 1 QDroop true TRandom (Some TBBorda).
Definition akr_rule : rule := RAlaska 3 1 akr_cfg.
Definition akr_sts := Eval vm_compute in states_of (run_rule positive Pos.eqb akr_rule akr_p st0).

Example ex_alaska_random_transfer :
  s_transfer akr_cfg = TRandom /\ NoDup (cands akr_p) /\
  run_rule positive Pos.eqb akr_rule akr_p st0 = inl (akr_sts, st0) /\
  replay_safe2 positive Pos.eqb akr_rule akr_p akr_sts /\
  ~ replay_safe positive Pos.eqb akr_rule akr_p akr_sts /\
  length akr_sts = 5%nat /\
  tiebreaks (nth 1 akr_sts blank) = [([3; 4], [[3]; [4]])] /\
  consistent_at akr_rule akr_p akr_sts 0 /\ consistent_at akr_rule akr_p akr_sts 1 /\
  consistent_at akr_rule akr_p akr_sts 2 /\ consistent_at akr_rule akr_p akr_sts 3 /\
  consistent_at akr_rule akr_p akr_sts 4 /\ consistent_at akr_rule akr_p akr_sts (-2) /\
  (* the final, default-election round leaves the empty profile *)
  get_profile positive Pos.eqb akr_rule akr_p akr_sts 4 st1 = inl (mkProfile [] [], st1).
Proof.
  assert (Hrun : run_rule positive Pos.eqb akr_rule akr_p st0 = inl (akr_sts, st0))
    by (vm_compute; reflexivity).
  assert (Hnd : NoDup (cands akr_p)) by ex_nodup.
  split; [reflexivity|]. split; [exact Hnd|]. split; [exact Hrun|].
  split; [split; [exists [], st0; exact Hrun|exact Hnd]|].
  split; [intros [_ [H _]]; apply H; reflexivity|].
  split; [reflexivity|]. split; [reflexivity|].
  split; [ex_consistent|]. split; [ex_consistent|]. split; [ex_consistent|].
  split; [ex_consistent|]. split; [ex_consistent|]. split; [ex_consistent|].
  vm_compute. reflexivity.
Qed.

(* ---- DominatingSets.  (1) A>B>C x3, A>C>B x2, C>A>B x2 over {A, B, C, D}: tiers {A}, {C}, {B},
   {D}: A is elected, three candidates remain.  (2) the cycle A>B>C x3, B>C>A x2, C>A>B x2: the top
   tier is everybody, nobody remains and get_profile(1) is the EMPTY profile. ---- *)
Definition dom_p : Core.profile positive :=
  mkProfile [lb [1; 2; 3] 3; lb [1; 3; 2] 2; lb [3; 1; 2] 2] [1; 2; 3; 4].
Definition dom_sts := Eval vm_compute in states_of (run_rule positive Pos.eqb RDominating dom_p st0).
Definition cyc_p : Core.profile positive :=
  mkProfile [lb [1; 2; 3] 3; lb [2; 3; 1] 2; lb [3; 1; 2] 2] [1; 2; 3].
Definition cyc_sts := Eval vm_compute in states_of (run_rule positive Pos.eqb RDominating cyc_p st0).

Ltac ex_incl := let x := fresh "x" in let Hx := fresh "Hx" in intros x Hx; cbn in Hx |- *; intuition.
Ltac ex_untied_ballot :=
  split; [discriminate|]; split; [repeat constructor|]; split; [ex_nodup|];
  split; [ex_incl|]; split; [intros x []|reflexivity].

Example ex_dominating :
  untied_profile positive dom_p /\
  run_rule positive Pos.eqb RDominating dom_p st1 = inl (dom_sts, st1) /\
  replay_safe2 positive Pos.eqb RDominating dom_p dom_sts /\
  map (fun st => (remaining st, elected st)) dom_sts
    = [([[1; 2; 3; 4]], [[]]); ([[3]; [2]; [4]], [[1]])] /\
  exists np,
    get_profile positive Pos.eqb RDominating dom_p dom_sts 1 st0 = inl (np, st0) /\
    get_profile positive Pos.eqb RDominating dom_p dom_sts (-1) st1 = inl (np, st1) /\
    get_step positive Pos.eqb RDominating dom_p dom_sts 1 st1 = inl ((np, nth 1 dom_sts blank), st1) /\
    cands np = [2; 3; 4] /\ flat positive (remaining (nth 1 dom_sts blank)) = [3; 2; 4] /\
    get_profile positive Pos.eqb RDominating dom_p dom_sts 0 st1 = inl (dom_p, st1).
Proof.
  assert (Hun : untied_profile positive dom_p).
  { split; [ex_nodup|]. split; [discriminate|]. repeat (constructor; [ex_untied_ballot|]). constructor. }
  split; [exact Hun|]. split; [vm_compute; reflexivity|].
  split; [split; [exists [], st0; vm_compute; reflexivity|exact Hun]|].
  split; [reflexivity|].
  eexists. split; [vm_compute; reflexivity|]. split; [vm_compute; reflexivity|].
  split; [vm_compute; reflexivity|]. split; [reflexivity|]. split; reflexivity.
Qed.

Example ex_dominating_everybody :
  untied_profile positive cyc_p /\
  run_rule positive Pos.eqb RDominating cyc_p st0 = inl (cyc_sts, st0) /\
  flat positive (elected (nth 1 cyc_sts blank)) = [3; 1; 2] /\
  flat positive (remaining (nth 1 cyc_sts blank)) = [] /\
  get_profile positive Pos.eqb RDominating cyc_p cyc_sts 1 st1 = inl (mkProfile [] [], st1) /\
  get_profile positive Pos.eqb RDominating cyc_p cyc_sts (-2) st1 = inl (cyc_p, st1).
Proof.
  assert (Hun : untied_profile positive cyc_p).
  { split; [ex_nodup|]. split; [discriminate|]. repeat (constructor; [ex_untied_ballot|]). constructor. }
  split; [exact Hun|]. repeat split; vm_compute; reflexivity.
Qed.

(* ---- B: a sequence of queries on the Alaska election above (recorded tiebreak, no draw), with
   repetitions, negative and out-of-range indices, asked from a state with draws pending: every
   answer is the answer in isolation (from the empty state), and the source comes out untouched ---- *)
Definition ak_e : election positive := mkElection positive ak_rule ak_p ak_sts.
Definition qs : list query :=
  [QProfile 3; QElected (-1); QStep (-2); QProfile 3; QStatus 2; QProfile 7; QRemaining 1;
   QEliminated 3; QRanking (-4); QStep (-9); QProfile 1; QStep 0].

Example ex_sequence :
  ask_all positive Pos.eqb ak_e qs st1 = (map (fun q => alone positive Pos.eqb ak_e q st0) qs, st1) /\
  nth_error (fst (ask_all positive Pos.eqb ak_e qs st1)) 5 = Some (inr EIndex) /\
  nth_error (fst (ask_all positive Pos.eqb ak_e qs st1)) 1 = Some (inl (AGroups positive [[1]])) /\
  nth_error (fst (ask_all positive Pos.eqb ak_e qs st1)) 0
    = nth_error (fst (ask_all positive Pos.eqb ak_e qs st1)) 3.
Proof. repeat split; vm_compute; reflexivity. Qed.

(* the general theorems applied to the example *)
Example ex_sequence_apply : forall s : Core.mstate positive,
  ask_all positive Pos.eqb ak_e qs s = (map (fun q => alone positive Pos.eqb ak_e q st0) qs, s).
Proof.
  intros s. destruct ex_alaska_premises as [_ [_ [_ [Hsafe _]]]].
  exact (proj1 (c09_ask_all_replay_safe2 positive Pos.eqb Pos.eqb_spec ak_e Hsafe qs s st0)).
Qed.

Example ex_index_error_apply : forall (i : Z) (s : Core.mstate positive),
  get_profile positive Pos.eqb ak_rule ak_p ak_sts i s = inr EIndex <-> ~ (-4 <= i <= 3)%Z.
Proof.
  intros i s. destruct ex_alaska_premises as [_ [_ [_ [Hsafe _]]]].
  destruct (c09_index_error_iff2 positive Pos.eqb Pos.eqb_spec ak_rule ak_p ak_sts Hsafe i s) as [H _].
  rewrite H. unfold in_range. change (Z.of_nat (length ak_sts)) with 4%Z. lia.
Qed.

End C09DrawFree2Examples.
