(* Properties/C03_law.v — C03, the random (Cambridge) transfer: "x all draws of the random
   selection" and "every transferable ballot of the winner is equally likely to be chosen".
   Statements only; proofs are in Proofs/C03_law.v.
   Properties/C03.v (c03_rand_submultiset) shows that every sample the model accepts is a
   sub-collection of the winner's unit ballots (soundness).  Here:
   (a) completeness: every sub-collection of the right size IS accepted, so the set of draws the
       model quantifies over is exactly the set of possible outcomes of random.sample;
   (b) the law: random.sample(units, k) = the first k entries of a uniform permutation of the units
       (Spec/SampleSpec.v: [usample] on positions, [law_sample_ballots] on rankings; the uniform
       permutation is the trusted primitive [Laws.uperm] of C17): each unit ballot is selected with
       probability k/n, and the expected weight of every continuation is proportional.
   Vocabulary (Spec/SampleSpec.v): units pop = int(weight) copies of each entry of the population;
   pick d us idxs = the elements of us at the positions idxs; selected i idxs = "position i is
   chosen"; expect f d = sum of weight * f(outcome).  mass, prob, dist: Model/Laws.v. *)
From VK Require Import Base Core STV Laws EditSpec STVSpec.
From VK.Spec Require Import LawSpec SampleSpec.
From VK.Proofs Require Import C03_law.
From Coq Require Import Permutation.

(* ---------- the law of the chosen positions (no candidates involved) ---------- *)

(* a probability distribution *)
Theorem c03_usample_mass : forall n k, mass (usample n k) == 1.
Proof. exact usample_mass. Qed.

(* every outcome is a list of min(k, n) distinct positions below n, with positive weight *)
Theorem c03_usample_support : forall n k l w, In (l, w) (usample n k) ->
  NoDup l /\ length l = Nat.min k n /\ (forall i, In i l -> (i < n)%nat) /\ 0 < w.
Proof. exact usample_support. Qed.

(* conversely every ordered selection of distinct positions has positive probability *)
Theorem c03_usample_every_selection : forall n idxs,
  NoDup idxs -> (forall i, In i idxs -> (i < n)%nat) ->
  0 < prob (idxs_eqb idxs) (usample n (length idxs)).
Proof. exact usample_every_selection. Qed.

(* and all ordered selections of k distinct positions are equally likely: (n-k)!/n! each *)
Theorem c03_usample_selection_uniform : forall n idxs,
  NoDup idxs -> (forall i, In i idxs -> (i < n)%nat) ->
  prob (idxs_eqb idxs) (usample n (length idxs)) == Qnat (fact (n - length idxs)) / Qnat (fact n).
Proof. exact usample_selection_prob. Qed.

(* every unit is equally likely to be among those moved on: probability k/n *)
Theorem c03_usample_unit : forall n k i, (i < n)%nat -> (k <= n)%nat ->
  prob (selected i) (usample n k) == Qnat k / Qnat n.
Proof. exact usample_unit. Qed.

(* linearity: whatever value g is attached to the units, the expected total value of the selected
   ones is k/n of the total value *)
Theorem c03_usample_expect_sum : forall n k (g : nat -> Q), (k <= n)%nat ->
  expect (fun idxs => qsum (map g idxs)) (usample n k) == (Qnat k / Qnat n) * qsum (map g (seq 0 n)).
Proof. exact usample_expect_sum. Qed.

Print Assumptions c03_usample_mass.
Print Assumptions c03_usample_support.
Print Assumptions c03_usample_every_selection.
Print Assumptions c03_usample_selection_uniform.
Print Assumptions c03_usample_unit.
Print Assumptions c03_usample_expect_sum.

Section C03_law.
Variable cand : Type.
Variable ceqb : cand -> cand -> bool.
Hypothesis ceqb_spec : forall a b, reflect (a = b) (ceqb a b).

Notation ranking := (ranking cand).
Notation ballot := (ballot cand).
Notation mstate := (mstate cand).
Notation strip := (strip cand ceqb).
Notation first_is := (first_is cand ceqb).
Notation pos_wt := (pos_wt cand).
Notation wt_where := (wt_where cand).
Notation wtof_rk := (wtof_rk cand ceqb).
Notation maps_to := (maps_to cand ceqb).
Notation rand_transfer := (rand_transfer cand ceqb).
Notation count_rk := (count_rk cand ceqb).
Notation units_of := (units_of cand ceqb).
Notation valid_ballot_sample := (valid_ballot_sample cand ceqb).
Notation units := (units cand).
Notation law_sample_ballots := (law_sample_ballots cand).

(* ---------- (a) completeness of the model's sample test ---------- *)

(* every sub-multiset l of the unit ballots (l together with some rest is a rearrangement of all the
   units) is accepted as a sample of size |l|, provided no population entry has a negative weight
   (see c03_rand_complete_negative_refuted below) *)
Theorem c03_sample_complete : forall (pop : list (ranking * Q)) (l rest : list ranking),
  Forall (fun p => 0 <= snd p) pop ->
  Permutation (l ++ rest) (units pop) ->
  valid_ballot_sample pop (Z.of_nat (length l)) l = true.
Proof. exact (sample_complete cand ceqb). Qed.

(* in particular every selection of distinct unit ballots, given by their positions *)
Theorem c03_sample_complete_idx : forall (pop : list (ranking * Q)) idxs,
  Forall (fun p => 0 <= snd p) pop ->
  NoDup idxs -> (forall i, In i idxs -> (i < length (units pop))%nat) ->
  valid_ballot_sample pop (Z.of_nat (length idxs)) (pick [] (units pop) idxs) = true.
Proof. exact (sample_complete_idx cand ceqb). Qed.

(* conversely (no sign premise): every sample the model accepts has the right size and is, position
   by position up to the order inside a tied position, a selection of DISTINCT unit ballots: together
   with c03_sample_complete_idx and c03_usample_every_selection the accepted draws are exactly the
   outcomes of positive probability of the law *)
Theorem c03_sample_sound_idx : forall (pop : list (ranking * Q)) k (l : list ranking),
  valid_ballot_sample pop k l = true ->
  Z.of_nat (length l) = k /\
  exists idxs, NoDup idxs /\ (forall i, In i idxs -> (i < length (units pop))%nat) /\
    Forall2 (fun r r' => ranking_eqb cand ceqb r r' = true) l (pick [] (units pop) idxs).
Proof. exact (sample_sound_idx cand ceqb ceqb_spec). Qed.

(* random_transfer itself: with integral weights, non-empty rankings and no negative transferable
   weight, EVERY sub-multiset of int(fpv) - int(t) of the winner's unit ballots is a draw on which
   the call succeeds (consuming exactly that draw and logging the population) *)
Theorem c03_rand_transfer_complete : forall w fpv (bs : list ballot) t (s : mstate) l rest extra,
  (forall b, In b bs -> is_integral (wt b) = true /\ rk b <> []) ->
  (forall b, In b bs -> first_is w b && nonempty (strip [w] (rk b)) = true -> 0 <= wt b) ->
  scr s = DRanks l :: rest ->
  Z.of_nat (length l) = (Qtrunc fpv - Qtrunc t)%Z ->
  Permutation (l ++ extra)
    (units (map (fun b => (strip [w] (rk b), wt b))
                (filter (fun b => first_is w b && nonempty (strip [w] (rk b))) bs))) ->
  exists out,
    rand_transfer w fpv bs t s =
    inl (out, mkM rest
                (CSampleBallots
                   (map (fun b => (strip [w] (rk b), wt b))
                        (filter (fun b => first_is w b && nonempty (strip [w] (rk b))) bs))
                   (Qtrunc fpv - Qtrunc t) :: lg s)).
Proof.
  intros w fpv bs t s l rest extra H1 H2 H3 H4 H5. eexists.
  exact (rand_transfer_complete cand ceqb w fpv bs t s l rest extra H1 H2 H3 H4 H5).
Qed.

(* ---------- (b) the law of the sampled ballots ---------- *)

Theorem c03_law_mass : forall (pop : list (ranking * Q)) k, mass (law_sample_ballots pop k) == 1.
Proof. exact (law_mass cand). Qed.

(* every outcome of the law has positive probability and is accepted by the model's sample test *)
Theorem c03_law_support_valid : forall (pop : list (ranking * Q)) k l w,
  Forall (fun p => 0 <= snd p) pop -> (k <= length (units pop))%nat ->
  In (l, w) (law_sample_ballots pop k) ->
  valid_ballot_sample pop (Z.of_nat k) l = true /\ 0 < w.
Proof. exact (law_support_valid cand ceqb). Qed.

(* the expected number of sampled ballots with continuation r is (units carrying r) * k / n *)
Theorem c03_law_expect_count : forall (pop : list (ranking * Q)) k r,
  Forall (fun p => 0 <= snd p) pop -> (k <= length (units pop))%nat ->
  expect (fun l => inject_Z (count_rk r l)) (law_sample_ballots pop k) ==
  inject_Z (units_of r pop) * (Qnat k / Qnat (length (units pop))).
Proof. exact (law_expect_count cand ceqb). Qed.

(* the expected weight of a non-empty continuation r' in the output of random_transfer, the sample
   following the law: the winner's ballots that continue with r' pass on the fraction
   (int(fpv) - int(t)) / (total transferable weight) of their weight, on top of the weight of the
   other ballots that map to r' *)
Theorem c03_rand_expected_weight : forall w fpv (bs : list ballot) t r',
  (forall b, In b bs -> is_integral (wt b) = true /\ rk b <> []) ->
  (forall b, In b bs -> first_is w b && nonempty (strip [w] (rk b)) = true -> 0 <= wt b) ->
  (0 <= Qtrunc fpv - Qtrunc t)%Z ->
  inject_Z (Qtrunc fpv - Qtrunc t) <=
    wt_where (fun b => first_is w b && nonempty (strip [w] (rk b))) bs ->
  nonempty r' = true ->
  expect (fun l => match rand_transfer w fpv bs t (mkM [DRanks l] []) with
                   | inl (out, _) => wtof_rk r' out
                   | inr _ => 0
                   end)
         (law_sample_ballots
            (map (fun b => (strip [w] (rk b), wt b))
                 (filter (fun b => first_is w b && nonempty (strip [w] (rk b))) bs))
            (Z.to_nat (Qtrunc fpv - Qtrunc t))) ==
  wt_where (fun b => first_is w b && maps_to [w] r' b) bs *
    (inject_Z (Qtrunc fpv - Qtrunc t) /
     wt_where (fun b => first_is w b && nonempty (strip [w] (rk b))) bs) +
  wt_where (fun b => negb (first_is w b) && maps_to [w] r' b && pos_wt b) bs.
Proof. exact (rand_expected_weight cand ceqb ceqb_spec). Qed.

End C03_law.

Print Assumptions c03_sample_complete.
Print Assumptions c03_sample_complete_idx.
Print Assumptions c03_sample_sound_idx.
Print Assumptions c03_rand_transfer_complete.
Print Assumptions c03_law_mass.
Print Assumptions c03_law_support_valid.
Print Assumptions c03_law_expect_count.
Print Assumptions c03_rand_expected_weight.

(* ---------- the sign premise cannot be dropped (model / Python discrepancy) ---------- *)

Module C03LawExamples.
Open Scope positive_scope.

Definition bal (r : list positive) (w : Q) : ballot positive :=
  mkBallot (map (fun c => [c]) r) w [] None None.

(* winner 1 with ballots 1>2 x3 and 1>2 x(-2): Python builds [unit]*3 + [unit]*(-2) = 3 unit ballots
   and random.sample(units, 3 - 1) succeeds; the model counts 3 + (-2) = 1 available unit and
   answers ValueError.  Without the premise "no transferable ballot has a negative weight"
   completeness fails. *)
Theorem c03_rand_complete_negative_refuted :
  exists (w : positive) fpv (bs : list (ballot positive)) t (s : mstate positive) l rest extra,
    (forall b, In b bs -> is_integral (wt b) = true /\ rk b <> []) /\
    scr s = DRanks l :: rest /\
    Z.of_nat (length l) = (Qtrunc fpv - Qtrunc t)%Z /\
    Permutation (l ++ extra)
      (units positive
         (map (fun b => (Core.strip positive Pos.eqb [w] (rk b), wt b))
              (filter (fun b => Core.first_is positive Pos.eqb w b &&
                                nonempty (Core.strip positive Pos.eqb [w] (rk b))) bs))) /\
    STV.rand_transfer positive Pos.eqb w fpv bs t s = inr EValue.
Proof.
  exists 1, 3%Q, [bal [1; 2] 3; bal [1; 2] (-2)], 1%Q, (mkM [DRanks [[[2]]; [[2]]]] []),
         [[[2]]; [[2]]], [], [[[2]]].
  split.
  { intros b [<-|[<-|[]]]; split; try reflexivity; discriminate. }
  split; [reflexivity|]. split; [reflexivity|]. split; [vm_compute; apply Permutation_refl|].
  vm_compute. reflexivity.
Qed.

(* ---------- non-vacuity ---------- *)

(* positions: 4 units, 2 chosen: 12 ordered selections, each unit chosen with probability 1/2 *)
Example ex_usample :
  mass (usample 4 2) == 1 /\ prob (selected 1%nat) (usample 4 2) == (1 # 2)%Q /\
  prob (idxs_eqb [3; 0]%nat) (usample 4 2) == (1 # 12)%Q /\
  expect (fun idxs => qsum (map (fun i => Qnat i) idxs)) (usample 4 2) == 3%Q.
Proof. repeat split; vm_compute; reflexivity. Qed.

(* winner 1 with tally 6, threshold 4 (the pile of Properties/C03.v): the transferable population is
   [2>3 x3; 2 x2], five unit ballots, two are drawn *)
Definition pile1 : list (ballot positive) :=
  [bal [1; 2; 3] 3; bal [1] 1; bal [1; 2] 2; bal [2; 1; 3] 5].
Definition pop1 : list (ranking positive * Q) := [([[2]; [3]], 3%Q); ([[2]], 2%Q)].

Example ex_pop1 :
  map (fun b => (Core.strip positive Pos.eqb [1] (rk b), wt b))
      (filter (fun b => Core.first_is positive Pos.eqb 1 b &&
                        nonempty (Core.strip positive Pos.eqb [1] (rk b))) pile1) = pop1 /\
  units positive pop1 = [[[2]; [3]]; [[2]; [3]]; [[2]; [3]]; [[2]]; [[2]]] /\
  Forall (fun p => 0 <= snd p)%Q pop1.
Proof. split; [reflexivity|]. split; [reflexivity|]. repeat constructor; discriminate. Qed.

(* a sub-multiset and a selection by positions, both accepted *)
Example ex_complete :
  Permutation ([[[2]]; [[2]; [3]]] ++ [[[2]; [3]]; [[2]; [3]]; [[2]]]) (units positive pop1) /\
  STV.valid_ballot_sample positive Pos.eqb pop1 2 [[[2]]; [[2]; [3]]] = true /\
  STV.valid_ballot_sample positive Pos.eqb pop1 2 (pick [] (units positive pop1) [4; 1]%nat) = true /\
  STV.valid_ballot_sample positive Pos.eqb pop1 3 [[[2]]; [[2]]; [[2]]] = false.
Proof.
  split.
  { vm_compute. eapply perm_trans; [apply perm_swap|]. apply perm_skip.
    eapply perm_trans; [|apply Permutation_middle with (l1 := [[[2]; [3]]; [[2]; [3]]])].
    apply Permutation_refl. }
  repeat split; vm_compute; reflexivity.
Qed.

(* the law: 2 of 5 units; the expected number of sampled 2>3 ballots is 3 * 2/5, and the expected
   weight of 2>3 after the transfer is 3 * (2/5) + 5 (the ballot 2>1>3 x5 also maps to 2>3) *)
Example ex_law :
  mass (law_sample_ballots positive pop1 2) == 1 /\
  expect (fun l => inject_Z (STV.count_rk positive Pos.eqb [[2]; [3]] l))
         (law_sample_ballots positive pop1 2) == (6 # 5)%Q /\
  expect (fun l => match STV.rand_transfer positive Pos.eqb 1 6 pile1 4 (mkM [DRanks l] []) with
                   | inl (out, _) => EditSpec.wtof_rk positive Pos.eqb [[2]; [3]] out
                   | inr _ => 0%Q
                   end)
         (law_sample_ballots positive pop1 2) == (31 # 5)%Q /\
  Qplus
    (Qmult
       (EditSpec.wt_where positive (fun b => Core.first_is positive Pos.eqb 1 b &&
                                      EditSpec.maps_to positive Pos.eqb [1] [[2]; [3]] b) pile1)
       (Qdiv (inject_Z 2)
             (EditSpec.wt_where positive
                (fun b => Core.first_is positive Pos.eqb 1 b &&
                          nonempty (Core.strip positive Pos.eqb [1] (rk b))) pile1)))
    (EditSpec.wt_where positive (fun b => negb (Core.first_is positive Pos.eqb 1 b) &&
                                   EditSpec.maps_to positive Pos.eqb [1] [[2]; [3]] b &&
                                   Core.pos_wt positive b) pile1) == (31 # 5)%Q.
Proof. repeat split; vm_compute; reflexivity. Qed.

End C03LawExamples.
