(* Properties/C02_run.v — C02 at the level of a whole run ("checked round by round"), for every
   quota, simultaneous or one-by-one mode, every tiebreak setting and every transfer rule — the
   random (Cambridge) one included, for replayed scripts satisfying [script_ok].
   Statements only; proofs are in Proofs/C02_run.v.

   Vocabulary.  Spec/STVSpec.v (see the header of Properties/C02.v): wf_stv0, step_ctx, state_of,
   script_ok, tally, reaches, max_tally, tied_with, elect_case / default_case / elim_case,
   keep_share, moved_to, stv_inv (the loop invariant, Properties/C01_stv.v).
   Spec/ReplaySpec.v: stv_trace cfg t p sts ps ss — ps / sts / ss list, round by round, the
   profile after the round, the record of the round, the random source after the round; each
   record reports the tallies of its profile and round r+1 is ONE [stv_step] with threshold t from
   (ps r, sts r, ss r) to (ps (r+1), sts (r+1), ss (r+1)).
   Spec/STVRunSpec.v:
     led_by W b         the first candidate of b is in W
     sample_of t bs w l l is a legal sample of whole ballots from w's pile: tally w - t rankings,
                        each the non-empty continuation of a ballot led by w, no ranking drawn
                        more often than the pile carries it
     samples_to W r' ls number of sampled rankings that become r' when W is struck out
     round_weights      where the ballots of one round go, ranking by ranking (3 cases)
     resolution kind q g tt sa s1   how the tiebreak [kind] on profile q turned the tied set g
                        into the order tt, consuming the script from sa to s1: random = one
                        permutation of g; first_place / borda = ordered by that score of q, one
                        permutation per group still tied on it (scored_resolution) *)
From VK Require Import Base Core STV Rules EditSpec.
From VK.Spec Require Import STVSpec ReplaySpec TieSpec STVRunSpec.
From VK.Proofs Require Import C02_run STV_final STV_inv.
From Coq Require Import Permutation.

Section C02_run.
Variable cand : Type.
Variable ceqb : cand -> cand -> bool.
Hypothesis ceqb_spec : forall a b, reflect (a = b) (ceqb a b).

Notation profile := (profile cand).
Notation ranking := (ranking cand).
Notation estate := (estate cand).
Notation mstate := (mstate cand).
Notation flat := (flat cand).
Notation singletons := (singletons cand).
Notation tally := (tally cand ceqb).
Notation wtof_rk := (wtof_rk cand ceqb).
Notation wt_where := (wt_where cand).
Notation maps_to := (maps_to cand ceqb).
Notation wf_stv0 := (wf_stv0 cand).
Notation step_ctx := (step_ctx cand ceqb).
Notation script_ok := (script_ok cand).
Notation reaches := (reaches cand ceqb).
Notation max_tally := (max_tally cand ceqb).
Notation tied_with := (tied_with cand ceqb).
Notation stv_trace := (stv_trace cand ceqb).
Notation stv_inv := (stv_inv cand ceqb).
Notation stv_init := (stv_init cand).
Notation stv_step := (stv_step cand ceqb).
Notation run_stv := (run_stv cand ceqb).
Notation initial_state := (initial_state cand ceqb).
Notation count_elected := (count_elected cand).
Notation tiebreak_set := (tiebreak_set cand ceqb).
Notation elect_case := (elect_case cand ceqb).
Notation default_case := (default_case cand ceqb).
Notation elim_case := (elim_case cand ceqb).
Notation led_by := (led_by cand ceqb).
Notation sample_of := (sample_of cand ceqb).
Notation samples_to := (samples_to cand ceqb).
Notation round_weights := (round_weights cand ceqb).
Notation resolution := (resolution cand ceqb).

(* ---------- 1. every round of a run is a legal round ---------- *)

(* A successful run from a valid-or-empty profile has a trace (profiles ps, random-source states
   ss) that starts at the input profile with the initial tallies as record 0, uses the threshold t
   computed once by stv_init in every round, and in which EVERY consecutive pair of rounds is an
   election (E), a default election (D) or an elimination (X) of the documented count, relative to
   the profile reached after the previous rounds; every profile of the trace is valid-or-empty over
   candidates of the input and is reported by its record, and the script stays admissible. *)
Theorem c02_run_legal : forall cfg (p : profile) (s s' : mstate) sts,
  wf_stv0 p -> (s_transfer cfg = TRandom -> script_ok s) ->
  run_stv cfg p s = inl (sts, s') ->
  exists t ps ss,
    stv_init cfg p = inl t /\ stv_trace cfg t p sts ps ss /\
    nth_error ps 0 = Some p /\ nth_error ss 0 = Some s /\ last ss s = s' /\
    (exists s0, initial_state p = inl s0 /\ nth_error sts 0 = Some s0) /\
    (forall r pr st, nth_error ps r = Some pr -> nth_error sts r = Some st -> step_ctx p pr st) /\
    (forall r sa, nth_error ss r = Some sa -> s_transfer cfg = TRandom -> script_ok sa) /\
    (forall r pr st pr' st',
       nth_error ps r = Some pr -> nth_error sts r = Some st ->
       nth_error ps (S r) = Some pr' -> nth_error sts (S r) = Some st' ->
       elect_case cfg t pr st st' pr' \/
       default_case cfg t (count_elected (firstn (S r) sts)) pr st st' pr' \/
       elim_case cfg t (count_elected (firstn (S r) sts)) p pr st' pr').
Proof. exact (run_legal cand ceqb ceqb_spec). Qed.

(* the same trace satisfies the loop invariant of C01 at every round (records newest first) *)
Theorem c02_run_invariant : forall cfg (p : profile) (s s' : mstate) sts,
  wf_stv0 p -> (s_transfer cfg = TRandom -> script_ok s) ->
  run_stv cfg p s = inl (sts, s') ->
  exists t ps ss s0,
    stv_init cfg p = inl t /\ stv_trace cfg t p sts ps ss /\
    nth_error ps 0 = Some p /\ nth_error ss 0 = Some s /\ last ss s = s' /\
    initial_state p = inl s0 /\ nth_error sts 0 = Some s0 /\
    forall r pr st sa,
      nth_error ps r = Some pr -> nth_error sts r = Some st -> nth_error ss r = Some sa ->
      stv_inv cfg t (total_wt cand (ballots p)) p pr (rev (firstn (S r) sts)) /\
      step_ctx p pr st /\ (s_transfer cfg = TRandom -> script_ok sa).
Proof. exact (run_trace_inv cand ceqb ceqb_spec). Qed.

(* ---------- 2. the transfer law, every round of the run, every transfer rule ---------- *)

(* in every round the ballots of the next profile are, ranking by ranking, those the documented
   step produces ([round_weights]: fractional / full-weight / random election, default election,
   elimination); the integrality of the threshold needed by the random rule comes from the run *)
Theorem c02_run_weights : forall cfg (p : profile) (s s' : mstate) sts,
  wf_stv0 p -> (s_transfer cfg = TRandom -> script_ok s) ->
  run_stv cfg p s = inl (sts, s') ->
  exists t ps ss,
    stv_init cfg p = inl t /\ stv_trace cfg t p sts ps ss /\
    nth_error ps 0 = Some p /\ nth_error ss 0 = Some s /\ last ss s = s' /\
    forall r pr pr' st' sa sb,
      nth_error ps r = Some pr -> nth_error ps (S r) = Some pr' ->
      nth_error sts (S r) = Some st' ->
      nth_error ss r = Some sa -> nth_error ss (S r) = Some sb ->
      round_weights cfg t (count_elected (firstn (S r) sts)) pr pr' st' sa sb.
Proof. exact (run_weights cand ceqb ceqb_spec). Qed.

(* one election round with the random transfer (the case c02_round_weights excludes): after the
   draws [pre] of a possible tie-break the round consumes one sample per winner, each a legal
   sample of whole ballots from that winner's pile; the next profile carries on every continuing
   ranking r' one unit per sampled ranking that becomes r' once all winners are struck out, plus
   the untouched weight of the ballots not led by a winner *)
Theorem c02_round_weights_random : forall cfg t (p0 p : profile) prev n (s s' : mstate) np st,
  step_ctx p0 p prev ->
  stv_step cfg t p0 n p prev s = inl ((np, st), s') ->
  s_transfer cfg = TRandom -> script_ok s -> is_integral t = true ->
  (exists c, reaches t p c) ->
  exists (pre : list (draw cand)) (ls : list (list ranking)),
    scr s = pre ++ map (fun l => DRanks l) ls ++ scr s' /\
    Forall2 (sample_of t (ballots p)) (flat (elected st)) ls /\
    forall r' : ranking, nonempty r' = true ->
      wtof_rk r' (ballots np) ==
      Qnat (samples_to (flat (elected st)) r' ls) +
      wt_where (fun b => negb (led_by (flat (elected st)) b) && maps_to (flat (elected st)) r' b)
               (ballots p).
Proof. exact (round_weights_random cand ceqb ceqb_spec). Qed.

(* ---------- 3. one-by-one mode: who wins a shared maximum ---------- *)

(* the [exists kind l, Permutation (w :: l) g] of elect_case made precise: the recorded order is
   the answer of the configured tiebreak run on the CURRENT profile p, and that answer is a
   [resolution]: for borda / first_place the tied candidates are ordered by that score of p and a
   random order is drawn only inside the groups still tied on it; for random one permutation *)
Theorem c02_single_elect_order : forall cfg t (p0 p : profile) prev n (s s' : mstate) np st,
  step_ctx p0 p prev -> (s_transfer cfg = TRandom -> script_ok s) ->
  stv_step cfg t p0 n p prev s = inl ((np, st), s') ->
  (exists c, reaches t p c) -> s_simul cfg = false ->
  exists w g, elected st = [[w]] /\ max_tally p w /\ tied_with p w g /\
    ((g = [w] /\ tiebreaks st = []) \/
     ((2 <= length g)%nat /\ exists kind l s1,
        s_tiebreak cfg = Some kind /\ tiebreaks st = [(g, singletons (w :: l))] /\
        Permutation (w :: l) g /\
        tiebreak_set g (Some p) kind s = inl (singletons (w :: l), s1) /\
        resolution kind p g (singletons (w :: l)) s s1)).
Proof. exact (single_elect_order cand ceqb ceqb_spec). Qed.

(* ---------- 4. exactly when a round fails (converse of c02_single_tie_raises) ---------- *)

(* Fractional transfer, positive threshold (a Droop quota is >= 1, c02_threshold), the loop
   invariant, at most m elected so far (c01_stv_no_overelection_droop): a round raises e IF AND
   ONLY IF
   - one-by-one mode, somebody reaches the threshold, two or more candidates share the top tally,
     and no tiebreak is configured (e = ValueError) or the configured tiebreak itself fails with e
     (script exhausted / wrong kind of draw: EScript; an unknown tiebreak name: ValueError); or
   - nobody reaches the threshold, the candidates are not exactly the open seats, two or more
     share the lowest tally and the first_place tiebreak on the initial profile fails with e.
   Nothing else (no transfer, no profile construction, no index) can fail. *)
Theorem c02_step_error_iff : forall cfg t N (p0 p : profile) prev older (s : mstate) e,
  stv_inv cfg t N p0 p (prev :: older) -> s_transfer cfg = TFractional -> 0 < t ->
  (count_elected (prev :: older) <= s_m cfg)%Z ->
  (stv_step cfg t p0 (count_elected (prev :: older)) p prev s = inr e <->
   ((exists c, reaches t p c) /\ s_simul cfg = false /\
    exists g rest, remaining prev = g :: rest /\ (2 <= length g)%nat /\
      ((s_tiebreak cfg = None /\ e = EValue) \/
       (exists kind, s_tiebreak cfg = Some kind /\ tiebreak_set g (Some p) kind s = inr e)))
   \/
   ((forall c, In c (cands p) -> tally c (ballots p) < t) /\
    Z.of_nat (length (cands p)) <> (s_m cfg - count_elected (prev :: older))%Z /\
    exists pre low, remaining prev = pre ++ [low] /\ (2 <= length low)%nat /\
      tiebreak_set low (Some p0) TBFirstPlace s = inr e)).
Proof. exact (step_error_iff cand ceqb ceqb_spec). Qed.

(* run level (uses the analysis behind c01_stv_droop_errors): with a Droop quota and the fractional
   transfer, a run on a valid-or-empty profile that raises e either was refused at construction
   (m out of range, ValueError) or reached — through legal rounds, the invariant holds there — a
   round that is an unbreakable tie in the exact sense of c02_step_error_iff *)
Theorem c02_droop_run_error_exact : forall cfg (p : profile) (s : mstate) e,
  wf_stv0 p -> s_quota cfg = QDroop -> s_transfer cfg = TFractional ->
  run_stv cfg p s = inr e ->
  (e = EValue /\ ~ (1 <= s_m cfg <= Z.of_nat (length (cands p)))%Z) \/
  exists t (pr : profile) prev older (s1 : mstate),
    stv_init cfg p = inl t /\ 1 <= t /\
    stv_inv cfg t (total_wt cand (ballots p)) p pr (prev :: older) /\
    (count_elected (prev :: older) <= s_m cfg)%Z /\
    (((exists c, reaches t pr c) /\ s_simul cfg = false /\
      exists g rest, remaining prev = g :: rest /\ (2 <= length g)%nat /\
        ((s_tiebreak cfg = None /\ e = EValue) \/
         (exists kind, s_tiebreak cfg = Some kind /\ tiebreak_set g (Some pr) kind s1 = inr e)))
     \/
     ((forall c, In c (cands pr) -> tally c (ballots pr) < t) /\
      Z.of_nat (length (cands pr)) <> (s_m cfg - count_elected (prev :: older))%Z /\
      exists pre low, remaining prev = pre ++ [low] /\ (2 <= length low)%nat /\
        tiebreak_set low (Some p) TBFirstPlace s1 = inr e)).
Proof. exact (droop_run_error_exact cand ceqb ceqb_spec). Qed.

End C02_run.

Print Assumptions c02_run_legal.
Print Assumptions c02_run_invariant.
Print Assumptions c02_run_weights.
Print Assumptions c02_round_weights_random.
Print Assumptions c02_single_elect_order.
Print Assumptions c02_step_error_iff.
Print Assumptions c02_droop_run_error_exact.

(* ---------- non-vacuity ---------- *)
Module C02RunExamples.
Open Scope positive_scope.

Definition bal (r : list positive) (w : Q) : ballot positive :=
  mkBallot (map (fun c => [c]) r) w [] None None.
Definition s0_of (p : profile positive) : estate positive :=
  match initial_state positive Pos.eqb p with inl s0 => s0 | inr _ => mkState 0%Z [] [] [] [] [] end.
Definition states_of (x : res (list (estate positive) * mstate positive)) : list (estate positive) :=
  match x with inl (sts, _) => sts | inr _ => [] end.
Ltac valid := apply (wf_stv_profile_b_ok positive Pos.eqb Pos.eqb_spec); vm_compute; reflexivity.

(* (a) a run with the RANDOM transfer.  A>B>C x4, A x2, B>C x3, C x2; two seats; Droop quota 4.
   Round 1 elects A (tally 6) and samples 2 of its transferable ballots (both B>C); round 2 elects
   B (tally 3 + 2) and samples 1 (C).  The hypotheses of c02_run_legal / c02_run_weights hold. *)
Definition exa_p : profile positive :=
  mkProfile [bal [1; 2; 3] 4; bal [1] 2; bal [2; 3] 3; bal [3] 2] [1; 2; 3].
Definition exa_cfg : stv_cfg := mkStv 2%Z QDroop true TRandom None.
Definition exa_s : mstate positive := mkM [DRanks [[[2]; [3]]; [[2]; [3]]]; DRanks [[[3]]]] [].
Definition exa_sts := Eval vm_compute in states_of (run_stv positive Pos.eqb exa_cfg exa_p exa_s).

Example exa_hyps :
  wf_stv0 positive exa_p /\ (s_transfer exa_cfg = TRandom -> script_ok positive exa_s) /\
  exists s', run_stv positive Pos.eqb exa_cfg exa_p exa_s = inl (exa_sts, s') /\ scr s' = [] /\
    map (fun st => (elected st, eliminated st)) exa_sts = [([[]], [[]]); ([[1]], [[]]); ([[2]], [[]])].
Proof.
  split; [assert (H : wf_stv_profile positive exa_p) by valid; apply H|].
  split; [intros _; repeat constructor|].
  eexists. split; [vm_compute; reflexivity|]. split; reflexivity.
Qed.

(* the conclusion of c02_round_weights_random on round 1, computed: the new profile carries
   B>C: 3 + 2 sampled units, C: 2 *)
Example exa_round1 :
  match stv_step positive Pos.eqb exa_cfg 4 exa_p 0%Z exa_p (s0_of exa_p) exa_s with
  | inl ((np, st), s') =>
      elected st = [[1]] /\ scr s' = [DRanks [[[3]]]] /\
      wtof_rk positive Pos.eqb [[2]; [3]] (ballots np) == 5 /\
      samples_to positive Pos.eqb [1] [[2]; [3]] [[[[2]; [3]]; [[2]; [3]]]] = 2%nat /\
      wt_where positive (fun b => negb (led_by positive Pos.eqb [1] b) &&
                                  maps_to positive Pos.eqb [1] [[2]; [3]] b) (ballots exa_p) == 3
  | inr _ => False
  end.
Proof. vm_compute. repeat split. Qed.

(* (b) one-by-one mode with a shared maximum broken by Borda.  A>C x3, B x3, C x1; two seats;
   Droop quota 3: A and B both have 3.  Borda scores of the profile: A 15, B 27/2, so A is
   elected first, without any draw; the tie-break is recorded as ({A,B}, A > B). *)
Definition exb_p : profile positive := mkProfile [bal [1; 3] 3; bal [2] 3; bal [3] 1] [1; 2; 3].
Definition exb_cfg : stv_cfg := mkStv 2%Z QDroop false TFractional (Some TBBorda).

Example exb_hyps :
  step_ctx positive Pos.eqb exb_p exb_p (s0_of exb_p) /\
  (exists c, reaches positive Pos.eqb 3 exb_p c) /\ s_simul exb_cfg = false /\
  stv_init positive exb_cfg exb_p = inl 3%Q.
Proof.
  assert (H : wf_stv_profile positive exb_p) by valid.
  split; [constructor; try apply H; [apply incl_refl|split; vm_compute; reflexivity]|].
  split; [exists 1; split; [left; reflexivity|vm_compute; discriminate]|].
  split; [reflexivity|vm_compute; reflexivity].
Qed.

Example exb_round1 :
  match stv_step positive Pos.eqb exb_cfg 3 exb_p 0%Z exb_p (s0_of exb_p) (mkM [] []) with
  | inl ((np, st), s') =>
      elected st = [[1]] /\ tiebreaks st = [([1; 2], [[1]; [2]])] /\ scr s' = [] /\
      match borda_scores positive Pos.eqb exb_p with
      | inl d => lookup0 positive Pos.eqb 1 d == 15 /\ lookup0 positive Pos.eqb 2 d == 27 # 2
      | inr _ => False
      end
  | inr _ => False
  end.
Proof. vm_compute. repeat split. Qed.

(* (c) the two ways a round can fail.  No tiebreak configured in one-by-one mode with the tie of
   (b): ValueError; a random tiebreak with an exhausted script: EScript.  Elimination tie (A x2,
   B x1, C x1, one seat, quota 3) with an exhausted script: EScript. *)
Definition exc_cfg (tb : option tb_kind) : stv_cfg := mkStv 2%Z QDroop false TFractional tb.

Example exc_hyps :
  stv_inv positive Pos.eqb (exc_cfg None) 3 (total_wt positive (ballots exb_p)) exb_p exb_p [s0_of exb_p] /\
  s_transfer (exc_cfg None) = TFractional /\ (0 < 3)%Q /\
  (count_elected positive [s0_of exb_p] <= s_m (exc_cfg None))%Z.
Proof.
  assert (H : wf_stv_profile positive exb_p) by valid.
  split; [|split; [reflexivity|split; [reflexivity|vm_compute; discriminate]]].
  apply (stv_inv_init positive Pos.eqb (exc_cfg None) exb_p 3 (s0_of exb_p)); [apply H| |];
    vm_compute; reflexivity.
Qed.

Definition exd_p : profile positive := mkProfile [bal [1] 2; bal [2] 1; bal [3] 1] [1; 2; 3].

Example exc_errors :
  stv_step positive Pos.eqb (exc_cfg None) 3 exb_p 0%Z exb_p (s0_of exb_p) (mkM [] []) = inr EValue /\
  stv_step positive Pos.eqb (exc_cfg (Some TBRandom)) 3 exb_p 0%Z exb_p (s0_of exb_p) (mkM [] [])
    = inr EScript /\
  tiebreak_set positive Pos.eqb [1; 2] (Some exb_p) TBRandom (mkM [] []) = inr EScript /\
  remaining (s0_of exb_p) = [[1; 2]; [3]] /\
  stv_step positive Pos.eqb (mkStv 1%Z QDroop true TFractional None) 3 exd_p 0%Z exd_p (s0_of exd_p)
           (mkM [] []) = inr EScript /\
  remaining (s0_of exd_p) = [[1]; [2; 3]] /\
  tiebreak_set positive Pos.eqb [2; 3] (Some exd_p) TBFirstPlace (mkM [] []) = inr EScript.
Proof. vm_compute. repeat split. Qed.

(* a whole run failing in its third round: A x4, B x2, C x2, D x1; two seats; Droop quota 4; A is
   elected, D is eliminated, then B and C tie for elimination on current and on initial
   first-place votes: with an empty script EScript; with one permutation the run completes *)
Definition exe_p : profile positive := mkProfile [bal [1] 4; bal [2] 2; bal [3] 2; bal [4] 1] [1; 2; 3; 4].
Example exe_run :
  wf_stv0 positive exe_p /\
  run_stv positive Pos.eqb (mkStv 2%Z QDroop true TFractional None) exe_p (mkM [] []) = inr EScript /\
  map (fun st => (elected st, eliminated st))
      (states_of (run_stv positive Pos.eqb (mkStv 2%Z QDroop true TFractional None) exe_p
                          (mkM [DPerm [2; 3]] [])))
    = [([[]], [[]]); ([[1]], [[]]); ([[]], [[4]]); ([[]], [[3]]); ([[2]], [[]])].
Proof.
  split; [assert (H : wf_stv_profile positive exe_p) by valid; apply H|].
  split; vm_compute; reflexivity.
Qed.

End C02RunExamples.
