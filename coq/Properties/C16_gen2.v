(* Properties/C16_gen2.v — property C16 (generated ballots follow the documented model
   distributions) for what the first round left open.  Statements only; proofs are in
   Proofs/C16_gen2_pl.v (Plackett-Luce: restriction, prefix, scaling; CambridgeSampler),
   Proofs/C16_gen2.v (tables over all complete rankings: Impartial Culture, BallotSimplex;
   CambridgeSampler ballots) and Proofs/C16_gen2_types.v (slate ballot types).

   PART 1 — Plackett-Luce and CambridgeSampler.  [cam_ballot] (ballot_generator.py:1370-1396) draws
   ONE Plackett-Luce order [d] of all supported candidates of the voter bloc's COMBINED interval
   ([CamPL (pi_int iv) (length (pi_int iv))], law [law_pl] of Spec/GenLaws.v =
   np.random.choice(p=, replace=False)), cuts it into [filter (fun c => pmem c slate_own) d] and
   [filter (fun c => pmem c slate_opp) d], and [cam_fill] consumes a PREFIX of each.  The theorems
   are the structural laws of successive sampling that turn this into the property's wording "the
   candidates of one slate appear on a ballot in an order drawn by Plackett-Luce from the voter
   bloc's interval for that slate":
     - weights matter only up to == and up to a common non-zero factor (T1, T2, T5);
     - the first k entries of an n-draw are a k-draw: short Plackett-Luce (T3);
     - a complete draw filtered by a set of candidates is a complete draw from the
       sub-population (T4);
     - hence the filtered order (and every prefix of it) of the combined draw is distributed as a
       Plackett-Luce order (resp. a short one) from the voter bloc's interval for that slate (T6),
       and so are the own-slate / opposing-slate candidates of the ballot [cam_fill] builds (T7).
   PART 2 — tables over all complete rankings: the uniform law (Impartial Culture), the law of a
   full table (BallotSimplex(alpha) given its Dirichlet draw), equal entries, from_point.
   PART 3 — slate ballot types: slate-BT MCMC stationarity for cohesion >= 1/2, the
   slate-Plackett-Luce type law is a probability law with a closed form.

   The laws of the primitives (np.random.choice with p / without replacement / over a table,
   np.random.uniform, random.shuffle, random.random) and of the Dirichlet draw are the trusted
   assumptions, as in Properties/C16.v.
   Spec vocabulary: law_pl, remove_key, law_types, slate_stat, swap_kernel (Spec/GenLaws.v);
   wf_interval (Spec/BTSpec.v); avail, types_closed (Spec/TypesLawSpec.v); count_other
   (Spec/Gen2Spec.v); dist, prob, mass, categorical, uniform_of (Model/Laws.v); lookupP,
   combine_intervals (Model/PrefInterval.v); full_table, cam_fill (Model/Generators2.v). *)
From VK Require Import Base Core GenValidation PrefInterval Generators Generators2 Laws.
From VK.Spec Require Import BTSpec GenSpec Gen2Spec GenLaws TypesLawSpec.
From VK.Proofs Require Import C14_wf C16_laws C16_gen2_pl C16_gen2 C16_gen2_types.
From Coq Require Import Permutation.

(* ################################################################## *)
(* PART 1 — Plackett-Luce; CambridgeSampler                            *)
(* ################################################################## *)

(* ====================== T1. weights up to == ====================== *)

(* populations with the same candidates in the same order and ==-equal weights have the same law *)
Theorem c16_pl_weights_ext : forall pop pop',
  Forall2 (fun p q : pcand * Q => fst p = fst q /\ snd p == snd q) pop pop' ->
  forall (ev : list pcand -> bool) k, prob ev (law_pl pop k) == prob ev (law_pl pop' k).
Proof. exact law_pl_weights_ext. Qed.
Print Assumptions c16_pl_weights_ext.

(* ====================== T2. scale invariance ====================== *)

(* multiplying every weight by the same non-zero number does not change the law (any event, any k) *)
Theorem c16_pl_scale_invariant : forall a pop k (ev : list pcand -> bool), ~ a == 0 ->
  prob ev (law_pl (map (fun p : pcand * Q => (fst p, a * snd p)) pop) k) == prob ev (law_pl pop k).
Proof. exact law_pl_scale. Qed.
Print Assumptions c16_pl_scale_invariant.

(* ====================== T3. short Plackett-Luce = prefix ====================== *)

(* the first k entries of an n-draw are distributed as a k-draw *)
Theorem c16_pl_prefix : forall k n pop (ev : list pcand -> bool),
  (forall c w, In (c, w) pop -> 0 < w) -> (k <= n)%nat -> (n <= length pop)%nat ->
  prob (fun o => ev (firstn k o)) (law_pl pop n) == prob ev (law_pl pop k).
Proof. exact law_pl_prefix. Qed.
Print Assumptions c16_pl_prefix.

(* ====================== T4. restriction to a set of candidates ====================== *)

(* a complete draw filtered by [sel] is distributed as a complete draw from the sub-population *)
Theorem c16_pl_restriction : forall (sel : pcand -> bool) pop (ev : list pcand -> bool),
  NoDup (map fst pop) -> (forall c w, In (c, w) pop -> 0 < w) ->
  prob (fun o => ev (filter sel o)) (law_pl pop (length pop)) ==
  prob ev (law_pl (filter (fun p => sel (fst p)) pop) (length (filter (fun p => sel (fst p)) pop))).
Proof. exact law_pl_restrict. Qed.
Print Assumptions c16_pl_restriction.

(* ... even when a candidate has several entries ([remove_key] removes the first one) *)
Theorem c16_pl_restriction_dupkeys : forall (sel : pcand -> bool) pop (ev : list pcand -> bool),
  (forall c w, In (c, w) pop -> 0 < w) ->
  prob (fun o => ev (filter sel o)) (law_pl pop (length pop)) ==
  prob ev (law_pl (filter (fun p => sel (fst p)) pop) (length (filter (fun p => sel (fst p)) pop))).
Proof. exact law_pl_restrict_gen. Qed.
Print Assumptions c16_pl_restriction_dupkeys.

(* ====================== T5. proportional populations ====================== *)

(* two populations over the same candidates (in any order) whose weights differ by a common
   positive factor give every complete order the same probability *)
Theorem c16_pl_proportional : forall pop pop' a o,
  NoDup (map fst pop) -> NoDup (map fst pop') ->
  (forall c w, In (c, w) pop -> 0 < w) -> (forall c w, In (c, w) pop' -> 0 < w) ->
  (forall c, In c (map fst pop') <-> In c (map fst pop)) -> 0 < a ->
  (forall c, In c (map fst pop) -> lookupP pop' c == a * lookupP pop c) ->
  prob (list_peqb o) (law_pl pop' (length pop')) == prob (list_peqb o) (law_pl pop (length pop)).
Proof. exact law_pl_proportional. Qed.
Print Assumptions c16_pl_proportional.

(* ... for any number k of draws; distinct keys and a non-zero factor suffice *)
Theorem c16_pl_proportional_k : forall pop pop' a o k,
  NoDup (map fst pop) -> NoDup (map fst pop') ->
  (forall c, In c (map fst pop') <-> In c (map fst pop)) -> ~ a == 0 ->
  (forall c, In c (map fst pop) -> lookupP pop' c == a * lookupP pop c) ->
  prob (list_peqb o) (law_pl pop' k) == prob (list_peqb o) (law_pl pop k).
Proof. exact law_pl_proportional_k. Qed.
Print Assumptions c16_pl_proportional_k.

(* ... and for the first k entries of the complete draws *)
Theorem c16_pl_proportional_prefix : forall pop pop' a o k,
  NoDup (map fst pop) -> NoDup (map fst pop') ->
  (forall c w, In (c, w) pop -> 0 < w) -> (forall c w, In (c, w) pop' -> 0 < w) ->
  (forall c, In c (map fst pop') <-> In c (map fst pop)) -> 0 < a ->
  (forall c, In c (map fst pop) -> lookupP pop' c == a * lookupP pop c) ->
  (k <= length pop)%nat ->
  prob (fun l => list_peqb o (firstn k l)) (law_pl pop' (length pop')) ==
  prob (fun l => list_peqb o (firstn k l)) (law_pl pop (length pop)).
Proof. exact law_pl_proportional_prefix. Qed.
Print Assumptions c16_pl_proportional_prefix.

(* ====================== T6. CambridgeSampler ====================== *)

(* [is]/[props]: the voter bloc's intervals and the shares they are combined with (the hypotheses
   of c15_combine); [r] the combined interval; [i] one of the intervals, combined with a POSITIVE
   share [p]; [slate] a candidate list that, among the supported candidates of [r], selects exactly
   those of [i].  Then the Plackett-Luce order of the combined interval, filtered by the slate, is
   distributed as a Plackett-Luce order from [i] — whatever the positive share is.
   (ballot_generator.py:1330-1333 pairs the intervals in dictionary order with
   [cohesion, 1 - cohesion], so for the second bloc of the dictionary the OWN cohesion multiplies
   the OPPOSING slate's interval; by this theorem the within-slate law is unaffected as long as
   the share is positive.  A zero share puts the slate into pi_zero r (c15_combine): it is then
   not drawn at all.) *)
Theorem c16_cambridge_slate_order : forall (is : list pinterval) (props : list Q),
  Forall wf_interval is -> length is = length props -> Forall (fun p => 0 <= p) props ->
  NoDup (concat (map pi_cands is)) ->
  rounds_to_one (qsum props) = true ->
  forall r, combine_intervals is props = inl r ->
  forall i p, In (i, p) (combine is props) -> 0 < p ->
  NoDup (map fst (pi_int i)) ->
  forall slate : list pcand,
  (forall c, In c (map fst (pi_int r)) -> (pmem c slate = true <-> In c (map fst (pi_int i)))) ->
  forall o : list pcand,
  prob (fun d => list_peqb o (filter (fun c => pmem c slate) d))
       (law_pl (pi_int r) (length (pi_int r)))
  == prob (list_peqb o) (law_pl (pi_int i) (length (pi_int i))).
Proof. exact cambridge_slate_order_pl. Qed.
Print Assumptions c16_cambridge_slate_order.

(* what cam_fill actually places — the first k candidates of the filtered order, k = number of
   consumed slots of that slate — is a k-draw from the voter bloc's interval for the slate *)
Theorem c16_cambridge_slate_prefix : forall (is : list pinterval) (props : list Q),
  Forall wf_interval is -> length is = length props -> Forall (fun p => 0 <= p) props ->
  NoDup (concat (map pi_cands is)) ->
  rounds_to_one (qsum props) = true ->
  forall r, combine_intervals is props = inl r ->
  forall i p, In (i, p) (combine is props) -> 0 < p ->
  NoDup (map fst (pi_int i)) ->
  forall slate : list pcand,
  (forall c, In c (map fst (pi_int r)) -> (pmem c slate = true <-> In c (map fst (pi_int i)))) ->
  forall (o : list pcand) k, (k <= length (pi_int i))%nat ->
  prob (fun d => list_peqb o (firstn k (filter (fun c => pmem c slate) d)))
       (law_pl (pi_int r) (length (pi_int r)))
  == prob (list_peqb o) (law_pl (pi_int i) k).
Proof. exact cambridge_slate_prefix_pl. Qed.
Print Assumptions c16_cambridge_slate_prefix.


(* ====================== T7. the slate's candidates on a CambridgeSampler ballot ================ *)

(* T6 for any number k of consumed slots: the candidates placed are a min(k, |slate|)-draw *)
Theorem c16_cambridge_slate_prefix_min : forall (is : list pinterval) (props : list Q),
  Forall wf_interval is -> length is = length props -> Forall (fun p => 0 <= p) props ->
  NoDup (concat (map pi_cands is)) ->
  rounds_to_one (qsum props) = true ->
  forall r, combine_intervals is props = inl r ->
  forall i p, In (i, p) (combine is props) -> 0 < p ->
  NoDup (map fst (pi_int i)) ->
  forall slate : list pcand,
  (forall c, In c (map fst (pi_int r)) -> (pmem c slate = true <-> In c (map fst (pi_int i)))) ->
  forall (o : list pcand) k,
  prob (fun d => list_peqb o (firstn k (filter (fun c => pmem c slate) d)))
       (law_pl (pi_int r) (length (pi_int r)))
  == prob (list_peqb o) (law_pl (pi_int i) (Nat.min k (length (pi_int i)))).
Proof. exact cambridge_slate_prefix_min. Qed.
Print Assumptions c16_cambridge_slate_prefix_min.

(* the OWN-slate candidates of the ballot built from historical type [t] ([own] = the voter's
   historical label, [slate] = the voter's own slate, [sp] = any disjoint opposing slate), read off
   the ballot in ballot order, are distributed as a Plackett-Luce draw of
   min(number of own-label slots of t, number of supported own-slate candidates) candidates from
   the voter bloc's interval [i] for its own slate *)
Theorem c16_cambridge_ballot_own : forall (is : list pinterval) (props : list Q),
  Forall wf_interval is -> length is = length props -> Forall (fun p => 0 <= p) props ->
  NoDup (concat (map pi_cands is)) ->
  rounds_to_one (qsum props) = true ->
  forall r, combine_intervals is props = inl r ->
  forall i p, In (i, p) (combine is props) -> 0 < p ->
  NoDup (map fst (pi_int i)) ->
  forall slate : list pcand,
  (forall c, In c (map fst (pi_int r)) -> (pmem c slate = true <-> In c (map fst (pi_int i)))) ->
  forall (sp : list pcand) (own : bloc) (t : btype) (o : list pcand),
  (forall c, pmem c slate = true -> pmem c sp = true -> False) ->
  prob (fun d => list_peqb o (filter (fun c => pmem c slate)
                  (cam_fill own t (filter (fun c => pmem c slate) d) (filter (fun c => pmem c sp) d))))
       (law_pl (pi_int r) (length (pi_int r)))
  == prob (list_peqb o) (law_pl (pi_int i) (Nat.min (count_bloc own t) (length (pi_int i)))).
Proof. exact cambridge_ballot_own_law. Qed.
Print Assumptions c16_cambridge_ballot_own.

(* ... and the OPPOSING-slate candidates ([slate] = the opposing slate, [i] the voter bloc's
   interval for it, [so] any disjoint own slate; every label other than [own] is an opposing slot) *)
Theorem c16_cambridge_ballot_opp : forall (is : list pinterval) (props : list Q),
  Forall wf_interval is -> length is = length props -> Forall (fun p => 0 <= p) props ->
  NoDup (concat (map pi_cands is)) ->
  rounds_to_one (qsum props) = true ->
  forall r, combine_intervals is props = inl r ->
  forall i p, In (i, p) (combine is props) -> 0 < p ->
  NoDup (map fst (pi_int i)) ->
  forall slate : list pcand,
  (forall c, In c (map fst (pi_int r)) -> (pmem c slate = true <-> In c (map fst (pi_int i)))) ->
  forall (so : list pcand) (own : bloc) (t : btype) (o : list pcand),
  (forall c, pmem c so = true -> pmem c slate = true -> False) ->
  prob (fun d => list_peqb o (filter (fun c => pmem c slate)
                  (cam_fill own t (filter (fun c => pmem c so) d) (filter (fun c => pmem c slate) d))))
       (law_pl (pi_int r) (length (pi_int r)))
  == prob (list_peqb o) (law_pl (pi_int i) (Nat.min (count_other own t) (length (pi_int i)))).
Proof. exact cambridge_ballot_opp_law. Qed.
Print Assumptions c16_cambridge_ballot_opp.

(* ====================== non-vacuity: concrete instances ====================== *)

Definition ex_pop : list (pcand * Q) := [(1%positive, 1 # 2); (2%positive, 1 # 3); (3%positive, 1 # 6)].

(* T4: drop candidate 2; P(filtered order = [3;1]) = P([3;1]) in the two-candidate population = 1/4 *)
Example ex_restrict_lhs :
  prob (fun o => list_peqb [3; 1]%positive (filter (fun c => negb (Pos.eqb c 2)) o)) (law_pl ex_pop 3)
  == 1 # 4.
Proof. vm_compute. reflexivity. Qed.
Example ex_restrict_rhs :
  prob (list_peqb [3; 1]%positive)
       (law_pl (filter (fun p => negb (Pos.eqb (fst p) 2)) ex_pop)
               (length (filter (fun p => negb (Pos.eqb (fst p) 2)) ex_pop)))
  == 1 # 4.
Proof. vm_compute. reflexivity. Qed.
Example ex_restrict_sub :
  filter (fun p => negb (Pos.eqb (fst p) 2)) ex_pop = [(1%positive, 1 # 2); (3%positive, 1 # 6)].
Proof. reflexivity. Qed.
Example ex_restrict_premises :
  NoDup (map fst ex_pop) /\ (forall c w, In (c, w) ex_pop -> 0 < w).
Proof.
  split.
  - apply pnodup_NoDup. reflexivity.
  - intros c w H. cbn [ex_pop In] in H.
    destruct H as [E|[E|[E|[]]]]; injection E as <- <-; reflexivity.
Qed.

(* T3: the first two entries of a complete draw vs a 2-draw: P([2;1]) = 1/3 * (1/2)/(2/3) = 1/4 *)
Example ex_prefix_lhs :
  prob (fun o => list_peqb [2; 1]%positive (firstn 2 o)) (law_pl ex_pop 3) == 1 # 4.
Proof. vm_compute. reflexivity. Qed.
Example ex_prefix_rhs : prob (list_peqb [2; 1]%positive) (law_pl ex_pop 2) == 1 # 4.
Proof. vm_compute. reflexivity. Qed.

(* T2: scaling by 3/7 *)
Example ex_scale :
  prob (list_peqb [3; 1; 2]%positive)
       (law_pl (map (fun p : pcand * Q => (fst p, (3 # 7) * snd p)) ex_pop) 3)
  == prob (list_peqb [3; 1; 2]%positive) (law_pl ex_pop 3).
Proof. vm_compute. reflexivity. Qed.
Example ex_scale_value : prob (list_peqb [3; 1; 2]%positive) (law_pl ex_pop 3) == 1 # 10.
Proof. vm_compute. reflexivity. Qed.

(* T1: unreduced weights *)
Example ex_weights_ext_premise :
  Forall2 (fun p q : pcand * Q => fst p = fst q /\ snd p == snd q)
          [(1%positive, 2 # 4); (2%positive, 3 # 9); (3%positive, 5 # 30)] ex_pop.
Proof. repeat constructor. Qed.
Example ex_weights_ext :
  prob (list_peqb [3; 1]%positive) (law_pl [(1%positive, 2 # 4); (2%positive, 3 # 9); (3%positive, 5 # 30)] 2)
  == prob (list_peqb [3; 1]%positive) (law_pl ex_pop 2).
Proof. vm_compute. reflexivity. Qed.

(* T5: same candidates in another order, weights multiplied by 3/4 *)
Example ex_proportional :
  prob (list_peqb [2; 1]%positive) (law_pl [(2%positive, 1 # 4); (1%positive, 3 # 8)] 2)
  == prob (list_peqb [2; 1]%positive) (law_pl [(1%positive, 1 # 2); (2%positive, 1 # 3)] 2).
Proof. vm_compute. reflexivity. Qed.

(* T6: two slates {1,2} and {3,4}, own cohesion 3/4 *)
Definition ex_i1 : pinterval := mkPI [(1%positive, 1 # 2); (2%positive, 1 # 2)] [].
Definition ex_i2 : pinterval := mkPI [(3%positive, 1 # 3); (4%positive, 2 # 3)] [].
Definition ex_r : pinterval :=
  mkPI [(1%positive, 3 # 8); (2%positive, 3 # 8); (3%positive, 1 # 12); (4%positive, 1 # 6)] [].

Example ex_combine : combine_intervals [ex_i1; ex_i2] [3 # 4; 1 # 4] = inl ex_r.
Proof. vm_compute. reflexivity. Qed.

(* the opposing slate's order inside the combined draw: P([4;3]) = 2/3, as in ex_i2 alone *)
Example ex_cambridge_lhs :
  prob (fun d => list_peqb [4; 3]%positive (filter (fun c => pmem c [3; 4]%positive) d))
       (law_pl (pi_int ex_r) (length (pi_int ex_r))) == 2 # 3.
Proof. vm_compute. reflexivity. Qed.
Example ex_cambridge_rhs :
  prob (list_peqb [4; 3]%positive) (law_pl (pi_int ex_i2) (length (pi_int ex_i2))) == 2 # 3.
Proof. vm_compute. reflexivity. Qed.
(* the first own-slate candidate placed: P(first of the filtered order = 2) = 1/2 *)
Example ex_cambridge_prefix_lhs :
  prob (fun d => list_peqb [2]%positive (firstn 1 (filter (fun c => pmem c [1; 2]%positive) d)))
       (law_pl (pi_int ex_r) (length (pi_int ex_r))) == 1 # 2.
Proof. vm_compute. reflexivity. Qed.
Example ex_cambridge_prefix_rhs : prob (list_peqb [2]%positive) (law_pl (pi_int ex_i1) 1) == 1 # 2.
Proof. vm_compute. reflexivity. Qed.

(* all premises of T6 hold on this instance: the theorem applies to it, for every order *)
Example ex_cambridge_instance : forall (o : list pcand) k, (k <= 2)%nat ->
  prob (fun d => list_peqb o (filter (fun c => pmem c [3; 4]%positive) d))
       (law_pl (pi_int ex_r) (length (pi_int ex_r)))
  == prob (list_peqb o) (law_pl (pi_int ex_i2) (length (pi_int ex_i2))) /\
  prob (fun d => list_peqb o (firstn k (filter (fun c => pmem c [3; 4]%positive) d)))
       (law_pl (pi_int ex_r) (length (pi_int ex_r)))
  == prob (list_peqb o) (law_pl (pi_int ex_i2) k).
Proof.
  intros o k Hk.
  assert (Hwf : Forall wf_interval [ex_i1; ex_i2]).
  { repeat constructor.
    - intros c v H. cbn [ex_i1 pi_int In] in H.
      destruct H as [E|[E|[]]]; injection E as <- <-; reflexivity.
    - intros c v H. cbn [ex_i2 pi_int In] in H.
      destruct H as [E|[E|[]]]; injection E as <- <-; reflexivity. }
  assert (Hnn : Forall (fun p => 0 <= p) [3 # 4; 1 # 4]).
  { repeat constructor; apply Qle_bool_iff; reflexivity. }
  assert (Hnd : NoDup (concat (map pi_cands [ex_i1; ex_i2]))).
  { apply pnodup_NoDup. reflexivity. }
  assert (Hin : In (ex_i2, 1 # 4) (combine [ex_i1; ex_i2] [3 # 4; 1 # 4])).
  { right. left. reflexivity. }
  assert (HndI : NoDup (map fst (pi_int ex_i2))) by (apply pnodup_NoDup; reflexivity).
  assert (Hsl : forall c, In c (map fst (pi_int ex_r)) ->
                  (pmem c [3; 4]%positive = true <-> In c (map fst (pi_int ex_i2)))).
  { intros c _. apply pmem_In. }
  split.
  - exact (c16_cambridge_slate_order [ex_i1; ex_i2] [3 # 4; 1 # 4] Hwf eq_refl Hnn Hnd eq_refl
             ex_r ex_combine ex_i2 (1 # 4) Hin eq_refl HndI [3; 4]%positive Hsl o).
  - exact (c16_cambridge_slate_prefix [ex_i1; ex_i2] [3 # 4; 1 # 4] Hwf eq_refl Hnn Hnd eq_refl
             ex_r ex_combine ex_i2 (1 # 4) Hin eq_refl HndI [3; 4]%positive Hsl o k Hk).
Qed.

(* ################################################################## *)
(* PART 2 — tables over all complete rankings                          *)
(* ################################################################## *)

(* Impartial Culture as documented: the uniform law over the n! complete rankings has mass 1 and
   gives every complete ranking probability 1/n!, everything else probability 0 *)
Theorem c16_uniform_rankings : forall cands : list pcand, NoDup cands ->
  mass (uniform_of (perms pcand cands)) == 1 /\
  (length (perms pcand cands) = fact (length cands))%nat /\
  (forall r, Permutation r cands ->
     prob (list_peqb r) (uniform_of (perms pcand cands)) == 1 / Qnat (fact (length cands))) /\
  (forall r, ~ Permutation r cands -> prob (list_peqb r) (uniform_of (perms pcand cands)) == 0).
Proof. exact uniform_rankings_law. Qed.
Print Assumptions c16_uniform_rankings.

(* BallotSimplex(alpha), given the Dirichlet draw [tbl] that alpha_profile accepts: the ballot index
   is drawn from the categorical law of the table, which gives every complete ranking its entry
   (over the total, 1 for a Dirichlet draw) and nothing else any probability *)
Theorem c16_alpha_table_law : forall cands tbl,
  NoDup cands -> full_table cands tbl = true -> ~ qsum (map snd tbl) == 0 ->
  mass (categorical tbl) == 1 /\
  (forall r v, In (r, v) tbl -> prob (list_peqb r) (categorical tbl) == v / qsum (map snd tbl)) /\
  (forall r, ~ Permutation r cands -> prob (list_peqb r) (categorical tbl) == 0).
Proof. exact alpha_table_law. Qed.
Print Assumptions c16_alpha_table_law.

(* Impartial Culture as coded is BallotSimplex(alpha = 1e20): when all entries of the table are
   equal (the mean of the Dirichlet law, which the draw approaches as alpha grows) the law of a
   ballot is exactly the uniform one *)
Theorem c16_alpha_table_equal_uniform : forall cands tbl v,
  NoDup cands -> full_table cands tbl = true -> ~ v == 0 -> (forall r w, In (r, w) tbl -> w == v) ->
  mass (categorical tbl) == 1 /\
  (forall r, Permutation r cands ->
     prob (list_peqb r) (categorical tbl) == 1 / Qnat (fact (length cands))) /\
  (forall r, prob (list_peqb r) (categorical tbl) ==
             prob (list_peqb r) (uniform_of (perms pcand cands))).
Proof. exact alpha_table_equal_uniform. Qed.
Print Assumptions c16_alpha_table_equal_uniform.

(* BallotSimplex.from_point AS CODED: the probability of a ranking is proportional to the product
   of the point values of ALL its candidates, which is the same for every complete ranking; the
   law is the uniform one whatever the point (provided no declared candidate has point value 0) *)
Theorem c16_point_table_law : forall cands point,
  NoDup cands -> ~ fold_left (fun a c => a * lookupP point c) cands 1 == 0 ->
  mass (categorical (point_table cands point)) == 1 /\
  (forall r, Permutation r cands ->
     prob (list_peqb r) (categorical (point_table cands point)) == 1 / Qnat (fact (length cands))) /\
  (forall r, prob (list_peqb r) (categorical (point_table cands point)) ==
             prob (list_peqb r) (uniform_of (perms pcand cands))).
Proof. exact point_table_law. Qed.
Print Assumptions c16_point_table_law.

(* non-vacuity *)
Module C16Gen2TableExamples.
Local Open Scope positive_scope.

Definition ex_eq_tbl : list (list pcand * Q) :=
  [([1; 2; 3], 1#6); ([1; 3; 2], 1#6); ([2; 1; 3], 1#6); ([2; 3; 1], 1#6); ([3; 1; 2], 1#6); ([3; 2; 1], 1#6)].
Definition ex_dir_tbl : list (list pcand * Q) :=
  [([1; 2; 3], 1#4); ([1; 3; 2], 1#8); ([2; 1; 3], 1#8); ([2; 3; 1], 1#4); ([3; 1; 2], 1#8); ([3; 2; 1], 1#8)].

Example ex_uniform :
  prob (list_peqb [2; 3; 1]) (uniform_of (perms pcand [1; 2; 3])) == 1 # 6 /\
  prob (list_peqb [2; 3]) (uniform_of (perms pcand [1; 2; 3])) == 0 /\
  mass (uniform_of (perms pcand [1; 2; 3])) == 1.
Proof. repeat split; vm_compute; reflexivity. Qed.

Example ex_equal_table :
  full_table [1; 2; 3] ex_eq_tbl = true /\
  prob (list_peqb [2; 3; 1]) (categorical ex_eq_tbl) == 1 # 6.
Proof. split; vm_compute; reflexivity. Qed.

Example ex_dirichlet_table :
  full_table [1; 2; 3] ex_dir_tbl = true /\ qsum (map snd ex_dir_tbl) == 1 /\
  prob (list_peqb [2; 3; 1]) (categorical ex_dir_tbl) == 1 # 4 /\
  prob (list_peqb [3; 1; 2]) (categorical ex_dir_tbl) == 1 # 8.
Proof. repeat split; vm_compute; reflexivity. Qed.

(* from_point with point (1/2, 1/4, 1/4): still uniform *)
Example ex_point_uniform :
  prob (list_peqb [1; 2; 3]) (categorical (point_table [1; 2; 3] [(1, 1#2); (2, 1#4); (3, 1#4)])) == 1 # 6 /\
  prob (list_peqb [3; 2; 1]) (categorical (point_table [1; 2; 3] [(1, 1#2); (2, 1#4); (3, 1#4)])) == 1 # 6.
Proof. split; vm_compute; reflexivity. Qed.

(* CambridgeSampler ballot: own slate {1,2} (interval 1/2, 1/2), opposing {3,4} (1/3, 2/3), combined
   with shares 3/4, 1/4; historical type W C W (own label 1): the own-slate candidates on the
   ballot are [2;1] with probability 1/2, the single opposing candidate placed is 4 with
   probability 2/3 *)
Definition ex_ci1 : pinterval := mkPI [(1, 1 # 2); (2, 1 # 2)] [].
Definition ex_ci2 : pinterval := mkPI [(3, 1 # 3); (4, 2 # 3)] [].
Definition ex_cr : pinterval := mkPI [(1, 3 # 8); (2, 3 # 8); (3, 1 # 12); (4, 1 # 6)] [].

Example ex_cambridge_ballot :
  combine_intervals [ex_ci1; ex_ci2] [3 # 4; 1 # 4] = inl ex_cr /\
  prob (fun d => list_peqb [2; 1] (filter (fun c => pmem c [1; 2])
                  (cam_fill 1 [1; 2; 1] (filter (fun c => pmem c [1; 2]) d) (filter (fun c => pmem c [3; 4]) d))))
       (law_pl (pi_int ex_cr) (length (pi_int ex_cr))) == 1 # 2 /\
  prob (list_peqb [2; 1]) (law_pl (pi_int ex_ci1) (Nat.min (count_bloc 1 [1; 2; 1]) (length (pi_int ex_ci1)))) == 1 # 2 /\
  prob (fun d => list_peqb [4] (filter (fun c => pmem c [3; 4])
                  (cam_fill 1 [1; 2; 1] (filter (fun c => pmem c [1; 2]) d) (filter (fun c => pmem c [3; 4]) d))))
       (law_pl (pi_int ex_cr) (length (pi_int ex_cr))) == 2 # 3 /\
  prob (list_peqb [4]) (law_pl (pi_int ex_ci2) (Nat.min (count_other 1 [1; 2; 1]) (length (pi_int ex_ci2)))) == 2 # 3.
Proof. split; [vm_compute; reflexivity|]. repeat split; vm_compute; reflexivity. Qed.

End C16Gen2TableExamples.

(* ################################################################## *)
(* PART 3 — slate ballot types                                         *)
(* ################################################################## *)

(* ====================== (2d) slate-Bradley-Terry MCMC ====================== *)

(* pi K = pi on the state space "distinct arrangements of the seed type" (m = number of adjacent
   positions the proposal is drawn from) *)
Theorem c16_slate_bt_mcmc_stationary : forall (own : bloc) (c : Q) (seed : list bloc) (m : nat) (y : list bloc),
  1 # 2 <= c -> (0 < m)%nat -> Permutation y seed ->
  qsum (map (fun x => slate_stat own c x * swap_kernel list_peqb (slate_accept own c) m x y)
            (arrangements_ms seed))
  == slate_stat own c y.
Proof. exact slate_mcmc_stationary. Qed.
Print Assumptions c16_slate_bt_mcmc_stationary.

(* every row of the transition matrix sums to one (any cohesion) *)
Theorem c16_slate_bt_mcmc_kernel_stochastic : forall (own : bloc) (c : Q) (seed : list bloc) (m : nat) (x : list bloc),
  (0 < m)%nat -> Permutation x seed ->
  qsum (map (swap_kernel list_peqb (slate_accept own c) m x) (arrangements_ms seed)) == 1.
Proof. exact slate_mcmc_kernel_stochastic. Qed.
Print Assumptions c16_slate_bt_mcmc_kernel_stochastic.

(* ====================== (2c) slate-Plackett-Luce ballot types ====================== *)

(* the law of one ballot type has total mass one: from any reachable loop state (distinct slates,
   one non-negative value per slate with a positive sum, no slate used up yet, n = number of
   positions still to fill) *)
Theorem c16_slate_types_mass : forall (sizes : list (bloc * nat)) (n : nat) (blocs : list bloc)
    (values : list Q) (acc : list bloc),
  NoDup blocs -> length blocs = length values ->
  Forall (fun v => 0 <= v) values ->
  (blocs <> [] -> 0 < qsum values) ->
  (forall b, In b blocs -> (count_bloc b acc < size_of sizes b)%nat) ->
  n = list_sum (map (fun b => size_of sizes b - count_bloc b acc)%nat blocs) ->
  mass (law_types n blocs values sizes acc) == 1.
Proof. exact law_types_mass. Qed.
Print Assumptions c16_slate_types_mass.

(* closed form for positive cohesion values (then no shuffle can happen): the probability of the
   type t is the product over its positions of v(slate) / (sum of v over the slates not yet used
   up); [types_closed], [avail] are in Spec/TypesLawSpec.v *)
Theorem c16_slate_types_closed : forall (sizes : list (bloc * nat)) (v : bloc -> Q) (blocs t : list bloc),
  NoDup blocs ->
  (forall b, In b blocs -> 0 < v b /\ (1 <= size_of sizes b)%nat) ->
  length t = list_sum (map (size_of sizes) blocs) ->
  prob (list_peqb t) (law_types (length t) blocs (map v blocs) sizes [])
  == types_closed v sizes blocs [] t.
Proof. exact law_types_closed_pos. Qed.
Print Assumptions c16_slate_types_closed.

(* ====================== non-vacuity ====================== *)
Local Open Scope positive_scope.

Definition ex_sizes : list (bloc * nat) := [(1, 2%nat); (2, 1%nat)].
Definition ex_v (b : bloc) : Q := if Pos.eqb b 1 then (3 # 4)%Q else (1 # 4)%Q.

(* the hypotheses of the mass and closed-form theorems on two slates of sizes 2 and 1 *)
Example ex_types_hyps :
  NoDup [1; 2] /\
  (forall b, In b [1; 2] -> (0 < ex_v b)%Q /\ (1 <= size_of ex_sizes b)%nat) /\
  length [1; 2; 1] = list_sum (map (size_of ex_sizes) [1; 2]) /\
  map ex_v [1; 2] = [(3 # 4)%Q; (1 # 4)%Q].
Proof.
  split; [repeat constructor; cbn; intuition discriminate|].
  split; [|split; reflexivity].
  intros b [<-|[<-|[]]]; split; vm_compute; try reflexivity; repeat constructor.
Qed.

Example ex_types_mass :
  mass (law_types 3 [1; 2] [(3 # 4)%Q; (1 # 4)%Q] ex_sizes []) == 1%Q.
Proof. vm_compute. reflexivity. Qed.

(* P([1;2;1]) = 3/4 * 1/4 * 1, P([1;1;2]) = 3/4 * 3/4 * 1, P([2;1;1]) = 1/4 * 1 * 1: both sides *)
Example ex_types_closed :
  types_closed ex_v ex_sizes [1; 2] [] [1; 2; 1] == (3 # 16)%Q /\
  types_closed ex_v ex_sizes [1; 2] [] [1; 1; 2] == (9 # 16)%Q /\
  types_closed ex_v ex_sizes [1; 2] [] [2; 1; 1] == (1 # 4)%Q /\
  prob (list_peqb [1; 2; 1]) (law_types 3 [1; 2] (map ex_v [1; 2]) ex_sizes []) == (3 # 16)%Q /\
  prob (list_peqb [1; 1; 2]) (law_types 3 [1; 2] (map ex_v [1; 2]) ex_sizes []) == (9 # 16)%Q /\
  prob (list_peqb [2; 1; 1]) (law_types 3 [1; 2] (map ex_v [1; 2]) ex_sizes []) == (1 # 4)%Q.
Proof. repeat split; vm_compute; reflexivity. Qed.

(* a type that is not an arrangement of the slates (slate 2 twice) has closed form 0 *)
Example ex_types_closed_zero :
  types_closed ex_v ex_sizes [1; 2] [] [2; 2; 1] == 0%Q /\
  prob (list_peqb [2; 2; 1]) (law_types 3 [1; 2] (map ex_v [1; 2]) ex_sizes []) == 0%Q.
Proof. split; vm_compute; reflexivity. Qed.

(* three slates with one candidate each, values 1/2, 1/4, 1/4:
   P([2;1;3]) = 1/4 * (1/2)/(3/4) * 1 = 1/6 *)
Example ex_types_three :
  let v := fun b : bloc => if Pos.eqb b 1 then (1 # 2)%Q else (1 # 4)%Q in
  let sizes := [(1, 1%nat); (2, 1%nat); (3, 1%nat)] in
  types_closed v sizes [1; 2; 3] [] [2; 1; 3] == (1 # 6)%Q /\
  prob (list_peqb [2; 1; 3]) (law_types 3 [1; 2; 3] (map v [1; 2; 3]) sizes []) == (1 # 6)%Q /\
  mass (law_types 3 [1; 2; 3] (map v [1; 2; 3]) sizes []) == 1%Q.
Proof. repeat split; vm_compute; reflexivity. Qed.

(* the mass theorem also covers zero values, where the type is completed by a shuffle:
   values 1, 0, 0 — slate 1 first, then the two arrangements of slates 2 and 3, 1/2 each *)
Example ex_types_mass_shuffle :
  let sizes := [(1, 1%nat); (2, 1%nat); (3, 1%nat)] in
  Forall (fun v => 0 <= v)%Q [1%Q; 0%Q; 0%Q] /\ (0 < qsum [1%Q; 0%Q; 0%Q])%Q /\
  mass (law_types 3 [1; 2; 3] [1%Q; 0%Q; 0%Q] sizes []) == 1%Q /\
  prob (list_peqb [1; 3; 2]) (law_types 3 [1; 2; 3] [1%Q; 0%Q; 0%Q] sizes []) == (1 # 2)%Q.
Proof.
  cbv zeta. split; [repeat constructor; discriminate|]. repeat split; vm_compute; reflexivity.
Qed.

(* stationarity at cohesion 3/4 on the seed [1;1;2] (three states, two proposal positions) *)
Example ex_slate_stationary :
  ((1 # 2) <= (3 # 4))%Q /\ Permutation [1; 2; 1] [1; 1; 2] /\
  arrangements_ms [1; 1; 2] = [[1; 1; 2]; [1; 2; 1]; [2; 1; 1]] /\
  slate_stat 1 (3 # 4) [1; 2; 1] == (3 # 16)%Q /\
  qsum (map (fun x => Qmult (slate_stat 1 (3 # 4) x) (swap_kernel list_peqb (slate_accept 1 (3 # 4)) 2 x [1; 2; 1]))
            (arrangements_ms [1; 1; 2])) == (3 # 16)%Q /\
  (* one row of the matrix: from [1;1;2] stay with 1/2 + 1/2 * 2/3, go to [1;2;1] with 1/2 * 1/3 *)
  swap_kernel list_peqb (slate_accept 1 (3 # 4)) 2 [1; 1; 2] [1; 1; 2] == (5 # 6)%Q /\
  swap_kernel list_peqb (slate_accept 1 (3 # 4)) 2 [1; 1; 2] [1; 2; 1] == (1 # 6)%Q /\
  swap_kernel list_peqb (slate_accept 1 (3 # 4)) 2 [1; 1; 2] [2; 1; 1] == 0%Q.
Proof.
  split; [discriminate|]. split; [apply perm_skip; apply perm_swap|].
  repeat split; vm_compute; reflexivity.
Qed.

(* three slates: the chain's weight counts pairs with EVERY other slate *)
Example ex_slate_stationary_three :
  qsum (map (fun x => Qmult (slate_stat 1 (2 # 3) x) (swap_kernel list_peqb (slate_accept 1 (2 # 3)) 2 x [2; 1; 3]))
            (arrangements_ms [1; 2; 3])) == slate_stat 1 (2 # 3) [2; 1; 3] /\
  slate_stat 1 (2 # 3) [2; 1; 3] == (2 # 9)%Q.
Proof. split; vm_compute; reflexivity. Qed.
