(* Properties/C01_hare.v — C01 ("... no other exception type escapes for valid input") for the STV
   family under EVERY quota and EVERY transfer rule, i.e. including what Properties/C01_stv.v left as
   bare refutations: the Hare quota and SequentialRCV's full-weight transfer.
     A  the exhaustive list of the exceptions of run_stv, each with a necessary condition
        (c01_stv_round_failure, c01_stv_errors_exact, c01_stv_error_list, c01_stv_error_kinds);
        every kind kept in the list is reached by a concrete run (section "reachability")
     B  when over-election (IndexError) and division by zero cannot happen: one-by-one mode; a
        threshold with N < (m+1) t — for Hare exactly floor(N/m) > N mod m on whole numbers of
        votes, and the bound is tight; a threshold above half of the votes
     C  Alaska with every quota / transfer rule
   Statements only; proofs are in Proofs/C01_hare_lib.v, C01_hare.v, C01_hare_alaska.v.
   Vocabulary (Spec/STVErrSpec.v, on top of Spec/STVSpec.v):
     round_failure cfg t p0 p prev older s e   the round from profile p / newest record prev fails
        with e in one of five ways: seat_tie_failure (T), zero_tally_failure (Z),
        random_transfer_failure (R), elim_tie_failure (X), overfilled_failure (I)
     overelecting_round cfg t N p0   a reachable round with open seats at which the candidates
        reaching the threshold outnumber the open seats
     good_outcome cfg p out   exactly m elected, all different, every recorded round partitions
        the candidates
     stv_error_kind e         e is EValue, EIndex, EZeroDiv, EType or EScript
     hare_quota N m = floor(N/m)   (Spec/STVSpec.v) *)
From VK Require Import Base Core STV Rules EditSpec.
From VK.Spec Require Import STVSpec TieSpec STVErrSpec.
From VK.Proofs Require Import STV_inv STV_final C01_hare_lib C01_hare C01_hare_alaska.
From Coq Require Import Permutation.

Section C01.
Variable cand : Type.
Variable ceqb : cand -> cand -> bool.
Hypothesis ceqb_spec : forall a b, reflect (a = b) (ceqb a b).

Notation profile := (profile cand).
Notation estate := (estate cand).
Notation mstate := (mstate cand).
Notation total_wt := (total_wt cand).
Notation wf_stv0 := (wf_stv0 cand).
Notation script_ok := (script_ok cand).
Notation stv_inv := (stv_inv cand ceqb).
Notation stv_init := (stv_init cand).
Notation stv_step := (stv_step cand ceqb).
Notation run_stv := (run_stv cand ceqb).
Notation count_elected := (count_elected cand).
Notation round_failure := (round_failure cand ceqb).
Notation overelecting_round := (overelecting_round cand ceqb).
Notation good_outcome := (good_outcome cand).
Notation no_tiebreak := (no_tiebreak cand).
Notation plurality_stage := (plurality_stage cand ceqb).
Notation run_alaska := (run_alaska cand ceqb).
Notation stv_replay := (stv_replay cand ceqb).

(* ---------- A: the errors, exhaustively ---------- *)

(* one round, any configuration: in a situation satisfying the loop invariant a failing round
   fails in one of the five described ways (T) (Z) (R) (X) (I) *)
Theorem c01_stv_round_failure : forall cfg t N (p0 p : profile) prev older (s : mstate) e,
  stv_inv cfg t N p0 p (prev :: older) ->
  (s_transfer cfg = TRandom -> script_ok s) ->
  stv_step cfg t p0 (count_elected (prev :: older)) p prev s = inr e ->
  round_failure cfg t p0 p prev older s e.
Proof. exact (step_failure cand ceqb ceqb_spec). Qed.

(* a whole count, any quota, any transfer, valid-or-empty profile: a failing run was refused at
   construction (ValueError: m out of range, unknown quota; or — since the random transfer checks
   the weights up front — TypeError: random transfer and a non-integral weight) or failed at a reachable round (the
   invariant holds there, the count was not complete) in one of the five ways.  Moreover
   - IndexError happens only in simultaneous mode and only after an over-electing round; with a
     quota-preserving transfer (fractional, random) only under the Hare quota and only if
     (m+1) t <= N;
   - ZeroDivisionError happens only with the fractional transfer under the Hare quota when the
     threshold is 0, i.e. the total weight is below m.
   EFuel (non-termination), KeyError and every other exception are excluded. *)
Theorem c01_stv_errors_exact : forall cfg (p : profile) (s : mstate) e,
  wf_stv0 p -> (s_transfer cfg = TRandom -> script_ok s) ->
  run_stv cfg p s = inr e ->
  let N := total_wt (ballots p) in
  (e = EValue /\ (~ (1 <= s_m cfg <= Z.of_nat (length (cands p)))%Z \/ s_quota cfg = QBad)) \/
  (e = EType /\ s_transfer cfg = TRandom /\ ~ integral_weights cand p) \/
  exists t, stv_init cfg p = inl t /\
    (exists (pr : profile) prev older (s1 : mstate),
       stv_inv cfg t N p pr (prev :: older) /\ count_elected (prev :: older) <> s_m cfg /\
       round_failure cfg t p pr prev older s1 e) /\
    (e = EIndex -> s_simul cfg = true /\ overelecting_round cfg t N p /\
       (s_transfer cfg <> TFullWeight -> s_quota cfg = QHare /\ inject_Z (s_m cfg + 1) * t <= N)) /\
    (e = EZeroDiv -> s_transfer cfg = TFractional /\ s_quota cfg = QHare /\ t == 0 /\
       N < inject_Z (s_m cfg)).
Proof. exact (run_errors_exact cand ceqb ceqb_spec). Qed.

(* the same as a flat list on the configuration and the input: every exception of an STV count
   with the configuration under which alone it can occur *)
Theorem c01_stv_error_list : forall cfg (p : profile) (s : mstate) e,
  wf_stv0 p -> (s_transfer cfg = TRandom -> script_ok s) ->
  run_stv cfg p s = inr e ->
  let N := total_wt (ballots p) in
  let m := s_m cfg in
  (e = EValue /\ (~ (1 <= m <= Z.of_nat (length (cands p)))%Z \/ s_quota cfg = QBad)) \/
  (e = EValue /\ s_simul cfg = false /\ (s_tiebreak cfg = None \/ s_tiebreak cfg = Some TBInvalid)) \/
  (e = EValue /\ s_transfer cfg = TRandom) \/
  (e = EType /\ s_transfer cfg = TRandom) \/
  (e = EZeroDiv /\ s_transfer cfg = TFractional /\ s_quota cfg = QHare /\ N < inject_Z m) \/
  (e = EIndex /\ s_simul cfg = true /\
     (s_transfer cfg = TFullWeight \/
      (s_quota cfg = QHare /\ inject_Z (m + 1) * inject_Z (hare_quota N m) <= N))) \/
  e = EScript.
Proof. exact (run_error_list cand ceqb ceqb_spec). Qed.

Theorem c01_stv_error_kinds : forall cfg (p : profile) (s : mstate) e,
  wf_stv0 p -> (s_transfer cfg = TRandom -> script_ok s) ->
  run_stv cfg p s = inr e -> stv_error_kind e.
Proof. exact (run_error_kinds cand ceqb ceqb_spec). Qed.

(* ---------- B: when nothing but the documented errors can happen ---------- *)

(* one-by-one mode elects one candidate per round: never an IndexError, whatever the quota and
   the transfer rule *)
Theorem c01_stv_one_by_one_no_overelection : forall cfg (p : profile) (s : mstate),
  wf_stv0 p -> (s_transfer cfg = TRandom -> script_ok s) -> s_simul cfg = false ->
  run_stv cfg p s <> inr EIndex.
Proof. exact (one_by_one_no_index cand ceqb ceqb_spec). Qed.

(* SequentialRCV (full-weight transfer) one by one, any known quota: the count returns a correct
   outcome, or raises the documented ValueError (m out of range; a tie for the seat with no usable
   tiebreak), or the replay script could not serve a random choice *)
Theorem c01_seqrcv_one_by_one : forall cfg (p : profile) (s : mstate),
  wf_stv0 p -> s_transfer cfg = TFullWeight -> s_simul cfg = false -> s_quota cfg <> QBad ->
  match run_stv cfg p s with
  | inl (out, _) => good_outcome cfg p out
  | inr e =>
      (e = EValue /\ ~ (1 <= s_m cfg <= Z.of_nat (length (cands p)))%Z) \/
      (e = EValue /\ (s_tiebreak cfg = None \/ s_tiebreak cfg = Some TBInvalid)) \/
      e = EScript
  end.
Proof. exact (seqrcv_one_by_one cand ceqb ceqb_spec). Qed.

(* any threshold t with 0 < t and N < (m+1) t, quota-preserving transfer: the error list of the
   Droop quota (c01_stv_droop_errors), in particular no IndexError and no ZeroDivisionError *)
Theorem c01_stv_safe_quota_errors : forall cfg (p : profile) (s : mstate) e t,
  wf_stv0 p -> s_transfer cfg <> TFullWeight -> (s_transfer cfg = TRandom -> script_ok s) ->
  stv_init cfg p = inl t -> 0 < t -> total_wt (ballots p) < inject_Z (s_m cfg + 1) * t ->
  run_stv cfg p s = inr e ->
  e = EScript \/
  (e = EValue /\ s_simul cfg = false /\ (s_tiebreak cfg = None \/ s_tiebreak cfg = Some TBInvalid)) \/
  (s_transfer cfg = TRandom /\ (e = EType \/ e = EValue)).
Proof. exact (safe_quota_errors cand ceqb ceqb_spec). Qed.

(* Hare quota q = floor(N/m) with 1 <= q and N < (m+1) q, quota-preserving transfer: a correct
   outcome or one of the documented errors *)
Theorem c01_hare_safe_outcome : forall cfg (p : profile) (s : mstate),
  wf_stv0 p -> s_quota cfg = QHare -> s_transfer cfg <> TFullWeight ->
  (s_transfer cfg = TRandom -> script_ok s) ->
  (1 <= s_m cfg <= Z.of_nat (length (cands p)))%Z ->
  let N := total_wt (ballots p) in
  let q := hare_quota N (s_m cfg) in
  (1 <= q)%Z -> N < inject_Z (s_m cfg + 1) * inject_Z q ->
  match run_stv cfg p s with
  | inl (out, _) => good_outcome cfg p out
  | inr e =>
      e = EScript \/
      (e = EValue /\ s_simul cfg = false /\ (s_tiebreak cfg = None \/ s_tiebreak cfg = Some TBInvalid)) \/
      (s_transfer cfg = TRandom /\ (e = EType \/ e = EValue))
  end.
Proof. exact (hare_safe_outcome cand ceqb ceqb_spec). Qed.

(* a threshold above half of the votes (every single-winner Droop count, SequentialRCV included):
   at most one candidate reaches it per round, never an IndexError, whatever the transfer rule *)
Theorem c01_stv_majority_threshold_no_overelection : forall cfg (p : profile) (s : mstate) t,
  wf_stv0 p -> (s_transfer cfg = TRandom -> script_ok s) ->
  stv_init cfg p = inl t -> total_wt (ballots p) < 2 * t ->
  run_stv cfg p s <> inr EIndex.
Proof. exact (majority_threshold_no_index cand ceqb ceqb_spec). Qed.

(* ---------- C: Alaska with every quota and every transfer rule ---------- *)

Theorem c01_alaska_errors_all : forall m1 m2 cfg (p : profile) s e,
  wf_stv0 p -> (s_transfer cfg = TRandom -> script_ok s) ->
  run_alaska m1 m2 cfg p s = inr e ->
  e = EValue \/ e = EScript \/ (s_transfer cfg = TRandom /\ e = EType) \/
  (exists s0 p1 s1 sa,
     plurality_stage m1 (s_tiebreak cfg) p s0 s = inl ((p1, s1), sa) /\
     run_stv (with_m cfg m2) p1 sa = inr e /\
     ((e = EZeroDiv /\ s_transfer cfg = TFractional /\ s_quota cfg = QHare /\
       total_wt (ballots p1) < inject_Z m2) \/
      (e = EIndex /\ s_simul cfg = true /\
       (s_transfer cfg = TFullWeight \/
        (s_quota cfg = QHare /\
         inject_Z (m2 + 1) * inject_Z (hare_quota (total_wt (ballots p1)) m2) <= total_wt (ballots p1)))))) \/
  (exists s0 p1 s1 sa ssts sb t,
     plurality_stage m1 (s_tiebreak cfg) p s0 s = inl ((p1, s1), sa) /\
     run_stv (with_m cfg m2) p1 sa = inl (ssts, sb) /\ stv_init (with_m cfg m2) p1 = inl t /\
     stv_replay (with_m cfg m2) t p1 [] p1 (removelast ssts) sb = inr e /\
     (s_transfer cfg = TRandom \/ ~ Forall no_tiebreak ssts)).
Proof. exact (alaska_errors_all cand ceqb ceqb_spec). Qed.

Theorem c01_alaska_terminates_all : forall m1 m2 cfg (p : profile) s,
  wf_stv0 p -> (s_transfer cfg = TRandom -> script_ok s) ->
  run_alaska m1 m2 cfg p s <> inr EFuel.
Proof. exact (alaska_no_fuel_all cand ceqb ceqb_spec). Qed.

End C01.

(* ---------- the Hare arithmetic ---------- *)

(* on a whole number n of votes the Hare quota is the integer quotient *)
Theorem c01_hare_quota_int : forall n m, (1 <= m)%Z -> hare_quota (inject_Z n) m = (n / m)%Z.
Proof. exact hare_quota_int. Qed.

(* the condition (m+1) q <= n under which m+1 candidates can hold a full Hare quota q = n / m
   each: exactly when the quotient does not exceed the remainder *)
Theorem c01_hare_overelection_arith : forall n m, (1 <= m)%Z ->
  ((m + 1) * (n / m) <= n <-> n / m <= n mod m)%Z.
Proof. exact hare_overelection_arith. Qed.

(* the Hare quota is 0 exactly when there are fewer votes than seats *)
Theorem c01_hare_quota_zero : forall N m, 0 <= N -> (1 <= m)%Z ->
  (hare_quota N m = 0%Z <-> N < inject_Z m).
Proof. exact hare_quota_zero. Qed.

Print Assumptions c01_stv_round_failure.
Print Assumptions c01_stv_errors_exact.
Print Assumptions c01_stv_error_list.
Print Assumptions c01_stv_error_kinds.
Print Assumptions c01_stv_one_by_one_no_overelection.
Print Assumptions c01_seqrcv_one_by_one.
Print Assumptions c01_stv_safe_quota_errors.
Print Assumptions c01_hare_safe_outcome.
Print Assumptions c01_stv_majority_threshold_no_overelection.
Print Assumptions c01_alaska_errors_all.
Print Assumptions c01_alaska_terminates_all.
Print Assumptions c01_hare_quota_int.
Print Assumptions c01_hare_overelection_arith.
Print Assumptions c01_hare_quota_zero.

(* ====================== concrete runs ====================== *)
Open Scope positive_scope.

Definition hbal (r : list positive) (w : Q) : ballot positive :=
  mkBallot (map (fun c => [c]) r) w [] None None.
Definition no_script : mstate positive := mkM [] [].
Definition hvalid (p : profile positive) : Prop := wf_stv_profile positive p.
Ltac hvalid := apply (wf_stv_profile_b_ok positive Pos.eqb Pos.eqb_spec); vm_compute; reflexivity.
Definition hrun := run_stv positive Pos.eqb.
Definition in_range (cfg : stv_cfg) (p : profile positive) : Prop :=
  (1 <= s_m cfg <= Z.of_nat (length (cands p)))%Z.

(* ---------- reachability: every kind of the list occurs under the Hare quota or the full-weight
   transfer, on a valid profile with m in range ---------- *)

(* IndexError, Hare: A, B, C one vote each, 2 seats, q = 1: all three elected at once.  The bound of
   c01_stv_safe_quota_errors / c01_hare_safe_outcome is tight: here N = (m+1) q exactly *)
Definition oe_cfg : stv_cfg := mkStv 2%Z QHare true TFractional None.
Definition oe_p : profile positive := mkProfile [hbal [1] 1%Q; hbal [2] 1%Q; hbal [3] 1%Q] [1; 2; 3].
Theorem c01_hare_bound_tight_refuted :
  hvalid oe_p /\ in_range oe_cfg oe_p /\
  (1 <= hare_quota (total_wt positive (ballots oe_p)) 2)%Z /\
  (total_wt positive (ballots oe_p) ==
    inject_Z (2 + 1) * inject_Z (hare_quota (total_wt positive (ballots oe_p)) 2))%Q /\
  hrun oe_cfg oe_p no_script = inr EIndex.
Proof.
  split; [hvalid|]. split; [vm_compute; split; discriminate|].
  split; [vm_compute; discriminate|]. split; vm_compute; reflexivity.
Qed.

(* the same with 3 seats: four candidates with 2 votes each, N = 8, q = 2 <= 8 mod 3 = 2 *)
Definition oe3_cfg : stv_cfg := mkStv 3%Z QHare true TFractional None.
Definition oe3_p : profile positive :=
  mkProfile [hbal [1] 2%Q; hbal [2] 2%Q; hbal [3] 2%Q; hbal [4] 2%Q] [1; 2; 3; 4].
Example hare_overelection_3 :
  hvalid oe3_p /\ in_range oe3_cfg oe3_p /\ (8 / 3 <= 8 mod 3)%Z /\
  hrun oe3_cfg oe3_p no_script = inr EIndex.
Proof.
  split; [hvalid|]. split; [vm_compute; split; discriminate|].
  split; [vm_compute; discriminate|vm_compute; reflexivity].
Qed.

(* IndexError, full-weight transfer (Droop quota 4): A>B x5, A>C x4, 2 seats; simultaneous mode
   over-elects (A, then B and C together), one-by-one mode succeeds: c01_seqrcv_one_by_one is not
   vacuous and its hypothesis s_simul = false cannot be dropped *)
Definition seq_p : profile positive := mkProfile [hbal [1; 2] 5%Q; hbal [1; 3] 4%Q] [1; 2; 3].
Theorem c01_seqrcv_simultaneous_refuted :
  hvalid seq_p /\ in_range (mkStv 2%Z QDroop true TFullWeight None) seq_p /\
  hrun (mkStv 2%Z QDroop true TFullWeight None) seq_p no_script = inr EIndex.
Proof. split; [hvalid|]. split; [vm_compute; split; discriminate|vm_compute; reflexivity]. Qed.

Example seqrcv_one_by_one_run :
  match hrun (mkStv 2%Z QDroop false TFullWeight None) seq_p no_script with
  | inl (sts, _) =>
      map (fun st => (elected st, eliminated st)) sts = [([[]], [[]]); ([[1]], [[]]); ([[2]], [[]])] /\
      count_elected positive sts = 2%Z
  | inr _ => False
  end.
Proof. vm_compute. split; reflexivity. Qed.

(* ZeroDivisionError, Hare, fractional: one vote, three candidates, 2 seats: q = 0 *)
Example hare_zero_div :
  let p := mkProfile [hbal [1] 1%Q] [1; 2; 3] in
  let cfg := mkStv 2%Z QHare true TFractional None in
  hvalid p /\ in_range cfg p /\ (total_wt positive (ballots p) < inject_Z (s_m cfg))%Q /\
  hrun cfg p no_script = inr EZeroDiv.
Proof.
  cbv zeta. split; [hvalid|]. split; [vm_compute; split; discriminate|].
  split; vm_compute; reflexivity.
Qed.

(* a Hare quota of 0 is not always fatal: two candidates with a quarter of a vote each, 2 seats:
   both "reach" 0 and are elected; the zero-tally candidate of case (Z) is necessary *)
Example hare_zero_quota_success :
  let p := mkProfile [hbal [1] (1 # 4)%Q; hbal [2] (1 # 4)%Q] [1; 2] in
  let cfg := mkStv 2%Z QHare true TFractional None in
  hvalid p /\ stv_init positive cfg p = inl 0%Q /\
  match hrun cfg p no_script with
  | inl (sts, _) => count_elected positive sts = 2%Z
  | inr _ => False
  end.
Proof. cbv zeta. split; [hvalid|]. split; vm_compute; reflexivity. Qed.

(* with the full-weight transfer a Hare quota of 0 over-elects instead of dividing by zero *)
Example hare_zero_quota_full_weight :
  let p := mkProfile [hbal [1] 1%Q] [1; 2; 3] in
  let cfg := mkStv 2%Z QHare true TFullWeight None in
  hvalid p /\ in_range cfg p /\ hrun cfg p no_script = inr EIndex.
Proof. cbv zeta. split; [hvalid|]. split; [vm_compute; split; discriminate|vm_compute; reflexivity]. Qed.

(* ValueError, Hare, one by one, no tiebreak: A x2, B x2 (and C), 2 seats, q = 2: A and B tie for
   the seat of the first round *)
Example hare_seat_tie :
  let p := mkProfile [hbal [1] 2%Q; hbal [2] 2%Q] [1; 2; 3] in
  let cfg := mkStv 2%Z QHare false TFractional None in
  hvalid p /\ in_range cfg p /\ hrun cfg p no_script = inr EValue.
Proof. cbv zeta. split; [hvalid|]. split; [vm_compute; split; discriminate|vm_compute; reflexivity]. Qed.

(* ValueError, Hare, random transfer: A x6 (bullet votes), B, C one each, 2 seats, q = 4: a surplus
   of 2 and no transferable ballot *)
Example hare_random_shortage :
  let p := mkProfile [hbal [1] 6%Q; hbal [2] 1%Q; hbal [3] 1%Q] [1; 2; 3] in
  let cfg := mkStv 2%Z QHare true TRandom None in
  hvalid p /\ integral_weights positive p /\ in_range cfg p /\ hrun cfg p no_script = inr EValue.
Proof.
  cbv zeta. split; [hvalid|]. split; [repeat constructor|].
  split; [vm_compute; split; discriminate|vm_compute; reflexivity].
Qed.

(* TypeError, Hare, random transfer: a fractional weight (refused at construction since the
   up-front check; before it, when the winner's pile was transferred) *)
Example hare_random_fractional_weight :
  let p := mkProfile [hbal [1] (5 # 2)%Q; hbal [2] (1 # 2)%Q] [1; 2] in
  let cfg := mkStv 2%Z QHare true TRandom None in
  hvalid p /\ in_range cfg p /\ hrun cfg p no_script = inr EType.
Proof. cbv zeta. split; [hvalid|]. split; [vm_compute; split; discriminate|vm_compute; reflexivity]. Qed.

(* EScript, Hare: A x3, B, C one each, 1 seat, q = 5: nobody reaches it, B and C tie for
   elimination, also in the initial profile, and the (empty) script has no permutation to offer *)
Example hare_elimination_tie_unserved :
  let p := mkProfile [hbal [1] 3%Q; hbal [2] 1%Q; hbal [3] 1%Q] [1; 2; 3] in
  let cfg := mkStv 1%Z QHare true TFractional None in
  hvalid p /\ in_range cfg p /\ hrun cfg p no_script = inr EScript.
Proof. cbv zeta. split; [hvalid|]. split; [vm_compute; split; discriminate|vm_compute; reflexivity]. Qed.

(* ValueError at construction: more seats than candidates *)
Example hare_m_out_of_range :
  let p := mkProfile [hbal [1] 3%Q; hbal [2] 1%Q] [1; 2] in
  let cfg := mkStv 3%Z QHare true TFractional None in
  hvalid p /\ ~ in_range cfg p /\ hrun cfg p no_script = inr EValue.
Proof.
  cbv zeta. split; [hvalid|]. split; [|vm_compute; reflexivity].
  unfold in_range. cbn. intros [_ H]. apply H. reflexivity.
Qed.

(* ---------- non-vacuity of c01_hare_safe_outcome ---------- *)

(* A>B x4, B x3, C x2, D x1, 2 seats: N = 10, q = 5 >= 1, 10 < 3 * 5; two eliminations and a
   default election of A and B *)
Definition safe_p : profile positive :=
  mkProfile [hbal [1; 2] 4%Q; hbal [2] 3%Q; hbal [3] 2%Q; hbal [4] 1%Q] [1; 2; 3; 4].
Definition safe_cfg : stv_cfg := mkStv 2%Z QHare true TFractional None.

Example hare_safe_hypotheses :
  hvalid safe_p /\ in_range safe_cfg safe_p /\
  (1 <= hare_quota (total_wt positive (ballots safe_p)) (s_m safe_cfg))%Z /\
  (total_wt positive (ballots safe_p) <
    inject_Z (s_m safe_cfg + 1) * inject_Z (hare_quota (total_wt positive (ballots safe_p)) (s_m safe_cfg)))%Q.
Proof.
  split; [hvalid|]. split; [vm_compute; split; discriminate|].
  split; [vm_compute; discriminate|vm_compute; reflexivity].
Qed.

Example hare_safe_run :
  match hrun safe_cfg safe_p no_script with
  | inl (sts, _) =>
      map (fun st => (elected st, eliminated st)) sts =
      [([[]], [[]]); ([[]], [[4]]); ([[]], [[3]]); ([[1]; [2]], [[]])] /\
      count_elected positive sts = 2%Z
  | inr _ => False
  end.
Proof. vm_compute. split; reflexivity. Qed.

Example hare_safe_outcome_instance :
  match hrun safe_cfg safe_p no_script with
  | inl (out, _) => good_outcome positive safe_cfg safe_p out
  | inr _ => False
  end.
Proof.
  destruct hare_safe_hypotheses as ([Hwf _] & Hm & Hq & HN).
  pose proof (c01_hare_safe_outcome positive Pos.eqb Pos.eqb_spec safe_cfg safe_p no_script Hwf
                eq_refl ltac:(discriminate) ltac:(discriminate) Hm Hq HN) as H.
  unfold hrun. destruct (run_stv positive Pos.eqb safe_cfg safe_p no_script) as [[out s']|e] eqn:E.
  - exact H.
  - vm_compute in E. discriminate.
Qed.

Print Assumptions c01_hare_bound_tight_refuted.
Print Assumptions c01_seqrcv_simultaneous_refuted.
