(* Properties/C06_condo.v — C06, theorems missing from Properties/C06.v and C06_converse.v:

   A. ranked ballots WITH tied positions and ballots of weight ZERO mixed with positive ones: what
      ballot_fill / head2head_count do with a tied position, and the dictionary / tiers /
      DominatingSets / CondoBorda theorems of Properties/C06.v on that larger domain;
   B. the forward direction for CondoBorda: when does a run SUCCEED, for every draw script, and what
      does it elect (Properties/C06.v only describes runs that are known to have succeeded);
   C. weight-zero ballots change nothing.

   Statements only; proofs are in Proofs/C06_tied.v and Proofs/C06_condo.v.

   Vocabulary (Spec/PairwiseTiedSpec.v):
     [above a b r]       a is STRICTLY above b in the ranking r (a listed candidate is above an unlisted
                         one; two candidates sharing a position are not above one another);
     [together a b r]    a and b share a position of r;
     [spref_weight bs a b]  weight of the ballots ranking a strictly above b, plus half the weight of
                         those listing neither;      [tie_weight bs a b]  weight of those tying a, b;
     [smargin], [sbeats] the margin / strict victory defined from spref_weight;
     [tied_profile p]    the input domain: duplicate-free candidates; every ballot a ScoreSpec.wf_ranking
                         (>= 1 position, no empty position, nobody listed twice, known candidates;
                         tied positions and short ballots allowed) with known score keys and weight
                         >= 0; at least one ballot of positive weight;
     [positive_ballots bs]  the ballots of positive weight;
     [score_gt d c c']   the score recorded for c in d is strictly larger than the one of c'.
   [score_free bs] (Spec/EditSpec.v): no ballot carries a score map (needed for CondoBorda to succeed:
   it re-scores the reduced profile with Borda, which rejects a ballot left with scores only).

   What the Python code does with a tied position (read from pairwise_comparison_graph.py and
   mirrored by Model/Pairwise.v): nothing is raised.  ballot_fill appends every candidate whose
   SINGLETON is not a position (so also the members of tied positions, which then occur twice — the
   first occurrence decides); head2head_count(a, b) tests "a in s" before "b in s", so a ballot that
   ties a and b is counted for a over b AND for b over a.  The two cancel in the margin
   (c06_tied_pair_counts_for_both, c06_tied_margin), so the dictionary, the tiers and both rules
   behave as for untied ballots with "above" read strictly. *)
From VK Require Import Base Core STV Pairwise Rules.
From VK.Spec Require Import PairwiseSpec ScoreSpec EditSpec Anon AnonRules PairwiseTiedSpec.
From VK.Proofs Require Import C06_tied C06_condo.
From Coq Require Import Permutation.

Section C06_condo.
Variable cand : Type.
Variable ceqb : cand -> cand -> bool.
Hypothesis ceqb_spec : forall a b, reflect (a = b) (ceqb a b).

Notation cset := (cset cand).
Notation ranking := (ranking cand).
Notation ballot := (ballot cand).
Notation profile := (profile cand).
Notation scores := (scores cand).
Notation mstate := (mstate cand).
Notation flat := (flat cand).
Notation singletons := (singletons cand).
Notation spref_weight := (spref_weight cand ceqb).
Notation tie_weight := (tie_weight cand ceqb).
Notation smargin := (smargin cand ceqb).
Notation tied_profile := (tied_profile cand).
Notation positive_ballots := (positive_ballots cand).
Notation score_gt := (score_gt cand).
Notation score_free := (score_free cand).
Notation untied_profile := (untied_profile cand).
Notation pref_weight := (pref_weight cand ceqb).
Notation ballot_fill := (ballot_fill cand ceqb).
Notation h2h := (h2h cand ceqb).
Notation pairwise_entries := (pairwise_entries cand ceqb).
Notation edge := (edge cand ceqb).
Notation dominating_tiers := (dominating_tiers cand ceqb).
Notation has_condorcet_winner := (has_condorcet_winner cand ceqb).
Notation borda_scores := (borda_scores cand ceqb).
Notation remove_cand_prof := (remove_cand_prof cand ceqb).
Notation run_dominating := (run_dominating cand ceqb).
Notation run_condo := (run_condo cand ceqb).

(* ====================================================================== *)
(** * A. tied positions and weight-zero ballots: the pairwise layer *)

(* the domain of Properties/C06.v is a special case, and there the new weights are the old ones *)
Theorem c06_tied_extends_untied : forall p : profile, untied_profile p ->
  tied_profile p /\
  forall a b, a <> b ->
    spref_weight (ballots p) a b == pref_weight (ballots p) a b /\
    tie_weight (ballots p) a b == 0.
Proof. exact (untied_is_tied cand ceqb ceqb_spec). Qed.

(* filling never fails (no error on tied ballots) and keeps the candidate set *)
Theorem c06_tied_fill : forall p : profile, tied_profile p ->
  exists fp, ballot_fill p = inl fp /\ Permutation (cands fp) (cands p).
Proof.
  intros p Hp. destruct (tied_fill_total cand ceqb p Hp) as [fp Hfp].
  exists fp. split; [exact Hfp|exact (tied_cands_perm cand ceqb ceqb_spec p fp Hp Hfp)].
Qed.

(* head2head_count on the filled profile: a ballot counts for a over b when it ranks a strictly above
   b, for half when it lists neither, AND ALSO when a and b share a position — a tied pair counts for
   both directions *)
Theorem c06_tied_pair_counts_for_both : forall p fp : profile,
  tied_profile p -> ballot_fill p = inl fp ->
  forall a b : cand, In a (cands p) -> In b (cands p) -> a <> b ->
  h2h (ballots fp) a b == spref_weight (ballots p) a b + tie_weight (ballots p) a b.
Proof. exact (tied_h2h cand ceqb ceqb_spec). Qed.

(* ... so the tied ballots cancel in the difference, which is the strict margin *)
Theorem c06_tied_margin : forall p fp : profile,
  tied_profile p -> ballot_fill p = inl fp ->
  forall a b : cand, In a (cands p) -> In b (cands p) -> a <> b ->
  h2h (ballots fp) a b - h2h (ballots fp) b a == smargin (ballots p) a b.
Proof. exact (tied_margin cand ceqb ceqb_spec). Qed.

(* the dictionary: every entry is a non-negative strict margin, every non-negative strict margin
   between distinct candidates is an entry, no key twice *)
Theorem c06_tied_dict_entries : forall p fp : profile, tied_profile p -> ballot_fill p = inl fp ->
  (forall a b v, In (a, b, v) (pairwise_entries (ballots fp) (cands fp)) ->
     In a (cands p) /\ In b (cands p) /\ a <> b /\
     v == smargin (ballots p) a b /\ 0 <= smargin (ballots p) a b) /\
  (forall a b, In a (cands p) -> In b (cands p) -> a <> b -> 0 <= smargin (ballots p) a b ->
     exists v, In (a, b, v) (pairwise_entries (ballots fp) (cands fp)) /\ v == smargin (ballots p) a b) /\
  NoDup (map fst (pairwise_entries (ballots fp) (cands fp))).
Proof. exact (tied_dict cand ceqb ceqb_spec). Qed.

(* the beats-or-ties digraph *)
Theorem c06_tied_edge_iff : forall p fp : profile, tied_profile p -> ballot_fill p = inl fp ->
  forall a b,
  edge (pairwise_entries (ballots fp) (cands fp)) a b = true <->
  In a (cands p) /\ In b (cands p) /\ a <> b /\
  spref_weight (ballots p) b a <= spref_weight (ballots p) a b.
Proof. exact (tied_edge_iff cand ceqb ceqb_spec). Qed.

(* ---------- dominating tiers ---------- *)

Theorem c06_tied_tiers_top_exists : forall p : profile, tied_profile p ->
  exists T0 rest, dominating_tiers p = inl (T0 :: rest).
Proof. exact (tied_tiers_top_exists cand ceqb ceqb_spec). Qed.

Theorem c06_tied_tiers_partition : forall p : profile, tied_profile p ->
  forall ts : ranking, dominating_tiers p = inl ts ->
  Permutation (concat ts) (cands p) /\
  (forall T, In T ts -> T <> []) /\
  (forall T1 T2 c, earlier ts T1 T2 -> In c T1 -> In c T2 -> False).
Proof. exact (tied_tiers_partition cand ceqb ceqb_spec). Qed.

(* every member of a tier is ranked strictly above every member of every lower tier by more weight
   than the reverse *)
Theorem c06_tied_tiers_dominate : forall p : profile, tied_profile p ->
  forall (ts : ranking) (T1 T2 : cset) (a b : cand), dominating_tiers p = inl ts ->
  earlier ts T1 T2 -> In a T1 -> In b T2 ->
  spref_weight (ballots p) b a < spref_weight (ballots p) a b.
Proof. exact (tied_tiers_dominate cand ceqb ceqb_spec). Qed.

Theorem c06_tied_tiers_minimal : forall p : profile, tied_profile p ->
  forall (ts : ranking) (T T1 T2 : cset), dominating_tiers p = inl ts -> In T ts ->
  (forall c, In c T <-> In c T1 \/ In c T2) -> T1 <> [] -> T2 <> [] ->
  (forall a b, In a T1 -> In b T2 -> spref_weight (ballots p) b a < spref_weight (ballots p) a b) ->
  False.
Proof. exact (tied_tiers_minimal cand ceqb ceqb_spec). Qed.

(* the top tier is the Smith set *)
Theorem c06_tied_smith : forall p : profile, tied_profile p ->
  forall (T0 : cset) (rest : ranking), dominating_tiers p = inl (T0 :: rest) ->
  (incl T0 (cands p) /\
   forall a b, In a T0 -> In b (cands p) -> ~ In b T0 ->
     spref_weight (ballots p) b a < spref_weight (ballots p) a b) /\
  (forall D : cset, D <> [] ->
     (incl D (cands p) /\
      forall a b, In a D -> In b (cands p) -> ~ In b D ->
        spref_weight (ballots p) b a < spref_weight (ballots p) a b) ->
     incl T0 D).
Proof. exact (tied_smith cand ceqb ceqb_spec). Qed.

Theorem c06_tied_condorcet_iff : forall p : profile, tied_profile p ->
  (has_condorcet_winner p = inl true <->
   exists c, In c (cands p) /\
     forall d, In d (cands p) -> d <> c -> spref_weight (ballots p) d c < spref_weight (ballots p) c d) /\
  (has_condorcet_winner p = inl true \/ has_condorcet_winner p = inl false) /\
  (forall c, (In c (cands p) /\
     forall d, In d (cands p) -> d <> c -> spref_weight (ballots p) d c < spref_weight (ballots p) c d) ->
     exists rest, dominating_tiers p = inl ([c] :: rest)).
Proof. exact (tied_condorcet_iff cand ceqb ceqb_spec). Qed.

(* ---------- the two rules on the larger domain ---------- *)

(* DominatingSets never fails, consumes no draw, elects exactly the top tier: every source state *)
Theorem c06_tied_dominating_sets_elects_top : forall (p : profile) (s : mstate), tied_profile p ->
  exists top rest, dominating_tiers p = inl (top :: rest) /\
    run_dominating p s =
      inl ([mkState 0 [cands p] [[]] [[]] [] [];
            mkState 1 rest [top] [[]] [] []], s).
Proof. exact (tied_dominating cand ceqb ceqb_spec). Qed.

(* CondoBorda: shape of every successful run (the statement of c06_condoborda, Properties/C06.v) *)
Theorem c06_tied_condoborda : forall (p : profile), tied_profile p ->
  forall (m : Z) (s s' : mstate) (sts : list (estate cand)),
  run_condo m p s = inl (sts, s') ->
  exists ts d0 s1,
    dominating_tiers p = inl ts /\ borda_scores p = inl d0 /\
    sts = [state_of_scores cand 0 [[]] [[]] [] d0; s1] /\
    rnd s1 = 1%Z /\ eliminated s1 = [[]] /\
    (1 <= m <= Z.of_nat (length (cands p)))%Z /\
    Z.of_nat (length (flat (elected s1))) = m /\
    Permutation (flat (elected s1) ++ flat (remaining s1)) (cands p) /\
    ((tiebreaks s1 = [] /\ s' = s /\ elected s1 ++ remaining s1 = ts)
     \/
     (exists pre g post l k,
        ts = pre ++ g :: post /\ (0 < k < length g)%nat /\ Z.of_nat (k + length (flat pre)) = m /\
        Permutation l g /\
        elected s1 = pre ++ singletons (firstn k l) /\
        remaining s1 = singletons (skipn k l) ++ post /\
        tiebreaks s1 = [(g, singletons l)] /\
        (forall x a y b z qa qb, l = x ++ a :: y ++ b :: z ->
           In (a, qa) d0 -> In (b, qb) d0 -> qb <= qa))).
Proof. exact (condo_shape cand ceqb ceqb_spec). Qed.

(* CondoBorda, seat range and ALL errors: m outside 1..n raises ValueError whatever the script; for
   m inside 1..n the run succeeds or stops because the draw script is exhausted / invalid (EScript:
   a Borda tie inside the straddling tier needs random.sample) — no other exception *)
Theorem c06_tied_condoborda_m_range : forall p : profile, tied_profile p -> score_free (ballots p) ->
  forall (m : Z) (s : mstate),
  ((m < 1 \/ Z.of_nat (length (cands p)) < m)%Z -> run_condo m p s = inr EValue) /\
  ((1 <= m <= Z.of_nat (length (cands p)))%Z ->
     (exists sts s', run_condo m p s = inl (sts, s')) \/ run_condo m p s = inr EScript).
Proof. exact (condo_m_range cand ceqb ceqb_spec). Qed.

(* the out-of-range half needs no hypothesis on scores *)
Theorem c06_tied_condoborda_range_error : forall p : profile, tied_profile p ->
  forall (m : Z) (s : mstate),
  (m < 1 \/ Z.of_nat (length (cands p)) < m)%Z -> run_condo m p s = inr EValue.
Proof. exact (condo_range_error cand ceqb ceqb_spec). Qed.

(* ====================================================================== *)
(** * B. CondoBorda: when a run succeeds, for EVERY script *)

(* 1. seat m falls exactly between two tiers (the tiers [pre] hold exactly m candidates): the run
   succeeds from every source state, leaves it untouched (no draw), records no tie-break, elects
   exactly [pre] and leaves [rest]; the recorded scores are the Borda scores of p and of the
   reduced profile *)
Theorem c06_condoborda_whole_tiers_succeed : forall p : profile, tied_profile p ->
  forall (m : Z) (s : mstate) (ts pre rest : ranking),
  score_free (ballots p) ->
  dominating_tiers p = inl ts -> ts = pre ++ rest -> (1 <= m)%Z ->
  Z.of_nat (length (flat pre)) = m ->
  exists d0 np d1,
    borda_scores p = inl d0 /\
    remove_cand_prof (flat pre) true false p = inl np /\ borda_scores np = inl d1 /\
    run_condo m p s =
      inl ([state_of_scores cand 0 [[]] [[]] [] d0; mkState 1 rest pre [[]] [] d1], s).
Proof. exact (condo_whole_tiers_succeed cand ceqb ceqb_spec). Qed.

(* 2. seat m strictly inside the tier g.
   Wanted: "if the Borda scores separate the j-th and (j+1)-th member of g, the run succeeds with no
   draw for every script":
     forall H, NoDup H -> incl H g -> length H + |pre| = m ->
       (forall a b, In a H -> In b g -> ~ In b H -> score_gt d0 a b) ->
       forall s, exists sts, run_condo m p s = inl (sts, s)
   This is FALSE (c06_condoborda_borda_separated_succeed_refuted below): tiebroken_ranking hands EVERY
   group of equal Borda scores inside the tier to random.sample, also one that lies entirely above
   (or below) the boundary, so a draw is consumed although the elected SET is already determined.
   What holds:
   (a) _partial: no two members of g have the same Borda score -> success, no draw, every script;
   (b) _elects: boundary separated -> every successful run elects exactly pre + H (script-independent
       set; only the order inside equal-score groups is drawn);
   (c) _tie_needs_draw: two members of g with the same Borda score and an empty script -> EScript. *)
Theorem c06_condoborda_borda_separated_succeed_partial : forall p : profile, tied_profile p ->
  forall (m : Z) (s : mstate) (ts pre : ranking) (g : cset) (post : ranking) (d0 : scores),
  score_free (ballots p) ->
  dominating_tiers p = inl ts -> ts = pre ++ g :: post ->
  (Z.of_nat (length (flat pre)) < m)%Z -> (m < Z.of_nat (length (flat pre) + length g))%Z ->
  borda_scores p = inl d0 ->
  (forall a b qa qb, In a g -> In b g -> a <> b -> In (a, qa) d0 -> In (b, qb) d0 -> ~ qa == qb) ->
  exists l d1,
    Permutation l g /\
    (forall x a y b z, l = x ++ a :: y ++ b :: z -> score_gt d0 a b) /\
    run_condo m p s =
      inl ([state_of_scores cand 0 [[]] [[]] [] d0;
            mkState 1 (singletons (skipn (Z.to_nat m - length (flat pre)) l) ++ post)
                      (pre ++ singletons (firstn (Z.to_nat m - length (flat pre)) l))
                      [[]] [(g, singletons l)] d1], s).
Proof. exact (condo_distinct_succeed cand ceqb ceqb_spec). Qed.

Theorem c06_condoborda_borda_separated_elects : forall p : profile, tied_profile p ->
  forall (m : Z) (s s' : mstate) (sts : list (estate cand)) (ts pre : ranking) (g : cset)
         (post : ranking) (d0 : scores) (H : cset),
  dominating_tiers p = inl ts -> ts = pre ++ g :: post ->
  borda_scores p = inl d0 ->
  NoDup H -> incl H g -> (0 < length H < length g)%nat ->
  Z.of_nat (length H + length (flat pre)) = m ->
  (forall a b, In a H -> In b g -> ~ In b H -> score_gt d0 a b) ->
  run_condo m p s = inl (sts, s') ->
  exists s0 s1 l,
    sts = [s0; s1] /\ Permutation l g /\
    elected s1 = pre ++ singletons (firstn (length H) l) /\
    remaining s1 = singletons (skipn (length H) l) ++ post /\
    tiebreaks s1 = [(g, singletons l)] /\
    Permutation (firstn (length H) l) H /\
    Permutation (flat (elected s1)) (flat pre ++ H).
Proof. exact (condo_separated_elects cand ceqb ceqb_spec). Qed.

Theorem c06_condoborda_borda_tie_needs_draw : forall p : profile, tied_profile p ->
  forall (m : Z) (ts pre : ranking) (g : cset) (post : ranking) (d0 : scores)
         (a b : cand) (qa qb : Q) (lg0 : list (call cand)),
  dominating_tiers p = inl ts -> ts = pre ++ g :: post ->
  (Z.of_nat (length (flat pre)) < m)%Z -> (m < Z.of_nat (length (flat pre) + length g))%Z ->
  borda_scores p = inl d0 ->
  In a g -> In b g -> a <> b -> In (a, qa) d0 -> In (b, qb) d0 -> qa == qb ->
  run_condo m p (mkM [] lg0) = inr EScript.
Proof. exact (condo_tie_needs_draw cand ceqb ceqb_spec). Qed.

(* ====================================================================== *)
(** * C. ballots of weight zero *)

(* two profiles over the same candidate list whose ballots of positive weight are the same (in the
   same order) — i.e. that differ only by ballots of weight zero, anywhere in the list — have the same
   strict weights, tie weights and margins, literally the same dominating tiers, literally the same
   DominatingSets run, and equivalent CondoBorda runs for every script (same error, or the same
   rounds up to the order inside groups and [==] scores, the same script left and call log) *)
Theorem c06_zero_weight_ballots_irrelevant : forall p q : profile,
  tied_profile p -> tied_profile q -> cands q = cands p ->
  positive_ballots (ballots q) = positive_ballots (ballots p) ->
  (forall a b, spref_weight (ballots q) a b == spref_weight (ballots p) a b /\
               tie_weight (ballots q) a b == tie_weight (ballots p) a b /\
               smargin (ballots q) a b == smargin (ballots p) a b) /\
  dominating_tiers q = dominating_tiers p /\
  (forall s : mstate, run_dominating q s = run_dominating p s) /\
  (score_free (ballots p) -> score_free (ballots q) -> forall (m : Z) (s : mstate),
     mres_equiv_log cand ceqb (Forall2 (state_equiv cand)) (run_condo m q s) (run_condo m p s)).
Proof. exact (zero_weight_irrelevant cand ceqb ceqb_spec). Qed.

(* in particular the weight-zero ballots can simply be dropped *)
Theorem c06_drop_zero_weight_ballots : forall p : profile, tied_profile p ->
  tied_profile (mkProfile (positive_ballots (ballots p)) (cands p)) /\
  cands (mkProfile (positive_ballots (ballots p)) (cands p)) = cands p /\
  positive_ballots (ballots (mkProfile (positive_ballots (ballots p)) (cands p))) =
  positive_ballots (ballots p).
Proof. exact (drop_zero_weight cand). Qed.

End C06_condo.

(* "boundary separated => success with no draw" refuted: four candidates in one tier with Borda
   scores 12, 12, 10, 6; m = 2; H = the two candidates with 12; the run from the empty script stops
   with EScript *)
Theorem c06_condoborda_borda_separated_succeed_refuted :
  exists (p : Core.profile positive) (m : Z) (ts pre : Core.ranking positive) (g : list positive)
         (post : Core.ranking positive) (d0 : Core.scores positive) (H : list positive),
    tied_profile positive p /\ score_free positive (ballots p) /\
    dominating_tiers positive Pos.eqb p = inl ts /\ ts = pre ++ g :: post /\
    borda_scores positive Pos.eqb p = inl d0 /\
    NoDup H /\ incl H g /\ (0 < length H < length g)%nat /\
    Z.of_nat (length H + length (Core.flat positive pre)) = m /\
    (forall a b, In a H -> In b g -> ~ In b H -> score_gt positive d0 a b) /\
    run_condo positive Pos.eqb m p (mkM [] []) = inr EScript.
Proof. exact separated_succeed_refuted. Qed.

Print Assumptions c06_tied_extends_untied.
Print Assumptions c06_tied_fill.
Print Assumptions c06_tied_pair_counts_for_both.
Print Assumptions c06_tied_margin.
Print Assumptions c06_tied_dict_entries.
Print Assumptions c06_tied_edge_iff.
Print Assumptions c06_tied_tiers_top_exists.
Print Assumptions c06_tied_tiers_partition.
Print Assumptions c06_tied_tiers_dominate.
Print Assumptions c06_tied_tiers_minimal.
Print Assumptions c06_tied_smith.
Print Assumptions c06_tied_condorcet_iff.
Print Assumptions c06_tied_dominating_sets_elects_top.
Print Assumptions c06_tied_condoborda.
Print Assumptions c06_tied_condoborda_m_range.
Print Assumptions c06_tied_condoborda_range_error.
Print Assumptions c06_condoborda_whole_tiers_succeed.
Print Assumptions c06_condoborda_borda_separated_succeed_partial.
Print Assumptions c06_condoborda_borda_separated_elects.
Print Assumptions c06_condoborda_borda_tie_needs_draw.
Print Assumptions c06_zero_weight_ballots_irrelevant.
Print Assumptions c06_drop_zero_weight_ballots.
Print Assumptions c06_condoborda_borda_separated_succeed_refuted.

(* ------------------------------------------------------------------ *)
(* Non-vacuity *)
Open Scope positive_scope.

(* an untied ballot / a ballot given by its positions *)
Definition B (l : list positive) (w : Q) : Core.ballot positive :=
  plain_ballot positive (Core.singletons positive l) w.
Definition T (r : list (list positive)) (w : Q) : Core.ballot positive := plain_ballot positive r w.

Ltac solve_nodup :=
  repeat (constructor; [cbn; intuition discriminate|]); constructor.
Ltac solve_pw_ballot :=
  split; [split; [discriminate|split; [repeat (constructor; [discriminate|]); constructor|
           split; [solve_nodup|intros x Hx; cbn in Hx |- *; intuition]]]|
          split; [intros x []|vm_compute; discriminate]].
Tactic Notation "solve_tied" integer(n) :=
  split; [solve_nodup|]; split;
  [repeat (constructor; [solve_pw_ballot|]); constructor|
   do n apply Exists_cons_tl; apply Exists_cons_hd; vm_compute; reflexivity].
Ltac solve_score_free := repeat constructor.

(* (a) a 3-cycle 1 > 2 > 3 > 1 above candidate 4 (nobody lists 4), a partial ballot: tiers
   {1,2,3}, {4}.  m = 3: whole tiers. *)
Definition ex_cycle : Core.profile positive :=
  mkProfile [B [1;2;3] 1; B [2;3;1] 1; B [3;1;2] 1; B [1] (1#2)] [1;2;3;4].

Example ex_cycle_tied : tied_profile positive ex_cycle.
Proof. solve_tied 0. Qed.

Example ex_cycle_tiers : dominating_tiers positive Pos.eqb ex_cycle = inl [[1;3;2]; [4]].
Proof. vm_compute. reflexivity. Qed.

(* the theorem applied: success from EVERY source state, which is returned untouched *)
Example ex_cycle_m3_by_theorem : forall s : Core.mstate positive,
  exists d0 np d1,
    borda_scores positive Pos.eqb ex_cycle = inl d0 /\
    remove_cand_prof positive Pos.eqb [1;3;2] true false ex_cycle = inl np /\
    borda_scores positive Pos.eqb np = inl d1 /\
    run_condo positive Pos.eqb 3 ex_cycle s =
      inl ([state_of_scores positive 0 [[]] [[]] [] d0; mkState 1 [[4]] [[1;3;2]] [[]] [] d1], s).
Proof.
  intros s.
  exact (c06_condoborda_whole_tiers_succeed positive Pos.eqb Pos.eqb_spec ex_cycle ex_cycle_tied 3 s
           [[1;3;2]; [4]] [[1;3;2]] [[4]] ltac:(solve_score_free) ex_cycle_tiers eq_refl
           ltac:(discriminate) eq_refl).
Qed.

(* and computed, from a script that still holds a draw: it is not consumed *)
Example ex_cycle_m3_run :
  exists s0 s1, run_condo positive Pos.eqb 3 ex_cycle (mkM [DPerm [9;8]] []) =
                  inl ([s0; s1], mkM [DPerm [9;8]] []) /\
    elected s1 = [[1;3;2]] /\ remaining s1 = [[4]] /\ tiebreaks s1 = [].
Proof. vm_compute. do 2 eexists. repeat split. Qed.

(* m = 4 elects both tiers, m = 5 and m = 0 are out of range *)
Example ex_cycle_m4_m5 :
  (exists s0 s1, run_condo positive Pos.eqb 4 ex_cycle (mkM [] []) = inl ([s0; s1], mkM [] []) /\
     elected s1 = [[1;3;2]; [4]] /\ remaining s1 = []) /\
  run_condo positive Pos.eqb 5 ex_cycle (mkM [] []) = inr EValue /\
  run_condo positive Pos.eqb 0 ex_cycle (mkM [] []) = inr EValue.
Proof.
  split; [vm_compute; do 2 eexists; repeat split|]. split; vm_compute; reflexivity.
Qed.

(* (b) a weighted 3-cycle above candidate 4 whose Borda scores 22 > 21 > 20 are pairwise distinct:
   m = 2 falls inside the top tier and is decided by Borda with no draw, whatever the script *)
Definition ex_sep : Core.profile positive :=
  mkProfile [B [1;2;3] 3; B [2;3;1] 2; B [3;1;2] 2] [1;2;3;4].

Example ex_sep_tied : tied_profile positive ex_sep.
Proof. solve_tied 0. Qed.

Example ex_sep_values :
  dominating_tiers positive Pos.eqb ex_sep = inl [[3;1;2]; [4]] /\
  borda_scores positive Pos.eqb ex_sep = inl [(1, 22%Q); (2, 21%Q); (3, 20%Q); (4, 7%Q)].
Proof. split; vm_compute; reflexivity. Qed.

Example ex_sep_m2_by_theorem : forall s : Core.mstate positive,
  exists l d1,
    Permutation l [3;1;2] /\
    run_condo positive Pos.eqb 2 ex_sep s =
      inl ([state_of_scores positive 0 [[]] [[]] [] [(1, 22%Q); (2, 21%Q); (3, 20%Q); (4, 7%Q)];
            mkState 1 (Core.singletons positive (skipn 2 l) ++ [[4]])
                      ([] ++ Core.singletons positive (firstn 2 l))
                      [[]] [([3;1;2], Core.singletons positive l)] d1], s).
Proof.
  intros s.
  destruct (c06_condoborda_borda_separated_succeed_partial positive Pos.eqb Pos.eqb_spec ex_sep ex_sep_tied
              2 s [[3;1;2]; [4]] [] [3;1;2] [[4]] [(1, 22%Q); (2, 21%Q); (3, 20%Q); (4, 7%Q)]
              ltac:(solve_score_free) (proj1 ex_sep_values) eq_refl ltac:(reflexivity) ltac:(reflexivity)
              (proj2 ex_sep_values)) as [l [d1 [Hl [_ Hrun]]]].
  - intros a b qa qb Ha Hb Hab Hqa Hqb Heq. cbn in Ha, Hb, Hqa, Hqb.
    destruct Hqa as [E|[E|[E|[E|[]]]]]; injection E as <- <-;
    destruct Hqb as [E|[E|[E|[E|[]]]]]; injection E as <- <-;
    try (apply Hab; reflexivity); try (vm_compute in Heq; discriminate);
    cbn in Ha, Hb; intuition discriminate.
  - exists l, d1. split; [exact Hl|exact Hrun].
Qed.

(* computed: 1 and 2 are elected, in Borda order; the unused draw stays in the script *)
Example ex_sep_m2_run :
  exists s0 s1, run_condo positive Pos.eqb 2 ex_sep (mkM [DPerm [9;8]] []) =
                  inl ([s0; s1], mkM [DPerm [9;8]] []) /\
    elected s1 = [[1]; [2]] /\ remaining s1 = [[3]; [4]] /\
    tiebreaks s1 = [([3;1;2], [[1]; [2]; [3]])].
Proof. vm_compute. do 2 eexists. repeat split. Qed.

(* a Borda tie at the boundary (the unit-weight cycle: Borda 11, 10, 10; m = 2): EScript on the
   empty script, by the theorem; with a draw the run succeeds (Properties/C06.v, ex_cycle_condo) *)
Example ex_cycle_m2_noscript : run_condo positive Pos.eqb 2 ex_cycle (mkM [] []) = inr EScript.
Proof.
  apply (c06_condoborda_borda_tie_needs_draw positive Pos.eqb Pos.eqb_spec ex_cycle ex_cycle_tied 2
           [[1;3;2]; [4]] [] [1;3;2] [[4]] [(1, 22#2); (2, 60#6); (3, 60#6); (4, 24#6)] 2 3 (60#6) (60#6) []
           ex_cycle_tiers eq_refl ltac:(reflexivity) ltac:(reflexivity) ltac:(vm_compute; reflexivity));
    try (cbn; tauto); try discriminate. reflexivity.
Qed.

(* (c) a profile with a TIED position, a short ballot and a ballot of weight zero:
     {1,2} > 3  (weight 2),   3 > 1 > 2  (weight 1),   2  (weight 1),   3 > 2 > 1  (weight 0) *)
Definition ex_tied : Core.profile positive :=
  mkProfile [T [[1;2]; [3]] 2; T [[3]; [1]; [2]] 1; T [[2]] 1; T [[3]; [2]; [1]] 0] [1;2;3].

Example ex_tied_tied : tied_profile positive ex_tied.
Proof. solve_tied 0. Qed.

(* the tied ballot is counted for 1 over 2 AND for 2 over 1 (3 = 1 + 2 both ways), the margin is 0;
   ballot (2) lists neither 1 nor 3: half each *)
Example ex_tied_values :
  exists fp, ballot_fill positive Pos.eqb ex_tied = inl fp /\
    h2h positive Pos.eqb (ballots fp) 1 2 == 3 /\ h2h positive Pos.eqb (ballots fp) 2 1 == 3 /\
    spref_weight positive Pos.eqb (ballots ex_tied) 1 2 == 1 /\
    spref_weight positive Pos.eqb (ballots ex_tied) 2 1 == 1 /\
    tie_weight positive Pos.eqb (ballots ex_tied) 1 2 == 2 /\
    smargin positive Pos.eqb (ballots ex_tied) 1 2 == 0 /\
    spref_weight positive Pos.eqb (ballots ex_tied) 1 3 == 5#2 /\
    spref_weight positive Pos.eqb (ballots ex_tied) 3 1 == 3#2 /\
    smargin positive Pos.eqb (ballots ex_tied) 2 3 == 2.
Proof. eexists. split; [vm_compute; reflexivity|]. repeat split; vm_compute; reflexivity. Qed.

Example ex_tied_rules :
  dominating_tiers positive Pos.eqb ex_tied = inl [[2;1]; [3]] /\
  has_condorcet_winner positive Pos.eqb ex_tied = inl false /\
  run_dominating positive Pos.eqb ex_tied (mkM [] []) =
    inl ([mkState 0 [[1;2;3]] [[]] [[]] [] []; mkState 1 [[3]] [[2;1]] [[]] [] []], mkM [] []) /\
  (exists s0 s1, run_condo positive Pos.eqb 2 ex_tied (mkM [] []) = inl ([s0; s1], mkM [] []) /\
     elected s1 = [[2;1]] /\ remaining s1 = [[3]] /\ tiebreaks s1 = []).
Proof.
  split; [vm_compute; reflexivity|]. split; [vm_compute; reflexivity|].
  split; [vm_compute; reflexivity|]. vm_compute. do 2 eexists. repeat split.
Qed.

(* (d) the weight-zero ballot of ex_tied dropped, or a second one inserted in front: nothing changes *)
Definition ex_tied_pos : Core.profile positive :=
  mkProfile [T [[1;2]; [3]] 2; T [[3]; [1]; [2]] 1; T [[2]] 1] [1;2;3].
Definition ex_tied_more : Core.profile positive :=
  mkProfile [T [[3]; [1;2]] 0; T [[1;2]; [3]] 2; T [[3]; [1]; [2]] 1; T [[2]] 1; T [[3]; [2]; [1]] 0] [1;2;3].

Example ex_tied_pos_tied : tied_profile positive ex_tied_pos.
Proof. solve_tied 0. Qed.
Example ex_tied_more_tied : tied_profile positive ex_tied_more.
Proof. solve_tied 1. Qed.

Example ex_zero_weight_by_theorem :
  dominating_tiers positive Pos.eqb ex_tied_more = dominating_tiers positive Pos.eqb ex_tied /\
  dominating_tiers positive Pos.eqb ex_tied_pos = dominating_tiers positive Pos.eqb ex_tied /\
  (forall s, run_dominating positive Pos.eqb ex_tied_more s = run_dominating positive Pos.eqb ex_tied s).
Proof.
  pose proof (c06_zero_weight_ballots_irrelevant positive Pos.eqb Pos.eqb_spec ex_tied ex_tied_more
                ex_tied_tied ex_tied_more_tied eq_refl eq_refl) as [_ [H1 [H2 _]]].
  pose proof (c06_zero_weight_ballots_irrelevant positive Pos.eqb Pos.eqb_spec ex_tied ex_tied_pos
                ex_tied_tied ex_tied_pos_tied eq_refl eq_refl) as [_ [H3 _]].
  split; [exact H1|]. split; [exact H3|exact H2].
Qed.

Example ex_zero_weight_computed :
  positive_ballots positive (ballots ex_tied) = ballots ex_tied_pos /\
  dominating_tiers positive Pos.eqb ex_tied_more = inl [[2;1]; [3]] /\
  (exists s0 s1, run_condo positive Pos.eqb 2 ex_tied_more (mkM [] []) = inl ([s0; s1], mkM [] []) /\
     elected s1 = [[2;1]] /\ remaining s1 = [[3]]).
Proof.
  split; [vm_compute; reflexivity|]. split; [vm_compute; reflexivity|].
  vm_compute. do 2 eexists. repeat split.
Qed.

(* the refutation witness, computed: with a draw for the tied pair {1,2} the run succeeds and elects
   exactly 1 and 2 in either order (the set promised by c06_condoborda_borda_separated_elects) *)
Example ex_sep_witness_runs :
  run_condo positive Pos.eqb 2 sep_witness (mkM [] []) = inr EScript /\
  (exists s0 s1 st, run_condo positive Pos.eqb 2 sep_witness (mkM [DPerm [2;1]] []) = inl ([s0; s1], st) /\
     elected s1 = [[2]; [1]] /\ remaining s1 = [[4]; [3]]) /\
  (exists s0 s1 st, run_condo positive Pos.eqb 2 sep_witness (mkM [DPerm [1;2]] []) = inl ([s0; s1], st) /\
     elected s1 = [[1]; [2]] /\ remaining s1 = [[4]; [3]]).
Proof.
  split; [vm_compute; reflexivity|]. split; vm_compute; do 3 eexists; repeat split.
Qed.
