(* Properties/C06.v — C06: pairwise comparison, dominating tiers and Condorcet consistency.
   Statements only; proofs are in Proofs/C06_pairwise.v and Proofs/C06_tiers.v.
   Specification vocabulary (before, pref_share, pref_weight, margin, beats, untied_profile, edge_in,
   reaches, earlier, dominating, condorcet_winner) is in Spec/PairwiseSpec.v.

   Input domain ([untied_profile p]): duplicate-free candidate list, at least one ballot, every ballot
   a non-empty ranking of singleton positions without repetition, over known candidates, of positive
   weight.  Partial ballots and candidates nobody lists are allowed.  No bound on sizes. *)
From VK Require Import Base Core STV Pairwise Rules.
From VK.Spec Require Import PairwiseSpec.
From VK.Proofs Require Import C06_pairwise C06_tiers.
From Coq Require Import Permutation Relations.

Section C06.
Variable cand : Type.
Variable ceqb : cand -> cand -> bool.
Hypothesis ceqb_spec : forall a b, reflect (a = b) (ceqb a b).

Notation cset := (cset cand).
Notation ranking := (ranking cand).
Notation ballot := (ballot cand).
Notation profile := (profile cand).
Notation mstate := (mstate cand).
Notation flat := (flat cand).
Notation singletons := (singletons cand).
Notation before := (before cand ceqb).
Notation pref_weight := (pref_weight cand ceqb).
Notation margin := (margin cand ceqb).
Notation beats := (beats cand ceqb).
Notation untied_profile := (untied_profile cand).
Notation dominating := (dominating cand ceqb).
Notation condorcet_winner := (condorcet_winner cand ceqb).
Notation ballot_fill := (ballot_fill cand ceqb).
Notation h2h := (h2h cand ceqb).
Notation pairwise_entries := (pairwise_entries cand ceqb).
Notation edge := (edge cand ceqb).
Notation has_path := (has_path cand ceqb).
Notation beat_size := (beat_size cand ceqb).
Notation dominating_tiers := (dominating_tiers cand ceqb).
Notation has_condorcet_winner := (has_condorcet_winner cand ceqb).
Notation run_dominating := (run_dominating cand ceqb).
Notation run_condo := (run_condo cand ceqb).

(* ---------- 1. filling, head-to-head counts, the dictionary ---------- *)

(* the specification's "a before b" read declaratively: a occurs, and neither a nor b occurs earlier *)
Theorem c06_before_spec : forall (a b : cand) (l : list cand),
  before a b l = true <-> exists l1 l2, l = l1 ++ a :: l2 /\ ~ In a l1 /\ ~ In b l1.
Proof. exact (before_true_iff cand ceqb ceqb_spec). Qed.

(* filling never fails on the domain *)
Theorem c06_fill_total : forall p : profile, untied_profile p -> exists fp, ballot_fill p = inl fp.
Proof. exact (c06_fill_total_proof cand ceqb ceqb_spec). Qed.

(* after filling, every candidate (also one nobody listed) is a candidate of the filled profile *)
Theorem c06_fill_cands : forall p fp : profile, untied_profile p -> ballot_fill p = inl fp ->
  Permutation (cands fp) (cands p).
Proof. exact (c06_fill_cands_proof cand ceqb ceqb_spec). Qed.

(* head2head_count on the filled profile = weight of the ORIGINAL ballots ranking a above b, a
   listed candidate beating an unlisted one, two unlisted candidates splitting the ballot evenly *)
Theorem c06_margin : forall (p fp : profile) (a b : cand),
  untied_profile p -> ballot_fill p = inl fp ->
  In a (cands p) -> In b (cands p) -> a <> b ->
  h2h (ballots fp) a b == pref_weight (ballots p) a b.
Proof. exact (c06_margin_proof cand ceqb ceqb_spec). Qed.

(* compute_pairwise_dict: every entry (a, b, v) records a non-negative margin of a over b; every
   non-negative margin between distinct candidates is recorded; no key occurs twice *)
Theorem c06_dict_entries : forall p fp : profile, untied_profile p -> ballot_fill p = inl fp ->
  (forall a b v, In (a, b, v) (pairwise_entries (ballots fp) (cands fp)) ->
     In a (cands p) /\ In b (cands p) /\ a <> b /\
     v == margin (ballots p) a b /\ 0 <= margin (ballots p) a b) /\
  (forall a b, In a (cands p) -> In b (cands p) -> a <> b -> 0 <= margin (ballots p) a b ->
     exists v, In (a, b, v) (pairwise_entries (ballots fp) (cands fp)) /\ v == margin (ballots p) a b) /\
  NoDup (map fst (pairwise_entries (ballots fp) (cands fp))).
Proof. exact (c06_dict_entries_proof cand ceqb ceqb_spec). Qed.

(* hence: a non-zero margin is recorded exactly once, for (winner, loser); a zero margin is recorded
   in both directions with value 0 *)
Theorem c06_dict_cases : forall p fp : profile, untied_profile p -> ballot_fill p = inl fp ->
  forall a b, In a (cands p) -> In b (cands p) -> a <> b ->
  (0 < margin (ballots p) a b ->
     (exists v, In (a, b, v) (pairwise_entries (ballots fp) (cands fp)) /\ v == margin (ballots p) a b) /\
     (forall v, ~ In (b, a, v) (pairwise_entries (ballots fp) (cands fp)))) /\
  (margin (ballots p) a b == 0 ->
     (exists v, In (a, b, v) (pairwise_entries (ballots fp) (cands fp)) /\ v == 0) /\
     (exists v, In (b, a, v) (pairwise_entries (ballots fp) (cands fp)) /\ v == 0)).
Proof. exact (c06_dict_cases_proof cand ceqb ceqb_spec). Qed.

(* ---------- 2. the beats-or-ties digraph and reachability ---------- *)

Theorem c06_edge_iff : forall p fp : profile, untied_profile p -> ballot_fill p = inl fp ->
  forall a b,
  edge (pairwise_entries (ballots fp) (cands fp)) a b = true <->
  In a (cands p) /\ In b (cands p) /\ a <> b /\
  pref_weight (ballots p) b a <= pref_weight (ballots p) a b.
Proof. exact (c06_edge_iff_proof cand ceqb ceqb_spec). Qed.

(* has_path (fuel = number of nodes) is the reflexive-transitive closure of the edge relation
   restricted to the node list; for every edge list and node list *)
Theorem c06_has_path_iff : forall (es : list (cand * cand * Q)) (cs : list cand) (a b : cand),
  has_path es cs a b = true <->
  In a cs /\ clos_refl_trans cand (fun x y => In x cs /\ In y cs /\ edge es x y = true) a b.
Proof. exact (has_path_iff cand ceqb ceqb_spec). Qed.

(* in a semi-complete digraph the size of the beat set orders candidates by reachability *)
Theorem c06_beat_size_lt : forall (es : list (cand * cand * Q)) (cs : list cand),
  NoDup cs ->
  (forall a b, In a cs -> In b cs -> a <> b -> edge es a b = true \/ edge es b a = true) ->
  forall a b, In a cs -> In b cs ->
  ((beat_size es cs b < beat_size es cs a)%nat <->
   has_path es cs a b = true /\ has_path es cs b a = false).
Proof. exact (bsz_lt_iff cand ceqb ceqb_spec). Qed.

Theorem c06_beat_size_eq : forall (es : list (cand * cand * Q)) (cs : list cand),
  NoDup cs ->
  (forall a b, In a cs -> In b cs -> a <> b -> edge es a b = true \/ edge es b a = true) ->
  forall a b, In a cs -> In b cs ->
  (beat_size es cs a = beat_size es cs b <->
   has_path es cs a b = true /\ has_path es cs b a = true).
Proof. exact (bsz_eq_iff cand ceqb ceqb_spec). Qed.

(* ---------- 3. dominating tiers ---------- *)

(* dominating_tiers never fails on the domain and there is a top tier *)
Theorem c06_tiers_top_exists : forall p : profile, untied_profile p ->
  exists T0 rest, dominating_tiers p = inl (T0 :: rest).
Proof. exact (c06_tiers_top_exists_proof cand ceqb ceqb_spec). Qed.

(* the tiers partition the candidates: together they are the candidate list, none is empty, two
   different tiers share no candidate *)
Theorem c06_tiers_partition : forall p : profile, untied_profile p ->
  forall ts : ranking, dominating_tiers p = inl ts ->
  Permutation (concat ts) (cands p) /\
  (forall T, In T ts -> T <> []) /\
  (forall T1 T2 c, earlier ts T1 T2 -> In c T1 -> In c T2 -> False).
Proof. exact (c06_tiers_partition_proof cand ceqb ceqb_spec). Qed.

(* every member of a tier strictly beats every member of every lower tier head-to-head *)
Theorem c06_tiers_dominate : forall p : profile, untied_profile p ->
  forall (ts : ranking) (T1 T2 : cset) (a b : cand), dominating_tiers p = inl ts ->
  earlier ts T1 T2 -> In a T1 -> In b T2 ->
  pref_weight (ballots p) b a < pref_weight (ballots p) a b.
Proof. exact (c06_tiers_dominate_proof cand ceqb ceqb_spec). Qed.

(* no tier can be split into two non-empty parts with every member of the first strictly beating
   every member of the second *)
Theorem c06_tiers_minimal : forall p : profile, untied_profile p ->
  forall (ts : ranking) (T T1 T2 : cset), dominating_tiers p = inl ts -> In T ts ->
  (forall c, In c T <-> In c T1 \/ In c T2) -> T1 <> [] -> T2 <> [] ->
  (forall a b, In a T1 -> In b T2 -> pref_weight (ballots p) b a < pref_weight (ballots p) a b) ->
  False.
Proof. exact (c06_tiers_minimal_proof cand ceqb ceqb_spec). Qed.

(* the top tier is the Smith set: it is a dominating set (every member strictly beats every
   non-member) and it is contained in every non-empty dominating set *)
Theorem c06_smith : forall p : profile, untied_profile p ->
  forall (T0 : cset) (rest : ranking), dominating_tiers p = inl (T0 :: rest) ->
  (incl T0 (cands p) /\
   forall a b, In a T0 -> In b (cands p) -> ~ In b T0 ->
     pref_weight (ballots p) b a < pref_weight (ballots p) a b) /\
  (forall D : cset, D <> [] ->
     (incl D (cands p) /\
      forall a b, In a D -> In b (cands p) -> ~ In b D ->
        pref_weight (ballots p) b a < pref_weight (ballots p) a b) ->
     incl T0 D).
Proof. exact (c06_smith_proof cand ceqb ceqb_spec). Qed.

(* has_condorcet_winner answers True exactly when some candidate strictly beats every other one; it
   never fails; and then the top tier is exactly that candidate *)
Theorem c06_condorcet_iff : forall p : profile, untied_profile p ->
  (has_condorcet_winner p = inl true <->
   exists c, In c (cands p) /\
     forall d, In d (cands p) -> d <> c -> pref_weight (ballots p) d c < pref_weight (ballots p) c d) /\
  (has_condorcet_winner p = inl true \/ has_condorcet_winner p = inl false) /\
  (forall c, (In c (cands p) /\
     forall d, In d (cands p) -> d <> c -> pref_weight (ballots p) d c < pref_weight (ballots p) c d) ->
     exists rest, dominating_tiers p = inl ([c] :: rest)).
Proof. exact (c06_condorcet_iff_proof cand ceqb ceqb_spec). Qed.

(* ---------- 4. the two election rules ---------- *)

(* DominatingSets: round 0 has all candidates tied; round 1 elects exactly the top tier and leaves
   the lower tiers in order; no random draw is consumed; never fails on the domain *)
Theorem c06_dominating_sets_elects_top : forall (p : profile) (s : mstate), untied_profile p ->
  exists top rest, dominating_tiers p = inl (top :: rest) /\
    run_dominating p s =
      inl ([mkState 0 [cands p] [[]] [[]] [] [];
            mkState 1 rest [top] [[]] [] []], s).
Proof. exact (c06_dominating_proof cand ceqb ceqb_spec). Qed.

(* CondoBorda: every successful run elects exactly m candidates (1 <= m <= n) from the tiers ts:
   either whole tiers in order (no tie-break, no draw), or the whole tiers pre, then the first k
   members of an order l of the straddling tier g; l is recorded as the tie-break, and in l no
   candidate comes before one with a strictly higher Borda score of p (random only among equals) *)
Theorem c06_condoborda : forall (m : Z) (p : profile) (s s' : mstate) (sts : list (estate cand)),
  untied_profile p -> run_condo m p s = inl (sts, s') ->
  exists ts d0 s1,
    dominating_tiers p = inl ts /\ borda_scores cand ceqb p = inl d0 /\
    sts = [state_of_scores cand 0 [[]] [[]] [] d0; s1] /\
    rnd s1 = 1%Z /\ eliminated s1 = [[]] /\
    (1 <= m <= Z.of_nat (length (cands p)))%Z /\
    Z.of_nat (length (flat (elected s1))) = m /\
    Permutation (flat (elected s1) ++ flat (remaining s1)) (cands p) /\
    ((tiebreaks s1 = [] /\ s' = s /\ elected s1 ++ remaining s1 = ts)
     \/
     (exists pre g post l k,
        ts = pre ++ g :: post /\ (0 < k < length g)%nat /\ Z.of_nat (k + length (flat pre)) = m /\
        Permutation l g /\
        elected s1 = pre ++ singletons (firstn k l) /\
        remaining s1 = singletons (skipn k l) ++ post /\
        tiebreaks s1 = [(g, singletons l)] /\
        (forall x a y b z qa qb, l = x ++ a :: y ++ b :: z ->
           In (a, qa) d0 -> In (b, qb) d0 -> qb <= qa))).
Proof. exact (c06_condoborda_proof cand ceqb ceqb_spec). Qed.

End C06.

Print Assumptions c06_before_spec.
Print Assumptions c06_fill_total.
Print Assumptions c06_fill_cands.
Print Assumptions c06_margin.
Print Assumptions c06_dict_entries.
Print Assumptions c06_dict_cases.
Print Assumptions c06_edge_iff.
Print Assumptions c06_has_path_iff.
Print Assumptions c06_beat_size_lt.
Print Assumptions c06_beat_size_eq.
Print Assumptions c06_tiers_top_exists.
Print Assumptions c06_tiers_partition.
Print Assumptions c06_tiers_dominate.
Print Assumptions c06_tiers_minimal.
Print Assumptions c06_smith.
Print Assumptions c06_condorcet_iff.
Print Assumptions c06_dominating_sets_elects_top.
Print Assumptions c06_condoborda.

(* ------------------------------------------------------------------ *)
(* Non-vacuity: concrete profiles in the domain, with a 3-cycle, a zero-vote candidate, a partial
   ballot, a pairwise tie, and a Condorcet winner. *)
Open Scope positive_scope.

Definition B (l : list positive) (w : Q) : Core.ballot positive :=
  plain_ballot positive (Core.singletons positive l) w.

Ltac solve_nodup :=
  repeat (constructor; [cbn; intuition discriminate|]); constructor.
Ltac solve_untied_ballot :=
  split; [discriminate|]; split; [repeat constructor|]; split; [solve_nodup|];
  split; [intros x Hx; cbn in Hx |- *; intuition|]; split; [intros x []|reflexivity].
Ltac solve_untied :=
  split; [solve_nodup|]; split; [discriminate|]; repeat (constructor; [solve_untied_ballot|]); constructor.

(* a 3-cycle 1 > 2 > 3 > 1, candidate 4 with no votes, and the partial ballot (1) of weight 1/2 *)
Definition ex_cycle : Core.profile positive :=
  mkProfile [B [1;2;3] 1; B [2;3;1] 1; B [3;1;2] 1; B [1] (1#2)] [1;2;3;4].

Example ex_cycle_untied : untied_profile positive ex_cycle.
Proof. solve_untied. Qed.

Example ex_cycle_values :
  pref_weight positive Pos.eqb (ballots ex_cycle) 1 2 == 5#2 /\
  pref_weight positive Pos.eqb (ballots ex_cycle) 2 1 == 1 /\
  pref_weight positive Pos.eqb (ballots ex_cycle) 2 3 == 9#4 /\     (* the partial ballot: 1/4 each way *)
  pref_weight positive Pos.eqb (ballots ex_cycle) 3 4 == 13#4 /\
  pref_weight positive Pos.eqb (ballots ex_cycle) 4 3 == 1#4 /\
  dominating_tiers positive Pos.eqb ex_cycle = inl [[1;3;2]; [4]] /\
  has_condorcet_winner positive Pos.eqb ex_cycle = inl false.
Proof. vm_compute. repeat split. Qed.

Example ex_cycle_dominating :
  run_dominating positive Pos.eqb ex_cycle (mkM [] []) =
  inl ([mkState 0 [[1;2;3;4]] [[]] [[]] [] []; mkState 1 [[4]] [[1;3;2]] [[]] [] []], mkM [] []).
Proof. vm_compute. reflexivity. Qed.

(* CondoBorda with m = 2 on the cycle: the top tier straddles; Borda scores 11, 10, 10 put 1 first
   and need one recorded draw between 2 and 3 *)
Example ex_cycle_condo :
  exists s0 s1 st', run_condo positive Pos.eqb 2 ex_cycle (mkM [DPerm [3;2]] []) = inl ([s0; s1], st') /\
    elected s1 = [[1]; [3]] /\ remaining s1 = [[2]; [4]] /\
    tiebreaks s1 = [([1;3;2], [[1]; [3]; [2]])].
Proof. vm_compute. do 3 eexists. repeat split. Qed.

(* whole tiers, no draw: m = 3 *)
Example ex_cycle_condo3 :
  exists s0 s1, run_condo positive Pos.eqb 3 ex_cycle (mkM [] []) = inl ([s0; s1], mkM [] []) /\
    elected s1 = [[1;3;2]] /\ remaining s1 = [[4]] /\ tiebreaks s1 = [].
Proof. vm_compute. do 2 eexists. repeat split. Qed.

(* a pairwise tie between 1 and 2: both directions recorded with value 0, both in the top tier *)
Definition ex_tie : Core.profile positive :=
  mkProfile [B [1;2] 1; B [2;1] 1; B [3] (1#3)] [1;2;3].

Example ex_tie_untied : untied_profile positive ex_tie.
Proof. solve_untied. Qed.

Example ex_tie_values :
  margin positive Pos.eqb (ballots ex_tie) 1 2 == 0 /\
  margin positive Pos.eqb (ballots ex_tie) 1 3 == 5#3 /\
  (exists fp, Pairwise.ballot_fill positive Pos.eqb ex_tie = inl fp /\
     In (1, 2, 0%Q) (Pairwise.pairwise_entries positive Pos.eqb (ballots fp) (cands fp)) /\
     In (2, 1, 0%Q) (Pairwise.pairwise_entries positive Pos.eqb (ballots fp) (cands fp))) /\
  dominating_tiers positive Pos.eqb ex_tie = inl [[2;1]; [3]].
Proof.
  split; [vm_compute; reflexivity|]. split; [vm_compute; reflexivity|]. split.
  - eexists. split; [vm_compute; reflexivity|]. split; vm_compute; intuition.
  - vm_compute. reflexivity.
Qed.

(* a Condorcet winner (1), with a nested chain below *)
Definition ex_cw : Core.profile positive :=
  mkProfile [B [1;2;3] 2; B [2;3;1] 1; B [3;1;2] 1; B [4;1] (1#2)] [1;2;3;4].

Example ex_cw_untied : untied_profile positive ex_cw.
Proof. solve_untied. Qed.

Example ex_cw_values :
  has_condorcet_winner positive Pos.eqb ex_cw = inl true /\
  dominating_tiers positive Pos.eqb ex_cw = inl [[1]; [2]; [3]; [4]] /\
  condorcet_winner positive Pos.eqb (ballots ex_cw) (cands ex_cw) 1.
Proof.
  split; [vm_compute; reflexivity|]. split; [vm_compute; reflexivity|].
  split; [cbn; intuition|]. intros d Hd Hne. cbn in Hd.
  destruct Hd as [<-|[<-|[<-|[<-|[]]]]]; [congruence| | |]; vm_compute; reflexivity.
Qed.
