(* Properties/C02.v — each STV / IRV / SequentialRCV round is a legal step of the documented count.
   Statements only; proofs are in Proofs/STV_*.v.
   Vocabulary (Spec/STVSpec.v, Spec/EditSpec.v):
     wf_stv_ballot cs b   untied ranked ballot over cs: non-empty ranking of single candidates, nobody
                          twice, known candidates, weight > 0, no scores
     wf_stv0 p            NoDup (cands p) and every ballot is wf_stv_ballot (p may have no ballots or
                          no candidates left);  wf_stv_profile p  adds: some candidate, some ballot
     tally c bs           summed weight of the ballots of bs whose first position is {c}
     state_of p st        escores st = first_place_votes p  and  remaining st = those scores ranked
     step_ctx p0 p prev   wf_stv0 p0, cands p ⊆ cands p0, wf_stv0 p, state_of p prev
     script_ok s          every replayed ballot sample lists single candidates per position (only
                          needed for the random transfer)
     reaches t p c / max_tally p c / min_tally p c / tied_with p c g / sorted_by_tally q l
     elect_case / default_case / elim_case   the three legal rounds, spelled out in Spec/STVSpec.v
     keep_share k W t bs b   (tally h - t)/tally h if the first candidate h of b is in W and
                             k = TFractional, else 1
     moved_to W f r' bs   Σ { wt b * f b | b in bs, strip W (rk b) ~ r' }
     wtof_rk r' bs        weight carried by ranking r' in bs  *)
From VK Require Import Base Core STV EditSpec STVSpec.
From VK.Proofs Require Import STV_threshold STV_cases STV_final.
From Coq Require Import Permutation Qround.

Section C02.
Variable cand : Type.
Variable ceqb : cand -> cand -> bool.
Hypothesis ceqb_spec : forall a b, reflect (a = b) (ceqb a b).

Notation profile := (profile cand).
Notation estate := (estate cand).
Notation mstate := (mstate cand).
Notation ranking := (ranking cand).
Notation flat := (flat cand).
Notation total_wt := (total_wt cand).
Notation tally := (tally cand ceqb).
Notation wtof_rk := (wtof_rk cand ceqb).
Notation wt_where := (wt_where cand).
Notation maps_to := (maps_to cand ceqb).
Notation wf_stv0 := (wf_stv0 cand).
Notation state_of := (state_of cand ceqb).
Notation step_ctx := (step_ctx cand ceqb).
Notation script_ok := (script_ok cand).
Notation reaches := (reaches cand ceqb).
Notation stv_init := (stv_init cand).
Notation stv_step := (stv_step cand ceqb).
Notation stv_loop := (stv_loop cand ceqb).
Notation run_stv := (run_stv cand ceqb).
Notation count_elected := (count_elected cand).

(* ---------- the threshold ---------- *)

(* stv_init succeeds only for 1 <= m <= |candidates| and returns the integer Droop quota
   floor(N/(m+1))+1 (so (m+1)*t > N) or Hare quota floor(N/m) (so m*t <= N) of the initial
   total weight N *)
Theorem c02_threshold : forall cfg (p : profile) t,
  stv_init cfg p = inl t -> 0 <= total_wt (ballots p) ->
  let N := total_wt (ballots p) in
  let m := s_m cfg in
  (1 <= m <= Z.of_nat (length (cands p)))%Z /\
  match s_quota cfg with
  | QDroop => t = inject_Z (Qfloor (N / inject_Z (m + 1)) + 1) /\ N < inject_Z (m + 1) * t /\ 1 <= t
  | QHare => t = inject_Z (Qfloor (N / inject_Z m)) /\ inject_Z m * t <= N /\ 0 <= t
  | QBad => False
  end.
Proof. exact (threshold_value cand). Qed.

(* it is computed once, from the initial profile, and the loop hands the same value to every round *)
Theorem c02_threshold_fixed_run : forall cfg (p : profile) s,
  run_stv cfg p s =
  match stv_init cfg p with
  | inr e => inr e
  | inl t =>
      match initial_state cand ceqb p with
      | inr e => inr e
      | inl s0 => stv_loop (length (cands p) + 2) cfg t p p [s0] s
      end
  end.
Proof. exact (run_stv_unfold cand ceqb). Qed.

Theorem c02_threshold_fixed_loop : forall fuel cfg t (p0 p : profile) (sts : list estate) s,
  stv_loop fuel cfg t p0 p sts s =
  if Z.eqb (count_elected sts) (s_m cfg) then inl (rev sts, s)
  else match fuel with
       | O => inr EFuel
       | S fuel' =>
           match sts with
           | [] => inr EOther
           | prev :: _ =>
               match stv_step cfg t p0 (count_elected sts) p prev s with
               | inl ((np, st), s') => stv_loop fuel' cfg t p0 np (st :: sts) s'
               | inr e => inr e
               end
           end
       end.
Proof. exact (stv_loop_unfold cand ceqb). Qed.

(* ---------- round legality ---------- *)

(* every successful round from a valid profile with its state is an election (E), a default
   election (D) or an elimination (X) — mutually exclusive by their first clauses — and the state it
   reports is the state of the resulting profile *)
Theorem c02_step_cases : forall cfg t (p0 p : profile) prev,
  step_ctx p0 p prev ->
  forall n (s s' : mstate) np st,
  (s_transfer cfg = TRandom -> script_ok s) ->
  stv_step cfg t p0 n p prev s = inl ((np, st), s') ->
  wf_stv0 np /\ state_of np st /\
  (elect_case cand ceqb cfg t p prev st np \/
   default_case cand ceqb cfg t n p prev st np \/
   elim_case cand ceqb cfg t n p0 p st np).
Proof. exact (step_cases cand ceqb ceqb_spec). Qed.

(* one-by-one mode: two or more candidates share the top tally at or above the threshold and no
   tie-break was requested: ValueError *)
Theorem c02_single_tie_raises : forall cfg t (p0 p : profile) prev,
  step_ctx p0 p prev ->
  forall n (s : mstate) g rest,
  (exists c, reaches t p c) -> s_simul cfg = false -> s_tiebreak cfg = None ->
  remaining prev = g :: rest -> (2 <= length g)%nat ->
  stv_step cfg t p0 n p prev s = inr EValue.
Proof. exact (single_tie_error cand ceqb ceqb_spec). Qed.

(* ---------- the transfer law of a round ---------- *)

(* election round, fractional or full-weight transfer: every continuing ranking r' receives the
   ballots that map to it when the winners W are struck out, winner-led ballots at
   weight*(tally-t)/tally (at full weight for SequentialRCV), the others at full weight *)
Theorem c02_round_weights : forall cfg t (p0 p : profile) prev n (s s' : mstate) np st,
  step_ctx p0 p prev ->
  stv_step cfg t p0 n p prev s = inl ((np, st), s') ->
  forall r' : ranking, s_transfer cfg <> TRandom -> (exists c, reaches t p c) ->
  nonempty r' = true ->
  wtof_rk r' (ballots np) ==
  moved_to cand ceqb (flat (elected st))
           (keep_share cand ceqb (s_transfer cfg) (flat (elected st)) t (ballots p)) r' (ballots p).
Proof. exact (round_weights_elect cand ceqb ceqb_spec). Qed.

(* elimination round: the ballots move on at full weight *)
Theorem c02_round_weights_elim : forall cfg t (p0 p : profile) prev n (s s' : mstate) np st,
  step_ctx p0 p prev ->
  stv_step cfg t p0 n p prev s = inl ((np, st), s') ->
  (s_transfer cfg = TRandom -> script_ok s) ->
  (forall c, In c (cands p) -> tally c (ballots p) < t) ->
  Z.of_nat (length (cands p)) <> (s_m cfg - n)%Z ->
  exists x, eliminated st = [[x]] /\
    forall r' : ranking, nonempty r' = true ->
      wtof_rk r' (ballots np) == wt_where (maps_to [x] r') (ballots p).
Proof. exact (round_weights_elim cand ceqb ceqb_spec). Qed.

End C02.

Print Assumptions c02_threshold.
Print Assumptions c02_threshold_fixed_run.
Print Assumptions c02_threshold_fixed_loop.
Print Assumptions c02_step_cases.
Print Assumptions c02_single_tie_raises.
Print Assumptions c02_round_weights.
Print Assumptions c02_round_weights_elim.

(* ---------- non-vacuity ---------- *)
Open Scope positive_scope.

Definition bal (r : list positive) (w : Q) : ballot positive :=
  mkBallot (map (fun c => [c]) r) w [] None None.

(* A>B x5, B x3, C>B x2, D x1 ; two seats ; Droop quota floor(11/3)+1 = 4 *)
Definition ex_p : profile positive :=
  mkProfile [bal [1; 2] 5%Q; bal [2] 3%Q; bal [3; 2] 2%Q; bal [4] 1%Q] [1; 2; 3; 4].
Definition ex_cfg : stv_cfg := mkStv 2%Z QDroop true TFractional None.
Definition ex_s : mstate positive := mkM [] [].

Example ex_valid : wf_stv_profile positive ex_p.
Proof. apply (wf_stv_profile_b_ok positive Pos.eqb Pos.eqb_spec). vm_compute. reflexivity. Qed.

Example ex_threshold : stv_init positive ex_cfg ex_p = inl 4%Q.
Proof. vm_compute. reflexivity. Qed.

Definition ex_s0 : estate positive :=
  match initial_state positive Pos.eqb ex_p with inl s0 => s0 | inr _ => mkState 0%Z [] [] [] [] [] end.

Example ex_ctx : step_ctx positive Pos.eqb ex_p ex_p ex_s0.
Proof.
  constructor; try apply ex_valid; [apply incl_refl|].
  split; vm_compute; reflexivity.
Qed.

(* the first round is an election: candidate 1 (tally 5 >= 4); its ballot 1>2 moves to 2 at 5*(1/5) *)
Example ex_round1 :
  match stv_step positive Pos.eqb ex_cfg 4%Q ex_p 0%Z ex_p ex_s0 ex_s with
  | inl ((np, st), _) =>
      elected st = [[1]] /\ eliminated st = [[]] /\ cands np = [2; 3; 4] /\
      wtof_rk positive Pos.eqb [[2]] (ballots np) == 4%Q
  | inr _ => False
  end.
Proof. vm_compute. repeat split; discriminate. Qed.

Example ex_reaches : exists c, reaches positive Pos.eqb 4%Q ex_p c.
Proof. exists 1. split; [left; reflexivity|]. vm_compute. discriminate. Qed.
