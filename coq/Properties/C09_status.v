(* Properties/C09_status.v — property C09, three gaps closed (the rest: Properties/C09.v,
   Properties/C09_replay.v).

   S. Status queries, unconditionally for successful runs.  c09_status_partition (Properties/C09.v)
      assumes the partition invariant [settled_once] on the records.  Here it is DERIVED, for any
      list of records whose get_elected / get_remaining / get_eliminated partition a duplicate-free
      candidate list at every round ([partitions], Spec/RunSpec.v) — which the run-level theorems
      of C01 establish for the successful runs of every rule on its domain — so that get_status_df
      agrees with the per-round records at every index, and "an elected candidate is never later
      remaining or eliminated (and vice versa)" is a theorem about runs.
   G. Election.get_step (Model/Election2.v) = get_profile followed by Python indexing of the
      recorded states: same success, same errors, same profile and random-source state as
      get_profile, the state returned is the record of the round addressed, negative indices,
      IndexError out of range, purity.  In the functional model get_step receives the immutable
      triple (rule, profile, records) and returns NO state list: the records cannot be modified by
      a query; the only state threaded is the random source, treated as for get_profile.
   R. get_profile consistency (exactly the remaining candidates; re-scoring reproduces the recorded
      tallies) for DominatingSets and CondoBorda; for TopTwo and the Plurality stage of Alaska with
      "no tiebreak" required only on the rounds up to the one asked for; the refutation of that
      weakening for the STV rounds of Alaska (Alaska.get_profile re-runs the whole STV stage, so a
      tie in a LATER round makes the query consume draws / fail); and STV with any transfer rule,
      the random one included, on rounds before any draw.

   Vocabulary: Spec/StatusSpec.v ([status_agrees], [statuses_exclusive], [all_settled],
   [round0_blank], [consistent_statuses], [rule_domain]), Spec/QuietSpec.v ([quiet_round]),
   Spec/QuerySpec.v, Spec/RunSpec.v, Spec/TieSpec.v.
   Proofs: Proofs/C09_status.v, Proofs/C09_replay2.v. *)
From Coq Require Import List ZArith QArith Bool Permutation Lia.
From VK Require Import Base Core STV Pairwise Rules PV Election Election2.
From VK.Spec Require Import ScoreSpec EditSpec STVSpec PairwiseSpec RunSpec QuerySpec TieSpec
  StatusSpec QuietSpec.
From VK.Proofs Require Import C09_status C09_replay2 STV_final.
Import ListNotations.

Section C09_status.
Variable cand : Type.
Variable ceqb : cand -> cand -> bool.
Hypothesis ceqb_spec : forall a b, reflect (a = b) (ceqb a b).

Notation cset := (cset cand).
Notation ranking := (ranking cand).
Notation profile := (profile cand).
Notation estate := (estate cand).
Notation mstate := (mstate cand).
Notation flat := (flat cand).
Notation get_elected := (get_elected cand).
Notation get_eliminated := (get_eliminated cand).
Notation get_remaining := (get_remaining cand).
Notation get_status := (get_status cand ceqb).
Notation get_profile := (get_profile cand ceqb).
Notation get_step := (get_step cand ceqb).
Notation run_rule := (run_rule cand ceqb).
Notation run_wrule := (run_wrule cand ceqb).
Notation run_stv := (run_stv cand ceqb).
Notation run_toptwo := (run_toptwo cand ceqb).
Notation run_alaska := (run_alaska cand ceqb).
Notation stv_step := (stv_step cand ceqb).
Notation partitions := (partitions cand).
Notation settled_once := (settled_once cand).
Notation touched := (touched cand).
Notation rule_domain := (rule_domain cand).
Notation consistent_statuses := (consistent_statuses cand ceqb).
Notation round0_blank := (round0_blank cand).
Notation no_tiebreak := (no_tiebreak cand).
Notation quiet_round := (quiet_round cand).
Notation untied_profile := (untied_profile cand).
Notation first_place_votes := (first_place_votes cand ceqb).
Notation borda_scores := (borda_scores cand ceqb).
Notation dominating_tiers := (dominating_tiers cand ceqb).
Notation score_to_ranking := (score_to_ranking cand).
Notation remove_cand_prof := (remove_cand_prof cand ceqb).

(* ====================== S: status queries ====================== *)

(* S1: the hypothesis of c09_status_partition is a consequence of the partition of the candidates:
   if at every recorded round the three queries list each candidate of a duplicate-free list
   exactly once, then for every candidate c and every r the partition invariant holds along the
   records of rounds 1..r *)
Theorem c09_partition_settled : forall (cs : cset) (sts : list estate),
  NoDup cs -> partitions cs sts ->
  forall c r, settled_once c (firstn r (tl sts)).
Proof. exact (partition_settled cand). Qed.

(* S2: hence, for such records whose round 0 elects and eliminates nobody, everything the status
   queries promise (see Spec/StatusSpec.v; spelled out for runs in S4 and S5 below) *)
Theorem c09_partition_consistent : forall (cs : cset) (sts : list estate),
  NoDup cs -> partitions cs sts -> round0_blank sts -> consistent_statuses cs sts.
Proof. exact (partition_consistent cand ceqb ceqb_spec). Qed.

(* S3: every rule.  A successful run of ANY rule on its domain (rule_domain: the input hypothesis
   of that rule's C01 run-level theorem) leaves records with a blank round 0, the partition
   invariant for every candidate, exclusive statuses, and a status table that agrees with the
   other queries at every index *)
Theorem c09_rule_statuses : forall r (p : profile) (s s' : mstate) sts,
  rule_domain r p s -> run_rule r p s = inl (sts, s') ->
  consistent_statuses (cands p) sts.
Proof. exact (rule_consistent_statuses cand ceqb ceqb_spec). Qed.

(* ... and the wrapper classes IRV, SequentialRCV, SNTV, Rating, Approval, Cumulative, through the
   rule they forward to *)
Theorem c09_wrule_statuses : forall w r (p : profile) (s s' : mstate) sts,
  expand w = Some r -> rule_domain r p s -> run_wrule w p s = inl (sts, s') ->
  consistent_statuses (cands p) sts.
Proof. exact (wrule_consistent_statuses cand ceqb ceqb_spec). Qed.

(* S4, spelled out: an elected candidate is never later remaining or eliminated, an eliminated
   candidate is never later remaining or elected, and no candidate is ever listed twice *)
Theorem c09_rule_exclusive : forall r (p : profile) (s s' : mstate) sts,
  rule_domain r p s -> run_rule r p s = inl (sts, s') ->
  forall (r1 r2 : nat) (e x e' m' x' : ranking), (r1 <= r2)%nat -> (r2 < length sts)%nat ->
    get_elected sts (Z.of_nat r1) = inl e -> get_eliminated sts (Z.of_nat r1) = inl x ->
    get_elected sts (Z.of_nat r2) = inl e' -> get_remaining sts (Z.of_nat r2) = inl m' ->
    get_eliminated sts (Z.of_nat r2) = inl x' ->
    NoDup (flat e' ++ flat m' ++ flat x') /\
    (forall c, In c (flat e) -> In c (flat e') /\ ~ In c (flat m') /\ ~ In c (flat x')) /\
    (forall c, In c (flat x) -> In c (flat x') /\ ~ In c (flat m') /\ ~ In c (flat e')).
Proof.
  intros r p s s' sts Hd H.
  exact (proj1 (proj2 (proj2 (rule_consistent_statuses cand ceqb ceqb_spec r p s s' sts Hd H)))).
Qed.

(* S5, spelled out: at every index i the queries accept (positive or negative), the status table
   has one row per candidate of the profile, in the order elected, remaining, eliminated; a row
   says Elected (2) iff its candidate is in get_elected(i), Eliminated (3) iff it is in
   get_eliminated(i), Remaining (1) iff it is in get_remaining(i); a Remaining row carries the
   round addressed by i and the row of a candidate elected or eliminated by round j carries j *)
Theorem c09_rule_status_table : forall r (p : profile) (s s' : mstate) sts,
  rule_domain r p s -> run_rule r p s = inl (sts, s') ->
  forall (cs' : cset) (i : Z) (e m x : ranking) (t : list (cand * (Z * Z))),
    get_elected sts i = inl e -> get_remaining sts i = inl m ->
    get_eliminated sts i = inl x -> get_status cs' sts i = inl t ->
    map fst t = flat e ++ flat m ++ flat x /\
    Permutation (map fst t) (cands p) /\
    forall c code rd, In (c, (code, rd)) t ->
      (code = 2%Z <-> In c (flat e)) /\
      (code = 3%Z <-> In c (flat x)) /\
      (code = 1%Z <-> In c (flat m)) /\
      (code = 1%Z -> rd = Z.of_nat (round_of (length sts) i)) /\
      (forall j st, (1 <= j <= round_of (length sts) i)%nat -> nth_error sts j = Some st ->
                    touched c st -> rd = Z.of_nat j).
Proof.
  intros r p s s' sts Hd H.
  exact (proj2 (proj2 (proj2 (rule_consistent_statuses cand ceqb ceqb_spec r p s s' sts Hd H)))).
Qed.

(* ====================== G: get_step ====================== *)

(* G1: get_step succeeds exactly when get_profile does and the record exists; it returns the same
   profile and the same state of the random source, and the state it returns is the record of the
   round the index addresses *)
Theorem c09_get_step_ok : forall r (p : profile) (sts : list estate) i (s : mstate) np st s',
  get_step r p sts i s = inl ((np, st), s') <->
  get_profile r p sts i s = inl (np, s') /\
  nth_error sts (round_of (length sts) i) = Some st.
Proof. exact (get_step_ok_iff cand ceqb). Qed.

(* success of one is success of the other (the record always exists when get_profile succeeds) *)
Theorem c09_get_step_succeeds : forall r (p : profile) (sts : list estate) i (s : mstate),
  (exists x s', get_step r p sts i s = inl (x, s')) <->
  (exists np s', get_profile r p sts i s = inl (np, s')).
Proof. exact (get_step_succeeds_iff cand ceqb). Qed.

(* and they fail with the same exception *)
Theorem c09_get_step_error : forall r (p : profile) (sts : list estate) i (s : mstate) e,
  get_step r p sts i s = inr e <-> get_profile r p sts i s = inr e.
Proof. exact (get_step_err_iff cand ceqb). Qed.

(* G2: negative indices address the same rounds as their non-negative equivalents *)
Theorem c09_get_step_negative_index : forall r (p : profile) (sts : list estate) i (s : mstate),
  (0 < i <= Z.of_nat (length sts))%Z ->
  get_step r p sts (- i) s = get_step r p sts (Z.of_nat (length sts) - i) s.
Proof. exact (get_step_negative_index cand ceqb). Qed.

Theorem c09_get_step_canonical_index : forall r (p : profile) (sts : list estate) i (s : mstate),
  in_range (length sts) i ->
  get_step r p sts i s = get_step r p sts (Z.of_nat (round_of (length sts) i)) s.
Proof. exact (get_step_canonical_index cand ceqb). Qed.

(* G3: IndexError out of range (in range, get_step fails exactly as get_profile does: G1) *)
Theorem c09_get_step_out_of_range : forall r (p : profile) (sts : list estate) i (s : mstate),
  (i < - Z.of_nat (length sts) \/ Z.of_nat (length sts) - 1 < i)%Z ->
  get_step r p sts i s = inr EIndex.
Proof. exact (get_step_out_of_range cand ceqb). Qed.

(* G4: purity.  get_step returns no state list (the records are immutable in the model); its
   answer depends on the random source only through the draws it consumes: it is determined by
   the consumed prefix of the script, and if it consumed nothing it left the source untouched and
   gives the same answer from every state, i.e. after any history of queries *)
Theorem c09_get_step_pure : forall r (p : profile) (sts : list estate) i (s : mstate) np st s',
  get_step r p sts i s = inl ((np, st), s') ->
  (exists used calls,
     scr s = used ++ scr s' /\ lg s' = calls ++ lg s /\ length calls = length used /\
     forall (s2 : mstate) rest, scr s2 = used ++ rest ->
       get_step r p sts i s2 = inl ((np, st), mkM rest (calls ++ lg s2))) /\
  (scr s' = scr s ->
     s' = s /\ forall s2 : mstate, get_step r p sts i s2 = inl ((np, st), s2)).
Proof. exact (get_step_pure cand ceqb). Qed.

(* ====================== R: get_profile consistency ====================== *)

(* R1: DominatingSets on an untied profile (the run cannot fail, draws nothing, records no
   tiebreak and no scores): records [s0; s1]; get_profile returns, from every state, p for round 0
   and p without the top tier for round 1; its candidates are exactly the recorded remaining ones
   (round 0: one group holding every candidate; round 1: the lower tiers, when there are any) *)
Theorem c09_dominating_get_profile : forall (p : profile) (s s' : mstate) sts,
  untied_profile p -> run_rule RDominating p s = inl (sts, s') ->
  s' = s /\
  exists s0 s1 top rest np,
    sts = [s0; s1] /\ dominating_tiers p = inl (top :: rest) /\
    remaining s0 = [cands p] /\ elected s1 = [top] /\ remaining s1 = rest /\
    Forall no_tiebreak sts /\
    remove_cand_prof top true false p = inl np /\
    forall i, in_range 2 i ->
      exists pr st, nth_error [p; np] (round_of 2 i) = Some pr /\
        nth_error sts (round_of 2 i) = Some st /\
        (forall sx : mstate, get_profile RDominating p sts i sx = inl (pr, sx)) /\
        escores st = [] /\
        (flat (remaining st) <> [] ->
         Permutation (cands pr) (flat (remaining st)) /\ NoDup (cands pr)).
Proof. exact (dominating_get_profile cand ceqb ceqb_spec). Qed.

(* R2: CondoBorda on an untied profile: records [s0; s1]; for an index addressing round r with no
   tiebreak recorded in rounds 0..r, get_profile returns from every state, untouched, p (round 0)
   or p without the elected candidates (round 1); its Borda scores are the recorded scores and
   its candidates the recorded remaining ones *)
Theorem c09_condoborda_get_profile : forall m (p : profile) (s s' : mstate) sts,
  untied_profile p -> run_rule (RCondoBorda m) p s = inl (sts, s') ->
  exists s0 s1,
    sts = [s0; s1] /\ (tiebreaks s1 = [] -> s' = s) /\
    forall i, in_range 2 i -> Forall no_tiebreak (firstn (S (round_of 2 i)) sts) ->
      exists pr st,
        nth_error sts (round_of 2 i) = Some st /\
        (round_of 2 i = 0%nat -> pr = p) /\
        (round_of 2 i = 1%nat -> remove_cand_prof (flat (elected st)) true false p = inl pr) /\
        (forall sx : mstate, get_profile (RCondoBorda m) p sts i sx = inl (pr, sx)) /\
        borda_scores pr = inl (escores st) /\
        (flat (remaining st) <> [] ->
         Permutation (cands pr) (flat (remaining st)) /\ NoDup (cands pr)).
Proof. exact (condo_get_profile cand ceqb ceqb_spec). Qed.

(* R3: TopTwo, weakened hypothesis: only the rounds up to the one asked for must be free of
   tiebreaks (c09_toptwo_get_profile asks it of all three).  The run itself may have drawn. *)
Theorem c09_toptwo_get_profile_upto : forall tb (p : profile) (s s' : mstate) sts,
  NoDup (cands p) -> run_toptwo tb p s = inl (sts, s') ->
  exists s0 s1 s2 p1,
    sts = [s0; s1; s2] /\
    remove_cand_prof (flat (eliminated s1)) true false p = inl p1 /\
    forall i, in_range 3 i -> Forall no_tiebreak (firstn (S (round_of 3 i)) sts) ->
      exists pr st,
        nth_error sts (round_of 3 i) = Some st /\
        (round_of 3 i = 0%nat -> pr = p) /\ (round_of 3 i = 1%nat -> pr = p1) /\
        (round_of 3 i = 2%nat -> remove_cand_prof (flat (elected st)) true false p1 = inl pr) /\
        (forall sx : mstate, get_profile (RTopTwo tb) p sts i sx = inl (pr, sx)) /\
        first_place_votes pr = inl (escores st) /\
        Permutation (cands pr) (flat (remaining st)).
Proof. exact (toptwo_get_profile_upto cand ceqb ceqb_spec). Qed.

(* R4: Alaska, rounds 0 and 1 (the Plurality stage), ANY transfer rule: only the stage must be
   free of tiebreaks *)
Theorem c09_alaska_get_profile_stage : forall m1 m2 cfg (p : profile) (s s' : mstate) sts,
  NoDup (cands p) -> run_alaska m1 m2 cfg p s = inl (sts, s') ->
  exists s0 s1 rest p1,
    sts = s0 :: s1 :: rest /\
    remove_cand_prof (flat (eliminated s1)) true false p = inl p1 /\
    forall i, in_range (length sts) i -> (round_of (length sts) i <= 1)%nat ->
      Forall no_tiebreak (firstn (S (round_of (length sts) i)) sts) ->
      exists pr st,
        nth_error [p; p1] (round_of (length sts) i) = Some pr /\
        nth_error sts (round_of (length sts) i) = Some st /\
        (forall sx : mstate, get_profile (RAlaska m1 m2 cfg) p sts i sx = inl (pr, sx)) /\
        first_place_votes pr = inl (escores st) /\
        Permutation (cands pr) (flat (remaining st)).
Proof. exact (alaska_get_profile_stage cand ceqb ceqb_spec). Qed.

(* (for the rounds >= 2 of Alaska the weakening FAILS: c09_alaska_get_profile_upto_refuted below;
   c09_alaska_get_profile, which asks "no tiebreak" of all rounds, is the right statement) *)

(* R5: STV, any transfer rule.  A round of STV whose record is quiet (no tiebreak; with the random
   transfer, nobody elected) consumed no draw ... *)
Theorem c09_stv_quiet_step : forall cfg t p0 n (p : profile) prev (s s' : mstate) np st,
  stv_step cfg t p0 n p prev s = inl ((np, st), s') -> quiet_round cfg st -> s' = s.
Proof. exact (stv_step_quiet_gen cand ceqb). Qed.

(* ... hence for EVERY configuration (random transfer included) and every input on which the run
   succeeded: if rounds 0..r are quiet, get_profile for r returns, from every state of the random
   source and leaving it untouched, a profile with exactly the candidates remaining after round r
   whose first-place tallies are the recorded scores *)
Theorem c09_stv_get_profile_quiet : forall cfg (p : profile) (s s' : mstate) sts,
  run_stv cfg p s = inl (sts, s') ->
  forall i, in_range (length sts) i ->
  Forall (quiet_round cfg) (firstn (S (round_of (length sts) i)) sts) ->
  exists pr st,
    nth_error sts (round_of (length sts) i) = Some st /\
    (forall s2 : mstate, get_profile (RSTV cfg) p sts i s2 = inl (pr, s2)) /\
    Permutation (cands pr) (flat (remaining st)) /\
    first_place_votes pr = inl (escores st) /\
    score_to_ranking (escores st) true = remaining st.
Proof. exact (stv_get_profile_quiet cand ceqb). Qed.

(* the same through get_step: the profile and the record it returns belong together *)
Theorem c09_stv_get_step_quiet : forall cfg (p : profile) (s s' : mstate) sts,
  run_stv cfg p s = inl (sts, s') ->
  forall i, in_range (length sts) i ->
  Forall (quiet_round cfg) (firstn (S (round_of (length sts) i)) sts) ->
  exists pr st,
    (forall s2 : mstate, get_step (RSTV cfg) p sts i s2 = inl ((pr, st), s2)) /\
    nth_error sts (round_of (length sts) i) = Some st /\
    Permutation (cands pr) (flat (remaining st)) /\
    first_place_votes pr = inl (escores st).
Proof. exact (stv_get_step_quiet cand ceqb). Qed.

End C09_status.

Print Assumptions c09_partition_settled.
Print Assumptions c09_partition_consistent.
Print Assumptions c09_rule_statuses.
Print Assumptions c09_wrule_statuses.
Print Assumptions c09_rule_exclusive.
Print Assumptions c09_rule_status_table.
Print Assumptions c09_get_step_ok.
Print Assumptions c09_get_step_succeeds.
Print Assumptions c09_get_step_error.
Print Assumptions c09_get_step_negative_index.
Print Assumptions c09_get_step_canonical_index.
Print Assumptions c09_get_step_out_of_range.
Print Assumptions c09_get_step_pure.
Print Assumptions c09_dominating_get_profile.
Print Assumptions c09_condoborda_get_profile.
Print Assumptions c09_toptwo_get_profile_upto.
Print Assumptions c09_alaska_get_profile_stage.
Print Assumptions c09_stv_quiet_step.
Print Assumptions c09_stv_get_profile_quiet.
Print Assumptions c09_stv_get_step_quiet.

(* ------------------------------------------------------------------ *)
(* Non-vacuity, and the refuted weakening (cand := positive). *)
Module C09StatusExamples.
Open Scope positive_scope.

Definition lb (l : list positive) (w : Q) : ballot positive :=
  plain_ballot positive (Core.singletons positive l) w.
Definition st0 : Core.mstate positive := mkM [] [].
Definition states_of (x : res (list (estate positive) * Core.mstate positive))
  : list (estate positive) := match x with inl (sts, _) => sts | inr _ => [] end.
Ltac ex_nodup := repeat (constructor; [cbn; intuition discriminate|]); constructor.

(* ---- S: STV, A>C x6, B x4, C x1, D>C x2, three seats (the example of Properties/C09_replay.v):
   round 1 elects A and B, round 2 eliminates D, round 3 elects C ---- *)
Definition ex_p : Core.profile positive :=
  mkProfile [lb [1; 3] 6; lb [2] 4; lb [3] 1; lb [4; 3] 2] [1; 2; 3; 4].
Definition ex_cfg : stv_cfg := mkStv 3%Z QDroop true TFractional None.
Definition ex_sts := Eval vm_compute in states_of (run_stv positive Pos.eqb ex_cfg ex_p st0).

Example ex_domain :
  rule_domain positive (RSTV ex_cfg) ex_p st0 /\
  run_rule positive Pos.eqb (RSTV ex_cfg) ex_p st0 = inl (ex_sts, st0) /\ length ex_sts = 4%nat.
Proof.
  split.
  - split; [|discriminate].
    apply (proj1 (wf_stv_profile_b_ok positive Pos.eqb Pos.eqb_spec ex_p ltac:(vm_compute; reflexivity))).
  - split; [vm_compute; reflexivity|reflexivity].
Qed.

(* the status tables the theorem talks about, at index 2 and at index -1 (= 3) *)
Example ex_tables :
  get_status positive Pos.eqb [] ex_sts 2
    = inl [(1, (2, 1)%Z); (2, (2, 1)%Z); (3, (1, 2)%Z); (4, (3, 2)%Z)] /\
  get_status positive Pos.eqb [] ex_sts (-1)
    = inl [(1, (2, 1)%Z); (2, (2, 1)%Z); (3, (2, 3)%Z); (4, (3, 2)%Z)] /\
  get_elected positive ex_sts 2 = inl [[1]; [2]] /\ get_remaining positive ex_sts 2 = inl [[3]] /\
  get_eliminated positive ex_sts 2 = inl [[4]].
Proof. repeat split. Qed.

(* the general theorem applied: exclusivity between rounds 1 and 3 *)
Example ex_apply_exclusive :
  forall c, In c [1; 2] ->
    In c (flat positive [[1]; [2]; [3]]) /\ ~ In c (@nil positive) /\ ~ In c [4].
Proof.
  destruct ex_domain as [Hd [Hrun _]].
  assert (Hle : (1 <= 3)%nat) by lia. assert (Hlt : (3 < length ex_sts)%nat) by (cbn; lia).
  exact (proj1 (proj2 (c09_rule_exclusive positive Pos.eqb Pos.eqb_spec (RSTV ex_cfg) ex_p st0 st0 ex_sts
              Hd Hrun 1 3 [[1]; [2]] [] [[1]; [2]; [3]] [[]] [[4]] Hle Hlt
              eq_refl eq_refl eq_refl eq_refl eq_refl))).
Qed.

(* ---- G: get_step on the same election ---- *)
Example ex_get_step :
  (exists pr, get_step positive Pos.eqb (RSTV ex_cfg) ex_p ex_sts (-2) st0
              = inl ((pr, nth 2 ex_sts (mkState 0 [] [] [] [] [])), st0) /\ cands pr = [3]) /\
  get_step positive Pos.eqb (RSTV ex_cfg) ex_p ex_sts (-2) st0
    = get_step positive Pos.eqb (RSTV ex_cfg) ex_p ex_sts 2 st0 /\
  get_step positive Pos.eqb (RSTV ex_cfg) ex_p ex_sts 4 st0 = inr EIndex /\
  get_step positive Pos.eqb (RSTV ex_cfg) ex_p ex_sts (-5) st0 = inr EIndex /\
  get_step positive Pos.eqb (RSTV ex_cfg) ex_p [] 0 st0 = inr EIndex.
Proof.
  split; [eexists; split; [vm_compute; reflexivity|reflexivity]|].
  split; [vm_compute; reflexivity|]. repeat split.
Qed.

(* ---- R1, R2: a 3-cycle 1 > 2 > 3 > 1 above candidate 4 (Properties/C01_rules.v) ---- *)
Definition ex_cyc : Core.profile positive :=
  mkProfile [lb [1;2;3] 1; lb [2;3;1] 1; lb [3;1;2] 1; lb [1] (1#2)] [1;2;3;4].

Ltac ex_incl := let x := fresh "x" in let Hx := fresh "Hx" in intros x Hx; cbn in Hx |- *; intuition.
Ltac ex_untied_ballot :=
  split; [discriminate|]; split; [repeat constructor|]; split; [ex_nodup|];
  split; [ex_incl|]; split; [intros x []|reflexivity].

Example ex_cyc_untied : untied_profile positive ex_cyc.
Proof.
  split; [ex_nodup|]. split; [discriminate|]. repeat (constructor; [ex_untied_ballot|]). constructor.
Qed.

Definition dom_sts := Eval vm_compute in states_of (run_rule positive Pos.eqb RDominating ex_cyc st0).
Definition condo_sts :=
  Eval vm_compute in states_of (run_rule positive Pos.eqb (RCondoBorda 3) ex_cyc st0).

Example ex_dominating :
  run_rule positive Pos.eqb RDominating ex_cyc st0 = inl (dom_sts, st0) /\
  map (fun st => (elected st, remaining st)) dom_sts = [([[]], [[1;2;3;4]]); ([[1;3;2]], [[4]])] /\
  exists np, get_profile positive Pos.eqb RDominating ex_cyc dom_sts (-1) st0 = inl (np, st0) /\
             cands np = [4].
Proof.
  split; [vm_compute; reflexivity|]. split; [reflexivity|].
  eexists. split; [vm_compute; reflexivity|reflexivity].
Qed.

Example ex_condoborda :
  run_rule positive Pos.eqb (RCondoBorda 3) ex_cyc st0 = inl (condo_sts, st0) /\
  Forall (no_tiebreak positive) condo_sts /\
  map (fun st => flat positive (remaining st)) condo_sts = [[1;2;3;4]; [4]] /\
  exists np, get_profile positive Pos.eqb (RCondoBorda 3) ex_cyc condo_sts 1 st0 = inl (np, st0) /\
             cands np = [4] /\
             borda_scores positive Pos.eqb np = inl (escores (nth 1 condo_sts (mkState 0 [] [] [] [] []))).
Proof.
  split; [vm_compute; reflexivity|]. split; [repeat constructor|]. split; [reflexivity|].
  eexists. split; [vm_compute; reflexivity|]. split; [reflexivity|vm_compute; reflexivity].
Qed.

(* ---- R3: TopTwo with a tie in the runoff only: first-place votes 2, 2, 1; the run draws in round
   2 (twice: the run and its own get_profile replay), yet get_profile(1) is answered from every
   state without a draw: the hypothesis of c09_toptwo_get_profile_upto holds for index 1 while
   that of c09_toptwo_get_profile (no tiebreak anywhere) does not ---- *)
Definition p_runoff : Core.profile positive :=
  mkProfile [lb [1] 2; lb [2] 2; lb [3] 1] [1;2;3].
Definition tt_script : Core.mstate positive := mkM [DPerm [2;1]; DPerm [2;1]] [].
Definition tt_sts :=
  Eval vm_compute in states_of (run_toptwo positive Pos.eqb (Some TBRandom) p_runoff tt_script).

Example ex_toptwo_upto :
  NoDup (cands p_runoff) /\
  (exists s', run_toptwo positive Pos.eqb (Some TBRandom) p_runoff tt_script = inl (tt_sts, s') /\
              scr s' = []) /\
  length tt_sts = 3%nat /\
  Forall (no_tiebreak positive) (firstn 2 tt_sts) /\ ~ Forall (no_tiebreak positive) tt_sts /\
  exists p1, get_profile positive Pos.eqb (RTopTwo (Some TBRandom)) p_runoff tt_sts 1 st0 = inl (p1, st0) /\
             cands p1 = [1; 2] /\
             first_place_votes positive Pos.eqb p1 = inl (escores (nth 1 tt_sts (mkState 0 [] [] [] [] []))).
Proof.
  split; [ex_nodup|]. split; [eexists; split; [vm_compute; reflexivity|reflexivity]|].
  split; [reflexivity|]. split; [repeat constructor|]. split.
  - intros H. inversion H as [|a l _ H1]; subst. inversion H1 as [|a' l' _ H2]; subst.
    inversion H2 as [|a'' l'' H3 _]; subst. discriminate H3.
  - eexists. split; [vm_compute; reflexivity|]. split; [reflexivity|vm_compute; reflexivity].
Qed.

(* ---- R4 and the refutation for the later rounds of Alaska.  A 5, B 3, C 2, D 2, E>A 1, F 1/2;
   Alaska(m1 = 5, m2 = 1): F is dropped; STV (quota 7) eliminates E (round 2), then C and D tie for
   elimination (round 3: a recorded random tiebreak), ...  Rounds 0..2 record no tiebreak, but
   get_profile(2) rebuilds and re-runs the WHOLE STV stage, which asks the random source for the
   round-3 tie: from a state with an empty script the query fails, and with a script it consumes a
   draw.  So "no tiebreak up to the round asked for" is NOT enough for the STV rounds of Alaska. *)
Definition ak_p : Core.profile positive :=
  mkProfile [lb [1] 5; lb [2] 3; lb [3] 2; lb [4] 2; lb [5;1] 1; lb [6] (1#2)] [1;2;3;4;5;6].
Definition ak_cfg : stv_cfg := mkStv 1 QDroop true TFractional None.
Definition ak_script : Core.mstate positive := mkM [DPerm [3;4]; DPerm [3;4]] [].
Definition ak_sts :=
  Eval vm_compute in states_of (run_alaska positive Pos.eqb 5 1 ak_cfg ak_p ak_script).

Theorem c09_alaska_get_profile_upto_refuted :
  exists m1 m2 cfg (p : Core.profile positive) (s s' : Core.mstate positive) sts (i : Z),
    s_transfer cfg <> TRandom /\ NoDup (cands p) /\
    run_alaska positive Pos.eqb m1 m2 cfg p s = inl (sts, s') /\
    in_range (length sts) i /\
    Forall (no_tiebreak positive) (firstn (S (round_of (length sts) i)) sts) /\
    (* not "from every state": *)
    get_profile positive Pos.eqb (RAlaska m1 m2 cfg) p sts i (mkM [] []) = inr EScript /\
    (* and where it succeeds it consumes a draw *)
    exists pr, get_profile positive Pos.eqb (RAlaska m1 m2 cfg) p sts i (mkM [DPerm [4;3]] [])
               = inl (pr, mkM [] [CSample [3;4]]).
Proof.
  exists 5%Z, 1%Z, ak_cfg, ak_p, ak_script, (mkM [] [CSample [3;4]; CSample [3;4]]), ak_sts, 2%Z.
  split; [discriminate|]. split; [ex_nodup|]. split; [vm_compute; reflexivity|].
  split; [unfold in_range; cbn; lia|]. split; [repeat constructor|].
  split; [vm_compute; reflexivity|]. eexists. vm_compute. reflexivity.
Qed.
Print Assumptions c09_alaska_get_profile_upto_refuted.

(* the stage rounds of the same election ARE answered from every state (c09_alaska_get_profile_stage) *)
Example ex_alaska_stage :
  length ak_sts = 7%nat /\ Forall (no_tiebreak positive) (firstn 2 ak_sts) /\
  ~ Forall (no_tiebreak positive) ak_sts /\
  exists p1, get_profile positive Pos.eqb (RAlaska 5 1 ak_cfg) ak_p ak_sts 1 st0 = inl (p1, st0) /\
             cands p1 = [1; 2; 3; 4; 5].
Proof.
  split; [reflexivity|]. split; [repeat constructor|]. split.
  - intros H. rewrite Forall_forall in H.
    assert (Hin : In (nth 3 ak_sts (mkState 0 [] [] [] [] [])) ak_sts) by (cbn; tauto).
    specialize (H _ Hin). discriminate H.
  - eexists. split; [vm_compute; reflexivity|reflexivity].
Qed.

(* ---- R5: STV with the RANDOM transfer: A x3, B x2, C>A x1, one seat, quota 4.  Round 1
   eliminates C (quiet), round 2 elects A and samples its (empty) surplus: a draw.  Rounds 0 and 1
   are quiet, so get_profile(1) is answered from every state, consuming nothing ---- *)
Definition rt_p : Core.profile positive := mkProfile [lb [1] 3; lb [2] 2; lb [3;1] 1] [1;2;3].
Definition rt_cfg : stv_cfg := mkStv 1 QDroop true TRandom None.
Definition rt_script : Core.mstate positive := mkM [DRanks []] [].
Definition rt_sts := Eval vm_compute in states_of (run_stv positive Pos.eqb rt_cfg rt_p rt_script).

Example ex_random_transfer :
  (exists s', run_stv positive Pos.eqb rt_cfg rt_p rt_script = inl (rt_sts, s') /\ scr s' = []) /\
  run_stv positive Pos.eqb rt_cfg rt_p st0 = inr EScript /\
  length rt_sts = 3%nat /\
  Forall (quiet_round positive rt_cfg) (firstn 2 rt_sts) /\
  ~ quiet_round positive rt_cfg (nth 2 rt_sts (mkState 0 [] [] [] [] [])) /\
  exists pr, get_profile positive Pos.eqb (RSTV rt_cfg) rt_p rt_sts 1 st0 = inl (pr, st0) /\
             cands pr = [1; 2] /\
             first_place_votes positive Pos.eqb pr = inl (escores (nth 1 rt_sts (mkState 0 [] [] [] [] []))).
Proof.
  split; [eexists; split; [vm_compute; reflexivity|reflexivity]|].
  split; [vm_compute; reflexivity|]. split; [reflexivity|]. split.
  - repeat constructor; intros _; reflexivity.
  - split.
    + intros [_ H]. specialize (H eq_refl). discriminate H.
    + eexists. split; [vm_compute; reflexivity|]. split; [reflexivity|vm_compute; reflexivity].
Qed.

End C09StatusExamples.
