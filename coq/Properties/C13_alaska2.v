(* Properties/C13_alaska2.v — C13, second layer.  Statements only; proofs are in
   Proofs/C13_alaska2_lib.v (Alaska) and Proofs/C13_alaska2.v (wrappers).

   A. Alaska on the quiet path ("on all paths where the component elections record no random
      tiebreak"): a winners corollary of c13_alaska (Properties/C13.v).  If no round of an Alaska run
      records a tiebreak, the run is reproduced from EVERY draw script and consumes nothing — the
      get_profile replay at its end included — and its winners are exactly those of STV(m2) run on
      the profile cut to the m1 Plurality winners.  Conversely, quiet component elections (observed
      on any script) make the Alaska run succeed on every script.
   B. Content for the wrapper theorems c13_seqrcv_run / c13_irv_run / c13_sntv_run of
      Properties/C13.v (which are reflexivity): what a run THROUGH THE WRAPPER does.
      SequentialRCV: in every election round the ballots move on at full weight (the transfer is
      [full_transfer] of Properties/C03.v; per ranking class, per candidate tally, in total).
      IRV: one winner, elected in the last round; every earlier round eliminates one candidate.
      SNTV: the top-m theorem of Plurality.

   Vocabulary: TieSpec.no_tiebreak (the record carries no tiebreak), TopMSpec.top_m_facts (the
   conclusion of c04_top_m), RunSpec.elects_exactly / ranked_profile, STVSpec.wf_stv0 (valid-or-empty
   profile of untied ranked ballots), tally, ReplaySpec.stv_trace (profiles ps / records sts / random
   source ss of a run, round by round), EditSpec.wtof_rk / wt_where / maps_to / exhausted,
   STVRunSpec.led_by W b (b's first candidate is in W), SeqRCVSpec.next_is W c b (once W is struck
   out of b its first surviving choice is c), OneShotSpec.top_m_by / fpv_score. *)
From VK Require Import Base Core STV Pairwise Rules PV Election EditSpec.
From VK.Generated Require Import Wiring.
From VK.Spec Require Import ScoreSpec TopMSpec STVSpec ReplaySpec TieSpec STVRunSpec RunSpec OneShotSpec
  SeqRCVSpec.
From VK.Proofs Require Import C13_alaska2_lib C13_alaska2.
From VK.Proofs Require C01_composite STV_final.
From Coq Require Import Permutation Lia.

Section C13_alaska2.
Variable cand : Type.
Variable ceqb : cand -> cand -> bool.
Hypothesis ceqb_spec : forall a b, reflect (a = b) (ceqb a b).

Notation profile := (profile cand).
Notation ranking := (ranking cand).
Notation ballot := (ballot cand).
Notation estate := (estate cand).
Notation mstate := (mstate cand).
Notation flat := (flat cand).
Notation no_tiebreak := (no_tiebreak cand).
Notation top_m_facts := (top_m_facts cand).
Notation elects_exactly := (elects_exactly cand).
Notation ranked_profile := (ranked_profile cand).
Notation straddles_seat := (straddles_seat cand).
Notation wf_profile := (wf_profile cand).
Notation wf_stv0 := (wf_stv0 cand).
Notation step_ctx := (step_ctx cand ceqb).
Notation stv_trace := (stv_trace cand ceqb).
Notation tally := (tally cand ceqb).
Notation total_wt := (total_wt cand).
Notation wtof_rk := (wtof_rk cand ceqb).
Notation wt_where := (wt_where cand).
Notation maps_to := (maps_to cand ceqb).
Notation exhausted := (exhausted cand ceqb).
Notation led_by := (led_by cand ceqb).
Notation next_is := (next_is cand ceqb).
Notation score_free := (score_free cand).
Notation all_pos := (all_pos cand).
Notation fpv_score := (fpv_score cand ceqb).
Notation top_m_by := (top_m_by cand).
Notation first_place_votes := (first_place_votes cand ceqb).
Notation score_to_ranking := (score_to_ranking cand).
Notation remove_cand_prof := (remove_cand_prof cand ceqb).
Notation elect_top_m := (elect_top_m cand ceqb).
Notation round0 := (round0 cand ceqb).
Notation plurality_stage := (plurality_stage cand ceqb).
Notation run_alaska := (run_alaska cand ceqb).
Notation run_stv := (run_stv cand ceqb).
Notation run_wrule := (run_wrule cand ceqb).
Notation stv_init := (stv_init cand).
Notation stv_step := (stv_step cand ceqb).
Notation do_transfer := (do_transfer cand ceqb).
Notation full_transfer := (full_transfer cand ceqb).
Notation get_elected := (get_elected cand).
Notation bump := (bump cand).

(* ====================================================================== *)
(** * A. Alaska when no tiebreak is needed *)

(* From a recorded run.  An Alaska run (from any script s) none of whose rounds records a tiebreak,
   transfer not random:
   - the same states are returned from EVERY script s2, which is left untouched (no draw by either
     stage nor by the get_profile replay);
   - the first-place ranking of p splits at seat m1 without a tiebreak, from every script: el holds
     m1 candidates, every one of them STRICTLY above every candidate of rem;
   - p1 is p with the candidates of rem removed from every ballot; its candidates are those of el;
   - STV for m2 seats on p1 returns the same states ssts from every script, none with a tiebreak;
   - the Alaska states are round 0, the stage, and the STV rounds renumbered;
   - Alaska's winners (get_elected(-1)) ARE the STV's winners; on a valid profile of untied ranked
     ballots there are exactly m2 of them, all different, all among the m1 Plurality winners. *)
Theorem c13_alaska_quiet : forall m1 m2 cfg (p : profile) (s s' : mstate) sts,
  NoDup (cands p) -> s_transfer cfg <> TRandom ->
  run_alaska m1 m2 cfg p s = inl (sts, s') -> Forall no_tiebreak sts ->
  (forall s2, run_alaska m1 m2 cfg p s2 = inl (sts, s2)) /\
  exists s0 s1 p1 d el rem ssts,
    (1 <= m2 <= m1)%Z /\
    first_place_votes p = inl d /\ round0 SKFpv p = inl s0 /\
    (forall s2, elect_top_m (score_to_ranking d true) m1 (Some p) (s_tiebreak cfg) s2
                = inl ((el, rem, None), s2)) /\
    top_m_facts d m1 el rem None /\ el ++ rem = score_to_ranking d true /\
    (forall c1 c2 q1 q2, In c1 (flat el) -> In c2 (flat rem) -> In (c1, q1) d -> In (c2, q2) d ->
       q2 < q1) /\
    (forall s2, plurality_stage m1 (s_tiebreak cfg) p s0 s2 = inl ((p1, s1), s2)) /\
    remaining s1 = el /\ eliminated s1 = rem /\
    remove_cand_prof (flat rem) true false p = inl p1 /\ Permutation (cands p1) (flat el) /\
    (forall s2, run_stv (with_m cfg m2) p1 s2 = inl (ssts, s2)) /\ Forall no_tiebreak ssts /\
    sts = s0 :: s1 :: map bump (tl ssts) /\ length sts = S (length ssts) /\
    get_elected sts (-1) = get_elected ssts (-1) /\
    (wf_stv0 p ->
       elects_exactly sts m2 /\
       forall e c, get_elected sts (-1) = inl e -> In c (flat e) -> In c (flat el)).
Proof. exact (alaska_quiet_proof cand ceqb ceqb_spec). Qed.

(* From the components.  A Plurality(m1) stage that records no tiebreak (observed from some script
   sx) and an STV(m2) run on the reduced profile that records none (observed from some script sy):
   the Alaska election succeeds from EVERY script, leaves it untouched, and returns round 0, the
   stage, and the STV rounds renumbered — the trailing get_profile replay cannot fail. *)
Theorem c13_alaska_quiet_success :
  forall m1 m2 cfg (p : profile) s0 p1 s1 ssts (sx sx' sy sy' : mstate),
  s_transfer cfg <> TRandom -> (1 <= m2 <= m1)%Z ->
  round0 SKFpv p = inl s0 ->
  plurality_stage m1 (s_tiebreak cfg) p s0 sx = inl ((p1, s1), sx') -> no_tiebreak s1 ->
  run_stv (with_m cfg m2) p1 sy = inl (ssts, sy') -> Forall no_tiebreak ssts ->
  forall s2, run_alaska m1 m2 cfg p s2 = inl (s0 :: s1 :: map bump (tl ssts), s2).
Proof. exact (alaska_quiet_success cand ceqb). Qed.

(* The same from the input side, on a valid ranked profile: the first-place ranking splits at seat
   m1 without a tiebreak (observed from some script), and STV(m2) on the profile with the others
   removed records none (observed from some script).  Then Alaska succeeds from every script with
   the states s0 (round 0), s1 (el remaining, rem eliminated, no tiebreak, the first-place votes of
   the cut profile) and the renumbered STV rounds. *)
Theorem c13_alaska_quiet_input :
  forall m1 m2 cfg (p : profile) d el rem p1 ssts (sx sx' sy sy' : mstate),
  ranked_profile p -> s_transfer cfg <> TRandom -> (1 <= m2 <= m1)%Z ->
  first_place_votes p = inl d ->
  elect_top_m (score_to_ranking d true) m1 (Some p) (s_tiebreak cfg) sx = inl ((el, rem, None), sx') ->
  remove_cand_prof (flat rem) true false p = inl p1 ->
  run_stv (with_m cfg m2) p1 sy = inl (ssts, sy') -> Forall no_tiebreak ssts ->
  exists s0 s1,
    round0 SKFpv p = inl s0 /\ escores s0 = d /\
    rnd s1 = 1%Z /\ remaining s1 = el /\ elected s1 = [[]] /\ eliminated s1 = rem /\ tiebreaks s1 = [] /\
    first_place_votes p1 = inl (escores s1) /\
    (forall s2, plurality_stage m1 (s_tiebreak cfg) p s0 s2 = inl ((p1, s1), s2)) /\
    forall s2, run_alaska m1 m2 cfg p s2 = inl (s0 :: s1 :: map bump (tl ssts), s2).
Proof. exact (alaska_quiet_input cand ceqb ceqb_spec). Qed.

(* Entirely on the input side.  On a valid ranked profile with 1 <= m2 <= m1 <= n, if no group of
   the first-place ranking straddles seat m1 (the m1-th and (m1+1)-th first-place tallies are
   separated): the top m1 are selected without a tiebreak whatever the tiebreak rule and the script;
   and for every STV(m2) run on the profile cut to them that records no tiebreak (observed from some
   script), Alaska succeeds from EVERY script with round 0, the stage and the renumbered STV rounds *)
Theorem c13_alaska_quiet_separated : forall m1 m2 cfg (p : profile) d,
  ranked_profile p -> s_transfer cfg <> TRandom ->
  (1 <= m2 <= m1)%Z -> (m1 <= Z.of_nat (length (cands p)))%Z ->
  first_place_votes p = inl d -> ~ straddles_seat (score_to_ranking d true) m1 ->
  exists el rem p1,
    (forall tb (s2 : mstate),
       elect_top_m (score_to_ranking d true) m1 (Some p) tb s2 = inl ((el, rem, None), s2)) /\
    el ++ rem = score_to_ranking d true /\ Z.of_nat (length (flat el)) = m1 /\
    remove_cand_prof (flat rem) true false p = inl p1 /\
    forall ssts (sy sy' : mstate),
      run_stv (with_m cfg m2) p1 sy = inl (ssts, sy') -> Forall no_tiebreak ssts ->
      exists s0 s1,
        round0 SKFpv p = inl s0 /\ escores s0 = d /\
        rnd s1 = 1%Z /\ remaining s1 = el /\ elected s1 = [[]] /\ eliminated s1 = rem /\
        tiebreaks s1 = [] /\ first_place_votes p1 = inl (escores s1) /\
        forall s2, run_alaska m1 m2 cfg p s2 = inl (s0 :: s1 :: map bump (tl ssts), s2).
Proof. exact (alaska_quiet_separated cand ceqb ceqb_spec). Qed.

(* ====================================================================== *)
(** * B1. SequentialRCV through the wrapper: ballots move on at full weight *)

(* the STV that the SequentialRCV wrapper builds (Generated/Wiring.v) transfers a winner's pile with
   [full_transfer] of Properties/C03.v, whatever the tally fpv and the threshold t: it never fails,
   draws nothing, and obeys the C03 laws (each continuing ranking receives the full weight of the
   ballots mapping to it; only the exhausted ballots are lost; the winner is gone) *)
Theorem c13_seqrcv_transfer : forall m q simul tb cfg,
  wire_SequentialRCV m q simul tb = RSTV cfg ->
  s_transfer cfg = TFullWeight /\
  forall w fpv (bs : list ballot) t (s : mstate),
    exists out, do_transfer (s_transfer cfg) w fpv bs t s = inl (out, s) /\
      full_transfer w bs = inl out /\
      (score_free bs -> all_pos bs ->
         (forall r' : ranking, nonempty r' = true ->
            wtof_rk r' out == wt_where (maps_to [w] r') bs) /\
         total_wt bs - total_wt out == wt_where (exhausted [w]) bs) /\
      (forall k, In k out -> ~ In w (flat (rk k))).
Proof. exact (seqrcv_transfer_is_full cand ceqb ceqb_spec). Qed.

(* one election round (a round that elects somebody) of an STV count with the full-weight transfer,
   W = the candidates it elects: they are distinct candidates of p, exactly they disappear; every
   continuing ranking r' receives, at FULL weight, the ballots that become r' when W is struck out;
   the new first-place tally of a remaining candidate c is its old tally plus the full weight of
   the winners' ballots whose next surviving choice is c; the total weight drops exactly by the
   ballots left with no surviving choice *)
Theorem c13_full_weight_round : forall cfg t (p0 p : profile) prev n (s s' : mstate) np st,
  step_ctx p0 p prev -> s_transfer cfg = TFullWeight ->
  stv_step cfg t p0 n p prev s = inl ((np, st), s') ->
  flat (elected st) <> [] ->
  NoDup (flat (elected st)) /\ incl (flat (elected st)) (cands p) /\
  (forall c, In c (cands np) <-> In c (cands p) /\ ~ In c (flat (elected st))) /\
  (forall r' : ranking, nonempty r' = true ->
     wtof_rk r' (ballots np) == wt_where (maps_to (flat (elected st)) r') (ballots p)) /\
  (forall c, In c (cands np) ->
     tally c (ballots np) ==
     tally c (ballots p)
     + wt_where (fun b => led_by (flat (elected st)) b && next_is (flat (elected st)) c b) (ballots p)) /\
  total_wt (ballots p) - total_wt (ballots np) == wt_where (exhausted (flat (elected st))) (ballots p) /\
  0 <= wt_where (exhausted (flat (elected st))) (ballots p).
Proof. exact (full_weight_step cand ceqb ceqb_spec). Qed.

(* a successful SequentialRCV election, run through the wrapper on a valid-or-empty profile of
   untied ranked ballots: it has an STV trace with the full-weight configuration, and EVERY round
   of it that elects somebody obeys the law above, relative to the profile reached so far *)
Theorem c13_seqrcv_full_weight : forall m q simul tb (p : profile) (s s' : mstate) sts,
  wf_stv0 p ->
  run_wrule (WSeqRCV m q simul tb) p s = inl (sts, s') ->
  exists t ps ss,
    stv_init (mkStv m q simul TFullWeight tb) p = inl t /\
    stv_trace (mkStv m q simul TFullWeight tb) t p sts ps ss /\
    nth_error ps 0 = Some p /\ nth_error ss 0 = Some s /\ last ss s = s' /\
    forall r pr pr' st',
      nth_error ps r = Some pr -> nth_error ps (S r) = Some pr' -> nth_error sts (S r) = Some st' ->
      flat (elected st') <> [] ->
      NoDup (flat (elected st')) /\ incl (flat (elected st')) (cands pr) /\
      (forall c, In c (cands pr') <-> In c (cands pr) /\ ~ In c (flat (elected st'))) /\
      (forall r' : ranking, nonempty r' = true ->
         wtof_rk r' (ballots pr') == wt_where (maps_to (flat (elected st')) r') (ballots pr)) /\
      (forall c, In c (cands pr') ->
         tally c (ballots pr') ==
         tally c (ballots pr)
         + wt_where (fun b => led_by (flat (elected st')) b && next_is (flat (elected st')) c b)
                    (ballots pr)) /\
      total_wt (ballots pr) - total_wt (ballots pr')
        == wt_where (exhausted (flat (elected st'))) (ballots pr) /\
      0 <= wt_where (exhausted (flat (elected st'))) (ballots pr).
Proof. exact (seqrcv_full_weight_run cand ceqb ceqb_spec). Qed.

(* ====================================================================== *)
(** * B2. IRV through the wrapper *)

(* a successful IRV election on a valid-or-empty profile of untied ranked ballots, for every quota
   and tiebreak setting and every script: at least two rounds; nobody is elected before the last
   round; every round between the first and the last eliminates exactly one candidate; the last
   round elects exactly one candidate w and eliminates nobody; election.get_elected() is ({w},) *)
Theorem c13_irv_outcome : forall q tb (p : profile) (s s' : mstate) sts,
  wf_stv0 p -> run_wrule (WIRV q tb) p s = inl (sts, s') ->
  (2 <= length sts)%nat /\
  (forall i st, nth_error sts i = Some st -> (S i < length sts)%nat -> elected st = [[]]) /\
  (forall i st, nth_error sts i = Some st -> (1 <= i)%nat -> (S i < length sts)%nat ->
     exists x, eliminated st = [[x]] /\ In x (cands p)) /\
  exists w st, nth_error sts (length sts - 1) = Some st /\
    elected st = [[w]] /\ eliminated st = [[]] /\ In w (cands p) /\
    get_elected sts (-1) = inl [[w]].
Proof. exact (irv_wrapper_outcome cand ceqb ceqb_spec). Qed.

(* ====================================================================== *)
(** * B3. SNTV through the wrapper *)

(* SNTV on a well-formed ranked profile, whenever it returns: the conclusion of c04_plurality_top_m
   (Properties/C04_rules.v) — the winners are the m highest first-place candidates *)
Theorem c13_sntv_top_m : forall m tb (p : profile) (s : mstate) sts s',
  wf_profile p -> run_wrule (WSNTV m tb) p s = inl (sts, s') ->
  exists s0 s1, sts = [s0; s1] /\
    first_place_votes p = inl (escores s0) /\
    map fst (escores s0) = cands p /\
    (forall c q, In (c, q) (escores s0) -> q == fpv_score p c) /\
    rnd s0 = 0%Z /\ elected s0 = [[]] /\ eliminated s0 = [[]] /\ tiebreaks s0 = [] /\
    remaining s0 = score_to_ranking (escores s0) true /\
    rnd s1 = 1%Z /\ eliminated s1 = [[]] /\
    (1 <= m <= Z.of_nat (length (cands p)))%Z /\
    top_m_by (fpv_score p) (cands p) m (remaining s0) (elected s1) (remaining s1) (tiebreaks s1) /\
    (exists np, remove_cand_prof (flat (elected s1)) true false p = inl np /\
                first_place_votes np = inl (escores s1)).
Proof. exact (sntv_wrapper_top_m cand ceqb ceqb_spec). Qed.

(* on ANY profile with distinct candidates, in terms of the first-place score list d: the outcome
   satisfies the conclusion of c04_top_m for d (exactly m elected, none below a remaining one,
   descending order, ties grouped unless the recorded tiebreak split them) *)
Theorem c13_sntv_top_m_facts : forall m tb (p : profile) (s : mstate) sts s',
  NoDup (cands p) -> run_wrule (WSNTV m tb) p s = inl (sts, s') ->
  exists d s0 s1, sts = [s0; s1] /\
    first_place_votes p = inl d /\ map fst d = cands p /\
    escores s0 = d /\ remaining s0 = score_to_ranking d true /\
    (1 <= m <= Z.of_nat (length (cands p)))%Z /\
    exists tbi, tiebreaks s1 = match tbi with Some x => [x] | None => [] end /\
                top_m_facts d m (elected s1) (remaining s1) tbi.
Proof. exact (sntv_wrapper_top_m_facts cand ceqb ceqb_spec). Qed.

End C13_alaska2.

Print Assumptions c13_alaska_quiet.
Print Assumptions c13_alaska_quiet_success.
Print Assumptions c13_alaska_quiet_input.
Print Assumptions c13_alaska_quiet_separated.
Print Assumptions c13_seqrcv_transfer.
Print Assumptions c13_full_weight_round.
Print Assumptions c13_seqrcv_full_weight.
Print Assumptions c13_irv_outcome.
Print Assumptions c13_sntv_top_m.
Print Assumptions c13_sntv_top_m_facts.

(* ====================================================================== *)
(** * Non-vacuity (cand := positive) *)

Module C13Alaska2Examples.
Open Scope positive_scope.

Definition lb (l : list positive) (w : Q) : ballot positive :=
  mkBallot (map (fun c => [c]) l) w [] None None.
Definition st0 : Core.mstate positive := mkM [] [].
Definition states_of (x : res (list (estate positive) * Core.mstate positive))
  : list (estate positive) := match x with inl (sts, _) => sts | inr _ => [] end.
Definition same_scores (d d' : scores positive) : Prop :=
  Forall2 (fun x y => fst x = fst y /\ snd x == snd y) d d'.
Ltac valid p :=
  apply (proj1 (STV_final.wf_stv_profile_b_ok positive Pos.eqb Pos.eqb_spec p ltac:(vm_compute; reflexivity))).

(* ---- Alaska(m1 = 3, m2 = 1), five candidates, rational weights.
   First-place votes 5, 4, 7/2, 2, 1/2: the three highest are 1, 2, 3, strictly above 4 and 5.
   Cut profile (4 and 5 removed): 1 has 11/2, 2 has 6, 3 has 7/2, total 15, Droop quota 8; nobody
   reaches it, 3 is eliminated, its ballots move to 2 (19/2), who is elected.  No tiebreak. ---- *)
Definition ak_p : Core.profile positive :=
  mkProfile [lb [1;2;3] 5; lb [2;3;1] 4; lb [3;2;1] (7#2); lb [4;2] 2; lb [5;1] (1#2)] [1;2;3;4;5].
Definition ak_cfg : stv_cfg := mkStv 7 QDroop true TFractional None.
Definition ak_sts := Eval vm_compute in states_of (run_alaska positive Pos.eqb 3 1 ak_cfg ak_p st0).
Definition ak_p1 : Core.profile positive :=
  mkProfile [lb [1;2;3] 5; lb [2;3;1] 4; lb [3;2;1] (7#2); lb [2] 2; lb [1] (1#2)] [1;2;3].

(* the hypotheses of c13_alaska_quiet hold, and the winner is candidate 2 *)
Example ex_alaska_quiet_hyps :
  NoDup (cands ak_p) /\ wf_stv0 positive ak_p /\ s_transfer ak_cfg <> TRandom /\
  run_alaska positive Pos.eqb 3 1 ak_cfg ak_p st0 = inl (ak_sts, st0) /\
  Forall (no_tiebreak positive) ak_sts /\ length ak_sts = 4%nat /\
  get_elected positive ak_sts (-1) = inl [[2]] /\
  map (fun st => (remaining st, eliminated st)) (firstn 2 ak_sts)
    = [ ([[1];[2];[3];[4];[5]], [[]]);  ([[1];[2];[3]], [[4];[5]]) ].
Proof.
  split; [repeat (constructor; [cbn; intuition discriminate|]); constructor|].
  split; [valid ak_p|]. split; [discriminate|]. split; [vm_compute; reflexivity|].
  split; [repeat constructor|]. repeat split.
Qed.

(* ... so do those of c13_alaska_quiet_input: the top-3 split needs no tiebreak, the STV for one seat
   on the cut profile records none; its winners are Alaska's *)
Example ex_alaska_quiet_input_hyps :
  ranked_profile positive ak_p /\ (1 <= 1 <= 3)%Z /\
  exists d ssts,
    first_place_votes positive Pos.eqb ak_p = inl d /\
    same_scores d [(1, 5%Q); (2, 4%Q); (3, (7#2)%Q); (4, 2%Q); (5, (1#2)%Q)] /\
    elect_top_m positive Pos.eqb (score_to_ranking positive d true) 3 (Some ak_p) (s_tiebreak ak_cfg) st0
      = inl (([[1];[2];[3]], [[4];[5]], None), st0) /\
    remove_cand_prof positive Pos.eqb [4;5] true false ak_p = inl ak_p1 /\
    run_stv positive Pos.eqb (with_m ak_cfg 1) ak_p1 st0 = inl (ssts, st0) /\
    Forall (no_tiebreak positive) ssts /\
    get_elected positive ssts (-1) = inl [[2]] /\
    tl (tl ak_sts) = map (bump positive) (tl ssts).
Proof.
  split; [apply (C01_composite.wf_stv0_ranked positive); valid ak_p|]. split; [split; discriminate|].
  eexists. eexists. split; [vm_compute; reflexivity|].
  split; [repeat constructor; reflexivity|]. split; [vm_compute; reflexivity|].
  split; [vm_compute; reflexivity|]. split; [vm_compute; reflexivity|].
  split; [repeat constructor|]. split; vm_compute; reflexivity.
Qed.

(* ... and of c13_alaska_quiet_separated: no group of the first-place ranking straddles seat 3 *)
Example ex_alaska_separated :
  ~ straddles_seat positive [[1];[2];[3];[4];[5]] 3 /\
  exists d, first_place_votes positive Pos.eqb ak_p = inl d /\
            score_to_ranking positive d true = [[1];[2];[3];[4];[5]].
Proof.
  split.
  - intros [pre [g [post [E [H1 H2]]]]].
    assert (Hg : In g [[1];[2];[3];[4];[5]]) by (rewrite E; apply in_elt).
    assert (Hl : length g = 1%nat) by (cbn in Hg; intuition (subst; reflexivity)).
    lia.
  - eexists. split; vm_compute; reflexivity.
Qed.

(* the theorem applied: from ANY script, consumed or not *)
Example ex_alaska_quiet_apply : forall s2 : Core.mstate positive,
  run_alaska positive Pos.eqb 3 1 ak_cfg ak_p s2 = inl (ak_sts, s2).
Proof.
  destruct ex_alaska_quiet_hyps as [Hnd [_ [Hk [Hrun [Hq _]]]]].
  exact (proj1 (c13_alaska_quiet positive Pos.eqb Pos.eqb_spec 3 1 ak_cfg ak_p st0 st0 ak_sts Hnd Hk Hrun Hq)).
Qed.

(* ---- SequentialRCV(m = 2), Droop quota floor(9/3)+1 = 4.  Tallies 1: 6, 2: 2, 3: 1.
   Round 1 elects 1; its ballots move on at FULL weight: 4 to candidate 2, 3/2 to candidate 3, the
   bullet vote 1/2 is exhausted.  New tallies 2: 2 + 4 = 6, 3: 1 + 3/2 = 5/2; total 9 - 1/2.
   (The fractional transfer would have passed on only a third of each.)  Round 2 elects 2. ---- *)
Definition sq_p : Core.profile positive :=
  mkProfile [lb [1;2] 4; lb [1;3] (3#2); lb [1] (1#2); lb [2;3] 2; lb [3] 1] [1;2;3].
Definition sq_sts := Eval vm_compute in
  states_of (run_wrule positive Pos.eqb (WSeqRCV 2 QDroop true None) sq_p st0).

Example ex_seqrcv_hyps :
  wf_stv0 positive sq_p /\
  run_wrule positive Pos.eqb (WSeqRCV 2 QDroop true None) sq_p st0 = inl (sq_sts, st0) /\
  map (fun st => elected st) sq_sts = [ [[]]; [[1]]; [[2]] ] /\
  Forall2 same_scores (map (fun st => escores st) sq_sts)
    [ [(1, 6%Q); (2, 2%Q); (3, 1%Q)];  [(2, 6%Q); (3, (5#2)%Q)];  [(3, (9#2)%Q)] ].
Proof.
  split; [valid sq_p|]. split; [vm_compute; reflexivity|]. split; [reflexivity|].
  vm_compute. repeat constructor.
Qed.

(* the quantities of c13_seqrcv_full_weight for round 1 (W = [1]), computed with the spec functions
   on the input profile: what candidate 2 and 3 receive, what is exhausted *)
Example ex_seqrcv_round1 :
  tally positive Pos.eqb 2 (ballots sq_p) == 2 /\
  wt_where positive (fun b => led_by positive Pos.eqb [1] b && next_is positive Pos.eqb [1] 2 b) (ballots sq_p) == 4 /\
  tally positive Pos.eqb 3 (ballots sq_p) == 1 /\
  wt_where positive (fun b => led_by positive Pos.eqb [1] b && next_is positive Pos.eqb [1] 3 b) (ballots sq_p) == 3#2 /\
  wt_where positive (exhausted positive Pos.eqb [1]) (ballots sq_p) == 1#2 /\
  wt_where positive (maps_to positive Pos.eqb [1] [[2]]) (ballots sq_p) == 4 /\
  match stv_step positive Pos.eqb (mkStv 2 QDroop true TFullWeight None) 4 sq_p 0%Z sq_p
          (match initial_state positive Pos.eqb sq_p with inl q0 => q0
           | inr _ => mkState 0%Z [] [] [] [] [] end) st0 with
  | inl ((np, st), _) =>
      nth_error sq_sts 1 = Some st /\ cands np = [2; 3] /\
      tally positive Pos.eqb 2 (ballots np) == 6 /\ tally positive Pos.eqb 3 (ballots np) == 5#2 /\
      total_wt positive (ballots np) == 17#2 /\
      wtof_rk positive Pos.eqb [[2]] (ballots np) == 4 /\ wtof_rk positive Pos.eqb [[2];[3]] (ballots np) == 2
  | inr _ => False
  end.
Proof. vm_compute. repeat split; intros; discriminate. Qed.

(* the wrapper's transfer on candidate 1's pile: 4 arrives on the ranking (2), 3/2 on (3) *)
Example ex_seqrcv_transfer :
  exists out,
    do_transfer positive Pos.eqb TFullWeight 1 6 (pile positive Pos.eqb sq_p 1) 4 st0 = inl (out, st0) /\
    wtof_rk positive Pos.eqb [[2]] out == 4 /\ wtof_rk positive Pos.eqb [[3]] out == 3#2 /\
    total_wt positive out == 11#2.
Proof. eexists. split; [vm_compute; reflexivity|]. vm_compute. repeat split; intros; discriminate. Qed.

(* ---- IRV on the TopTwo profile of Properties/C13.v (first places 4, 3, 2, 1; quota 6):
   candidate 4 then 3 are eliminated (their ballots move to 2: 3 + 1 + 2 = 6), then 2 is elected ---- *)
Definition irv_p : Core.profile positive :=
  mkProfile [lb [1;2;3] 4; lb [2;3;1] 3; lb [3;2;1] 2; lb [4;2] 1] [1;2;3;4].
Definition irv_sts := Eval vm_compute in
  states_of (run_wrule positive Pos.eqb (WIRV QDroop None) irv_p st0).

Example ex_irv :
  wf_stv0 positive irv_p /\
  run_wrule positive Pos.eqb (WIRV QDroop None) irv_p st0 = inl (irv_sts, st0) /\
  map (fun st => (elected st, eliminated st)) irv_sts
    = [ ([[]], [[]]); ([[]], [[4]]); ([[]], [[3]]); ([[2]], [[]]) ] /\
  get_elected positive irv_sts (-1) = inl [[2]].
Proof. split; [valid irv_p|]. split; [vm_compute; reflexivity|]. split; reflexivity. Qed.

(* ---- SNTV(m = 2) on the same profile: the two highest first-place candidates ---- *)
Example ex_sntv :
  NoDup (cands irv_p) /\
  exists s0 s1,
    run_wrule positive Pos.eqb (WSNTV 2 None) irv_p st0 = inl ([s0; s1], st0) /\
    elected s1 = [[1];[2]] /\ remaining s1 = [[3];[4]] /\ tiebreaks s1 = [] /\
    same_scores (escores s0) [(1, 4%Q); (2, 3%Q); (3, 2%Q); (4, 1%Q)].
Proof.
  split; [repeat (constructor; [cbn; intuition discriminate|]); constructor|].
  eexists. eexists. split; [vm_compute; reflexivity|]. repeat split; repeat constructor; reflexivity.
Qed.

End C13Alaska2Examples.
