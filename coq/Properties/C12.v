(* Properties/C12.v — ballot-editing utilities preserve order and lose no votes except exhausted
   ones.  Statements only; proofs are in Proofs/C12_edit.v, C12_expand.v, C12_scores.v.
   Spec vocabulary (Spec/EditSpec.v):
     wtof_rk r bs      weight carried by ranking r in bs (groups compared as sets)
     wt_where p bs     summed weight of the ballots of bs passing test p
     maps_to rem r' b  := ranking_eqb r' (strip rem (rk b))
     exhausted rem b   := negb (nonempty (strip rem (rk b)))
     score_free bs     every ballot has no scores;  all_pos bs  every weight is > 0
     same_group r a b  a and b stand in one position of r
     with_missing cs r r followed by the group of candidates of cs absent from r (if any)
     linear_refinement r l   l = singletons of (a permutation of each group of r, in order) *)
From VK Require Import Base Core EditSpec Lib_rk Lib_condense12 C12_edit C12_expand C12_scores.
From Coq Require Import Permutation.

Section C12.
Variable cand : Type.
Variable ceqb : cand -> cand -> bool.
Hypothesis ceqb_spec : forall a b, reflect (a = b) (ceqb a b).

Notation ranking := (ranking cand).
Notation ballot := (ballot cand).
Notation profile := (profile cand).
Notation memb := (memb cand ceqb).
Notation ranking_eqb := (ranking_eqb cand ceqb).
Notation flat := (flat cand).
Notation strip := (strip cand ceqb).
Notation strip_scores := (strip_scores cand ceqb).
Notation scrub := (scrub cand ceqb).
Notation pos_wt := (pos_wt cand).
Notation set_diff := (set_diff cand ceqb).
Notation remove_cand_bs := (remove_cand_bs cand ceqb).
Notation remove_cand_prof := (remove_cand_prof cand ceqb).
Notation remove_cand_ballot := (remove_cand_ballot cand ceqb).
Notation add_missing_ballot := (add_missing_ballot cand ceqb).
Notation add_missing := (add_missing cand ceqb).
Notation total_wt := (total_wt cand).
Notation wtof_rk := (wtof_rk cand ceqb).
Notation wt_where := (wt_where cand).
Notation maps_to := (maps_to cand ceqb).
Notation exhausted := (exhausted cand ceqb).
Notation score_free := (score_free cand).
Notation all_pos := (all_pos cand).
Notation same_group := (same_group cand).
Notation with_missing := (with_missing cand ceqb).
Notation insert_all := (insert_all cand).
Notation perms := (perms cand).
Notation singletons := (singletons cand).
Notation expand_ranking := (expand_ranking cand).
Notation tie_divisor := (tie_divisor cand).
Notation expand_tied_ballot := (expand_tied_ballot cand).
Notation resolve_profile_ties := (resolve_profile_ties cand ceqb).
Notation condense_bs := (condense_bs cand ceqb).
Notation linear_refinement := (linear_refinement cand).
Notation score_of := (score_of cand ceqb).

(* ---------- 1. strip: the per-ranking edit ---------- *)

Theorem c12_strip_no_removed : forall removed r c,
  In c (flat (strip removed r)) -> ~ In c removed.
Proof. exact (strip_no_removed cand ceqb ceqb_spec). Qed.

Theorem c12_strip_keeps : forall removed r c,
  In c (flat (strip removed r)) <-> In c (flat r) /\ ~ In c removed.
Proof. exact (strip_keeps cand ceqb ceqb_spec). Qed.

(* output = non-empty groups of (map (filter keep)) of the input; hence the survivors keep their
   relative order (flattening commutes with the filter), no position is empty, and two survivors
   share a position afterwards iff they did before *)
Theorem c12_strip_order : forall removed r,
  strip removed r = filter nonempty (map (filter (fun c => negb (memb c removed))) r) /\
  flat (strip removed r) = filter (fun c => negb (memb c removed)) (flat r) /\
  Forall (fun g => g <> []) (strip removed r) /\
  (forall a b, ~ In a removed -> ~ In b removed ->
     (same_group (strip removed r) a b <-> same_group r a b)).
Proof. exact (strip_order cand ceqb ceqb_spec). Qed.

Theorem c12_strip_nothing : forall r, strip [] r = filter nonempty r.
Proof. exact (strip_nil cand ceqb). Qed.

(* removing names that are not on the ballot changes nothing *)
Theorem c12_strip_absent : forall removed r,
  (forall c, In c removed -> ~ In c (flat r)) -> Forall (fun g => g <> []) r ->
  strip removed r = r.
Proof. exact (strip_absent cand ceqb ceqb_spec). Qed.

(* the score dictionary is filtered the same way, and a ballot left with neither ranking nor
   scores becomes the empty ballot of weight 0 *)
Theorem c12_strip_scores : forall removed d p,
  In p (strip_scores removed d) <-> In p d /\ ~ In (fst p) removed.
Proof. exact (strip_scores_spec cand ceqb ceqb_spec). Qed.

Theorem c12_scrub : forall removed b,
  rk (scrub removed b) = strip removed (rk b) /\
  sc (scrub removed b) = strip_scores removed (sc b) /\
  wt (scrub removed b) =
    (if nonempty (strip removed (rk b)) || nonempty (strip_scores removed (sc b))
     then wt b else 0) /\
  bid (scrub removed b) = None /\ vs (scrub removed b) = None.
Proof. exact (scrub_spec cand ceqb). Qed.

(* ---------- 2./3. remove_cand on a tuple of ballots, both flags ---------- *)

Theorem c12_remove_no_removed : forall removed cf lz bs k,
  In k (remove_cand_bs removed cf lz bs) ->
  (forall c, In c removed -> ~ In c (flat (rk k))) /\
  exists b, In b bs /\ rk k = strip removed (rk b).
Proof. exact (remove_no_removed cand ceqb ceqb_spec). Qed.

Theorem c12_remove_all_represented : forall removed cf lz bs b, score_free bs -> In b bs ->
  (lz || pos_wt b) = true -> strip removed (rk b) <> [] ->
  exists k, In k (remove_cand_bs removed cf lz bs) /\
            ranking_eqb (rk k) (strip removed (rk b)) = true.
Proof. exact (remove_all_represented cand ceqb ceqb_spec). Qed.

(* every input, any weights: without leave_zero the ballots of weight <= 0 are dropped too *)
Theorem c12_remove_weights_gen : forall removed cf lz bs r',
  score_free bs -> nonempty r' = true ->
  wtof_rk r' (remove_cand_bs removed cf lz bs) ==
  wt_where (fun b => maps_to removed r' b && (lz || pos_wt b)) bs.
Proof. exact (remove_weights_gen cand ceqb ceqb_spec). Qed.

Theorem c12_remove_weights : forall removed cf lz bs r',
  score_free bs -> all_pos bs -> nonempty r' = true ->
  wtof_rk r' (remove_cand_bs removed cf lz bs) == wt_where (maps_to removed r') bs.
Proof. exact (remove_weights cand ceqb ceqb_spec). Qed.

Theorem c12_remove_total_gen : forall removed cf lz bs, score_free bs ->
  total_wt (remove_cand_bs removed cf lz bs) ==
  wt_where (fun b => negb (exhausted removed b) && (lz || pos_wt b)) bs.
Proof. exact (remove_total_gen cand ceqb). Qed.

(* weight disappears only with the ballots that end up empty *)
Theorem c12_remove_loss : forall removed cf lz bs, score_free bs -> all_pos bs ->
  total_wt bs - total_wt (remove_cand_bs removed cf lz bs) == wt_where (exhausted removed) bs.
Proof. exact (remove_loss cand ceqb). Qed.

Theorem c12_remove_leave_zero : forall removed bs,
  remove_cand_bs removed false true bs = map (scrub removed) bs /\
  length (remove_cand_bs removed false true bs) = length bs /\
  (forall b, sc b = [] -> exhausted removed b = true ->
             scrub removed b = mkBallot [] 0 [] None None).
Proof. exact (remove_leave_zero cand ceqb). Qed.

(* ---------- 4. remove_cand on a profile and on a single ballot ---------- *)

Theorem c12_remove_prof_cands : forall removed cf lz (p : profile), NoDup (cands p) ->
  exists p', remove_cand_prof removed cf lz p = inl p' /\
    ballots p' = remove_cand_bs removed cf lz (ballots p) /\
    (set_diff (cands p) removed <> [] ->
       cands p' = set_diff (cands p) removed /\
       NoDup (cands p') /\
       (forall c, In c (cands p') <-> In c (cands p) /\ ~ In c removed)) /\
    (set_diff (cands p) removed = [] ->
       cands p' = cast_cands cand ceqb (remove_cand_bs removed cf lz (ballots p))).
Proof. exact (remove_prof_cands cand ceqb ceqb_spec). Qed.

Theorem c12_remove_prof_error : forall removed cf lz (p : profile) e,
  remove_cand_prof removed cf lz p = inr e ->
  e = EValue /\ ~ NoDup (set_diff (cands p) removed).
Proof. exact (remove_prof_error cand ceqb ceqb_spec). Qed.

(* remove_cand on a single Ballot (after the repair of the IndexError recorded in
   known_findings.json): it never fails, ignores both flags and returns the scrubbed ballot:
   no removed candidate, ranking = strip (order and grouping kept, c12_strip_order), scores
   filtered, weight kept unless neither ranking nor scores are left, in which case the result is
   the empty ballot of weight 0 *)
Theorem c12_remove_ballot : forall removed cf lz b,
  exists b', remove_cand_ballot removed cf lz b = inl b' /\
    b' = scrub removed b /\
    (forall c, In c removed -> ~ In c (flat (rk b'))) /\
    rk b' = strip removed (rk b) /\
    sc b' = strip_scores removed (sc b) /\
    wt b' = (if nonempty (strip removed (rk b)) || nonempty (strip_scores removed (sc b))
             then wt b else 0) /\
    (strip removed (rk b) = [] -> strip_scores removed (sc b) = [] ->
       b' = mkBallot [] 0 [] None None).
Proof. exact (remove_ballot_spec cand ceqb ceqb_spec). Qed.

(* ---------- 5. add_missing_cands ---------- *)

Theorem c12_add_missing_ballot : forall cs b b',
  add_missing_ballot cs b = inl b' ->
  rk b <> [] /\ rk b' = with_missing cs (rk b) /\ wt b' = wt b /\ sc b' = [] /\
  bid b' = bid b /\ vs b' = vs b.
Proof. exact (add_missing_ballot_ok cand ceqb). Qed.

Theorem c12_add_missing_ballot_error : forall cs b e,
  add_missing_ballot cs b = inr e <-> (rk b = [] /\ e = EType).
Proof. exact (add_missing_ballot_err cand ceqb). Qed.

(* the appended last-place group holds exactly the candidates of cs not on the ballot *)
Theorem c12_with_missing : forall cs r,
  (set_diff cs (flat r) = [] /\ with_missing cs r = r) \/
  (exists m, m <> [] /\ with_missing cs r = r ++ [m] /\
             forall c, In c m <-> In c cs /\ ~ In c (flat r)).
Proof. exact (with_missing_spec cand ceqb ceqb_spec). Qed.

Theorem c12_add_missing : forall (p p' : profile),
  add_missing p = inl p' ->
  cands p' = cands p /\
  total_wt (ballots p') == total_wt (ballots p) /\
  forall r', wtof_rk r' (ballots p') ==
             wt_where (fun b => ranking_eqb r' (with_missing (cands p) (rk b))) (ballots p).
Proof. exact (add_missing_weights cand ceqb ceqb_spec). Qed.

Theorem c12_add_missing_error : forall (p : profile) e,
  add_missing p = inr e <-> (e = EType /\ exists b, In b (ballots p) /\ rk b = []).
Proof. exact (add_missing_error cand ceqb). Qed.

(* ---------- 6. expanding ties ---------- *)

Theorem c12_insert_all : forall x l p,
  In p (insert_all x l) <-> exists l1 l2, l = l1 ++ l2 /\ p = l1 ++ x :: l2.
Proof. exact (insert_all_spec cand). Qed.

Theorem c12_perms : forall l,
  (forall p, In p (perms l) <-> Permutation p l) /\
  (NoDup l -> NoDup (perms l)) /\
  length (perms l) = fact (length l).
Proof.
  exact (fun l => conj (perms_spec cand l) (conj (perms_NoDup cand l) (perms_length cand l))).
Qed.

(* expand_ranking lists exactly the linear orders consistent with r, each once, and there are
   Π |group|! of them *)
Theorem c12_expand_all_linear_orders : forall r,
  (forall l, In l (expand_ranking r) <-> linear_refinement r l) /\
  (NoDup (flat r) -> NoDup (expand_ranking r)) /\
  length (expand_ranking r) = tie_divisor r.
Proof.
  exact (fun r => conj (expand_ranking_spec cand r)
                       (conj (expand_ranking_NoDup cand r) (expand_ranking_length cand r))).
Qed.

Theorem c12_linear_refinement : forall r l, linear_refinement r l ->
  Forall (fun g => length g = 1%nat) l /\ Permutation (flat r) (flat l).
Proof. exact (linear_refinement_props cand). Qed.

(* each output ballot gets weight wt b / Π |group|!, and the weights add up to wt b *)
Theorem c12_expand_tied_ballot : forall b out,
  expand_tied_ballot b = inl out ->
  rk b <> [] /\
  map rk out = expand_ranking (rk b) /\
  Forall (fun b' => wt b' == wt b / Qnat (tie_divisor (rk b)) /\
                    bid b' = bid b /\ vs b' = vs b /\ (sc b = [] -> sc b' = [])) out /\
  total_wt out == wt b.
Proof. exact (expand_tied_ballot_ok cand). Qed.

Theorem c12_expand_tied_ballot_error : forall b e,
  expand_tied_ballot b = inr e <-> (rk b = [] /\ e = EType).
Proof. exact (expand_tied_ballot_err cand). Qed.

(* the candidate list of the result is the profile's own list (since the library fix
   "resolve_profile_ties keeps the profile's candidate list"; before it, the candidates were always
   re-inferred from the expanded ballots); only an EMPTY list is replaced by the candidates cast on
   the positive-weight expanded ballots *)
Theorem c12_resolve_profile_ties : forall (p p' : profile),
  resolve_profile_ties p = inl p' ->
  exists bss,
    Forall2 (fun b e => expand_tied_ballot b = inl e) (ballots p) bss /\
    ballots p' = condense_bs (concat bss) /\
    cands p' = match cands p with [] => cast_cands cand ceqb (concat bss) | _ => cands p end /\
    total_wt (ballots p') == total_wt (ballots p) /\
    (score_free (ballots p) -> forall l,
       wtof_rk l (ballots p') ==
       qsum (map (fun b => wt b / Qnat (tie_divisor (rk b)) *
                           Qnat (length (filter (ranking_eqb l) (expand_ranking (rk b)))))
                 (ballots p))).
Proof. exact (resolve_ok cand ceqb ceqb_spec). Qed.

(* (hence a non-empty candidate list is returned unchanged, a candidate nobody ranks stays a
   candidate: c12_resolve_keeps_candidates in Properties/C12_margin.v, with the consequences for the
   score dictionaries and the exact description of the inferred candidates) *)

(* success implies that the given candidate list is duplicate-free, and so is the returned one *)
Theorem c12_resolve_cands_NoDup : forall (p p' : profile),
  resolve_profile_ties p = inl p' -> NoDup (cands p) /\ NoDup (cands p').
Proof. exact (resolve_cands_NoDup cand ceqb ceqb_spec). Qed.

(* the errors: TypeError for a ballot without ranking (raised first); ValueError -- model level
   only, a Python profile cannot list a candidate twice -- when the candidate list passed on to the
   new profile repeats a name *)
Theorem c12_resolve_profile_ties_error : forall (p : profile) e,
  resolve_profile_ties p = inr e <->
  (e = EType /\ exists b, In b (ballots p) /\ rk b = []) \/
  (e = EValue /\ (forall b, In b (ballots p) -> rk b <> []) /\ ~ NoDup (cands p)).
Proof. exact (resolve_error cand ceqb ceqb_spec). Qed.

(* hence on a duplicate-free candidate list the only error is the TypeError *)
Theorem c12_resolve_profile_ties_error_nodup : forall (p : profile) e, NoDup (cands p) ->
  (resolve_profile_ties p = inr e <-> (e = EType /\ exists b, In b (ballots p) /\ rk b = [])).
Proof.
  intros p e Hnd. rewrite (resolve_error cand ceqb ceqb_spec). split.
  - intros [H|[_ [_ H]]]; [exact H|contradiction].
  - intros H. left. exact H.
Qed.

(* ---------- 7. positional scores are unchanged by the expansion ---------- *)

(* for EVERY score vector v (no validity or length condition) and every candidate c *)
Theorem c12_expand_preserves_scores : forall v (b : ballot) out c,
  expand_tied_ballot b = inl out -> score_of v out c == score_of v [b] c.
Proof. exact (expand_preserves_scores cand ceqb). Qed.

Theorem c12_expand_all_preserves_scores : forall v (bs : list ballot) bss c,
  Forall2 (fun b e => expand_tied_ballot b = inl e) bs bss ->
  score_of v (concat bss) c == score_of v bs c.
Proof. exact (expand_all_preserves_scores cand ceqb). Qed.

End C12.

Print Assumptions c12_strip_no_removed.
Print Assumptions c12_strip_keeps.
Print Assumptions c12_strip_order.
Print Assumptions c12_strip_nothing.
Print Assumptions c12_strip_absent.
Print Assumptions c12_strip_scores.
Print Assumptions c12_scrub.
Print Assumptions c12_remove_no_removed.
Print Assumptions c12_remove_all_represented.
Print Assumptions c12_remove_weights_gen.
Print Assumptions c12_remove_weights.
Print Assumptions c12_remove_total_gen.
Print Assumptions c12_remove_loss.
Print Assumptions c12_remove_leave_zero.
Print Assumptions c12_remove_prof_cands.
Print Assumptions c12_remove_prof_error.
Print Assumptions c12_remove_ballot.
Print Assumptions c12_add_missing_ballot.
Print Assumptions c12_add_missing_ballot_error.
Print Assumptions c12_with_missing.
Print Assumptions c12_add_missing.
Print Assumptions c12_add_missing_error.
Print Assumptions c12_insert_all.
Print Assumptions c12_perms.
Print Assumptions c12_expand_all_linear_orders.
Print Assumptions c12_linear_refinement.
Print Assumptions c12_expand_tied_ballot.
Print Assumptions c12_expand_tied_ballot_error.
Print Assumptions c12_resolve_profile_ties.
Print Assumptions c12_resolve_cands_NoDup.
Print Assumptions c12_resolve_profile_ties_error.
Print Assumptions c12_resolve_profile_ties_error_nodup.
Print Assumptions c12_expand_preserves_scores.
Print Assumptions c12_expand_all_preserves_scores.

(* ---------- non-vacuity: concrete inputs (cand := positive) ---------- *)
Section Examples.
Local Open Scope positive_scope.
Let P := positive.
Let pb (r : list (list positive)) (w : Q) : Core.ballot positive := plain_ballot positive r w.

(* three ballots, one of which is exhausted by removing candidate 2, two of which merge *)
Let bs0 : list (Core.ballot positive) :=
  [pb [[1];[2];[3]] (3#2); pb [[2]] 1; pb [[2;1];[3]] 2; pb [[1];[3]] (1#2)].

Example c12_ex_strip :
  Core.strip positive Pos.eqb [2] [[1;2];[2];[3]] = [[1];[3]].
Proof. vm_compute. reflexivity. Qed.

Example c12_ex_hyps : score_free positive bs0 /\ all_pos positive bs0.
Proof. split; repeat constructor. Qed.

Example c12_ex_remove_weights :
  wtof_rk positive Pos.eqb [[1];[3]] (Core.remove_cand_bs positive Pos.eqb [2] true false bs0) == 4 /\
  wt_where positive (maps_to positive Pos.eqb [2] [[1];[3]]) bs0 == 4 /\
  length (Core.remove_cand_bs positive Pos.eqb [2] true false bs0) = 1%nat.
Proof. repeat split; vm_compute; reflexivity. Qed.

Example c12_ex_remove_loss :
  total_wt positive bs0 - total_wt positive (Core.remove_cand_bs positive Pos.eqb [2] true false bs0) == 1 /\
  wt_where positive (exhausted positive Pos.eqb [2]) bs0 == 1.
Proof. split; vm_compute; reflexivity. Qed.

Example c12_ex_remove_ballot :
  Core.remove_cand_ballot positive Pos.eqb [2] true false (pb [[2]] 1)
    = inl (mkBallot [] 0 [] None None) /\
  Core.remove_cand_ballot positive Pos.eqb [2] true false (pb [[1;2];[2];[3]] (3#2))
    = inl (mkBallot [[1];[3]] (3#2) [] None None).
Proof. split; vm_compute; reflexivity. Qed.

Example c12_ex_remove_prof :
  exists p', Core.remove_cand_prof positive Pos.eqb [2] true false (mkProfile bs0 [1;2;3]) = inl p' /\
             cands p' = [1;3].
Proof. eexists. split; vm_compute; reflexivity. Qed.

Example c12_ex_add_missing :
  Core.add_missing_ballot positive Pos.eqb [1;2;3;4] (pb [[2];[1]] 1)
  = inl (mkBallot [[2];[1];[3;4]] 1 [] None None).
Proof. vm_compute. reflexivity. Qed.

Example c12_ex_expand :
  Core.expand_ranking positive [[1;2];[3]] = [[[1];[2];[3]]; [[2];[1];[3]]] /\
  Core.tie_divisor positive [[1;2;3];[4;5]] = 12%nat /\
  length (Core.expand_ranking positive [[1;2;3];[4;5]]) = 12%nat.
Proof. repeat split; vm_compute; reflexivity. Qed.

Example c12_ex_expand_ballot :
  exists out, Core.expand_tied_ballot positive (pb [[1;2];[3]] 3) = inl out /\
              map wt out = [3 / Qnat 2; 3 / Qnat 2] /\
              score_of positive Pos.eqb [3#1; 2#1; 1#1] out 1 == (15#2) /\
              score_of positive Pos.eqb [3#1; 2#1; 1#1] [pb [[1;2];[3]] 3] 1 == (15#2).
Proof. eexists. repeat split; vm_compute; reflexivity. Qed.

(* resolve_profile_ties keeps the candidate list, unranked candidate 3 included; with an empty
   list the candidates are those of the expanded ballots; a repeated name is rejected *)
Example c12_ex_resolve_cands :
  (exists p', Core.resolve_profile_ties positive Pos.eqb (mkProfile [pb [[1;2]] 2; pb [[1]] 1] [1;2;3])
              = inl p' /\ cands p' = [1;2;3] /\ length (ballots p') = 3%nat) /\
  (exists p', Core.resolve_profile_ties positive Pos.eqb (mkProfile [pb [[1;2]] 2; pb [[1]] 1] [])
              = inl p' /\ Permutation (cands p') [1;2]) /\
  Core.resolve_profile_ties positive Pos.eqb (mkProfile [pb [[1;2]] 2] [1;2;1]) = inr EValue /\
  Core.resolve_profile_ties positive Pos.eqb (mkProfile [pb [] 2] [1;2;1]) = inr EType.
Proof.
  split; [eexists; repeat split; vm_compute; reflexivity|].
  split; [eexists; split; [vm_compute; reflexivity|apply perm_swap]|].
  split; vm_compute; reflexivity.
Qed.

End Examples.
