(* Properties/C04_totals.v — C04, the sentence "the points handed out by each ballot sum to weight
   times the vector total" made exact, and "first-place votes, mentions and Borda scores are the
   corresponding special cases" written as equations.  Statements only; proofs are in
   Proofs/C04_totals.v.  Vocabulary (wf_profile, wf_ranking, valid_vector, entry, span_mean,
   ballot_alloc) is in Spec/ScoreSpec.v.  [wf_profile] allows tied positions of any size and
   partial ballots (it only asks for non-empty rankings without empty positions, no candidate
   listed twice, only known candidates), so every theorem below covers ties and partial ballots. *)
From VK Require Import Base Core.
From VK.Spec Require Import ScoreSpec.
From VK.Proofs Require Import Lib_sets C04_scoring C04_totals.
From Coq Require Import Permutation Lia.

Section C04_totals.
Variable cand : Type.
Variable ceqb : cand -> cand -> bool.
Hypothesis ceqb_spec : forall a b, reflect (a = b) (ceqb a b).

Notation cset := (cset cand).
Notation ranking := (ranking cand).
Notation profile := (profile cand).
Notation scores := (scores cand).
Notation flat := (flat cand).
Notation memb := (memb cand ceqb).
Notation set_diff := (set_diff cand ceqb).
Notation score_rankings := (score_rankings cand ceqb).
Notation first_place_votes := (first_place_votes cand ceqb).
Notation borda_scores := (borda_scores cand ceqb).
Notation mentions := (mentions cand ceqb).
Notation ballot_alloc := (ballot_alloc cand ceqb).
Notation wf_ranking := (wf_ranking cand).
Notation wf_profile := (wf_profile cand).
Notation total_wt := (total_wt cand).

(* vectors no longer than the candidate list (zero padding): the points handed out are exactly
   total weight times the vector total -- with ties and partial ballots too, because the unlisted
   candidates receive ALL the remaining entries *)
Theorem c04_total_short : forall (p : profile) (v : list Q) (d : scores),
  wf_profile p -> score_rankings p v = inl d ->
  (length v <= length (cands p))%nat ->
  qsum (map snd d) == total_wt (ballots p) * qsum v.
Proof. exact (c04_total_short_proof cand ceqb ceqb_spec). Qed.

(* every vector, in particular the longer ones: only the first n entries are handed out; the
   total falls short of weight times the vector total by weight times the entries beyond n *)
Theorem c04_total_long : forall (p : profile) (v : list Q) (d : scores),
  wf_profile p -> score_rankings p v = inl d ->
  let n := length (cands p) in
  qsum (map snd d) == total_wt (ballots p) * qsum (firstn n v) /\
  qsum (map snd d) == total_wt (ballots p) * qsum v - total_wt (ballots p) * qsum (skipn n v).
Proof. exact (c04_total_long_proof cand ceqb ceqb_spec). Qed.

(* the C04 sentence "sum to weight times the vector total" holds exactly when the total weight is
   0 or every entry beyond the candidate count is 0 *)
Theorem c04_total_exact_iff : forall (p : profile) (v : list Q) (d : scores),
  wf_profile p -> score_rankings p v = inl d ->
  (qsum (map snd d) == total_wt (ballots p) * qsum v <->
   (total_wt (ballots p) == 0 \/ Forall (fun x => x == 0) (skipn (length (cands p)) v))).
Proof. exact (c04_total_exact_iff_proof cand ceqb ceqb_spec). Qed.

(* one ballot of weight w over the candidate list cs, ranking r listing k of the n candidates *)
Theorem c04_ballot_points : forall (cs : cset) (r : ranking) (v : list Q) (w : Q),
  NoDup cs -> wf_ranking cs r ->
  let n := length cs in
  let k := length (flat r) in
  qsum (map (fun c => w * ballot_alloc cs v r c) cs) == w * qsum (firstn n v) /\
  ((length v <= n)%nat -> qsum (map (fun c => w * ballot_alloc cs v r c) cs) == w * qsum v) /\
  qsum (map (fun c => w * ballot_alloc cs v r c) (flat r)) == w * qsum (firstn k v) /\
  (forall c, In c cs -> ~ In c (flat r) -> ballot_alloc cs v r c == span_mean v k (n - k)) /\
  qsum (map (fun c => w * ballot_alloc cs v r c) (set_diff cs (flat r)))
    == w * qsum (firstn (n - k) (skipn k v)) /\
  (forall (i : nat) (g : cset), g <> [] ->
     Qnat (length g) * span_mean v i (length g) == qsum (firstn (length g) (skipn i v))).
Proof. exact (c04_ballot_points_proof cand ceqb ceqb_spec). Qed.

(* scores depend on the first n entries of the vector only (padding with zeros and cutting off
   the entries beyond n change nothing) *)
Theorem c04_vector_ext : forall (p : profile) (v1 v2 : list Q) (d1 d2 : scores),
  wf_profile p -> score_rankings p v1 = inl d1 -> score_rankings p v2 = inl d2 ->
  (forall j, (j < length (cands p))%nat -> entry v1 j == entry v2 j) ->
  map fst d1 = map fst d2 /\
  forall c q1 q2, In (c, q1) d1 -> In (c, q2) d2 -> q1 == q2.
Proof. exact (c04_vector_ext_proof cand ceqb ceqb_spec). Qed.

(* first-place votes are the scores of the one-entry vector [1], and add up to the total weight *)
Theorem c04_fpv_is_vector_one : forall (p : profile) (d : scores),
  wf_profile p -> first_place_votes p = inl d ->
  (exists d1, score_rankings p [1] = inl d1 /\ map fst d1 = map fst d /\
     forall c q q1, In (c, q) d -> In (c, q1) d1 -> q == q1) /\
  qsum (map snd d) == total_wt (ballots p).
Proof. exact (c04_fpv_is_vector_one_proof cand ceqb ceqb_spec). Qed.

(* Borda scores ARE (definitionally) the scores of the vector (n, n-1, ..., 1), a valid vector of
   length exactly n; they add up to total weight times n(n+1)/2 *)
Theorem c04_borda_is_score_vector : forall (p : profile),
  let n := length (cands p) in
  borda_scores p = score_rankings p (borda_vector n) /\
  borda_vector n = map (fun i => Qnat (n - i)) (seq 0 n) /\
  length (borda_vector n) = n /\
  valid_vector (borda_vector n) /\
  forall d, wf_profile p -> borda_scores p = inl d ->
    qsum (map snd d) == total_wt (ballots p) * (Qnat n * (Qnat n + 1) / 2).
Proof. exact (c04_borda_is_score_vector_proof cand ceqb ceqb_spec). Qed.

(* mentions: every ballot gives its FULL weight to every candidate it lists, tied or not, and
   nothing to the others.  Ballot by ballot this is the positional allocation of the vector of k
   ones, k = the number of candidates THAT ballot lists (all entries spanned by a tie are 1, so the
   average is 1); a ballot therefore hands out weight times k, not weight times a fixed total *)
Theorem c04_mentions_exact : forall (p : profile) (d : scores),
  wf_profile p -> mentions p = inl d ->
  map fst d = cands p /\
  (forall b c, In b (ballots p) ->
     ballot_alloc (cands p) (repeat 1 (length (flat (rk b)))) (rk b) c
     == if memb c (flat (rk b)) then 1 else 0) /\
  (forall c q, In (c, q) d ->
     q == qsum (map (fun b => wt b * ballot_alloc (cands p) (repeat 1 (length (flat (rk b)))) (rk b) c)
                    (ballots p))) /\
  qsum (map snd d) == qsum (map (fun b => wt b * Qnat (length (flat (rk b)))) (ballots p)).
Proof. exact (c04_mentions_exact_proof cand ceqb ceqb_spec). Qed.

(* when every ballot lists the same number k of candidates, mentions is the score of k ones *)
Theorem c04_mentions_uniform : forall (p : profile) (k : nat) (d : scores),
  wf_profile p -> (forall b, In b (ballots p) -> length (flat (rk b)) = k) ->
  mentions p = inl d ->
  exists d1, score_rankings p (repeat 1 k) = inl d1 /\ map fst d1 = map fst d /\
    forall c q q1, In (c, q) d -> In (c, q1) d1 -> q == q1.
Proof. exact (c04_mentions_uniform_proof cand ceqb ceqb_spec). Qed.

End C04_totals.

(* the sentence "the points handed out by each ballot sum to weight times the vector total" fails
   for vectors longer than the candidate list: (3,2,1) on two candidates; an untied, a tied and
   a partial ballot of weight 1 hand out 15 = 3 * 5 points in all, not 3 * 6 *)
Theorem c04_total_long_refuted :
  exists (p : Core.profile positive) (v : list Q) (d : Core.scores positive),
    wf_profile positive p /\ valid_vector v /\ (length (cands p) < length v)%nat /\
    score_rankings positive Pos.eqb p v = inl d /\
    total_wt positive (ballots p) == 3 /\ qsum v == 6 /\ qsum (map snd d) == 15 /\
    ~ qsum (map snd d) == total_wt positive (ballots p) * qsum v.
Proof. exact c04_total_long_refuted_proof. Qed.

(* "mentions is the special case of some score vector" fails: for the ballots (1) and (2 > 1) over
   {1,2} no vector whatsoever reproduces the mentions 2 and 1 *)
Theorem c04_mentions_single_vector_refuted :
  exists (p : Core.profile positive) (dm : Core.scores positive),
    wf_profile positive p /\ mentions positive Pos.eqb p = inl dm /\
    forall v d, score_rankings positive Pos.eqb p v = inl d ->
      ~ (forall c q q', In (c, q) d -> In (c, q') dm -> q == q').
Proof. exact c04_mentions_single_vector_refuted_proof. Qed.

Print Assumptions c04_total_short.
Print Assumptions c04_total_long.
Print Assumptions c04_total_exact_iff.
Print Assumptions c04_ballot_points.
Print Assumptions c04_vector_ext.
Print Assumptions c04_fpv_is_vector_one.
Print Assumptions c04_borda_is_score_vector.
Print Assumptions c04_mentions_exact.
Print Assumptions c04_mentions_uniform.
Print Assumptions c04_total_long_refuted.
Print Assumptions c04_mentions_single_vector_refuted.

(* ------------------------------------------------------------------ *)
(* Non-vacuity: six candidates; a 3-way tie with three unlisted candidates, a partial ballot with a
   2-way tie and three unlisted candidates, a complete untied ballot, a complete ballot made of two
   3-way ties; rational weights (total 29/6). *)

Definition B (r : Core.ranking positive) (w : Q) := plain_ballot positive r w.
Definition ex6 : Core.profile positive :=
  mkProfile [B [[1;2;3]]%positive 1; B [[4];[5;6]]%positive (3#2);
             B [[2];[1];[4];[3];[6];[5]]%positive (1#3); B [[6;5;4];[1;2;3]]%positive 2]
            [1;2;3;4;5;6]%positive.
Definition ex_short : list Q := [5; 2; 1#3].            (* total 22/3 *)
Definition ex_long : list Q := [8; 7; 6; 5; 4; 3; 2; 1].  (* total 36, first six 33 *)

Example ex6_wf : wf_profile positive ex6.
Proof. unfold ex6, B. ex_wf. Qed.

Example ex_vectors_valid : valid_vector ex_short /\ valid_vector ex_long /\
  (length ex_short <= length (cands ex6))%nat /\ (length (cands ex6) < length ex_long)%nat.
Proof.
  split; [split; [repeat constructor; discriminate|cbn; repeat split; discriminate]|].
  split; [split; [repeat constructor; discriminate|cbn; repeat split; discriminate]|].
  cbn. split; lia.
Qed.

(* short vector: 1/3-averages over the 3-way ties and over three unlisted candidates; the total is
   29/6 * 22/3 *)
Example ex_short_scores : exists d, score_rankings positive Pos.eqb ex6 ex_short = inl d /\
  Forall2 Qeq (map snd d) [28#9; 37#9; 22#9; 25#2; 239#36; 239#36] /\
  qsum (map snd d) == (29#6) * (22#3) /\
  total_wt positive (ballots ex6) == 29#6 /\ qsum ex_short == 22#3.
Proof.
  eexists. split; [vm_compute; reflexivity|].
  split; [repeat constructor; vm_compute; reflexivity|].
  repeat split; vm_compute; reflexivity.
Qed.

(* long vector: the total is 29/6 * 33 (first six entries), not 29/6 * 36 *)
Example ex_long_scores : exists d, score_rankings positive Pos.eqb ex6 ex_long = inl d /\
  qsum (map snd d) == (29#6) * 33 /\ qsum (firstn 6 ex_long) == 33 /\ qsum ex_long == 36 /\
  ~ qsum (map snd d) == total_wt positive (ballots ex6) * qsum ex_long /\
  ~ Forall (fun x => x == 0) (skipn (length (cands ex6)) ex_long).
Proof.
  eexists. split; [vm_compute; reflexivity|].
  split; [vm_compute; reflexivity|]. split; [vm_compute; reflexivity|].
  split; [vm_compute; reflexivity|]. split.
  - intros H. vm_compute in H. discriminate.
  - intros H. inversion H as [|x l Hx _]; subst. vm_compute in Hx. discriminate.
Qed.

(* one ballot: the 3-way tie (1,2,3) over six candidates with the Borda vector; each tied
   candidate gets (6+5+4)/3 = 5, each of the three unlisted ones (3+2+1)/3 = 2 *)
Example ex_ballot :
  wf_ranking positive [1;2;3;4;5;6]%positive [[1;2;3]]%positive /\
  Forall2 Qeq (map (ballot_alloc positive Pos.eqb [1;2;3;4;5;6]%positive (borda_vector 6)
                                 [[1;2;3]]%positive) [1;2;3;4;5;6]%positive)
              [5; 5; 5; 2; 2; 2] /\
  qsum (borda_vector 6) == 21.
Proof.
  split; [repeat split; [discriminate|repeat (constructor; [discriminate|]); constructor|ex_nodup|ex_incl]|].
  split; [repeat constructor; vm_compute; reflexivity|vm_compute; reflexivity].
Qed.

(* first-place votes, the vector [1], Borda and mentions on the example *)
Example ex_special :
  (exists d d1, first_place_votes positive Pos.eqb ex6 = inl d /\
                score_rankings positive Pos.eqb ex6 [1] = inl d1 /\
                Forall2 Qeq (map snd d) [1#3; 2#3; 1#3; 13#6; 2#3; 2#3] /\
                Forall2 Qeq (map snd d1) [1#3; 2#3; 1#3; 13#6; 2#3; 2#3]) /\
  (exists d, borda_scores positive Pos.eqb ex6 = inl d /\
             qsum (map snd d) == (29#6) * 21) /\
  (exists d, mentions positive Pos.eqb ex6 = inl d /\
             Forall2 Qeq (map snd d) [10#3; 10#3; 10#3; 23#6; 23#6; 23#6] /\
             qsum (map snd d) == 43#2 /\ total_wt positive (ballots ex6) == 29#6).
Proof.
  split; [|split].
  - eexists. eexists. split; [vm_compute; reflexivity|]. split; [vm_compute; reflexivity|].
    split; repeat constructor; vm_compute; reflexivity.
  - eexists. split; vm_compute; reflexivity.
  - eexists. split; [vm_compute; reflexivity|].
    split; [repeat constructor; vm_compute; reflexivity|].
    split; vm_compute; reflexivity.
Qed.

(* mentions with a tie: ONE ballot of weight 1 tying three candidates hands out 3 mentions (full
   weight to each tied candidate), whereas every score vector v hands out at most weight * qsum of
   its entries shared by averaging: first-place votes give each of the three 1/3 *)
Definition ex_tie1 : Core.profile positive :=
  mkProfile [B [[1;2;3]]%positive 1] [1;2;3;4;5;6]%positive.

Example ex_mentions_tie : wf_profile positive ex_tie1 /\
  (exists d, mentions positive Pos.eqb ex_tie1 = inl d /\
             Forall2 Qeq (map snd d) [1; 1; 1; 0; 0; 0] /\
             qsum (map snd d) == 3 /\ total_wt positive (ballots ex_tie1) == 1 /\
             total_wt positive (ballots ex_tie1) < qsum (map snd d)) /\
  (exists d, first_place_votes positive Pos.eqb ex_tie1 = inl d /\
             Forall2 Qeq (map snd d) [1#3; 1#3; 1#3; 0; 0; 0]).
Proof.
  split; [unfold ex_tie1, B; ex_wf|]. split.
  - eexists. split; [vm_compute; reflexivity|].
    split; [repeat constructor; vm_compute; reflexivity|].
    repeat split; vm_compute; reflexivity.
  - eexists. split; [vm_compute; reflexivity|repeat constructor; vm_compute; reflexivity].
Qed.
