(* Properties/C05_tiebreaks.v — C05 / C04 / C01 / C20: what each tiebreak option (None, random,
   first_place, borda, an unknown name) does in the one-shot rules — Plurality / SNTV, Borda,
   GeneralRating, Limited, BlocPlurality, hence Rating, Approval and Cumulative — on valid input,
   and the KeyError for a scored non-candidate.  Statements only; proofs are in
   Proofs/C05_tiebreaks.v.

   All statements quantify over a rule r of that family through
     one_shot_params r p = Some (k, m, tb)   (Spec/TieSpec.v: its scoring k, seat count m, tiebreak tb)
     one_shot_valid r p                      (Spec/OneShotSpec.v: ranked profile (+ valid vector) for
                                             Plurality / Borda; accepted arguments and ballots on rated
                                             ballots for the rating family)
   with d the round-0 score list, [score_fn k p = inl d].  [straddles_seat] is in Spec/RunSpec.v,
   [big] / [rebuild] in Spec/TieSpec.v, [rating_rule] in Spec/OneShotSpec.v. *)
From VK Require Import Base Core STV Pairwise Rules PV Election.
From VK.Spec Require Import ScoreSpec EditSpec RatingSpec Anon TieSpec RunSpec OneShotSpec.
From VK.Proofs Require Import C05_tiebreaks.
From Coq Require Import Permutation.

Section C05.
Variable cand : Type.
Variable ceqb : cand -> cand -> bool.
Hypothesis ceqb_spec : forall a b, reflect (a = b) (ceqb a b).

Notation profile := (profile cand).
Notation estate := (estate cand).
Notation mstate := (mstate cand).
Notation flat := (flat cand).
Notation singletons := (singletons cand).
Notation memb := (memb cand ceqb).
Notation wf_profile := (wf_profile cand).
Notation straddles_seat := (straddles_seat cand).
Notation score_ballot_ok := (score_ballot_ok cand).
Notation first_place_votes := (first_place_votes cand ceqb).
Notation borda_scores := (borda_scores cand ceqb).
Notation score_to_ranking := (score_to_ranking cand).
Notation tiebreak_set := (tiebreak_set cand ceqb).
Notation score_fn := (score_fn cand ceqb).
Notation run_one_shot := (run_one_shot cand ceqb).
Notation run_rating := (run_rating cand ceqb).
Notation run_rule := (run_rule cand ceqb).
Notation one_shot_params := (one_shot_params cand).
Notation one_shot_valid := (one_shot_valid cand).
Notation big := (big cand).
Notation rebuild := (rebuild cand).

(* on valid input each of these rules is the one-shot election of its parameters *)
Theorem c05_one_shot_valid_run : forall r (p : profile) k m tb,
  one_shot_params r p = Some (k, m, tb) -> one_shot_valid r p ->
  forall s, run_rule r p s = run_one_shot k m tb p s.
Proof. exact (one_shot_valid_run_eq cand ceqb). Qed.

(* (a) no group of the round-0 ranking straddles seat m: the tiebreak option is not consulted —
   whatever it is, an unknown name included, the run succeeds from every script, draws nothing,
   records no tiebreak and reports the round-0 ranking cut after m candidates *)
Theorem c05_tiebreak_unused : forall r (p : profile) k m tb d (s : mstate),
  one_shot_params r p = Some (k, m, tb) -> one_shot_valid r p -> score_fn k p = inl d ->
  (1 <= m <= Z.of_nat (length (cands p)))%Z -> ~ straddles_seat (score_to_ranking d true) m ->
  exists s0 s1, run_rule r p s = inl ([s0; s1], s) /\
    escores s0 = d /\ remaining s0 = score_to_ranking d true /\ tiebreaks s1 = [] /\
    elected s1 ++ remaining s1 = remaining s0 /\ Z.of_nat (length (flat (elected s1))) = m.
Proof. exact (one_shot_tiebreak_unused cand ceqb ceqb_spec). Qed.

(* (b) a group g straddles seat m and a tiebreak was requested: the run is decided by
   [tiebreak_set g]: its exception is the run's exception; its answer t is recorded, the first
   j = m - |pre| entries of t are elected after the groups before g *)
Theorem c05_tiebreak_decides : forall r (p : profile) k m kind d pre g post (s : mstate),
  one_shot_params r p = Some (k, m, Some kind) -> one_shot_valid r p -> score_fn k p = inl d ->
  score_to_ranking d true = pre ++ g :: post ->
  (Z.of_nat (length (flat pre)) < m < Z.of_nat (length (flat pre) + length g))%Z ->
  let j := (Z.to_nat m - length (flat pre))%nat in
  (forall e, tiebreak_set g (Some p) kind s = inr e -> run_rule r p s = inr e) /\
  (forall t s', tiebreak_set g (Some p) kind s = inl (t, s') ->
     exists s0 s1, run_rule r p s = inl ([s0; s1], s') /\
       escores s0 = d /\ remaining s0 = pre ++ g :: post /\
       elected s1 = pre ++ firstn j t /\ remaining s1 = skipn j t ++ post /\
       tiebreaks s1 = [(g, t)]).
Proof. exact (one_shot_tiebreak_decides cand ceqb ceqb_spec). Qed.

(* (c) "unless a tiebreak was requested": tiebreak = random on a straddling tie.  If the next
   draw of the script is an order l of exactly the tied group g, the run SUCCEEDS, consumes that
   one draw (logged as random.sample(g)), records (g, l) and elects the first j of l after the
   groups before g; with any other script the model refuses the replay (EScript) *)
Theorem c05_random_tiebreak : forall r (p : profile) k m d pre g post (s : mstate),
  one_shot_params r p = Some (k, m, Some TBRandom) -> one_shot_valid r p -> score_fn k p = inl d ->
  score_to_ranking d true = pre ++ g :: post ->
  (Z.of_nat (length (flat pre)) < m < Z.of_nat (length (flat pre) + length g))%Z ->
  let j := (Z.to_nat m - length (flat pre))%nat in
  (forall l rest, scr s = DPerm l :: rest -> Permutation l g -> NoDup l ->
     exists s0 s1, run_rule r p s = inl ([s0; s1], mkM rest (CSample g :: lg s)) /\
       escores s0 = d /\ remaining s0 = pre ++ g :: post /\
       elected s1 = pre ++ singletons (firstn j l) /\
       remaining s1 = singletons (skipn j l) ++ post /\
       tiebreaks s1 = [(g, singletons l)]) /\
  (~ (exists l rest, scr s = DPerm l :: rest /\ Permutation l g /\ NoDup l) ->
     run_rule r p s = inr EScript).
Proof. exact (one_shot_random_tiebreak cand ceqb ceqb_spec). Qed.

(* (d) an unknown tiebreak name: ValueError exactly when the seat count is out of range or the
   tiebreak is actually consulted (a group straddles seat m); no other exception; otherwise the
   run succeeds without a draw *)
Theorem c05_invalid_tiebreak : forall r (p : profile) k m d (s : mstate),
  one_shot_params r p = Some (k, m, Some TBInvalid) -> one_shot_valid r p -> score_fn k p = inl d ->
  (run_rule r p s = inr EValue <->
     (m < 1 \/ Z.of_nat (length (cands p)) < m)%Z \/ straddles_seat (score_to_ranking d true) m) /\
  (forall e, run_rule r p s = inr e -> e = EValue) /\
  ((exists sts, run_rule r p s = inl (sts, s)) \/ run_rule r p s = inr EValue).
Proof. exact (one_shot_invalid_tiebreak cand ceqb ceqb_spec). Qed.

(* (e) tiebreak = first_place / borda behind well-formed rankings (Plurality, Borda; also a rated
   profile without any ballot): the scores dtb of the profile exist; with r2 the tied group ranked
   by them, a script supplying one order per group of r2 with two or more members makes the run
   succeed, recording r2 with those groups replaced by the supplied orders; when the scores
   separate the whole group no draw is made at all; the only possible failure is a wrong script *)
Theorem c05_scored_tiebreak_run : forall r (p : profile) k m kind d pre g post,
  one_shot_params r p = Some (k, m, Some kind) -> one_shot_valid r p -> wf_profile p ->
  kind = TBFirstPlace \/ kind = TBBorda -> score_fn k p = inl d ->
  score_to_ranking d true = pre ++ g :: post ->
  (Z.of_nat (length (flat pre)) < m < Z.of_nat (length (flat pre) + length g))%Z ->
  exists dtb, match kind with TBBorda => borda_scores p | _ => first_place_votes p end = inl dtb /\
    let r2 := score_to_ranking (filter (fun q => memb (fst q) g) dtb) true in
    let j := (Z.to_nat m - length (flat pre))%nat in
    (forall (s : mstate) ls rest, scr s = map DPerm ls ++ rest ->
       Forall2 (fun l sg => Permutation l sg /\ NoDup l) ls (filter big r2) ->
       exists s0 s1,
         run_rule r p s = inl ([s0; s1], mkM rest (rev (map CSample (filter big r2)) ++ lg s)) /\
         escores s0 = d /\ remaining s0 = pre ++ g :: post /\
         elected s1 = pre ++ firstn j (rebuild r2 ls) /\
         remaining s1 = skipn j (rebuild r2 ls) ++ post /\
         tiebreaks s1 = [(g, rebuild r2 ls)]) /\
    (filter big r2 = [] -> forall s : mstate,
       exists s0 s1, run_rule r p s = inl ([s0; s1], s) /\
         elected s1 = pre ++ firstn j r2 /\ remaining s1 = skipn j r2 ++ post /\
         tiebreaks s1 = [(g, r2)]) /\
    (forall (s : mstate) e, run_rule r p s = inr e -> e = EScript).
Proof. exact (one_shot_scored_tiebreak_run cand ceqb ceqb_spec). Qed.

(* (f) tiebreak = first_place / borda in the rating family (GeneralRating, Limited, BlocPlurality,
   hence Rating, Approval, Cumulative): rated ballots carry no ranking, so the tiebreak scores
   cannot be computed: TypeError — exactly when the tiebreak is consulted (seat count in range, a
   group straddles seat m) and the profile has a ballot *)
Theorem c05_rated_scored_tiebreak : forall r (p : profile) k m kind d (s : mstate),
  one_shot_params r p = Some (k, m, Some kind) -> one_shot_valid r p -> rating_rule r ->
  kind = TBFirstPlace \/ kind = TBBorda -> score_fn k p = inl d ->
  (run_rule r p s = inr EType <->
     (1 <= m <= Z.of_nat (length (cands p)))%Z /\ straddles_seat (score_to_ranking d true) m /\
     ballots p <> []).
Proof. exact (rated_scored_tiebreak cand ceqb ceqb_spec). Qed.

(* C05 without the premise "every scored candidate is a candidate of the profile" of
   [c05_top_m_errors]: once GeneralRating has accepted its arguments and every ballot, a ballot
   scoring a non-candidate makes the run end in KeyError — whatever the seat count and the
   tiebreak; conversely (distinct candidates; tiebreak none / random / unknown) a KeyError only
   arises that way *)
Theorem c05_unknown_scored_candidate : forall m L k tb (p : profile) (s : mstate),
  rating_args_ok m L k -> Forall (score_ballot_ok L k) (ballots p) ->
  ((exists b c, In b (ballots p) /\ In c (map fst (sc b)) /\ ~ In c (cands p)) ->
     run_rating m L k tb p s = inr EKey) /\
  (NoDup (cands p) -> tb = None \/ tb = Some TBRandom \/ tb = Some TBInvalid ->
   run_rating m L k tb p s = inr EKey ->
     exists b c, In b (ballots p) /\ In c (map fst (sc b)) /\ ~ In c (cands p)).
Proof. exact (rating_unknown_candidate cand ceqb ceqb_spec). Qed.

End C05.

Print Assumptions c05_one_shot_valid_run.
Print Assumptions c05_tiebreak_unused.
Print Assumptions c05_tiebreak_decides.
Print Assumptions c05_random_tiebreak.
Print Assumptions c05_invalid_tiebreak.
Print Assumptions c05_scored_tiebreak_run.
Print Assumptions c05_rated_scored_tiebreak.
Print Assumptions c05_unknown_scored_candidate.

(* ------------------------------------------------------------------ *)
(* Non-vacuity (cand := positive). *)

Definition B (r : Core.ranking positive) (w : Q) := plain_ballot positive r w.
Definition sbal (d : list (positive * Q)) (w : Q) : ballot positive := mkBallot [] w d None None.
Definition st0 : Core.mstate positive := mkM [] [].

Ltac ex_nodup := repeat (constructor; [cbn; intuition discriminate|]); constructor.
Ltac ex_incl := let x := fresh "x" in let Hx := fresh "Hx" in
  intros x Hx; cbn in Hx |- *; intuition.

(* ranked: first-place votes 1, 1, 0 — candidates 1 and 2 tie for the only seat; Borda 5, 5, 2
   does not separate them *)
Definition ex_tie : Core.profile positive :=
  mkProfile [B [[1];[2];[3]]%positive 1; B [[2];[1]]%positive 1] [1;2;3]%positive.

Example ex_tie_valid : forall tb, one_shot_valid positive (RPlurality 1 tb) ex_tie /\
  one_shot_valid positive (RBorda 2 None tb) ex_tie /\ wf_profile positive ex_tie.
Proof.
  intros tb.
  assert (Hwf : wf_profile positive ex_tie).
  { split; [cbn; ex_nodup|].
    repeat (constructor; [cbn; repeat split;
      [discriminate|repeat (constructor; [discriminate|]); constructor|ex_nodup|ex_incl]|]).
    constructor. }
  assert (Hr : ranked_profile positive ex_tie).
  { split; [exact Hwf|]. repeat constructor. }
  split; [exact Hr|]. split; [split; [exact Hr|]|exact Hwf].
  split; [repeat constructor; discriminate|cbn; repeat split; discriminate].
Qed.

Example ex_tie_runs :
  (exists d, first_place_votes positive Pos.eqb ex_tie = inl d /\
     score_to_ranking positive d true = [] ++ [1;2]%positive :: [[3]]%positive) /\
  (* none: ValueError; unknown name: ValueError; random with an order of {1,2}: success *)
  run_rule positive Pos.eqb (RPlurality 1 None) ex_tie st0 = inr EValue /\
  run_rule positive Pos.eqb (RPlurality 1 (Some TBInvalid)) ex_tie st0 = inr EValue /\
  (exists s0 s1,
     run_rule positive Pos.eqb (RPlurality 1 (Some TBRandom)) ex_tie (mkM [DPerm [2;1]%positive] [])
       = inl ([s0; s1], mkM [] [CSample [1;2]%positive]) /\
     elected s1 = [[2]]%positive /\ remaining s1 = [[1];[3]]%positive /\
     tiebreaks s1 = [([1;2]%positive, [[2];[1]]%positive)]) /\
  (* random with a wrong script: refused *)
  run_rule positive Pos.eqb (RPlurality 1 (Some TBRandom)) ex_tie (mkM [DPerm [3;1]%positive] []) = inr EScript /\
  run_rule positive Pos.eqb (RPlurality 1 (Some TBRandom)) ex_tie st0 = inr EScript /\
  (* two seats: nothing straddles, the unknown name is never looked at *)
  (exists sts, run_rule positive Pos.eqb (RPlurality 2 (Some TBInvalid)) ex_tie st0 = inl (sts, st0)) /\
  (* borda does not separate 1 and 2 (5 each): one draw; on the Borda rule with two seats
     (scores 5, 5, 2) nothing straddles *)
  (exists s0 s1,
     run_rule positive Pos.eqb (RPlurality 1 (Some TBBorda)) ex_tie (mkM [DPerm [2;1]%positive] [])
       = inl ([s0; s1], mkM [] [CSample [1;2]%positive]) /\ elected s1 = [[2]]%positive) /\
  (exists sts, run_rule positive Pos.eqb (RBorda 2 None (Some TBInvalid)) ex_tie st0 = inl (sts, st0)).
Proof.
  split; [eexists; split; [vm_compute; reflexivity|vm_compute; reflexivity]|].
  split; [vm_compute; reflexivity|]. split; [vm_compute; reflexivity|].
  split; [do 2 eexists; split; [vm_compute; reflexivity|repeat split]|].
  split; [vm_compute; reflexivity|]. split; [vm_compute; reflexivity|].
  split; [eexists; vm_compute; reflexivity|].
  split; [do 2 eexists; split; [vm_compute; reflexivity|reflexivity]|].
  eexists; vm_compute; reflexivity.
Qed.

(* a first-place tie that the Borda scores do separate: no draw *)
Definition ex_sep : Core.profile positive :=
  mkProfile [B [[1];[2];[3]]%positive 1; B [[2];[3];[1]]%positive 1] [1;2;3]%positive.

Example ex_sep_runs :
  exists s0 s1,
    run_rule positive Pos.eqb (RPlurality 1 (Some TBBorda)) ex_sep st0 = inl ([s0; s1], st0) /\
    elected s1 = [[2]]%positive /\ tiebreaks s1 = [([1;2]%positive, [[2];[1]]%positive)].
Proof. do 2 eexists. split; [vm_compute; reflexivity|repeat split]. Qed.

(* rated: totals 1, 1, 2 — candidates 1 and 2 tie for the second seat *)
Definition ex_ptie : Core.profile positive :=
  mkProfile [sbal [(1%positive, 1); (2%positive, 1)] 1; sbal [(3%positive, 1)] 2] [1;2;3]%positive.

Example ex_ptie_valid : forall tb, one_shot_valid positive (RRating 2 1 None tb) ex_ptie /\
  one_shot_valid positive (RBloc 2 None tb) ex_ptie /\
  one_shot_valid positive (RLimited 2 2 tb) ex_ptie.
Proof.
  intros tb.
  assert (Hw : wf_rated_profile positive ex_ptie).
  { split; [cbn; ex_nodup|].
    repeat (constructor; [cbn; repeat split; [discriminate|ex_nodup|ex_incl]|]). constructor. }
  assert (Hb : forall L k, 1 <= L -> (match k with Some k' => 2 <= k' | None => True end) ->
            Forall (score_ballot_ok positive L k) (ballots ex_ptie)).
  { intros L k HL Hk. apply Forall_forall. intros b Hin. cbn in Hin.
    destruct Hin as [<-|[<-|[]]]; (split; [discriminate|]); cbn [sc sbal]; (split;
      [intros c q Hq; cbn [In] in Hq;
       repeat (destruct Hq as [Hq|Hq]; [inversion Hq; subst; split; [discriminate|exact HL]|]); destruct Hq|]);
      destruct k as [k'|]; try exact I; cbn [map snd qsum fold_right].
    - eapply Qle_trans; [|exact Hk]. vm_compute. discriminate.
    - eapply Qle_trans; [|exact Hk]. vm_compute. discriminate. }
  split; [|split].
  - split; [split; [discriminate|split; [reflexivity|exact I]]|].
    split; [apply Hb; [discriminate|exact I]|exact Hw].
  - split; [split; [discriminate|split; [reflexivity|split; [reflexivity|discriminate]]]|].
    split; [apply Hb; [discriminate|discriminate]|exact Hw].
  - split; [discriminate|]. split; [split; [discriminate|split; [reflexivity|split; [reflexivity|discriminate]]]|].
    split; [apply Hb; discriminate|exact Hw].
Qed.

Example ex_ptie_runs :
  (exists d, score_from_scores positive Pos.eqb ex_ptie = inl d /\
     score_to_ranking positive d true = [[3]]%positive ++ [1;2]%positive :: []) /\
  (* borda / first_place on rated ballots: TypeError, only because the tie straddles seat 2 *)
  run_rule positive Pos.eqb (RRating 2 1 None (Some TBBorda)) ex_ptie st0 = inr EType /\
  run_rule positive Pos.eqb (RBloc 2 None (Some TBFirstPlace)) ex_ptie st0 = inr EType /\
  run_wrule positive Pos.eqb (WApproval 2 (Some TBBorda)) ex_ptie st0 = inr EType /\
  (exists sts, run_rule positive Pos.eqb (RRating 1 1 None (Some TBBorda)) ex_ptie st0 = inl (sts, st0)) /\
  (* random: success along the drawn order *)
  (exists s0 s1,
     run_rule positive Pos.eqb (RLimited 2 2 (Some TBRandom)) ex_ptie (mkM [DPerm [2;1]%positive] [])
       = inl ([s0; s1], mkM [] [CSample [1;2]%positive]) /\
     elected s1 = [[3];[2]]%positive /\ remaining s1 = [[1]]%positive /\
     tiebreaks s1 = [([1;2]%positive, [[2];[1]]%positive)]) /\
  run_rule positive Pos.eqb (RRating 2 1 None (Some TBInvalid)) ex_ptie st0 = inr EValue.
Proof.
  split; [eexists; split; [vm_compute; reflexivity|vm_compute; reflexivity]|].
  split; [vm_compute; reflexivity|].
  split; [vm_compute; reflexivity|]. split; [vm_compute; reflexivity|].
  split; [eexists; vm_compute; reflexivity|].
  split; [do 2 eexists; split; [vm_compute; reflexivity|repeat split]|].
  vm_compute. reflexivity.
Qed.

(* a ballot scoring candidate 9, who is not a candidate: KeyError, also with m out of range *)
Definition ex_unknown : Core.profile positive :=
  mkProfile [sbal [(1%positive, 1)] 1; sbal [(2%positive, 1); (9%positive, 1)] 1] [1;2;3]%positive.

Example ex_unknown_runs :
  rating_args_ok 1 1 None /\ Forall (score_ballot_ok positive 1 None) (ballots ex_unknown) /\
  (exists b c, In b (ballots ex_unknown) /\ In c (map fst (sc b)) /\ ~ In c (cands ex_unknown)) /\
  run_rating positive Pos.eqb 1 1 None None ex_unknown st0 = inr EKey /\
  run_rating positive Pos.eqb 7 1 None (Some TBBorda) ex_unknown st0 = inr EKey.
Proof.
  split; [split; [discriminate|split; [reflexivity|exact I]]|]. split.
  - apply Forall_forall. intros b Hin. cbn in Hin.
    destruct Hin as [<-|[<-|[]]]; (split; [discriminate|]); cbn [sc sbal]; (split; [|exact I]);
      intros c q Hq; cbn [In] in Hq;
      repeat (destruct Hq as [Hq|Hq]; [inversion Hq; subst; split; discriminate|]); destruct Hq.
  - split.
    + eexists. exists 9%positive. split; [right; left; reflexivity|].
      split; [cbn; right; left; reflexivity|]. cbn. intuition discriminate.
    + split; vm_compute; reflexivity.
Qed.
