(* Properties/C20.v — C20: invalid requests are rejected up front with the documented error.
   Statements only; proofs are in Proofs/C20_validation.v (and C03_transfer.v, C04_scoring.v,
   C11_profile.v for the imported ones).

   Each theorem characterises, for ARBITRARY inputs, when a check fails and with which exception
   ([EType] = TypeError, [EValue] = ValueError, [EAttr] = AttributeError), and in which order the
   constructors apply their checks.  The generator-side preconditions of the property (bloc
   proportions, cohesion, bloc names, disjoint intervals) are not in this file.
   Vocabulary: [valid_vector] (Spec/ScoreSpec.v), [rating_args_ok/bad], [score_ballot_ok/bad]
   (Spec/RatingSpec.v). *)
From VK Require Import Base Core STV Pairwise Rules PV Election.
From VK.Spec Require Import ScoreSpec RatingSpec.
From VK.Proofs Require Import C20_validation.
From Coq Require Import Permutation.

(* "no partial result": a call returns a value or an exception, never both and never neither *)
Theorem c20_no_partial_result : forall (A : Type) (r : res A),
  ((exists a, r = inl a) \/ (exists e, r = inr e)) /\
  ~ ((exists a, r = inl a) /\ (exists e, r = inr e)).
Proof. exact no_partial_result. Qed.

(* V6: Alaska needs m_1 >= m_2 >= 1 *)
Theorem c20_alaska_order : forall m1 m2,
  (alaska_args m1 m2 = inr EValue <-> (m1 <= 0 \/ m2 <= 0 \/ m1 < m2)%Z) /\
  (forall e, alaska_args m1 m2 = inr e -> e = EValue) /\
  (alaska_args m1 m2 = inl tt <-> (1 <= m2 <= m1)%Z).
Proof. exact alaska_args_iff. Qed.

(* V7: a score vector is refused, with ValueError, iff some entry is negative or some entry
   exceeds its predecessor *)
Theorem c20_score_vector : forall v : list Q,
  (validate_vector v = inr EValue <->
     (exists x, In x v /\ x < 0) \/ (exists pre x y post, v = pre ++ x :: y :: post /\ x < y)) /\
  (forall e, validate_vector v = inr e -> e = EValue) /\
  (validate_vector v = inl tt <-> valid_vector v).
Proof. exact validate_vector_err_iff. Qed.

(* V5 (arguments): GeneralRating(m, L, k) is refused, with ValueError, iff m <= 0 or L <= 0 or a
   budget is given with k <= 0 or L > k *)
Theorem c20_rating_args : forall m L k,
  (rating_args m L k = inr EValue <->
     (m <= 0)%Z \/ L <= 0 \/ exists k', k = Some k' /\ (k' <= 0 \/ k' < L)) /\
  (forall e, rating_args m L k = inr e -> e = EValue) /\
  (rating_args m L k = inl tt <-> rating_args_ok m L k).
Proof. exact rating_args_iff. Qed.

Print Assumptions c20_no_partial_result.
Print Assumptions c20_alaska_order.
Print Assumptions c20_score_vector.
Print Assumptions c20_rating_args.

Section C20.
Variable cand : Type.
Variable ceqb : cand -> cand -> bool.
Hypothesis ceqb_spec : forall a b, reflect (a = b) (ceqb a b).

Notation ballot := (ballot cand).
Notation profile := (profile cand).
Notation mstate := (mstate cand).
Notation ranking_validate := (ranking_validate cand).
Notation stv_validate := (stv_validate cand).
Notation pv_validate := (pv_validate cand).
Notation rating_validate := (rating_validate cand).
Notation stv_init := (stv_init cand).
Notation dictator_args := (dictator_args cand).
Notation run_stv := (run_stv cand ceqb).
Notation run_plurality := (run_plurality cand ceqb).
Notation run_toptwo := (run_toptwo cand ceqb).
Notation run_alaska := (run_alaska cand ceqb).
Notation run_dictator := (run_dictator cand ceqb).
Notation run_dominating := (run_dominating cand ceqb).
Notation run_condo := (run_condo cand ceqb).
Notation run_rule := (run_rule cand ceqb).
Notation run_rating := (run_rating cand ceqb).
Notation run_one_shot := (run_one_shot cand ceqb).
Notation run_pv := (run_pv cand ceqb).
Notation score_fn := (score_fn cand ceqb).
Notation score_ballot_ok := (score_ballot_ok cand).
Notation score_ballot_bad := (score_ballot_bad cand).

(* V1: ranking rules.  The profile check fails, and then with TypeError, iff some ballot has no
   ranking.  In that case: Plurality (= SNTV), TopTwo, DominatingSets and CondoBorda raise
   TypeError whatever their other arguments (the profile is checked first); Borda validates its
   score vector first, Alaska its stage sizes, (Boosted)RandomDictator its seat count — each
   raising ValueError before the profile is looked at *)
Theorem c20_ranking_required : forall p : profile,
  (ranking_validate p = inr EType <-> exists b, In b (ballots p) /\ rk b = []) /\
  (forall e, ranking_validate p = inr e -> e = EType) /\
  ((exists b, In b (ballots p) /\ rk b = []) ->
     (forall m tb s, run_plurality m tb p s = inr EType) /\
     (forall tb s, run_toptwo tb p s = inr EType) /\
     (forall s, run_dominating p s = inr EType) /\
     (forall m s, run_condo m p s = inr EType) /\
     (forall m v tb s,
        run_rule (RBorda m v tb) p s =
        match validate_vector (match v with Some (x :: l) => x :: l | _ => default_borda cand p end) with
        | inl _ => inr EType
        | inr _ => inr EValue
        end) /\
     (forall m1 m2 cfg s,
        run_alaska m1 m2 cfg p s =
        match alaska_args m1 m2 with inl _ => inr EType | inr _ => inr EValue end) /\
     (forall boosted m s,
        run_dictator boosted m p s =
        match dictator_args m p with inl _ => inr EType | inr _ => inr EValue end)).
Proof. exact (c20_ranking_required_proof cand ceqb). Qed.

(* V2: the STV family refuses, with TypeError, exactly the profiles having a ballot without a
   ranking or with a tied position — before the seat count or the quota name is looked at *)
Theorem c20_stv_no_ties : forall p : profile,
  (stv_validate p = inr EType <->
     exists b, In b (ballots p) /\ (rk b = [] \/ exists g, In g (rk b) /\ (1 < length g)%nat)) /\
  (forall e, stv_validate p = inr e -> e = EType) /\
  ((exists b, In b (ballots p) /\ (rk b = [] \/ exists g, In g (rk b) /\ (1 < length g)%nat)) ->
     forall cfg s, stv_init cfg p = inr EType /\ run_stv cfg p s = inr EType).
Proof. exact (c20_stv_no_ties_proof cand ceqb). Qed.

(* ... then (since the fix "random transfer refuses non-integer weights up front") TypeError iff
   the transfer is the random one and some ballot has a non-integral weight; then ValueError iff
   m <= 0, m > number of candidates, or the quota name is unknown; m = number of candidates is
   accepted; every error of the constructor is the error of the run *)
Theorem c20_m_range : forall cfg (p : profile),
  stv_validate p = inl tt ->
  (stv_init cfg p = inr EType <->
     s_transfer cfg = TRandom /\ exists b, In b (ballots p) /\ is_integral (wt b) = false) /\
  (stv_init cfg p = inr EValue <->
     ~ (s_transfer cfg = TRandom /\ exists b, In b (ballots p) /\ is_integral (wt b) = false) /\
     (s_m cfg <= 0 \/ Z.of_nat (length (cands p)) < s_m cfg \/ s_quota cfg = QBad)%Z) /\
  (forall e, stv_init cfg p = inr e -> e = EType \/ e = EValue) /\
  (forall e, stv_init cfg p = inr e -> forall s, run_stv cfg p s = inr e) /\
  (~ (s_transfer cfg = TRandom /\ exists b, In b (ballots p) /\ is_integral (wt b) = false) ->
   (1 <= s_m cfg <= Z.of_nat (length (cands p)))%Z -> s_quota cfg <> QBad ->
     exists t, stv_init cfg p = inl t).
Proof. exact (c20_m_range_proof cand ceqb). Qed.

(* V3: PluralityVeto: TypeError iff a ballot has no ranking or a non-integer weight; then
   ValueError for a seat count outside 1..n; then, with no tiebreak rule and a tied position on
   some ballot, AttributeError (not one of the errors the property text lists: recorded as it is) *)
Theorem c20_pv : forall p : profile,
  (pv_validate p = inr EType <->
     exists b, In b (ballots p) /\ (rk b = [] \/ is_integral (wt b) = false)) /\
  (forall e, pv_validate p = inr e -> e = EType) /\
  (forall m tb s,
     ((exists b, In b (ballots p) /\ (rk b = [] \/ is_integral (wt b) = false)) ->
        run_pv m tb p s = inr EType) /\
     (pv_validate p = inl tt -> (m <= 0 \/ Z.of_nat (length (cands p)) < m)%Z ->
        run_pv m tb p s = inr EValue) /\
     (pv_validate p = inl tt -> (1 <= m <= Z.of_nat (length (cands p)))%Z -> tb = None ->
        (exists b g, In b (ballots p) /\ In g (rk b) /\ (1 < length g)%nat) ->
        run_pv m tb p s = inr EAttr)).
Proof. exact (c20_pv_proof cand ceqb). Qed.

(* V4: the random transfer raises TypeError iff a ballot of the pile has a non-integer weight
   or no ranking (from C03) *)
Theorem c20_random_transfer_integer : forall w fpv (bs : list ballot) t s,
  (rand_transfer cand ceqb w fpv bs t s = inr EType <->
     exists b, In b bs /\ (is_integral (wt b) = false \/ rk b = [])) /\
  (forall e, rand_transfer cand ceqb w fpv bs t s = inr e -> e = EType \/ e = EValue \/ e = EScript).
Proof. exact (c20_random_transfer_integer_proof cand ceqb). Qed.

(* V5 (profile): score rules refuse, with TypeError, exactly the profiles having a ballot without
   scores, with a score outside [0, L], or over budget *)
Theorem c20_scores_required : forall m L k tb (p : profile) s,
  (rating_validate L k p = inr EType <-> exists b, In b (ballots p) /\ score_ballot_bad L k b) /\
  (forall e, rating_validate L k p = inr e -> e = EType) /\
  (rating_args_ok m L k -> (exists b, In b (ballots p) /\ score_ballot_bad L k b) ->
     run_rating m L k tb p s = inr EType).
Proof. exact (c20_scores_required_proof cand ceqb). Qed.

Theorem c20_rating_limits : forall m L k,
  (rating_args m L k = inr EValue <->
     (m <= 0)%Z \/ L <= 0 \/ exists k', k = Some k' /\ (k' <= 0 \/ k' < L)) /\
  (forall e, rating_args m L k = inr e -> e = EValue) /\
  (forall tb (p : profile) s,
     ((m <= 0)%Z \/ L <= 0 \/ exists k', k = Some k' /\ (k' <= 0 \/ k' < L)) ->
     run_rating m L k tb p s = inr EValue).
Proof. exact (c20_rating_limits_proof cand ceqb). Qed.

(* Limited(m, k): ValueError iff k > m (tested first), m <= 0 or k <= 0; otherwise the profile is
   validated against L = k, budget k *)
Theorem c20_limited_limits : forall m k tb (p : profile) s,
  ((inject_Z m < k \/ (m <= 0)%Z \/ k <= 0) -> run_rule (RLimited m k tb) p s = inr EValue) /\
  (~ (inject_Z m < k \/ (m <= 0)%Z \/ k <= 0) ->
     run_rule (RLimited m k tb) p s =
     match rating_validate k (Some k) p with
     | inr e => inr e
     | inl _ => run_one_shot SKBallotScores m tb p s
     end).
Proof. exact (c20_limited_limits_proof cand ceqb). Qed.

(* V8: (Boosted)RandomDictator *)
Theorem c20_dictator_m : forall m (p : profile),
  (dictator_args m p = inr EValue <-> (m <= 0 \/ Z.of_nat (length (cands p)) < m)%Z) /\
  (forall e, dictator_args m p = inr e -> e = EValue) /\
  (dictator_args m p = inl tt <-> (1 <= m <= Z.of_nat (length (cands p)))%Z).
Proof. exact (dictator_args_iff cand). Qed.

(* V9: duplicate candidates (from C11) *)
Theorem c20_dup_candidates : forall (bs : list ballot) (cs : list cand),
  (mk_profile cand ceqb bs cs = inr EValue <-> ~ NoDup cs) /\
  (forall e, mk_profile cand ceqb bs cs = inr e -> e = EValue) /\
  (NoDup cs -> exists p, mk_profile cand ceqb bs cs = inl p).
Proof. exact (c20_dup_candidates_proof cand ceqb ceqb_spec). Qed.

(* V10: one-shot rules (Plurality/SNTV, Borda, the rating family) with m < 1 or m > number of
   candidates: ValueError from elect_cands_from_set_ranking, once the round-0 scores exist *)
Theorem c20_elect_m_range : forall k m tb (p : profile) s,
  (m < 1 \/ Z.of_nat (length (cands p)) < m)%Z ->
  run_one_shot k m tb p s = match score_fn k p with inl _ => inr EValue | inr e => inr e end.
Proof. exact (c20_elect_m_range_proof cand ceqb). Qed.

Theorem c20_elect_m_range_rules : forall m tb (p : profile) s,
  (m < 1 \/ Z.of_nat (length (cands p)) < m)%Z ->
  (ranking_validate p = inl tt ->
     run_plurality m tb p s =
     match first_place_votes cand ceqb p with inl _ => inr EValue | inr e => inr e end) /\
  (forall v,
     validate_vector (match v with Some (x :: l) => x :: l | _ => default_borda cand p end) = inl tt ->
     ranking_validate p = inl tt ->
     run_rule (RBorda m v tb) p s =
     match score_rankings cand ceqb p
             (match v with Some (x :: l) => x :: l | _ => default_borda cand p end) with
     | inl _ => inr EValue
     | inr e => inr e
     end) /\
  (forall L k, rating_args_ok m L k -> Forall (score_ballot_ok L k) (ballots p) ->
     run_rating m L k tb p s =
     match score_from_scores cand ceqb p with inl _ => inr EValue | inr e => inr e end).
Proof. exact (c20_elect_m_range_rules_proof cand ceqb). Qed.

(* on a well-formed ranked profile: ValueError outright; m = n + 1 and m = 0 rejected *)
Theorem c20_plurality_m_range : forall m tb (p : profile) s,
  wf_profile cand p -> (m < 1 \/ Z.of_nat (length (cands p)) < m)%Z ->
  run_plurality m tb p s = inr EValue.
Proof. exact (c20_plurality_m_range_proof cand ceqb ceqb_spec). Qed.

End C20.

Print Assumptions c20_ranking_required.
Print Assumptions c20_stv_no_ties.
Print Assumptions c20_m_range.
Print Assumptions c20_pv.
Print Assumptions c20_random_transfer_integer.
Print Assumptions c20_scores_required.
Print Assumptions c20_rating_limits.
Print Assumptions c20_limited_limits.
Print Assumptions c20_dictator_m.
Print Assumptions c20_dup_candidates.
Print Assumptions c20_elect_m_range.
Print Assumptions c20_elect_m_range_rules.
Print Assumptions c20_plurality_m_range.

(* ------------------------------------------------------------------ *)
(* Non-vacuity (cand := positive): each precondition violated alone, in the LAST ballot, at the
   smallest margin; and the boundary cases accepted. *)

Definition rb (r : list (list positive)) (w : Q) : ballot positive := plain_ballot positive r w.
Definition sbal (d : list (positive * Q)) (w : Q) : ballot positive := mkBallot [] w d None None.
Definition st0 : Core.mstate positive := mkM [] [].

Definition ex_good : Core.profile positive :=
  mkProfile [rb [[1];[2];[3]]%positive 3; rb [[2];[1]]%positive 2; rb [[3]]%positive 1] [1;2;3]%positive.
(* the last ballot has no ranking *)
Definition ex_norank : Core.profile positive :=
  mkProfile [rb [[1];[2];[3]]%positive 2; rb [[2];[1]]%positive 1; rb [] 1] [1;2;3]%positive.
(* the last ballot has a tied position *)
Definition ex_tied : Core.profile positive :=
  mkProfile [rb [[1];[2];[3]]%positive 2; rb [[2];[1]]%positive 1; rb [[3];[1;2]]%positive 1] [1;2;3]%positive.
(* the last ballot has weight 3/2 *)
Definition ex_frac : Core.profile positive :=
  mkProfile [rb [[1];[2];[3]]%positive 2; rb [[2];[1]]%positive 1; rb [[3]]%positive (3#2)] [1;2;3]%positive.

Definition cfg (m : Z) (q : quota_kind) : stv_cfg := mkStv m q true TFractional None.

Example ex_ranking_required :
  (exists b, In b (ballots ex_norank) /\ rk b = []) /\
  run_plurality positive Pos.eqb 1 None ex_norank st0 = inr EType /\
  run_plurality positive Pos.eqb 7 None ex_norank st0 = inr EType /\
  run_rule positive Pos.eqb (RBorda 1 (Some [1; 2]) None) ex_norank st0 = inr EValue /\
  run_rule positive Pos.eqb (RBorda 1 (Some [2; 1]) None) ex_norank st0 = inr EType /\
  run_alaska positive Pos.eqb 1 2 (cfg 1 QDroop) ex_norank st0 = inr EValue /\
  run_alaska positive Pos.eqb 2 1 (cfg 1 QDroop) ex_norank st0 = inr EType /\
  run_dictator positive Pos.eqb false 4 ex_norank st0 = inr EValue /\
  run_dictator positive Pos.eqb false 3 ex_norank st0 = inr EType /\
  (exists sts, run_plurality positive Pos.eqb 1 None ex_good st0 = inl (sts, st0)).
Proof.
  split; [eexists; split; [right; right; left; reflexivity|reflexivity]|].
  repeat (split; [vm_compute; reflexivity|]). eexists. vm_compute. reflexivity.
Qed.

Example ex_stv :
  run_stv positive Pos.eqb (cfg 1 QDroop) ex_tied st0 = inr EType /\
  run_stv positive Pos.eqb (cfg 0 QBad) ex_tied st0 = inr EType /\
  run_stv positive Pos.eqb (cfg 1 QDroop) ex_norank st0 = inr EType /\
  STV.stv_validate positive ex_good = inl tt /\
  run_stv positive Pos.eqb (cfg 0 QDroop) ex_good st0 = inr EValue /\
  run_stv positive Pos.eqb (cfg 4 QDroop) ex_good st0 = inr EValue /\
  run_stv positive Pos.eqb (cfg 1 QBad) ex_good st0 = inr EValue /\
  (* random transfer and a weight 3/2: TypeError, even with a bad seat count and quota name *)
  STV.stv_validate positive ex_frac = inl tt /\
  run_stv positive Pos.eqb (mkStv 0 QBad true TRandom None) ex_frac st0 = inr EType /\
  run_stv positive Pos.eqb (mkStv 1 QDroop true TRandom None) ex_frac st0 = inr EType /\
  run_stv positive Pos.eqb (cfg 0 QBad) ex_frac st0 = inr EValue /\
  (exists t, STV.stv_init positive (cfg 3 QDroop) ex_good = inl t) /\
  (exists sts, run_stv positive Pos.eqb (cfg 1 QDroop) ex_good st0 = inl (sts, st0)).
Proof.
  repeat (split; [vm_compute; reflexivity|]). split; eexists; vm_compute; reflexivity.
Qed.

Example ex_pv :
  run_pv positive Pos.eqb 1 None ex_frac st0 = inr EType /\
  run_pv positive Pos.eqb 1 None ex_norank st0 = inr EType /\
  PV.pv_validate positive ex_tied = inl tt /\
  run_pv positive Pos.eqb 4 None ex_tied st0 = inr EValue /\
  run_pv positive Pos.eqb 0 (Some TBRandom) ex_tied st0 = inr EValue /\
  run_pv positive Pos.eqb 3 None ex_tied st0 = inr EAttr.
Proof. repeat split; vm_compute; reflexivity. Qed.

Example ex_random_transfer :
  rand_transfer positive Pos.eqb 3%positive 2 (ballots ex_frac) 1 st0 = inr EType /\
  rand_transfer positive Pos.eqb 1%positive 2 (ballots ex_norank) 1 st0 = inr EType.
Proof. split; vm_compute; reflexivity. Qed.

Example ex_args :
  alaska_args 2 3 = inr EValue /\ alaska_args 0 0 = inr EValue /\ alaska_args 2 2 = inl tt /\
  validate_vector [3; 1; 2] = inr EValue /\ validate_vector [1; -1#2] = inr EValue /\
  validate_vector [2; 2; 0] = inl tt /\
  rating_args 0 1 None = inr EValue /\ rating_args 1 0 None = inr EValue /\
  rating_args 1 1 (Some 0) = inr EValue /\ rating_args 1 2 (Some (3#2)) = inr EValue /\
  rating_args 1 2 (Some 2) = inl tt /\
  Rules.dictator_args positive 4 ex_good = inr EValue /\
  Rules.dictator_args positive 3 ex_good = inl tt /\
  mk_profile positive Pos.eqb [] [1;2;1]%positive = inr EValue.
Proof. repeat split. Qed.

(* score rules: the last ballot without scores / one score above L / below 0 / over budget;
   Limited with k = m + 1 *)
Example ex_scores :
  let good := sbal [(1%positive, 2); (2%positive, 1)] 1 in
  run_rating positive Pos.eqb 1 2 (Some 3) None (mkProfile [good; rb [[1]]%positive 1] [1;2]%positive) st0
    = inr EType /\
  run_rating positive Pos.eqb 1 2 (Some 3) None
    (mkProfile [good; sbal [(1%positive, 21#10)] 1] [1;2]%positive) st0 = inr EType /\
  run_rating positive Pos.eqb 1 2 (Some 3) None
    (mkProfile [good; sbal [(1%positive, -1#10)] 1] [1;2]%positive) st0 = inr EType /\
  run_rating positive Pos.eqb 1 2 (Some 3) None
    (mkProfile [good; sbal [(1%positive, 2); (2%positive, 11#10)] 1] [1;2]%positive) st0 = inr EType /\
  (exists sts, run_rating positive Pos.eqb 1 2 (Some 3) None
    (mkProfile [good; sbal [(1%positive, 2); (2%positive, 1)] 1] [1;2]%positive) st0 = inl (sts, st0)) /\
  run_rating positive Pos.eqb 3 2 (Some 3) None (mkProfile [good] [1;2]%positive) st0 = inr EValue /\
  run_rule positive Pos.eqb (RLimited 1 2 None) (mkProfile [good] [1;2]%positive) st0 = inr EValue.
Proof.
  cbv zeta. repeat (split; [vm_compute; reflexivity|]).
  split; [eexists; vm_compute; reflexivity|]. split; vm_compute; reflexivity.
Qed.

(* m = n accepted, m = n + 1 and m = 0 rejected (Plurality on a well-formed profile) *)
Example ex_plurality_m :
  wf_profile positive ex_good /\
  run_plurality positive Pos.eqb 4 None ex_good st0 = inr EValue /\
  run_plurality positive Pos.eqb 0 None ex_good st0 = inr EValue /\
  (exists sts, run_plurality positive Pos.eqb 3 None ex_good st0 = inl (sts, st0)).
Proof.
  split.
  - split; [cbn; repeat (constructor; [cbn; intuition discriminate|]); constructor|].
    repeat (constructor; [cbn; repeat split;
      [discriminate|repeat (constructor; [discriminate|]); constructor
      |repeat (constructor; [cbn; intuition discriminate|]); constructor
      |intros x Hx; cbn in Hx |- *; intuition]|]).
    constructor.
  - split; [vm_compute; reflexivity|]. split; [vm_compute; reflexivity|].
    eexists. vm_compute. reflexivity.
Qed.
