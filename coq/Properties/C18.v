(* Properties/C18.v — cast-vote-record loading and saving keep every vote.
   Statements only; proofs are in Proofs/C18_loaders.v.  The model (Model/Loaders.v) starts from the
   PARSED table: a CSV table is a list of rows, a row a list of cells (CBlank | CStr name | CNum q |
   CId i); a Scottish file is a list of token rows (TEmpty | TNum z | TStr s has_candidate_word).
   File parsing itself is exercised by the differential harness, not modelled.
   Spec vocabulary (Spec/LoaderSpec.v):
     cell_at r i          the cell of row r in column i
     pattern ranks r      := map (cell_at r) ranks        (projection on the rank columns, in order)
     cell_name c          the candidate of a rank cell; an empty cell is [blank]
     pattern_ranking k    := map (fun c => [cell_name c]) k
     sel_ranks n rc wc ic the rank columns: rc, or by default all columns but the id/weight column
     rows_with ranks k rows   the rows having pattern k, in row order (a [filter] with [row_eqb])
     num_at w r / id_at i r   the number / id held by row r in column w / i
     wf_table n rows rc wc ic  well-formed table (see the record in Spec/LoaderSpec.v)
     scot_clean raw       the rows load_scottish keeps (empty tokens, then empty rows, dropped)
     scot_counted data    number of rows whose first token carries the candidate word
     wf_scot raw k seats bal cs ward wrest   well-formed Scottish table: after cleaning it is
          [TNum k; seats] :: ballot rows (w, i1..im) ++ k candidate rows ++ [ward :: wrest]
     scot_ranking names is    the ranking [[name_i1]; ...; [name_im]] (1-based numbers) *)
From VK Require Import Base Core Loaders EditSpec LoaderSpec C18_loaders.
From Coq Require Import Lia.

#[local] Arguments CBlank {cand}.
#[local] Arguments CStr {cand}.
#[local] Arguments CNum {cand}.
#[local] Arguments CId {cand}.
#[local] Arguments TEmpty {cand}.
#[local] Arguments TNum {cand}.
#[local] Arguments TStr {cand}.

Section C18.
Variable cand : Type.
Variable ceqb : cand -> cand -> bool.
Hypothesis ceqb_spec : forall a b, reflect (a = b) (ceqb a b).
Variable blank : cand.

Notation cell := (cell cand).
Notation tok := (tok cand).
Notation ballot := (ballot cand).
Notation profile := (profile cand).
Notation cell_eqb := (cell_eqb cand ceqb).
Notation row_eqb := (row_eqb cand ceqb).
Notation load_csv := (load_csv cand ceqb blank).
Notation load_scottish := (load_scottish cand ceqb).
Notation to_csv_rows := (to_csv_rows cand).
Notation cell_at := (cell_at cand).
Notation pattern := (pattern cand).
Notation cell_name := (cell_name cand blank).
Notation pattern_ranking := (pattern_ranking cand blank).
Notation rows_with := (rows_with cand ceqb).
Notation num_at := (num_at cand).
Notation id_at := (id_at cand).
Notation rank_cell := (rank_cell cand blank).
Notation wf_table := (wf_table cand blank).
Notation ranking_eqb := (ranking_eqb cand ceqb).
Notation wtof_rk := (wtof_rk cand ceqb).
Notation total_wt := (total_wt cand).
Notation cast_cands := (cast_cands cand ceqb).
Notation scot_clean := (scot_clean cand).
Notation scot_counted := (scot_counted cand).
Notation crow_name := (crow_name cand).
Notation crow_party := (crow_party cand).
Notation scot_ranking := (scot_ranking cand).
Notation wf_scot := (wf_scot cand).
Notation tok_has_word := (tok_has_word cand).

(* ---------- A1. load_csv: the documented errors, in order ---------- *)

(* empty data first; then (with an id column present in every row) a blank id, then a duplicated
   id; without an id column neither ValueError nor DataError can occur *)
Theorem c18_csv_errors : forall ncols rows rc wc ic,
  (load_csv ncols rows rc wc ic = inr EEmptyData <-> rows = []) /\
  (ic = None -> load_csv ncols rows rc wc ic <> inr EValue /\
                load_csv ncols rows rc wc ic <> inr EData) /\
  (forall i, ic = Some i -> rows <> [] -> (forall r, In r rows -> (i < length r)%nat) ->
     (load_csv ncols rows rc wc ic = inr EValue <-> exists r, In r rows /\ cell_at r i = CBlank) /\
     (load_csv ncols rows rc wc ic = inr EData <->
        (forall r, In r rows -> cell_at r i <> CBlank) /\
        exists pre r1 mid r2 post, rows = pre ++ r1 :: mid ++ r2 :: post /\
                                   cell_eqb (cell_at r1 i) (cell_at r2 i) = true)).
Proof. exact (csv_errors cand ceqb blank). Qed.

(* ---------- A2. load_csv on a well-formed table ---------- *)

Theorem c18_csv_total : forall ncols rows rc wc ic,
  wf_table ncols rows rc wc ic -> exists p, load_csv ncols rows rc wc ic = inl p.
Proof. exact (load_csv_total cand ceqb ceqb_spec blank). Qed.

(* on rank cells the row comparison used to group patterns is literal equality *)
Theorem c18_row_eqb_literal : forall a b : list cell,
  Forall rank_cell a -> (row_eqb a b = true <-> a = b).
Proof. exact (row_eqb_rank_cells cand ceqb ceqb_spec blank). Qed.

(* [rows_with] selects exactly the rows with that pattern (in row order, being a filter) *)
Theorem c18_rows_with : forall ncols rows rc wc ic, wf_table ncols rows rc wc ic ->
  forall k r, In r (rows_with (sel_ranks ncols rc wc ic) k rows) <->
              In r rows /\ pattern (sel_ranks ncols rc wc ic) r = k.
Proof. exact (rows_with_In cand ceqb ceqb_spec blank). Qed.

(* ballots <-> distinct patterns, one to one *)
Theorem c18_patterns_once : forall ncols rows rc wc ic, wf_table ncols rows rc wc ic ->
  forall p, load_csv ncols rows rc wc ic = inl p ->
  NoDup (map rk (ballots p)) /\
  (forall r, In r rows ->
     exists b, In b (ballots p) /\ rk b = pattern_ranking (pattern (sel_ranks ncols rc wc ic) r)) /\
  (forall b, In b (ballots p) ->
     exists r, In r rows /\ rk b = pattern_ranking (pattern (sel_ranks ncols rc wc ic) r)).
Proof. exact (csv_patterns_once cand ceqb ceqb_spec blank). Qed.

(* positions follow the order of the selected rank columns; blanks are the explicit [blank] *)
Theorem c18_column_order : forall ncols rows rc wc ic, wf_table ncols rows rc wc ic ->
  forall p, load_csv ncols rows rc wc ic = inl p ->
  forall b, In b (ballots p) ->
  exists r, In r rows /\ rk b = map (fun i => [cell_name (cell_at r i)]) (sel_ranks ncols rc wc ic).
Proof. exact (csv_column_order cand ceqb ceqb_spec blank). Qed.

Theorem c18_weight_is_count : forall ncols rows rc wc ic, wf_table ncols rows rc wc ic ->
  forall p, load_csv ncols rows rc wc ic = inl p -> wc = None ->
  forall b r, In b (ballots p) -> In r rows ->
  rk b = pattern_ranking (pattern (sel_ranks ncols rc wc ic) r) ->
  wt b = Qnat (length (rows_with (sel_ranks ncols rc wc ic) (pattern (sel_ranks ncols rc wc ic) r) rows)).
Proof. exact (csv_weight_is_count cand ceqb ceqb_spec blank). Qed.

Theorem c18_weight_is_sum : forall ncols rows rc wc ic, wf_table ncols rows rc wc ic ->
  forall p, load_csv ncols rows rc wc ic = inl p -> forall w, wc = Some w ->
  forall b r, In b (ballots p) -> In r rows ->
  rk b = pattern_ranking (pattern (sel_ranks ncols rc wc ic) r) ->
  wt b = qsum (map (num_at w)
                   (rows_with (sel_ranks ncols rc wc ic) (pattern (sel_ranks ncols rc wc ic) r) rows)).
Proof. exact (csv_weight_is_sum cand ceqb ceqb_spec blank). Qed.

Theorem c18_total_is_rows : forall ncols rows rc wc ic, wf_table ncols rows rc wc ic ->
  forall p, load_csv ncols rows rc wc ic = inl p ->
  (wc = None -> total_wt (ballots p) == Qnat (length rows)) /\
  (forall w, wc = Some w -> total_wt (ballots p) == qsum (map (num_at w) rows)).
Proof. exact (csv_total cand ceqb ceqb_spec blank). Qed.

(* voter sets: the ids of exactly the rows with that pattern, in row order; no scores, no id *)
Theorem c18_voter_sets : forall ncols rows rc wc ic, wf_table ncols rows rc wc ic ->
  forall p, load_csv ncols rows rc wc ic = inl p ->
  forall b r, In b (ballots p) -> In r rows ->
  rk b = pattern_ranking (pattern (sel_ranks ncols rc wc ic) r) ->
  vs b = match ic with
         | Some i => Some (map (id_at i)
                     (rows_with (sel_ranks ncols rc wc ic) (pattern (sel_ranks ncols rc wc ic) r) rows))
         | None => None
         end /\ sc b = [] /\ bid b = None.
Proof. exact (csv_voter_sets cand ceqb ceqb_spec blank). Qed.

(* candidates: those cast on positive-weight ballots; without a weight column, exactly the names
   (and the blank, if any) found in the selected columns *)
Theorem c18_cands : forall ncols rows rc wc ic, wf_table ncols rows rc wc ic ->
  forall p, load_csv ncols rows rc wc ic = inl p -> cands p = cast_cands (ballots p).
Proof. exact (csv_cands cand ceqb ceqb_spec blank). Qed.

Theorem c18_cands_count : forall ncols rows rc wc ic, wf_table ncols rows rc wc ic ->
  forall p, load_csv ncols rows rc wc ic = inl p -> wc = None ->
  forall c, In c (cands p) <->
            exists r i, In r rows /\ In i (sel_ranks ncols rc wc ic) /\ cell_name (cell_at r i) = c.
Proof. exact (csv_cands_count cand ceqb ceqb_spec blank). Qed.

(* ---------- A3. load_scottish ---------- *)

Theorem c18_scottish : forall raw k seats bal cs ward wrest,
  wf_scot raw k seats bal cs ward wrest ->
  exists s, load_scottish raw = inl s /\
    sc_seats cand s = seats /\ sc_ward cand s = ward /\
    sc_cands cand s = map crow_name cs /\
    sc_party cand s = map (fun c => (crow_name c, crow_party c)) cs /\
    cands (sc_profile cand s) = map crow_name cs /\
    ballots (sc_profile cand s) =
      condense_bs cand ceqb
        (map (fun b => plain_ballot cand (scot_ranking (map crow_name cs) (snd b)) (inject_Z (fst b))) bal).
Proof. exact (scottish_wf cand ceqb ceqb_spec). Qed.

(* the declared multiplicities: every ranking carries the summed weights of the ballot rows
   denoting it; nothing is lost in total *)
Theorem c18_scottish_weights : forall raw k seats bal cs ward wrest s,
  wf_scot raw k seats bal cs ward wrest -> load_scottish raw = inl s ->
  (forall r, wtof_rk r (ballots (sc_profile cand s)) ==
             qsum (map (fun b => inject_Z (fst b))
                       (filter (fun b => ranking_eqb r (scot_ranking (map crow_name cs) (snd b))) bal))) /\
  total_wt (ballots (sc_profile cand s)) == qsum (map (fun b => inject_Z (fst b)) bal).
Proof. exact (scottish_weights cand ceqb ceqb_spec). Qed.

(* inconsistent metadata: a first row without exactly two tokens, a non-numeric candidate count,
   or a count differing from the number of candidate-word rows, is a DataError; once these checks
   pass, the only other DataError is a row of the candidate block lacking the candidate word *)
Theorem c18_scottish_errors : forall raw,
  (scot_clean raw = [] -> load_scottish raw = inr EIndex) /\
  (forall first rest, scot_clean raw = first :: rest ->
     (length first <> 2%nat -> load_scottish raw = inr EData) /\
     (forall cn seats, first = [cn; seats] -> (forall k, cn <> TNum k) ->
        load_scottish raw = inr EData) /\
     (forall k seats, first = [TNum k; seats] ->
        Z.of_nat (scot_counted (first :: rest)) <> k -> load_scottish raw = inr EData) /\
     (forall k seats, first = [TNum k; seats] ->
        Z.of_nat (scot_counted (first :: rest)) = k -> load_scottish raw = inr EData ->
        exists line t rest',
          In line (py_slice (first :: rest) (Z.of_nat (length (first :: rest)) - (k + 1)) (-1)) /\
          line = t :: rest' /\ tok_has_word t = false /\ (forall z, t <> TNum z))).
Proof. exact (scottish_errors cand ceqb ceqb_spec). Qed.

(* ---------- A4. to_csv ---------- *)

Theorem c18_to_csv_rows : forall p : profile,
  length (to_csv_rows p) = length (ballots p) /\
  (forall i, nth_error (to_csv_rows p) i
             = option_map (fun b => (wt b, rk b, sc b)) (nth_error (ballots p) i)) /\
  Forall2 (fun b row => row = (wt b, rk b, sc b)) (ballots p) (to_csv_rows p).
Proof. exact (to_csv_rows_spec cand). Qed.

End C18.

Print Assumptions c18_csv_errors.
Print Assumptions c18_csv_total.
Print Assumptions c18_row_eqb_literal.
Print Assumptions c18_rows_with.
Print Assumptions c18_patterns_once.
Print Assumptions c18_column_order.
Print Assumptions c18_weight_is_count.
Print Assumptions c18_weight_is_sum.
Print Assumptions c18_total_is_rows.
Print Assumptions c18_voter_sets.
Print Assumptions c18_cands.
Print Assumptions c18_cands_count.
Print Assumptions c18_scottish.
Print Assumptions c18_scottish_weights.
Print Assumptions c18_scottish_errors.
Print Assumptions c18_to_csv_rows.

(* ---------- A5. Python slices ---------- *)

Theorem c18_py_slice : forall (A : Type) (l : list A) (a b : Z),
  (0 <= a)%Z -> (a <= b)%Z -> (b <= Z.of_nat (length l))%Z ->
  py_slice l a b = firstn (Z.to_nat (b - a)) (skipn (Z.to_nat a) l).
Proof. exact py_slice_range. Qed.
Print Assumptions c18_py_slice.

Theorem c18_py_slice_to_last : forall (A : Type) (l : list A) (a : Z),
  l <> [] -> (0 <= a)%Z -> (a <= Z.of_nat (length l) - 1)%Z ->
  py_slice l a (-1) = firstn (Z.to_nat (Z.of_nat (length l) - 1 - a)) (skipn (Z.to_nat a) l).
Proof. exact py_slice_to_last. Qed.
Print Assumptions c18_py_slice_to_last.

(* ---------- non-vacuity: concrete inputs (cand := positive, blank := 9) ---------- *)
Section Examples.
Local Open Scope positive_scope.
Let C := cell positive.
Let T := tok positive.

(* id column 0, two rank columns, no weight column; rows 1 and 3 share a pattern, row 2 has a blank *)
Let rows1 : list (list C) :=
  [[CId 1; CStr 1; CStr 2]; [CId 2; CStr 2; CBlank]; [CId 3; CStr 1; CStr 2]].

Example c18_ex_wf1 : LoaderSpec.wf_table positive 9 3 rows1 [] None (Some 0%nat).
Proof.
  constructor.
  - discriminate.
  - intros r H. cbn in H. intuition (subst; reflexivity).
  - intros i [].
  - intros r i Hr Hi. cbn in Hr, Hi.
    repeat match goal with H : _ \/ _ |- _ => destruct H end; subst; cbn; try exact I; try discriminate; contradiction.
  - intros i H. injection H as <-. split; [repeat constructor|]. split.
    + intros r Hr. cbn in Hr.
      repeat match goal with H : _ \/ _ |- _ => destruct H end; subst; try contradiction; eexists; reflexivity.
    + cbn. repeat constructor; cbn; intuition discriminate.
  - intros w H. discriminate.
Qed.

Example c18_ex_load1 :
  Loaders.load_csv positive Pos.eqb 9 3 rows1 [] None (Some 0%nat)
  = inl (mkProfile [mkBallot [[1];[2]] 2 [] None (Some [1;3]); mkBallot [[2];[9]] 1 [] None (Some [2])]
                   [1;2;9]).
Proof. vm_compute. reflexivity. Qed.

(* weight column 0, explicit rank columns in the order [2;1] *)
Let rows2 : list (list C) :=
  [[CNum (3#2); CStr 1; CStr 2]; [CNum 2; CStr 2; CStr 1]; [CNum (1#2); CStr 1; CStr 2]].

Example c18_ex_wf2 : LoaderSpec.wf_table positive 9 3 rows2 [2%nat;1%nat] (Some 0%nat) None.
Proof.
  constructor.
  - discriminate.
  - intros r H. cbn in H. intuition (subst; reflexivity).
  - intros i H. cbn in H. intuition (subst; repeat constructor).
  - intros r i Hr Hi. cbn in Hr, Hi.
    repeat match goal with H : _ \/ _ |- _ => destruct H end; subst; cbn; try exact I; try discriminate; contradiction.
  - intros i H. discriminate.
  - intros w H. injection H as <-. split; [repeat constructor|].
    intros r Hr. cbn in Hr.
    repeat match goal with H : _ \/ _ |- _ => destruct H end; subst; try contradiction; eexists; reflexivity.
Qed.

Example c18_ex_load2 :
  exists p, Loaders.load_csv positive Pos.eqb 9 3 rows2 [2%nat;1%nat] (Some 0%nat) None = inl p /\
            map rk (ballots p) = [[[2];[1]]; [[1];[2]]] /\
            Forall2 Qeq (map wt (ballots p)) [2%Q; 2%Q] /\
            total_wt positive (ballots p) == 4%Q.
Proof. eexists. split; [vm_compute; reflexivity|]. split; [reflexivity|]. split; [|vm_compute; reflexivity].
  repeat constructor; vm_compute; reflexivity. Qed.

Example c18_ex_errors :
  Loaders.load_csv positive Pos.eqb 9 3 [] [] None None = inr EEmptyData /\
  Loaders.load_csv positive Pos.eqb 9 2 [[CId 1; CStr 1]; [CBlank; CStr 2]; [CId 1; CStr 2]] [] None (Some 0%nat)
    = inr EValue /\
  Loaders.load_csv positive Pos.eqb 9 2 [[CId 1; CStr 1]; [CId 2; CStr 2]; [CId 1; CStr 2]] [] None (Some 0%nat)
    = inr EData.
Proof. repeat split; vm_compute; reflexivity. Qed.

(* a Scottish file: 2 candidates, 1 seat, a blank row, three ballot rows, two candidate rows, ward *)
Let raw1 : list (list T) :=
  [[TNum 2; TNum 1; TEmpty]; [TEmpty]; [TNum 3; TNum 1; TNum 2; TEmpty]; [TNum 2; TNum 2];
   [TNum 1; TNum 1; TNum 2];
   [TStr 10 true; TStr 1 false; TStr 20 false]; [TStr 11 true; TStr 2 false; TStr 21 false];
   [TStr 30 false]].

Example c18_ex_wf_scot :
  LoaderSpec.wf_scot positive raw1 2 (TNum 1) [(3, [1;2]); (2, [2]); (1, [1;2])]%Z
    [(10, 1, false, TStr 20 false); (11, 2, false, TStr 21 false)] (TStr 30 false) [].
Proof.
  unfold LoaderSpec.wf_scot. split; [vm_compute; reflexivity|]. split; [reflexivity|].
  split; [repeat constructor; lia|]. split; [|reflexivity].
  cbn. repeat constructor; cbn; intuition discriminate.
Qed.

Example c18_ex_scottish :
  exists s, Loaders.load_scottish positive Pos.eqb raw1 = inl s /\
    sc_cands positive s = [1;2] /\ sc_seats positive s = TNum 1 /\ sc_ward positive s = TStr 30 false /\
    map rk (ballots (sc_profile positive s)) = [[[1];[2]]; [[2]]] /\
    wtof_rk positive Pos.eqb [[1];[2]] (ballots (sc_profile positive s)) == 4%Q.
Proof. eexists. split; [vm_compute; reflexivity|]. repeat split; vm_compute; reflexivity. Qed.

Example c18_ex_scottish_errors :
  Loaders.load_scottish positive Pos.eqb [[TNum 2; TNum 1; TNum 7]; [TStr 30 false]] = inr EData /\
  Loaders.load_scottish positive Pos.eqb
    [[TNum 2; TNum 1]; [TNum 1; TNum 1]; [TStr 10 true; TStr 1 false; TStr 20 false]; [TStr 30 false]]
    = inr EData.
Proof. split; vm_compute; reflexivity. Qed.

Example c18_ex_py_slice :
  py_slice [1;2;3;4;5] 1 (-1) = [2;3;4] /\ py_slice [1;2;3;4;5] 1 3 = [2;3].
Proof. split; vm_compute; reflexivity. Qed.

Example c18_ex_to_csv :
  Loaders.to_csv_rows positive (mkProfile [mkBallot [[1];[2]] 2 [] None None; mkBallot [] 1 [(1, 3#1)] None None] [1;2])
  = [(2%Q, [[1];[2]], []); (1%Q, [], [(1, (3#1)%Q)])].
Proof. reflexivity. Qed.

End Examples.
