(* Properties/C20_gen_runs.v — property C20, generator clause ("generators refuse bloc proportions
   or cohesion parameters that do not sum to one, mismatched bloc names and preference intervals
   with overlapping candidate sets ...; in every such case no partial result is produced"), tied
   to generator RUNS.

   No generator model of Model/*.v calls the construction-time checks: [bloc_checks] and
   [combine_checks] are modelled and harness-validated as stand-alone functions (ops 65, 66;
   [combine_intervals], op 91, calls [combine_checks] itself), and the run functions start from
   the already combined intervals.  The link is therefore made at specification level:
   [gen_construct] (Spec/GenConstructSpec.v, transcription of BallotGenerator.__init__ + the name
   models' __init__) followed by the model's run ([name_pl_pipeline], Spec/GenPipelineSpec.v).
   - refusal: a violated precondition gives ValueError for EVERY recorded stream: no profile, no
     per-bloc profile, no primitive call is produced (the result is [inr EValue]);
   - acceptance: the run is the model's run on constructed intervals and the interval hypotheses of
     the C14 theorems are discharged: every ballot is duplicate-free and within the voter bloc's
     declared candidates.
   What stays unmodelled: the constructors of the slate models / AlternatingCrossover /
   CambridgeSampler beyond the inherited [bloc_checks] (they do not combine intervals at
   construction), the kwargs-presence tests, from_params.  Proofs: Proofs/C20_gen_runs.v. *)
From VK Require Import Base Core GenValidation PrefInterval Generators.
From VK.Spec Require Import Content BTSpec BlocSpec GenSpec GenRunSpec GenConstructSpec GenPipelineSpec.
From VK.Proofs Require Import C20_gen_runs.
From Coq Require Import Permutation.

(* whatever the constructor refuses, the pipeline refuses with the same error, for every stream *)
Theorem c20_pipeline_no_partial : forall props intervals cohesion bl draws e,
  gen_construct props intervals cohesion = inr e ->
  name_pl_pipeline props intervals cohesion bl draws = inr e.
Proof. exact pipeline_refused. Qed.
Print Assumptions c20_pipeline_no_partial.

Theorem c20_cumulative_pipeline_no_partial : forall props intervals cohesion nv draws e,
  gen_construct props intervals cohesion = inr e ->
  name_cumulative_pipeline props intervals cohesion nv draws = inr e.
Proof. exact cum_pipeline_refused. Qed.
Print Assumptions c20_cumulative_pipeline_no_partial.

(* proportions / cohesion rows not summing to one, mismatched bloc names: ValueError for all
   inputs violating one of them, all ballot lengths, all streams *)
Theorem c20_pipeline_refuses_parameters : forall props intervals cohesion bl draws,
  (~ props_ok props \/ ~ names_pi_ok props (map fst intervals) \/ ~ names_coh_ok props cohesion \/
   (exists row, In row cohesion /\ ~ row_ok row)) ->
  name_pl_pipeline props intervals cohesion bl draws = inr EValue.
Proof. exact pipeline_refuses_parameters. Qed.
Print Assumptions c20_pipeline_refuses_parameters.

(* overlapping candidate sets among the intervals of one voter bloc *)
Theorem c20_pipeline_refuses_overlap : forall props intervals cohesion bl draws b is,
  intervals_wf intervals -> cohesion_nonneg cohesion ->
  rows_cover intervals (map fst props) -> rows_cover cohesion (map fst props) ->
  In b (map fst props) -> bloc_intervals intervals (map fst props) b = inl is ->
  (self_repeating (map pi_cands is) \/ overlapping (map pi_cands is)) ->
  name_pl_pipeline props intervals cohesion bl draws = inr EValue.
Proof. exact pipeline_refuses_overlap. Qed.
Print Assumptions c20_pipeline_refuses_overlap.

(* acceptance *)
Theorem c20_pipeline_accepts : forall props intervals cohesion bl draws by_bloc agg calls,
  intervals_wf intervals -> cohesion_nonneg cohesion ->
  name_pl_pipeline props intervals cohesion bl draws = inl (by_bloc, agg, calls) ->
  exists ivs,
    gen_construct props intervals cohesion = inl ivs /\ map fst ivs = map fst props /\
    gen_pl_run bl (with_draws ivs draws) = inl (by_bloc, agg, calls) /\
    run_wf pl_bid pl_size (pl_shape_of bl) (with_draws ivs draws) by_bloc agg /\
    forall b, In b (ballots agg) ->
      NoDup (flat pcand (rk b)) /\ length (flat pcand (rk b)) = bl /\
      exists bid r is, In (bid, r) ivs /\
        bloc_intervals intervals (map fst props) bid = inl is /\
        incl (flat pcand (rk b)) (concat (map pi_cands is)).
Proof. exact pipeline_accepts. Qed.
Print Assumptions c20_pipeline_accepts.

(* ====================== non-vacuity ====================== *)
Module C20GenRunsExamples.
Local Open Scope positive_scope.

Definition i11 : pinterval := mkPI [(1, 1 # 4); (3, 3 # 4)] [2].
Definition i12 : pinterval := mkPI [(4, 1 # 2); (5, 1 # 2)] [].
Definition i21 : pinterval := mkPI [(1, 1 # 3); (2, 1 # 3); (3, 1 # 3)] [].
Definition i22 : pinterval := mkPI [(4, 1 # 1)] [5].
Definition g_props : list (positive * Q) := [(1, 7 # 10); (2, 3 # 10)].
Definition g_ints : list (positive * list (positive * pinterval)) :=
  [(2, [(2, i22); (1, i21)]); (1, [(1, i11); (2, i12)])].
Definition g_coh : list (positive * list (positive * Q)) :=
  [(2, [(1, 1 # 5); (2, 4 # 5)]); (1, [(1, 9 # 10); (2, 1 # 10)])].
Definition g_draws : list (list (list pcand * list pcand)) :=
  [[([3; 1; 5; 4], [2]); ([1; 3; 4; 5], [2])]; [([4; 2; 1; 3], [5])]].

(* accepted parameters: 2 + 1 complete ballots over five candidates *)
Example ex_pipeline_accepts : exists by_bloc agg calls,
  name_pl_pipeline g_props g_ints g_coh 5 g_draws = inl (by_bloc, agg, calls) /\
  map (fun b => rk b) (ballots agg) =
    [[[3]; [1]; [5]; [4]; [2]]; [[1]; [3]; [4]; [5]; [2]]; [[4]; [2]; [1]; [3]; [5]]] /\
  total_wt pcand (ballots agg) == 3.
Proof. do 3 eexists. split; [vm_compute; reflexivity|]. split; vm_compute; reflexivity. Qed.

(* proportions summing to 1 + 1e-8: refused before any draw is looked at *)
Example ex_pipeline_refused :
  name_pl_pipeline [(1, 7 # 10); (2, ((3 # 10) + (1 # 100000000))%Q)] g_ints g_coh 5 g_draws = inr EValue /\
  name_pl_pipeline g_props g_ints [(2, [(1, 1 # 5); (2, 4 # 5)]); (3, [(1, 9 # 10); (2, 1 # 10)])] 5 g_draws
    = inr EValue.
Proof. split; vm_compute; reflexivity. Qed.

End C20GenRunsExamples.
