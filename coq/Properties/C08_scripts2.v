(* Properties/C08_scripts2.v — C08, anonymity / independence of representation, for EVERY tiebreak
   setting and EVERY draw script, and the reading "whenever no random tiebreak is recorded".
   Statements only.  Proofs: Proofs/C08_scripts2.v (STV step / loop / run), C08_scripts2_alaska.v,
   C08_scripts2_rating.v, C08_scripts2_quiet.v.

   Vocabulary: Spec/Anon.v ([profile_equiv], [state_equiv], [stv_domain], [stv_state_ok],
   [stv_step_equiv], [one_shot_domain]), Spec/AnonRules.v ([mstate_equiv], [mres_equiv_log],
   [rating_domain], [bloc_limit], [pw_domain]), Spec/TieSpec.v ([deterministic]: every rule but the
   two dictator rules and STV / Alaska with the random transfer), Spec/AnonRules2.v ([no_tiebreaks],
   [scored_tb], [rated_tiebreak_ok], [alaska_script_ok], [anon_domain], [script_caveats]).

   Reading of [mres_equiv_log (Forall2 state_equiv) x y]: both runs fail with the same error, or
   both succeed with the same number of rounds, agreeing round by round (round number; remaining /
   elected / eliminated groups as sets, in the same order; recorded tiebreaks; tallies with [==]
   values), consume the same draws and log the same primitive calls up to the listing of a tied
   set.  With a non-random transfer the script is consulted only by the tiebreaks (the election
   tiebreak of the one-by-one mode and the first-place elimination tiebreak on the initial profile);
   random.sample(S) is recorded by the order it returned, which answers any listing of S. *)
From Coq Require Import List ZArith QArith Bool Permutation.
From VK Require Import Base Core STV Pairwise Rules.
From VK.Spec Require Import Content ScoreSpec EditSpec Anon AnonRules TieSpec AnonRules2.
From VK.Proofs Require Import C08_anon C08_candorder C08_scripts2 C08_scripts2_alaska C08_scripts2_rating C08_scripts2_quiet.
From VK.Properties Require Import C08 C08_rules.
Import ListNotations.
Open Scope Q_scope.

Section C08_scripts2.
Variable cand : Type.
Variable ceqb : cand -> cand -> bool.
Hypothesis ceqb_spec : forall a b, reflect (a = b) (ceqb a b).

Notation cset := (cset cand).
Notation ballot := (ballot cand).
Notation profile := (profile cand).
Notation mstate := (mstate cand).
Notation estate := (estate cand).
Notation state_equiv := (state_equiv cand).
Notation profile_equiv := (profile_equiv cand ceqb).
Notation stv_domain := (stv_domain cand).
Notation stv_state_ok := (stv_state_ok cand).
Notation stv_step_equiv := (stv_step_equiv cand ceqb).
Notation rating_domain := (rating_domain cand).
Notation mstate_equiv := (mstate_equiv cand ceqb).
Notation mres_equiv_log := (mres_equiv_log cand ceqb).
Notation no_tiebreaks := (no_tiebreaks cand).
Notation rated_tiebreak_ok := (rated_tiebreak_ok cand).
Notation anon_domain := (anon_domain cand).
Notation script_caveats := (script_caveats cand).
Notation run_rule := (run_rule cand ceqb).

(* ====================================================================== *)
(** * 1. The STV family, non-random transfer: every tiebreak setting, every script *)

(* one step of a live count: equivalent profiles, equivalent previous rounds, equivalent source
   states (same draws left, equivalent logs) -> equivalent next profile and round, in the domain *)
Theorem c08_stv_step_script_anonymous :
  forall (cfg : stv_cfg) (t : Q) (p0 p0' : profile) (n : Z) (p p' : profile) (prev prev' : estate) (s s' : mstate),
  s_transfer cfg <> TRandom -> mstate_equiv s s' ->
  stv_domain p0 -> stv_domain p0' -> profile_equiv p0 p0' ->
  stv_domain p -> stv_domain p' -> profile_equiv p p' ->
  stv_state_ok p prev -> stv_state_ok p' prev' -> state_equiv prev prev' ->
  mres_equiv_log stv_step_equiv
    (stv_step cand ceqb cfg t p0 n p prev s) (stv_step cand ceqb cfg t p0' n p' prev' s').
Proof. exact (stv_step_script_anonymous cand ceqb ceqb_spec). Qed.

(* whole STV runs, general form: two equivalent source states *)
Theorem c08_stv_script_runs : forall (cfg : stv_cfg) (p p' : profile) (s s' : mstate),
  s_transfer cfg <> TRandom -> mstate_equiv s s' ->
  stv_domain p -> stv_domain p' -> profile_equiv p p' ->
  mres_equiv_log (Forall2 state_equiv) (run_rule (RSTV cfg) p s) (run_rule (RSTV cfg) p' s').
Proof. exact (stv_rule_log cand ceqb ceqb_spec). Qed.

(* the same source state *)
Theorem c08_stv_script_anonymous : forall (cfg : stv_cfg) (p p' : profile) (s : mstate),
  s_transfer cfg <> TRandom -> stv_domain p -> stv_domain p' -> profile_equiv p p' ->
  mres_equiv_log (Forall2 state_equiv) (run_rule (RSTV cfg) p s) (run_rule (RSTV cfg) p' s).
Proof. exact (stv_script_anonymous cand ceqb ceqb_spec). Qed.

(* IRV = STV(m = 1, simultaneous, fractional transfer), SequentialRCV = STV with the full-weight
   transfer (Model/Election.v, [rule_of_wrapper]) *)
Theorem c08_irv_script_anonymous :
  forall (q : quota_kind) (tb : option tb_kind) (p p' : profile) (s : mstate),
  stv_domain p -> stv_domain p' -> profile_equiv p p' ->
  mres_equiv_log (Forall2 state_equiv)
    (run_rule (RSTV (mkStv 1 q true TFractional tb)) p s) (run_rule (RSTV (mkStv 1 q true TFractional tb)) p' s).
Proof. exact (irv_script_anonymous cand ceqb ceqb_spec). Qed.

Theorem c08_seqrcv_script_anonymous :
  forall (m : Z) (q : quota_kind) (simul : bool) (tb : option tb_kind) (p p' : profile) (s : mstate),
  stv_domain p -> stv_domain p' -> profile_equiv p p' ->
  mres_equiv_log (Forall2 state_equiv)
    (run_rule (RSTV (mkStv m q simul TFullWeight tb)) p s) (run_rule (RSTV (mkStv m q simul TFullWeight tb)) p' s).
Proof. exact (seqrcv_script_anonymous cand ceqb ceqb_spec). Qed.

(* listing the candidates in a different order *)
Theorem c08_stv_script_cand_order : forall (cfg : stv_cfg) (bs : list ballot) (cs cs' : cset) (s : mstate),
  s_transfer cfg <> TRandom -> stv_domain (mkProfile bs cs) -> Permutation cs cs' ->
  mres_equiv_log (Forall2 state_equiv)
    (run_rule (RSTV cfg) (mkProfile bs cs) s) (run_rule (RSTV cfg) (mkProfile bs cs') s).
Proof. exact (stv_script_cand_order cand ceqb ceqb_spec). Qed.

(* Alaska: Plurality stage, STV stage, and the get_profile replay of the STV stage — which draws
   AGAIN from the script and may therefore leave the recorded run.  Proved under
   [alaska_script_ok cfg]: one-by-one mode, or Droop quota, or full-weight transfer.
   FULL STATEMENT (closed since: Properties/C08_alaska3.v proves it, see c08_alaska_script_runs there): the
   same without the premise [alaska_script_ok cfg].  At the time of writing the following was missing.  What is missing: in a
   replay that has left the recorded run, a simultaneous election with the fractional transfer and a
   ZERO threshold (Hare quota, total weight < seats) can meet, inside one tied group, a candidate
   absent from the replayed profile (KeyError) and one with a zero tally (ZeroDivisionError), in an
   order that depends on the listing of the group; showing that such a replay never leaves the run
   needs a trace argument not done here.  (c08_quiet_run_anonymous below covers Alaska in full when
   no tiebreak is recorded.) *)
Theorem c08_alaska_script_runs_partial :
  forall (m1 m2 : Z) (cfg : stv_cfg) (p p' : profile) (s s' : mstate),
  s_transfer cfg <> TRandom -> alaska_script_ok cfg -> mstate_equiv s s' ->
  stv_domain p -> stv_domain p' -> profile_equiv p p' ->
  mres_equiv_log (Forall2 state_equiv) (run_rule (RAlaska m1 m2 cfg) p s) (run_rule (RAlaska m1 m2 cfg) p' s').
Proof. exact (alaska_log cand ceqb ceqb_spec). Qed.

Theorem c08_alaska_script_anonymous_partial :
  forall (m1 m2 : Z) (cfg : stv_cfg) (p p' : profile) (s : mstate),
  s_transfer cfg <> TRandom -> alaska_script_ok cfg ->
  stv_domain p -> stv_domain p' -> profile_equiv p p' ->
  mres_equiv_log (Forall2 state_equiv) (run_rule (RAlaska m1 m2 cfg) p s) (run_rule (RAlaska m1 m2 cfg) p' s).
Proof. exact (alaska_script_anonymous cand ceqb ceqb_spec). Qed.

(* ====================================================================== *)
(** * 2. The rating family: every tiebreak setting, every script
   A "first_place" / "borda" tiebreak rule re-scores the tied candidates from the RANKINGS of the
   profile; rated ballots have none, so it raises TypeError on the first ballot whatever its weight,
   but succeeds on a profile without ballots.  [rated_tiebreak_ok tb p p']: with such a rule the two
   profiles agree on having ballots at all.  Without it the statement is false on the model
   (c08_rating_scored_tiebreak_refuted): no ballots versus one ballot of weight zero. *)

Theorem c08_rating_script_runs :
  forall (m : Z) (L : Q) (k : option Q) (tb : option tb_kind) (p p' : profile) (s s' : mstate),
  rating_domain L k p -> rating_domain L k p' -> profile_equiv p p' -> rated_tiebreak_ok tb p p' ->
  mstate_equiv s s' ->
  mres_equiv_log (Forall2 state_equiv) (run_rule (RRating m L k tb) p s) (run_rule (RRating m L k tb) p' s').
Proof. exact (rating_rule_log cand ceqb ceqb_spec). Qed.

(* GeneralRating / Rating / Cumulative / Approval *)
Theorem c08_rating_script_anonymous :
  forall (m : Z) (L : Q) (k : option Q) (tb : option tb_kind) (p p' : profile) (s : mstate),
  rating_domain L k p -> rating_domain L k p' -> profile_equiv p p' -> rated_tiebreak_ok tb p p' ->
  mres_equiv_log (Forall2 state_equiv) (run_rule (RRating m L k tb) p s) (run_rule (RRating m L k tb) p' s).
Proof. exact (rating_script_anonymous cand ceqb ceqb_spec). Qed.

(* no tiebreak rule, "random", or an invalid name: no caveat *)
Theorem c08_rating_unscored_script_anonymous :
  forall (m : Z) (L : Q) (k : option Q) (tb : option tb_kind) (p p' : profile) (s : mstate),
  ~ scored_tb tb -> rating_domain L k p -> rating_domain L k p' -> profile_equiv p p' ->
  mres_equiv_log (Forall2 state_equiv) (run_rule (RRating m L k tb) p s) (run_rule (RRating m L k tb) p' s).
Proof. exact (rating_unscored_script_anonymous cand ceqb ceqb_spec). Qed.

(* Limited *)
Theorem c08_limited_script_anonymous :
  forall (m : Z) (k : Q) (tb : option tb_kind) (p p' : profile) (s : mstate),
  rating_domain k (Some k) p -> rating_domain k (Some k) p' -> profile_equiv p p' -> rated_tiebreak_ok tb p p' ->
  mres_equiv_log (Forall2 state_equiv) (run_rule (RLimited m k tb) p s) (run_rule (RLimited m k tb) p' s).
Proof. exact (limited_script_anonymous cand ceqb ceqb_spec). Qed.

(* BlocPlurality *)
Theorem c08_bloc_script_anonymous :
  forall (m : Z) (k : option Z) (tb : option tb_kind) (p p' : profile) (s : mstate),
  rating_domain 1 (Some (inject_Z (bloc_limit m k))) p ->
  rating_domain 1 (Some (inject_Z (bloc_limit m k))) p' -> profile_equiv p p' -> rated_tiebreak_ok tb p p' ->
  mres_equiv_log (Forall2 state_equiv) (run_rule (RBloc m k tb) p s) (run_rule (RBloc m k tb) p' s).
Proof. exact (bloc_script_anonymous cand ceqb ceqb_spec). Qed.

(* ====================================================================== *)
(** * 3. Every deterministic rule, uniformly *)

(* every tiebreak setting, every script.  [anon_domain r p]: the input domain of the rule;
   [script_caveats r p p']: [rated_tiebreak_ok] for the rating family (necessary, see section 2),
   [alaska_script_ok] for Alaska (the reason for "_partial", see section 1), nothing for the others *)
Theorem c08_rule_script_anonymous_partial : forall (r : rule) (p p' : profile) (s : mstate),
  deterministic r -> anon_domain r p -> anon_domain r p' -> profile_equiv p p' -> script_caveats r p p' ->
  mres_equiv_log (Forall2 state_equiv) (run_rule r p s) (run_rule r p' s).
Proof. exact (rule_script_anonymous cand ceqb ceqb_spec). Qed.

(* listing the candidates in a different order (the rating caveat is void: same ballots) *)
Theorem c08_rule_script_cand_order_partial :
  forall (r : rule) (bs : list ballot) (cs cs' : cset) (s : mstate),
  deterministic r -> anon_domain r (mkProfile bs cs) -> Permutation cs cs' ->
  (forall m1 m2 cfg, r = RAlaska m1 m2 cfg -> alaska_script_ok cfg) ->
  mres_equiv_log (Forall2 state_equiv) (run_rule r (mkProfile bs cs) s) (run_rule r (mkProfile bs cs') s).
Proof. exact (rule_script_cand_order cand ceqb ceqb_spec). Qed.

(* "WHENEVER NO RANDOM TIEBREAK IS RECORDED": a run of a deterministic rule, from any source state,
   none of whose rounds records a tiebreak, is reproduced round for round on every equivalent
   profile from EVERY source state s2 — which is left untouched.  No premise on any script and no
   caveat (rating family with any tiebreak rule, Alaska in every mode). *)
Theorem c08_quiet_run_anonymous :
  forall (r : rule) (p p' : profile) (s s1 : mstate) (sts : list estate),
  deterministic r -> anon_domain r p -> anon_domain r p' -> profile_equiv p p' ->
  run_rule r p s = inl (sts, s1) -> no_tiebreaks sts ->
  forall s2 : mstate, exists sts', run_rule r p' s2 = inl (sts', s2) /\ Forall2 state_equiv sts sts'.
Proof. exact (quiet_run_anonymous cand ceqb ceqb_spec). Qed.

End C08_scripts2.

(* refuted on the model: the rating family with tiebreak "first_place", a profile without ballots
   versus the same with one (valid) ballot of weight zero — the same electorate; the first run
   breaks the all-zero tie with the script, the second raises TypeError *)
Theorem c08_rating_scored_tiebreak_refuted :
  exists (p p' : profile positive) (s : mstate positive),
    profile_equiv positive Pos.eqb p p' /\
    rating_domain positive 1 None p /\ rating_domain positive 1 None p' /\
    (exists sts s1, run_rule positive Pos.eqb (RRating 1 1 None (Some TBFirstPlace)) p s = inl (sts, s1)) /\
    run_rule positive Pos.eqb (RRating 1 1 None (Some TBFirstPlace)) p' s = inr EType.
Proof. exact (ex_intro _ rz_p (ex_intro _ rz_p' (ex_intro _ rz_s rating_scored_tiebreak_ex))). Qed.

Print Assumptions c08_stv_step_script_anonymous.
Print Assumptions c08_stv_script_runs.
Print Assumptions c08_stv_script_anonymous.
Print Assumptions c08_irv_script_anonymous.
Print Assumptions c08_seqrcv_script_anonymous.
Print Assumptions c08_stv_script_cand_order.
Print Assumptions c08_alaska_script_runs_partial.
Print Assumptions c08_alaska_script_anonymous_partial.
Print Assumptions c08_rating_script_runs.
Print Assumptions c08_rating_script_anonymous.
Print Assumptions c08_rating_unscored_script_anonymous.
Print Assumptions c08_limited_script_anonymous.
Print Assumptions c08_bloc_script_anonymous.
Print Assumptions c08_rule_script_anonymous_partial.
Print Assumptions c08_rule_script_cand_order_partial.
Print Assumptions c08_quiet_run_anonymous.
Print Assumptions c08_rating_scored_tiebreak_refuted.

(* ====================================================================== *)
(** * Non-vacuity *)

Module C08Scripts2Examples.
Import C08RulesExamples C08Witness.

(* ---- STV, one-by-one mode, tiebreak "random", a script that is used.
   [t_p] (Properties/C08_rules.v): 2 x (1>2>3), 2 x (2>1>3), 1 x (3>1>2), candidates [1;2;3];
   [t_p2]: the second ballot split 2 = 1 + 1, the ballots reversed, candidates listed [2;3;1].
   Two seats, Droop quota 2: candidates 1 and 2 both reach it in round 1; the one-by-one mode must
   break {1, 2}; the script answers "2 first". ---- *)
Definition st_cfg : stv_cfg := mkStv 2 QDroop false TFractional (Some TBRandom).

Example ex_stv_domain_of : forall bs cs, (forall c, In c [1;2;3]%positive -> In c cs) -> NoDup cs ->
  Forall (fun b => exists r w, b = ex_b r w /\ (0 <= w)%Z /\ Permutation r [1;2;3]%positive) bs ->
  stv_domain positive (mkProfile bs cs).
Proof.
  intros bs cs Hcs Hnd Hbs. split; [exact Hnd|]. cbn [ballots cands]. rewrite Forall_forall in Hbs |- *.
  intros b Hb. destruct (Hbs b Hb) as [r [w [-> [Hw Hp]]]]. unfold stv_ballot_ok. cbn [rk wt sc ex_b].
  assert (Hf : flat positive (map (fun c => [c]) r) = r).
  { clear. induction r as [|c r IH]; [reflexivity|]. cbn [map]. unfold flat in *. cbn [concat app].
    rewrite IH. reflexivity. }
  rewrite Hf. repeat split.
  - destruct r; [apply Permutation_nil in Hp; discriminate|discriminate].
  - apply Forall_forall. intros g Hg. apply in_map_iff in Hg. destruct Hg as [c [<- _]]. reflexivity.
  - apply (Permutation_NoDup (Permutation_sym Hp)). repeat constructor; cbn; intuition discriminate.
  - intros c Hc. apply Hcs. apply (Permutation_in _ Hp Hc).
  - unfold Qle, inject_Z. cbn [Qnum Qden]. rewrite !Z.mul_1_r. exact Hw.
Qed.

Example ex_tied_stv_domain : stv_domain positive t_p /\ stv_domain positive t_p2.
Proof.
  assert (P213 : Permutation [2;1;3]%positive [1;2;3]%positive) by apply perm_swap.
  assert (P312 : Permutation [3;1;2]%positive [1;2;3]%positive).
  { apply (Permutation_cons_append [1;2]%positive 3%positive). }
  split; apply ex_stv_domain_of.
  - intros c Hc; exact Hc.
  - repeat constructor; cbn; intuition discriminate.
  - repeat constructor.
    + exists [1;2;3]%positive, 2%Z. repeat split; [discriminate|apply Permutation_refl].
    + exists [2;1;3]%positive, 2%Z. repeat split; [discriminate|exact P213].
    + exists [3;1;2]%positive, 1%Z. repeat split; [discriminate|exact P312].
  - cbn. intuition (subst; auto).
  - repeat constructor; cbn; intuition discriminate.
  - repeat constructor.
    + exists [3;1;2]%positive, 1%Z. repeat split; [discriminate|exact P312].
    + exists [2;1;3]%positive, 1%Z. repeat split; [discriminate|exact P213].
    + exists [2;1;3]%positive, 1%Z. repeat split; [discriminate|exact P213].
    + exists [1;2;3]%positive, 2%Z. repeat split; [discriminate|apply Permutation_refl].
Qed.

Example ex_stv_by_theorem :
  mres_equiv_log positive Pos.eqb (Forall2 (state_equiv positive))
    (run_rule positive Pos.eqb (RSTV st_cfg) t_p t_script) (run_rule positive Pos.eqb (RSTV st_cfg) t_p2 t_script).
Proof.
  apply (c08_stv_script_anonymous positive Pos.eqb Pos.eqb_spec st_cfg t_p t_p2 t_script);
    [discriminate|apply ex_tied_stv_domain|apply ex_tied_stv_domain|exact ex_tied_equiv].
Qed.

(* both runs computed: three rounds; round 1 elects 2 through the recorded tiebreak — the tied set
   is listed (and logged) [1;2] on one representation and [2;1] on the other — round 2 elects 1 *)
Example ex_stv_runs :
  exists a0 a1 a2 b0 b1 b2 sa sb,
    run_rule positive Pos.eqb (RSTV st_cfg) t_p t_script = inl ([a0; a1; a2], sa) /\
    run_rule positive Pos.eqb (RSTV st_cfg) t_p2 t_script = inl ([b0; b1; b2], sb) /\
    elected a1 = [[2%positive]] /\ elected b1 = [[2%positive]] /\
    elected a2 = [[1%positive]] /\ elected b2 = [[1%positive]] /\
    tiebreaks a1 = [([1;2]%positive, [[2];[1]]%positive)] /\
    tiebreaks b1 = [([2;1]%positive, [[2];[1]]%positive)] /\
    sa = mkM [] [CSample [1;2]%positive] /\ sb = mkM [] [CSample [2;1]%positive].
Proof. do 8 eexists. vm_compute. repeat split. Qed.

(* with the other answer the other candidate goes first, again on both representations *)
Example ex_stv_runs_other :
  exists a0 a1 a2 b0 b1 b2 sa sb,
    run_rule positive Pos.eqb (RSTV st_cfg) t_p (mkM [DPerm [1;2]%positive] []) = inl ([a0; a1; a2], sa) /\
    run_rule positive Pos.eqb (RSTV st_cfg) t_p2 (mkM [DPerm [1;2]%positive] []) = inl ([b0; b1; b2], sb) /\
    elected a1 = [[1%positive]] /\ elected b1 = [[1%positive]].
Proof. do 8 eexists. vm_compute. repeat split. Qed.

(* ---- the elimination tiebreak of IRV (always "first_place" on the initial profile, then random),
   drawn: 2 x (1>2>3), 1 x (2>1>3), 1 x (3>1>2); one seat, quota 3; nobody reaches it, candidates 2
   and 3 are tied lowest with one first-place vote each; the script answers "3 before 2", so 2 goes.
   [e_p2]: the first ballot split 2 = 1 + 1, the ballots reversed, candidates listed [3;2;1]. ---- *)
Definition e_p : profile positive :=
  mkProfile [ex_b [1;2;3]%positive 2; ex_b [2;1;3]%positive 1; ex_b [3;1;2]%positive 1] [1;2;3]%positive.
Definition e_split : list (Core.ballot positive) :=
  [ex_b [1;2;3]%positive 1; ex_b [1;2;3]%positive 1; ex_b [2;1;3]%positive 1; ex_b [3;1;2]%positive 1].
Definition e_p2 : profile positive := mkProfile (rev e_split) [3;2;1]%positive.
Definition e_script : mstate positive := mkM [DPerm [3;2]%positive] [].

Example ex_elim_equiv : profile_equiv positive Pos.eqb e_p e_p2.
Proof.
  split.
  - apply (dist_eq_trans positive Pos.eqb _ e_split).
    + apply (c08_dist_eq_split positive Pos.eqb Pos.eqb_spec [] (ex_b [1;2;3]%positive 2)
               [ex_b [2;1;3]%positive 1; ex_b [3;1;2]%positive 1]
               [ex_b [1;2;3]%positive 1; ex_b [1;2;3]%positive 1]).
      * repeat constructor.
      * vm_compute. reflexivity.
    + apply c08_dist_eq_reorder. apply Permutation_rev.
  - apply (Permutation_rev [1;2;3]%positive).
Qed.

Example ex_elim_domain : stv_domain positive e_p /\ stv_domain positive e_p2.
Proof.
  assert (P213 : Permutation [2;1;3]%positive [1;2;3]%positive) by apply perm_swap.
  assert (P312 : Permutation [3;1;2]%positive [1;2;3]%positive).
  { apply (Permutation_cons_append [1;2]%positive 3%positive). }
  split; apply ex_stv_domain_of.
  - intros c Hc; exact Hc.
  - repeat constructor; cbn; intuition discriminate.
  - repeat constructor.
    + exists [1;2;3]%positive, 2%Z. repeat split; [discriminate|apply Permutation_refl].
    + exists [2;1;3]%positive, 1%Z. repeat split; [discriminate|exact P213].
    + exists [3;1;2]%positive, 1%Z. repeat split; [discriminate|exact P312].
  - cbn. intuition (subst; auto).
  - repeat constructor; cbn; intuition discriminate.
  - repeat constructor.
    + exists [3;1;2]%positive, 1%Z. repeat split; [discriminate|exact P312].
    + exists [2;1;3]%positive, 1%Z. repeat split; [discriminate|exact P213].
    + exists [1;2;3]%positive, 1%Z. repeat split; [discriminate|apply Permutation_refl].
    + exists [1;2;3]%positive, 1%Z. repeat split; [discriminate|apply Permutation_refl].
Qed.

Example ex_irv_by_theorem :
  mres_equiv_log positive Pos.eqb (Forall2 (state_equiv positive))
    (run_rule positive Pos.eqb (RSTV (mkStv 1 QDroop true TFractional None)) e_p e_script)
    (run_rule positive Pos.eqb (RSTV (mkStv 1 QDroop true TFractional None)) e_p2 e_script).
Proof.
  exact (c08_irv_script_anonymous positive Pos.eqb Pos.eqb_spec QDroop None e_p e_p2 e_script
           (proj1 ex_elim_domain) (proj2 ex_elim_domain) ex_elim_equiv).
Qed.

Example ex_irv_runs :
  exists a0 a1 a2 b0 b1 b2 sa sb,
    run_rule positive Pos.eqb (RSTV (mkStv 1 QDroop true TFractional None)) e_p e_script = inl ([a0; a1; a2], sa) /\
    run_rule positive Pos.eqb (RSTV (mkStv 1 QDroop true TFractional None)) e_p2 e_script = inl ([b0; b1; b2], sb) /\
    eliminated a1 = [[2%positive]] /\ eliminated b1 = [[2%positive]] /\
    elected a2 = [[1%positive]] /\ elected b2 = [[1%positive]] /\
    tiebreaks a1 = [([2;3]%positive, [[3];[2]]%positive)] /\
    tiebreaks b1 = [([3;2]%positive, [[3];[2]]%positive)] /\
    sa = mkM [] [CSample [2;3]%positive] /\ sb = mkM [] [CSample [3;2]%positive].
Proof. do 8 eexists. vm_compute. repeat split. Qed.

(* ---- a quiet run: one seat on [t_p] (quota 3): nobody reaches it, candidate 3 is the single
   lowest, then 1 wins; no tiebreak is recorded although a tiebreak rule is configured ---- *)
Definition q_cfg : stv_cfg := mkStv 1 QDroop false TFractional (Some TBRandom).

Example ex_quiet_run :
  exists sts, run_rule positive Pos.eqb (RSTV q_cfg) t_p ex_s0 = inl (sts, ex_s0) /\
    no_tiebreaks positive sts /\ length sts = 3%nat.
Proof. eexists. split; [vm_compute; reflexivity|]. split; [repeat constructor|reflexivity]. Qed.

(* hence, by c08_quiet_run_anonymous, the split / reordered profile gives the same rounds from ANY
   script, e.g. one full of irrelevant draws *)
Example ex_quiet_by_theorem : forall s2 : mstate positive,
  exists sts sts', run_rule positive Pos.eqb (RSTV q_cfg) t_p ex_s0 = inl (sts, ex_s0) /\
    run_rule positive Pos.eqb (RSTV q_cfg) t_p2 s2 = inl (sts', s2) /\
    Forall2 (state_equiv positive) sts sts'.
Proof.
  intros s2. destruct ex_quiet_run as [sts [Hrun [Hq _]]].
  destruct (c08_quiet_run_anonymous positive Pos.eqb Pos.eqb_spec (RSTV q_cfg) t_p t_p2 ex_s0 ex_s0 sts)
    with (s2 := s2) as [sts' [H1 H2]];
    [discriminate|apply ex_tied_stv_domain|apply ex_tied_stv_domain|exact ex_tied_equiv|exact Hrun|exact Hq|].
  exists sts, sts'. repeat split; assumption.
Qed.

(* ---- Alaska with a tiebreak rule, one-by-one STV stage ([alaska_script_ok]: left disjunct): the
   hypotheses of the theorem are satisfiable ---- *)
Definition al_cfg : stv_cfg := mkStv 1 QDroop false TFractional (Some TBRandom).

Example ex_alaska_by_theorem :
  mres_equiv_log positive Pos.eqb (Forall2 (state_equiv positive))
    (run_rule positive Pos.eqb (RAlaska 2 1 al_cfg) t_p t_script)
    (run_rule positive Pos.eqb (RAlaska 2 1 al_cfg) t_p2 t_script).
Proof.
  apply (c08_alaska_script_anonymous_partial positive Pos.eqb Pos.eqb_spec 2 1 al_cfg t_p t_p2 t_script);
    [discriminate|left; reflexivity|apply ex_tied_stv_domain|apply ex_tied_stv_domain|exact ex_tied_equiv].
Qed.

(* ---- a rating rule with tiebreak "random": one seat, two candidates rated 1 by one voter each;
   [r_p2]: the first ballot split 1 = 1/2 + 1/2, the ballots reordered, candidates listed [2;1] ---- *)
Definition r_p : profile positive := mkProfile [sb [(1%positive, 1)] 1; sb [(2%positive, 1)] 1] [1;2]%positive.
Definition r_split : list (Core.ballot positive) :=
  [sb [(1%positive, 1)] (1#2); sb [(1%positive, 1)] (1#2); sb [(2%positive, 1)] 1].
Definition r_p2 : profile positive := mkProfile (rev r_split) [2;1]%positive.

Example ex_rated_equiv : profile_equiv positive Pos.eqb r_p r_p2.
Proof.
  split.
  - apply (dist_eq_trans positive Pos.eqb _ r_split).
    + apply (c08_dist_eq_split positive Pos.eqb Pos.eqb_spec [] (sb [(1%positive, 1)] 1) [sb [(2%positive, 1)] 1]
               [sb [(1%positive, 1)] (1#2); sb [(1%positive, 1)] (1#2)]).
      * repeat constructor.
      * vm_compute. reflexivity.
    + apply c08_dist_eq_reorder. apply Permutation_rev.
  - apply perm_swap.
Qed.

Example ex_rated_domain : rating_domain positive 1 None r_p /\ rating_domain positive 1 None r_p2.
Proof.
  assert (Hnz : forall bs : list (Core.ballot positive), Forall (fun b => ~ wt b == 0) bs ->
            Forall (fun b => wt b == 0 -> rating_ballot_ok positive 1 None b) bs).
  { intros bs H. eapply Forall_impl; [|exact H]. intros b Hb Hz. contradiction. }
  split.
  - split.
    + apply rated_dom. repeat constructor.
      * exists 1%positive, 1, 1. repeat split; [left; reflexivity|discriminate].
      * exists 2%positive, 1, 1. repeat split; [right; left; reflexivity|discriminate].
    + apply Hnz. repeat constructor; discriminate.
  - split.
    + apply (dom_perm positive SKBallotScores (rev r_split) [1;2]%positive [2;1]%positive); [|apply perm_swap].
      apply rated_dom. repeat constructor.
      * exists 2%positive, 1, 1. repeat split; [right; left; reflexivity|discriminate].
      * exists 1%positive, 1, (1#2). repeat split; [left; reflexivity|discriminate].
      * exists 1%positive, 1, (1#2). repeat split; [left; reflexivity|discriminate].
    + apply Hnz. repeat constructor; discriminate.
Qed.

Example ex_rated_by_theorem :
  mres_equiv_log positive Pos.eqb (Forall2 (state_equiv positive))
    (run_rule positive Pos.eqb (RRating 1 1 None (Some TBRandom)) r_p t_script)
    (run_rule positive Pos.eqb (RRating 1 1 None (Some TBRandom)) r_p2 t_script).
Proof.
  apply (c08_rating_script_anonymous positive Pos.eqb Pos.eqb_spec 1 1 None (Some TBRandom) r_p r_p2 t_script);
    [apply ex_rated_domain|apply ex_rated_domain|exact ex_rated_equiv|].
  intros [H|H]; discriminate.
Qed.

Example ex_rated_runs :
  exists a0 a1 b0 b1 sa sb,
    run_rule positive Pos.eqb (RRating 1 1 None (Some TBRandom)) r_p t_script = inl ([a0; a1], sa) /\
    run_rule positive Pos.eqb (RRating 1 1 None (Some TBRandom)) r_p2 t_script = inl ([b0; b1], sb) /\
    elected a1 = [[2%positive]] /\ elected b1 = [[2%positive]] /\
    tiebreaks a1 = [([1;2]%positive, [[2];[1]]%positive)] /\
    tiebreaks b1 = [([2;1]%positive, [[2];[1]]%positive)] /\
    sa = mkM [] [CSample [1;2]%positive] /\ sb = mkM [] [CSample [2;1]%positive].
Proof. do 6 eexists. vm_compute. repeat split. Qed.

(* a "first_place" tiebreak on rated ballots: TypeError on both representations *)
Example ex_rated_scored_tiebreak :
  run_rule positive Pos.eqb (RRating 1 1 None (Some TBFirstPlace)) r_p t_script = inr EType /\
  run_rule positive Pos.eqb (RRating 1 1 None (Some TBFirstPlace)) r_p2 t_script = inr EType.
Proof. split; vm_compute; reflexivity. Qed.

End C08Scripts2Examples.
