(* Properties/C03_rounds.v — C03, second half: the total ballot weight across an STV count.
   (The transfer rules themselves are in Properties/C03.v.)  Statements only; proofs are in
   Proofs/STV_weights.v, Proofs/STV_final.v.
   Vocabulary: see the header of Properties/C02.v; in addition
     exhausted W b            the ballot lists nobody outside W
     exhausted_wt W f bs      Σ { wt b * f b | b in bs, exhausted W b }
     wt_where q bs            Σ { wt b | b in bs, q b } *)
From VK Require Import Base Core STV EditSpec STVSpec.
From VK.Proofs Require Import STV_final.

Section C03_rounds.
Variable cand : Type.
Variable ceqb : cand -> cand -> bool.
Hypothesis ceqb_spec : forall a b, reflect (a = b) (ceqb a b).

Notation profile := (profile cand).
Notation estate := (estate cand).
Notation mstate := (mstate cand).
Notation flat := (flat cand).
Notation total_wt := (total_wt cand).
Notation tally := (tally cand ceqb).
Notation wt_where := (wt_where cand).
Notation exhausted := (exhausted cand ceqb).
Notation step_ctx := (step_ctx cand ceqb).
Notation script_ok := (script_ok cand).
Notation reaches := (reaches cand ceqb).
Notation keep_share := (keep_share cand ceqb).
Notation exhausted_wt := (exhausted_wt cand ceqb).
Notation stv_step := (stv_step cand ceqb).

(* the total weight never increases from one round to the next: all three transfer rules, every
   branch of the round, every valid draw (threshold >= 0; for the random transfer an integral one) *)
Theorem c03_stv_monotone : forall cfg t (p0 p : profile) prev n (s s' : mstate) np st,
  step_ctx p0 p prev ->
  stv_step cfg t p0 n p prev s = inl ((np, st), s') ->
  0 <= t -> (s_transfer cfg = TRandom -> script_ok s /\ is_integral t = true) ->
  total_wt (ballots np) <= total_wt (ballots p).
Proof. exact (round_monotone cand ceqb ceqb_spec). Qed.

(* election round, fractional transfer: the weight drops by exactly t for each quota-elected
   candidate plus the (transferred) weight of the ballots left with no surviving choice;
   full-weight transfer (SequentialRCV): only by the latter *)
Theorem c03_stv_accounting : forall cfg t (p0 p : profile) prev n (s s' : mstate) np st,
  step_ctx p0 p prev ->
  stv_step cfg t p0 n p prev s = inl ((np, st), s') ->
  s_transfer cfg <> TRandom -> (exists c, reaches t p c) ->
  let W := flat (elected st) in
  let f := keep_share (s_transfer cfg) W t (ballots p) in
  total_wt (ballots p) - total_wt (ballots np) ==
    match s_transfer cfg with TFractional => t * Qnat (length W) | _ => 0 end
    + exhausted_wt W f (ballots p)
  /\ 0 <= exhausted_wt W f (ballots p).
Proof. exact (round_accounting_elect cand ceqb ceqb_spec). Qed.

(* fractional and random transfer: each quota-elected candidate consumes at least the threshold *)
Theorem c03_stv_quota_consumed : forall cfg t (p0 p : profile) prev n (s s' : mstate) np st,
  step_ctx p0 p prev ->
  stv_step cfg t p0 n p prev s = inl ((np, st), s') ->
  s_transfer cfg <> TFullWeight ->
  (s_transfer cfg = TRandom -> script_ok s /\ is_integral t = true) ->
  (exists c, reaches t p c) ->
  total_wt (ballots np) <= total_wt (ballots p) - t * Qnat (length (flat (elected st))).
Proof. exact (round_quota_bound cand ceqb ceqb_spec). Qed.

(* elimination round: the weight drops exactly by the ballots that listed only the eliminated one *)
Theorem c03_stv_accounting_elim : forall cfg t (p0 p : profile) prev n (s s' : mstate) np st,
  step_ctx p0 p prev ->
  stv_step cfg t p0 n p prev s = inl ((np, st), s') ->
  (s_transfer cfg = TRandom -> script_ok s) ->
  (forall c, In c (cands p) -> tally c (ballots p) < t) ->
  Z.of_nat (length (cands p)) <> (s_m cfg - n)%Z ->
  exists x, eliminated st = [[x]] /\
    total_wt (ballots p) - total_wt (ballots np) == wt_where (exhausted [x]) (ballots p).
Proof. exact (round_accounting_elim cand ceqb ceqb_spec). Qed.

(* default election: no ballot is left, and none of them had a surviving choice *)
Theorem c03_stv_accounting_default : forall cfg t (p0 p : profile) prev n (s s' : mstate) np st,
  step_ctx p0 p prev ->
  stv_step cfg t p0 n p prev s = inl ((np, st), s') ->
  (s_transfer cfg = TRandom -> script_ok s) ->
  (forall c, In c (cands p) -> tally c (ballots p) < t) ->
  Z.of_nat (length (cands p)) = (s_m cfg - n)%Z ->
  ballots np = [] /\ forall b, In b (ballots p) -> exhausted (flat (elected st)) b = true.
Proof. exact (round_accounting_default cand ceqb ceqb_spec). Qed.

End C03_rounds.

Print Assumptions c03_stv_monotone.
Print Assumptions c03_stv_accounting.
Print Assumptions c03_stv_quota_consumed.
Print Assumptions c03_stv_accounting_elim.
Print Assumptions c03_stv_accounting_default.

(* ---------- non-vacuity ---------- *)
Open Scope positive_scope.

Definition bal3 (r : list positive) (w : Q) : ballot positive :=
  mkBallot (map (fun c => [c]) r) w [] None None.

(* A>B x4, A x2 (bullet votes), B x3, C x2 ; two seats ; Droop quota floor(11/3)+1 = 4.
   Round 1 elects A (tally 6): surplus 2, transfer value 1/3; A>B carries 4/3 on to B, the bullet
   votes' 2/3 is exhausted: 11 - (3 + 2 + 4/3) = 4 + 2/3 *)
Definition ex3_p : profile positive :=
  mkProfile [bal3 [1; 2] 4%Q; bal3 [1] 2%Q; bal3 [2] 3%Q; bal3 [3] 2%Q] [1; 2; 3].
Definition ex3_cfg : stv_cfg := mkStv 2%Z QDroop true TFractional None.

Definition ex3_s0 : estate positive :=
  match initial_state positive Pos.eqb ex3_p with inl s0 => s0 | inr _ => mkState 0%Z [] [] [] [] [] end.

Example ex3_ctx : step_ctx positive Pos.eqb ex3_p ex3_p ex3_s0.
Proof.
  assert (H : wf_stv_profile positive ex3_p).
  { apply (wf_stv_profile_b_ok positive Pos.eqb Pos.eqb_spec). vm_compute. reflexivity. }
  constructor; try apply H; [apply incl_refl|]. split; vm_compute; reflexivity.
Qed.

Example ex3_round1 :
  match stv_step positive Pos.eqb ex3_cfg 4%Q ex3_p 0%Z ex3_p ex3_s0 (mkM [] []) with
  | inl ((np, st), _) =>
      elected st = [[1]] /\
      total_wt positive (ballots ex3_p) - total_wt positive (ballots np) == 4%Q + (2#3) /\
      exhausted_wt positive Pos.eqb [1] (keep_share positive Pos.eqb TFractional [1] 4%Q (ballots ex3_p))
                   (ballots ex3_p) == (2#3)
  | inr _ => False
  end.
Proof. vm_compute. repeat split. Qed.
