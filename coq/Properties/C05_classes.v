(* Properties/C05_classes.v — C05, second audit: (a) the five public score classes with their
   documented limits written as literals; (b) TypeError of the whole run, exactly; (c) score
   ballots that also carry a ranking (finding score-rule-mixed-ballot-typeerror).
   Statements only; proofs are in Proofs/C05_classes_lib.v and Proofs/C05_classes.v.

   Model: [run_wrule (WRating m L tb)], [run_wrule (WApproval m tb)], [run_wrule (WCumulative m tb)],
   [run_rule (RLimited m k tb)], [run_rule (RBloc m k tb)] are the public classes Rating, Approval,
   Cumulative, Limited, BlocPlurality run to the end; [run_rule (RRating m L k tb)] is GeneralRating.
   [sc b] are the scores of ballot b with zeros dropped ("no scores" is [sc b = []]), [rk b] its
   ranking ([] for none).  "Accepted" means: the run continues with the one-shot score election
   [run_one_shot SKBallotScores m tb], i.e. validation raised nothing.
   What [run_one_shot SKBallotScores] does after validation: it scores the profile (KeyError if a
   scored candidate is not a candidate), elects the top m ([elect_top_m] on the round-0 ranking),
   removes the winners from every ballot, drops the ballots left with nothing or with weight <= 0,
   and scores the reduced profile.  A ballot of positive weight that has lost all its scored
   candidates but still ranks a non-elected candidate survives with an empty score map, and the
   last step raises TypeError. *)
From VK Require Import Base Core STV Pairwise Rules PV Election.
From VK.Spec Require Import ScoreSpec RatingSpec Anon RunSpec.
From VK.Proofs Require Import C05_classes.
From Coq Require Import Permutation.

Section C05.
Variable cand : Type.
Variable ceqb : cand -> cand -> bool.
Hypothesis ceqb_spec : forall a b, reflect (a = b) (ceqb a b).

Notation profile := (profile cand).
Notation mstate := (mstate cand).
Notation flat := (flat cand).
Notation rating_validate := (rating_validate cand).
Notation run_rule := (run_rule cand ceqb).
Notation run_wrule := (run_wrule cand ceqb).
Notation run_rating := (run_rating cand ceqb).
Notation run_one_shot := (run_one_shot cand ceqb).
Notation elect_top_m := (elect_top_m cand ceqb).
Notation score_to_ranking := (score_to_ranking cand).
Notation score_from_scores := (score_from_scores cand ceqb).
Notation remove_cand_prof := (remove_cand_prof cand ceqb).
Notation score_ballot_ok := (score_ballot_ok cand).
Notation score_ballot_bad := (score_ballot_bad cand).
Notation score_total := (score_total cand ceqb).
Notation straddles_seat := (straddles_seat cand).
Notation wf_rated_profile := (wf_rated_profile cand).

(* ================================================================== *)
(* (a) the five classes.  Each theorem: bad arguments -> ValueError; good arguments -> validation
   passes iff every ballot is within the class's limits; then the run IS the one-shot election;
   otherwise the run is TypeError; and "not all within limits" is "some ballot violates one". *)

(* Rating(m, L): 1 <= m, 0 < L; every score in [0, L]; no budget *)
Theorem c05_class_rating : forall m L tb (p : profile) s,
  ((m <= 0)%Z \/ L <= 0 -> run_wrule (WRating m L tb) p s = inr EValue) /\
  ((1 <= m)%Z -> 0 < L ->
     let accepted := Forall (fun b => sc b <> [] /\
                       (forall c q, In (c, q) (sc b) -> 0 <= q /\ q <= L)) (ballots p) in
     (rating_validate L None p = inl tt <-> accepted) /\
     (accepted -> run_wrule (WRating m L tb) p s = run_one_shot SKBallotScores m tb p s) /\
     (~ accepted -> run_wrule (WRating m L tb) p s = inr EType) /\
     (~ accepted <-> exists b, In b (ballots p) /\
        (sc b = [] \/ exists c q, In (c, q) (sc b) /\ (q < 0 \/ L < q)))).
Proof. exact (class_rating cand ceqb). Qed.

(* Approval(m): 1 <= m; every score in [0, 1]; no budget *)
Theorem c05_class_approval : forall m tb (p : profile) s,
  ((m <= 0)%Z -> run_wrule (WApproval m tb) p s = inr EValue) /\
  ((1 <= m)%Z ->
     let accepted := Forall (fun b => sc b <> [] /\
                       (forall c q, In (c, q) (sc b) -> 0 <= q /\ q <= 1)) (ballots p) in
     (rating_validate 1 None p = inl tt <-> accepted) /\
     (accepted -> run_wrule (WApproval m tb) p s = run_one_shot SKBallotScores m tb p s) /\
     (~ accepted -> run_wrule (WApproval m tb) p s = inr EType) /\
     (~ accepted <-> exists b, In b (ballots p) /\
        (sc b = [] \/ exists c q, In (c, q) (sc b) /\ (q < 0 \/ 1 < q)))).
Proof. exact (class_approval cand ceqb). Qed.

(* Limited(m, k): 1 <= m, 0 < k <= m (k > m is refused first); every score in [0, k]; total <= k *)
Theorem c05_class_limited : forall m k tb (p : profile) s,
  (inject_Z m < k \/ (m <= 0)%Z \/ k <= 0 -> run_rule (RLimited m k tb) p s = inr EValue) /\
  ((1 <= m)%Z -> 0 < k -> k <= inject_Z m ->
     let accepted := Forall (fun b => sc b <> [] /\
                       (forall c q, In (c, q) (sc b) -> 0 <= q /\ q <= k) /\
                       qsum (map snd (sc b)) <= k) (ballots p) in
     (rating_validate k (Some k) p = inl tt <-> accepted) /\
     (accepted -> run_rule (RLimited m k tb) p s = run_one_shot SKBallotScores m tb p s) /\
     (~ accepted -> run_rule (RLimited m k tb) p s = inr EType) /\
     (~ accepted <-> exists b, In b (ballots p) /\
        (sc b = [] \/ (exists c q, In (c, q) (sc b) /\ (q < 0 \/ k < q)) \/
         k < qsum (map snd (sc b))))).
Proof. exact (class_limited cand ceqb). Qed.

(* Cumulative(m): 1 <= m; every score in [0, m]; total <= m *)
Theorem c05_class_cumulative : forall m tb (p : profile) s,
  ((m <= 0)%Z -> run_wrule (WCumulative m tb) p s = inr EValue) /\
  ((1 <= m)%Z ->
     let accepted := Forall (fun b => sc b <> [] /\
                       (forall c q, In (c, q) (sc b) -> 0 <= q /\ q <= inject_Z m) /\
                       qsum (map snd (sc b)) <= inject_Z m) (ballots p) in
     (rating_validate (inject_Z m) (Some (inject_Z m)) p = inl tt <-> accepted) /\
     (accepted -> run_wrule (WCumulative m tb) p s = run_one_shot SKBallotScores m tb p s) /\
     (~ accepted -> run_wrule (WCumulative m tb) p s = inr EType) /\
     (~ accepted <-> exists b, In b (ballots p) /\
        (sc b = [] \/ (exists c q, In (c, q) (sc b) /\ (q < 0 \/ inject_Z m < q)) \/
         inject_Z m < qsum (map snd (sc b))))).
Proof. exact (class_cumulative cand ceqb). Qed.

(* BlocPlurality(m, k): the budget B is k, or m when k is None or 0; 1 <= m, 1 <= B; every score
   in [0, 1]; total <= B *)
Theorem c05_class_bloc : forall m k tb B (p : profile) s,
  B = match k with Some x => if Z.eqb x 0 then m else x | None => m end ->
  ((m <= 0 \/ B <= 0)%Z -> run_rule (RBloc m k tb) p s = inr EValue) /\
  ((1 <= m)%Z -> (1 <= B)%Z ->
     let accepted := Forall (fun b => sc b <> [] /\
                       (forall c q, In (c, q) (sc b) -> 0 <= q /\ q <= 1) /\
                       qsum (map snd (sc b)) <= inject_Z B) (ballots p) in
     (rating_validate 1 (Some (inject_Z B)) p = inl tt <-> accepted) /\
     (accepted -> run_rule (RBloc m k tb) p s = run_one_shot SKBallotScores m tb p s) /\
     (~ accepted -> run_rule (RBloc m k tb) p s = inr EType) /\
     (~ accepted <-> exists b, In b (ballots p) /\
        (sc b = [] \/ (exists c q, In (c, q) (sc b) /\ (q < 0 \/ 1 < q)) \/
         inject_Z B < qsum (map snd (sc b))))).
Proof. exact (class_bloc cand ceqb). Qed.

(* ================================================================== *)
(* (b) TypeError of the whole run *)

(* GeneralRating, every tiebreak option, every profile.  TypeError iff the arguments are accepted
   (otherwise ValueError comes first) and either a ballot violates a limit, or — every scored
   candidate being a candidate (otherwise KeyError) — the top-m selection on the round-0 ranking
   raises TypeError itself, or it returns winners [el], the remaining candidates are distinct
   (otherwise ValueError) and some ballot of positive weight has all its scored candidates
   among the winners while its ranking names a non-winner *)
Theorem c05_run_type_iff : forall m L k tb (p : profile) s,
  run_rule (RRating m L k tb) p s = inr EType <->
  rating_args_ok m L k /\
  ((exists b, In b (ballots p) /\ score_ballot_bad L k b) \/
   ((forall b, In b (ballots p) -> incl (map fst (sc b)) (cands p)) /\
    (elect_top_m (score_to_ranking (map (fun c => (c, score_total p c)) (cands p)) true)
                 m (Some p) tb s = inr EType \/
     exists el rem t s',
       elect_top_m (score_to_ranking (map (fun c => (c, score_total p c)) (cands p)) true)
                   m (Some p) tb s = inl ((el, rem, t), s') /\
       NoDup (set_diff cand ceqb (cands p) (flat el)) /\
       exists b, In b (ballots p) /\
         0 < wt b /\ (forall c, In c (map fst (sc b)) -> In c (flat el)) /\
         exists c, In c (flat (rk b)) /\ ~ In c (flat el)))).
Proof. exact (run_type_iff cand ceqb ceqb_spec). Qed.

(* tiebreak None / random / an unknown name: the top-m selection raises no TypeError *)
Theorem c05_run_type_iff_plain : forall m L k tb (p : profile) s,
  tb = None \/ tb = Some TBRandom \/ tb = Some TBInvalid ->
  (run_rule (RRating m L k tb) p s = inr EType <->
   rating_args_ok m L k /\
   ((exists b, In b (ballots p) /\ score_ballot_bad L k b) \/
    ((forall b, In b (ballots p) -> incl (map fst (sc b)) (cands p)) /\
     exists el rem t s',
       elect_top_m (score_to_ranking (map (fun c => (c, score_total p c)) (cands p)) true)
                   m (Some p) tb s = inl ((el, rem, t), s') /\
       NoDup (set_diff cand ceqb (cands p) (flat el)) /\
       exists b, In b (ballots p) /\
         0 < wt b /\ (forall c, In c (map fst (sc b)) -> In c (flat el)) /\
         exists c, In c (flat (rk b)) /\ ~ In c (flat el)))).
Proof. exact (run_type_iff_plain cand ceqb ceqb_spec). Qed.

(* ... and when every candidate a ballot ranks is also scored by it — in particular when no
   ballot carries a ranking ([wf_rated_profile]) — TypeError is exactly "accepted arguments and
   some ballot violates a limit" *)
Theorem c05_run_type_iff_covered : forall m L k tb (p : profile) s,
  tb = None \/ tb = Some TBRandom \/ tb = Some TBInvalid ->
  (forall b, In b (ballots p) -> incl (flat (rk b)) (map fst (sc b))) ->
  (run_rule (RRating m L k tb) p s = inr EType <->
   rating_args_ok m L k /\ exists b, In b (ballots p) /\ score_ballot_bad L k b).
Proof. exact (run_type_iff_covered cand ceqb ceqb_spec). Qed.

(* first_place / borda tiebreak.  The statement for all profiles is [c05_run_type_iff] (with
   [elect_top_m ... = inr EType] left as it is); in closed form it is proved on rated profiles
   (no ranking, distinct known keys): TypeError iff a ballot violates a limit, or the tiebreak is
   consulted (seat count in range, a group straddles seat m) and there is a ballot at all.
   Full statement wanted: the same without [wf_rated_profile p] — false as it stands, since a
   ranked-and-scored profile lets the first_place / borda tiebreak succeed. *)
Theorem c05_run_type_iff_scored_partial : forall m L k kind (p : profile) s,
  kind = TBFirstPlace \/ kind = TBBorda -> wf_rated_profile p ->
  (run_rule (RRating m L k (Some kind)) p s = inr EType <->
   rating_args_ok m L k /\
   ((exists b, In b (ballots p) /\ score_ballot_bad L k b) \/
    ((1 <= m <= Z.of_nat (length (cands p)))%Z /\
     straddles_seat (score_to_ranking (map (fun c => (c, score_total p c)) (cands p)) true) m /\
     ballots p <> []))).
Proof. exact (run_type_iff_rated_scored cand ceqb ceqb_spec). Qed.

(* the five public classes, tiebreak None / random / unknown, every ranked candidate scored:
   TypeError iff the class's arguments are accepted and some ballot violates the class's limits *)
Theorem c05_class_type_iff : forall tb (p : profile) s,
  tb = None \/ tb = Some TBRandom \/ tb = Some TBInvalid ->
  (forall b, In b (ballots p) -> incl (flat (rk b)) (map fst (sc b))) ->
  (forall m L, run_wrule (WRating m L tb) p s = inr EType <->
     (1 <= m)%Z /\ 0 < L /\ exists b, In b (ballots p) /\
       (sc b = [] \/ exists c q, In (c, q) (sc b) /\ (q < 0 \/ L < q))) /\
  (forall m, run_wrule (WApproval m tb) p s = inr EType <->
     (1 <= m)%Z /\ exists b, In b (ballots p) /\
       (sc b = [] \/ exists c q, In (c, q) (sc b) /\ (q < 0 \/ 1 < q))) /\
  (forall m k, run_rule (RLimited m k tb) p s = inr EType <->
     (1 <= m)%Z /\ 0 < k /\ k <= inject_Z m /\ exists b, In b (ballots p) /\
       (sc b = [] \/ (exists c q, In (c, q) (sc b) /\ (q < 0 \/ k < q)) \/
        k < qsum (map snd (sc b)))) /\
  (forall m, run_wrule (WCumulative m tb) p s = inr EType <->
     (1 <= m)%Z /\ exists b, In b (ballots p) /\
       (sc b = [] \/ (exists c q, In (c, q) (sc b) /\ (q < 0 \/ inject_Z m < q)) \/
        inject_Z m < qsum (map snd (sc b)))) /\
  (forall m k B, B = match k with Some x => if Z.eqb x 0 then m else x | None => m end ->
     (run_rule (RBloc m k tb) p s = inr EType <->
      (1 <= m)%Z /\ (1 <= B)%Z /\ exists b, In b (ballots p) /\
        (sc b = [] \/ (exists c q, In (c, q) (sc b) /\ (q < 0 \/ 1 < q)) \/
         inject_Z B < qsum (map snd (sc b))))).
Proof. exact (class_type_iff cand ceqb ceqb_spec). Qed.

(* ================================================================== *)
(* (c) ballots carrying a ranking beside their scores *)

(* (ii) accepted arguments and ballots, distinct candidates, every scored candidate a candidate.
   An exception of the top-m selection is the run's exception.  When the selection returns the
   winners [el]: TypeError iff some ballot of positive weight has all its scored candidates among
   the winners while its ranking names a non-winner; otherwise the run succeeds with exactly that
   selection, and the round-1 scores are the totals of the reduced profile *)
Theorem c05_mixed_round1 : forall m L k tb (p : profile) s,
  rating_args_ok m L k -> Forall (score_ballot_ok L k) (ballots p) -> NoDup (cands p) ->
  (forall b, In b (ballots p) -> incl (map fst (sc b)) (cands p)) ->
  (forall e,
     elect_top_m (score_to_ranking (map (fun c => (c, score_total p c)) (cands p)) true)
                 m (Some p) tb s = inr e -> run_rating m L k tb p s = inr e) /\
  (forall el rem t s',
     elect_top_m (score_to_ranking (map (fun c => (c, score_total p c)) (cands p)) true)
                 m (Some p) tb s = inl ((el, rem, t), s') ->
     let stuck := exists b, In b (ballots p) /\
                    0 < wt b /\ (forall c, In c (map fst (sc b)) -> In c (flat el)) /\
                    exists c, In c (flat (rk b)) /\ ~ In c (flat el) in
     (run_rating m L k tb p s = inr EType <-> stuck) /\
     (~ stuck -> exists s0 s1 np,
        run_rating m L k tb p s = inl ([s0; s1], s') /\
        escores s0 = map (fun c => (c, score_total p c)) (cands p) /\
        remaining s0 = score_to_ranking (map (fun c => (c, score_total p c)) (cands p)) true /\
        elected s1 = el /\ remaining s1 = rem /\
        tiebreaks s1 = match t with Some x => [x] | None => [] end /\
        remove_cand_prof (flat el) true false p = inl np /\
        escores s1 = map (fun c => (c, score_total np c)) (cands np))).
Proof. exact (mixed_round1 cand ceqb ceqb_spec). Qed.

(* (ii)/(iii) no tiebreak: no draw is made and the winners are the first m candidates W of the
   round-0 ranking; the three outcomes are told apart exactly.  ValueError: more seats than
   candidates or a tie straddling seat m (as in [c05_top_m_errors]); TypeError: neither, and a
   ballot is stuck with respect to W; success: neither, and no ballot is stuck *)
Theorem c05_mixed_none : forall m L k (p : profile) s,
  rating_args_ok m L k -> Forall (score_ballot_ok L k) (ballots p) -> NoDup (cands p) ->
  (forall b, In b (ballots p) -> incl (map fst (sc b)) (cands p)) ->
  let R := score_to_ranking (map (fun c => (c, score_total p c)) (cands p)) true in
  let W := firstn (Z.to_nat m) (flat R) in
  let stuck := exists b, In b (ballots p) /\
                 0 < wt b /\ (forall c, In c (map fst (sc b)) -> In c W) /\
                 exists c, In c (flat (rk b)) /\ ~ In c W in
  (run_rating m L k None p s = inr EValue <->
     (Z.of_nat (length (cands p)) < m)%Z \/ straddles_seat R m) /\
  (run_rating m L k None p s = inr EType <->
     (m <= Z.of_nat (length (cands p)))%Z /\ ~ straddles_seat R m /\ stuck) /\
  ((exists sts, run_rating m L k None p s = inl (sts, s)) <->
     (m <= Z.of_nat (length (cands p)))%Z /\ ~ straddles_seat R m /\ ~ stuck) /\
  (forall e, run_rating m L k None p s = inr e -> e = EValue \/ e = EType) /\
  (forall sts s', run_rating m L k None p s = inl (sts, s') ->
     s' = s /\ exists s0 s1, sts = [s0; s1] /\ flat (elected s1) = W /\
       elected s1 ++ remaining s1 = R /\ tiebreaks s1 = []).
Proof. exact (mixed_none cand ceqb ceqb_spec). Qed.

(* (iii) Properties/C01_rules.v [c01_rating_errors] with "rated ballots carry no ranking"
   ([wf_rated_profile]) weakened to "every candidate a ballot ranks is also scored by it": no
   tiebreak — only ValueError, exactly on too many seats or a straddling tie, success otherwise,
   without a draw; random — ValueError or a wrong replay script; unknown name — ValueError; never
   TypeError *)
Theorem c05_covered_errors : forall m L k (p : profile),
  rating_args_ok m L k -> Forall (score_ballot_ok L k) (ballots p) -> NoDup (cands p) ->
  (forall b, In b (ballots p) -> incl (map fst (sc b)) (cands p)) ->
  (forall b, In b (ballots p) -> incl (flat (rk b)) (map fst (sc b))) ->
  score_from_scores p = inl (map (fun c => (c, score_total p c)) (cands p)) /\
  (forall s, run_rating m L k None p s = inr EValue <->
     (Z.of_nat (length (cands p)) < m)%Z \/
     straddles_seat (score_to_ranking (map (fun c => (c, score_total p c)) (cands p)) true) m) /\
  (forall s e, run_rating m L k None p s = inr e -> e = EValue) /\
  (forall s, (exists sts, run_rating m L k None p s = inl (sts, s)) \/
             run_rating m L k None p s = inr EValue) /\
  (forall s e, run_rating m L k (Some TBRandom) p s = inr e -> e = EValue \/ e = EScript) /\
  (forall s e, run_rating m L k (Some TBInvalid) p s = inr e -> e = EValue) /\
  (forall tb s, tb = None \/ tb = Some TBRandom \/ tb = Some TBInvalid ->
     run_rating m L k tb p s <> inr EType).
Proof. exact (covered_errors cand ceqb ceqb_spec). Qed.

End C05.

(* (c)(i) "a profile accepted by validation never ends in TypeError" is FALSE: accepted
   arguments, every ballot within the limits, distinct candidates, every scored candidate a
   candidate — and the run (GeneralRating, and the public class Approval) raises TypeError *)
Theorem c05_accepted_never_raises_type_refuted :
  exists (m : Z) (L : Q) (k : option Q) (tb : option tb_kind) (p : Core.profile positive)
         (s : Core.mstate positive),
    rating_args_ok m L k /\ Forall (score_ballot_ok positive L k) (ballots p) /\
    rating_validate positive L k p = inl tt /\ NoDup (cands p) /\
    (forall b, In b (ballots p) -> incl (map fst (sc b)) (cands p)) /\
    run_rule positive Pos.eqb (RRating m L k tb) p s = inr EType /\
    run_wrule positive Pos.eqb (WApproval m tb) p s = inr EType.
Proof. exact accepted_type_witness. Qed.

(* the closed form of [c05_run_type_iff_scored_partial] is FALSE once ballots carry rankings:
   accepted arguments and ballots, distinct candidates, every scored candidate a candidate, every
   ranked candidate scored, seat count in range, a tie straddling the last seat, a ballot — and
   the run with the borda tiebreak SUCCEEDS (the tiebreak can be computed from the rankings) *)
Theorem c05_run_type_iff_scored_mixed_refuted :
  exists (m : Z) (L : Q) (k : option Q) (p : Core.profile positive) (s : Core.mstate positive),
    rating_args_ok m L k /\ Forall (score_ballot_ok positive L k) (ballots p) /\ NoDup (cands p) /\
    (forall b, In b (ballots p) -> incl (map fst (sc b)) (cands p)) /\
    (forall b, In b (ballots p) -> incl (flat positive (rk b)) (map fst (sc b))) /\
    (1 <= m <= Z.of_nat (length (cands p)))%Z /\
    straddles_seat positive
      (score_to_ranking positive (map (fun c => (c, score_total positive Pos.eqb p c)) (cands p)) true) m /\
    ballots p <> [] /\
    exists s0 s1, run_rule positive Pos.eqb (RRating m L k (Some TBBorda)) p s = inl ([s0; s1], s) /\
      elected s1 = [[1]]%positive /\ tiebreaks s1 = [([1;2]%positive, [[1];[2]]%positive)].
Proof. exact scored_tiebreak_mixed_witness. Qed.

Print Assumptions c05_class_rating.
Print Assumptions c05_class_approval.
Print Assumptions c05_class_limited.
Print Assumptions c05_class_cumulative.
Print Assumptions c05_class_bloc.
Print Assumptions c05_run_type_iff.
Print Assumptions c05_run_type_iff_plain.
Print Assumptions c05_run_type_iff_covered.
Print Assumptions c05_run_type_iff_scored_partial.
Print Assumptions c05_class_type_iff.
Print Assumptions c05_mixed_round1.
Print Assumptions c05_mixed_none.
Print Assumptions c05_covered_errors.
Print Assumptions c05_accepted_never_raises_type_refuted.
Print Assumptions c05_run_type_iff_scored_mixed_refuted.

(* ------------------------------------------------------------------ *)
(* Non-vacuity and boundary checks (cand := positive, ceqb := Pos.eqb). *)

Definition sb (d : list (positive * Q)) (w : Q) : ballot positive := mkBallot [] w d None None.
Definition mb (r : list (list positive)) (d : list (positive * Q)) (w : Q) : ballot positive :=
  mkBallot r w d None None.
Definition st0 : Core.mstate positive := mkM [] [].
Definition prof (bs : list (ballot positive)) : Core.profile positive := mkProfile bs [1;2;3]%positive.

Ltac in_scores Hin :=
  cbn [In] in Hin;
  repeat (destruct Hin as [Hin|Hin]; [inversion Hin; subst; split; discriminate|]); destruct Hin.

(* ---- Approval: a score equal to the limit 1 is accepted; 11/10, a negative score and a ballot
   without scores are rejected, also when the offender is the LAST ballot ---- *)
Definition pA := prof [sb [(1%positive, 1)] 1; sb [(2%positive, 1); (3%positive, 1)] (1#2)].

Example ex_approval_accepted :
  Forall (fun b => sc b <> [] /\ (forall c q, In (c, q) (sc b) -> 0 <= q /\ q <= 1)) (ballots pA) /\
  (exists s0 s1, run_wrule positive Pos.eqb (WApproval 1 None) pA st0 = inl ([s0; s1], st0) /\
                 elected s1 = [[1]]%positive) /\
  run_wrule positive Pos.eqb (WApproval 1 None) pA st0
  = run_one_shot positive Pos.eqb SKBallotScores 1 None pA st0.
Proof.
  split.
  - apply Forall_forall. intros b Hb. cbn in Hb.
    destruct Hb as [<-|[<-|[]]]; (split; [discriminate|]); cbn [sc sb]; intros c q Hin; in_scores Hin.
  - split; [do 2 eexists; split; [vm_compute; reflexivity|reflexivity]|vm_compute; reflexivity].
Qed.

Example ex_approval_rejected :
  run_wrule positive Pos.eqb (WApproval 1 None)
    (prof [sb [(1%positive, 1)] 1; sb [(2%positive, 1); (3%positive, 11#10)] (1#2)]) st0 = inr EType /\
  run_wrule positive Pos.eqb (WApproval 1 None)
    (prof [sb [(1%positive, 1)] 1; sb [(2%positive, -1#10)] 1]) st0 = inr EType /\
  run_wrule positive Pos.eqb (WApproval 1 None)
    (prof [sb [(1%positive, 1)] 1; sb [] 1]) st0 = inr EType /\
  run_wrule positive Pos.eqb (WApproval 0 None) pA st0 = inr EValue /\
  (* the witness of the disjunction of [c05_class_approval] *)
  (exists b, In b (ballots (prof [sb [(1%positive, 1)] 1; sb [(2%positive, 1); (3%positive, 11#10)] (1#2)])) /\
     (sc b = [] \/ exists c q, In (c, q) (sc b) /\ (q < 0 \/ 1 < q))).
Proof.
  repeat (split; [vm_compute; reflexivity|]).
  eexists. split; [right; left; reflexivity|]. right. exists 3%positive, (11#10).
  split; [right; left; reflexivity|right; reflexivity].
Qed.

(* ---- Rating(m, L = 3): a score equal to 3 accepted, 31/10 rejected; no budget: totals as large
   as one likes ---- *)
Example ex_rating_boundary :
  (exists sts, run_wrule positive Pos.eqb (WRating 1 3 None)
     (prof [sb [(1%positive, 3); (2%positive, 3); (3%positive, 5#2)] 1]) st0 = inr EValue /\
     run_wrule positive Pos.eqb (WRating 2 3 None)
     (prof [sb [(1%positive, 3); (2%positive, 3); (3%positive, 5#2)] 1]) st0 = inl (sts, st0)) /\
  run_wrule positive Pos.eqb (WRating 2 3 None)
     (prof [sb [(1%positive, 3); (2%positive, 3)] 1; sb [(3%positive, 31#10)] 1]) st0 = inr EType /\
  run_wrule positive Pos.eqb (WRating 2 0 None) pA st0 = inr EValue.
Proof.
  split; [eexists; split; vm_compute; reflexivity|]. split; vm_compute; reflexivity.
Qed.

(* ---- Limited(2, 2) and Cumulative(2): a single score 2 (== limit == budget) and a ballot
   1 + 1 (total == budget) accepted; total 21/10 on the last ballot rejected although every score
   is within the limit — the same profile is accepted by Rating(2, L = 2), which has no budget;
   Limited(2, 3): ValueError ---- *)
Definition pL := prof [sb [(1%positive, 2)] 1; sb [(2%positive, 1); (3%positive, 1)] (1#2);
                       sb [(2%positive, 1)] 1].
Definition pL_over := prof [sb [(1%positive, 2)] 1; sb [(2%positive, 1)] 1;
                            sb [(2%positive, 1); (3%positive, 11#10)] (1#2)].

Example ex_limited_accepted :
  Forall (fun b => sc b <> [] /\ (forall c q, In (c, q) (sc b) -> 0 <= q /\ q <= 2) /\
                   qsum (map snd (sc b)) <= 2) (ballots pL) /\
  (exists s0 s1, run_rule positive Pos.eqb (RLimited 2 2 None) pL st0 = inl ([s0; s1], st0) /\
                 elected s1 = [[1];[2]]%positive) /\
  (exists s0 s1, run_wrule positive Pos.eqb (WCumulative 2 None) pL st0 = inl ([s0; s1], st0) /\
                 elected s1 = [[1];[2]]%positive).
Proof.
  split.
  - apply Forall_forall. intros b Hb. cbn in Hb.
    destruct Hb as [<-|[<-|[<-|[]]]]; (split; [discriminate|]); cbn [sc sb];
      (split; [intros c q Hin; in_scores Hin|vm_compute; discriminate]).
  - split; do 2 eexists; (split; [vm_compute; reflexivity|reflexivity]).
Qed.

Example ex_limited_rejected :
  run_rule positive Pos.eqb (RLimited 2 2 None) pL_over st0 = inr EType /\
  run_wrule positive Pos.eqb (WCumulative 2 None) pL_over st0 = inr EType /\
  (exists sts, run_wrule positive Pos.eqb (WRating 2 2 None) pL_over st0 = inl (sts, st0)) /\
  run_rule positive Pos.eqb (RLimited 2 3 None) pL st0 = inr EValue /\
  run_rule positive Pos.eqb (RLimited 2 0 None) pL st0 = inr EValue /\
  (* a score above the limit on the last ballot, total within the budget *)
  run_rule positive Pos.eqb (RLimited 3 (3#2) None)
    (prof [sb [(1%positive, 3#2)] 1; sb [(2%positive, 8#5)] 1]) st0 = inr EType /\
  (exists b, In b (ballots pL_over) /\
     (sc b = [] \/ (exists c q, In (c, q) (sc b) /\ (q < 0 \/ 2 < q)) \/ 2 < qsum (map snd (sc b)))).
Proof.
  split; [vm_compute; reflexivity|]. split; [vm_compute; reflexivity|].
  split; [eexists; vm_compute; reflexivity|].
  repeat (split; [vm_compute; reflexivity|]).
  eexists. split; [right; right; left; reflexivity|]. right. right. vm_compute. reflexivity.
Qed.

(* ---- BlocPlurality(2, k): budget 2 for k = None and k = 0, 3 for k = 3; score limit 1 ---- *)
Definition pB := prof [sb [(1%positive, 1); (2%positive, 1)] 1; sb [(3%positive, 1)] (1#2)].
Definition pB3 := prof [sb [(1%positive, 1)] 1; sb [(2%positive, 1)] (1#2);
                        sb [(1%positive, 1); (2%positive, 1); (3%positive, 1)] 1].

Example ex_bloc_boundary :
  Forall (fun b => sc b <> [] /\ (forall c q, In (c, q) (sc b) -> 0 <= q /\ q <= 1) /\
                   qsum (map snd (sc b)) <= inject_Z 2) (ballots pB) /\
  (exists sts, run_rule positive Pos.eqb (RBloc 2 None None) pB st0 = inl (sts, st0)) /\
  run_rule positive Pos.eqb (RBloc 2 None None) pB3 st0 = inr EType /\
  run_rule positive Pos.eqb (RBloc 2 (Some 0%Z) None) pB3 st0 = inr EType /\
  run_rule positive Pos.eqb (RBloc 2 (Some 2%Z) None) pB3 st0 = inr EType /\
  (exists s0 s1, run_rule positive Pos.eqb (RBloc 2 (Some 3%Z) None) pB3 st0 = inl ([s0; s1], st0) /\
                 elected s1 = [[1];[2]]%positive) /\
  run_rule positive Pos.eqb (RBloc 2 (Some (-1)%Z) None) pB st0 = inr EValue /\
  run_rule positive Pos.eqb (RBloc 2 (Some 3%Z) None)
    (prof [sb [(1%positive, 1)] 1; sb [(2%positive, 11#10)] 1]) st0 = inr EType.
Proof.
  split.
  - apply Forall_forall. intros b Hb. cbn in Hb.
    destruct Hb as [<-|[<-|[]]]; (split; [discriminate|]); cbn [sc sb];
      (split; [intros c q Hin; in_scores Hin|vm_compute; discriminate]).
  - split; [eexists; vm_compute; reflexivity|].
    repeat (split; [vm_compute; reflexivity|]).
    split; [do 2 eexists; split; [vm_compute; reflexivity|reflexivity]|].
    split; vm_compute; reflexivity.
Qed.

(* ---- (b): a tie at the last seat with a borda tiebreak on rated ballots: TypeError from the
   tiebreak, not from validation; with tiebreak None the same run is a ValueError ---- *)
Definition pT := prof [sb [(1%positive, 1); (2%positive, 1)] 1; sb [(3%positive, 1)] (1#2)].

Example ex_scored_tiebreak :
  wf_rated_profile positive pT /\
  run_rule positive Pos.eqb (RRating 1 1 None (Some TBBorda)) pT st0 = inr EType /\
  run_rule positive Pos.eqb (RRating 1 1 None None) pT st0 = inr EValue /\
  straddles_seat positive
    (score_to_ranking positive (map (fun c => (c, score_total positive Pos.eqb pT c)) (cands pT)) true) 1.
Proof.
  split.
  - split; [cbn; repeat (constructor; [cbn; intuition discriminate|]); constructor|].
    repeat (constructor; [cbn; repeat split; [discriminate
      |repeat (constructor; [cbn; intuition discriminate|]); constructor
      |intros x Hx; cbn in Hx |- *; intuition]|]). constructor.
  - split; [vm_compute; reflexivity|]. split; [vm_compute; reflexivity|].
    exists [], [1;2]%positive, [[3]]%positive. split; [vm_compute; reflexivity|]. cbn. split; reflexivity.
Qed.

(* ---- (c): ranked-and-scored ballots ---- *)
(* the refuting profile: ballot 1 ranks 1 > 2 and scores only 1 *)
Definition pM := prof [mb [[1];[2]]%positive [(1%positive, 1)] 1;
                       sb [(2%positive, 1); (3%positive, 1)] (1#2)].

Example ex_mixed_stuck :
  rating_args_ok 1 1 None /\ Forall (score_ballot_ok positive 1 None) (ballots pM) /\
  NoDup (cands pM) /\ (forall b, In b (ballots pM) -> incl (map fst (sc b)) (cands pM)) /\
  firstn (Z.to_nat 1) (flat positive (score_to_ranking positive
     (map (fun c => (c, score_total positive Pos.eqb pM c)) (cands pM)) true)) = [1]%positive /\
  (* ballot 1 is stuck with respect to W = {1} *)
  (exists b, In b (ballots pM) /\ 0 < wt b /\
     (forall c, In c (map fst (sc b)) -> In c [1]%positive) /\
     exists c, In c (flat positive (rk b)) /\ ~ In c [1]%positive) /\
  run_rating positive Pos.eqb 1 1 None None pM st0 = inr EType /\
  run_rating positive Pos.eqb 1 1 None (Some TBRandom) pM st0 = inr EType.
Proof.
  split; [split; [discriminate|split; [reflexivity|exact I]]|]. split.
  { apply Forall_forall. intros b Hb. cbn in Hb.
    destruct Hb as [<-|[<-|[]]]; (split; [discriminate|]); cbn [sc sb mb]; (split; [|exact I]);
      intros c q Hin; in_scores Hin. }
  split; [cbn; repeat (constructor; [cbn; intuition discriminate|]); constructor|].
  split.
  { intros b Hb x Hx. cbn in Hb.
    repeat (destruct Hb as [Hb|Hb]; [subst b; cbn in Hx |- *; intuition|]). destruct Hb. }
  split; [vm_compute; reflexivity|]. split.
  { eexists. split; [left; reflexivity|]. cbn [wt sc rk mb map fst]. split; [reflexivity|].
    split; [intros c Hc; exact Hc|]. exists 2%positive. split; [cbn; right; left; reflexivity|].
    cbn. intuition discriminate. }
  split; vm_compute; reflexivity.
Qed.

(* a ballot ranking 1 > 2 but scoring only 2: not covered, yet nobody is stuck once 1 is elected
   (its score for 2 survives) — the run succeeds; a covered mixed ballot (ranks 1 > 2, scores
   both) succeeds as well; a ballot ranking 1 > 3 and scoring only 2, two seats: 1 and 2 are
   elected, the ballot keeps the ranking (3) and no score — TypeError; with weight 0 such a
   ballot is dropped instead *)
Example ex_mixed_fine :
  (exists s0 s1, run_rating positive Pos.eqb 1 1 None None
     (prof [mb [[1];[2]]%positive [(2%positive, 1)] 1; sb [(1%positive, 1)] 2]) st0 = inl ([s0; s1], st0) /\
     elected s1 = [[1]]%positive) /\
  (exists s0 s1, run_rating positive Pos.eqb 1 1 None None
     (prof [mb [[1];[2]]%positive [(1%positive, 1); (2%positive, 1)] 1; sb [(1%positive, 1)] 2]) st0
     = inl ([s0; s1], st0) /\ elected s1 = [[1]]%positive) /\
  run_rating positive Pos.eqb 2 1 None None
     (prof [mb [[1];[3]]%positive [(2%positive, 1)] 1; sb [(1%positive, 1)] 2]) st0 = inr EType /\
  (* zero weight: the stranded ballot is dropped, no TypeError *)
  (exists sts, run_rating positive Pos.eqb 1 1 None None
     (prof [mb [[1];[2]]%positive [(1%positive, 1)] 0; sb [(1%positive, 1)] 2]) st0 = inl (sts, st0)).
Proof.
  split; [do 2 eexists; split; [vm_compute; reflexivity|reflexivity]|].
  split; [do 2 eexists; split; [vm_compute; reflexivity|reflexivity]|].
  split; [vm_compute; reflexivity|eexists; vm_compute; reflexivity].
Qed.
