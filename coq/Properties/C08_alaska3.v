(* Properties/C08_alaska3.v — C08, anonymity / independence of representation: Alaska with EVERY
   tiebreak setting and EVERY draw script, in EVERY mode.  Closes the case left open by
   [c08_alaska_script_runs_partial] (Properties/C08_scripts2.v, premise [alaska_script_ok]):
   simultaneous mode + Hare quota + fractional transfer, where the threshold floor(N/m) can be zero.
   Statements only.  Proofs: Proofs/C08_alaska3.v.

   Why the suspected discrepancy (KeyError on one listing of a tied group, ZeroDivisionError on
   another, inside a get_profile replay that has left the recorded run) cannot occur: with a
   threshold <= 0 in simultaneous mode every tally is >= the threshold, so no round of the STV stage
   is an elimination, no STV round records a tiebreak ([c08_zero_threshold_stage_quiet]), the stage
   consumes no draw and its replay repeats the very calls of the run; with a threshold > 0 the
   winners of a replayed simultaneous election have positive tallies, so only KeyError is possible,
   whatever the listing.

   Vocabulary: Spec/Anon.v ([profile_equiv], [state_equiv], [stv_domain]), Spec/AnonRules.v
   ([mstate_equiv], [mres_equiv_log]), Spec/TieSpec.v ([deterministic], [no_tiebreak]),
   Spec/AnonRules2.v ([anon_domain], [rated_tiebreak_ok]).
   Reading of [mres_equiv_log (Forall2 state_equiv) x y]: both runs fail with the same error, or both
   succeed with the same number of rounds, agreeing round by round (groups as sets, [==] tallies,
   recorded tiebreaks), leaving the same draws and equivalent call logs. *)
From Coq Require Import List ZArith QArith Bool Permutation.
From VK Require Import Base Core STV Pairwise Rules.
From VK.Spec Require Import Content ScoreSpec EditSpec Anon AnonRules TieSpec AnonRules2.
From VK.Proofs Require Import C08_anon C08_candorder C08_alaska3.
From VK.Properties Require Import C08.
Import ListNotations.
Open Scope Q_scope.

Section C08_alaska3.
Variable cand : Type.
Variable ceqb : cand -> cand -> bool.
Hypothesis ceqb_spec : forall a b, reflect (a = b) (ceqb a b).

Notation cset := (cset cand).
Notation ballot := (ballot cand).
Notation profile := (profile cand).
Notation mstate := (mstate cand).
Notation estate := (estate cand).
Notation state_equiv := (state_equiv cand).
Notation profile_equiv := (profile_equiv cand ceqb).
Notation stv_domain := (stv_domain cand).
Notation mstate_equiv := (mstate_equiv cand ceqb).
Notation mres_equiv_log := (mres_equiv_log cand ceqb).
Notation no_tiebreak := (no_tiebreak cand).
Notation anon_domain := (anon_domain cand).
Notation rated_tiebreak_ok := (rated_tiebreak_ok cand).
Notation run_rule := (run_rule cand ceqb).

(* Alaska, general form (two equivalent source states): the FULL statement of
   [c08_alaska_script_runs_partial], without the premise [alaska_script_ok cfg] *)
Theorem c08_alaska_script_runs :
  forall (m1 m2 : Z) (cfg : stv_cfg) (p p' : profile) (s s' : mstate),
  s_transfer cfg <> TRandom -> mstate_equiv s s' ->
  stv_domain p -> stv_domain p' -> profile_equiv p p' ->
  mres_equiv_log (Forall2 state_equiv) (run_rule (RAlaska m1 m2 cfg) p s) (run_rule (RAlaska m1 m2 cfg) p' s').
Proof. exact (alaska_log_full cand ceqb ceqb_spec). Qed.

(* the same source state *)
Theorem c08_alaska_script_anonymous :
  forall (m1 m2 : Z) (cfg : stv_cfg) (p p' : profile) (s : mstate),
  s_transfer cfg <> TRandom -> stv_domain p -> stv_domain p' -> profile_equiv p p' ->
  mres_equiv_log (Forall2 state_equiv) (run_rule (RAlaska m1 m2 cfg) p s) (run_rule (RAlaska m1 m2 cfg) p' s).
Proof. exact (alaska_script_anonymous_full cand ceqb ceqb_spec). Qed.

(* listing the candidates in a different order *)
Theorem c08_alaska_script_cand_order :
  forall (m1 m2 : Z) (cfg : stv_cfg) (bs : list ballot) (cs cs' : cset) (s : mstate),
  s_transfer cfg <> TRandom -> stv_domain (mkProfile bs cs) -> Permutation cs cs' ->
  mres_equiv_log (Forall2 state_equiv)
    (run_rule (RAlaska m1 m2 cfg) (mkProfile bs cs) s) (run_rule (RAlaska m1 m2 cfg) (mkProfile bs cs') s).
Proof. exact (alaska_script_cand_order_full cand ceqb ceqb_spec). Qed.

(* the reason: an STV count in simultaneous mode whose threshold is <= 0 (Hare quota, total weight
   below the number of seats) records no tiebreak in any round and consumes no draw — every round is
   the election of everybody, or fails — so the get_profile replay cannot leave the recorded run *)
Theorem c08_zero_threshold_stage_quiet :
  forall (cfg : stv_cfg) (p : profile) (s s' : mstate) (sts : list estate) (t : Q),
  s_transfer cfg <> TRandom -> s_simul cfg = true -> stv_domain p ->
  stv_init cand cfg p = inl t -> t <= 0 ->
  run_stv cand ceqb cfg p s = inl (sts, s') -> Forall no_tiebreak sts /\ s' = s.
Proof. exact (zero_run_quiet cand ceqb ceqb_spec). Qed.

(* every deterministic rule, every tiebreak setting, every script: the FULL form of
   [c08_rule_script_anonymous_partial] as far as Alaska is concerned; the only caveat left is the
   one of the rating family ([rated_tiebreak_ok], necessary: c08_rating_scored_tiebreak_refuted) *)
Theorem c08_rule_script_anonymous : forall (r : rule) (p p' : profile) (s : mstate),
  deterministic r -> anon_domain r p -> anon_domain r p' -> profile_equiv p p' ->
  match r with
  | RRating _ _ _ tb | RLimited _ _ tb | RBloc _ _ tb => rated_tiebreak_ok tb p p'
  | _ => True
  end ->
  mres_equiv_log (Forall2 state_equiv) (run_rule r p s) (run_rule r p' s).
Proof. exact (rule_script_anonymous_full cand ceqb ceqb_spec). Qed.

End C08_alaska3.

Print Assumptions c08_alaska_script_runs.
Print Assumptions c08_alaska_script_anonymous.
Print Assumptions c08_alaska_script_cand_order.
Print Assumptions c08_zero_threshold_stage_quiet.
Print Assumptions c08_rule_script_anonymous.

(* ====================================================================== *)
(** * Non-vacuity: the open configuration — Hare quota, simultaneous mode, fractional transfer,
   tiebreak "random", scripts with draws, two equivalent but differently listed profiles *)

Module C08Alaska3Examples.
Import C08Witness.

Definition z_cfg : stv_cfg := mkStv 0 QHare true TFractional (Some TBRandom).

Example ex_cfg_open : s_simul z_cfg = true /\ s_quota z_cfg = QHare /\ s_transfer z_cfg = TFractional /\
  ~ alaska_script_ok z_cfg.
Proof. repeat split. intros [H|[H|H]]; discriminate. Qed.

(* an untied ranked ballot with a rational weight is in the STV domain *)
Example ex_rb_ok : forall (r : list positive) (w : Q) (cs : list positive),
  r <> [] -> NoDup r -> incl r cs -> 0 <= w -> stv_ballot_ok positive cs (rb r w).
Proof.
  intros r w cs Hr Hn Hi Hw. unfold stv_ballot_ok. cbn [rk wt sc rb].
  assert (Hf : flat positive (map (fun c => [c]) r) = r).
  { clear. induction r as [|c r IH]; [reflexivity|]. cbn [map]. unfold flat in *. cbn [concat app].
    rewrite IH. reflexivity. }
  rewrite Hf. repeat split; try assumption.
  - destruct r; [contradiction Hr; reflexivity|discriminate].
  - apply Forall_forall. intros g Hg. apply in_map_iff in Hg. destruct Hg as [c [<- _]]. reflexivity.
Qed.

Ltac rb_ok := apply ex_rb_ok;
  [discriminate
  |repeat constructor; cbn; intuition discriminate
  |intros c Hc; cbn in Hc |- *; intuition
  |discriminate].

(* ---- 1. threshold ZERO, everybody elected at once.
   [z_p]: 1/2 x (1>2>3), 1/4 x (2>1>3), 1/4 x (3>1>2), candidates [1;2;3];
   [z_p2]: the first ballot split 1/2 = 1/4 + 1/4, the ballots reversed, candidates listed [3;1;2].
   Alaska(m_1 = 2, m_2 = 2): the Plurality stage keeps 1 and must break {2, 3} (tallies 1/4): the
   script answers "3 before 2", 2 is eliminated.  STV stage on {1, 3}: total weight 1 < 2 seats, Hare
   threshold floor(1/2) = 0, both elected at once; the replay consumes nothing: the second draw of
   the script is left. ---- *)
Definition z_p : profile positive :=
  mkProfile [rb [1;2;3]%positive (1#2); rb [2;1;3]%positive (1#4); rb [3;1;2]%positive (1#4)] [1;2;3]%positive.
Definition z_split : list (Core.ballot positive) :=
  [rb [1;2;3]%positive (1#4); rb [1;2;3]%positive (1#4); rb [2;1;3]%positive (1#4); rb [3;1;2]%positive (1#4)].
Definition z_p2 : profile positive := mkProfile (rev z_split) [3;1;2]%positive.
Definition z_script : mstate positive := mkM [DPerm [3;2]%positive; DPerm [2;3]%positive] [].

Example ex_z_equiv : profile_equiv positive Pos.eqb z_p z_p2.
Proof.
  split.
  - apply (dist_eq_trans positive Pos.eqb _ z_split).
    + apply (c08_dist_eq_split positive Pos.eqb Pos.eqb_spec [] (rb [1;2;3]%positive (1#2))
               [rb [2;1;3]%positive (1#4); rb [3;1;2]%positive (1#4)]
               [rb [1;2;3]%positive (1#4); rb [1;2;3]%positive (1#4)]).
      * repeat constructor.
      * vm_compute. reflexivity.
    + apply c08_dist_eq_reorder. apply Permutation_rev.
  - apply Permutation_sym. apply (Permutation_cons_append [1;2]%positive 3%positive).
Qed.

Example ex_z_domain : stv_domain positive z_p /\ stv_domain positive z_p2.
Proof.
  split; (split; [cbn; repeat constructor; cbn; intuition discriminate|]); cbn [ballots cands z_p z_p2 z_split rev app];
    repeat (apply Forall_cons; [rb_ok|]); apply Forall_nil.
Qed.

Example ex_z_by_theorem :
  mres_equiv_log positive Pos.eqb (Forall2 (state_equiv positive))
    (run_rule positive Pos.eqb (RAlaska 2 2 z_cfg) z_p z_script)
    (run_rule positive Pos.eqb (RAlaska 2 2 z_cfg) z_p2 z_script).
Proof.
  apply (c08_alaska_script_anonymous positive Pos.eqb Pos.eqb_spec 2 2 z_cfg z_p z_p2 z_script);
    [discriminate|apply ex_z_domain|apply ex_z_domain|exact ex_z_equiv].
Qed.

(* the threshold of the STV stage is indeed zero *)
Example ex_z_threshold : threshold QHare 2 1 = inl 0.
Proof. vm_compute. reflexivity. Qed.

(* both runs computed: three rounds; the tied set is listed (and logged) [2;3] on one representation
   and [3;2] on the other *)
Example ex_z_runs :
  exists a0 a1 a2 b0 b1 b2 sa sb,
    run_rule positive Pos.eqb (RAlaska 2 2 z_cfg) z_p z_script = inl ([a0; a1; a2], sa) /\
    run_rule positive Pos.eqb (RAlaska 2 2 z_cfg) z_p2 z_script = inl ([b0; b1; b2], sb) /\
    eliminated a1 = [[2%positive]] /\ eliminated b1 = [[2%positive]] /\
    tiebreaks a1 = [([2;3]%positive, [[3];[2]]%positive)] /\
    tiebreaks b1 = [([3;2]%positive, [[3];[2]]%positive)] /\
    elected a2 = [[1];[3]]%positive /\ elected b2 = [[1];[3]]%positive /\
    sa = mkM [DPerm [2;3]%positive] [CSample [2;3]%positive] /\
    sb = mkM [DPerm [2;3]%positive] [CSample [3;2]%positive].
Proof. do 8 eexists. vm_compute. repeat split. Qed.

(* ---- 2. threshold ZERO and a zero tally: ZeroDivisionError on both representations.
   [y_p]: 1/2 x (1>2), 1/4 x (2>1), candidates [1;2;3;4] (3 and 4 receive no vote);
   [y_p2]: the second ballot split 1/4 = 1/8 + 1/8, the ballots reversed, candidates listed [4;3;2;1].
   Alaska(3, 3): the Plurality stage breaks {3, 4} by the script and keeps 4, whose tally is 0; the
   STV stage (threshold floor((3/4)/3) = 0) elects everybody and divides by the tally of 4. ---- *)
Definition y_p : profile positive :=
  mkProfile [rb [1;2]%positive (1#2); rb [2;1]%positive (1#4)] [1;2;3;4]%positive.
Definition y_split : list (Core.ballot positive) :=
  [rb [1;2]%positive (1#2); rb [2;1]%positive (1#8); rb [2;1]%positive (1#8)].
Definition y_p2 : profile positive := mkProfile (rev y_split) [4;3;2;1]%positive.
Definition y_script : mstate positive := mkM [DPerm [4;3]%positive; DPerm [3;4]%positive] [].

Example ex_y_equiv : profile_equiv positive Pos.eqb y_p y_p2.
Proof.
  split.
  - apply (dist_eq_trans positive Pos.eqb _ y_split).
    + apply (c08_dist_eq_split positive Pos.eqb Pos.eqb_spec [rb [1;2]%positive (1#2)] (rb [2;1]%positive (1#4))
               [] [rb [2;1]%positive (1#8); rb [2;1]%positive (1#8)]).
      * repeat constructor.
      * vm_compute. reflexivity.
    + apply c08_dist_eq_reorder. apply Permutation_rev.
  - apply (Permutation_rev [1;2;3;4]%positive).
Qed.

Example ex_y_domain : stv_domain positive y_p /\ stv_domain positive y_p2.
Proof.
  split; (split; [cbn; repeat constructor; cbn; intuition discriminate|]); cbn [ballots cands y_p y_p2 y_split rev app];
    repeat (apply Forall_cons; [rb_ok|]); apply Forall_nil.
Qed.

Example ex_y_by_theorem :
  mres_equiv_log positive Pos.eqb (Forall2 (state_equiv positive))
    (run_rule positive Pos.eqb (RAlaska 3 3 z_cfg) y_p y_script)
    (run_rule positive Pos.eqb (RAlaska 3 3 z_cfg) y_p2 y_script).
Proof.
  apply (c08_alaska_script_anonymous positive Pos.eqb Pos.eqb_spec 3 3 z_cfg y_p y_p2 y_script);
    [discriminate|apply ex_y_domain|apply ex_y_domain|exact ex_y_equiv].
Qed.

Example ex_y_runs :
  run_rule positive Pos.eqb (RAlaska 3 3 z_cfg) y_p y_script = inr EZeroDiv /\
  run_rule positive Pos.eqb (RAlaska 3 3 z_cfg) y_p2 y_script = inr EZeroDiv.
Proof. split; vm_compute; reflexivity. Qed.

(* ---- 3. a POSITIVE Hare threshold and a replay that LEAVES the recorded run.
   [w_p]: 2 x (1>2>3), 1 x (2>1>3), 1 x (3>1>2); [w_p2]: the first ballot split 2 = 1 + 1, the
   ballots reversed, candidates listed [3;1;2].  Alaska(3, 1): everybody passes the first stage; STV
   stage, one seat, Hare threshold 4: nobody reaches it, {2, 3} are tied lowest (also on first-place
   votes), the script answers [2;3]: 3 is eliminated, then 2, then 1 is elected.  The get_profile
   replay draws AGAIN and receives [3;2]: it eliminates 2 instead of 3 — a different profile from
   the recorded one — and still runs to the end; the third draw is left.  Same rounds, same draws
   consumed, on both representations. ---- *)
Definition w_p : profile positive :=
  mkProfile [rb [1;2;3]%positive 2; rb [2;1;3]%positive 1; rb [3;1;2]%positive 1] [1;2;3]%positive.
Definition w_split : list (Core.ballot positive) :=
  [rb [1;2;3]%positive 1; rb [1;2;3]%positive 1; rb [2;1;3]%positive 1; rb [3;1;2]%positive 1].
Definition w_p2 : profile positive := mkProfile (rev w_split) [3;1;2]%positive.
Definition w_script : mstate positive :=
  mkM [DPerm [2;3]%positive; DPerm [3;2]%positive; DPerm [1;2]%positive] [].

Example ex_w_equiv : profile_equiv positive Pos.eqb w_p w_p2.
Proof.
  split.
  - apply (dist_eq_trans positive Pos.eqb _ w_split).
    + apply (c08_dist_eq_split positive Pos.eqb Pos.eqb_spec [] (rb [1;2;3]%positive 2)
               [rb [2;1;3]%positive 1; rb [3;1;2]%positive 1]
               [rb [1;2;3]%positive 1; rb [1;2;3]%positive 1]).
      * repeat constructor.
      * vm_compute. reflexivity.
    + apply c08_dist_eq_reorder. apply Permutation_rev.
  - apply Permutation_sym. apply (Permutation_cons_append [1;2]%positive 3%positive).
Qed.

Example ex_w_domain : stv_domain positive w_p /\ stv_domain positive w_p2.
Proof.
  split; (split; [cbn; repeat constructor; cbn; intuition discriminate|]); cbn [ballots cands w_p w_p2 w_split rev app];
    repeat (apply Forall_cons; [rb_ok|]); apply Forall_nil.
Qed.

Example ex_w_by_theorem :
  mres_equiv_log positive Pos.eqb (Forall2 (state_equiv positive))
    (run_rule positive Pos.eqb (RAlaska 3 1 z_cfg) w_p w_script)
    (run_rule positive Pos.eqb (RAlaska 3 1 z_cfg) w_p2 w_script).
Proof.
  apply (c08_alaska_script_anonymous positive Pos.eqb Pos.eqb_spec 3 1 z_cfg w_p w_p2 w_script);
    [discriminate|apply ex_w_domain|apply ex_w_domain|exact ex_w_equiv].
Qed.

(* five rounds; the run's draw [2;3] is recorded in round 2, the replay's draw [3;2] only in the log *)
Example ex_w_runs :
  exists a0 a1 a2 a3 a4 b0 b1 b2 b3 b4 sa sb,
    run_rule positive Pos.eqb (RAlaska 3 1 z_cfg) w_p w_script = inl ([a0; a1; a2; a3; a4], sa) /\
    run_rule positive Pos.eqb (RAlaska 3 1 z_cfg) w_p2 w_script = inl ([b0; b1; b2; b3; b4], sb) /\
    eliminated a2 = [[3%positive]] /\ eliminated b2 = [[3%positive]] /\
    tiebreaks a2 = [([2;3]%positive, [[2];[3]]%positive)] /\
    tiebreaks b2 = [([3;2]%positive, [[2];[3]]%positive)] /\
    eliminated a3 = [[2%positive]] /\ eliminated b3 = [[2%positive]] /\
    elected a4 = [[1%positive]] /\ elected b4 = [[1%positive]] /\
    sa = mkM [DPerm [1;2]%positive] [CSample [2;3]%positive; CSample [2;3]%positive] /\
    sb = mkM [DPerm [1;2]%positive] [CSample [3;2]%positive; CSample [3;2]%positive].
Proof. do 12 eexists. vm_compute. repeat split. Qed.

(* the zero-threshold STV stage of example 1 (candidates {1, 3} after the first stage) is quiet *)
Example ex_zero_stage :
  exists sts, run_rule positive Pos.eqb (RSTV (mkStv 2 QHare true TFractional (Some TBRandom)))
                (mkProfile [rb [1;3]%positive (3#4); rb [3;1]%positive (1#4)] [1;3]%positive) z_script
              = inl (sts, z_script) /\ Forall (no_tiebreak positive) sts /\ length sts = 2%nat.
Proof. eexists. split; [vm_compute; reflexivity|]. split; [repeat constructor|reflexivity]. Qed.

End C08Alaska3Examples.
