(* Properties/C12_profile.v — C12 at the level of the PROFILE the utilities return.
   Statements only; proofs are in Proofs/C12_profile.v.
   Properties/C12.v and C12_pairwise.v state "first-place, Borda and pairwise totals are unchanged by
   expanding ties" for the concatenated expansions [concat bss]; resolve_profile_ties returns the
   CONDENSED profile.  Here the same facts are stated for [ballots p'] of the returned profile p',
   going through two condense lemmas of independent interest.  Also: the accounting of remove_cand
   for ballots that carry BOTH a ranking and scores (no [score_free] premise), and clean_profile with
   an arbitrary cleaning function (Spec/CleanFuncSpec.v).
   Vocabulary: score_of v bs c = positional score of c under vector v (Model/Core.v); h2h, prefers
   (Model/Pairwise.v); pair_share, never_tied (Spec/ExpandPairSpec.v); wtof_rk, wt_where, maps_to,
   exhausted (Spec/EditSpec.v); same_content, wtof (Spec/Content.v). *)
From VK Require Import Base Core Pairwise EditSpec ExpandPairSpec Cleaning.
From VK.Spec Require Import Content CleanFuncSpec.
From VK.Proofs Require Import C12_profile.

Section C12_profile.
Variable cand : Type.
Variable ceqb : cand -> cand -> bool.
Hypothesis ceqb_spec : forall a b, reflect (a = b) (ceqb a b).

Notation cset := (cset cand).
Notation ranking := (ranking cand).
Notation ballot := (ballot cand).
Notation profile := (profile cand).
Notation memb := (memb cand ceqb).
Notation ranking_eqb := (ranking_eqb cand ceqb).
Notation flat := (flat cand).
Notation strip := (strip cand ceqb).
Notation strip_scores := (strip_scores cand ceqb).
Notation scrub := (scrub cand ceqb).
Notation pos_wt := (pos_wt cand).
Notation remove_cand_bs := (remove_cand_bs cand ceqb).
Notation total_wt := (total_wt cand).
Notation wtof_rk := (wtof_rk cand ceqb).
Notation wt_where := (wt_where cand).
Notation maps_to := (maps_to cand ceqb).
Notation exhausted := (exhausted cand ceqb).
Notation all_pos := (all_pos cand).
Notation condense_bs := (condense_bs cand ceqb).
Notation resolve_profile_ties := (resolve_profile_ties cand ceqb).
Notation score_of := (score_of cand ceqb).
Notation h2h := (h2h cand ceqb).
Notation pair_share := (pair_share cand ceqb).
Notation never_tied := (never_tied cand).
Notation same_content := (same_content cand ceqb).
Notation wtof := (Content.wtof cand ceqb).
Notation merge_adjacent := (merge_adjacent cand ceqb).
Notation clean_profile := (clean_profile cand ceqb).

(* ---------- 1. condensing ---------- *)

(* head-to-head counts never change when a list of ballots is condensed *)
Theorem c12_h2h_condense : forall (bs : list ballot) a c, h2h (condense_bs bs) a c == h2h bs a c.
Proof. exact (h2h_condense cand ceqb ceqb_spec). Qed.

(* positional scores (any vector) do not change either, provided no position of any ballot lists a
   candidate twice (condensing keeps the first of two set-equal rankings; [[1;1]] and [[1]] are
   set-equal but score differently) *)
Theorem c12_score_of_condense : forall v (bs : list ballot) c,
  Forall (fun b => Forall (@NoDup cand) (rk b)) bs ->
  score_of v (condense_bs bs) c == score_of v bs c.
Proof. exact (score_of_condense cand ceqb ceqb_spec). Qed.

(* ---------- 2. the profile returned by resolve_profile_ties ---------- *)

(* first-place, Borda, every positional score: unchanged for every candidate, every vector and
   EVERY profile on which the call succeeds (no premise on the ballots) *)
Theorem c12_resolve_scores : forall (p p' : profile),
  resolve_profile_ties p = inl p' ->
  forall v c, score_of v (ballots p') c == score_of v (ballots p) c.
Proof. exact (resolve_scores cand ceqb ceqb_spec). Qed.

Theorem c12_resolve_total : forall (p p' : profile),
  resolve_profile_ties p = inl p' -> total_wt (ballots p') == total_wt (ballots p).
Proof. exact (resolve_total cand ceqb ceqb_spec). Qed.

(* pairwise: the resolved profile gives "a over c" the weight of the pair shares of the tied
   profile (whole ballot if a's position precedes c's, half if they share one, nothing otherwise),
   when no position lists a candidate twice *)
Theorem c12_resolve_pairwise : forall (p p' : profile),
  resolve_profile_ties p = inl p' -> forall a c,
  Forall (fun b => Forall (@NoDup cand) (rk b)) (ballots p) -> a <> c ->
  h2h (ballots p') a c == qsum (map (fun b => wt b * pair_share (rk b) a c) (ballots p)).
Proof. exact (resolve_pairwise cand ceqb ceqb_spec). Qed.

(* for a pair that never shares a position the model's own head-to-head count is unchanged *)
Theorem c12_resolve_pairwise_never_tied : forall (p p' : profile),
  resolve_profile_ties p = inl p' -> forall a c,
  Forall (fun b => Forall (@NoDup cand) (rk b)) (ballots p) -> a <> c ->
  Forall (fun b => never_tied (rk b) a c) (ballots p) ->
  h2h (ballots p') a c == h2h (ballots p) a c.
Proof. exact (resolve_pairwise_never_tied cand ceqb ceqb_spec). Qed.

(* the two directions together receive exactly the weight of the ballots that list a or c *)
Theorem c12_resolve_pairwise_total : forall (p p' : profile),
  resolve_profile_ties p = inl p' -> forall a c,
  Forall (fun b => Forall (@NoDup cand) (rk b)) (ballots p) -> a <> c ->
  h2h (ballots p') a c + h2h (ballots p') c a ==
  wt_where (fun b => memb a (flat (rk b)) || memb c (flat (rk b))) (ballots p).
Proof. exact (resolve_pairwise_total cand ceqb ceqb_spec). Qed.

(* a profile without ties is only condensed *)
Theorem c12_resolve_untied : forall (p p' : profile),
  resolve_profile_ties p = inl p' ->
  Forall (fun b => Forall (fun g => length g = 1%nat) (rk b)) (ballots p) ->
  ballots p' = condense_bs (ballots p).
Proof. exact (resolve_untied cand ceqb ceqb_spec). Qed.

(* ---------- 3. remove_cand on ballots with rankings AND scores ---------- *)

(* a ballot survives iff it keeps a ranking position OR a score entry (and, without
   leave_zero_weight_ballots, has positive weight); it keeps its whole weight *)
Theorem c12_remove_total_any : forall removed cf lz (bs : list ballot),
  total_wt (remove_cand_bs removed cf lz bs) ==
  wt_where (fun b => (nonempty (strip removed (rk b)) || nonempty (strip_scores removed (sc b))) &&
                     (lz || pos_wt b)) bs.
Proof. exact (remove_total_any cand ceqb). Qed.

(* weight disappears only with the ballots left with neither a ranking nor a score *)
Theorem c12_remove_loss_any : forall removed cf lz (bs : list ballot), all_pos bs ->
  total_wt bs - total_wt (remove_cand_bs removed cf lz bs) ==
  wt_where (fun b => negb (nonempty (strip removed (rk b)) || nonempty (strip_scores removed (sc b)))) bs.
Proof. exact (remove_loss_any cand ceqb). Qed.

(* weight per resulting ranking r', for EVERY r' (the empty ranking is carried by the ballots that
   keep only scores) *)
Theorem c12_remove_weights_any : forall removed cf lz (bs : list ballot) r',
  wtof_rk r' (remove_cand_bs removed cf lz bs) ==
  wt_where (fun b => maps_to removed r' b &&
                     (nonempty (strip removed (rk b)) || nonempty (strip_scores removed (sc b))) &&
                     (lz || pos_wt b)) bs.
Proof. exact (remove_weights_any cand ceqb ceqb_spec). Qed.

(* for a non-empty resulting ranking the scores play no role: c12_remove_weights_gen of
   Properties/C12.v without its score_free premise *)
Theorem c12_remove_weights_nonempty_any : forall removed cf lz (bs : list ballot) r',
  nonempty r' = true ->
  wtof_rk r' (remove_cand_bs removed cf lz bs) ==
  wt_where (fun b => maps_to removed r' b && (lz || pos_wt b)) bs.
Proof. exact (remove_weights_nonempty_any cand ceqb ceqb_spec). Qed.

(* weight per resulting content (ranking AND scores): that of the ballots scrubbed into it *)
Theorem c12_remove_content_any : forall removed cf lz (bs : list ballot) (k : ballot),
  wtof k (remove_cand_bs removed cf lz bs) ==
  wt_where (fun b => same_content k (scrub removed b) &&
                     (nonempty (strip removed (rk b)) || nonempty (strip_scores removed (sc b))) &&
                     (lz || pos_wt b)) bs.
Proof. exact (remove_content_any cand ceqb ceqb_spec). Qed.

(* every surviving input ballot is represented in the output by its scrubbed content *)
Theorem c12_remove_all_represented_any : forall removed cf lz (bs : list ballot) b,
  In b bs -> (lz || pos_wt b) = true ->
  nonempty (strip removed (rk b)) || nonempty (strip_scores removed (sc b)) = true ->
  exists k, In k (remove_cand_bs removed cf lz bs) /\ same_content k (scrub removed b) = true.
Proof. exact (remove_all_represented_any cand ceqb ceqb_spec). Qed.

(* the ballot whose ranking is exhausted but which still has a score is kept as a scores-only ballot *)
Theorem c12_scrub_scores_only : forall removed (b : ballot),
  exhausted removed b = true -> strip_scores removed (sc b) <> [] ->
  scrub removed b = mkBallot [] (wt b) (strip_scores removed (sc b)) None None.
Proof. exact (scrub_scores_only cand ceqb). Qed.

(* ---------- 4. clean_profile with an arbitrary cleaning function ---------- *)

(* it fails exactly when the cleaning function fails on some ballot, with the error of the first
   such ballot; otherwise every ranking keeps the weight the cleaned ballots give it *)
Theorem c12_clean_profile_any : forall (f : ballot -> res ballot) (p : profile),
  (forall e, clean_profile f p = inr e <->
     exists l1 b l2, ballots p = l1 ++ b :: l2 /\ f b = inr e /\
                     Forall (fun x => exists y, f x = inl y) l1) /\
  (forall out, clean_profile f p = inl out ->
     exists cleaned,
       Forall2 (fun b b' => f b = inl b') (ballots p) cleaned /\
       (forall r, wtof_rk r (ballots out) == wtof_rk r cleaned) /\
       total_wt (ballots out) == total_wt cleaned).
Proof. exact (clean_profile_any cand ceqb ceqb_spec). Qed.

(* a cleaning function that keeps each ballot's weight loses no weight, and each resulting ranking
   carries the weight of the ballots cleaned into it *)
Theorem c12_clean_profile_weights : forall (f : ballot -> res ballot) (p out : profile),
  clean_profile f p = inl out ->
  (forall b b', In b (ballots p) -> f b = inl b' -> wt b' == wt b) ->
  total_wt (ballots out) == total_wt (ballots p) /\
  forall r, wtof_rk r (ballots out) ==
            wt_where (fun b => match f b with inl b' => ranking_eqb r (rk b') | inr _ => false end)
                     (ballots p).
Proof. exact (clean_profile_weights cand ceqb ceqb_spec). Qed.

(* the model's deduplicate_profiles is the instance f = deduplicate_ballot *)
Theorem c12_clean_profile_dedup : forall p : profile,
  deduplicate_profiles cand ceqb p = clean_profile (deduplicate_ballot cand ceqb) p.
Proof. exact (clean_profile_dedup cand ceqb). Qed.

End C12_profile.

Print Assumptions c12_h2h_condense.
Print Assumptions c12_score_of_condense.
Print Assumptions c12_resolve_scores.
Print Assumptions c12_resolve_total.
Print Assumptions c12_resolve_pairwise.
Print Assumptions c12_resolve_pairwise_never_tied.
Print Assumptions c12_resolve_pairwise_total.
Print Assumptions c12_resolve_untied.
Print Assumptions c12_remove_total_any.
Print Assumptions c12_remove_loss_any.
Print Assumptions c12_remove_weights_any.
Print Assumptions c12_remove_weights_nonempty_any.
Print Assumptions c12_remove_content_any.
Print Assumptions c12_remove_all_represented_any.
Print Assumptions c12_scrub_scores_only.
Print Assumptions c12_clean_profile_any.
Print Assumptions c12_clean_profile_weights.
Print Assumptions c12_clean_profile_dedup.

(* ---------- non-vacuity (cand := positive) ---------- *)
Module C12ProfileExamples.
Local Open Scope positive_scope.

Definition pb (r : list (list positive)) (w : Q) : Core.ballot positive := plain_ballot positive r w.

(* the premise of c12_score_of_condense is needed: [[1;1]] and [[1]] are merged, the first kept *)
Example ex_condense_dup_position :
  Core.score_of positive Pos.eqb [2%Q; 1%Q] [pb [[1; 1]] 1; pb [[1]] 1] 1 == 5 /\
  Core.score_of positive Pos.eqb [2%Q; 1%Q]
    (Core.condense_bs positive Pos.eqb [pb [[1; 1]] 1; pb [[1]] 1]) 1 == 6.
Proof. split; vm_compute; reflexivity. Qed.

(* a tied profile: {1,2}>3 x3, 2>1 x1, 1>2>3 x2 (the last merges with one expansion) *)
Definition p0 : Core.profile positive :=
  mkProfile [pb [[1; 2]; [3]] 3; pb [[2]; [1]] 1; pb [[1]; [2]; [3]] 2] [1; 2; 3].

Example ex_resolve :
  exists p', Core.resolve_profile_ties positive Pos.eqb p0 = inl p' /\
    length (ballots p') = 3%nat /\
    Forall (fun b => Forall (@NoDup positive) (rk b)) (ballots p0) /\
    Core.score_of positive Pos.eqb [3%Q; 2%Q; 1%Q] (ballots p') 1 == (31 # 2)%Q /\
    Core.score_of positive Pos.eqb [3%Q; 2%Q; 1%Q] (ballots p0) 1 == (31 # 2)%Q /\
    Pairwise.h2h positive Pos.eqb (ballots p') 1 2 == (7 # 2)%Q /\
    qsum (map (fun b => Qmult (wt b) (pair_share positive Pos.eqb (rk b) 1 2)) (ballots p0)) == (7 # 2)%Q /\
    Pairwise.h2h positive Pos.eqb (ballots p0) 1 2 == 5%Q /\
    Pairwise.h2h positive Pos.eqb (ballots p') 1 3 == 6%Q /\
    Pairwise.h2h positive Pos.eqb (ballots p0) 1 3 == 6%Q /\
    Core.total_wt positive (ballots p') == 6%Q.
Proof.
  eexists. split; [vm_compute; reflexivity|]. split; [reflexivity|]. split.
  { repeat constructor; cbn; intuition discriminate. }
  repeat split; vm_compute; reflexivity.
Qed.

(* remove candidate 2 from ballots with rankings and scores:
   b1 = 2 with scores {2:5, 3:1} x2   -> ranking exhausted, score 3:1 left: kept, weight 2, ranking []
   b2 = 2 with scores {2:4}      x3   -> nothing left: lost
   b3 = 1>2 with scores {2:1}    x1   -> ranking [1], no scores
   b4 = scores {1:2}             x4   -> untouched *)
Definition sb (r : list (list positive)) (w : Q) (d : list (positive * Q)) : Core.ballot positive :=
  mkBallot r w d None None.
Definition bs1 : list (Core.ballot positive) :=
  [sb [[2]] 2 [(2, 5%Q); (3, 1%Q)]; sb [[2]] 3 [(2, 4%Q)]; sb [[1]; [2]] 1 [(2, 1%Q)]; sb [] 4 [(1, 2%Q)]].

Example ex_remove_scores :
  all_pos positive bs1 /\
  Core.remove_cand_bs positive Pos.eqb [2] true false bs1 =
    [sb [] 2 [(3, 1%Q)]; sb [[1]] 1 []; sb [] 4 [(1, 2%Q)]] /\
  Core.total_wt positive bs1 - Core.total_wt positive (Core.remove_cand_bs positive Pos.eqb [2] true false bs1) == 3%Q /\
  EditSpec.wt_where positive
    (fun b => negb (nonempty (Core.strip positive Pos.eqb [2] (rk b)) ||
                    nonempty (Core.strip_scores positive Pos.eqb [2] (sc b)))) bs1 == 3%Q /\
  EditSpec.wt_where positive (EditSpec.exhausted positive Pos.eqb [2]) bs1 == 9%Q /\
  EditSpec.wtof_rk positive Pos.eqb [] (Core.remove_cand_bs positive Pos.eqb [2] true false bs1) == 6%Q /\
  Core.scrub positive Pos.eqb [2] (sb [[2]] 2 [(2, 5%Q); (3, 1%Q)]) = sb [] 2 [(3, 1%Q)].
Proof.
  split; [repeat constructor|]. repeat split; vm_compute; reflexivity.
Qed.

(* clean_profile with a user function: truncate every ranking to its first position *)
Definition first_only (b : Core.ballot positive) : res (Core.ballot positive) :=
  match rk b with
  | [] => inr EType
  | g :: _ => inl (mkBallot [g] (wt b) [] (bid b) (vs b))
  end.
Definition p2 : Core.profile positive :=
  mkProfile [pb [[1]; [2]] 1; pb [[1]; [3]] 2; pb [[2]; [1]] 3; pb [[1]] 4] [1; 2; 3].

Example ex_clean_profile :
  (exists out, clean_profile positive Pos.eqb first_only p2 = inl out /\
     map (fun b => (rk b, wt b)) (ballots out) = [([[1]], 3%Q); ([[2]], 3%Q); ([[1]], 4%Q)] /\
     EditSpec.wtof_rk positive Pos.eqb [[1]] (ballots out) == 7%Q) /\
  (forall b b', In b (ballots p2) -> first_only b = inl b' -> wt b' == wt b) /\
  clean_profile positive Pos.eqb first_only (mkProfile [pb [[1]] 1; pb [] 1] [1]) = inr EType.
Proof.
  split; [eexists; repeat split; vm_compute; reflexivity|]. split; [|vm_compute; reflexivity].
  intros b b' Hb H. unfold first_only in H. destruct (rk b); [discriminate|]. injection H as <-. reflexivity.
Qed.

End C12ProfileExamples.
