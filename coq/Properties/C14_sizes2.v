(* Properties/C14_sizes2.v — C14, slate_PlackettLuce: the [sizes] argument of the ballot-type loop
   ([type_loop], run function [gen_slate_pl_run] of Spec/GenRunSpec.v) tied to the preference
   intervals.  Clause of C14: "models documented to produce complete rankings list every candidate
   (zero-support candidates only as a final tied group)".

   Hypothesis [spl_sizes_from_intervals x]: for every slate b with interval iv (the voter bloc's
   interval for slate b), the size the loop reads off [sizes] ([size_of sizes b]) is the number of
   supported (non-zero-support) candidates of iv, [length (pi_int iv)] (a [pinterval] keeps the
   supported candidates with their shares in [pi_int] and the zero-support ones in [pi_zero];
   [c14_interval_support_count] says that for an interval built by PreferenceInterval(...) these are
   exactly the entries of positive / zero support).  The hypothesis is POINTWISE: [sizes] may list
   the slates in any order and may have further entries; Properties/C14_runs.v asks for the list
   equality sizes = [(b, length (pi_int iv_b))]_b instead.

   Then (i) the size premises of [c14_gen_slate_pl_wf] follow ([c14_sizes2_params] when sizes lists
   the slates in the order of the intervals; [c14_sizes2_draw_shape] for the number of flips) and the
   run is well-formed ([c14_sizes2_wf], which does not need the order); (ii) every ballot is
   complete over the candidates of the intervals, the zero-support ones as ONE final tied group,
   no such group when there is none ([c14_sizes2_complete]).  Statements only; proofs are in
   Proofs/C14_sizes2.v. *)
From VK Require Import Base Core GenValidation PrefInterval Generators Generators2.
From VK.Spec Require Import Content GenSpec GenRunSpec.
From VK.Proofs Require Import C14_wf C14_runs C14_sizes2.
From Coq Require Import Permutation Lia.

(* ---------- vocabulary ---------- *)

(* sizes tied to the intervals, slate by slate *)
Definition spl_sizes_from_intervals (x : spl_in) : Prop :=
  forall bl iv, In (bl, iv) (spl_ivs x) -> size_of (spl_sizes x) bl = length (pi_int iv).

(* the zero-support candidates / all candidates of a list of per-slate intervals *)
Definition slate_zero (ivs : list (bloc * pinterval)) : list pcand :=
  concat (map (fun x : bloc * pinterval => pi_zero (snd x)) ivs).
Definition slate_cands (ivs : list (bloc * pinterval)) : list pcand :=
  concat (map (fun x : bloc * pinterval => pi_cands (snd x)) ivs).

(* the recorded draws of one ballot, in interval terms: one flip per supported candidate (of all
   slates); a recorded shuffle, when the loop reports one, is a rearrangement of what it shuffles *)
Definition spl_draw_shape_iv (x : spl_in) (d : spl_draw) : Prop :=
  length (fst (fst d)) = length (slate_nz (spl_ivs x)) /\
  forall t calls,
    type_loop (fst (fst d)) (map fst (spl_coh x)) (map snd (spl_coh x)) (spl_sizes x) [] (snd (fst d))
      = inl (t, calls) ->
    forall pop, In (GShuffle pop) calls -> exists s, snd (fst d) = Some s /\ Permutation s pop.

(* a ranking-only ballot that is complete over the intervals: the supported candidates of all slates
   as singleton positions in some order, then the zero-support candidates of all slates as ONE final
   tied group — no such group when there is no zero-support candidate; it lists exactly the
   candidates of the intervals, each once when these are distinct *)
Definition iv_complete_shape (ivs : list (bloc * pinterval)) (r : ranking pcand) (s : list (pcand * Q)) : Prop :=
  s = [] /\
  exists order tail,
    Permutation order (slate_nz ivs) /\ Permutation tail (slate_zero ivs) /\
    r = singletons pcand order ++ (match tail with [] => [] | _ => [tail] end) /\
    (slate_zero ivs = [] -> r = singletons pcand order) /\
    flat pcand r = order ++ tail /\
    Permutation (flat pcand r) (slate_cands ivs) /\
    (NoDup (slate_cands ivs) -> NoDup (flat pcand r)).

(* ====================== (i) the size premises of c14_gen_slate_pl_wf ====================== *)

(* sizes listing the slates in the order of the intervals and tied to them pointwise: the parameter
   premise [spl_params_ok] of Properties/C14_runs.v holds (its list equality on sizes is derived) *)
Theorem c14_sizes2_params : forall x : spl_in,
  map fst (spl_sizes x) = map fst (spl_ivs x) ->
  spl_sizes_from_intervals x ->
  NoDup (map fst (spl_ivs x)) ->
  (forall bl iv, In (bl, iv) (spl_ivs x) -> (1 <= length (pi_int iv))%nat) ->
  NoDup (slate_nz (spl_ivs x)) ->
  coh_row_ok (spl_ivs x) (spl_coh x) ->
  spl_params_ok x.
Proof. exact sizes_tied_params. Qed.
Print Assumptions c14_sizes2_params.

(* the draw-shape premise [spl_draw_shape_ok] ("one flip per size unit of the cohesion row") is the
   interval statement "one flip per supported candidate" *)
Theorem c14_sizes2_draw_shape : forall (x : spl_in) (d : spl_draw),
  NoDup (map fst (spl_ivs x)) ->
  spl_sizes_from_intervals x ->
  coh_row_ok (spl_ivs x) (spl_coh x) ->
  spl_draw_shape_iv x d ->
  spl_draw_shape_ok x d.
Proof. exact tied_draw_shape. Qed.
Print Assumptions c14_sizes2_draw_shape.

(* well-formedness of the whole run under the interval-based hypothesis (any number of voter blocs
   and slates, any script; no assumption on the order or on further entries of sizes) *)
Theorem c14_sizes2_wf : forall blocs by_bloc agg calls,
  (forall x, In x blocs ->
     spl_sizes_from_intervals x /\
     NoDup (map fst (spl_ivs x)) /\
     (forall bl iv, In (bl, iv) (spl_ivs x) -> (1 <= length (pi_int iv))%nat) /\
     NoDup (slate_nz (spl_ivs x)) /\
     coh_row_ok (spl_ivs x) (spl_coh x) /\
     forall d, In d (spl_ballots x) -> spl_draw_shape_iv x d) ->
  gen_slate_pl_run blocs = inl (by_bloc, agg, calls) ->
  run_wf spl_id spl_size spl_shape_of blocs by_bloc agg.
Proof. exact gen_slate_pl_wf_tied. Qed.
Print Assumptions c14_sizes2_wf.

(* ====================== (ii) completeness over the intervals ====================== *)

(* with, in addition, the tied candidates [spl_zero] being the zero-support candidates of the
   intervals: every ballot of every by-bloc profile and of the aggregate is complete over the
   intervals of its voter bloc ([run_wf] with the shape [iv_complete_shape]) *)
Theorem c14_sizes2_complete : forall blocs by_bloc agg calls,
  (forall x, In x blocs ->
     spl_sizes_from_intervals x /\
     Permutation (spl_zero x) (slate_zero (spl_ivs x)) /\
     NoDup (map fst (spl_ivs x)) /\
     (forall bl iv, In (bl, iv) (spl_ivs x) -> (1 <= length (pi_int iv))%nat) /\
     NoDup (slate_nz (spl_ivs x)) /\
     coh_row_ok (spl_ivs x) (spl_coh x) /\
     forall d, In d (spl_ballots x) -> spl_draw_shape_iv x d) ->
  gen_slate_pl_run blocs = inl (by_bloc, agg, calls) ->
  run_wf spl_id spl_size (fun x => iv_complete_shape (spl_ivs x)) blocs by_bloc agg.
Proof. exact gen_slate_pl_complete_tied. Qed.
Print Assumptions c14_sizes2_complete.

(* the shape of Properties/C14_runs.v gives the interval shape as soon as the tied candidates are
   the zero-support candidates of the intervals *)
Theorem c14_sizes2_shape : forall ivs zero r s,
  Permutation zero (slate_zero ivs) ->
  complete_shape (slate_nz ivs) zero r s -> iv_complete_shape ivs r s.
Proof. exact complete_shape_intervals. Qed.
Print Assumptions c14_sizes2_shape.

(* an interval built by PreferenceInterval(d): [pi_int] lists exactly the entries of d of positive
   support (so [length (pi_int iv)] IS the number of non-zero-support candidates), [pi_zero] the
   entries of support zero *)
Theorem c14_interval_support_count : forall d iv, mk_interval d = inl iv ->
  length (pi_int iv) = length (filter (fun p : pcand * Q => Qlt_bool 0 (snd p)) d) /\
  map fst (pi_int iv) = map fst (filter (fun p : pcand * Q => Qlt_bool 0 (snd p)) d) /\
  pi_zero iv = map fst (filter (fun p : pcand * Q => Qeq_bool (snd p) 0) d).
Proof. exact mk_interval_support_count. Qed.
Print Assumptions c14_interval_support_count.

(* the hypothesis on sizes is needed: with every other premise in place (distinct slates and
   candidates, cohesion row naming the slates, sizes listing the slates in order), sizes that
   undercount a slate are ACCEPTED by the model and give an incomplete ballot *)
Theorem c14_sizes2_wrong_sizes_refuted :
  exists (x : spl_in) by_bloc agg calls,
    NoDup (map fst (spl_ivs x)) /\ NoDup (slate_nz (spl_ivs x)) /\ coh_row_ok (spl_ivs x) (spl_coh x) /\
    map fst (spl_sizes x) = map fst (spl_ivs x) /\
    gen_slate_pl_run [x] = inl (by_bloc, agg, calls) /\
    exists b, In b (ballots agg) /\ ~ complete_shape (slate_nz (spl_ivs x)) (spl_zero x) (rk b) (sc b).
Proof. exact gen_slate_pl_wrong_sizes_refuted. Qed.
Print Assumptions c14_sizes2_wrong_sizes_refuted.

(* ====================== non-vacuity ====================== *)
Module C14Sizes2Examples.
Local Open Scope positive_scope.

(* slates 1 = {11, 12}, 2 = {21} plus the zero-support candidate 22; cohesion 3/4 : 1/4; sizes given
   in the OPPOSITE order of the intervals and with an entry for a slate that does not exist; two
   ballots (three flips each, no shuffle, per-slate orders) *)
Definition ex_ivs : list (bloc * pinterval) :=
  [(1, mkPI [(11, 1#2); (12, 1#2)] []); (2, mkPI [(21, 1%Q)] [22])].
Definition ex_x : spl_in :=
  mkSPL 1 ex_ivs [(2, 1%nat); (1, 2%nat); (7, 5%nat)] [(1, 3#4); (2, 1#4)] [22]
        [([1#2; 9#10; 1#4]%Q, None, [(1, [12; 11]); (2, [21])]);
         ([9#10; 1#2; 1#2]%Q, None, [(1, [11; 12]); (2, [21])])].

Example ex_sizes_tied : spl_sizes_from_intervals ex_x.
Proof. intros bl iv [E|[E|[]]]; injection E as <- <-; reflexivity. Qed.

(* sizes of ex_x is NOT the list Properties/C14_runs.v asks for *)
Example ex_not_list :
  spl_sizes ex_x <> map (fun y : bloc * pinterval => (fst y, length (pi_int (snd y)))) (spl_ivs ex_x).
Proof. discriminate. Qed.

Example ex_hyps : forall x, In x [ex_x] ->
  spl_sizes_from_intervals x /\
  Permutation (spl_zero x) (slate_zero (spl_ivs x)) /\
  NoDup (map fst (spl_ivs x)) /\
  (forall bl iv, In (bl, iv) (spl_ivs x) -> (1 <= length (pi_int iv))%nat) /\
  NoDup (slate_nz (spl_ivs x)) /\
  coh_row_ok (spl_ivs x) (spl_coh x) /\
  forall d, In d (spl_ballots x) -> spl_draw_shape_iv x d.
Proof.
  intros x [<-|[]]. split; [exact ex_sizes_tied|]. split; [apply Permutation_refl|].
  split; [apply pnodup_NoDup; reflexivity|]. split.
  { intros bl iv [E|[E|[]]]; injection E as <- <-; cbn; lia. }
  split; [apply pnodup_NoDup; reflexivity|]. split.
  { split; [apply pnodup_NoDup; reflexivity|]. split; [intros b; cbn; tauto|].
    repeat constructor; discriminate. }
  intros d [<-|[<-|[]]]; (split; [reflexivity|]); intros t calls H; vm_compute in H;
    injection H as <- <-; intros pop [].
Qed.

(* the run, its ballots, and both conclusions *)
Example ex_run : exists by_bloc agg calls,
  gen_slate_pl_run [ex_x] = inl (by_bloc, agg, calls) /\
  map rk (ballots agg) = [[[12]; [21]; [11]; [22]]; [[21]; [11]; [12]; [22]]] /\
  slate_nz ex_ivs = [11; 12; 21] /\ slate_zero ex_ivs = [22] /\ slate_cands ex_ivs = [11; 12; 21; 22] /\
  run_wf spl_id spl_size spl_shape_of [ex_x] by_bloc agg /\
  run_wf spl_id spl_size (fun x => iv_complete_shape (spl_ivs x)) [ex_x] by_bloc agg.
Proof.
  do 3 eexists. split; [vm_compute; reflexivity|]. split; [reflexivity|].
  split; [reflexivity|]. split; [reflexivity|]. split; [reflexivity|]. split.
  - eapply c14_sizes2_wf; [|vm_compute; reflexivity].
    intros x Hx. destruct (ex_hyps x Hx) as (A & _ & B). exact (conj A B).
  - eapply c14_sizes2_complete; [exact ex_hyps|vm_compute; reflexivity].
Qed.

(* sizes in the order of the intervals: the parameter premise of c14_gen_slate_pl_wf follows *)
Definition ex_y : spl_in :=
  mkSPL 1 ex_ivs [(1, 2%nat); (2, 1%nat)] [(1, 3#4); (2, 1#4)] [22] (spl_ballots ex_x).
Example ex_params : spl_params_ok ex_y.
Proof.
  apply c14_sizes2_params.
  - reflexivity.
  - intros bl iv [E|[E|[]]]; injection E as <- <-; reflexivity.
  - apply pnodup_NoDup; reflexivity.
  - intros bl iv [E|[E|[]]]; injection E as <- <-; cbn; lia.
  - apply pnodup_NoDup; reflexivity.
  - split; [apply pnodup_NoDup; reflexivity|]. split; [intros b; cbn; tauto|].
    repeat constructor; discriminate.
Qed.

(* no zero-support candidate: no final tied group *)
Definition ex_ivs0 : list (bloc * pinterval) :=
  [(1, mkPI [(11, 1#2); (12, 1#2)] []); (2, mkPI [(21, 1%Q)] [])].
Definition ex_z : spl_in :=
  mkSPL 1 ex_ivs0 [(1, 2%nat); (2, 1%nat)] [(1, 3#4); (2, 1#4)] []
        [([1#2; 9#10; 1#4]%Q, None, [(1, [12; 11]); (2, [21])])].
Example ex_no_zero : exists by_bloc agg calls,
  gen_slate_pl_run [ex_z] = inl (by_bloc, agg, calls) /\
  slate_zero ex_ivs0 = [] /\ map rk (ballots agg) = [[[12]; [21]; [11]]].
Proof. do 3 eexists. split; [vm_compute; reflexivity|]. split; reflexivity. Qed.

(* PreferenceInterval({11: 1/2, 12: 1/2, 13: 0}): two supported candidates, one of zero support *)
Example ex_support_count : exists iv,
  mk_interval [(11, 1#2); (12, 1#2); (13, 0%Q)] = inl iv /\
  length (pi_int iv) = 2%nat /\ pi_zero iv = [13].
Proof. eexists. split; [vm_compute; reflexivity|]. split; reflexivity. Qed.

(* the witness of c14_sizes2_wrong_sizes_refuted: slate 1 has two supported candidates, sizes says
   one; the ballot misses candidate 11 *)
Example ex_wrong_sizes : exists by_bloc agg calls,
  gen_slate_pl_run
    [mkSPL 1 ex_ivs [(1, 1%nat); (2, 1%nat)] [(1, 3#4); (2, 1#4)] [22]
           [([1#2; 9#10]%Q, None, [(1, [12; 11]); (2, [21])])]] = inl (by_bloc, agg, calls) /\
  map rk (ballots agg) = [[[12]; [21]; [22]]].
Proof. do 3 eexists. split; [vm_compute; reflexivity|]. reflexivity. Qed.

End C14Sizes2Examples.
