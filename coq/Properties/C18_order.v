(* Properties/C18_order.v — C18, the part Properties/C18.v leaves open:
   (1) the ORDER in which load_csv emits its ballots, and with it the complete value of load_csv
       on every well-formed table;
   (2) the to_csv -> load_csv round trip.
   Statements only; proofs are in Proofs/C18_order.v.

   Vocabulary (Spec/LoaderSpec.v, Spec/LoaderOrderSpec.v):
     pattern ranks r, pattern_ranking k, sel_ranks, rows_with, wf_table      as in Properties/C18.v
     csv_ballot ranks wc ic rows k   the ballot expected for pattern k: ranking [pattern_ranking k],
                                     weight = number (or summed weight column) of the rows with
                                     pattern k, no scores, no id, voter set = their ids in row order
     dedup_first eqb l               keep every value at its first occurrence only:
                                     dedup_first (x :: l) = x :: (dedup_first l without the copies of x)
     before x y l                    l = a ++ x :: b ++ y :: c
     first_before x y l              the same with x not in a and y not in a ++ x :: b, i.e. the
                                     first occurrence of x precedes the first occurrence of y
     patterns_in_order ranks rows    := dedup_first row_eqb (map (pattern ranks) rows)
     literal_cells enc_rk enc_sc row := [CNum weight; CStr (enc_rk ranking); CStr (enc_sc scores)]
                                     the three fields to_csv writes, ranking and scores each
                                     rendered as ONE string by arbitrary functions enc_rk, enc_sc
     cvr_cells n row                 := CNum weight :: one cell per position ++ blanks up to n cells
                                     (an explicit decoding of a to_csv row into a CVR row)
     cvr_ballot n b                  no scores, at most n positions, each a single named candidate
     pad_rk n r / pad_ballot n b     r ++ [blank] .. [blank] up to n positions

   MODEL vs PYTHON, order: the model emits the ballots in FIRST-OCCURRENCE order of the row
   patterns (theorems below).  The Python code calls df.groupby(ranks, dropna=False) with the
   pandas default sort=True, so the implementation emits them sorted by pattern (NaN last).  The
   differential harness compares the ballots of load_csv as a SET, so this difference is invisible
   to it; everything in this file is about the model's order. *)
From VK Require Import Base Core Loaders.
From VK.Spec Require Import EditSpec Content LoaderSpec LoaderOrderSpec.
From VK.Proofs Require Import C18_order.
From Coq Require Import Lia.

#[local] Arguments CBlank {cand}.
#[local] Arguments CStr {cand}.
#[local] Arguments CNum {cand}.
#[local] Arguments CId {cand}.

(* ---------- B0. the spec function dedup_first is what it claims to be ---------- *)

(* for any list on whose elements eqb decides equality: no value twice, the same values, and
   x stands before y in the output iff the first x of the input precedes the first y *)
Theorem c18_dedup_first_spec : forall (A : Type) (eqb : A -> A -> bool) (l : list A),
  (forall x y, In x l -> (eqb x y = true <-> x = y)) ->
  NoDup (dedup_first eqb l) /\
  (forall x, In x (dedup_first eqb l) <-> In x l) /\
  (forall x y, before x y (dedup_first eqb l) <-> first_before x y l).
Proof. exact dedup_first_spec. Qed.
Print Assumptions c18_dedup_first_spec.

Section C18_order.
Variable cand : Type.
Variable ceqb : cand -> cand -> bool.
Hypothesis ceqb_spec : forall a b, reflect (a = b) (ceqb a b).
Variable blank : cand.

Notation cell := (cell cand).
Notation ballot := (ballot cand).
Notation profile := (profile cand).
Notation row_eqb := (row_eqb cand ceqb).
Notation load_csv := (load_csv cand ceqb blank).
Notation to_csv_rows := (to_csv_rows cand).
Notation pattern := (pattern cand).
Notation pattern_ranking := (pattern_ranking cand blank).
Notation wf_table := (wf_table cand blank).
Notation csv_ballot := (csv_ballot cand ceqb blank).
Notation cast_cands := (cast_cands cand ceqb).
Notation patterns_in_order := (patterns_in_order cand ceqb).
Notation cvr_cells := (cvr_cells cand).
Notation cvr_ballot := (cvr_ballot cand blank).
Notation pad_ballot := (pad_ballot cand blank).
Notation wtof := (wtof cand ceqb).
Notation profile_eq := (profile_eq cand ceqb).

(* ---------- B1. load_csv on a well-formed table: exact value, exact order ---------- *)

(* the whole result: one expected ballot per distinct pattern of the selected columns, the
   patterns taken in the order of their first row; candidates = those cast with positive weight *)
Theorem c18_load_csv_exact : forall ncols rows rc wc ic, wf_table ncols rows rc wc ic ->
  load_csv ncols rows rc wc ic
  = inl (mkProfile
           (map (csv_ballot (sel_ranks ncols rc wc ic) wc ic rows)
                (patterns_in_order (sel_ranks ncols rc wc ic) rows))
           (cast_cands
              (map (csv_ballot (sel_ranks ncols rc wc ic) wc ic rows)
                   (patterns_in_order (sel_ranks ncols rc wc ic) rows)))).
Proof. exact (load_csv_exact cand ceqb ceqb_spec blank). Qed.

(* on a well-formed table the pattern list has no repetition, holds exactly the patterns of the
   rows, and k1 stands before k2 iff the first row with pattern k1 precedes the first with k2 *)
Theorem c18_patterns_in_order : forall ncols rows rc wc ic, wf_table ncols rows rc wc ic ->
  NoDup (patterns_in_order (sel_ranks ncols rc wc ic) rows) /\
  (forall k, In k (patterns_in_order (sel_ranks ncols rc wc ic) rows)
             <-> exists r, In r rows /\ pattern (sel_ranks ncols rc wc ic) r = k) /\
  (forall k1 k2, before k1 k2 (patterns_in_order (sel_ranks ncols rc wc ic) rows)
                 <-> first_before k1 k2 (map (pattern (sel_ranks ncols rc wc ic)) rows)).
Proof. exact (patterns_in_order_spec cand ceqb ceqb_spec blank). Qed.

(* the list of rankings of the loaded ballots IS the list of distinct row patterns in
   first-occurrence order (as rankings) *)
Theorem c18_order_rankings : forall ncols rows rc wc ic, wf_table ncols rows rc wc ic ->
  forall p, load_csv ncols rows rc wc ic = inl p ->
  map rk (ballots p) = map pattern_ranking (patterns_in_order (sel_ranks ncols rc wc ic) rows).
Proof. exact (csv_order_rankings cand ceqb ceqb_spec blank). Qed.

(* ballot b1 is emitted before ballot b2 iff the first row with b1's pattern comes before the
   first row with b2's pattern *)
Theorem c18_order_ballots : forall ncols rows rc wc ic, wf_table ncols rows rc wc ic ->
  forall p, load_csv ncols rows rc wc ic = inl p ->
  forall b1 b2 r1 r2,
  In b1 (ballots p) -> In b2 (ballots p) -> In r1 rows -> In r2 rows ->
  rk b1 = pattern_ranking (pattern (sel_ranks ncols rc wc ic) r1) ->
  rk b2 = pattern_ranking (pattern (sel_ranks ncols rc wc ic) r2) ->
  (before b1 b2 (ballots p)
   <-> first_before (pattern (sel_ranks ncols rc wc ic) r1) (pattern (sel_ranks ncols rc wc ic) r2)
                    (map (pattern (sel_ranks ncols rc wc ic)) rows)).
Proof. exact (csv_order_ballots cand ceqb ceqb_spec blank). Qed.

(* ---------- B2. to_csv -> load_csv, rows decoded into the CVR layout ---------- *)

(* for a non-empty profile of score-free, tie-free ballots of at most n named positions: the rows
   to_csv writes, laid out as CVR rows (weight column 0, n rank columns), load; the result gives
   every ballot content the weight the profile gives it once short ballots are padded with
   explicit blanks — i.e. it is equal, in the sense of PreferenceProfile.__eq__, to the padded
   profile, and to the profile itself when every ballot fills the n columns *)
Theorem c18_roundtrip_cvr : forall n (p : profile),
  ballots p <> [] -> (forall b, In b (ballots p) -> cvr_ballot n b) ->
  exists p', load_csv (S n) (map (cvr_cells n) (to_csv_rows p)) [] (Some 0%nat) None = inl p' /\
    (forall k, wtof k (map (pad_ballot n) (ballots p)) == wtof k (ballots p')) /\
    profile_eq (mkProfile (map (pad_ballot n) (ballots p)) (cands p)) p' = true /\
    ((forall b, In b (ballots p) -> length (rk b) = n) -> profile_eq p p' = true).
Proof. exact (roundtrip_cvr_eq cand ceqb ceqb_spec blank). Qed.

(* a profile without ballots writes a header-only file: reading it back is EmptyDataError *)
Theorem c18_roundtrip_empty : forall n (p : profile) rc wc ic, ballots p = [] ->
  load_csv (S n) (map (cvr_cells n) (to_csv_rows p)) rc wc ic = inr EEmptyData.
Proof. exact (roundtrip_empty cand ceqb blank). Qed.

End C18_order.

Print Assumptions c18_load_csv_exact.
Print Assumptions c18_patterns_in_order.
Print Assumptions c18_order_rankings.
Print Assumptions c18_order_ballots.
Print Assumptions c18_roundtrip_cvr.
Print Assumptions c18_roundtrip_empty.

(* ---------- B3. what does NOT hold (cand := positive, blank := 9) ---------- *)
Section Refuted.
Local Open Scope positive_scope.

(* NOT a theorem: "load_csv (the file written by to_csv) = the profile".
   to_csv writes three fields per ballot — weight, the whole ranking as one string such as
   "({'A'}, {'B'})", the whole score tuple as one string — whereas load_csv expects one candidate
   per rank cell.  Whatever the two renderings are, reading the ranking column (rank_cols = [1])
   or all non-weight columns (rank_cols = []) of the literal rows of the one-ballot profile
   A > B > C yields ballots of fewer than three positions, and a profile different from it. *)
Theorem c18_roundtrip_literal_refuted :
  forall (enc_rk : ranking positive -> positive) (enc_sc : list (positive * Q) -> positive),
  exists p : profile positive,
    p = mkProfile [mkBallot [[1];[2];[3]] 2 [] None None] [1;2;3] /\
    forall rc, rc = [1%nat] \/ rc = [] ->
    exists p', Loaders.load_csv positive Pos.eqb 9 3%nat
                 (map (literal_cells positive enc_rk enc_sc) (Loaders.to_csv_rows positive p))
                 rc (Some 0%nat) None = inl p' /\
               Forall (fun b => (length (rk b) < 3)%nat) (ballots p') /\
               Core.profile_eq positive Pos.eqb p p' = false.
Proof. exact roundtrip_literal_refuted. Qed.

(* NOT a theorem: c18_roundtrip_cvr with "profile_eq p p' = true" for short ballots.  A ballot
   with fewer positions than rank columns is read back with explicit blank positions, which is
   another ballot content (as in the implementation, where empty cells become {None}). *)
Theorem c18_roundtrip_short_refuted :
  exists (n : nat) (p p' : profile positive),
    ballots p <> [] /\ (forall b, In b (ballots p) -> LoaderOrderSpec.cvr_ballot positive 9 n b) /\
    Loaders.load_csv positive Pos.eqb 9 (S n)
      (map (LoaderOrderSpec.cvr_cells positive n) (Loaders.to_csv_rows positive p)) [] (Some 0%nat) None = inl p' /\
    map rk (ballots p') = [[[1];[9]]; [[1];[2]]] /\
    Core.profile_eq positive Pos.eqb p p' = false.
Proof. exact roundtrip_short_refuted. Qed.

End Refuted.
Print Assumptions c18_roundtrip_literal_refuted.
Print Assumptions c18_roundtrip_short_refuted.

(* ---------- non-vacuity: concrete inputs (cand := positive, blank := 9) ---------- *)
Section Examples.
Local Open Scope positive_scope.
Let C := cell positive.

(* the spec function alone: A B A C B  ->  A B C *)
Example c18o_ex_dedup : dedup_first Pos.eqb [1;2;1;3;2] = [1;2;3].
Proof. reflexivity. Qed.

Example c18o_ex_first_before : first_before 2 3 [1;2;1;3;2] /\ ~ first_before 3 2 [1;2;1;3;2].
Proof.
  split.
  - exists [1], [1], [2]. split; [reflexivity|]. split; cbn; intuition discriminate.
  - intros H. apply (proj2 (proj2 (c18_dedup_first_spec positive Pos.eqb [1;2;1;3;2]
                                     (fun x y _ => Pos.eqb_eq x y)))) in H.
    destruct H as (a & b & c & H). cbn in H.
    destruct a as [|a0 [|a1 [|a2 a]]]; try discriminate;
      injection H; intros; subst; try discriminate;
      repeat match goal with
             | Hx : _ = ?b ++ _ :: _ |- _ => destruct b; try discriminate; injection Hx; clear Hx; intros; subst
             end; try discriminate.
Qed.

(* id column 0, two rank columns, no weight column.  Row patterns, with A = (2, blank) a short
   ballot, B = (1, 2), C = (blank, 1):   A B A C B  *)
Let rowsO : list (list C) :=
  [[CId 1; CStr 2; CBlank]; [CId 2; CStr 1; CStr 2]; [CId 3; CStr 2; CBlank];
   [CId 4; CBlank; CStr 1]; [CId 5; CStr 1; CStr 2]].

Example c18o_ex_wf : LoaderSpec.wf_table positive 9 3 rowsO [] None (Some 0%nat).
Proof.
  constructor.
  - discriminate.
  - intros r H. cbn in H. intuition (subst; reflexivity).
  - intros i [].
  - intros r i Hr Hi. cbn in Hr, Hi.
    repeat match goal with H : _ \/ _ |- _ => destruct H end; subst; cbn; try exact I; try discriminate; contradiction.
  - intros i H. injection H as <-. split; [repeat constructor|]. split.
    + intros r Hr. cbn in Hr.
      repeat match goal with H : _ \/ _ |- _ => destruct H end; subst; try contradiction; eexists; reflexivity.
    + cbn. repeat constructor; cbn; intuition discriminate.
  - intros w H. discriminate.
Qed.

Example c18o_ex_patterns :
  LoaderOrderSpec.patterns_in_order positive Pos.eqb (sel_ranks 3 [] None (Some 0%nat)) rowsO
  = [[CStr 2; CBlank]; [CStr 1; CStr 2]; [CBlank; CStr 1]].
Proof. vm_compute. reflexivity. Qed.

(* output order A, B, C: the order of first occurrence, not the sorted order (B, A, C) *)
Example c18o_ex_load :
  Loaders.load_csv positive Pos.eqb 9 3 rowsO [] None (Some 0%nat)
  = inl (mkProfile [mkBallot [[2];[9]] 2 [] None (Some [1;3]);
                    mkBallot [[1];[2]] 2 [] None (Some [2;5]);
                    mkBallot [[9];[1]] 1 [] None (Some [4])]
                   [2;9;1]).
Proof. vm_compute. reflexivity. Qed.

(* same rows, rank columns selected in the order [2;1], weight column 0 *)
Let rowsW : list (list C) :=
  [[CNum 1; CStr 2; CBlank]; [CNum (1#2); CStr 1; CStr 2]; [CNum 1; CStr 2; CBlank];
   [CNum 3; CBlank; CStr 1]; [CNum (1#2); CStr 1; CStr 2]].

Example c18o_ex_load_w :
  exists p, Loaders.load_csv positive Pos.eqb 9 3 rowsW [2%nat;1%nat] (Some 0%nat) None = inl p /\
            map rk (ballots p) = [[[9];[2]]; [[2];[1]]; [[1];[9]]] /\
            Forall2 Qeq (map wt (ballots p)) [2%Q; 1%Q; 3%Q].
Proof.
  eexists. split; [vm_compute; reflexivity|]. split; [reflexivity|].
  repeat constructor; vm_compute; reflexivity.
Qed.

(* round trip, CVR layout, n = 2: a repeated ranking is merged, the order is kept *)
Let profR : profile positive :=
  mkProfile [mkBallot [[1];[2]] (3#2) [] None None; mkBallot [[2];[3]] 1 [] None None;
             mkBallot [[1];[2]] (1#2) [] None None] [1;2;3].

Example c18o_ex_cvr_rows :
  map (LoaderOrderSpec.cvr_cells positive 2) (Loaders.to_csv_rows positive profR)
  = [[CNum (3#2); CStr 1; CStr 2]; [CNum 1; CStr 2; CStr 3]; [CNum (1#2); CStr 1; CStr 2]].
Proof. reflexivity. Qed.

Example c18o_ex_cvr_domain :
  ballots profR <> [] /\
  (forall b, In b (ballots profR) -> LoaderOrderSpec.cvr_ballot positive 9 2 b) /\
  (forall b, In b (ballots profR) -> length (rk b) = 2%nat).
Proof.
  split; [discriminate|]. split.
  - intros b [<-|[<-|[<-|[]]]]; (split; [reflexivity|]; split; [cbn; lia|]);
      repeat constructor; eexists; (split; [reflexivity|discriminate]).
  - intros b [<-|[<-|[<-|[]]]]; reflexivity.
Qed.

Example c18o_ex_roundtrip :
  exists p', Loaders.load_csv positive Pos.eqb 9 3
               (map (LoaderOrderSpec.cvr_cells positive 2) (Loaders.to_csv_rows positive profR))
               [] (Some 0%nat) None = inl p' /\
             map rk (ballots p') = [[[1];[2]]; [[2];[3]]] /\
             Forall2 Qeq (map wt (ballots p')) [2%Q; 1%Q] /\
             Core.profile_eq positive Pos.eqb profR p' = true.
Proof.
  eexists. split; [vm_compute; reflexivity|]. split; [reflexivity|]. split; [|vm_compute; reflexivity].
  repeat constructor; vm_compute; reflexivity.
Qed.

(* a short ballot comes back padded: [[1]] is read as [[1];[9]] *)
Example c18o_ex_roundtrip_short :
  exists p', Loaders.load_csv positive Pos.eqb 9 3
               (map (LoaderOrderSpec.cvr_cells positive 2)
                    (Loaders.to_csv_rows positive (mkProfile [mkBallot [[1]] 1 [] None None] [1])))
               [] (Some 0%nat) None = inl p' /\
             map rk (ballots p') = [LoaderOrderSpec.pad_rk positive 9 2 [[1]]] /\
             LoaderOrderSpec.pad_rk positive 9 2 [[1]] = [[1];[9]].
Proof. eexists. split; [vm_compute; reflexivity|]. split; reflexivity. Qed.

End Examples.
