(* Properties/C16_links.v — property C16, "the exact Bradley-Terry samplers [draw] by their
   probability tables and their MCMC variants by the same stationary distribution": the two links
   that the Markov-kernel theorems of Properties/C16.v (B5, B6) and Properties/C16_gen2.v (PART 3)
   left open.  Statements only; proofs are in Proofs/C16_links.v.

   Those theorems are about the Spec-level matrix [swap_kernel eqb acc m x y] (Spec/GenLaws.v) and
   the Spec-level weights [bt_stat] / [slate_stat].  Here:

   PART A — the matrix IS the law of the model's step functions.
     The model runs  bt_mcmc_run iv cur steps  /  slate_mcmc_run own c cur steps  where every step
     is a pair (j, u): j = the proposal position drawn by random.choices(range(n-1)) /
     np.random.choice(n-1) (uniform on {0..m-1}, m = n-1; the script check of bt_mcmc_bloc is
     S j < length seed), u = random.random() (uniform on [0,1)).  The run emits the successive
     states (A3), each obtained from the previous one by  bt_mcmc_step / slate_mcmc_step  (A1: swap
     positions j, j+1 iff u < min(1, acceptance value)).  u is continuous, so "probability" is
     interval length: for given x, j, y the set { u in [0,1) | step x (j,u) = y } is an interval
     [lo, hi) whose length is exactly the j-th summand of swap_kernel (A2); averaging over the m
     equally likely positions gives swap_kernel (A2, kernel form).  So the chain the model runs is
     the Markov chain of this matrix.
     (Premises: supports >= 0 for name-BT, 0 <= cohesion <= 1 for slate-BT; without them the Spec
     matrix has negative entries, see [c16_bt_step_law_negative_refuted].)

   PART B — the exact C15 tables are stationary for the matrix:  sum_x tbl(x) K(x,y) = tbl(y)
     for bt_pdf (all positive supports) and for slate_bt_pdf (two slates, cohesion >= 1/2), also
     phrased with P = the categorical law of the table (the law of one exact draw).  Below 1/2 the
     slate table is NOT stationary for the coded chain (refuted, cohesion 1/4).

   Spec vocabulary: step_lo, step_hi, step_len, chain_state (Spec/McmcLinkSpec.v); swap_kernel,
   indic (Spec/GenLaws.v); enumerates (Spec/BTSpec.v); prob, categorical (Model/Laws.v);
   swap_adj, Qmin1, bt_accept, bt_mcmc_step, bt_mcmc_run, slate_accept, slate_mcmc_step,
   slate_mcmc_run (Model/Generators.v); bt_pdf, slate_bt_pdf, lookupP (Model/PrefInterval.v). *)
From VK Require Import Base Core GenValidation PrefInterval Generators Laws.
From VK.Spec Require Import BTSpec GenSpec GenLaws McmcLinkSpec.
From VK.Proofs Require Import C16_links.
From Coq Require Import Permutation.

(* ################################################################## *)
(* PART A — the matrix is the law of the step functions                *)
(* ################################################################## *)

(* ====================== A1. the step functions ====================== *)

(* name-BT, every input: the step swaps positions j, j+1 iff u < min(1, acceptance) *)
Theorem c16_bt_mcmc_step_spec : forall iv x j u,
  bt_mcmc_step iv x (j, u) = (if Qlt_bool u (Qmin1 (bt_accept iv x j)) then swap_adj j x else x) /\
  (u < Qmin1 (bt_accept iv x j) -> bt_mcmc_step iv x (j, u) = swap_adj j x) /\
  (Qmin1 (bt_accept iv x j) <= u -> bt_mcmc_step iv x (j, u) = x).
Proof. exact bt_mcmc_step_spec. Qed.
Print Assumptions c16_bt_mcmc_step_spec.

(* slate-BT: the coded acceptance value may exceed 1; for u < 1 comparing with it or with
   min(1, value) is the same *)
Theorem c16_slate_mcmc_step_spec : forall own c x j u, u < 1 ->
  slate_mcmc_step own c x (j, u) =
    (if Qlt_bool u (Qmin1 (slate_accept own c x j)) then swap_adj j x else x) /\
  (u < slate_accept own c x j <-> u < Qmin1 (slate_accept own c x j)) /\
  (u < Qmin1 (slate_accept own c x j) -> slate_mcmc_step own c x (j, u) = swap_adj j x) /\
  (Qmin1 (slate_accept own c x j) <= u -> slate_mcmc_step own c x (j, u) = x).
Proof. exact slate_mcmc_step_spec. Qed.
Print Assumptions c16_slate_mcmc_step_spec.

(* ====================== A2. interval lengths ====================== *)

(* name-BT: the u's in [0,1) that send x to y under proposal j form an interval [lo, hi) of
   [0,1], and its length is the j-th summand of swap_kernel *)
Theorem c16_bt_mcmc_step_law : forall iv x j y,
  (forall c, In c x -> 0 <= lookupP iv c) ->
  exists lo hi, 0 <= lo /\ lo <= hi /\ hi <= 1 /\
    (forall u, 0 <= u -> u < 1 -> (bt_mcmc_step iv x (j, u) = y <-> lo <= u /\ u < hi)) /\
    hi - lo == Qmin1 (bt_accept iv x j) * indic (list_peqb (swap_adj j x) y) +
               (1 - Qmin1 (bt_accept iv x j)) * indic (list_peqb x y).
Proof. exact bt_step_law. Qed.
Print Assumptions c16_bt_mcmc_step_law.

Theorem c16_slate_mcmc_step_law : forall own c x j y,
  0 <= c -> c <= 1 ->
  exists lo hi, 0 <= lo /\ lo <= hi /\ hi <= 1 /\
    (forall u, 0 <= u -> u < 1 -> (slate_mcmc_step own c x (j, u) = y <-> lo <= u /\ u < hi)) /\
    hi - lo == Qmin1 (slate_accept own c x j) * indic (list_peqb (swap_adj j x) y) +
               (1 - Qmin1 (slate_accept own c x j)) * indic (list_peqb x y).
Proof. exact slate_step_law. Qed.
Print Assumptions c16_slate_mcmc_step_law.

(* the same with the explicit ends [step_lo], [step_hi] of Spec/McmcLinkSpec.v; [step_len] is
   their difference *)
Theorem c16_bt_mcmc_step_interval : forall iv x j y,
  (forall c, In c x -> 0 <= lookupP iv c) ->
  0 <= step_lo (bt_accept iv) x j y /\
  step_lo (bt_accept iv) x j y <= step_hi (bt_accept iv) x j y /\
  step_hi (bt_accept iv) x j y <= 1 /\
  (forall u, 0 <= u -> u < 1 ->
     (bt_mcmc_step iv x (j, u) = y <->
      step_lo (bt_accept iv) x j y <= u /\ u < step_hi (bt_accept iv) x j y)) /\
  step_len (bt_accept iv) x j y ==
    Qmin1 (bt_accept iv x j) * indic (list_peqb (swap_adj j x) y) +
    (1 - Qmin1 (bt_accept iv x j)) * indic (list_peqb x y).
Proof. exact bt_step_interval. Qed.
Print Assumptions c16_bt_mcmc_step_interval.

Theorem c16_slate_mcmc_step_interval : forall own c x j y,
  0 <= c -> c <= 1 ->
  0 <= step_lo (slate_accept own c) x j y /\
  step_lo (slate_accept own c) x j y <= step_hi (slate_accept own c) x j y /\
  step_hi (slate_accept own c) x j y <= 1 /\
  (forall u, 0 <= u -> u < 1 ->
     (slate_mcmc_step own c x (j, u) = y <->
      step_lo (slate_accept own c) x j y <= u /\ u < step_hi (slate_accept own c) x j y)) /\
  step_len (slate_accept own c) x j y ==
    Qmin1 (slate_accept own c x j) * indic (list_peqb (swap_adj j x) y) +
    (1 - Qmin1 (slate_accept own c x j)) * indic (list_peqb x y).
Proof. exact slate_step_interval. Qed.
Print Assumptions c16_slate_mcmc_step_interval.

(* kernel form: K(x,y) = (1/m) * sum over the m proposal positions of the length of
   { u in [0,1) | step x (j,u) = y } *)
Theorem c16_bt_mcmc_kernel_is_step_law : forall iv m x y,
  swap_kernel list_peqb (bt_accept iv) m x y ==
  qsum (map (fun j => (1 / Qnat m) * step_len (bt_accept iv) x j y) (seq 0 m)).
Proof. intros iv. exact (swap_kernel_step_len (bt_accept iv)). Qed.
Print Assumptions c16_bt_mcmc_kernel_is_step_law.

Theorem c16_slate_mcmc_kernel_is_step_law : forall own c m x y,
  swap_kernel list_peqb (slate_accept own c) m x y ==
  qsum (map (fun j => (1 / Qnat m) * step_len (slate_accept own c) x j y) (seq 0 m)).
Proof. intros own c. exact (swap_kernel_step_len (slate_accept own c)). Qed.
Print Assumptions c16_slate_mcmc_kernel_is_step_law.

(* the non-negativity premise cannot be dropped: with a negative support the step never swaps
   while the Spec matrix has a negative entry *)
Theorem c16_bt_step_law_negative_refuted :
  exists (iv : list (pcand * Q)) (x y : list pcand) (j : nat),
    swap_kernel list_peqb (bt_accept iv) 1 x y < 0 /\
    (forall u, 0 <= u -> bt_mcmc_step iv x (j, u) = x).
Proof. exact bt_step_law_negative_refuted. Qed.
Print Assumptions c16_bt_step_law_negative_refuted.

(* ====================== A3. the run emits the successive states ====================== *)

Theorem c16_bt_mcmc_run_cons : forall iv cur s rest,
  bt_mcmc_run iv cur (s :: rest) = bt_mcmc_step iv cur s :: bt_mcmc_run iv (bt_mcmc_step iv cur s) rest.
Proof. exact bt_mcmc_run_cons. Qed.
Print Assumptions c16_bt_mcmc_run_cons.

Theorem c16_slate_mcmc_run_cons : forall own c cur s rest,
  slate_mcmc_run own c cur (s :: rest) =
  slate_mcmc_step own c cur s :: slate_mcmc_run own c (slate_mcmc_step own c cur s) rest.
Proof. exact slate_mcmc_run_cons. Qed.
Print Assumptions c16_slate_mcmc_run_cons.

(* one ballot per step; the k-th emitted ballot is the seed after the first k+1 steps *)
Theorem c16_bt_mcmc_run_nth : forall iv steps cur,
  length (bt_mcmc_run iv cur steps) = length steps /\
  (forall k, (k < length steps)%nat ->
     nth_error (bt_mcmc_run iv cur steps) k =
     Some (chain_state (bt_mcmc_step iv) cur (firstn (S k) steps))).
Proof. exact bt_mcmc_run_nth. Qed.
Print Assumptions c16_bt_mcmc_run_nth.

Theorem c16_slate_mcmc_run_nth : forall own c steps cur,
  length (slate_mcmc_run own c cur steps) = length steps /\
  (forall k, (k < length steps)%nat ->
     nth_error (slate_mcmc_run own c cur steps) k =
     Some (chain_state (slate_mcmc_step own c) cur (firstn (S k) steps))).
Proof. exact slate_mcmc_run_nth. Qed.
Print Assumptions c16_slate_mcmc_run_nth.

(* ################################################################## *)
(* PART B — the exact tables are stationary                            *)
(* ################################################################## *)

(* rows of the name-BT matrix sum to one over the rankings (any interval) *)
Theorem c16_bt_mcmc_kernel_stochastic : forall iv seed m x,
  NoDup seed -> (0 < m)%nat -> Permutation x seed ->
  qsum (map (swap_kernel list_peqb (bt_accept iv) m x) (perms pcand seed)) == 1.
Proof. exact bt_mcmc_kernel_stochastic. Qed.
Print Assumptions c16_bt_mcmc_kernel_stochastic.

(* ====================== B1. name-Bradley-Terry ====================== *)

(* sum_x tbl(x) K(x,y) = tbl(y) for the exact table bt_pdf d of C15 (the chain is run with the same
   interval d); every ranking of the candidates has an entry *)
Theorem c16_bt_mcmc_exact_table_stationary : forall d m y v,
  NoDup (map fst d) -> (forall c s, In (c, s) d -> 0 < s) -> (0 < m)%nat ->
  In (y, v) (bt_pdf d) ->
  qsum (map (fun xv => snd xv * swap_kernel list_peqb (bt_accept d) m (fst xv) y) (bt_pdf d)) == v.
Proof. exact bt_mcmc_exact_table_stationary. Qed.
Print Assumptions c16_bt_mcmc_exact_table_stationary.

Theorem c16_bt_pdf_has_entry : forall d y,
  Permutation y (map fst d) -> exists v, In (y, v) (bt_pdf d).
Proof. exact bt_pdf_has_entry. Qed.
Print Assumptions c16_bt_pdf_has_entry.

(* with P = the law of one exact draw: P K = P over any enumeration of the rankings *)
Theorem c16_bt_mcmc_exact_law_stationary : forall d m all y,
  NoDup (map fst d) -> (forall c s, In (c, s) d -> 0 < s) -> (0 < m)%nat ->
  enumerates all (map fst d) -> Permutation y (map fst d) ->
  qsum (map (fun x => prob (list_peqb x) (categorical (bt_pdf d)) *
                      swap_kernel list_peqb (bt_accept d) m x y) all)
  == prob (list_peqb y) (categorical (bt_pdf d)).
Proof. exact bt_mcmc_exact_law_stationary. Qed.
Print Assumptions c16_bt_mcmc_exact_law_stationary.

(* ====================== B2. slate-Bradley-Terry, two slates ====================== *)

(* sum_t tbl(t) K(t,y) = tbl(y) for the exact table slate_bt_pdf, every cohesion >= 1/2 *)
Theorem c16_slate_mcmc_exact_table_stationary : forall (own opp : bloc) (a b : nat) sizes c m y v,
  own <> opp ->
  sizes = [(own, a); (opp, b)] \/ sizes = [(opp, b); (own, a)] ->
  1 # 2 <= c -> (0 < m)%nat ->
  In (y, v) (slate_bt_pdf sizes own opp c) ->
  qsum (map (fun tv => snd tv * swap_kernel list_peqb (slate_accept own c) m (fst tv) y)
            (slate_bt_pdf sizes own opp c)) == v.
Proof. exact slate_mcmc_exact_table_stationary. Qed.
Print Assumptions c16_slate_mcmc_exact_table_stationary.

Theorem c16_slate_bt_pdf_has_entry : forall (own opp : bloc) (a b : nat) sizes c y,
  sizes = [(own, a); (opp, b)] \/ sizes = [(opp, b); (own, a)] ->
  Permutation y (repeat own a ++ repeat opp b) -> exists v, In (y, v) (slate_bt_pdf sizes own opp c).
Proof. exact slate_bt_pdf_has_entry. Qed.
Print Assumptions c16_slate_bt_pdf_has_entry.

Theorem c16_slate_mcmc_exact_law_stationary : forall (own opp : bloc) (a b : nat) sizes c m all y,
  own <> opp ->
  sizes = [(own, a); (opp, b)] \/ sizes = [(opp, b); (own, a)] ->
  1 # 2 <= c -> c <= 1 -> (0 < m)%nat ->
  enumerates all (repeat own a ++ repeat opp b) -> Permutation y (repeat own a ++ repeat opp b) ->
  qsum (map (fun x => prob (list_peqb x) (categorical (slate_bt_pdf sizes own opp c)) *
                      swap_kernel list_peqb (slate_accept own c) m x y) all)
  == prob (list_peqb y) (categorical (slate_bt_pdf sizes own opp c)).
Proof. exact slate_mcmc_exact_law_stationary. Qed.
Print Assumptions c16_slate_mcmc_exact_law_stationary.

(* REFUTED below 1/2: cohesion 1/4, one candidate per slate, one proposal position: the chain
   flips between [own; opp] (table 1/4) and [opp; own] (table 3/4) with probability 1, so
   sum_t tbl(t) K(t, [own; opp]) = 3/4, not 1/4 *)
Theorem c16_slate_mcmc_exact_table_refuted :
  exists (own opp : bloc) (a b : nat) (c : Q) (m : nat) (y : list bloc) (v : Q),
    own <> opp /\ 0 < c /\ c < 1 # 2 /\ (0 < m)%nat /\
    In (y, v) (slate_bt_pdf [(own, a); (opp, b)] own opp c) /\
    ~ (qsum (map (fun tv => snd tv * swap_kernel list_peqb (slate_accept own c) m (fst tv) y)
                 (slate_bt_pdf [(own, a); (opp, b)] own opp c)) == v).
Proof. exact slate_mcmc_exact_table_refuted. Qed.
Print Assumptions c16_slate_mcmc_exact_table_refuted.

(* ################################################################## *)
(* non-vacuity                                                         *)
(* ################################################################## *)

Local Open Scope positive_scope.

Definition ex_iv : list (pcand * Q) := [(1, (1 # 2)%Q); (2, (1 # 3)%Q); (3, (1 # 6)%Q)].

Example ex_iv_premises :
  NoDup (map fst ex_iv) /\ (forall c s, In (c, s) ex_iv -> (0 < s)%Q) /\
  (forall c, In c [1; 2; 3] -> (0 <= lookupP ex_iv c)%Q).
Proof.
  split; [repeat constructor; cbn; intuition discriminate|]. split.
  - intros c s H. cbn [ex_iv In] in H.
    destruct H as [E|[E|[E|[]]]]; injection E as <- <-; reflexivity.
  - intros c [<-|[<-|[<-|[]]]]; vm_compute; discriminate.
Qed.

(* A1/A2 on [1;2;3], proposal position 0: acceptance (1/3)/(1/2) = 2/3; u = 1/2 swaps, u = 3/4
   stays; the swapped state is reached for u in [0, 2/3), the old one for u in [2/3, 1) *)
Example ex_bt_step :
  bt_accept ex_iv [1; 2; 3] 0 == (2 # 3)%Q /\
  bt_mcmc_step ex_iv [1; 2; 3] (0%nat, (1 # 2)%Q) = [2; 1; 3] /\
  bt_mcmc_step ex_iv [1; 2; 3] (0%nat, (3 # 4)%Q) = [1; 2; 3] /\
  step_lo (bt_accept ex_iv) [1; 2; 3] 0 [2; 1; 3] == 0%Q /\
  step_hi (bt_accept ex_iv) [1; 2; 3] 0 [2; 1; 3] == (2 # 3)%Q /\
  step_lo (bt_accept ex_iv) [1; 2; 3] 0 [1; 2; 3] == (2 # 3)%Q /\
  step_hi (bt_accept ex_iv) [1; 2; 3] 0 [1; 2; 3] == 1%Q /\
  step_len (bt_accept ex_iv) [1; 2; 3] 0 [3; 2; 1] == 0%Q.
Proof. repeat split; vm_compute; reflexivity. Qed.

(* the kernel row of [1;2;3] with two proposal positions: 1/2 * 2/3 to [2;1;3], 1/2 * 1/2 to
   [1;3;2], the rest stays *)
Example ex_bt_kernel_row :
  swap_kernel list_peqb (bt_accept ex_iv) 2 [1; 2; 3] [2; 1; 3] == (1 # 3)%Q /\
  swap_kernel list_peqb (bt_accept ex_iv) 2 [1; 2; 3] [1; 3; 2] == (1 # 4)%Q /\
  swap_kernel list_peqb (bt_accept ex_iv) 2 [1; 2; 3] [1; 2; 3] == (5 # 12)%Q /\
  qsum (map (fun j => Qmult (1 / Qnat 2) (step_len (bt_accept ex_iv) [1; 2; 3] j [2; 1; 3])) (seq 0 2))
  == (1 # 3)%Q /\
  qsum (map (swap_kernel list_peqb (bt_accept ex_iv) 2 [1; 2; 3]) (perms pcand [1; 2; 3])) == 1%Q.
Proof. repeat split; vm_compute; reflexivity. Qed.

(* A3: a run of three steps (swap accepted, rejected, accepted) *)
Example ex_bt_run :
  bt_mcmc_run ex_iv [1; 2; 3] [(0%nat, (1 # 2)%Q); (1%nat, (9 # 10)%Q); (1%nat, (1 # 10)%Q)] =
  [[2; 1; 3]; [2; 1; 3]; [2; 3; 1]] /\
  chain_state (bt_mcmc_step ex_iv) [1; 2; 3] [(0%nat, (1 # 2)%Q); (1%nat, (9 # 10)%Q); (1%nat, (1 # 10)%Q)]
  = [2; 3; 1].
Proof. split; vm_compute; reflexivity. Qed.

(* B1 on the three-candidate interval, two proposal positions: the exact table, one entry, and
   both sides of the stationarity equation *)
Example ex_bt_table_stationary :
  In ([2; 1; 3], (1 # 4)%Q) (bt_pdf ex_iv) /\
  qsum (map (fun xv => Qmult (snd xv) (swap_kernel list_peqb (bt_accept ex_iv) 2 (fst xv) [2; 1; 3]))
            (bt_pdf ex_iv)) == (1 # 4)%Q /\
  prob (list_peqb [2; 1; 3]) (categorical (bt_pdf ex_iv)) == (1 # 4)%Q /\
  qsum (map (fun x => Qmult (prob (list_peqb x) (categorical (bt_pdf ex_iv)))
                            (swap_kernel list_peqb (bt_accept ex_iv) 2 x [2; 1; 3]))
            (perms pcand [1; 2; 3])) == (1 # 4)%Q.
Proof.
  split; [vm_compute; tauto|]. repeat split; vm_compute; reflexivity.
Qed.

(* slate chain, own slate 1 with two candidates, slate 2 with one, cohesion 3/4 *)
Example ex_slate_step :
  slate_accept 1 (3 # 4)%Q [1; 2; 1] 0 == (1 # 3)%Q /\
  slate_mcmc_step 1 (3 # 4)%Q [1; 2; 1] (0%nat, (1 # 4)%Q) = [2; 1; 1] /\
  slate_mcmc_step 1 (3 # 4)%Q [1; 2; 1] (0%nat, (1 # 2)%Q) = [1; 2; 1] /\
  slate_mcmc_step 1 (3 # 4)%Q [1; 2; 1] (1%nat, (99 # 100)%Q) = [1; 1; 2] /\
  step_hi (slate_accept 1 (3 # 4)%Q) [1; 2; 1] 0 [2; 1; 1] == (1 # 3)%Q /\
  step_len (slate_accept 1 (3 # 4)%Q) [1; 2; 1] 1 [1; 1; 2] == 1%Q /\
  (* at cohesion 1/4 the coded value is 3 > 1 and acts as 1 *)
  slate_accept 1 (1 # 4)%Q [1; 2; 1] 0 == 3%Q /\
  step_len (slate_accept 1 (1 # 4)%Q) [1; 2; 1] 0 [2; 1; 1] == 1%Q.
Proof. repeat split; vm_compute; reflexivity. Qed.

Example ex_slate_table_stationary :
  ((1 # 2) <= (3 # 4))%Q /\ ((3 # 4) <= 1)%Q /\
  slate_bt_pdf [(1, 2%nat); (2, 1%nat)] 1 2 (3 # 4)%Q =
    [([1; 1; 2], (9 # 13)%Q); ([1; 2; 1], (3 # 13)%Q); ([2; 1; 1], (1 # 13)%Q)] /\
  qsum (map (fun tv => Qmult (snd tv) (swap_kernel list_peqb (slate_accept 1 (3 # 4)%Q) 2 (fst tv) [1; 2; 1]))
            (slate_bt_pdf [(1, 2%nat); (2, 1%nat)] 1 2 (3 # 4)%Q)) == (3 # 13)%Q /\
  prob (list_peqb [1; 2; 1]) (categorical (slate_bt_pdf [(1, 2%nat); (2, 1%nat)] 1 2 (3 # 4)%Q)) == (3 # 13)%Q /\
  (* the sizes listed in the other order *)
  qsum (map (fun tv => Qmult (snd tv) (swap_kernel list_peqb (slate_accept 1 (3 # 4)%Q) 2 (fst tv) [2; 1; 1]))
            (slate_bt_pdf [(2, 1%nat); (1, 2%nat)] 1 2 (3 # 4)%Q)) == (1 # 13)%Q.
Proof.
  split; [discriminate|]. split; [discriminate|]. split; [vm_compute; reflexivity|].
  repeat split; vm_compute; reflexivity.
Qed.

(* the refutation's numbers: table (1/4, 3/4), one-step image (3/4, 1/4) *)
Example ex_slate_refuted_values :
  slate_bt_pdf [(1, 1%nat); (2, 1%nat)] 1 2 (1 # 4)%Q = [([1; 2], (1 # 4)%Q); ([2; 1], (3 # 4)%Q)] /\
  qsum (map (fun tv => Qmult (snd tv) (swap_kernel list_peqb (slate_accept 1 (1 # 4)%Q) 1 (fst tv) [1; 2]))
            (slate_bt_pdf [(1, 1%nat); (2, 1%nat)] 1 2 (1 # 4)%Q)) == (3 # 4)%Q.
Proof. split; vm_compute; reflexivity. Qed.
