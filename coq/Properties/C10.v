(* Properties/C10.v — C10: randomness is used only to break genuine ties, and every tiebreak is
   recorded.  Statements only; proofs are in Proofs/C10_script.v (locality: the random script is
   inspected only through [next_draw]), Proofs/C10_quiet.v (no recorded tiebreak => no draw) and
   Proofs/C10_tiebreak.v (what a recorded tiebreak means).  Vocabulary ([deterministic],
   [no_tiebreak], [draws_used], [tied_at], [tied_on], [one_shot_params], [big], [rebuild]) is in
   Spec/TieSpec.v; [tb_profile_ok] in Spec/ScoreSpec.v.

   The random source is the script [scr s] of the monad state; [next_draw] is its only consumer
   and logs every call in [lg s].  "Under all seeds" = "from every state s". *)
From VK Require Import Base Core STV Pairwise Rules.
From VK.Spec Require Import ScoreSpec TieSpec.
From VK.Proofs Require Import Lib_sets Elect C10_script C10_quiet C10_tiebreak.
From Coq Require Import Permutation.

Section C10.
Variable cand : Type.
Variable ceqb : cand -> cand -> bool.
Hypothesis ceqb_spec : forall a b, reflect (a = b) (ceqb a b).

Notation cset := (cset cand).
Notation ranking := (ranking cand).
Notation profile := (profile cand).
Notation scores := (scores cand).
Notation mstate := (mstate cand).
Notation estate := (estate cand).
Notation flat := (flat cand).
Notation singletons := (singletons cand).
Notation score_to_ranking := (score_to_ranking cand).
Notation memb := (memb cand ceqb).
Notation tiebreak_set := (tiebreak_set cand ceqb).
Notation elect_top_m := (elect_top_m cand ceqb).
Notation stv_step := (stv_step cand ceqb).
Notation run_stv := (run_stv cand ceqb).
Notation run_condo := (run_condo cand ceqb).
Notation run_rule := (run_rule cand ceqb).
Notation first_place_votes := (first_place_votes cand ceqb).
Notation borda_scores := (borda_scores cand ceqb).
Notation dominating_tiers := (dominating_tiers cand ceqb).
Notation deterministic := TieSpec.deterministic.
Notation no_tiebreak := (no_tiebreak cand).
Notation draws_used := (draws_used cand).
Notation tied_at := (tied_at cand).
Notation tied_on := (tied_on cand).
Notation one_shot_params := (one_shot_params cand).
Notation big := (big cand).
Notation rebuild := (rebuild cand).

(* ================================================================== *)
(** * 1. The script is consulted only through draws *)

(* [script_prefix_determines], for EVERY rule (the random ones included): a successful run
   consumed a prefix [used] of the script and logged one call per draw; from any other state whose
   script starts with [used] it returns the same outcome, leaves the rest of that script, and
   logs the same calls *)
Theorem c10_script_prefix_determines : forall (r : rule) (p : profile) (s : mstate) sts (s' : mstate),
  run_rule r p s = inl (sts, s') ->
  exists used calls,
    scr s = used ++ scr s' /\ lg s' = calls ++ lg s /\ length calls = length used /\
    forall s2 rest, scr s2 = used ++ rest ->
      run_rule r p s2 = inl (sts, mkM rest (calls ++ lg s2)).
Proof. exact (fun r p => local_prefix cand _ _ (Local_run_rule cand ceqb r p)). Qed.

(* [no_draw_indep]: a run that left the script untouched gives the same outcome from every state *)
Theorem c10_no_draw_indep : forall (r : rule) (p : profile) (s : mstate) sts (s' : mstate),
  run_rule r p s = inl (sts, s') -> scr s' = scr s ->
  forall s2, run_rule r p s2 = inl (sts, s2).
Proof. exact (fun r p => local_no_draw cand _ _ (Local_run_rule cand ceqb r p)). Qed.

(* errors: an exception is determined by the consumed prefix, unless the script ran out *)
Theorem c10_error_prefix : forall (r : rule) (p : profile) (s : mstate) e,
  run_rule r p s = inr e ->
  exists used rest0, scr s = used ++ rest0 /\
    ((forall s2 rest, scr s2 = used ++ rest -> run_rule r p s2 = inr e) \/
     (rest0 = [] /\ e = EScript)).
Proof. exact (fun r p => local_error cand _ _ (Local_run_rule cand ceqb r p)). Qed.

(* the same for the building blocks *)
Theorem c10_prefix_tiebreak_set : forall g (p : option profile) tb (s : mstate) t (s' : mstate),
  tiebreak_set g p tb s = inl (t, s') ->
  exists used calls,
    scr s = used ++ scr s' /\ lg s' = calls ++ lg s /\ length calls = length used /\
    forall s2 rest, scr s2 = used ++ rest ->
      tiebreak_set g p tb s2 = inl (t, mkM rest (calls ++ lg s2)).
Proof. exact (fun g p tb => local_prefix cand _ _ (Local_tiebreak_set cand ceqb g p tb)). Qed.

Theorem c10_prefix_elect_top_m : forall r m (p : option profile) tb (s : mstate) x (s' : mstate),
  elect_top_m r m p tb s = inl (x, s') ->
  exists used calls,
    scr s = used ++ scr s' /\ lg s' = calls ++ lg s /\ length calls = length used /\
    forall s2 rest, scr s2 = used ++ rest ->
      elect_top_m r m p tb s2 = inl (x, mkM rest (calls ++ lg s2)).
Proof. exact (fun r m p tb => local_prefix cand _ _ (Local_elect_top_m cand ceqb r m p tb)). Qed.

Theorem c10_prefix_stv_step : forall cfg t p0 n (p : profile) prev (s : mstate) x (s' : mstate),
  stv_step cfg t p0 n p prev s = inl (x, s') ->
  exists used calls,
    scr s = used ++ scr s' /\ lg s' = calls ++ lg s /\ length calls = length used /\
    forall s2 rest, scr s2 = used ++ rest ->
      stv_step cfg t p0 n p prev s2 = inl (x, mkM rest (calls ++ lg s2)).
Proof.
  exact (fun cfg t p0 n p prev => local_prefix cand _ _ (Local_stv_step cand ceqb cfg t p0 n p prev)).
Qed.

(* ================================================================== *)
(** * 2. No recorded tiebreak: the outcome is the same under all seeds *)

(* for every deterministic rule (everything but RandomDictator, BoostedRandomDictator and
   STV/Alaska with the random transfer): if no state of the run records a tiebreak, then no draw
   was consumed, and the run returns the identical list of states from every random script.
   Covers the get_profile replays of TopTwo and Alaska. *)
Theorem c10_script_irrelevant : forall (r : rule) (p : profile) (s s' : mstate) (sts : list estate),
  deterministic r ->
  run_rule r p s = inl (sts, s') ->
  Forall no_tiebreak sts ->
  s' = s /\ draws_used s s' = 0%nat /\
  forall s2, run_rule r p s2 = inl (sts, s2).
Proof. exact (c10_script_irrelevant_proof cand ceqb). Qed.

(* two successful runs of a deterministic rule, from any two scripts, agree on all rounds before
   the first round that records a tiebreak (k = number of leading tiebreak-free states of the
   first run) *)
Theorem c10_agree_until_tiebreak :
  forall (r : rule) (p : profile) (s s' s2 s2' : mstate) (sts sts2 : list estate) (k : nat),
  deterministic r ->
  run_rule r p s = inl (sts, s') ->
  run_rule r p s2 = inl (sts2, s2') ->
  Forall no_tiebreak (firstn k sts) -> firstn k sts2 = firstn k sts.
Proof. exact (c10_agree_until_tiebreak_proof cand ceqb). Qed.

(* ================================================================== *)
(** * 3. What a recorded tiebreak means *)

(* One-shot rules (Plurality/SNTV, Borda, GeneralRating, Limited, Bloc): a run is [s0; s1]; a
   recorded pair (g, t) of s1 is the only one; g is a whole group of the round-0 ranking — its
   members tied on the round-0 scores — with at least two members, and seat m falls strictly
   inside it; t was returned by [tiebreak_set g]; it is a list of singletons, a duplicate-free
   permutation of g; the elected groups are the groups before g followed by the first j entries
   of t, the remaining groups are the other entries of t followed by the groups after g. *)
Theorem c10_one_shot_tiebreak : forall (r : rule) (p : profile) k m tb (s s' : mstate) sts,
  NoDup (cands p) ->
  one_shot_params r p = Some (k, m, tb) ->
  run_rule r p s = inl (sts, s') ->
  exists s0 s1, sts = [s0; s1] /\ tiebreaks s0 = [] /\
  forall g t, In (g, t) (tiebreaks s1) ->
  exists pre post kind j l,
    tb = Some kind /\ tiebreaks s1 = [(g, t)] /\
    tiebreak_set g (Some p) kind s = inl (t, s') /\
    remaining s0 = pre ++ g :: post /\ tied_on (escores s0) g /\ (2 <= length g)%nat /\
    (Z.of_nat (length (flat pre)) < m < Z.of_nat (length (flat pre) + length g))%Z /\
    j = (Z.to_nat m - length (flat pre))%nat /\
    t = singletons l /\ Permutation l g /\ NoDup l /\
    elected s1 = pre ++ firstn j t /\ remaining s1 = skipn j t ++ post.
Proof. exact (c10_one_shot_rule_proof cand ceqb ceqb_spec). Qed.

(* the three clauses of the property, separately *)
Theorem c10_tiebreak_genuine : forall (r : rule) (p : profile) k m tb (s s' : mstate) s0 s1 g t,
  NoDup (cands p) -> one_shot_params r p = Some (k, m, tb) ->
  run_rule r p s = inl ([s0; s1], s') -> In (g, t) (tiebreaks s1) ->
  exists pre post,
    remaining s0 = pre ++ g :: post /\ tied_on (escores s0) g /\ (2 <= length g)%nat /\
    (Z.of_nat (length (flat pre)) < m < Z.of_nat (length (flat pre) + length g))%Z.
Proof. exact (c10_tiebreak_genuine_proof cand ceqb ceqb_spec). Qed.

Theorem c10_resolution_strict : forall (r : rule) (p : profile) k m tb (s s' : mstate) s0 s1 g t,
  NoDup (cands p) -> one_shot_params r p = Some (k, m, tb) ->
  run_rule r p s = inl ([s0; s1], s') -> In (g, t) (tiebreaks s1) ->
  exists l, t = singletons l /\ Permutation l g /\ NoDup l.
Proof. exact (c10_resolution_strict_proof cand ceqb ceqb_spec). Qed.

Theorem c10_obeyed : forall (r : rule) (p : profile) k m tb (s s' : mstate) s0 s1 g t,
  NoDup (cands p) -> one_shot_params r p = Some (k, m, tb) ->
  run_rule r p s = inl ([s0; s1], s') -> In (g, t) (tiebreaks s1) ->
  exists pre post j,
    remaining s0 = pre ++ g :: post /\ j = (Z.to_nat m - length (flat pre))%nat /\
    (0 < j < length g)%nat /\
    elected s1 = pre ++ firstn j t /\ remaining s1 = skipn j t ++ post.
Proof. exact (c10_obeyed_proof cand ceqb ceqb_spec). Qed.

(* CondoBorda: the deciding ranking is the list of dominating tiers, the tiebreak is Borda.
   FULL STATEMENT WANTED: the last clause without the premises [NoDup g] and
   [incl g (cands p)].  MISSING: that every dominating tier is a duplicate-free subset of the
   profile's candidates (tiers are computed over the candidates cast on the ballot_fill-ed
   profile; this is C06 material: tiers_sub / tier_NoDup plus cast_cands of ballot_fill). *)
Theorem c10_condo_tiebreak_partial : forall m (p : profile) (s s' : mstate) s0 s1 g t,
  run_condo m p s = inl ([s0; s1], s') ->
  In (g, t) (tiebreaks s1) ->
  exists tiers pre post j,
    dominating_tiers p = inl tiers /\ tiebreaks s1 = [(g, t)] /\
    tiebreak_set g (Some p) TBBorda s = inl (t, s') /\
    tiers = pre ++ g :: post /\ (2 <= length g)%nat /\
    (Z.of_nat (length (flat pre)) < m < Z.of_nat (length (flat pre) + length g))%Z /\
    j = (Z.to_nat m - length (flat pre))%nat /\
    elected s1 = pre ++ firstn j t /\ remaining s1 = skipn j t ++ post /\
    (NoDup (cands p) -> NoDup g -> incl g (cands p) ->
     exists l, t = singletons l /\ Permutation l g /\ NoDup l).
Proof. exact (c10_condo_proof cand ceqb ceqb_spec). Qed.

(* STV with fractional or full-weight transfer, every round prev -> st of a run, with t the
   threshold: a recorded pair (g, tt) is the only one of its round, g has at least two members,
   and either
   - (one-by-one election) g is the top group of the previous ranking, its members share the tally
     k, the largest tally, which reaches the threshold; tt was returned by [tiebreak_set g] on the
     current profile with the configured tiebreak, is a strict order of g, and its first entry is
     the elected group; or
   - (elimination) nobody reaches the threshold, g is the last group of the previous ranking, its
     members share the tally k, the smallest tally; tt was returned by the first-place tiebreak on
     the INITIAL profile, and the first member of its last group is the eliminated candidate.
   FULL STATEMENT WANTED (hence _partial): in the elimination case, tt is a strict order of g whose
   last entry is eliminated, without the premise [incl g (cands p)].  MISSING: the run invariant
   "candidates of the current profile are candidates of the initial profile" (mk_profile falls
   back to the candidates cast on the ballots when every listed candidate has been removed). *)
Theorem c10_stv_tiebreak_partial : forall cfg (p : profile) (s s' : mstate) sts,
  s_transfer cfg <> TRandom -> NoDup (cands p) ->
  run_stv cfg p s = inl (sts, s') ->
  exists t, stv_init cand cfg p = inl t /\
  forall l1 prev st l2 g tt, sts = l1 ++ prev :: st :: l2 -> In (g, tt) (tiebreaks st) ->
    tiebreaks st = [(g, tt)] /\ (2 <= length g)%nat /\
    ((exists (pc : profile) (sa sb : mstate) post kind k,
        s_simul cfg = false /\ s_tiebreak cfg = Some kind /\ remaining prev = g :: post /\
        tied_at (escores prev) g k /\ t <= k /\ (forall c q, In (c, q) (escores prev) -> q <= k) /\
        tiebreak_set g (Some pc) kind sa = inl (tt, sb) /\
        elected st = firstn 1 tt /\ eliminated st = no_group cand /\
        exists l, tt = singletons l /\ Permutation l g /\ NoDup l)
     \/
     (exists (sa sb : mstate) rest x k,
        filter (fun q => Qle_bool t (snd q)) (escores prev) = [] /\
        rev (remaining prev) = g :: rest /\
        tied_at (escores prev) g k /\ (forall c q, In (c, q) (escores prev) -> k <= q) /\
        tiebreak_set g (Some p) TBFirstPlace sa = inl (tt, sb) /\
        (exists g' rest', rev tt = (x :: g') :: rest') /\
        eliminated st = [[x]] /\ elected st = no_group cand /\
        (NoDup (cands p) -> incl g (cands p) ->
         exists l l', tt = singletons l /\ Permutation l g /\ NoDup l /\ l = l' ++ [x]))).
Proof. exact (c10_stv_run_proof cand ceqb ceqb_spec). Qed.

(* the same for a single round, given the facts every round of a run satisfies *)
Theorem c10_stv_step_tiebreak : forall cfg t p0 n (p : profile) prev (s s' : mstate) np st g tt,
  s_transfer cfg <> TRandom ->
  remaining prev = score_to_ranking (escores prev) true ->
  map fst (escores prev) = cands p -> NoDup (cands p) ->
  stv_step cfg t p0 n p prev s = inl ((np, st), s') ->
  In (g, tt) (tiebreaks st) ->
  tiebreaks st = [(g, tt)] /\ (2 <= length g)%nat /\
  ((exists post kind k,
      s_simul cfg = false /\ s_tiebreak cfg = Some kind /\ remaining prev = g :: post /\
      tied_at (escores prev) g k /\ t <= k /\ (forall c q, In (c, q) (escores prev) -> q <= k) /\
      tiebreak_set g (Some p) kind s = inl (tt, s') /\
      elected st = firstn 1 tt /\ eliminated st = no_group cand /\
      exists l, tt = singletons l /\ Permutation l g /\ NoDup l)
   \/
   (exists rest x k,
      filter (fun q => Qle_bool t (snd q)) (escores prev) = [] /\
      rev (remaining prev) = g :: rest /\
      tied_at (escores prev) g k /\ (forall c q, In (c, q) (escores prev) -> k <= q) /\
      tiebreak_set g (Some p0) TBFirstPlace s = inl (tt, s') /\
      (exists g' rest', rev tt = (x :: g') :: rest') /\
      eliminated st = [[x]] /\ elected st = no_group cand /\
      (NoDup (cands p0) -> incl g (cands p0) ->
       exists l l', tt = singletons l /\ Permutation l g /\ NoDup l /\ l = l' ++ [x]))).
Proof. exact (c10_stv_step_proof cand ceqb ceqb_spec). Qed.

(* ================================================================== *)
(** * 4. Scored tiebreaks order by score and draw only inside the still-tied sub-groups *)

(* in the answer of a first_place / borda tiebreak, an earlier candidate never has a lower
   tiebreak score than a later one: strictly higher scores come first *)
Theorem c10_scored_order : forall g (pr : profile) kind (s s' : mstate) t (d : scores),
  (kind = TBFirstPlace /\ first_place_votes pr = inl d) \/
  (kind = TBBorda /\ borda_scores pr = inl d) ->
  NoDup (cands pr) ->
  tiebreak_set g (Some pr) kind s = inl (t, s') ->
  forall l pre a mid b post qa qb, t = singletons l -> l = pre ++ a :: mid ++ b :: post ->
    In (a, qa) d -> In (b, qb) d -> qb <= qa.
Proof. exact (tiebreak_set_order cand ceqb ceqb_spec). Qed.

(* the tied candidates are grouped by their tiebreak score (ranking r); exactly one
   [random.sample] is made per group of r with two or more members, in the order of r, each
   answer a duplicate-free permutation of its group; t is r with these groups replaced by the
   drawn orders; nothing else is consumed *)
Theorem c10_scored_tiebreak : forall g (pr : profile) kind (d : scores) (s s' : mstate) t,
  (kind = TBFirstPlace /\ first_place_votes pr = inl d) \/
  (kind = TBBorda /\ borda_scores pr = inl d) ->
  tiebreak_set g (Some pr) kind s = inl (t, s') ->
  let r := score_to_ranking (filter (fun q => memb (fst q) g) d) true in
  exists ls : list (list cand),
    scr s = map DPerm ls ++ scr s' /\
    lg s' = rev (map CSample (filter big r)) ++ lg s /\
    Forall2 (fun l sg => Permutation l sg /\ NoDup l) ls (filter big r) /\
    t = rebuild r ls.
Proof. exact (c10_scored_trace_proof cand ceqb ceqb_spec). Qed.

(* the groups of r are exactly the maximal sub-groups of g with equal tiebreak score, listed in
   strictly descending score order *)
Theorem c10_scored_groups : forall g (d : scores),
  NoDup (map fst d) -> NoDup g -> g <> [] -> incl g (map fst d) ->
  let r := score_to_ranking (filter (fun q => memb (fst q) g) d) true in
  Permutation (flat r) g /\
  (forall sg, In sg r -> sg <> []) /\
  (forall c1 c2 q1 q2, In c1 g -> In c2 g -> In (c1, q1) d -> In (c2, q2) d ->
     ((exists sg, In sg r /\ In c1 sg /\ In c2 sg) <-> q1 == q2)) /\
  (forall pre g1 mid g2 post c1 c2 q1 q2,
     r = pre ++ g1 :: mid ++ g2 :: post ->
     In c1 g1 -> In c2 g2 -> In (c1, q1) d -> In (c2, q2) d -> q2 < q1).
Proof. exact (c10_scored_groups_proof cand ceqb ceqb_spec). Qed.

(* a random tiebreak: exactly one draw, a duplicate-free permutation of the whole set *)
Theorem c10_random_tiebreak : forall g (p : option profile) (s s' : mstate) t,
  tiebreak_set g p TBRandom s = inl (t, s') ->
  exists l, scr s = DPerm l :: scr s' /\ lg s' = CSample g :: lg s /\
    t = singletons l /\ Permutation l g /\ NoDup l.
Proof. exact (c10_random_trace_proof cand ceqb ceqb_spec). Qed.

End C10.

Print Assumptions c10_script_prefix_determines.
Print Assumptions c10_no_draw_indep.
Print Assumptions c10_error_prefix.
Print Assumptions c10_prefix_tiebreak_set.
Print Assumptions c10_prefix_elect_top_m.
Print Assumptions c10_prefix_stv_step.
Print Assumptions c10_script_irrelevant.
Print Assumptions c10_agree_until_tiebreak.
Print Assumptions c10_one_shot_tiebreak.
Print Assumptions c10_tiebreak_genuine.
Print Assumptions c10_resolution_strict.
Print Assumptions c10_obeyed.
Print Assumptions c10_condo_tiebreak_partial.
Print Assumptions c10_stv_tiebreak_partial.
Print Assumptions c10_stv_step_tiebreak.
Print Assumptions c10_scored_order.
Print Assumptions c10_scored_tiebreak.
Print Assumptions c10_scored_groups.
Print Assumptions c10_random_tiebreak.

(* ================================================================== *)
(** * Non-vacuity: concrete runs (cand := positive) *)
Module C10Examples.
Open Scope positive_scope.

Definition B (r : list (list positive)) (w : Q) : ballot positive := mkBallot r w [] None None.
Definition run (r : rule) (p : profile positive) (s : mstate positive) :=
  run_rule positive Pos.eqb r p s.
Definition s_empty : mstate positive := mkM [] [].
Definition states_of (x : res (list (estate positive) * mstate positive)) : list (estate positive) :=
  match x with inl (sts, _) => sts | inr _ => [] end.

(* (a) a run without a tie: Plurality, one seat, scores 2 > 1 > 1/2; it succeeds on the EMPTY
   script, records no tiebreak, and therefore gives the same states from every script *)
Definition p_clear : profile positive :=
  mkProfile [B [[1];[2]] 2; B [[2];[1]] 1; B [[3]] (1#2)] [1;2;3].
Definition r_clear : rule := RPlurality 1 (Some TBRandom).
Definition sts_clear := Eval vm_compute in states_of (run r_clear p_clear s_empty).

Example c10_ex_no_tie :
  TieSpec.deterministic r_clear /\
  run r_clear p_clear s_empty = inl (sts_clear, s_empty) /\
  Forall (no_tiebreak positive) sts_clear /\ length sts_clear = 2%nat /\
  forall s2, run r_clear p_clear s2 = inl (sts_clear, s2).
Proof.
  assert (Hrun : run r_clear p_clear s_empty = inl (sts_clear, s_empty)) by (vm_compute; reflexivity).
  assert (Hq : Forall (no_tiebreak positive) sts_clear) by (repeat constructor).
  split; [exact I|]. split; [exact Hrun|]. split; [exact Hq|]. split; [reflexivity|].
  exact (proj2 (proj2 (c10_script_irrelevant positive Pos.eqb r_clear p_clear s_empty s_empty
                         sts_clear I Hrun Hq))).
Qed.

(* (b) a recorded tie: candidates 1 and 2 tie for the single seat; the two possible draws give
   two different winners, and the draw is recorded as ({1,2}, drawn order) *)
Definition p_tie : profile positive := mkProfile [B [[1]] 1; B [[2]] 1] [1;2;3].
Definition r_tie : rule := RPlurality 1 (Some TBRandom).
Definition sts_tie21 := Eval vm_compute in states_of (run r_tie p_tie (mkM [DPerm [2;1]] [])).
Definition sts_tie12 := Eval vm_compute in states_of (run r_tie p_tie (mkM [DPerm [1;2]] [])).

Example c10_ex_tie :
  NoDup (cands p_tie) /\
  one_shot_params positive r_tie p_tie = Some (SKFpv, 1%Z, Some TBRandom) /\
  run r_tie p_tie (mkM [DPerm [2;1]] []) = inl (sts_tie21, mkM [] [CSample [1;2]]) /\
  run r_tie p_tie (mkM [DPerm [1;2]] []) = inl (sts_tie12, mkM [] [CSample [1;2]]) /\
  map (@remaining positive) sts_tie21 = [[[1;2]; [3]]; [[1]; [3]]] /\
  map (@tiebreaks positive) sts_tie21 = [[]; [([1;2], [[2];[1]])]] /\
  map (@elected positive) sts_tie21 = [[[]]; [[2]]] /\
  map (@tiebreaks positive) sts_tie12 = [[]; [([1;2], [[1];[2]])]] /\
  map (@elected positive) sts_tie12 = [[[]]; [[1]]] /\
  run r_tie p_tie s_empty = inr EScript.
Proof.
  split; [repeat constructor; cbn; intuition discriminate|].
  repeat split; vm_compute; reflexivity.
Qed.

(* (c) a scored tiebreak that needs no draw: 1 and 2 tie on first-place votes, the Borda scores
   of the profile (2: 5, 1: 4) decide; the tiebreak is recorded although the script is empty *)
Definition p_borda : profile positive := mkProfile [B [[1];[2]] 1; B [[2];[3]] 1] [1;2;3].
Definition r_borda : rule := RPlurality 1 (Some TBBorda).
Definition sts_borda := Eval vm_compute in states_of (run r_borda p_borda s_empty).

Example c10_ex_scored_no_draw :
  run r_borda p_borda s_empty = inl (sts_borda, s_empty) /\
  map (@tiebreaks positive) sts_borda = [[]; [([1;2], [[2];[1]])]] /\
  map (@elected positive) sts_borda = [[[]]; [[2]]].
Proof. repeat split; vm_compute; reflexivity. Qed.

(* (d) STV: nobody reaches the threshold 3, candidates 2 and 3 tie for elimination (tally 1 each,
   also tied on initial first-place votes): one draw, recorded; the last of the order goes *)
Definition p_stv : profile positive := mkProfile [B [[1]] 2; B [[2]] 1; B [[3]] 1] [1;2;3].
Definition cfg1 : stv_cfg := mkStv 1 QDroop true TFractional (Some TBRandom).
Definition sts_stv := Eval vm_compute in states_of (run (RSTV cfg1) p_stv (mkM [DPerm [2;3]] [])).

Example c10_ex_stv_tie :
  TieSpec.deterministic (RSTV cfg1) /\ NoDup (cands p_stv) /\
  run (RSTV cfg1) p_stv (mkM [DPerm [2;3]] []) = inl (sts_stv, mkM [] [CSample [2;3]]) /\
  map (@remaining positive) sts_stv = [[[1]; [2;3]]; [[1]; [2]]; [[1]]; [[]]] /\
  map (@tiebreaks positive) sts_stv = [[]; [([2;3], [[2];[3]])]; []; []] /\
  map (@eliminated positive) sts_stv = [[[]]; [[3]]; [[2]]; [[]]] /\
  map (@elected positive) sts_stv = [[[]]; [[]]; [[]]; [[1]]].
Proof.
  split; [discriminate|]. split; [repeat constructor; cbn; intuition discriminate|].
  repeat split; vm_compute; reflexivity.
Qed.

(* (e) OBSERVATION (model of TopTwo's plurality.get_profile() and Alaska's stv.get_profile()):
   the replay of a tied step draws AGAIN, and that second answer is discarded.  Here the
   finalists 1 and 2 tie in the run-off: two draws are consumed, one tiebreak is recorded, the
   outcome follows the first draw only, and a script with a single draw is too short.  This does
   not contradict C10 (a tiebreak IS recorded), but "one draw per recorded random tiebreak" fails
   at the level of these two rules. *)
Definition p_runoff : profile positive := mkProfile [B [[1]] 2; B [[2]] 2; B [[3]] 1] [1;2;3].
Definition r_tt : rule := RTopTwo (Some TBRandom).
Definition sts_tt :=
  Eval vm_compute in states_of (run r_tt p_runoff (mkM [DPerm [2;1]; DPerm [1;2]] [])).
Definition sts_ak :=
  Eval vm_compute in states_of (run (RAlaska 3 1 cfg1) p_stv (mkM [DPerm [2;3]; DPerm [3;2]] [])).

Example c10_ex_replay_draws_again :
  run r_tt p_runoff (mkM [DPerm [2;1]; DPerm [1;2]] [])
    = inl (sts_tt, mkM [] [CSample [1;2]; CSample [1;2]]) /\
  map (@tiebreaks positive) sts_tt = [[]; []; [([1;2], [[2];[1]])]] /\
  map (@elected positive) sts_tt = [[[]]; [[]]; [[2]]] /\
  run r_tt p_runoff (mkM [DPerm [2;1]] []) = inr EScript /\
  run (RAlaska 3 1 cfg1) p_stv (mkM [DPerm [2;3]; DPerm [3;2]] [])
    = inl (sts_ak, mkM [] [CSample [2;3]; CSample [2;3]]) /\
  concat (map (@tiebreaks positive) sts_ak) = [([2;3], [[2];[3]])].
Proof. repeat split; vm_compute; reflexivity. Qed.

End C10Examples.
