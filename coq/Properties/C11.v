(* Properties/C11.v — property C11: profiles condense, compare and add by ballot content.
   Vocabulary ([same_content], [wtof], [distinct_contents], [anonymous]) is defined in
   Spec/Content.v; proofs are in
   Proofs/Lib_content.v, Proofs/C11_condense.v, Proofs/C11_profile.v.

   Not covered here (see DESIGN.md, C11): the int/float/Fraction conversion of weights and scores
   and attribute immutability (harness tests); the model has no separate num_ballots field
   (it is [length (ballots p)] by construction). *)
From Coq Require Import List ZArith QArith Bool Permutation.
From VK Require Import Base Core.
From VK.Spec Require Import Content.
From VK.Proofs Require Import Lib_content C11_condense C11_profile.
Import ListNotations.

Section C11.
Variable cand : Type.
Variable ceqb : cand -> cand -> bool.
Hypothesis ceqb_spec : forall a b, reflect (a = b) (ceqb a b).

(* The spec's content comparison is the key comparison used by the model of condense_ballots. *)
Theorem c11_key_match_is_same_content :
  forall a b : ballot cand, key_match cand ceqb a b = same_content cand ceqb a b.
Proof. exact (key_match_is_same cand ceqb). Qed.

(* Content comparison is an equivalence relation on ALL ballots (no well-formedness needed). *)
Theorem c11_same_content_equiv :
  (forall a, same_content cand ceqb a a = true) /\
  (forall a b, same_content cand ceqb a b = same_content cand ceqb b a) /\
  (forall a b c, same_content cand ceqb a b = true -> same_content cand ceqb b c = true ->
                 same_content cand ceqb a c = true).
Proof.
  exact (conj (same_refl cand ceqb ceqb_spec)
              (conj (same_sym cand ceqb) (same_trans cand ceqb ceqb_spec))).
Qed.

(* 1. every content carries after condensing exactly the summed weight it had before *)
Theorem c11_condense_weights :
  forall (k : ballot cand) (bs : list (ballot cand)),
    wtof cand ceqb k (condense_bs cand ceqb bs) == wtof cand ceqb k bs.
Proof. exact (condense_weights cand ceqb ceqb_spec). Qed.

(* 2. condensed ballots have pairwise different contents, none invented, none lost, and carry
      neither id nor voter set *)
Theorem c11_condense_distinct :
  forall bs : list (ballot cand),
    ForallOrdPairs (fun a b => same_content cand ceqb a b = false) (condense_bs cand ceqb bs) /\
    NoDup (condense_bs cand ceqb bs) /\
    (forall x, In x (condense_bs cand ceqb bs) ->
       exists y, In y bs /\ rk x = rk y /\ sc x = sc y) /\
    (forall y, In y bs ->
       exists x, In x (condense_bs cand ceqb bs) /\ same_content cand ceqb x y = true) /\
    Forall (fun x => bid x = None /\ vs x = None) (condense_bs cand ceqb bs).
Proof. exact (condense_distinct_full cand ceqb ceqb_spec). Qed.

(* 3. the result does not depend on the order of the ballots: reordering the input gives the
      same contents with the same weights (up to the order of the output and the choice of
      representative of each content) *)
Theorem c11_condense_order_indep :
  forall bs bs' : list (ballot cand),
    Permutation bs bs' ->
    (forall k, wtof cand ceqb k (condense_bs cand ceqb bs) ==
               wtof cand ceqb k (condense_bs cand ceqb bs')) /\
    length (condense_bs cand ceqb bs) = length (condense_bs cand ceqb bs') /\
    (exists l, Permutation (condense_bs cand ceqb bs') l /\
               Forall2 (fun a b => same_content cand ceqb a b = true /\ wt a == wt b)
                       (condense_bs cand ceqb bs) l) /\
    (forall a, In a (condense_bs cand ceqb bs) ->
       exists b, In b (condense_bs cand ceqb bs') /\ same_content cand ceqb a b = true /\
                 wt a == wt b /\
                 forall b', In b' (condense_bs cand ceqb bs') ->
                            same_content cand ceqb a b' = true -> b' = b).
Proof. exact (condense_order_indep cand ceqb ceqb_spec). Qed.

(* 4. condensing again changes nothing (literal equality of the ballot lists) *)
Theorem c11_condense_idem :
  forall bs : list (ballot cand),
    condense_bs cand ceqb (condense_bs cand ceqb bs) = condense_bs cand ceqb bs.
Proof. exact (condense_idem cand ceqb). Qed.

Theorem c11_condense_profile_idem :
  forall p : profile cand, condense cand ceqb (condense cand ceqb p) = condense cand ceqb p.
Proof. exact (condense_profile_idem cand ceqb). Qed.

(* more generally any list of pairwise different contents without ids is left alone *)
Theorem c11_condense_fixed :
  forall l : list (ballot cand),
    ForallOrdPairs (fun a b => same_content cand ceqb a b = false) l ->
    Forall (fun x => bid x = None /\ vs x = None) l ->
    condense_bs cand ceqb l = l.
Proof. exact (condense_fixed cand ceqb). Qed.

(* 5. derived fields of a constructed profile *)
Theorem c11_derived_fields :
  forall (bs : list (ballot cand)) (cs : list cand) (p : profile cand),
    mk_profile cand ceqb bs cs = inl p ->
    ballots p = bs /\
    (cs <> [] -> cands p = cs) /\
    (cs = [] -> cands p = cast_cands cand ceqb bs) /\
    NoDup cs.
Proof. exact (mk_profile_ok cand ceqb ceqb_spec). Qed.

Theorem c11_cast_cands :
  forall (bs : list (ballot cand)),
    NoDup (cast_cands cand ceqb bs) /\
    forall c, In c (cast_cands cand ceqb bs) <->
      exists b, In b bs /\ 0 < wt b /\
                ((exists g, In g (rk b) /\ In c g) \/ (exists s, In (c, s) (sc b))).
Proof. exact (cast_cands_spec cand ceqb ceqb_spec). Qed.

Theorem c11_total_wt :
  (forall bs : list (ballot cand), total_wt cand bs = qsum (map wt bs)) /\
  (forall bs bs' : list (ballot cand),
     total_wt cand (bs ++ bs') == total_wt cand bs + total_wt cand bs') /\
  (forall bs bs' : list (ballot cand),
     Permutation bs bs' -> total_wt cand bs == total_wt cand bs').
Proof.
  exact (conj (total_wt_def cand) (conj (total_wt_app cand) (total_wt_perm cand))).
Qed.

(* 6. a candidate list with duplicates is rejected with ValueError; nothing else is rejected *)
Theorem c11_dup_cands_rejected :
  forall (bs : list (ballot cand)) (cs : list cand),
    (mk_profile cand ceqb bs cs = inr EValue <-> ~ NoDup cs) /\
    (forall e, mk_profile cand ceqb bs cs = inr e -> e = EValue) /\
    (NoDup cs -> exists p, mk_profile cand ceqb bs cs = inl p).
Proof. exact (mk_profile_dup_full cand ceqb ceqb_spec). Qed.

(* 7. profile equality: for ALL profiles, the coded __eq__ holds exactly when both profiles give
      every (ranking, scores) content the same total weight *)
Theorem c11_eq_iff :
  forall p q : profile cand,
    profile_eq cand ceqb p q = true <->
    forall k, wtof cand ceqb k (ballots p) == wtof cand ceqb k (ballots q).
Proof. exact (profile_eq_iff cand ceqb ceqb_spec). Qed.

(* 9. hence it is an equivalence relation on all profiles *)
Theorem c11_eq_refl_sym :
  (forall p : profile cand, profile_eq cand ceqb p p = true) /\
  (forall p q : profile cand, profile_eq cand ceqb p q = profile_eq cand ceqb q p).
Proof. exact (conj (profile_eq_refl cand ceqb ceqb_spec) (profile_eq_sym cand ceqb)). Qed.

Theorem c11_eq_trans :
  forall p q r : profile cand,
    profile_eq cand ceqb p q = true -> profile_eq cand ceqb q r = true ->
    profile_eq cand ceqb p r = true.
Proof. exact (profile_eq_trans cand ceqb ceqb_spec). Qed.

(* 8. adding profiles never fails, concatenates the ballots, adds the weight of every content
      and the total weight, and recomputes the candidates from the cast ballots *)
Theorem c11_add :
  forall p q r : profile cand,
    profile_add cand ceqb p q = inl r ->
    ballots r = ballots p ++ ballots q /\
    cands r = cast_cands cand ceqb (ballots p ++ ballots q) /\
    (forall k, wtof cand ceqb k (ballots r) ==
               wtof cand ceqb k (ballots p) + wtof cand ceqb k (ballots q)) /\
    total_wt cand (ballots r) == total_wt cand (ballots p) + total_wt cand (ballots q).
Proof. exact (profile_add_spec cand ceqb). Qed.

Theorem c11_add_total :
  forall p q : profile cand, exists r, profile_add cand ceqb p q = inl r.
Proof. exact (profile_add_total_ex cand ceqb). Qed.

End C11.

(* ---------- former boundary cases of __eq__ (before its repair), now positive examples ---------- *)

(* an extra ballot of weight 0 does not make profiles unequal *)
Example c11_eq_zero_weight_example :
  profile_eq positive Pos.eqb
    (mkProfile [mkBallot [[1%positive]] 1 [] None None] [1%positive])
    (mkProfile [mkBallot [[1%positive]] 1 [] None None; mkBallot [[2%positive]] 0 [] None None]
               [1%positive]) = true.
Proof. exact eq_zero_weight_example. Qed.

(* same rankings and weights, different scores: unequal, and a content weight differs; a
   score-less ballot is no longer a wild-card *)
Example c11_eq_wildcard_example :
  profile_eq positive Pos.eqb
    (mkProfile [mkBallot [[1%positive]] 1 [(1%positive, 1)] None None;
                mkBallot [[1%positive]] 1 [] None None] [1%positive])
    (mkProfile [mkBallot [[1%positive]] 1 [(1%positive, 2)] None None;
                mkBallot [[1%positive]] 1 [] None None] [1%positive]) = false /\
  ~ wtof positive Pos.eqb (mkBallot [[1%positive]] 1 [(1%positive, 1)] None None)
      [mkBallot [[1%positive]] 1 [(1%positive, 1)] None None; mkBallot [[1%positive]] 1 [] None None]
    == wtof positive Pos.eqb (mkBallot [[1%positive]] 1 [(1%positive, 1)] None None)
      [mkBallot [[1%positive]] 1 [(1%positive, 2)] None None; mkBallot [[1%positive]] 1 [] None None].
Proof. exact eq_wildcard_example. Qed.

Print Assumptions c11_key_match_is_same_content.
Print Assumptions c11_same_content_equiv.
Print Assumptions c11_condense_weights.
Print Assumptions c11_condense_distinct.
Print Assumptions c11_condense_order_indep.
Print Assumptions c11_condense_idem.
Print Assumptions c11_condense_profile_idem.
Print Assumptions c11_condense_fixed.
Print Assumptions c11_derived_fields.
Print Assumptions c11_cast_cands.
Print Assumptions c11_total_wt.
Print Assumptions c11_dup_cands_rejected.
Print Assumptions c11_eq_iff.
Print Assumptions c11_eq_refl_sym.
Print Assumptions c11_eq_trans.
Print Assumptions c11_add.
Print Assumptions c11_add_total.

(* ---------- non-vacuity: concrete inputs (cand := positive) ---------- *)
Section Examples.
Open Scope positive_scope.
Let B (r : list (list positive)) (w : Q) (s : list (positive * Q)) : ballot positive :=
  mkBallot r w s None None.

(* A>B (1), {B:1} on ranking B (2), {B,A} tied... the same content listed with its group in
   another order, and an id-carrying ballot *)
Let bsA : list (ballot positive) :=
  [ B [[1]; [2]] 1 []; B [[2]] 2 [(2, 1%Q)];
    mkBallot [[1]; [2]] (1#2) [] (Some 7) (Some [3]); B [[1; 2]] 1 []; B [[2; 1]] 3 [] ].
Let bsA' : list (ballot positive) :=
  [ B [[2; 1]] 3 []; B [[2]] 2 [(2, (2#2)%Q)]; B [[1]; [2]] (3#2) []; B [[1; 2]] 1 [] ].

Example ex_condense :
  condense_bs positive Pos.eqb bsA =
  [ B [[1]; [2]] (1 + (1#2)) []; B [[2]] 2 [(2, 1%Q)]; B [[1; 2]] (1 + 3) [] ].
Proof. vm_compute. reflexivity. Qed.

(* two differently ordered/grouped profiles (one with ids) compare equal; dropping a ballot
   makes them unequal *)
Example ex_eq :
  profile_eq positive Pos.eqb (mkProfile bsA [1; 2]) (mkProfile bsA' [1; 2]) = true /\
  profile_eq positive Pos.eqb (mkProfile bsA [1; 2]) (mkProfile (tl bsA') [1; 2]) = false.
Proof. split; vm_compute; reflexivity. Qed.

Example ex_mk_profile :
  mk_profile positive Pos.eqb bsA [] = inl (mkProfile bsA [2; 1]) /\
  mk_profile positive Pos.eqb bsA [1; 2; 1] = inr EValue /\
  (total_wt positive bsA == 15 # 2)%Q.
Proof. repeat split; vm_compute; reflexivity. Qed.

Example ex_add :
  exists r, profile_add positive Pos.eqb (mkProfile bsA [1; 2]) (mkProfile bsA' [1; 2]) = inl r /\
            (wtof positive Pos.eqb (B [[2; 1]%positive] 1 []) (ballots r) == 8)%Q.
Proof. eexists. split; [reflexivity | vm_compute; reflexivity]. Qed.
End Examples.
