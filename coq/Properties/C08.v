(* Properties/C08.v — C08: outcomes are neutral, anonymous and independent of representation.
   Statements only.  Proofs: Proofs/C08_neutral.v (free theorems obtained with Paramcoq, see
   Proofs/ParamArith.v, ParamModel.v, ParamBridge.v), Proofs/C08_anon.v (measure arguments) and
   Proofs/C08_stv.v (the STV family).
   Vocabulary: Spec/Rename.v (rn_* : renaming every candidate occurrence of a value),
   Spec/Anon.v (dist_eq, groups_equiv, scores_equiv, state_equiv, profile_equiv, res_equiv,
   mres_equiv, one_shot_domain), Spec/Content.v (same_content, wtof), Spec/ScoreSpec.v (wf_profile),
   Spec/EditSpec.v (seteq, score_free).
   The hash-seed clause has no counterpart in a model without hashing; it is checked by the
   differential harness (DESIGN.md, C08). *)
From VK Require Import Base Core STV Pairwise Rules.
From VK.Spec Require Import Content ScoreSpec EditSpec Rename Anon.
From VK.Proofs Require Import C08_neutral C08_anon C08_stv.
From Coq Require Import Permutation.

(* ====================================================================== *)
(** * Part 1 — neutrality.
    [A], [B] are two candidate types (possibly the same) with equality tests [ea], [eb];
    [f : A -> B] is a renaming that preserves the tests, i.e. is injective. *)

Section Neutrality.
Variables A B : Type.
Variable ea : A -> A -> bool.
Variable eb : B -> B -> bool.
Variable f : A -> B.
Hypothesis f_eqb : forall x y, eb (f x) (f y) = ea x y.

(* EVERY rule (STV family, Plurality/SNTV, Borda, ratings, DominatingSets, CondoBorda, TopTwo,
   Alaska, RandomDictator, BoostedRandomDictator), from every state of the draw script, including
   the runs that draw random tiebreaks (the script is renamed too) and the runs that fail:
   running on the renamed profile = renaming the run.  [rn_states] renames every round's remaining,
   elected and eliminated groups, recorded tiebreaks and tallies; round numbers, tally values,
   errors, and the shape of everything are untouched; [rn_mres] also renames the unused script
   and the log of primitive calls. *)
Theorem c08_neutral : forall (r : rule) (p : profile A) (s : mstate A),
  run_rule B eb r (rn_profile f p) (rn_mstate f s)
  = rn_mres f (rn_states f) (run_rule A ea r p s).
Proof. exact (run_rule_rename A B ea eb f f_eqb). Qed.

Theorem c08_neutral_stv : forall (cfg : stv_cfg) (p : profile A) (s : mstate A),
  run_stv B eb cfg (rn_profile f p) (rn_mstate f s)
  = rn_mres f (rn_states f) (run_stv A ea cfg p s).
Proof. exact (run_stv_rename A B ea eb f f_eqb). Qed.

Theorem c08_neutral_stv_step : forall cfg t p0 n p prev s,
  stv_step B eb cfg t (rn_profile f p0) n (rn_profile f p) (rn_state f prev) (rn_mstate f s)
  = rn_mres f (fun x => (rn_profile f (fst x), rn_state f (snd x)))
      (stv_step A ea cfg t p0 n p prev s).
Proof. exact (stv_step_rename A B ea eb f f_eqb). Qed.

(* the scoring utilities *)
Theorem c08_neutral_score_rankings : forall (p : profile A) (v : list Q),
  score_rankings B eb (rn_profile f p) v = rn_res (rn_scores f) (score_rankings A ea p v).
Proof. exact (score_rankings_rename A B ea eb f f_eqb). Qed.

Theorem c08_neutral_first_place_votes : forall p : profile A,
  first_place_votes B eb (rn_profile f p) = rn_res (rn_scores f) (first_place_votes A ea p).
Proof. exact (first_place_votes_rename A B ea eb f f_eqb). Qed.

Theorem c08_neutral_borda_scores : forall p : profile A,
  borda_scores B eb (rn_profile f p) = rn_res (rn_scores f) (borda_scores A ea p).
Proof. exact (borda_scores_rename A B ea eb f f_eqb). Qed.

Theorem c08_neutral_mentions : forall p : profile A,
  mentions B eb (rn_profile f p) = rn_res (rn_scores f) (mentions A ea p).
Proof. exact (mentions_rename A B ea eb f f_eqb). Qed.

Theorem c08_neutral_score_from_scores : forall p : profile A,
  score_from_scores B eb (rn_profile f p) = rn_res (rn_scores f) (score_from_scores A ea p).
Proof. exact (score_from_scores_rename A B ea eb f f_eqb). Qed.

(* score_dict_to_ranking uses no equality test at all: it commutes with ANY function [f] *)
Theorem c08_neutral_score_to_ranking : forall (d : scores A) (high_low : bool),
  score_to_ranking B (rn_scores f d) high_low = rn_ranking f (score_to_ranking A d high_low).
Proof. exact (score_to_ranking_rename A B f). Qed.

(* remove_cand and condense_ballots *)
Theorem c08_neutral_remove_cand : forall (removed : cset A) (condense_flag leave_zero : bool) (p : profile A),
  remove_cand_prof B eb (rn_cset f removed) condense_flag leave_zero (rn_profile f p)
  = rn_res (rn_profile f) (remove_cand_prof A ea removed condense_flag leave_zero p).
Proof. exact (remove_cand_prof_rename A B ea eb f f_eqb). Qed.

Theorem c08_neutral_condense : forall bs : list (ballot A),
  condense_bs B eb (rn_ballots f bs) = rn_ballots f (condense_bs A ea bs).
Proof. exact (condense_bs_rename A B ea eb f f_eqb). Qed.

(* the pairwise comparison graph: candidates, margins dictionary, dominating tiers *)
Theorem c08_neutral_pairwise_graph : forall p : profile A,
  pairwise_graph B eb (rn_profile f p) = rn_res (rn_pwc f) (pairwise_graph A ea p).
Proof. exact (pairwise_graph_rename A B ea eb f f_eqb). Qed.

Theorem c08_neutral_dominating_tiers : forall p : profile A,
  dominating_tiers B eb (rn_profile f p) = rn_res (rn_ranking f) (dominating_tiers A ea p).
Proof. exact (dominating_tiers_rename A B ea eb f f_eqb). Qed.

(* elect_cands_from_set_ranking, with every tiebreak rule *)
Theorem c08_neutral_elect_top_m : forall (r : ranking A) (m : Z) (p : option (profile A))
    (tb : option tb_kind) (s : mstate A),
  elect_top_m B eb (rn_ranking f r) m (option_map (rn_profile f) p) tb (rn_mstate f s)
  = rn_mres f (rn_elect f) (elect_top_m A ea r m p tb s).
Proof. exact (elect_top_m_rename A B ea eb f f_eqb). Qed.

(* the round-by-round queries on the recorded states *)
Theorem c08_neutral_get_ranking : forall (sts : list (estate A)) (i : Z),
  get_ranking B (rn_states f sts) i = rn_res (rn_ranking f) (get_ranking A sts i).
Proof. exact (get_ranking_rename A B f). Qed.

End Neutrality.

Print Assumptions c08_neutral.
Print Assumptions c08_neutral_stv.
Print Assumptions c08_neutral_stv_step.
Print Assumptions c08_neutral_score_rankings.
Print Assumptions c08_neutral_first_place_votes.
Print Assumptions c08_neutral_borda_scores.
Print Assumptions c08_neutral_mentions.
Print Assumptions c08_neutral_score_from_scores.
Print Assumptions c08_neutral_score_to_ranking.
Print Assumptions c08_neutral_remove_cand.
Print Assumptions c08_neutral_condense.
Print Assumptions c08_neutral_pairwise_graph.
Print Assumptions c08_neutral_dominating_tiers.
Print Assumptions c08_neutral_elect_top_m.
Print Assumptions c08_neutral_get_ranking.

(* the usual reading: one candidate type with a reflecting equality test, [pi] injective
   (in particular: any bijection) *)
Section NeutralityBijection.
Variable cand : Type.
Variable ceqb : cand -> cand -> bool.
Hypothesis ceqb_spec : forall a b, reflect (a = b) (ceqb a b).

Theorem c08_neutral_injective : forall pi : cand -> cand,
  (forall x y, pi x = pi y -> x = y) ->
  forall (r : rule) (p : profile cand) (s : mstate cand),
  run_rule cand ceqb r (rn_profile pi p) (rn_mstate pi s)
  = rn_mres pi (rn_states pi) (run_rule cand ceqb r p s).
Proof.
  exact (fun pi Hinj => run_rule_rename cand cand ceqb ceqb pi
           (injective_eqb cand cand ceqb ceqb pi ceqb_spec ceqb_spec Hinj)).
Qed.
End NeutralityBijection.
Print Assumptions c08_neutral_injective.

(* ====================================================================== *)
(** * Part 2 — anonymity and independence of representation *)

Section Anonymity.
Variable cand : Type.
Variable ceqb : cand -> cand -> bool.
Hypothesis ceqb_spec : forall a b, reflect (a = b) (ceqb a b).

Notation cset := (cset cand).
Notation ranking := (ranking cand).
Notation ballot := (ballot cand).
Notation profile := (profile cand).
Notation scores := (scores cand).
Notation mstate := (mstate cand).
Notation flat := (flat cand).
Notation same_content := (same_content cand ceqb).
Notation dist_eq := (dist_eq cand ceqb).
Notation groups_equiv := (groups_equiv cand).
Notation scores_equiv := (scores_equiv cand).
Notation state_equiv := (state_equiv cand).
Notation profile_equiv := (profile_equiv cand ceqb).
Notation wf_profile := (wf_profile cand).
Notation wf_rated_profile := (wf_rated_profile cand).
Notation nonneg_wts := (nonneg_wts cand).
Notation one_shot_domain := (one_shot_domain cand).

(* ---- what "the same electorate" contains ---- *)

Theorem c08_dist_eq_equivalence :
  (forall bs, dist_eq bs bs) /\
  (forall bs bs', dist_eq bs bs' -> dist_eq bs' bs) /\
  (forall a b c, dist_eq a b -> dist_eq b c -> dist_eq a c).
Proof.
  exact (conj (dist_eq_refl cand ceqb)
        (conj (dist_eq_sym cand ceqb) (dist_eq_trans cand ceqb))).
Qed.

(* reordering the ballots *)
Theorem c08_dist_eq_reorder : forall bs bs' : list ballot, Permutation bs bs' -> dist_eq bs bs'.
Proof. exact (dist_eq_perm cand ceqb). Qed.

(* splitting a ballot [b] into ballots [parts] of the same content whose weights add up to its
   weight, anywhere in the list *)
Theorem c08_dist_eq_split : forall (pre : list ballot) (b : ballot) (post parts : list ballot),
  Forall (fun x => same_content b x = true) parts ->
  qsum (map wt parts) == wt b ->
  dist_eq (pre ++ b :: post) (pre ++ parts ++ post).
Proof. exact (dist_eq_split cand ceqb ceqb_spec). Qed.

(* merging ballots of one content into a single ballot *)
Theorem c08_dist_eq_merge : forall (pre : list ballot) (b : ballot) (post parts : list ballot),
  Forall (fun x => same_content b x = true) parts ->
  qsum (map wt parts) == wt b ->
  dist_eq (pre ++ parts ++ post) (pre ++ b :: post).
Proof. exact (dist_eq_merge cand ceqb ceqb_spec). Qed.

(* condense_ballots *)
Theorem c08_dist_eq_condense : forall bs : list ballot, dist_eq bs (condense_bs cand ceqb bs).
Proof. exact (dist_eq_condense cand ceqb ceqb_spec). Qed.

(* ---- every tally only sees the electorate ---- *)

(* the general principle: a sum of weight x g(content) with g blind to the representation of a
   content (on the contents satisfying P) is the same for the same electorate *)
Theorem c08_linear_functional :
  forall (P : ranking -> scores -> Prop) (g : ranking -> scores -> Q),
  (forall k b : ballot, P (rk k) (sc k) -> P (rk b) (sc b) -> same_content k b = true ->
     g (rk k) (sc k) == g (rk b) (sc b)) ->
  forall bs bs' : list ballot,
  Forall (fun b => P (rk b) (sc b)) bs -> Forall (fun b => P (rk b) (sc b)) bs' ->
  dist_eq bs bs' ->
  qsum (map (fun b => wt b * g (rk b) (sc b)) bs) == qsum (map (fun b => wt b * g (rk b) (sc b)) bs').
Proof. exact (wsum_dist_eq cand ceqb ceqb_spec). Qed.

(* positional score of a candidate, any score vector (no candidate listed twice on a ballot) *)
Theorem c08_scores_anonymous : forall (bs bs' : list ballot) (v : list Q) (c : cand),
  Forall (fun b => NoDup (flat (rk b))) bs -> Forall (fun b => NoDup (flat (rk b))) bs' ->
  dist_eq bs bs' ->
  score_of cand ceqb v bs c == score_of cand ceqb v bs' c.
Proof. exact (scores_anonymous cand ceqb ceqb_spec). Qed.

Theorem c08_total_wt_anonymous : forall bs bs' : list ballot,
  dist_eq bs bs' -> total_wt cand bs == total_wt cand bs'.
Proof. exact (total_wt_anonymous cand ceqb ceqb_spec). Qed.

(* head-to-head counts, all ballots *)
Theorem c08_h2h_anonymous : forall (bs bs' : list ballot) (a b : cand),
  dist_eq bs bs' -> h2h cand ceqb bs a b == h2h cand ceqb bs' a b.
Proof. exact (h2h_anonymous cand ceqb ceqb_spec). Qed.

(* the scoring utilities on profiles: they succeed together (or fail with the same error) and
   give the same keys, in any order, with [==] values *)
Theorem c08_score_rankings_anonymous : forall (p p' : profile) (v : list Q),
  wf_profile p -> wf_profile p' -> profile_equiv p p' ->
  res_equiv scores_equiv (score_rankings cand ceqb p v) (score_rankings cand ceqb p' v).
Proof. exact (score_rankings_anonymous cand ceqb ceqb_spec). Qed.

Theorem c08_first_place_votes_anonymous : forall p p' : profile,
  wf_profile p -> wf_profile p' -> profile_equiv p p' ->
  res_equiv scores_equiv (first_place_votes cand ceqb p) (first_place_votes cand ceqb p').
Proof. exact (first_place_votes_anonymous cand ceqb ceqb_spec). Qed.

Theorem c08_borda_scores_anonymous : forall p p' : profile,
  wf_profile p -> wf_profile p' -> profile_equiv p p' ->
  res_equiv scores_equiv (borda_scores cand ceqb p) (borda_scores cand ceqb p').
Proof. exact (borda_scores_anonymous cand ceqb ceqb_spec). Qed.

Theorem c08_mentions_anonymous : forall p p' : profile,
  wf_profile p -> wf_profile p' -> profile_equiv p p' ->
  res_equiv scores_equiv (mentions cand ceqb p) (mentions cand ceqb p').
Proof. exact (mentions_anonymous cand ceqb ceqb_spec). Qed.

Theorem c08_score_from_scores_anonymous : forall p p' : profile,
  wf_rated_profile p -> wf_rated_profile p' -> profile_equiv p p' ->
  res_equiv scores_equiv (score_from_scores cand ceqb p) (score_from_scores cand ceqb p').
Proof. exact (score_from_scores_anonymous cand ceqb ceqb_spec). Qed.

(* candidates inferred from the ballots cast when none are listed *)
Theorem c08_cast_cands_anonymous : forall bs bs' : list ballot,
  nonneg_wts bs -> nonneg_wts bs' -> dist_eq bs bs' ->
  Permutation (cast_cands cand ceqb bs) (cast_cands cand ceqb bs').
Proof. exact (cast_cands_anonymous cand ceqb ceqb_spec). Qed.

(* remove_cand(condensed) on the same profiles, removing the same set, gives the same profile *)
Theorem c08_remove_cand_anonymous : forall (W W' : cset) (p p' : profile),
  NoDup (cands p) -> NoDup (cands p') ->
  nonneg_wts (ballots p) -> nonneg_wts (ballots p') ->
  seteq cand W W' -> profile_equiv p p' ->
  exists np np', remove_cand_prof cand ceqb W true false p = inl np /\
                 remove_cand_prof cand ceqb W' true false p' = inl np' /\
                 profile_equiv np np'.
Proof. exact (remove_cand_prof_anonymous cand ceqb ceqb_spec). Qed.

(* ---- from tallies to rankings ---- *)
Theorem c08_ranking_of_scores : forall (d d' : scores) (high_low : bool),
  NoDup (map fst d) -> NoDup (map fst d') -> scores_equiv d d' ->
  groups_equiv (score_to_ranking cand d high_low) (score_to_ranking cand d' high_low).
Proof. exact (ranking_of_scores cand). Qed.

(* elect_cands_from_set_ranking without a tiebreak rule *)
Theorem c08_elect_top_m_anonymous : forall (r r' : ranking) (m : Z) (p p' : option profile) (s : mstate),
  groups_equiv r r' ->
  mres_equiv cand (elect_equiv cand)
    (elect_top_m cand ceqb r m p None s) (elect_top_m cand ceqb r' m p' None s).
Proof. exact (elect_top_m_anonymous cand ceqb). Qed.

(* ---- the one-shot rules (Plurality/SNTV: SKFpv, Borda: SKBorda or SKVector, rating family:
   SKBallotScores) without a tiebreak rule: both runs fail with the same error, or both give two
   rounds that agree round by round (groups as sets, tallies [==]) and leave the same script ---- *)
Theorem c08_one_shot_anonymous : forall (k : score_kind) (m : Z) (p p' : profile) (s : mstate),
  one_shot_domain k p -> one_shot_domain k p' -> profile_equiv p p' ->
  mres_equiv cand (Forall2 state_equiv)
    (run_one_shot cand ceqb k m None p s) (run_one_shot cand ceqb k m None p' s).
Proof. exact (one_shot_anonymous cand ceqb ceqb_spec). Qed.

(* listing the candidates in a different order *)
Theorem c08_cand_order : forall (k : score_kind) (m : Z) (bs : list ballot) (cs cs' : cset) (s : mstate),
  one_shot_domain k (mkProfile bs cs) -> Permutation cs cs' ->
  mres_equiv cand (Forall2 state_equiv)
    (run_one_shot cand ceqb k m None (mkProfile bs cs) s)
    (run_one_shot cand ceqb k m None (mkProfile bs cs') s).
Proof. exact (one_shot_cand_order cand ceqb ceqb_spec). Qed.

End Anonymity.

Print Assumptions c08_dist_eq_equivalence.
Print Assumptions c08_dist_eq_reorder.
Print Assumptions c08_dist_eq_split.
Print Assumptions c08_dist_eq_merge.
Print Assumptions c08_dist_eq_condense.
Print Assumptions c08_linear_functional.
Print Assumptions c08_scores_anonymous.
Print Assumptions c08_total_wt_anonymous.
Print Assumptions c08_h2h_anonymous.
Print Assumptions c08_score_rankings_anonymous.
Print Assumptions c08_first_place_votes_anonymous.
Print Assumptions c08_borda_scores_anonymous.
Print Assumptions c08_mentions_anonymous.
Print Assumptions c08_score_from_scores_anonymous.
Print Assumptions c08_cast_cands_anonymous.
Print Assumptions c08_remove_cand_anonymous.
Print Assumptions c08_ranking_of_scores.
Print Assumptions c08_elect_top_m_anonymous.
Print Assumptions c08_one_shot_anonymous.
Print Assumptions c08_cand_order.

(* ====================================================================== *)
(** * Non-vacuity: concrete inputs satisfying the hypotheses, both sides computed *)

Definition ex_b (r : list positive) (w : Z) : ballot positive :=
  mkBallot (map (fun c => [c]) r) (inject_Z w) [] None None.
(* 4 x (1>2>3), 3 x (2>3>1), 2 x (3>2>1) *)
Definition ex_p : profile positive :=
  mkProfile [ex_b [1;2;3]%positive 4; ex_b [2;3;1]%positive 3; ex_b [3;2;1]%positive 2]
            [1;2;3]%positive.
Definition ex_cfg : stv_cfg := mkStv 1 QDroop true TFractional None.
Definition ex_s0 : mstate positive := mkM [] [].

(* a bijection of the candidate names: 1 -> 3, 2 -> 1, 3 -> 2 *)
Definition ex_pi (x : positive) : positive :=
  if (x =? 1)%positive then 3%positive
  else if (x =? 2)%positive then 1%positive
  else if (x =? 3)%positive then 2%positive else x.

Example c08_ex_pi_injective : forall x y, ex_pi x = ex_pi y -> x = y.
Proof.
  intros x y. unfold ex_pi.
  destruct (Pos.eqb_spec x 1); destruct (Pos.eqb_spec x 2); destruct (Pos.eqb_spec x 3);
  destruct (Pos.eqb_spec y 1); destruct (Pos.eqb_spec y 2); destruct (Pos.eqb_spec y 3);
  intros H; subst; try reflexivity; try discriminate; try congruence.
Qed.

(* the IRV run: 3 is eliminated, its votes go to 2, who reaches the quota 5 *)
Example c08_ex_run :
  exists s0 s1 s2, run_rule positive Pos.eqb (RSTV ex_cfg) ex_p ex_s0 = inl ([s0; s1; s2], ex_s0) /\
    eliminated s1 = [[3%positive]] /\ elected s2 = [[2%positive]] /\
    escores s1 = [(1%positive, 4); (2%positive, 5)].
Proof. eexists. eexists. eexists. vm_compute. repeat split. Qed.

(* both sides of c08_neutral_injective on that run, computed independently *)
Example c08_ex_neutral :
  run_rule positive Pos.eqb (RSTV ex_cfg) (rn_profile ex_pi ex_p) (rn_mstate ex_pi ex_s0)
  = rn_mres ex_pi (rn_states ex_pi) (run_rule positive Pos.eqb (RSTV ex_cfg) ex_p ex_s0).
Proof. vm_compute. reflexivity. Qed.

Example c08_ex_neutral_by_theorem :
  run_rule positive Pos.eqb (RSTV ex_cfg) (rn_profile ex_pi ex_p) (rn_mstate ex_pi ex_s0)
  = rn_mres ex_pi (rn_states ex_pi) (run_rule positive Pos.eqb (RSTV ex_cfg) ex_p ex_s0).
Proof. exact (c08_neutral_injective positive Pos.eqb Pos.eqb_spec ex_pi c08_ex_pi_injective _ _ _). Qed.

(* the renamed run elects pi(2) = 1 *)
Example c08_ex_neutral_winner :
  exists s0 s1 s2,
    run_rule positive Pos.eqb (RSTV ex_cfg) (rn_profile ex_pi ex_p) (rn_mstate ex_pi ex_s0)
    = inl ([s0; s1; s2], ex_s0) /\ elected s2 = [[1%positive]] /\ eliminated s1 = [[2%positive]].
Proof. eexists. eexists. eexists. vm_compute. repeat split. Qed.

(* two different candidate types: positive ids renamed to integer labels *)
Definition ex_label (x : positive) : Z := (Zpos x + 100)%Z.
Example c08_ex_label_eqb : forall x y, Z.eqb (ex_label x) (ex_label y) = Pos.eqb x y.
Proof.
  intros x y. unfold ex_label. destruct (Pos.eqb_spec x y) as [->|Hne].
  - apply Z.eqb_refl.
  - apply Z.eqb_neq. intros H. apply Hne. apply Z.add_cancel_r in H. congruence.
Qed.
Example c08_ex_neutral_two_types :
  run_rule Z Z.eqb (RBorda 2 None None) (rn_profile ex_label ex_p) (rn_mstate ex_label ex_s0)
  = rn_mres ex_label (rn_states ex_label) (run_rule positive Pos.eqb (RBorda 2 None None) ex_p ex_s0).
Proof. vm_compute. reflexivity. Qed.

(* anonymity: the first ballot split 4 = 1 + 3, the ballots reordered, the candidates listed in
   another order *)
Definition ex_split : list (ballot positive) :=
  [ex_b [1;2;3]%positive 1; ex_b [1;2;3]%positive 3; ex_b [2;3;1]%positive 3; ex_b [3;2;1]%positive 2].
Definition ex_p2 : profile positive := mkProfile (rev ex_split) [3;1;2]%positive.

Example c08_ex_profile_equiv : profile_equiv positive Pos.eqb ex_p ex_p2.
Proof.
  split.
  - apply (dist_eq_trans positive Pos.eqb _ ex_split).
    + apply (c08_dist_eq_split positive Pos.eqb Pos.eqb_spec []
               (ex_b [1;2;3]%positive 4) [ex_b [2;3;1]%positive 3; ex_b [3;2;1]%positive 2]
               [ex_b [1;2;3]%positive 1; ex_b [1;2;3]%positive 3]).
      * repeat constructor.
      * vm_compute. reflexivity.
    + apply c08_dist_eq_reorder. apply Permutation_rev.
  - cbn [cands ex_p ex_p2].
    apply (Permutation_trans (l' := [1; 3; 2]%positive)); [apply perm_skip, perm_swap|apply perm_swap].
Qed.

Example ex_wf : forall bs cs, (forall c, In c [1;2;3]%positive -> In c cs) -> NoDup cs ->
  Forall (fun b => exists r w, b = ex_b r w /\ (0 <= w)%Z /\ Permutation r [1;2;3]%positive) bs ->
  one_shot_domain positive SKFpv (mkProfile bs cs).
Proof.
  intros bs cs Hcs Hnd Hbs. rewrite Forall_forall in Hbs. split; [|split; [split|]]; cbn [ballots cands].
  - apply Forall_forall. intros b Hb. destruct (Hbs b Hb) as [r [w [-> [Hw _]]]]. cbn [wt ex_b].
    unfold Qle, inject_Z. cbn [Qnum Qden]. rewrite !Z.mul_1_r. exact Hw.
  - exact Hnd.
  - apply Forall_forall. intros b Hb. destruct (Hbs b Hb) as [r [w [-> [_ Hp]]]]. cbn [rk ex_b].
    assert (Hf : flat positive (map (fun c => [c]) r) = r).
    { clear. induction r as [|c r IH]; [reflexivity|]. cbn [map]. unfold flat in *. cbn [concat app].
      rewrite IH. reflexivity. }
    split; [|split; [|split]].
    + destruct r; [apply Permutation_nil in Hp; discriminate|discriminate].
    + apply Forall_forall. intros g Hg. apply in_map_iff in Hg. destruct Hg as [c [<- _]]. discriminate.
    + rewrite Hf. apply (Permutation_NoDup (Permutation_sym Hp)). repeat constructor; cbn; intuition discriminate.
    + rewrite Hf. intros c Hc. apply Hcs. apply (Permutation_in _ Hp Hc).
  - apply Forall_forall. intros b Hb. destruct (Hbs b Hb) as [r [w [-> _]]]. reflexivity.
Qed.

Example c08_ex_domain : one_shot_domain positive SKFpv ex_p /\ one_shot_domain positive SKFpv ex_p2.
Proof.
  split; apply ex_wf.
  - intros c Hc; exact Hc.
  - repeat constructor; cbn; intuition discriminate.
  - repeat constructor.
    + exists [1;2;3]%positive, 4%Z. repeat split; [discriminate|apply Permutation_refl].
    + exists [2;3;1]%positive, 3%Z. repeat split; [discriminate|].
      apply Permutation_sym, (Permutation_cons_app [2;3]%positive [] 1%positive), Permutation_refl.
    + exists [3;2;1]%positive, 2%Z. repeat split; [discriminate|]. apply Permutation_sym, (Permutation_rev [1;2;3]%positive).
  - cbn. intuition (subst; auto).
  - repeat constructor; cbn; intuition discriminate.
  - repeat constructor.
    + exists [3;2;1]%positive, 2%Z. repeat split; [discriminate|]. apply Permutation_sym, (Permutation_rev [1;2;3]%positive).
    + exists [2;3;1]%positive, 3%Z. repeat split; [discriminate|].
      apply Permutation_sym, (Permutation_cons_app [2;3]%positive [] 1%positive), Permutation_refl.
    + exists [1;2;3]%positive, 3%Z. repeat split; [discriminate|apply Permutation_refl].
    + exists [1;2;3]%positive, 1%Z. repeat split; [discriminate|apply Permutation_refl].
Qed.

(* Plurality on both representations: same rounds; the tallies come out in the other candidate
   order ([3;1;2]) and agree *)
Example c08_ex_anonymous_runs :
  exists a0 a1 b0 b1,
    run_one_shot positive Pos.eqb SKFpv 1 None ex_p ex_s0 = inl ([a0; a1], ex_s0) /\
    run_one_shot positive Pos.eqb SKFpv 1 None ex_p2 ex_s0 = inl ([b0; b1], ex_s0) /\
    elected a1 = [[1%positive]] /\ elected b1 = [[1%positive]] /\
    map fst (escores a0) = [1;2;3]%positive /\ map fst (escores b0) = [3;1;2]%positive.
Proof. eexists. eexists. eexists. eexists. vm_compute. repeat split. Qed.

Example c08_ex_anonymous_by_theorem :
  mres_equiv positive (Forall2 (state_equiv positive))
    (run_one_shot positive Pos.eqb SKFpv 1 None ex_p ex_s0)
    (run_one_shot positive Pos.eqb SKFpv 1 None ex_p2 ex_s0).
Proof.
  exact (c08_one_shot_anonymous positive Pos.eqb Pos.eqb_spec SKFpv 1 ex_p ex_p2 ex_s0
           (proj1 c08_ex_domain) (proj2 c08_ex_domain) c08_ex_profile_equiv).
Qed.

(* ====================================================================== *)
(** * Part 2, continued — rule entry points and the STV family *)

Section AnonymityRules.
Variable cand : Type.
Variable ceqb : cand -> cand -> bool.
Hypothesis ceqb_spec : forall a b, reflect (a = b) (ceqb a b).

Notation ballot := (ballot cand).
Notation profile := (profile cand).
Notation mstate := (mstate cand).
Notation estate := (estate cand).
Notation dist_eq := (dist_eq cand ceqb).
Notation state_equiv := (state_equiv cand).
Notation profile_equiv := (profile_equiv cand ceqb).
Notation nonneg_wts := (nonneg_wts cand).
Notation one_shot_domain := (one_shot_domain cand).
Notation stv_domain := (stv_domain cand).
Notation stv_state_ok := (stv_state_ok cand).

(* Plurality / SNTV and Borda as run by the rule dispatcher, no tiebreak rule *)
Theorem c08_plurality_anonymous : forall (m : Z) (p p' : profile) (s : mstate),
  one_shot_domain SKFpv p -> one_shot_domain SKFpv p' -> profile_equiv p p' ->
  mres_equiv cand (Forall2 state_equiv)
    (run_rule cand ceqb (RPlurality m None) p s) (run_rule cand ceqb (RPlurality m None) p' s).
Proof. exact (plurality_anonymous cand ceqb ceqb_spec). Qed.

Theorem c08_borda_anonymous : forall (m : Z) (v : option (list Q)) (p p' : profile) (s : mstate),
  one_shot_domain SKBorda p -> one_shot_domain SKBorda p' -> profile_equiv p p' ->
  mres_equiv cand (Forall2 state_equiv)
    (run_rule cand ceqb (RBorda m v None) p s) (run_rule cand ceqb (RBorda m v None) p' s).
Proof. exact (borda_anonymous cand ceqb ceqb_spec). Qed.

(* ---- STV building blocks ---- *)

(* the pile of ballots led by w *)
Theorem c08_pile_anonymous : forall (p p' : profile) (w : cand),
  dist_eq (ballots p) (ballots p') -> dist_eq (pile cand ceqb p w) (pile cand ceqb p' w).
Proof. exact (pile_anonymous cand ceqb ceqb_spec). Qed.

(* the fractional (Gregory) surplus transfer of winner w with tally fpv and quota t, on ranked
   ballots (it fails, with ZeroDivisionError, exactly when the tally is 0) *)
Theorem c08_frac_transfer_anonymous : forall (w : cand) (fpv fpv' t : Q) (bs bs' : list ballot),
  Forall (fun b => rk b <> []) bs -> Forall (fun b => rk b <> []) bs' ->
  nonneg_wts bs -> nonneg_wts bs' -> fpv == fpv' -> dist_eq bs bs' ->
  res_equiv dist_eq (frac_transfer cand ceqb w fpv bs t) (frac_transfer cand ceqb w fpv' bs' t).
Proof. exact (frac_transfer_anonymous cand ceqb ceqb_spec). Qed.

(* the quota: the same electorate gives the same threshold (or the same error).  Since STV's
   constructor refuses non-integer weights up front for the random transfer, and integrality of
   every weight is not a function of the electorate (two half-weight copies of a ballot versus one
   copy of weight 1), with the random transfer the two profiles must agree on it; for the
   deterministic transfers the premise is vacuous *)
Theorem c08_stv_init_anonymous : forall (cfg : stv_cfg) (p p' : profile),
  stv_domain p -> stv_domain p' -> profile_equiv p p' ->
  (s_transfer cfg = TRandom ->
   forallb (fun b => is_integral (wt b)) (ballots p) =
   forallb (fun b => is_integral (wt b)) (ballots p')) ->
  stv_init cand cfg p = stv_init cand cfg p'.
Proof. exact (stv_init_anonymous cand ceqb ceqb_spec). Qed.

(* ---- one STV step on the deterministic path: no tiebreak rule configured, a deterministic
   transfer (fractional or full-weight), an empty draw script (so that a tie at elimination that
   first-place votes of the original profile p0 do not resolve fails, identically, with EScript).
   From equivalent profiles and equivalent previous rounds that report their tallies: the same
   error, or the same next profile and the same next round, both again in the domain ---- *)
Theorem c08_stv_step_anonymous :
  forall (cfg : stv_cfg) (t : Q) (p0 p0' : profile) (n : Z) (p p' : profile) (prev prev' : estate)
         (s : mstate),
  s_tiebreak cfg = None -> s_transfer cfg <> TRandom -> scr s = [] ->
  stv_domain p0 -> stv_domain p0' -> profile_equiv p0 p0' ->
  stv_domain p -> stv_domain p' -> profile_equiv p p' ->
  stv_state_ok p prev -> stv_state_ok p' prev' -> state_equiv prev prev' ->
  mres_equiv cand (stv_step_equiv cand ceqb)
    (stv_step cand ceqb cfg t p0 n p prev s) (stv_step cand ceqb cfg t p0' n p' prev' s).
Proof. exact (stv_step_anonymous cand ceqb ceqb_spec). Qed.

(* ---- the whole STV count (IRV, STV with simultaneous or one-by-one election, SequentialRCV's
   full-weight transfer), same hypotheses: every round agrees ---- *)
Theorem c08_stv_anonymous : forall (cfg : stv_cfg) (p p' : profile) (s : mstate),
  s_tiebreak cfg = None -> s_transfer cfg <> TRandom -> scr s = [] ->
  stv_domain p -> stv_domain p' -> profile_equiv p p' ->
  mres_equiv cand (Forall2 state_equiv)
    (run_rule cand ceqb (RSTV cfg) p s) (run_rule cand ceqb (RSTV cfg) p' s).
Proof. exact (stv_rule_anonymous cand ceqb ceqb_spec). Qed.

End AnonymityRules.

Print Assumptions c08_plurality_anonymous.
Print Assumptions c08_borda_anonymous.
Print Assumptions c08_pile_anonymous.
Print Assumptions c08_frac_transfer_anonymous.
Print Assumptions c08_stv_init_anonymous.
Print Assumptions c08_stv_step_anonymous.
Print Assumptions c08_stv_anonymous.

(* non-vacuity for the STV statements: the split / reordered / re-listed profile ex_p2 *)
Example c08_ex_stv_domain : stv_domain positive ex_p /\ stv_domain positive ex_p2.
Proof.
  assert (H : forall bs cs, (forall c, In c [1;2;3]%positive -> In c cs) -> NoDup cs ->
            Forall (fun b => exists r w, b = ex_b r w /\ (0 <= w)%Z /\ Permutation r [1;2;3]%positive) bs ->
            stv_domain positive (mkProfile bs cs)).
  { intros bs cs Hcs Hnd Hbs. split; [exact Hnd|]. cbn [ballots cands]. rewrite Forall_forall in Hbs |- *.
    intros b Hb. destruct (Hbs b Hb) as [r [w [-> [Hw Hp]]]]. unfold stv_ballot_ok. cbn [rk wt sc ex_b].
    assert (Hf : flat positive (map (fun c => [c]) r) = r).
    { clear. induction r as [|c r IH]; [reflexivity|]. cbn [map]. unfold flat in *. cbn [concat app].
      rewrite IH. reflexivity. }
    rewrite Hf. repeat split.
    - destruct r; [apply Permutation_nil in Hp; discriminate|discriminate].
    - apply Forall_forall. intros g Hg. apply in_map_iff in Hg. destruct Hg as [c [<- _]]. reflexivity.
    - apply (Permutation_NoDup (Permutation_sym Hp)). repeat constructor; cbn; intuition discriminate.
    - intros c Hc. apply Hcs. apply (Permutation_in _ Hp Hc).
    - unfold Qle, inject_Z. cbn [Qnum Qden]. rewrite !Z.mul_1_r. exact Hw. }
  split; apply H.
  - intros c Hc; exact Hc.
  - repeat constructor; cbn; intuition discriminate.
  - repeat constructor.
    + exists [1;2;3]%positive, 4%Z. repeat split; [discriminate|apply Permutation_refl].
    + exists [2;3;1]%positive, 3%Z. repeat split; [discriminate|].
      apply Permutation_sym, (Permutation_cons_app [2;3]%positive [] 1%positive), Permutation_refl.
    + exists [3;2;1]%positive, 2%Z. repeat split; [discriminate|].
      apply Permutation_sym, (Permutation_rev [1;2;3]%positive).
  - cbn. intuition (subst; auto).
  - repeat constructor; cbn; intuition discriminate.
  - repeat constructor.
    + exists [3;2;1]%positive, 2%Z. repeat split; [discriminate|].
      apply Permutation_sym, (Permutation_rev [1;2;3]%positive).
    + exists [2;3;1]%positive, 3%Z. repeat split; [discriminate|].
      apply Permutation_sym, (Permutation_cons_app [2;3]%positive [] 1%positive), Permutation_refl.
    + exists [1;2;3]%positive, 3%Z. repeat split; [discriminate|apply Permutation_refl].
    + exists [1;2;3]%positive, 1%Z. repeat split; [discriminate|apply Permutation_refl].
Qed.

(* the premise added to c08_stv_init_anonymous for the random transfer cannot be dropped: one ballot
   of weight 1 versus the same ballot split into two halves — the same electorate, both in the
   domain — the constructor accepts the first (threshold 1) and refuses the second (TypeError) *)
Definition ex_half (w : Q) : ballot positive := mkBallot [[1%positive]] w [] None None.
Theorem c08_stv_init_anonymous_random_refuted :
  exists (cfg : stv_cfg) (p p' : profile positive),
    s_transfer cfg = TRandom /\ stv_domain positive p /\ stv_domain positive p' /\
    profile_equiv positive Pos.eqb p p' /\
    stv_init positive cfg p = inl 1%Q /\ stv_init positive cfg p' = inr EType.
Proof.
  exists (mkStv 1 QDroop true TRandom None),
         (mkProfile [ex_half 1] [1%positive]), (mkProfile [ex_half (1#2); ex_half (1#2)] [1%positive]).
  assert (Hok : forall w, (0 <= w)%Q -> stv_ballot_ok positive [1%positive] (ex_half w)).
  { intros w Hw. unfold stv_ballot_ok. cbn [rk wt sc ex_half]. split; [discriminate|].
    split; [constructor; [reflexivity|constructor]|]. split; [constructor; [intros []|constructor]|].
    split; [intros c Hc; exact Hc|]. split; [exact Hw|reflexivity]. }
  split; [reflexivity|].
  assert (Hnd : NoDup [1%positive]) by (constructor; [intros []|constructor]).
  split; [split; [exact Hnd|constructor; [apply Hok; discriminate|constructor]]|].
  split; [split; [exact Hnd|constructor; [apply Hok; discriminate|
                             constructor; [apply Hok; discriminate|constructor]]]|].
  split.
  - split; [|apply Permutation_refl]. cbn [ballots].
    apply (c08_dist_eq_split positive Pos.eqb Pos.eqb_spec [] (ex_half 1) []
             [ex_half (1#2); ex_half (1#2)]).
    + repeat constructor.
    + vm_compute. reflexivity.
  - split; vm_compute; reflexivity.
Qed.
Print Assumptions c08_stv_init_anonymous_random_refuted.

Example c08_ex_stv_anonymous_by_theorem :
  mres_equiv positive (Forall2 (state_equiv positive))
    (run_rule positive Pos.eqb (RSTV ex_cfg) ex_p ex_s0)
    (run_rule positive Pos.eqb (RSTV ex_cfg) ex_p2 ex_s0).
Proof.
  apply (c08_stv_anonymous positive Pos.eqb Pos.eqb_spec ex_cfg ex_p ex_p2 ex_s0);
    [reflexivity|discriminate|reflexivity|apply c08_ex_stv_domain|apply c08_ex_stv_domain
    |exact c08_ex_profile_equiv].
Qed.

(* the two counts, computed: three rounds each, 3 eliminated then 2 elected; the tallies of the
   second come out in the other candidate order *)
Example c08_ex_stv_anonymous_runs :
  exists a0 a1 a2 b0 b1 b2,
    run_rule positive Pos.eqb (RSTV ex_cfg) ex_p ex_s0 = inl ([a0; a1; a2], ex_s0) /\
    run_rule positive Pos.eqb (RSTV ex_cfg) ex_p2 ex_s0 = inl ([b0; b1; b2], ex_s0) /\
    eliminated a1 = [[3%positive]] /\ eliminated b1 = [[3%positive]] /\
    elected a2 = [[2%positive]] /\ elected b2 = [[2%positive]] /\
    map fst (escores a0) = [1;2;3]%positive /\ map fst (escores b0) = [3;1;2]%positive.
Proof. eexists. eexists. eexists. eexists. eexists. eexists. vm_compute. repeat split. Qed.
