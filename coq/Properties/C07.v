(* Properties/C07.v — STV with the Droop quota is proportional for solid coalitions; a candidate
   ranked first on ballots worth at least the threshold wins IRV.
   Statements only; proofs are in Proofs/C07_lib.v, Proofs/C07_random.v, Proofs/C07_pc.v.
   Vocabulary (Spec/PCSpec.v; for the STV vocabulary see the header of Properties/C02.v):
     solid A r          r = pre ++ suf and the positions of pre list exactly the members of A, each
                        once, in some order: the ballot ranks A above all others
     solidb A r         the executable test (some leading segment of r mentions exactly the members
                        of A); equivalent to [solid A r] on every ranking that lists nobody twice
                        (all rankings of a valid profile), see [c07_solidb_spec]
     coal_wt A bs       Σ { wt b | b in bs, solidb A (rk b) }: weight of the solid coalition for A
     members A l        the entries of l that are members of A
     standing A p       members A (cands p);   elected_of A sts = members A (all_elected sts)
     winners_in A ws    number of members of A that occur in ws
     pc_inv A k t p sts the round invariant: |elected_of A| + |standing A| >= min k |A|, and while a
                        member stands and fewer than k are elected, the ballots solid for the standing
                        members weigh at least (k - |elected_of A|) * t
     elected_upto out (length out - 1)   what get_elected() returns after the count (C01:
                        c01_stv_queries) *)
From VK Require Import Base Core STV EditSpec STVSpec PCSpec.
From VK.Proofs Require Import STV_final C07_lib C07_pc.
From Coq Require Import Permutation.

Section C07.
Variable cand : Type.
Variable ceqb : cand -> cand -> bool.
Hypothesis ceqb_spec : forall a b, reflect (a = b) (ceqb a b).

Notation profile := (profile cand).
Notation estate := (estate cand).
Notation mstate := (mstate cand).
Notation cset := (cset cand).
Notation ranking := (ranking cand).
Notation flat := (flat cand).
Notation tally := (tally cand ceqb).
Notation wf_stv_profile := (wf_stv_profile cand).
Notation script_ok := (script_ok cand).
Notation stv_inv := (stv_inv cand ceqb).
Notation stv_init := (stv_init cand).
Notation stv_step := (stv_step cand ceqb).
Notation run_stv := (run_stv cand ceqb).
Notation count_elected := (count_elected cand).
Notation elected_upto := (elected_upto cand).
Notation solid := (solid cand).
Notation solidb := (solidb cand ceqb).
Notation coal_wt := (coal_wt cand ceqb).
Notation elected_of := (elected_of cand ceqb).
Notation winners_in := (winners_in cand ceqb).
Notation pc_inv := (pc_inv cand ceqb).

(* ---------- the coalition test ---------- *)

(* on a ranking that lists nobody twice, the executable test says: the ranking is pre ++ suf with
   the candidates of pre a rearrangement of A *)
Theorem c07_solidb_spec : forall (A : cset) (r : ranking), NoDup A -> NoDup (flat r) ->
  (solidb A r = true <-> solid A r).
Proof. exact (solidb_solid cand ceqb ceqb_spec). Qed.

(* in particular on every ballot of a valid profile: coal_wt A sums exactly the ballots that rank
   A above all others *)
Theorem c07_coalition_ballots : forall (p : profile) (A : cset) b, wf_stv_profile p -> NoDup A ->
  In b (ballots p) -> (solidb A (rk b) = true <-> solid A (rk b)).
Proof. exact (coalition_ballots cand ceqb ceqb_spec). Qed.

(* ---------- the invariant ---------- *)

(* it holds at the start for a coalition of weight >= k thresholds *)
Theorem c07_pc_init : forall (A : cset) k t (p : profile) s0,
  NoDup A -> incl A (cands p) -> initial_state cand ceqb p = inl s0 ->
  Qnat k * t <= coal_wt A (ballots p) ->
  pc_inv A k t p [s0].
Proof. exact (pc_inv_init cand ceqb ceqb_spec). Qed.

(* every round keeps it, fractional or random transfer: election of members (the coalition loses
   at most t per elected member) or of others, default election, elimination of a non-member, and
   elimination of a member — which can only happen when more members are standing than thresholds
   are left to the coalition *)
Theorem c07_pc_step : forall cfg t N (p0 p : profile) prev older (s s' : mstate) np st (A : cset) k,
  stv_inv cfg t N p0 p (prev :: older) ->
  s_transfer cfg <> TFullWeight -> (s_transfer cfg = TRandom -> script_ok s) ->
  pc_inv A k t p (prev :: older) ->
  stv_step cfg t p0 (count_elected (prev :: older)) p prev s = inl ((np, st), s') ->
  pc_inv A k t np (st :: prev :: older).
Proof. exact (pc_step cand ceqb ceqb_spec). Qed.

(* when all seats are filled and (m+1) t > N, it yields min(k, |A|) elected members *)
Theorem c07_pc_exit : forall cfg t N (p0 pf : profile) stsf (A : cset) k,
  stv_inv cfg t N p0 pf stsf -> s_transfer cfg <> TFullWeight ->
  count_elected stsf = s_m cfg -> N < inject_Z (s_m cfg + 1) * t -> 0 < t ->
  pc_inv A k t pf stsf ->
  (Nat.min k (length A) <= length (elected_of A stsf))%nat.
Proof. exact (pc_exit cand ceqb). Qed.

(* ---------- Droop proportionality for solid coalitions ---------- *)

(* STV, Droop quota, fractional or random transfer (not SequentialRCV's full-weight one),
   simultaneous or one-by-one, any tie-break, any script of random outcomes (for the random
   transfer: every replayed ballot sample lists single candidates per position):
   if the ballots that rank the duplicate-free set A of candidates above all others weigh at least
   k thresholds and the count returns, at least min(k, |A|, m) members of A are elected *)
Theorem c07_droop_pc : forall cfg (p : profile) (A : cset) (k : nat) t (s s' : mstate) out,
  wf_stv_profile p -> s_quota cfg = QDroop ->
  s_transfer cfg <> TFullWeight -> (s_transfer cfg = TRandom -> script_ok s) ->
  NoDup A -> incl A (cands p) ->
  stv_init cfg p = inl t ->
  Qnat k * t <= coal_wt A (ballots p) ->
  run_stv cfg p s = inl (out, s') ->
  (Nat.min k (Nat.min (length A) (Z.to_nat (s_m cfg)))
   <= winners_in A (flat (elected_upto out (length out - 1))))%nat.
Proof. exact (droop_pc cand ceqb ceqb_spec). Qed.

(* IRV (m = 1): a candidate ranked first on ballots worth at least the threshold is the winner *)
Theorem c07_irv_majority : forall cfg (p : profile) (c : cand) t (s s' : mstate) out,
  wf_stv_profile p -> s_quota cfg = QDroop ->
  s_transfer cfg <> TFullWeight -> (s_transfer cfg = TRandom -> script_ok s) -> s_m cfg = 1%Z ->
  In c (cands p) -> stv_init cfg p = inl t ->
  t <= tally c (ballots p) ->
  run_stv cfg p s = inl (out, s') ->
  flat (elected_upto out (length out - 1)) = [c].
Proof. exact (irv_majority cand ceqb ceqb_spec). Qed.

End C07.

Print Assumptions c07_solidb_spec.
Print Assumptions c07_coalition_ballots.
Print Assumptions c07_pc_init.
Print Assumptions c07_pc_step.
Print Assumptions c07_pc_exit.
Print Assumptions c07_droop_pc.
Print Assumptions c07_irv_majority.

(* ---------- non-vacuity ---------- *)
Open Scope positive_scope.

Definition bal7 (r : list positive) (w : Q) : ballot positive :=
  mkBallot (map (fun c => [c]) r) w [] None None.

(* 1>2 x5, 2>1 x4, 3 x7, 4>3 x6, 5>3 x3 ; five candidates, two seats ; N = 25, Droop quota
   floor(25/3)+1 = 9.  The coalition for A = {1,2} weighs 9 = one quota; neither member leads
   (tallies 5, 4, 7, 6, 3).  Count: 5 eliminated, 3 elected (10), 2 eliminated, 1 elected (9). *)
Definition ex7_p : profile positive :=
  mkProfile [bal7 [1; 2] 5%Q; bal7 [2; 1] 4%Q; bal7 [3] 7%Q; bal7 [4; 3] 6%Q; bal7 [5; 3] 3%Q]
            [1; 2; 3; 4; 5].
Definition ex7_cfg : stv_cfg := mkStv 2%Z QDroop true TFractional None.
Definition ex7_s : mstate positive := mkM [] [].
Definition ex7_A : cset positive := [1; 2].

Example ex7_valid : wf_stv_profile positive ex7_p.
Proof. apply (wf_stv_profile_b_ok positive Pos.eqb Pos.eqb_spec). vm_compute. reflexivity. Qed.

Example ex7_threshold : stv_init positive ex7_cfg ex7_p = inl 9%Q.
Proof. vm_compute. reflexivity. Qed.

Example ex7_coalition : NoDup ex7_A /\ incl ex7_A (cands ex7_p) /\
  (Qnat 1%nat * 9 <= coal_wt positive Pos.eqb ex7_A (ballots ex7_p))%Q /\
  (forall c, In c ex7_A ->
     (tally positive Pos.eqb c (ballots ex7_p) < tally positive Pos.eqb 3%positive (ballots ex7_p))%Q).
Proof.
  unfold ex7_A.
  split; [repeat constructor; cbn; intuition discriminate|].
  split; [intros c [<-|[<-|[]]]; cbn; tauto|].
  split; [vm_compute; discriminate|].
  intros c [<-|[<-|[]]]; vm_compute; reflexivity.
Qed.

Example ex7_run :
  match run_stv positive Pos.eqb ex7_cfg ex7_p ex7_s with
  | inl (sts, _) =>
      map (fun st => (elected st, eliminated st)) sts =
      [([[]], [[]]); ([[]], [[5]]); ([[3]], [[]]); ([[]], [[2]]); ([[1]], [[]])] /\
      elected_upto positive sts (length sts - 1) = [[3]; [1]] /\
      winners_in positive Pos.eqb ex7_A (flat positive (elected_upto positive sts (length sts - 1))) = 1%nat
  | inr _ => False
  end.
Proof. vm_compute. repeat split. Qed.

(* the theorem applies to it *)
Example ex7_theorem :
  match run_stv positive Pos.eqb ex7_cfg ex7_p ex7_s with
  | inl (sts, _) =>
      (1 <= winners_in positive Pos.eqb ex7_A (flat positive (elected_upto positive sts (length sts - 1))))%nat
  | inr _ => False
  end.
Proof.
  destruct (run_stv positive Pos.eqb ex7_cfg ex7_p ex7_s) as [[sts s']|e] eqn:E;
    [|vm_compute in E; discriminate].
  destruct ex7_coalition as (HA & Hincl & Hcoal & _).
  refine (c07_droop_pc positive Pos.eqb Pos.eqb_spec ex7_cfg ex7_p ex7_A 1%nat 9%Q ex7_s s' sts
            ex7_valid eq_refl _ _ HA Hincl ex7_threshold Hcoal E); cbn; discriminate.
Qed.

(* the same with the random transfer: 1>2>3 x5, 2>1>3 x4, 3>4 x7, 4>3 x6, 5>3 x3 ; quota 9.
   5 is eliminated, 3 is elected with 10 votes and one of its 3>4 ballots is drawn to move on,
   2 is eliminated, 1 is elected with exactly 9 (an empty sample is drawn) *)
Definition ex7r_p : profile positive :=
  mkProfile [bal7 [1; 2; 3] 5%Q; bal7 [2; 1; 3] 4%Q; bal7 [3; 4] 7%Q; bal7 [4; 3] 6%Q; bal7 [5; 3] 3%Q]
            [1; 2; 3; 4; 5].
Definition ex7r_cfg : stv_cfg := mkStv 2%Z QDroop true TRandom None.
Definition ex7r_s : mstate positive := mkM [DRanks [[[4]]]; DRanks []] [].

Example ex7r_hyps :
  wf_stv_profile positive ex7r_p /\ script_ok positive ex7r_s /\
  stv_init positive ex7r_cfg ex7r_p = inl 9%Q /\
  (Qnat 1%nat * 9 <= coal_wt positive Pos.eqb ex7_A (ballots ex7r_p))%Q.
Proof.
  split; [apply (wf_stv_profile_b_ok positive Pos.eqb Pos.eqb_spec); vm_compute; reflexivity|].
  split; [repeat constructor|]. split; [vm_compute; reflexivity|vm_compute; discriminate].
Qed.

Example ex7r_run :
  match run_stv positive Pos.eqb ex7r_cfg ex7r_p ex7r_s with
  | inl (sts, s') =>
      map (fun st => (elected st, eliminated st)) sts =
      [([[]], [[]]); ([[]], [[5]]); ([[3]], [[]]); ([[]], [[2]]); ([[1]], [[]])] /\
      scr s' = [] /\
      winners_in positive Pos.eqb ex7_A (flat positive (elected_upto positive sts (length sts - 1))) = 1%nat
  | inr _ => False
  end.
Proof. vm_compute. repeat split. Qed.

(* IRV: 1 x6, 2>1 x3, 3 x2 ; threshold floor(11/2)+1 = 6 ; candidate 1 has 6 first places and wins *)
Definition ex7_irv_p : profile positive :=
  mkProfile [bal7 [1] 6%Q; bal7 [2; 1] 3%Q; bal7 [3] 2%Q] [1; 2; 3].
Definition ex7_irv_cfg : stv_cfg := mkStv 1%Z QDroop true TFractional None.

Example ex7_irv :
  wf_stv_profile positive ex7_irv_p /\ stv_init positive ex7_irv_cfg ex7_irv_p = inl 6%Q /\
  (6 <= tally positive Pos.eqb 1%positive (ballots ex7_irv_p))%Q /\
  match run_stv positive Pos.eqb ex7_irv_cfg ex7_irv_p ex7_s with
  | inl (sts, _) => flat positive (elected_upto positive sts (length sts - 1)) = [1]
  | inr _ => False
  end.
Proof.
  split; [apply (wf_stv_profile_b_ok positive Pos.eqb Pos.eqb_spec); vm_compute; reflexivity|].
  split; [vm_compute; reflexivity|]. split; [vm_compute; discriminate|]. vm_compute. reflexivity.
Qed.
