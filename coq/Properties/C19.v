(* Properties/C19.v — the Lp distance between profiles is a true metric on normalised
   ranking-weight distributions; the ballot graph is complete and exact.  Statements only; proofs
   are in Proofs/C19_lp.v, C19_minkowski.v, C19_graph.v, C19_graph6.v.

   The model (Model/Metrics.v) works in exact rationals: [lp_sum p1 p2 n] is the n-th POWER of the
   L_n distance (sum of |a_i - b_i|^n), [linf] is the maximum.

   Spec vocabulary (Spec/MetricSpec.v):
     rwt r bs           weight carried in bs by ranking r (positions compared as sets; a ballot
                        without ranking counts as [[]])
     ndist p r          := rwt r (ballots p) / total_wt (ballots p)      share of ranking r
     distinct_keys ks   no two entries of ks are the same ranking (ranking_eqb)
     covers ks p        every ballot of p has its ranking listed in ks
     cast_in p r        r is the ranking of some ballot of p
     absdiff p1 p2 r    := Qabs (ndist p1 r - ndist p2 r)
     lp_pow_sum p1 p2 n ks := sum over r in ks of (absdiff p1 p2 r)^n
     is_max m l         m is an element of l (up to ==) and every element of l is <= m
     degenerate p       p has ballots but total weight 0
     rescaled c bs bs'  bs' is bs with every weight multiplied by c
     valid_node n k     k is a duplicate-free list over 1..n with 1 <= |k| <= n, |k| <> n-1
     adjacent_swap a b  b is a with two adjacent entries exchanged
     extends_last n a b b = a ++ [x],  or |a| = n-2, |b| = n, 2 <= n and a is a prefix of b
     has_edge g a b     (a,b) or (b,a) is in g_edges g
     pos_of c cs        1-based position of c in cs;  missing n nums  the numbers of 1..n not in nums
     spec_ballot_node cs b  positions of the ballot's candidates (+ the missing one if |.| = n-1)
     linear_ballot cs b non-empty untied ranking of distinct candidates of cs
     weight_at ws k     weight recorded for node k in the table ws
   (Spec/MetricSpecR.v):  rsum, pow_sum p v K := sum over k in K of (v k)^p  over the reals. *)
From VK Require Import Base Core Metrics EditSpec MetricSpec MetricSpecR.
From VK.Proofs Require Import C19_lp C19_minkowski C19_graph C19_graph6.
From Coq Require Import Permutation Qabs Reals Qreals.

Section C19.
Variable cand : Type.
Variable ceqb : cand -> cand -> bool.
Hypothesis ceqb_spec : forall a b, reflect (a = b) (ceqb a b).

Notation ranking := (ranking cand).
Notation ballot := (ballot cand).
Notation profile := (profile cand).
Notation ranking_eqb := (ranking_eqb cand ceqb).
Notation rk_or_empty := (rk_or_empty cand).
Notation total_wt := (total_wt cand).
Notation condense_bs := (condense_bs cand ceqb).
Notation wtof_rk := (wtof_rk cand ceqb).
Notation lp_sum := (lp_sum cand ceqb).
Notation linf := (linf cand ceqb).
Notation ndist := (ndist cand ceqb).
Notation distinct_keys := (distinct_keys cand ceqb).
Notation covers := (covers cand ceqb).
Notation cast_in := (cast_in cand ceqb).
Notation absdiff := (absdiff cand ceqb).
Notation lp_pow_sum := (lp_pow_sum cand ceqb).
Notation degenerate := (degenerate cand).
Notation rescaled := (rescaled cand).
Notation spec_ballot_node := (spec_ballot_node cand ceqb).
Notation linear_ballot := (linear_ballot cand).
Notation node_weights := (node_weights cand ceqb).

(* ================= Part 1: the Lp distance ================= *)

(* L1: a successful lp_sum has n >= 1, and is the sum of |share difference|^n over ANY
   duplicate-free list of rankings covering both profiles; such a list exists (every entry being a
   ranking cast in one of the profiles) *)
Theorem c19_lp_def : forall (p1 p2 : profile) (n : nat) (s : Q),
  lp_sum p1 p2 n = inl s ->
  (1 <= n)%nat /\
  (exists keys, distinct_keys keys /\ covers keys p1 /\ covers keys p2 /\
                (forall k, In k keys -> cast_in p1 k \/ cast_in p2 k)) /\
  (forall keys, distinct_keys keys -> covers keys p1 -> covers keys p2 ->
                s == lp_pow_sum p1 p2 n keys).
Proof. exact (lp_def cand ceqb ceqb_spec). Qed.
Print Assumptions c19_lp_def.

(* the sum does not depend on the covering list *)
Theorem c19_lp_keys_independent : forall (p1 p2 : profile) (n : nat) (ks ks' : list ranking),
  (1 <= n)%nat -> distinct_keys ks -> distinct_keys ks' ->
  covers ks p1 -> covers ks p2 -> covers ks' p1 -> covers ks' p2 ->
  lp_pow_sum p1 p2 n ks == lp_pow_sum p1 p2 n ks'.
Proof. exact (lp_pow_sum_indep cand ceqb ceqb_spec). Qed.
Print Assumptions c19_lp_keys_independent.

(* a ranking cast in neither profile contributes nothing *)
Theorem c19_outside_support_zero : forall (p1 p2 : profile) (r : ranking),
  (forall b, In b (ballots p1 ++ ballots p2) -> ranking_eqb r (rk_or_empty b) = false) ->
  absdiff p1 p2 r == 0.
Proof. exact (absdiff_outside cand ceqb). Qed.
Print Assumptions c19_outside_support_zero.

(* when every ballot has a ranking the share is wtof_rk / total *)
Theorem c19_ndist_wtof_rk : forall (p : profile) (r : ranking),
  Forall (fun b => rk b <> []) (ballots p) ->
  ndist p r == wtof_rk r (ballots p) / total_wt (ballots p).
Proof. exact (ndist_wtof_rk cand ceqb). Qed.
Print Assumptions c19_ndist_wtof_rk.

(* L1 for 'inf': the result is the largest |share difference| over any covering list *)
Theorem c19_linf_def : forall (p1 p2 : profile) (m : Q),
  linf p1 p2 = inl m ->
  (exists keys, distinct_keys keys /\ covers keys p1 /\ covers keys p2 /\
                (forall k, In k keys -> cast_in p1 k \/ cast_in p2 k)) /\
  (forall keys, covers keys p1 -> covers keys p2 -> is_max m (map (absdiff p1 p2) keys)).
Proof. exact (linf_def cand ceqb ceqb_spec). Qed.
Print Assumptions c19_linf_def.

(* errors: division by zero exactly for a profile with ballots but zero total weight, or p = 0 *)
Theorem c19_lp_error : forall (p1 p2 : profile) (n : nat) (e : exn),
  lp_sum p1 p2 n = inr e <-> e = EZeroDiv /\ (degenerate p1 \/ degenerate p2 \/ n = 0%nat).
Proof. exact (lp_sum_err cand ceqb). Qed.
Print Assumptions c19_lp_error.

Theorem c19_linf_error : forall (p1 p2 : profile) (e : exn),
  linf p1 p2 = inr e <->
  (e = EZeroDiv /\ (degenerate p1 \/ degenerate p2)) \/
  (e = EValue /\ ballots p1 = [] /\ ballots p2 = []).
Proof. exact (linf_err cand ceqb ceqb_spec). Qed.
Print Assumptions c19_linf_error.

(* L2: symmetry, of values and of errors *)
Theorem c19_symmetric : forall (p1 p2 : profile) (n : nat),
  match lp_sum p1 p2 n, lp_sum p2 p1 n with
  | inl a, inl b => a == b
  | inr e, inr e' => e = e'
  | _, _ => False
  end.
Proof. exact (lp_symmetric cand ceqb ceqb_spec). Qed.
Print Assumptions c19_symmetric.

Theorem c19_symmetric_inf : forall (p1 p2 : profile),
  match linf p1 p2, linf p2 p1 with
  | inl a, inl b => a == b
  | inr e, inr e' => e = e'
  | _, _ => False
  end.
Proof. exact (linf_symmetric cand ceqb ceqb_spec). Qed.
Print Assumptions c19_symmetric_inf.

(* L3: zero exactly for equal distributions *)
Theorem c19_zero_iff_same_distribution : forall (p1 p2 : profile) (n : nat),
  0 < total_wt (ballots p1) -> 0 < total_wt (ballots p2) -> (1 <= n)%nat ->
  exists s, lp_sum p1 p2 n = inl s /\ (s == 0 <-> forall r, ndist p1 r == ndist p2 r).
Proof. exact (lp_zero_iff_same_distribution cand ceqb ceqb_spec). Qed.
Print Assumptions c19_zero_iff_same_distribution.

Theorem c19_zero_iff_same_distribution_inf : forall (p1 p2 : profile),
  0 < total_wt (ballots p1) -> 0 < total_wt (ballots p2) ->
  exists m, linf p1 p2 = inl m /\ (m == 0 <-> forall r, ndist p1 r == ndist p2 r).
Proof. exact (linf_zero_iff_same_distribution cand ceqb ceqb_spec). Qed.
Print Assumptions c19_zero_iff_same_distribution_inf.

(* L4: profiles with the same distribution are at the same distance from every profile ... *)
Theorem c19_same_distribution_same_distance : forall (p p' q : profile) (n : nat),
  (forall r, ndist p' r == ndist p r) ->
  0 < total_wt (ballots p) -> 0 < total_wt (ballots p') -> 0 < total_wt (ballots q) ->
  (1 <= n)%nat ->
  (exists s s', lp_sum p q n = inl s /\ lp_sum p' q n = inl s' /\ s' == s) /\
  (exists m m', linf p q = inl m /\ linf p' q = inl m' /\ m' == m).
Proof. exact (same_distribution_same_distance cand ceqb ceqb_spec). Qed.
Print Assumptions c19_same_distribution_same_distance.

(* ... and reordering the ballots, condensing them, or multiplying every weight by the same
   positive constant leaves the distribution, hence every distance, unchanged *)
Theorem c19_invariant_reorder_condense_rescale : forall (p p' q : profile) (n : nat),
  (Permutation (ballots p) (ballots p') \/
   ballots p' = condense_bs (ballots p) \/
   exists c, 0 < c /\ rescaled c (ballots p) (ballots p')) ->
  0 < total_wt (ballots p) -> 0 < total_wt (ballots q) -> (1 <= n)%nat ->
  (forall r, ndist p' r == ndist p r) /\
  0 < total_wt (ballots p') /\
  (exists s s', lp_sum p q n = inl s /\ lp_sum p' q n = inl s' /\ s' == s) /\
  (exists m m', linf p q = inl m /\ linf p' q = inl m' /\ m' == m).
Proof. exact (invariant_reorder_condense_rescale cand ceqb ceqb_spec). Qed.
Print Assumptions c19_invariant_reorder_condense_rescale.

(* L5: triangle inequality for p = 1 and p = inf *)
Theorem c19_triangle_p1 : forall (p1 p2 p3 : profile),
  0 < total_wt (ballots p1) -> 0 < total_wt (ballots p2) -> 0 < total_wt (ballots p3) ->
  exists s13 s12 s23,
    lp_sum p1 p3 1 = inl s13 /\ lp_sum p1 p2 1 = inl s12 /\ lp_sum p2 p3 1 = inl s23 /\
    s13 <= s12 + s23.
Proof. exact (triangle_p1 cand ceqb ceqb_spec). Qed.
Print Assumptions c19_triangle_p1.

Theorem c19_triangle_inf : forall (p1 p2 p3 : profile),
  0 < total_wt (ballots p1) -> 0 < total_wt (ballots p2) -> 0 < total_wt (ballots p3) ->
  exists m13 m12 m23,
    linf p1 p3 = inl m13 /\ linf p1 p2 = inl m12 /\ linf p2 p3 = inl m23 /\
    m13 <= m12 + m23.
Proof. exact (triangle_inf cand ceqb ceqb_spec). Qed.
Print Assumptions c19_triangle_inf.

(* L6, p = 2, over Q:  sqrt S13 <= sqrt S12 + sqrt S23  squared twice (no root needed);
   when S13 < S12 + S23 the inequality between the roots is immediate *)
Theorem c19_triangle_p2 : forall (p1 p2 p3 : profile),
  0 < total_wt (ballots p1) -> 0 < total_wt (ballots p2) -> 0 < total_wt (ballots p3) ->
  exists s13 s12 s23,
    lp_sum p1 p3 2 = inl s13 /\ lp_sum p1 p2 2 = inl s12 /\ lp_sum p2 p3 2 = inl s23 /\
    (s12 + s23 <= s13 -> (s13 - s12 - s23) * (s13 - s12 - s23) <= 4 * s12 * s23).
Proof. exact (triangle_p2 cand ceqb ceqb_spec). Qed.
Print Assumptions c19_triangle_p2.

(* Cauchy-Schwarz over Q, the inequality behind it *)
Theorem c19_cauchy_schwarz : forall (A : Type) (f g : A -> Q) (K : list A),
  qsum (map (fun k => f k * g k) K) * qsum (map (fun k => f k * g k) K) <=
  qsum (map (fun k => f k * f k) K) * qsum (map (fun k => g k * g k) K).
Proof. exact cauchy_schwarz. Qed.
Print Assumptions c19_cauchy_schwarz.

(* L6, every natural p >= 1, over the reals: if a^n = S_n(p1,p2) and b^n = S_n(p2,p3) with
   a, b >= 0 (a, b are the two distances) then S_n(p1,p3) <= (a + b)^n *)
Theorem c19_triangle_p : forall (p1 p2 p3 : profile) (n : nat),
  0 < total_wt (ballots p1) -> 0 < total_wt (ballots p2) -> 0 < total_wt (ballots p3) ->
  (1 <= n)%nat ->
  exists s13 s12 s23,
    lp_sum p1 p3 n = inl s13 /\ lp_sum p1 p2 n = inl s12 /\ lp_sum p2 p3 n = inl s23 /\
    forall a b : R, (0 <= a)%R -> (0 <= b)%R ->
      (a ^ n)%R = Q2R s12 -> (b ^ n)%R = Q2R s23 -> (Q2R s13 <= (a + b) ^ n)%R.
Proof. exact (triangle_p cand ceqb ceqb_spec). Qed.
Print Assumptions c19_triangle_p.

End C19.

(* Minkowski's inequality in root-free form, for vectors indexed by a list K *)
Theorem c19_minkowski : forall (A : Type) (K : list A) (p : nat), (1 <= p)%nat ->
  forall (x y : A -> R) (a b : R),
  (forall k, In k K -> (0 <= x k)%R) -> (forall k, In k K -> (0 <= y k)%R) ->
  (0 <= a)%R -> (0 <= b)%R ->
  (a ^ p)%R = pow_sum p x K -> (b ^ p)%R = pow_sum p y K ->
  (pow_sum p (fun k => x k + y k) K <= (a + b) ^ p)%R.
Proof. exact minkowski. Qed.
Print Assumptions c19_minkowski.

(* the same for two lists of equal length *)
Theorem c19_minkowski_lists : forall (p : nat) (xs ys : list R) (a b : R), (1 <= p)%nat ->
  length xs = length ys ->
  Forall (fun x => (0 <= x)%R) xs -> Forall (fun y => (0 <= y)%R) ys -> (0 <= a)%R -> (0 <= b)%R ->
  (a ^ p)%R = rsum (map (fun x => (x ^ p)%R) xs) -> (b ^ p)%R = rsum (map (fun y => (y ^ p)%R) ys) ->
  (rsum (map (fun q => ((fst q + snd q) ^ p)%R) (combine xs ys)) <= (a + b) ^ p)%R.
Proof. exact minkowski_lists. Qed.
Print Assumptions c19_minkowski_lists.

(* convexity of t |-> t^p on t >= 0 *)
Theorem c19_pow_convex : forall (p : nat) (l u v : R),
  (0 <= u)%R -> (0 <= v)%R -> (0 <= l <= 1)%R ->
  ((l * u + (1 - l) * v) ^ p <= l * u ^ p + (1 - l) * v ^ p)%R.
Proof. exact pow_convex. Qed.
Print Assumptions c19_pow_convex.

(* ================= Part 2: the ballot graph ================= *)

Local Open Scope nat_scope.

(* for EVERY n and k: the arrangements of k elements of a pool, and the specification's node
   list, are what their names say *)
Theorem c19_arrangements_all_n : forall (m : nat) (pool : list nat) (k : node),
  In k (arrangements m pool) <-> length k = m /\ NoDup k /\ incl k pool.
Proof. exact arrangements_In. Qed.
Print Assumptions c19_arrangements_all_n.

Theorem c19_spec_nodes_all_n : forall (n : nat) (k : node),
  In k (spec_nodes n) <->
  NoDup k /\ (forall x, In x k -> 1 <= x <= n) /\ 1 <= length k <= n /\ length k <> n - 1.
Proof. exact spec_nodes_In. Qed.
Print Assumptions c19_spec_nodes_all_n.

(* G1: for n = 2..6 the graph has exactly one node for every ranking of length 1..n except n-1 *)
Theorem c19_graph_nodes_n : forall n, 2 <= n <= 6 ->
  NoDup (g_nodes (build_graph n)) /\
  forall k, In k (g_nodes (build_graph n)) <->
    NoDup k /\ (forall x, In x k -> 1 <= x <= n) /\ 1 <= length k <= n /\ length k <> n - 1.
Proof. exact graph_nodes_n. Qed.
Print Assumptions c19_graph_nodes_n.

(* for EVERY n: the boolean adjacency tests mean what they say *)
Theorem c19_is_swap_all_n : forall a b : node,
  is_swap a b = true <-> exists l x y r, a = l ++ x :: y :: r /\ b = l ++ y :: x :: r.
Proof. exact is_swap_spec. Qed.
Print Assumptions c19_is_swap_all_n.

Theorem c19_is_extension_all_n : forall (n : nat) (a b : node),
  is_extension n a b = true <->
  (exists x, b = a ++ [x]) \/
  (length a = n - 2 /\ length b = n /\ 2 <= n /\ exists t, b = a ++ t).
Proof. exact is_extension_spec. Qed.
Print Assumptions c19_is_extension_all_n.

(* G2: for n = 2..6 two nodes are joined exactly when they differ by an adjacent swap or by
   adding/removing the last ranked candidate (n-2 and n adjacent); edges join nodes of the graph *)
Theorem c19_graph_edges_n : forall n, 2 <= n <= 6 ->
  (forall a b, In a (g_nodes (build_graph n)) -> In b (g_nodes (build_graph n)) ->
     (has_edge (build_graph n) a b <->
      adjacent_swap a b \/ extends_last n a b \/ extends_last n b a)) /\
  (forall a b, In (a, b) (g_edges (build_graph n)) ->
     In a (g_nodes (build_graph n)) /\ In b (g_nodes (build_graph n))).
Proof. exact graph_edges_n. Qed.
Print Assumptions c19_graph_edges_n.

(* the same as a boolean statement about the model's [spec_adjacent] *)
Theorem c19_graph_edges_bool_n : forall n, 2 <= n <= 6 ->
  forall a b, In a (g_nodes (build_graph n)) -> In b (g_nodes (build_graph n)) ->
    (has_edge (build_graph n) a b <-> spec_adjacent n a b = true).
Proof. exact graph_edges_bool_n. Qed.
Print Assumptions c19_graph_edges_bool_n.

(* G3: loading a profile of untied ballots on 2..6 candidates: the node keys are distinct, the
   weights add up to the profile's total, and each node holds the weight of the ballots filed there *)
Theorem c19_load_total : forall (cand : Type) (ceqb : cand -> cand -> bool),
  (forall a b, reflect (a = b) (ceqb a b)) ->
  forall p : profile cand,
  2 <= length (cands p) <= 6 ->
  NoDup (cands p) -> Forall (linear_ballot cand (cands p)) (ballots p) ->
  exists ws, node_weights cand ceqb p true = inl ws /\
    NoDup (map fst ws) /\
    (qsum (map snd ws) == total_wt cand (ballots p))%Q /\
    (forall k, (weight_at ws k ==
                qsum (map wt (filter (fun b => node_eqb (spec_ballot_node cand ceqb (cands p) b) k)
                                     (ballots p))))%Q) /\
    (forall k, In k (map fst ws) ->
       exists b, In b (ballots p) /\ k = spec_ballot_node cand ceqb (cands p) b).
Proof. exact load_total. Qed.
Print Assumptions c19_load_total.

(* the same for every n for which the graph is known to contain every valid node *)
Theorem c19_load_total_any_n : forall (cand : Type) (ceqb : cand -> cand -> bool),
  (forall a b, reflect (a = b) (ceqb a b)) ->
  forall p : profile cand,
  (forall k, valid_node (length (cands p)) k -> In k (g_nodes (build_graph (length (cands p))))) ->
  NoDup (cands p) -> Forall (linear_ballot cand (cands p)) (ballots p) ->
  exists ws, node_weights cand ceqb p true = inl ws /\
    NoDup (map fst ws) /\
    (qsum (map snd ws) == total_wt cand (ballots p))%Q /\
    (forall k, (weight_at ws k ==
                qsum (map wt (filter (fun b => node_eqb (spec_ballot_node cand ceqb (cands p) b) k)
                                     (ballots p))))%Q) /\
    (forall k, In k (map fst ws) ->
       exists b, In b (ballots p) /\ k = spec_ballot_node cand ceqb (cands p) b).
Proof. exact load_total_gen. Qed.
Print Assumptions c19_load_total_any_n.

(* the node of a ballot: the positions of its candidates in the candidate list, and, when exactly
   one candidate is unranked, that candidate's position appended *)
Theorem c19_ballot_node_positions : forall (cand : Type) (ceqb : cand -> cand -> bool),
  (forall a b, reflect (a = b) (ceqb a b)) ->
  forall (cs : list cand) (b : ballot cand), NoDup cs -> linear_ballot cand cs b ->
  exists nums,
    Forall2 (fun c i => 1 <= i /\ nth_error cs (i - 1) = Some c) (flat cand (rk b)) nums /\
    ((length nums <> length cs - 1 /\ spec_ballot_node cand ceqb cs b = nums) \/
     (length nums = length cs - 1 /\
      exists m, 1 <= m <= length cs /\ ~ In m nums /\ spec_ballot_node cand ceqb cs b = nums ++ [m])).
Proof. exact spec_ballot_node_positions. Qed.
Print Assumptions c19_ballot_node_positions.

(* ================= Non-vacuity ================= *)

Section Examples.
Local Open Scope positive_scope.
Let pb (r : list (list positive)) (w : Q) : Core.ballot positive := plain_ballot positive r w.
Let P1 : Core.profile positive := mkProfile [pb [[1];[2]] 3; pb [[2];[1]] 1] [1;2].
Let P2 : Core.profile positive := mkProfile [pb [[1];[2]] 1; pb [[2]] 1] [1;2].
Let P3 : Core.profile positive := mkProfile [pb [[2]] 2; pb [] 2] [1;2].
(* all weight on one ranking / split / all on another: a degenerate (collinear) triangle *)
Let A1 : Core.profile positive := mkProfile [pb [[1]] 1] [1;2].
Let A2 : Core.profile positive := mkProfile [pb [[1]] 1; pb [[2]] 1] [1;2].
Let A3 : Core.profile positive := mkProfile [pb [[2]] 5] [1;2].
Let r12 : Core.ranking positive := [[1];[2]].
(* three candidates; the two-candidate ballot is completed, the bullet vote stays a bullet vote *)
Let G : Core.profile positive :=
  mkProfile [pb [[5];[7]] 2; pb [[9]] 1; pb [[5];[7];[9]] (1 # 2); pb [[9];[5]] 3] [5;7;9].


Example c19_ex_totals :
  (0 < Core.total_wt positive (ballots P1))%Q /\ (0 < Core.total_wt positive (ballots P2))%Q /\
  (0 < Core.total_wt positive (ballots P3))%Q.
Proof. repeat split; vm_compute; reflexivity. Qed.

Example c19_ex_lp_values :
  (exists s, Metrics.lp_sum positive Pos.eqb P1 P2 1 = inl s /\ (s == 1)%Q) /\
  (exists s, Metrics.lp_sum positive Pos.eqb P1 P2 2 = inl s /\ (s == 3 # 8)%Q) /\
  (exists s, Metrics.lp_sum positive Pos.eqb P2 P3 3 = inl s /\ (s == 1 # 4)%Q) /\
  (exists m, Metrics.linf positive Pos.eqb P1 P3 = inl m /\ (m == 3 # 4)%Q) /\
  (MetricSpec.ndist positive Pos.eqb P1 r12 == 3 # 4)%Q /\
  (MetricSpec.ndist positive Pos.eqb P3 [[]] == 1 # 2)%Q.
Proof.
  repeat split; try (eexists; split; [vm_compute; reflexivity|vm_compute; reflexivity]);
    vm_compute; reflexivity.
Qed.

Example c19_ex_errors :
  Metrics.lp_sum positive Pos.eqb P1 (mkProfile [pb [[1]] 1; pb [[2]] (-1)] [1;2]) 1 = inr EZeroDiv /\
  Metrics.lp_sum positive Pos.eqb P1 P2 0 = inr EZeroDiv /\
  Metrics.linf positive Pos.eqb (mkProfile [] [1]) (mkProfile [] [1]) = inr EValue.
Proof. repeat split; vm_compute; reflexivity. Qed.

Example c19_ex_invariance_hyps :
  Permutation (ballots P1) [pb [[2];[1]] 1; pb [[1];[2]] 3] /\
  Core.condense_bs positive Pos.eqb [pb [[1];[2]] 1; pb [[2;1]] 1; pb [[1];[2]] 2; pb [[1;2]] 1]
    = [pb [[1];[2]] 3; pb [[2;1]] 2] /\
  MetricSpec.rescaled positive (5 # 2) (ballots P1) [pb [[1];[2]] (15 # 2); pb [[2];[1]] (5 # 2)].
Proof.
  split; [apply perm_swap|]. split; [vm_compute; reflexivity|].
  repeat constructor; vm_compute; reflexivity.
Qed.

(* equal distributions at distance 0; the p = 2 triangle inequality met with equality *)
Example c19_ex_zero_and_tight :
  (exists s, Metrics.lp_sum positive Pos.eqb P1 (mkProfile [pb [[2];[1]] 2; pb [[1];[2]] 6] [1;2]) 2
             = inl s /\ (s == 0)%Q) /\
  (exists s13 s12 s23,
     Metrics.lp_sum positive Pos.eqb A1 A3 2 = inl s13 /\ Metrics.lp_sum positive Pos.eqb A1 A2 2 = inl s12 /\
     Metrics.lp_sum positive Pos.eqb A2 A3 2 = inl s23 /\
     (s12 + s23 <= s13)%Q /\ ((s13 - s12 - s23) * (s13 - s12 - s23) == 4 * s12 * s23)%Q).
Proof.
  split.
  - eexists. split; vm_compute; reflexivity.
  - do 3 eexists. repeat split; try (vm_compute; reflexivity). vm_compute. discriminate.
Qed.

Local Open Scope nat_scope.

Example c19_ex_graph_3 :
  g_nodes (build_graph 3) =
    [[1]; [1;2;3]; [1;3;2]; [2]; [2;3;1]; [2;1;3]; [3]; [3;1;2]; [3;2;1]] /\
  length (g_edges (build_graph 3)) = 12 /\
  (length (g_nodes (build_graph 4)), length (g_edges (build_graph 4))) = (40, 78) /\
  (length (g_nodes (build_graph 5)), length (g_edges (build_graph 5))) = (205, 510) /\
  spec_adjacent 5 [2;4;1] [2;4;1;3;5] = true /\ spec_adjacent 5 [2;4;1] [2;1;4] = true /\
  spec_adjacent 5 [2;4] [2;4;1] = true /\ spec_adjacent 5 [2;4;1] [2;4;1;3] = true /\
  spec_adjacent 5 [2;4;1] [1;4;2] = false.
Proof. repeat split; vm_compute; reflexivity. Qed.

Example c19_ex_load_hyps :
  2 <= length (cands G) <= 6 /\ NoDup (cands G) /\
  Forall (MetricSpec.linear_ballot positive (cands G)) (ballots G).
Proof.
  split; [cbn; split; repeat constructor|]. split.
  - repeat (constructor; [cbn; intuition discriminate|]). constructor.
  - repeat (apply Forall_cons || apply Forall_nil); unfold MetricSpec.linear_ballot; cbn;
      (split; [discriminate|]); (split; [repeat constructor|]);
      (split; [repeat (constructor; [cbn; intuition discriminate|]); constructor
              |intros x Hx; cbn in Hx |- *; intuition]).
Qed.

Example c19_ex_load :
  Metrics.node_weights positive Pos.eqb G true
    = inl [([1;2;3], (5 # 2)%Q); ([3], 1%Q); ([3;1;2], 3%Q)] /\
  (Core.total_wt positive (ballots G) == 13 # 2)%Q.
Proof. split; vm_compute; reflexivity. Qed.

End Examples.
