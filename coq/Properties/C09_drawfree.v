(* Properties/C09_drawfree.v — property C09 with the premise the property text actually uses:
   "a finished election whose recorded rounds involved NO RANDOM CHOICE".  The earlier statement
   files (C09.v, C09_replay.v, C09_status.v) assume "no tiebreak recorded"; but a recorded tiebreak
   that was resolved without any draw (a borda / first_place tiebreak whose scores separate the
   group, an STV elimination tie decided by the initial first-place tallies) does not make the
   replay random.  Here the premise is DRAW-FREE: the run logged no call to the generator.

   A. get_profile content — (i) exactly the remaining candidates, (ii) re-scoring reproduces the
      recorded tallies, (iii) the answer is the same from every state of the random source, which is
      left untouched — for STV (any transfer rule), IRV, SequentialRCV, CondoBorda and the one-shot
      rules, plus the equivalence of the formulations of the premise.
   B. IndexError IFF out of range for get_profile and get_step on such elections; in range nothing
      is raised.  Without the premise this fails (Alaska witness, c09_index_error_iff_refuted_with_draws).
   C. one-shot rules for EVERY m (m = number of candidates: the profile of round 1 is empty) and
      every valid index; round 0 of every rule, the dictator rules in particular.
   D. sequences of queries (get_profile / get_step / get_elected / get_eliminated / get_remaining /
      get_ranking / get_status_df): each answer is a function of the query, the election (rule
      parameters, initial profile, records) and the script prefix the query consumes; the five
      cumulative queries never touch the random source; on the elections of A/B every answer of any
      sequence equals the answer given in isolation from ANY state, and the source is untouched, so
      earlier queries change neither the records (a query returns no election: the model's election
      is the immutable triple [election]) nor later answers.

   Vocabulary: Spec/DrawFreeSpec.v ([draw_free], [wdraw_free], [draw_free_upto], [replay_safe],
   [election], [query], [answer], [ask], [ask_all], [alone], [pure_answer], [total_replay]),
   Spec/ReplaySpec.v ([stv_trace]), Spec/QuerySpec.v ([in_range], [round_of]), Spec/QuietSpec.v,
   Spec/TieSpec.v, Spec/STVSpec.v, Spec/PairwiseSpec.v ([untied_profile]).
   Proofs: Proofs/C09_drawfree.v, C09_drawfree_rules.v, C09_drawfree_seq.v. *)
From Coq Require Import List ZArith QArith Bool Permutation Lia.
From VK Require Import Base Core STV Pairwise Rules PV Election Election2.
From VK.Spec Require Import STVSpec QuerySpec TieSpec ScoreSpec PairwiseSpec ReplaySpec QuietSpec
  DrawFreeSpec.
From VK.Proofs Require Import C09_drawfree C09_drawfree_rules C09_drawfree_seq STV_final.
Import ListNotations.

Section C09_drawfree.
Variable cand : Type.
Variable ceqb : cand -> cand -> bool.
Hypothesis ceqb_spec : forall a b, reflect (a = b) (ceqb a b).

Notation cset := (cset cand).
Notation ranking := (ranking cand).
Notation profile := (profile cand).
Notation scores := (scores cand).
Notation estate := (estate cand).
Notation mstate := (mstate cand).
Notation flat := (flat cand).
Notation wf_stv0 := (wf_stv0 cand).
Notation stv_trace := (stv_trace cand ceqb).
Notation stv_init := (stv_init cand).
Notation run_stv := (run_stv cand ceqb).
Notation run_rule := (run_rule cand ceqb).
Notation score_fn := (score_fn cand ceqb).
Notation first_place_votes := (first_place_votes cand ceqb).
Notation borda_scores := (borda_scores cand ceqb).
Notation score_to_ranking := (score_to_ranking cand).
Notation remove_cand_prof := (remove_cand_prof cand ceqb).
Notation tiebreak_set := (tiebreak_set cand ceqb).
Notation memb := (memb cand ceqb).
Notation get_profile := (get_profile cand ceqb).
Notation get_step := (get_step cand ceqb).
Notation no_tiebreak := (no_tiebreak cand).
Notation quiet_round := (quiet_round cand).
Notation untied_profile := (untied_profile cand).
Notation draw_free := (draw_free cand ceqb).
Notation wdraw_free := (wdraw_free cand ceqb).
Notation draw_free_upto := (draw_free_upto cand).
Notation replay_safe := (replay_safe cand ceqb).
Notation election := (election cand).
Notation answer := (answer cand).
Notation ask := (ask cand ceqb).
Notation ask_all := (ask_all cand ceqb).
Notation alone := (alone cand ceqb).
Notation pure_answer := (pure_answer cand ceqb).
Notation total_replay := (total_replay cand ceqb).

(* ====================== A0: the premise, and its formulations ====================== *)

(* every rule, every successful run: "no call logged", "script untouched", "state of the random
   source untouched", "the run succeeds with these records from an EMPTY script" and "the run
   gives these records from every state, untouched" are one and the same condition *)
Theorem c09_draw_free_forms : forall r (p : profile) (s s' : mstate) sts,
  run_rule r p s = inl (sts, s') ->
  (lg s' = lg s <-> draw_free r p sts) /\
  (scr s' = scr s <-> draw_free r p sts) /\
  (s' = s <-> draw_free r p sts) /\
  (draw_free r p sts <-> forall s2 : mstate, run_rule r p s2 = inl (sts, s2)).
Proof. exact (run_draw_free_forms cand ceqb). Qed.

(* round-local premise on an STV trace: no call logged in rounds 1..r  <->  after every round
   j <= r the random source is in its initial state *)
Theorem c09_draw_free_upto_const : forall cfg t (p0 : profile) sts ps ss,
  stv_trace cfg t p0 sts ps ss ->
  forall r, draw_free_upto ss r <->
    (forall j s0 sj, (j <= r)%nat -> nth_error ss 0 = Some s0 -> nth_error ss j = Some sj -> sj = s0).
Proof. exact (trace_drawfree_const cand ceqb). Qed.

(* ... <-> the script was not consumed in rounds 1..r *)
Theorem c09_draw_free_upto_script : forall cfg t (p0 : profile) sts ps ss,
  stv_trace cfg t p0 sts ps ss ->
  forall r, draw_free_upto ss r <->
    (forall j sa sb, (j < r)%nat -> nth_error ss j = Some sa -> nth_error ss (S j) = Some sb ->
                     scr sb = scr sa).
Proof. exact (trace_drawfree_scr cand ceqb). Qed.

(* a run that logged no call at all satisfies the round-local premise for every round *)
Theorem c09_whole_run_draw_free_upto : forall cfg t (p0 : profile) sts ps ss (s : mstate),
  stv_trace cfg t p0 sts ps ss -> nth_error ss 0 = Some s -> lg (last ss s) = lg s ->
  forall r, draw_free_upto ss r.
Proof. exact (trace_whole_drawfree cand ceqb). Qed.

(* the premise is WEAKER than the earlier ones: rounds 0..r quiet (no tiebreak recorded; with the
   random transfer, nobody elected) => draw-free up to r; and without the random transfer
   "no tiebreak" => quiet *)
Theorem c09_quiet_rounds_draw_free : forall cfg t (p0 : profile) sts ps ss,
  stv_trace cfg t p0 sts ps ss ->
  forall r, Forall (quiet_round cfg) (firstn (S r) sts) -> draw_free_upto ss r.
Proof. exact (quiet_drawfree cand ceqb). Qed.

Theorem c09_no_tiebreak_quiet : forall cfg (l : list estate), s_transfer cfg <> TRandom ->
  Forall no_tiebreak l -> Forall (quiet_round cfg) l.
Proof. exact (no_tiebreak_quiet cand). Qed.

(* why a RECORDED tiebreak may cost no draw: a first_place / borda tiebreak whose scores separate
   the tied candidates (no two of them share a score) returns the score ranking and does not
   consult the random source *)
Theorem c09_scored_tiebreak_no_draw :
  forall (g : cset) (pr : profile) tb (d : scores) (s s' : mstate) t,
  (tb = TBFirstPlace /\ first_place_votes pr = inl d) \/
  (tb = TBBorda /\ borda_scores pr = inl d) ->
  (forall grp, In grp (score_to_ranking (filter (fun q => memb (fst q) g) d) true) ->
               (length grp <= 1)%nat) ->
  tiebreak_set g (Some pr) tb s = inl (t, s') ->
  s' = s /\ t = score_to_ranking (filter (fun q => memb (fst q) g) d) true.
Proof. exact (scored_tiebreak_no_draw cand ceqb). Qed.

(* ====================== A1: STV, IRV, SequentialRCV ====================== *)

(* trace level, round-local premise: for every valid index i addressing round r, if no call was
   logged in rounds 1..r (tiebreaks may be recorded; later rounds may draw), get_profile(i)
   returns from EVERY state s2, untouched, the profile the run had after round r; its candidates
   are exactly those remaining in the record of round r, its first-place tallies are the
   recorded scores, whose sorting is the recorded ranking *)
Theorem c09_stv_replay_draw_free_upto : forall cfg t (p : profile) sts ps ss,
  stv_init cfg p = inl t -> stv_trace cfg t p sts ps ss -> nth_error ps 0 = Some p ->
  forall i, in_range (length sts) i -> draw_free_upto ss (round_of (length sts) i) ->
  exists pr st,
    nth_error ps (round_of (length sts) i) = Some pr /\
    nth_error sts (round_of (length sts) i) = Some st /\
    (forall s2 : mstate, get_profile (RSTV cfg) p sts i s2 = inl (pr, s2)) /\
    Permutation (cands pr) (flat (remaining st)) /\
    first_place_votes pr = inl (escores st) /\
    score_to_ranking (escores st) true = remaining st.
Proof. exact (stv_replay_drawfree cand ceqb). Qed.

(* run level, round-local premise.  Every successful STV run (any configuration, the random
   transfer included, any profile) has its trace — profiles ps and random-source states ss, from
   the input profile and the initial state s to the final state s' — and for every valid index i
   such that ss shows no logged call up to the round addressed: get_profile and get_step are
   answered from every state, untouched, by the trace profile (and the record) of that round, with
   the three content claims; for a non-random transfer on a valid-or-empty input the profile is
   valid-or-empty over candidates of the input, and empty after a default election *)
Theorem c09_stv_get_profile_draw_free_upto : forall cfg (p : profile) (s s' : mstate) sts,
  run_stv cfg p s = inl (sts, s') ->
  exists t ps ss,
    stv_init cfg p = inl t /\ stv_trace cfg t p sts ps ss /\
    nth_error ps 0 = Some p /\ nth_error ss 0 = Some s /\ last ss s = s' /\
    forall i, in_range (length sts) i -> draw_free_upto ss (round_of (length sts) i) ->
    exists pr st,
      nth_error ps (round_of (length sts) i) = Some pr /\
      nth_error sts (round_of (length sts) i) = Some st /\
      (forall s2 : mstate, get_profile (RSTV cfg) p sts i s2 = inl (pr, s2)) /\
      (forall s2 : mstate, get_step (RSTV cfg) p sts i s2 = inl ((pr, st), s2)) /\
      Permutation (cands pr) (flat (remaining st)) /\
      first_place_votes pr = inl (escores st) /\
      score_to_ranking (escores st) true = remaining st /\
      (s_transfer cfg <> TRandom -> wf_stv0 p ->
       wf_stv0 pr /\ incl (cands pr) (cands p) /\
       (flat (remaining st) = [] -> cands pr = [] /\ ballots pr = [])).
Proof. exact (stv_get_profile_drawfree_upto cand ceqb ceqb_spec). Qed.

(* run level, whole-run premise "no call logged": the source is untouched and EVERY valid index
   is answered *)
Theorem c09_stv_get_profile_no_call : forall cfg (p : profile) (s s' : mstate) sts,
  run_stv cfg p s = inl (sts, s') -> lg s' = lg s ->
  s' = s /\
  forall i, in_range (length sts) i ->
  exists pr st,
    nth_error sts (round_of (length sts) i) = Some st /\
    (forall s2 : mstate, get_profile (RSTV cfg) p sts i s2 = inl (pr, s2)) /\
    (forall s2 : mstate, get_step (RSTV cfg) p sts i s2 = inl ((pr, st), s2)) /\
    Permutation (cands pr) (flat (remaining st)) /\
    first_place_votes pr = inl (escores st) /\
    score_to_ranking (escores st) true = remaining st /\
    (s_transfer cfg <> TRandom -> wf_stv0 p ->
     wf_stv0 pr /\ incl (cands pr) (cands p) /\
     (flat (remaining st) = [] -> cands pr = [] /\ ballots pr = [])).
Proof. exact (stv_get_profile_drawfree cand ceqb ceqb_spec). Qed.

(* the same from "the run succeeds from an empty script" *)
Theorem c09_stv_get_profile_draw_free : forall cfg (p : profile) sts,
  draw_free (RSTV cfg) p sts ->
  forall i, in_range (length sts) i ->
  exists pr st,
    nth_error sts (round_of (length sts) i) = Some st /\
    (forall s2 : mstate, get_profile (RSTV cfg) p sts i s2 = inl (pr, s2)) /\
    (forall s2 : mstate, get_step (RSTV cfg) p sts i s2 = inl ((pr, st), s2)) /\
    Permutation (cands pr) (flat (remaining st)) /\
    first_place_votes pr = inl (escores st) /\
    score_to_ranking (escores st) true = remaining st /\
    (s_transfer cfg <> TRandom -> wf_stv0 p ->
     wf_stv0 pr /\ incl (cands pr) (cands p) /\
     (flat (remaining st) = [] -> cands pr = [] /\ ballots pr = [])).
Proof. exact (stv_get_profile_draw_free cand ceqb ceqb_spec). Qed.

(* any election class that forwards to STV *)
Theorem c09_wrapper_get_profile_draw_free : forall w cfg (p : profile) sts,
  expand w = Some (RSTV cfg) -> wdraw_free w p sts ->
  forall i, in_range (length sts) i ->
  exists pr st,
    nth_error sts (round_of (length sts) i) = Some st /\
    (forall s2 : mstate, get_profile (RSTV cfg) p sts i s2 = inl (pr, s2)) /\
    (forall s2 : mstate, get_step (RSTV cfg) p sts i s2 = inl ((pr, st), s2)) /\
    Permutation (cands pr) (flat (remaining st)) /\
    first_place_votes pr = inl (escores st) /\
    score_to_ranking (escores st) true = remaining st /\
    (s_transfer cfg <> TRandom -> wf_stv0 p ->
     wf_stv0 pr /\ incl (cands pr) (cands p) /\
     (flat (remaining st) = [] -> cands pr = [] /\ ballots pr = [])).
Proof. exact (wrapper_get_profile_draw_free cand ceqb ceqb_spec). Qed.

(* IRV *)
Theorem c09_irv_get_profile_draw_free : forall q tb (p : profile) sts,
  wdraw_free (WIRV q tb) p sts ->
  forall i, in_range (length sts) i ->
  exists pr st,
    nth_error sts (round_of (length sts) i) = Some st /\
    (forall s2 : mstate,
       get_profile (RSTV (mkStv 1 q true TFractional tb)) p sts i s2 = inl (pr, s2)) /\
    (forall s2 : mstate,
       get_step (RSTV (mkStv 1 q true TFractional tb)) p sts i s2 = inl ((pr, st), s2)) /\
    Permutation (cands pr) (flat (remaining st)) /\
    first_place_votes pr = inl (escores st) /\
    score_to_ranking (escores st) true = remaining st /\
    (wf_stv0 p ->
     wf_stv0 pr /\ incl (cands pr) (cands p) /\
     (flat (remaining st) = [] -> cands pr = [] /\ ballots pr = [])).
Proof. exact (irv_get_profile_draw_free cand ceqb ceqb_spec). Qed.

(* SequentialRCV *)
Theorem c09_seqrcv_get_profile_draw_free : forall m q simul tb (p : profile) sts,
  wdraw_free (WSeqRCV m q simul tb) p sts ->
  forall i, in_range (length sts) i ->
  exists pr st,
    nth_error sts (round_of (length sts) i) = Some st /\
    (forall s2 : mstate,
       get_profile (RSTV (mkStv m q simul TFullWeight tb)) p sts i s2 = inl (pr, s2)) /\
    (forall s2 : mstate,
       get_step (RSTV (mkStv m q simul TFullWeight tb)) p sts i s2 = inl ((pr, st), s2)) /\
    Permutation (cands pr) (flat (remaining st)) /\
    first_place_votes pr = inl (escores st) /\
    score_to_ranking (escores st) true = remaining st /\
    (wf_stv0 p ->
     wf_stv0 pr /\ incl (cands pr) (cands p) /\
     (flat (remaining st) = [] -> cands pr = [] /\ ballots pr = [])).
Proof. exact (seqrcv_get_profile_draw_free cand ceqb ceqb_spec). Qed.

(* ====================== A2 / C: the one-shot rules, every m ====================== *)

(* Plurality / SNTV, Borda, the rating family (one_shot_kind gives the score function k, the seat
   count m and the tiebreak option), duplicate-free candidate list, a run that logged no call —
   a tiebreak MAY be recorded: the source is untouched; the records are [s0; s1]; np = p without
   the m elected candidates; for EVERY valid index (0, 1, -1, -2) get_profile and get_step return
   from every state, untouched, p / np with the record addressed; re-scoring with the rule's score
   function gives the recorded tallies; the candidates are exactly the remaining ones (a
   duplicate-free list); and when nobody remains (m = number of candidates) the profile returned
   has no candidate and no ballot *)
Theorem c09_oneshot_draw_free : forall r (p : profile) k m tb (s s' : mstate) sts,
  one_shot_kind cand r p = Some (k, m, tb) -> NoDup (cands p) ->
  run_rule r p s = inl (sts, s') -> lg s' = lg s ->
  s' = s /\
  exists s0 s1 np,
    sts = [s0; s1] /\
    remove_cand_prof (flat (elected s1)) true false p = inl np /\
    Z.of_nat (length (flat (elected s1))) = m /\
    forall i, in_range 2 i ->
      exists pr st,
        nth_error [p; np] (round_of 2 i) = Some pr /\
        nth_error sts (round_of 2 i) = Some st /\
        (forall s2 : mstate, get_profile r p sts i s2 = inl (pr, s2)) /\
        (forall s2 : mstate, get_step r p sts i s2 = inl ((pr, st), s2)) /\
        score_fn k pr = inl (escores st) /\
        Permutation (cands pr) (flat (remaining st)) /\ NoDup (cands pr) /\
        (flat (remaining st) = [] -> ballots pr = []).
Proof. exact (oneshot_drawfree cand ceqb ceqb_spec). Qed.

(* ====================== A3: CondoBorda ====================== *)

(* untied profile, a run that logged no call (the Borda tiebreak inside the top tier may be
   recorded): as above with Borda scores *)
Theorem c09_condoborda_draw_free : forall m (p : profile) (s s' : mstate) sts,
  untied_profile p -> run_rule (RCondoBorda m) p s = inl (sts, s') -> lg s' = lg s ->
  s' = s /\
  exists s0 s1 np,
    sts = [s0; s1] /\
    remove_cand_prof (flat (elected s1)) true false p = inl np /\
    Z.of_nat (length (flat (elected s1))) = m /\
    forall i, in_range 2 i ->
      exists pr st,
        nth_error [p; np] (round_of 2 i) = Some pr /\
        nth_error sts (round_of 2 i) = Some st /\
        (forall s2 : mstate, get_profile (RCondoBorda m) p sts i s2 = inl (pr, s2)) /\
        (forall s2 : mstate, get_step (RCondoBorda m) p sts i s2 = inl ((pr, st), s2)) /\
        borda_scores pr = inl (escores st) /\
        Permutation (cands pr) (flat (remaining st)) /\ NoDup (cands pr) /\
        (flat (remaining st) = [] -> ballots pr = []).
Proof. exact (condo_drawfree cand ceqb ceqb_spec). Qed.

(* ====================== C: round 0 of every rule; the dictators ====================== *)

(* every rule, every successful run (draws or not): any valid index addressing round 0 is
   answered, from every state and leaving it untouched, by the input profile *)
Theorem c09_round0_get_profile : forall r (p : profile) (s s' : mstate) sts,
  run_rule r p s = inl (sts, s') ->
  forall i, in_range (length sts) i -> round_of (length sts) i = 0%nat ->
  forall s2 : mstate, get_profile r p sts i s2 = inl (p, s2).
Proof. exact (round0_get_profile cand ceqb). Qed.

(* RandomDictator (boosted = false) / BoostedRandomDictator (boosted = true): although every later
   round draws, the record s0 of round 0 reports the first-place tallies of the input profile,
   its ranking is their sorting, the candidates of the input are exactly the remaining ones, and
   get_profile / get_step for round 0 (index 0 or -len) return the input profile (with s0) from
   every state, untouched *)
Theorem c09_dictator_round0 : forall (boosted : bool) m (p : profile) (s s' : mstate) sts,
  run_rule (if boosted then RBoosted m else RRandomDictator m) p s = inl (sts, s') ->
  exists s0 rest,
    sts = s0 :: rest /\
    first_place_votes p = inl (escores s0) /\
    score_to_ranking (escores s0) true = remaining s0 /\
    Permutation (cands p) (flat (remaining s0)) /\
    forall i, in_range (length sts) i -> round_of (length sts) i = 0%nat ->
      (forall s2 : mstate,
         get_profile (if boosted then RBoosted m else RRandomDictator m) p sts i s2 = inl (p, s2)) /\
      (forall s2 : mstate,
         get_step (if boosted then RBoosted m else RRandomDictator m) p sts i s2 = inl ((p, s0), s2)).
Proof. exact (dictator_round0 cand ceqb). Qed.

(* ====================== B: IndexError iff out of range ====================== *)

(* the finished elections covered ([replay_safe]: draw-free run of STV / a one-shot rule /
   CondoBorda on its domain; DominatingSets, TopTwo, Alaska additionally without recorded
   tiebreak): every in-range index is answered from every state, untouched, by get_profile and —
   with the record addressed — by get_step *)
Theorem c09_replay_safe_total : forall r (p : profile) sts,
  replay_safe r p sts ->
  forall i, in_range (length sts) i ->
  exists pr st,
    nth_error sts (round_of (length sts) i) = Some st /\
    (forall s2 : mstate, get_profile r p sts i s2 = inl (pr, s2)) /\
    (forall s2 : mstate, get_step r p sts i s2 = inl ((pr, st), s2)).
Proof. exact (replay_safe_total cand ceqb ceqb_spec). Qed.

(* hence: IndexError is raised EXACTLY out of range, it is the only exception either query can
   raise, and in range both succeed, leaving the random source as it was *)
Theorem c09_index_error_iff : forall r (p : profile) sts,
  replay_safe r p sts ->
  forall i (s2 : mstate),
    (get_profile r p sts i s2 = inr EIndex <-> ~ in_range (length sts) i) /\
    (get_step r p sts i s2 = inr EIndex <-> ~ in_range (length sts) i) /\
    (forall e, get_profile r p sts i s2 = inr e -> e = EIndex) /\
    (forall e, get_step r p sts i s2 = inr e -> e = EIndex) /\
    (in_range (length sts) i ->
       exists pr st, get_profile r p sts i s2 = inl (pr, s2) /\
                     get_step r p sts i s2 = inl ((pr, st), s2)).
Proof. exact (replay_safe_index_error cand ceqb ceqb_spec). Qed.

(* the same for ANY records on which every in-range get_profile is answered from every state *)
Theorem c09_index_error_iff_of_total : forall r (p : profile) (sts : list estate),
  (forall i, in_range (length sts) i -> exists pr, forall s2 : mstate,
               get_profile r p sts i s2 = inl (pr, s2)) ->
  forall i (s2 : mstate) e,
    (get_profile r p sts i s2 = inr e <-> e = EIndex /\ ~ in_range (length sts) i) /\
    (get_step r p sts i s2 = inr e <-> e = EIndex /\ ~ in_range (length sts) i).
Proof. exact (index_error_iff_of_total cand ceqb). Qed.

(* ====================== D: sequences of queries ====================== *)

(* D1: one query.  Its answer is determined by the query, the election and the prefix of the
   script it consumes: from any other state whose script starts with that prefix it gives the same
   answer, leaves the rest of that script and logs the same calls *)
Theorem c09_ask_prefix : forall (e : election) q (s : mstate) a s',
  ask e q s = inl (a, s') ->
  exists used calls,
    scr s = used ++ scr s' /\ lg s' = calls ++ lg s /\ length calls = length used /\
    forall (s2 : mstate) rest, scr s2 = used ++ rest ->
      ask e q s2 = inl (a, mkM rest (calls ++ lg s2)).
Proof. exact (ask_prefix cand ceqb). Qed.

(* a query that logged no call left the source untouched and is answered alike from every state *)
Theorem c09_ask_no_draw : forall (e : election) q (s : mstate) a s',
  ask e q s = inl (a, s') -> lg s' = lg s ->
  s' = s /\ forall s2 : mstate, ask e q s2 = inl (a, s2).
Proof. exact (ask_no_draw cand ceqb). Qed.

(* get_elected / get_eliminated / get_remaining / get_ranking / get_status_df are functions of the
   records and the index alone: they never read or change the random source *)
Theorem c09_ask_pure : forall (e : election) q r, pure_answer e q = Some r ->
  forall s : mstate, ask e q s = match r with inl a => inl (a, s) | inr x => inr x end.
Proof. exact (ask_pure cand ceqb). Qed.

(* D2: sequences, every election (draws allowed).  Asking qs1 then qs2 is asking qs2 from the state
   qs1 left — the election itself is the same in every call, a query returns none — and the
   answers depend on the random source only through its script *)
Theorem c09_ask_all_app : forall (e : election) qs1 qs2 (s : mstate),
  ask_all e (qs1 ++ qs2) s =
  (fst (ask_all e qs1 s) ++ fst (ask_all e qs2 (snd (ask_all e qs1 s))),
   snd (ask_all e qs2 (snd (ask_all e qs1 s)))).
Proof. exact (ask_all_app cand ceqb). Qed.

Theorem c09_ask_all_script : forall (e : election) qs (s s2 : mstate), scr s2 = scr s ->
  fst (ask_all e qs s2) = fst (ask_all e qs s) /\
  scr (snd (ask_all e qs s2)) = scr (snd (ask_all e qs s)).
Proof. exact (ask_all_script cand ceqb). Qed.

(* D3: when every in-range get_profile is answered from every state: ANY sequence of queries
   (repetitions, any order, positive, negative and out-of-range indices), from ANY state s — each
   answer is the one the query gets in isolation from ANY state s0, and the source comes out as it
   went in *)
Theorem c09_ask_all_isolated : forall e : election, total_replay e ->
  forall qs (s s0 : mstate), ask_all e qs s = (map (fun q => alone e q s0) qs, s).
Proof. exact (ask_all_isolated cand ceqb). Qed.

(* D4: in particular on the finished elections of parts A/B; spelled out for one query q asked
   after a history pre and before the queries post: its answer is its answer in isolation, and
   having asked it does not change the answers to post *)
Theorem c09_ask_all_replay_safe : forall e : election,
  replay_safe (e_rule cand e) (e_profile cand e) (e_states cand e) ->
  forall qs (s s0 : mstate),
    ask_all e qs s = (map (fun q => alone e q s0) qs, s) /\
    (forall pre q post, qs = pre ++ q :: post ->
       nth_error (fst (ask_all e qs s)) (length pre) = Some (alone e q s0) /\
       fst (ask_all e post (snd (ask_all e (pre ++ [q]) s))) = fst (ask_all e post s0)).
Proof. exact (ask_all_replay_safe cand ceqb ceqb_spec). Qed.

End C09_drawfree.

Print Assumptions c09_draw_free_forms.
Print Assumptions c09_draw_free_upto_const.
Print Assumptions c09_draw_free_upto_script.
Print Assumptions c09_whole_run_draw_free_upto.
Print Assumptions c09_quiet_rounds_draw_free.
Print Assumptions c09_no_tiebreak_quiet.
Print Assumptions c09_scored_tiebreak_no_draw.
Print Assumptions c09_stv_replay_draw_free_upto.
Print Assumptions c09_stv_get_profile_draw_free_upto.
Print Assumptions c09_stv_get_profile_no_call.
Print Assumptions c09_stv_get_profile_draw_free.
Print Assumptions c09_wrapper_get_profile_draw_free.
Print Assumptions c09_irv_get_profile_draw_free.
Print Assumptions c09_seqrcv_get_profile_draw_free.
Print Assumptions c09_oneshot_draw_free.
Print Assumptions c09_condoborda_draw_free.
Print Assumptions c09_round0_get_profile.
Print Assumptions c09_dictator_round0.
Print Assumptions c09_replay_safe_total.
Print Assumptions c09_index_error_iff.
Print Assumptions c09_index_error_iff_of_total.
Print Assumptions c09_ask_prefix.
Print Assumptions c09_ask_no_draw.
Print Assumptions c09_ask_pure.
Print Assumptions c09_ask_all_app.
Print Assumptions c09_ask_all_script.
Print Assumptions c09_ask_all_isolated.
Print Assumptions c09_ask_all_replay_safe.

(* ------------------------------------------------------------------ *)
(* Non-vacuity, and the refutation of B without the draw-free premise (cand := positive). *)
Module C09DrawFreeExamples.
Open Scope positive_scope.

Definition lb (l : list positive) (w : Q) : ballot positive :=
  plain_ballot positive (Core.singletons positive l) w.
Definition st0 : Core.mstate positive := mkM [] [].
(* a state of the random source with draws pending and calls already logged *)
Definition st1 : Core.mstate positive := mkM [DPerm [2; 1]; DUnit (1#2)] [CUniform].
Definition states_of (x : res (list (estate positive) * Core.mstate positive))
  : list (estate positive) := match x with inl (sts, _) => sts | inr _ => [] end.
Definition blank : estate positive := mkState 0 [] [] [] [] [].
Ltac ex_nodup := repeat (constructor; [cbn; intuition discriminate|]); constructor.

(* ---- A1: STV, one seat, A x5, B x3, C x2, D>C x1 (quota 6).  Round 1 eliminates D, whose vote
   goes to C: B and C are tied at 3 for elimination in round 2.  The tie is broken by the INITIAL
   first-place tallies (B 3, C 2): C goes, a tiebreak is RECORDED, nothing is drawn.  Round 3
   eliminates B, round 4 elects A by default.  The run succeeds from the empty script. ---- *)
Definition stv_p : Core.profile positive :=
  mkProfile [lb [1] 5; lb [2] 3; lb [3] 2; lb [4; 3] 1] [1; 2; 3; 4].
Definition stv_cfg : stv_cfg := mkStv 1 QDroop true TFractional None.
Definition stv_sts := Eval vm_compute in states_of (run_stv positive Pos.eqb stv_cfg stv_p st0).

Example ex_stv_premises :
  run_stv positive Pos.eqb stv_cfg stv_p st0 = inl (stv_sts, st0) /\
  draw_free positive Pos.eqb (RSTV stv_cfg) stv_p stv_sts /\
  replay_safe positive Pos.eqb (RSTV stv_cfg) stv_p stv_sts /\
  wdraw_free positive Pos.eqb (WIRV QDroop None) stv_p stv_sts /\
  length stv_sts = 5%nat /\
  (* a tiebreak IS recorded in round 2: the no-tiebreak theorems do not apply to rounds >= 2 *)
  tiebreaks (nth 2 stv_sts blank) = [([2; 3], [[2]; [3]])] /\
  ~ Forall (no_tiebreak positive) (firstn 4 stv_sts) /\
  map (fun st => (elected st, eliminated st)) stv_sts
    = [([[]], [[]]); ([[]], [[4]]); ([[]], [[3]]); ([[]], [[2]]); ([[1]], [[]])].
Proof.
  assert (Hrun : run_stv positive Pos.eqb stv_cfg stv_p st0 = inl (stv_sts, st0))
    by (vm_compute; reflexivity).
  assert (Hdf : draw_free positive Pos.eqb (RSTV stv_cfg) stv_p stv_sts)
    by (exists [], st0; exact Hrun).
  split; [exact Hrun|]. split; [exact Hdf|]. split; [split; [exact Hdf|exact I]|].
  split; [exists [], st0; exact Hrun|]. split; [reflexivity|]. split; [reflexivity|].
  split; [|reflexivity].
  intros H. rewrite Forall_forall in H.
  assert (Hin : In (nth 2 stv_sts blank) (firstn 4 stv_sts)) by (cbn; tauto).
  specialize (H _ Hin). discriminate H.
Qed.

(* get_profile at the LATER round 3 (and at -2, the same round) succeeds from two different states
   of the random source with the same answer, leaving each untouched; the answer has the remaining
   candidates and re-scores to the recorded tallies *)
Example ex_stv_replay :
  exists pr,
    get_profile positive Pos.eqb (RSTV stv_cfg) stv_p stv_sts 3 st0 = inl (pr, st0) /\
    get_profile positive Pos.eqb (RSTV stv_cfg) stv_p stv_sts 3 st1 = inl (pr, st1) /\
    get_profile positive Pos.eqb (RSTV stv_cfg) stv_p stv_sts (-2) st1 = inl (pr, st1) /\
    get_step positive Pos.eqb (RSTV stv_cfg) stv_p stv_sts 3 st1 = inl ((pr, nth 3 stv_sts blank), st1) /\
    cands pr = [1] /\ flat positive (remaining (nth 3 stv_sts blank)) = [1] /\
    first_place_votes positive Pos.eqb pr = inl (escores (nth 3 stv_sts blank)) /\
    get_profile positive Pos.eqb (RSTV stv_cfg) stv_p stv_sts 5 st1 = inr EIndex /\
    get_profile positive Pos.eqb (RSTV stv_cfg) stv_p stv_sts (-6) st1 = inr EIndex.
Proof.
  eexists. split; [vm_compute; reflexivity|]. split; [vm_compute; reflexivity|].
  split; [vm_compute; reflexivity|]. split; [vm_compute; reflexivity|].
  split; [reflexivity|]. split; [reflexivity|]. split; [vm_compute; reflexivity|].
  split; reflexivity.
Qed.

(* the general theorem applied to the example (index 3, a round after the recorded tiebreak) *)
Example ex_stv_apply :
  exists pr st, nth_error stv_sts 3 = Some st /\
    (forall s2, get_profile positive Pos.eqb (RSTV stv_cfg) stv_p stv_sts 3 s2 = inl (pr, s2)) /\
    Permutation (cands pr) (flat positive (remaining st)) /\
    first_place_votes positive Pos.eqb pr = inl (escores st).
Proof.
  destruct ex_stv_premises as [_ [Hdf _]].
  assert (Hin : in_range (length stv_sts) 3) by (unfold in_range; cbn; lia).
  destruct (c09_stv_get_profile_draw_free positive Pos.eqb Pos.eqb_spec stv_cfg stv_p stv_sts Hdf 3%Z Hin)
    as [pr [st [Hst [Hg [_ [Hperm [Hd _]]]]]]].
  exists pr, st. repeat split; assumption.
Qed.

(* the recorded tiebreak of round 2 is an instance of c09_scored_tiebreak_no_draw: the initial
   first-place tallies of B and C are 3 and 2 *)
Example ex_stv_scored_tiebreak :
  exists d,
    first_place_votes positive Pos.eqb stv_p = inl d /\
    score_to_ranking positive (filter (fun q => memb positive Pos.eqb (fst q) [2; 3]) d) true
      = [[2]; [3]] /\
    tiebreak_set positive Pos.eqb [2; 3] (Some stv_p) TBFirstPlace st1 = inl ([[2]; [3]], st1).
Proof. eexists. split; [vm_compute; reflexivity|]. split; vm_compute; reflexivity. Qed.

(* ---- A2: Plurality, one seat, tiebreak = borda.  A>B>C x2, B>C>A x2, C>B>A x1: A and B tie on
   first places (2, 2); their Borda scores 9 and 12 separate them: B wins, the tiebreak is recorded,
   nothing is drawn ---- *)
Definition pl_p : Core.profile positive :=
  mkProfile [lb [1; 2; 3] 2; lb [2; 3; 1] 2; lb [3; 2; 1] 1] [1; 2; 3].
Definition pl_rule : rule := RPlurality 1 (Some TBBorda).
Definition pl_sts := Eval vm_compute in states_of (run_rule positive Pos.eqb pl_rule pl_p st0).

Example ex_plurality_borda_tiebreak :
  one_shot_kind positive pl_rule pl_p = Some (SKFpv, 1%Z, Some TBBorda) /\
  NoDup (cands pl_p) /\
  run_rule positive Pos.eqb pl_rule pl_p st0 = inl (pl_sts, st0) /\
  replay_safe positive Pos.eqb pl_rule pl_p pl_sts /\
  tiebreaks (nth 1 pl_sts blank) = [([1; 2], [[2]; [1]])] /\
  elected (nth 1 pl_sts blank) = [[2]] /\
  exists np,
    get_profile positive Pos.eqb pl_rule pl_p pl_sts 1 st0 = inl (np, st0) /\
    get_profile positive Pos.eqb pl_rule pl_p pl_sts (-1) st1 = inl (np, st1) /\
    cands np = [1; 3] /\ flat positive (remaining (nth 1 pl_sts blank)) = [1; 3] /\
    first_place_votes positive Pos.eqb np = inl (escores (nth 1 pl_sts blank)) /\
    get_profile positive Pos.eqb pl_rule pl_p pl_sts (-2) st1 = inl (pl_p, st1).
Proof.
  assert (Hrun : run_rule positive Pos.eqb pl_rule pl_p st0 = inl (pl_sts, st0))
    by (vm_compute; reflexivity).
  assert (Hnd : NoDup (cands pl_p)) by ex_nodup.
  split; [reflexivity|]. split; [exact Hnd|]. split; [exact Hrun|].
  split; [split; [exists [], st0; exact Hrun|exact Hnd]|].
  split; [reflexivity|]. split; [reflexivity|].
  eexists. split; [vm_compute; reflexivity|]. split; [vm_compute; reflexivity|].
  split; [reflexivity|]. split; [reflexivity|]. split; vm_compute; reflexivity.
Qed.

(* ---- C: the same profile with m = 3 = number of candidates: everybody is elected, nobody
   remains, and get_profile(1) is the EMPTY profile, from every state ---- *)
Definition all_rule : rule := RPlurality 3 (Some TBBorda).
Definition all_sts := Eval vm_compute in states_of (run_rule positive Pos.eqb all_rule pl_p st0).

Example ex_everyone_elected :
  run_rule positive Pos.eqb all_rule pl_p st0 = inl (all_sts, st0) /\
  replay_safe positive Pos.eqb all_rule pl_p all_sts /\
  flat positive (elected (nth 1 all_sts blank)) = [1; 2; 3] /\
  flat positive (remaining (nth 1 all_sts blank)) = [] /\
  get_profile positive Pos.eqb all_rule pl_p all_sts 1 st1 = inl (mkProfile [] [], st1) /\
  get_profile positive Pos.eqb all_rule pl_p all_sts (-1) st0 = inl (mkProfile [] [], st0) /\
  get_profile positive Pos.eqb all_rule pl_p all_sts 0 st1 = inl (pl_p, st1) /\
  first_place_votes positive Pos.eqb (mkProfile [] []) = inl (escores (nth 1 all_sts blank)).
Proof.
  assert (Hrun : run_rule positive Pos.eqb all_rule pl_p st0 = inl (all_sts, st0))
    by (vm_compute; reflexivity).
  split; [exact Hrun|]. split; [split; [exists [], st0; exact Hrun|ex_nodup]|].
  split; [reflexivity|]. split; [reflexivity|]. repeat split; vm_compute; reflexivity.
Qed.

(* ---- A3: CondoBorda, one seat, on the cycle A>B>C x3, B>C>A x2, C>A>B x2 (A beats B, B beats C,
   C beats A): the top tier is {A, B, C}; the Borda tiebreak (15, 14, 13) is recorded and draws
   nothing ---- *)
Definition cb_p : Core.profile positive :=
  mkProfile [lb [1; 2; 3] 3; lb [2; 3; 1] 2; lb [3; 1; 2] 2] [1; 2; 3].
Definition cb_sts := Eval vm_compute in states_of (run_rule positive Pos.eqb (RCondoBorda 1) cb_p st0).

Ltac ex_incl := let x := fresh "x" in let Hx := fresh "Hx" in intros x Hx; cbn in Hx |- *; intuition.
Ltac ex_untied_ballot :=
  split; [discriminate|]; split; [repeat constructor|]; split; [ex_nodup|];
  split; [ex_incl|]; split; [intros x []|reflexivity].

Example ex_condoborda :
  untied_profile positive cb_p /\
  run_rule positive Pos.eqb (RCondoBorda 1) cb_p st0 = inl (cb_sts, st0) /\
  replay_safe positive Pos.eqb (RCondoBorda 1) cb_p cb_sts /\
  tiebreaks (nth 1 cb_sts blank) = [([3; 1; 2], [[1]; [2]; [3]])] /\
  exists np,
    get_profile positive Pos.eqb (RCondoBorda 1) cb_p cb_sts 1 st0 = inl (np, st0) /\
    get_profile positive Pos.eqb (RCondoBorda 1) cb_p cb_sts 1 st1 = inl (np, st1) /\
    cands np = [2; 3] /\ flat positive (remaining (nth 1 cb_sts blank)) = [2; 3] /\
    borda_scores positive Pos.eqb np = inl (escores (nth 1 cb_sts blank)).
Proof.
  assert (Hrun : run_rule positive Pos.eqb (RCondoBorda 1) cb_p st0 = inl (cb_sts, st0))
    by (vm_compute; reflexivity).
  assert (Hun : untied_profile positive cb_p).
  { split; [ex_nodup|]. split; [discriminate|]. repeat (constructor; [ex_untied_ballot|]). constructor. }
  split; [exact Hun|]. split; [exact Hrun|]. split; [split; [exists [], st0; exact Hrun|exact Hun]|].
  split; [reflexivity|].
  eexists. split; [vm_compute; reflexivity|]. split; [vm_compute; reflexivity|].
  split; [reflexivity|]. split; [reflexivity|vm_compute; reflexivity].
Qed.

(* ---- C: RandomDictator, two seats: every round after round 0 draws, yet round 0 is answered
   from every state ---- *)
Definition rd_p : Core.profile positive := mkProfile [lb [1; 2] 2; lb [2; 1] 1] [1; 2].
Definition rd_script : Core.mstate positive := mkM [DRank [[1]; [2]]; DRank [[2]]] [].
Definition rd_sts :=
  Eval vm_compute in states_of (run_rule positive Pos.eqb (RRandomDictator 2) rd_p rd_script).

Example ex_dictator_round0 :
  (exists s', run_rule positive Pos.eqb (RRandomDictator 2) rd_p rd_script = inl (rd_sts, s') /\
              lg s' <> lg rd_script) /\
  length rd_sts = 3%nat /\
  get_profile positive Pos.eqb (RRandomDictator 2) rd_p rd_sts 0 st0 = inl (rd_p, st0) /\
  get_profile positive Pos.eqb (RRandomDictator 2) rd_p rd_sts (-3) st1 = inl (rd_p, st1) /\
  first_place_votes positive Pos.eqb rd_p = inl (escores (nth 0 rd_sts blank)) /\
  (* a later round cannot be replayed without a draw *)
  get_profile positive Pos.eqb (RRandomDictator 2) rd_p rd_sts 1 st0 = inr EScript.
Proof.
  split; [eexists; split; [vm_compute; reflexivity|discriminate]|].
  split; [reflexivity|]. repeat split; vm_compute; reflexivity.
Qed.

(* ---- D: a sequence of queries on the STV election above, with repetitions, negative and
   out-of-range indices, asked from a state with draws pending: every answer is the answer in
   isolation (from the empty state), and the random source comes out untouched ---- *)
Definition stv_e : election positive := mkElection positive (RSTV stv_cfg) stv_p stv_sts.
Definition qs : list query :=
  [QProfile 3; QElected (-1); QStep (-2); QProfile 3; QStatus 2; QProfile 7; QRemaining 1;
   QEliminated 4; QRanking (-5); QStep (-9); QProfile 0].

Example ex_sequence :
  ask_all positive Pos.eqb stv_e qs st1 = (map (fun q => alone positive Pos.eqb stv_e q st0) qs, st1) /\
  nth_error (fst (ask_all positive Pos.eqb stv_e qs st1)) 5 = Some (inr EIndex) /\
  nth_error (fst (ask_all positive Pos.eqb stv_e qs st1)) 1 = Some (inl (AGroups positive [[1]])) /\
  nth_error (fst (ask_all positive Pos.eqb stv_e qs st1)) 0
    = nth_error (fst (ask_all positive Pos.eqb stv_e qs st1)) 3.
Proof. repeat split; vm_compute; reflexivity. Qed.

(* the general theorem applied to the example *)
Example ex_sequence_apply : forall s : Core.mstate positive,
  ask_all positive Pos.eqb stv_e qs s = (map (fun q => alone positive Pos.eqb stv_e q st0) qs, s).
Proof.
  intros s. destruct ex_stv_premises as [_ [_ [Hsafe _]]].
  exact (proj1 (c09_ask_all_replay_safe positive Pos.eqb Pos.eqb_spec stv_e Hsafe qs s st0)).
Qed.

(* ---- B refuted WITHOUT the draw-free premise.  Alaska(3, 1) on A x4, B>A x2, C>B x2, D x1/2.
   D is dropped; in the STV stage (quota 5) B and C tie for elimination, also on their initial
   tallies: a DRAW.  The recorded run drew "C goes": then A and B tie at 4, the initial tallies
   (4, 2) send B out, A wins in STV round 3: 5 records.  Alaska.get_profile(4) re-runs the STV
   stage; if this time the draw says "B goes", A reaches the quota at once and the re-run has only
   3 rounds: its own range check raises IndexError although 4 is a valid index of the recorded
   election. ---- *)
Definition ak_p : Core.profile positive :=
  mkProfile [lb [1] 4; lb [2; 1] 2; lb [3; 2] 2; lb [4] (1#2)] [1; 2; 3; 4].
Definition ak_script : Core.mstate positive := mkM [DPerm [2; 3]; DPerm [2; 3]] [].
Definition ak_sts :=
  Eval vm_compute in states_of (run_alaska positive Pos.eqb 3 1 stv_cfg ak_p ak_script).

Theorem c09_index_error_iff_refuted_with_draws :
  exists r (p : Core.profile positive) (s s' s2 : Core.mstate positive) sts (i : Z),
    run_rule positive Pos.eqb r p s = inl (sts, s') /\
    in_range (length sts) i /\
    get_profile positive Pos.eqb r p sts i s2 = inr EIndex /\
    get_step positive Pos.eqb r p sts i s2 = inr EIndex.
Proof.
  exists (RAlaska 3 1 stv_cfg), ak_p, ak_script, (mkM [] [CSample [2; 3]; CSample [2; 3]]),
         (mkM [DPerm [3; 2]] []), ak_sts, 4%Z.
  split; [vm_compute; reflexivity|]. split; [unfold in_range; cbn; lia|].
  split; vm_compute; reflexivity.
Qed.
Print Assumptions c09_index_error_iff_refuted_with_draws.

End C09DrawFreeExamples.
