(* Properties/C15_compose.v — property C15 ("closed-form model probabilities equal their
   definitions"): the tables composed with the construction of their arguments.  Statements only;
   proofs in Proofs/C15_compose.v.

   Properties/C15.v states the name-Bradley-Terry table theorem for a dictionary that is already
   positive and the interval/combination theorems separately.  Here the statements START FROM WHAT
   THE USER PASSES:
     * c15_bt_pdf_from_supports: supports d (>= 0, distinct keys) -> PreferenceInterval(d) ->
       the table [bt_pdf (pi_int iv)] (exactly what the generator model op_gen_bt samples from):
       keys = the permutations of the candidates with positive support, sums to one, every entry
       positive and equal to bt_weight x r / (sum over all permutations) where x c is the USER's
       support of c.  Normalising the interval does not matter because Bradley-Terry weights are
       invariant under rescaling the supports (c15_bt_weight_scale_invariant, every ranking, every
       non-zero factor).
     * c15_bt_pdf_from_combined(_supports): the same through combine_preference_intervals, from a
       voter bloc's per-slate intervals (resp. the per-slate supports they were built from) and its
       cohesion row: x c = cohesion share * normalised support.
     * c15_slate_bt_keys: for ANY size list, own, opp and cohesion the keys of the
       slate-Bradley-Terry table are the distinct arrangements of the multiset; with the sizes read
       off intervals built from supports, every ballot type names slate b exactly as often as b has
       candidates with positive support (c15_slate_bt_counts_from_supports).
     * One bloc.  slate_BradleyTerry.__init__ (ballot_generator.py 1727-1739) does NOT call
       _compute_ballot_type_dist when len(self.blocs) == 1: it uses the constant table
       {(bloc,)*k : 1}.  THE MODEL HAS NO SUCH BRANCH: Model/Dispatch.v op_gen_slate_bt always
       calls slate_bt_pdf, and the harness (harness/props/genlib.py gen_params) always generates
       two blocs for slate_BT, so the difference is never exercised.  What the model does instead:
       at cohesion 1 (the only cohesion a single bloc can have, its row must sum to one) the table
       function gives the single type the value 0/0 = 0, the positivity test of op_gen_slate_bt
       fails for every requested type (c15_slate_one_bloc_no_positive, witness
       c15_slate_one_bloc_model_refuted; in Proofs/C15_compose.v, slate_one_bloc_finding also runs
       Dispatch.op_gen_slate_bt on a one-bloc script: EScript at cohesion 1, a profile at 3/4).
       The coded constant table is trivially right (c15_slate_one_bloc_coded_table).

   Vocabulary: Spec/BTSpec.v (bt_weight, enumerates, wf_interval). *)
From VK Require Import Base Core GenValidation PrefInterval Generators.
From VK.Spec Require Import BTSpec GenSpec.
From VK.Proofs Require Import C12_expand C15_interval C15_bt C15_slate C15_compose.
From Coq Require Import Permutation.

(* ====================== name-Bradley-Terry ====================== *)

(* the pair-product weight is invariant under rescaling the supports: every ranking, any supports,
   any non-zero factor *)
Theorem c15_bt_weight_scale_invariant : forall (x : pcand -> Q) (k : Q) (r : list pcand),
  ~ k == 0 -> bt_weight (fun c => k * x c) r == bt_weight x r.
Proof. exact bt_weight_scale. Qed.
Print Assumptions c15_bt_weight_scale_invariant.

(* ... and depends only on the supports of the candidates ranked *)
Theorem c15_bt_weight_ext : forall (x y : pcand -> Q) (r : list pcand),
  (forall c, In c r -> y c == x c) -> bt_weight y r == bt_weight x r.
Proof. exact bt_weight_ext. Qed.
Print Assumptions c15_bt_weight_ext.

(* from the user's supports to the table the sampler draws from *)
Theorem c15_bt_pdf_from_supports : forall (d : list (pcand * Q)) (iv : pinterval) (x : pcand -> Q)
    (pos : list pcand) (all : list (list pcand)),
  NoDup (map fst d) -> (forall c s, In (c, s) d -> 0 <= s) ->
  (forall c s, In (c, s) d -> x c == s) ->
  mk_interval d = inl iv ->
  NoDup pos -> (forall c, In c pos <-> exists s, In (c, s) d /\ 0 < s) ->
  enumerates all pos ->
  (forall r, In r (map fst (bt_pdf (pi_int iv))) <-> Permutation r pos) /\
  NoDup (map fst (bt_pdf (pi_int iv))) /\
  qsum (map snd (bt_pdf (pi_int iv))) == 1 /\
  (forall r v, In (r, v) (bt_pdf (pi_int iv)) ->
     0 < v /\ v == bt_weight x r / qsum (map (bt_weight x) all)) /\
  (forall c s, In (c, s) d -> s == 0 ->
     In c (pi_zero iv) /\ forall r, In r (map fst (bt_pdf (pi_int iv))) -> ~ In c r).
Proof. exact bt_pdf_from_supports. Qed.
Print Assumptions c15_bt_pdf_from_supports.

(* from a voter bloc's intervals (any well-formed intervals) and its cohesion row *)
Theorem c15_bt_pdf_from_combined : forall (is : list pinterval) (props : list Q) (r : pinterval)
    (x : pcand -> Q) (pos : list pcand) (all : list (list pcand)),
  Forall wf_interval is -> length is = length props -> Forall (fun p => 0 <= p) props ->
  combine_intervals is props = inl r ->
  (forall i p c v, In (i, p) (combine is props) -> In (c, v) (pi_int i) -> x c == p * v) ->
  NoDup pos ->
  (forall c, In c pos <->
     exists i p v, In (i, p) (combine is props) /\ In (c, v) (pi_int i) /\ 0 < p) ->
  enumerates all pos ->
  (forall t, In t (map fst (bt_pdf (pi_int r))) <-> Permutation t pos) /\
  NoDup (map fst (bt_pdf (pi_int r))) /\
  qsum (map snd (bt_pdf (pi_int r))) == 1 /\
  (forall t v, In (t, v) (bt_pdf (pi_int r)) ->
     0 < v /\ v == bt_weight x t / qsum (map (bt_weight x) all)) /\
  (forall c, In c (pi_zero r) -> forall t, In t (map fst (bt_pdf (pi_int r))) -> ~ In c t) /\
  (forall i p c v, In (i, p) (combine is props) -> In (c, v) (pi_int i) -> p == 0 ->
     In c (pi_zero r)) /\
  (forall i c, In i is -> In c (pi_zero i) -> In c (pi_zero r)).
Proof. exact bt_pdf_from_combined. Qed.
Print Assumptions c15_bt_pdf_from_combined.

(* from the per-slate supports d_1..d_k (is = their PreferenceIntervals) and the cohesion row:
   x c = cohesion share of c's slate * (support of c / total support of its slate) *)
Theorem c15_bt_pdf_from_combined_supports :
  forall (ds : list (list (pcand * Q))) (is : list pinterval)
    (props : list Q) (r : pinterval) (x : pcand -> Q) (pos : list pcand) (all : list (list pcand)),
  Forall2 (fun d i => mk_interval d = inl i) ds is ->
  (forall d c s, In d ds -> In (c, s) d -> 0 <= s) ->
  length ds = length props -> Forall (fun p => 0 <= p) props ->
  combine_intervals is props = inl r ->
  (forall d p c s, In (d, p) (combine ds props) -> In (c, s) d ->
     x c == p * (s / qsum (map snd d))) ->
  NoDup pos ->
  (forall c, In c pos <->
     exists d p s, In (d, p) (combine ds props) /\ In (c, s) d /\ 0 < p /\ 0 < s) ->
  enumerates all pos ->
  (forall t, In t (map fst (bt_pdf (pi_int r))) <-> Permutation t pos) /\
  NoDup (map fst (bt_pdf (pi_int r))) /\
  qsum (map snd (bt_pdf (pi_int r))) == 1 /\
  (forall t v, In (t, v) (bt_pdf (pi_int r)) ->
     0 < v /\ v == bt_weight x t / qsum (map (bt_weight x) all)) /\
  (forall d p c s, In (d, p) (combine ds props) -> In (c, s) d -> p == 0 \/ s == 0 ->
     In c (pi_zero r) /\ forall t, In t (map fst (bt_pdf (pi_int r))) -> ~ In c t).
Proof. exact bt_pdf_from_combined_supports. Qed.
Print Assumptions c15_bt_pdf_from_combined_supports.

(* ====================== slate-Bradley-Terry ====================== *)

(* unconditional: the keys of the table, as a list and as a set *)
Theorem c15_slate_bt_keys : forall (sizes : list (bloc * nat)) (own opp : bloc) (c : Q),
  map fst (slate_bt_pdf sizes own opp c) =
    arrangements_ms (concat (map (fun bn : bloc * nat => repeat (fst bn) (snd bn)) sizes)) /\
  (forall t, In t (map fst (slate_bt_pdf sizes own opp c)) <->
     Permutation t (concat (map (fun bn : bloc * nat => repeat (fst bn) (snd bn)) sizes))) /\
  NoDup (map fst (slate_bt_pdf sizes own opp c)).
Proof. exact slate_bt_keys_full. Qed.
Print Assumptions c15_slate_bt_keys.

(* sizes read off intervals built from supports: slate b has as many entries as d_b has positive
   supports *)
Theorem c15_slate_bt_sizes_from_supports :
  forall (sup : list (bloc * list (pcand * Q))) (ivs : list (bloc * pinterval)),
  Forall2 (fun s i => fst s = fst i /\ mk_interval (snd s) = inl (snd i)) sup ivs ->
  map (fun x : bloc * pinterval => (fst x, length (pi_int (snd x)))) ivs =
  map (fun s : bloc * list (pcand * Q) =>
         (fst s, length (filter (fun p => Qlt_bool 0 (snd p)) (snd s)))) sup.
Proof. exact slate_bt_sizes_from_supports. Qed.
Print Assumptions c15_slate_bt_sizes_from_supports.

(* every ballot type of the table names only the given slates, and slate b exactly as often as b
   has candidates with positive support *)
Theorem c15_slate_bt_counts_from_supports :
  forall (sup : list (bloc * list (pcand * Q))) (ivs : list (bloc * pinterval))
         (own opp : bloc) (c : Q) (t : list bloc) (v : Q),
  Forall2 (fun s i => fst s = fst i /\ mk_interval (snd s) = inl (snd i)) sup ivs ->
  NoDup (map fst sup) ->
  In (t, v) (slate_bt_pdf (map (fun x : bloc * pinterval => (fst x, length (pi_int (snd x)))) ivs)
                          own opp c) ->
  (forall b, In b t -> In b (map fst sup)) /\
  (forall b d pos, In (b, d) sup -> NoDup (map fst d) -> NoDup pos ->
     (forall k, In k pos <-> exists s, In (k, s) d /\ 0 < s) ->
     count_bloc b t = length pos).
Proof. exact slate_bt_counts_from_supports. Qed.
Print Assumptions c15_slate_bt_counts_from_supports.

(* ---------- one bloc ---------- *)

(* the model's table function on a single non-empty bloc at cohesion 1: every entry is 0, and the
   test "the requested type has a positive entry" (the one op_gen_slate_bt performs) fails for
   every type *)
Theorem c15_slate_one_bloc_no_positive : forall (own opp : bloc) (a : nat) (c : Q),
  own <> opp -> c == 1 -> (0 < a)%nat ->
  (forall t v, In (t, v) (slate_bt_pdf [(own, a)] own opp c) -> v == 0) /\
  (forall t, existsb (fun e : list bloc * Q => type_eqb (fst e) t && Qlt_bool 0 (snd e))
                     (slate_bt_pdf [(own, a)] own opp c) = false).
Proof. exact slate_one_bloc_no_positive. Qed.
Print Assumptions c15_slate_one_bloc_no_positive.

(* REFUTED for the model, "the one-bloc table has the single type with probability one" (what the
   code's constant table says): bloc 1 with two candidates *)
Theorem c15_slate_one_bloc_model_refuted :
  exists (own opp : bloc) (a : nat),
    own <> opp /\ (0 < a)%nat /\
    slate_bt_pdf [(own, a)] own opp 1 = [(repeat own a, 0)] /\
    ~ qsum (map snd (slate_bt_pdf [(own, a)] own opp 1)) == 1.
Proof.
  exists 1%positive, 2%positive, 2%nat. split; [discriminate|]. split; [repeat constructor|].
  split; [vm_compute; reflexivity|]. vm_compute. discriminate.
Qed.
Print Assumptions c15_slate_one_bloc_model_refuted.

(* the coded constant table {(own,)*a : 1}: its key is the unique arrangement, it sums to one, its
   entry is positive *)
Theorem c15_slate_one_bloc_coded_table : forall (own : bloc) (a : nat),
  map fst [(repeat own a, 1)] = arrangements_ms (repeat own a) /\
  (forall t, In t (map fst [(repeat own a, 1)]) <-> Permutation t (repeat own a)) /\
  qsum (map snd [(repeat own a, 1)]) == 1 /\
  (forall t v, In (t, v) [(repeat own a, 1)] -> 0 < v).
Proof. exact one_bloc_table_ok. Qed.
Print Assumptions c15_slate_one_bloc_coded_table.

(* ====================== non-vacuity ====================== *)
Module C15ComposeExamples.
Local Open Scope positive_scope.

(* supports as a user would pass them: not normalised, one zero *)
Definition ex_d : list (pcand * Q) := [(1, 2 # 1); (2, 0%Q); (3, 6 # 1)].
Definition ex_iv : pinterval := mkPI [(1, 1 # 4); (3, 3 # 4)] [2].

Example ex_supports_hyps :
  NoDup (map fst ex_d) /\ (forall c s, In (c, s) ex_d -> (0 <= s)%Q) /\
  (forall c s, In (c, s) ex_d -> (lookupP ex_d c == s)%Q) /\
  mk_interval ex_d = inl ex_iv /\
  NoDup [1; 3] /\ (forall c, In c [1; 3] <-> exists s, In (c, s) ex_d /\ (0 < s)%Q) /\
  enumerates (perms pcand [1; 3]) [1; 3].
Proof.
  assert (Hnd : NoDup (map fst ex_d)) by (cbn; repeat constructor; cbn; intuition discriminate).
  assert (Hnd2 : NoDup [1; 3]) by (repeat constructor; cbn; intuition discriminate).
  split; [exact Hnd|]. split.
  { intros c s [E|[E|[E|[]]]]; injection E as _ <-; discriminate. }
  split.
  { intros c s H. rewrite (lookupP_spec ex_d c s Hnd H). reflexivity. }
  split; [vm_compute; reflexivity|]. split; [exact Hnd2|]. split.
  { intros c. split.
    - intros [<-|[<-|[]]]; [exists (2 # 1)%Q|exists (6 # 1)%Q]; (split; [cbn; tauto|reflexivity]).
    - intros (s & [E|[E|[E|[]]]] & Hs); injection E as <- <-; [left; reflexivity|discriminate Hs|
        right; left; reflexivity]. }
  split; [apply (C12_expand.perms_NoDup pcand); exact Hnd2|].
  intros t. apply (C12_expand.perms_spec pcand).
Qed.

(* the table, and the formula evaluated on the USER's supports 2 and 6 (weights 1/4 and 3/4) *)
Example ex_supports_table :
  bt_pdf (pi_int ex_iv) = [([1; 3], 1 # 4); ([3; 1], 3 # 4)] /\
  Qeq (bt_weight (lookupP ex_d) [1; 3]) (1 # 4) /\ Qeq (bt_weight (lookupP ex_d) [3; 1]) (3 # 4) /\
  Qeq (qsum (map (bt_weight (lookupP ex_d)) (perms pcand [1; 3]))) 1%Q.
Proof. repeat split; vm_compute; reflexivity. Qed.

(* a voter bloc with three slates; the second slate has cohesion share 0 *)
Definition ex_ds : list (list (pcand * Q)) :=
  [[(1, 2 # 1); (2, 0%Q); (3, 6 # 1)]; [(4, 5 # 1)]; [(5, 1%Q); (6, 1%Q); (7, 0%Q)]].
Definition ex_is : list pinterval :=
  [mkPI [(1, 1 # 4); (3, 3 # 4)] [2]; mkPI [(4, 1 # 1)] []; mkPI [(5, 1 # 2); (6, 1 # 2)] [7]].
Definition ex_props : list Q := [1 # 4; 0%Q; 3 # 4].
Definition ex_r : pinterval := mkPI [(1, 1 # 16); (3, 3 # 16); (5, 3 # 8); (6, 3 # 8)] [4; 2; 7].
(* cohesion share * normalised support *)
Definition ex_x : pcand -> Q :=
  lookupP [(1, 1 # 16); (2, 0%Q); (3, 3 # 16); (4, 0%Q); (5, 3 # 8); (6, 3 # 8); (7, 0%Q)].

Ltac in_cases H :=
  repeat (destruct H as [H|H]; [injection H as <- <-|]); try destruct H.

Example ex_combined_hyps :
  Forall2 (fun d i => mk_interval d = inl i) ex_ds ex_is /\
  (forall d c s, In d ex_ds -> In (c, s) d -> (0 <= s)%Q) /\
  length ex_ds = length ex_props /\ Forall (fun p => (0 <= p)%Q) ex_props /\
  combine_intervals ex_is ex_props = inl ex_r /\
  (forall d p c s, In (d, p) (combine ex_ds ex_props) -> In (c, s) d ->
     (ex_x c == p * (s / qsum (map snd d)))%Q) /\
  NoDup [1; 3; 5; 6] /\
  (forall c, In c [1; 3; 5; 6] <->
     exists d p s, In (d, p) (combine ex_ds ex_props) /\ In (c, s) d /\ (0 < p)%Q /\ (0 < s)%Q) /\
  enumerates (perms pcand [1; 3; 5; 6]) [1; 3; 5; 6].
Proof.
  assert (Hnd : NoDup [1; 3; 5; 6]) by (repeat constructor; cbn; intuition discriminate).
  split; [repeat constructor; vm_compute; reflexivity|]. split.
  { intros d c s Hd Hc. unfold ex_ds in Hd. cbn [In] in Hd.
    destruct Hd as [<-|[<-|[<-|[]]]]; cbn [In] in Hc; in_cases Hc; discriminate. }
  split; [reflexivity|]. split; [repeat constructor; discriminate|].
  split; [vm_compute; reflexivity|]. split.
  { intros d p c s Hd Hc. unfold ex_ds, ex_props in Hd. cbn [combine In] in Hd.
    destruct Hd as [E|[E|[E|[]]]]; injection E as <- <-; cbn [In] in Hc; in_cases Hc;
      vm_compute; reflexivity. }
  split; [exact Hnd|]. split.
  { intros c. split.
    - intros [<-|[<-|[<-|[<-|[]]]]].
      + exists [(1, 2 # 1); (2, 0%Q); (3, 6 # 1)], (1 # 4)%Q, (2 # 1)%Q. cbn. repeat split; tauto.
      + exists [(1, 2 # 1); (2, 0%Q); (3, 6 # 1)], (1 # 4)%Q, (6 # 1)%Q. cbn. repeat split; tauto.
      + exists [(5, 1%Q); (6, 1%Q); (7, 0%Q)], (3 # 4)%Q, 1%Q. cbn. repeat split; tauto.
      + exists [(5, 1%Q); (6, 1%Q); (7, 0%Q)], (3 # 4)%Q, 1%Q. cbn. repeat split; tauto.
    - intros (d & p & s & Hd & Hc & Hp & Hs). unfold ex_ds, ex_props in Hd. cbn [combine In] in Hd.
      destruct Hd as [E|[E|[E|[]]]]; injection E as <- <-; cbn [In] in Hc; in_cases Hc;
        try discriminate Hp; try discriminate Hs; cbn; tauto. }
  split; [apply (C12_expand.perms_NoDup pcand); exact Hnd|].
  intros t. apply (C12_expand.perms_spec pcand).
Qed.

(* 4! = 24 entries; the entry of [5; 1; 6; 3] against the formula on ex_x *)
Example ex_combined_table :
  length (bt_pdf (pi_int ex_r)) = 24%nat /\
  (qsum (map snd (bt_pdf (pi_int ex_r))) == 1)%Q /\
  exists v, In ([5; 1; 6; 3], v) (bt_pdf (pi_int ex_r)) /\
    Qeq v (Qdiv (bt_weight ex_x [5; 1; 6; 3])
                (qsum (map (bt_weight ex_x) (perms pcand [1; 3; 5; 6])))) /\
    Qeq (bt_weight ex_x [5; 1; 6; 3]) (1 # 147).
Proof.
  split; [vm_compute; reflexivity|]. split; [vm_compute; reflexivity|].
  pose proof ex_combined_hyps as (H1 & H2 & H3 & H4 & H5 & H6 & H7 & H8 & H9).
  destruct (c15_bt_pdf_from_combined_supports ex_ds ex_is ex_props ex_r ex_x [1; 3; 5; 6]
              (perms pcand [1; 3; 5; 6]) H1 H2 H3 H4 H5 H6 H7 H8 H9) as (K1 & _ & _ & K4 & _).
  assert (Hin : In [5; 1; 6; 3] (map fst (bt_pdf (pi_int ex_r)))).
  { apply K1. apply (C12_expand.perms_spec pcand). vm_compute. tauto. }
  apply in_map_iff in Hin. destruct Hin as ([t v] & E & Hin). cbn [fst] in E. subst t.
  exists v. split; [exact Hin|]. split; [apply (K4 _ _ Hin)|]. vm_compute. reflexivity.
Qed.

(* slate table keys for three blocs (one empty) and sizes from supports *)
Example ex_slate_keys :
  map fst (slate_bt_pdf [(1, 2%nat); (2, 0%nat); (3, 1%nat)] 1 3 (3 # 4)) =
    [[1; 1; 3]; [1; 3; 1]; [3; 1; 1]] /\
  map (fun x : bloc * pinterval => (fst x, length (pi_int (snd x))))
      [(1, ex_iv); (2, mkPI [(4, 1 # 1)] [])] = [(1, 2%nat); (2, 1%nat)] /\
  Forall2 (fun s i => fst s = fst i /\ mk_interval (snd s) = inl (snd i))
          [(1, ex_d); (2, [(4, 5 # 1)])] [(1, ex_iv); (2, mkPI [(4, 1 # 1)] [])].
Proof.
  split; [vm_compute; reflexivity|]. split; [reflexivity|].
  repeat constructor; vm_compute; reflexivity.
Qed.

(* one bloc with three candidates: the model's table at cohesion 1 against the coded table *)
Example ex_one_bloc :
  slate_bt_pdf [(1, 3%nat)] 1 2 1 = [([1; 1; 1], 0%Q)] /\
  existsb (fun e : list bloc * Q => type_eqb (fst e) [1; 1; 1] && Qlt_bool 0 (snd e))
          (slate_bt_pdf [(1, 3%nat)] 1 2 1) = false /\
  arrangements_ms (repeat 1 3) = [[1; 1; 1]].
Proof. repeat split; vm_compute; reflexivity. Qed.

End C15ComposeExamples.
