(* Properties/C20_gen.v — C20, generator side: "Generators refuse bloc proportions or cohesion
   parameters that do not sum to one, mismatched bloc names and preference intervals with
   overlapping candidate sets ... in every such case no partial result is produced", stated for
   the CONSTRUCTOR of the name models rather than for the stand-alone checks (Properties/
   C20_blocs.v).  Statements only; proofs in Proofs/C20_gen.v.

   IMPORTANT.  No generator model in Model/*.v calls [bloc_checks]: construction-time validation
   is modelled by the two stand-alone, harness-validated functions [bloc_checks] (op 65) and
   [combine_intervals] (op 91, which runs [combine_checks], op 66, first).  [gen_construct]
   (Spec/GenConstructSpec.v) is a specification-level TRANSCRIPTION of
   ballot_generator.py 105-166 + 481-500 (= 677-696 = 1453-1473) composed from those two functions:
       checks, then for bloc in blocs: combine_preference_intervals(
           [pref_intervals_by_bloc[bloc][b] for b in blocs], [cohesion_parameters[bloc][b] for b in blocs])
   with blocs = the keys of bloc_voter_prop.  The composition is read off the Python text and is
   not exercised by the differential harness; the theorems below are about this transcription.

   Vocabulary (Spec/GenConstructSpec.v; Spec/BlocSpec.v):
     dict_get d k           d[k]; a missing key is KeyError (EKey)
     bloc_intervals I bs b  [I[b][b2] for b2 in bs];   bloc_cohesion C bs b  likewise
     construct_bloc         one entry of the comprehension
     rows_cover T bs        every inner dictionary of T has every name of bs as a key
     rows_exact T bs        ... has exactly the names of bs as keys, each once
     intervals_wf I         every value is a PreferenceInterval (positive shares summing to one)
     cohesion_nonneg C      every cohesion entry is >= 0
     blocs_disjoint I bs    for every voter bloc the candidate lists of its intervals neither
                            repeat nor share a candidate (~ self_repeating, ~ overlapping)
     picked_rows_ok C bs    the proportions handed to combine_preference_intervals sum to one
     props_ok / names_pi_ok / names_coh_ok / rows_ok / row_ok / sums_to_one / dict_total: BlocSpec.
   Dictionaries are association lists; bloc_checks compares only the OUTER key sets, so an inner
   dictionary that lacks a bloc name raises KeyError after the checks passed
   (c20_gen_error_kinds); with complete inner dictionaries the only error is ValueError.

   Not modelled / not tied to the model (reported, not invented):
     - the kwargs-presence tests of BallotGenerator.__init__ 108-132;
     - slate_PlackettLuce, slate_BradleyTerry, AlternatingCrossover and CambridgeSampler call the
       same BallotGenerator.__init__ checks but do NOT combine intervals at construction
       (CambridgeSampler combines inside generate_profile, over .values() and [c, 1-c]);
       their own tests (more than two slates -> UserWarning, W_bloc/C_bloc consistency) have no
       model counterpart;
     - from_params (lines 199-203) repeats the proportion test and a slate-name test. *)
From VK Require Import Base Core GenValidation PrefInterval.
From VK.Spec Require Import BTSpec BlocSpec GenConstructSpec.
From VK.Proofs Require Import C15_interval C20_blocs C20_gen.
From Coq Require Import Permutation.

Implicit Types (props : list (positive * Q))
               (intervals : list (positive * list (positive * pinterval)))
               (cohesion : list (positive * list (positive * Q))).

(* ---- order: checks first, then the blocs in order; first failure decides ---- *)

(* nothing is combined before the parameter checks pass: their error is the constructor's *)
Theorem c20_gen_checks_first : forall props intervals cohesion e,
  bloc_checks props (map fst intervals) cohesion = inr e ->
  gen_construct props intervals cohesion = inr e.
Proof. exact gen_checks_first. Qed.

(* once they pass, the blocs of bloc_voter_prop are handled in order and the first entry that
   fails decides the outcome *)
Theorem c20_gen_first_failure : forall props intervals cohesion pre b post e,
  bloc_checks props (map fst intervals) cohesion = inl tt ->
  map fst props = pre ++ b :: post ->
  (forall b', In b' pre -> exists x, construct_bloc intervals cohesion (map fst props) b' = inl x) ->
  construct_bloc intervals cohesion (map fst props) b = inr e ->
  gen_construct props intervals cohesion = inr e.
Proof. exact gen_first_failure. Qed.

(* no partial result: an error is the whole answer *)
Theorem c20_gen_no_partial : forall props intervals cohesion e,
  gen_construct props intervals cohesion = inr e ->
  forall out, gen_construct props intervals cohesion <> inl out.
Proof. exact gen_no_partial. Qed.

(* ---- (i) each documented precondition, for ALL inputs violating it ---- *)

(* proportions not summing to one / bloc names differing between the dictionaries / a cohesion
   row not summing to one: ValueError, whatever the other arguments are *)
Theorem c20_gen_refuses_parameters : forall props intervals cohesion,
  (~ props_ok props -> gen_construct props intervals cohesion = inr EValue) /\
  (~ names_pi_ok props (map fst intervals) -> gen_construct props intervals cohesion = inr EValue) /\
  (~ names_coh_ok props cohesion -> gen_construct props intervals cohesion = inr EValue) /\
  ((exists row, In row cohesion /\ ~ row_ok row) ->
     gen_construct props intervals cohesion = inr EValue).
Proof. exact gen_refuses_parameters. Qed.

(* the boundary of the two sum tests, for all inputs: a total at distance >= 5e-9 from one is
   refused; whatever is accepted has every total strictly within 5e-9 of one *)
Theorem c20_gen_boundary : forall props intervals cohesion,
  (dict_total props <= 1 - (5 # 1000000000) \/ 1 + (5 # 1000000000) <= dict_total props ->
   gen_construct props intervals cohesion = inr EValue) /\
  (forall row, In row cohesion ->
     dict_total (snd row) <= 1 - (5 # 1000000000) \/ 1 + (5 # 1000000000) <= dict_total (snd row) ->
     gen_construct props intervals cohesion = inr EValue) /\
  (forall out, gen_construct props intervals cohesion = inl out ->
     (1 - (5 # 1000000000) < dict_total props /\ dict_total props < 1 + (5 # 1000000000)) /\
     forall row, In row cohesion ->
       1 - (5 # 1000000000) < dict_total (snd row) /\ dict_total (snd row) < 1 + (5 # 1000000000)).
Proof. exact gen_boundary. Qed.

(* two intervals of some voter bloc share a candidate, or one lists a candidate twice (supported
   or zero-support): ValueError *)
Theorem c20_gen_refuses_overlap : forall props intervals cohesion b is,
  intervals_wf intervals -> cohesion_nonneg cohesion ->
  rows_cover intervals (map fst props) -> rows_cover cohesion (map fst props) ->
  In b (map fst props) -> bloc_intervals intervals (map fst props) b = inl is ->
  self_repeating (map pi_cands is) \/ overlapping (map pi_cands is) ->
  gen_construct props intervals cohesion = inr EValue.
Proof. exact gen_refuses_overlap. Qed.

(* ---- (ii) exactness ---- *)

(* with well-formed arguments the constructor succeeds exactly when every precondition holds,
   and otherwise raises ValueError *)
Theorem c20_gen_accepts_iff : forall props intervals cohesion,
  intervals_wf intervals -> cohesion_nonneg cohesion ->
  rows_cover intervals (map fst props) -> rows_cover cohesion (map fst props) ->
  ((exists out, gen_construct props intervals cohesion = inl out) <->
   props_ok props /\ names_pi_ok props (map fst intervals) /\ names_coh_ok props cohesion /\
   rows_ok cohesion /\ blocs_disjoint intervals (map fst props) /\
   picked_rows_ok cohesion (map fst props)).
Proof. exact gen_accepts_iff. Qed.

Theorem c20_gen_rejects_iff : forall props intervals cohesion,
  intervals_wf intervals -> cohesion_nonneg cohesion ->
  rows_cover intervals (map fst props) -> rows_cover cohesion (map fst props) ->
  (gen_construct props intervals cohesion = inr EValue <->
   ~ (props_ok props /\ names_pi_ok props (map fst intervals) /\ names_coh_ok props cohesion /\
      rows_ok cohesion /\ blocs_disjoint intervals (map fst props) /\
      picked_rows_ok cohesion (map fst props))).
Proof. exact gen_rejects_iff. Qed.

(* genuine dictionaries (distinct bloc names, every cohesion row keyed by exactly the bloc names):
   the proportions handed to combine_preference_intervals are the cohesion row, its sum test
   cannot fail after __init__'s, and the constructor is refused exactly for one of the five
   documented causes *)
Theorem c20_gen_picked_rows_redundant : forall props cohesion,
  NoDup (map fst props) -> rows_exact cohesion (map fst props) -> rows_ok cohesion ->
  picked_rows_ok cohesion (map fst props).
Proof. exact gen_picked_rows_redundant. Qed.

Theorem c20_gen_accepts_iff_dicts : forall props intervals cohesion,
  intervals_wf intervals -> cohesion_nonneg cohesion -> NoDup (map fst props) ->
  rows_cover intervals (map fst props) -> rows_exact cohesion (map fst props) ->
  ((exists out, gen_construct props intervals cohesion = inl out) <->
   props_ok props /\ names_pi_ok props (map fst intervals) /\ names_coh_ok props cohesion /\
   rows_ok cohesion /\ blocs_disjoint intervals (map fst props)) /\
  (gen_construct props intervals cohesion = inr EValue <->
   ~ props_ok props \/ ~ names_pi_ok props (map fst intervals) \/ ~ names_coh_ok props cohesion \/
   (exists row, In row cohesion /\ ~ row_ok row) \/
   (exists b is, In b (map fst props) /\ bloc_intervals intervals (map fst props) b = inl is /\
                 (self_repeating (map pi_cands is) \/ overlapping (map pi_cands is)))).
Proof. exact gen_accepts_iff_dicts. Qed.

(* error kinds: ValueError, or KeyError — and KeyError only after the checks passed and because an
   INNER dictionary lacks a bloc name *)
Theorem c20_gen_error_kinds : forall props intervals cohesion e,
  intervals_wf intervals -> cohesion_nonneg cohesion ->
  gen_construct props intervals cohesion = inr e ->
  e = EValue \/
  (e = EKey /\ bloc_checks props (map fst intervals) cohesion = inl tt /\
   exists b b2, In b (map fst props) /\ In b2 (map fst props) /\
     ((exists row, dict_get intervals b = inl row /\ ~ In b2 (map fst row)) \/
      (exists row, dict_get cohesion b = inl row /\ ~ In b2 (map fst row)))).
Proof. exact gen_error_kinds. Qed.

(* the outer keys cannot be missing once the checks passed *)
Theorem c20_gen_outer_keys : forall props intervals cohesion b,
  bloc_checks props (map fst intervals) cohesion = inl tt -> In b (map fst props) ->
  (exists row, dict_get intervals b = inl row) /\ (exists row, dict_get cohesion b = inl row).
Proof. exact gen_outer_keys. Qed.

(* complete inner dictionaries: ValueError is the only error *)
Theorem c20_gen_only_value_error : forall props intervals cohesion e,
  intervals_wf intervals -> cohesion_nonneg cohesion ->
  rows_cover intervals (map fst props) -> rows_cover cohesion (map fst props) ->
  gen_construct props intervals cohesion = inr e -> e = EValue.
Proof. exact gen_only_value_error. Qed.

(* ---- (iii) what a successful construction hands to the samplers ---- *)

(* one combined interval per bloc of bloc_voter_prop, in that order; each is the combination of
   the voter bloc's intervals by its cohesion row, is a well-formed interval (the hypothesis of the
   C14/C16 run theorems), has duplicate-free, mutually disjoint supported and zero-support
   candidates, and these are together a rearrangement of all the voter bloc's candidates *)
Theorem c20_gen_success : forall props intervals cohesion out,
  intervals_wf intervals -> cohesion_nonneg cohesion ->
  gen_construct props intervals cohesion = inl out ->
  map fst out = map fst props /\
  forall b r, In (b, r) out ->
    In b (map fst props) /\
    exists is ps,
      bloc_intervals intervals (map fst props) b = inl is /\
      bloc_cohesion cohesion (map fst props) b = inl ps /\
      combine_intervals is ps = inl r /\
      Forall wf_interval is /\ length is = length ps /\ Forall (fun p => 0 <= p) ps /\
      NoDup (concat (map pi_cands is)) /\ sums_to_one (qsum ps) /\
      wf_interval r /\ NoDup (map fst (pi_int r)) /\ NoDup (pi_zero r) /\ NoDup (pi_cands r) /\
      (forall c, In c (map fst (pi_int r)) -> ~ In c (pi_zero r)) /\
      Permutation (pi_cands r) (concat (map pi_cands is)).
Proof. exact gen_success. Qed.

(* ---- the other branch: the values are already PreferenceInterval objects ---- *)
Theorem c20_gen_flat : forall props (intervals : list (positive * pinterval)) cohesion,
  (gen_construct_flat props intervals cohesion = inl intervals <->
   props_ok props /\ names_pi_ok props (map fst intervals) /\ names_coh_ok props cohesion /\
   rows_ok cohesion) /\
  (gen_construct_flat props intervals cohesion = inr EValue <->
   ~ props_ok props \/ ~ names_pi_ok props (map fst intervals) \/ ~ names_coh_ok props cohesion \/
   (exists row, In row cohesion /\ ~ row_ok row)) /\
  (gen_construct_flat props intervals cohesion = inl intervals \/
   gen_construct_flat props intervals cohesion = inr EValue).
Proof. exact gen_flat. Qed.

Print Assumptions c20_gen_checks_first.
Print Assumptions c20_gen_first_failure.
Print Assumptions c20_gen_no_partial.
Print Assumptions c20_gen_refuses_parameters.
Print Assumptions c20_gen_boundary.
Print Assumptions c20_gen_refuses_overlap.
Print Assumptions c20_gen_accepts_iff.
Print Assumptions c20_gen_rejects_iff.
Print Assumptions c20_gen_picked_rows_redundant.
Print Assumptions c20_gen_accepts_iff_dicts.
Print Assumptions c20_gen_error_kinds.
Print Assumptions c20_gen_outer_keys.
Print Assumptions c20_gen_only_value_error.
Print Assumptions c20_gen_success.
Print Assumptions c20_gen_flat.

(* ------------------------------------------------------------------ *)
(* Non-vacuity: two blocs 1, 2 over candidates 1..5 (slate 1 = {1,2,3}, slate 2 = {4,5}); the
   dictionaries list their keys in different orders. *)
Module C20GenExamples.
Local Open Scope positive_scope.

Definition eps : Q := 1 # 1000000000.          (* 1e-9 *)
Definition i11 : pinterval := mkPI [(1, 1 # 4); (3, 3 # 4)] [2].
Definition i12 : pinterval := mkPI [(4, 1 # 2); (5, 1 # 2)] [].
Definition i21 : pinterval := mkPI [(1, 1 # 3); (2, 1 # 3); (3, 1 # 3)] [].
Definition i22 : pinterval := mkPI [(4, 1 # 1)] [5].
Definition g_props : list (positive * Q) := [(1, 7 # 10); (2, 3 # 10)].
Definition g_ints : list (positive * list (positive * pinterval)) :=
  [(2, [(2, i22); (1, i21)]); (1, [(1, i11); (2, i12)])].
Definition g_coh : list (positive * list (positive * Q)) :=
  [(2, [(1, 1 # 5); (2, 4 # 5)]); (1, [(1, 9 # 10); (2, 1 # 10)])].

Ltac in_cases H :=
  repeat (destruct H as [H|H]; [injection H as <- <-|]); try destruct H.

(* the hypotheses of the exactness theorems hold *)
Example ex_gen_wf :
  intervals_wf g_ints /\ cohesion_nonneg g_coh /\ NoDup (map fst g_props) /\
  rows_cover g_ints (map fst g_props) /\ rows_exact g_coh (map fst g_props).
Proof.
  split.
  { intros row [<-|[<-|[]]] x; cbn [snd In]; intros [<-|[<-|[]]]; cbn [snd];
      (split; [intros c v Hin; cbn [pi_int In i11 i12 i21 i22] in Hin; in_cases Hin; reflexivity
              |vm_compute; reflexivity]). }
  split.
  { intros row [<-|[<-|[]]] x; cbn [snd In]; intros [<-|[<-|[]]]; discriminate. }
  split; [cbn; repeat constructor; cbn; intuition discriminate|].
  split.
  { intros row [<-|[<-|[]]] b2; cbn; tauto. }
  intros row [<-|[<-|[]]]; cbn [snd map fst g_props]; (split;
    [repeat constructor; cbn; intuition discriminate|intros x; cbn; tauto]).
Qed.

(* accepted: one combined interval per bloc, in the order of bloc_voter_prop *)
Example ex_gen_accepted :
  gen_construct g_props g_ints g_coh =
    inl [(1, mkPI [(1, 9 # 40); (3, 27 # 40); (4, 1 # 20); (5, 1 # 20)] [2]);
         (2, mkPI [(1, 1 # 15); (2, 1 # 15); (3, 1 # 15); (4, 4 # 5)] [5])].
Proof. vm_compute. reflexivity. Qed.

(* ... so every precondition holds for it (through the exactness theorem) *)
Example ex_gen_preconditions :
  props_ok g_props /\ names_pi_ok g_props (map fst g_ints) /\ names_coh_ok g_props g_coh /\
  rows_ok g_coh /\ blocs_disjoint g_ints (map fst g_props) /\
  picked_rows_ok g_coh (map fst g_props).
Proof.
  pose proof ex_gen_wf as (W1 & W2 & W3 & W4 & W5).
  apply (c20_gen_accepts_iff g_props g_ints g_coh W1 W2 W4).
  - intros row Hrow b2 Hb2. apply (proj2 (W5 row Hrow)). exact Hb2.
  - eexists. exact ex_gen_accepted.
Qed.

(* proportions: 1 + 1e-8 and exactly 1 +- 5e-9 refused, 1 + 4e-9 accepted, 1.3 refused *)
Example ex_gen_props :
  gen_construct [(1, 7 # 10); (2, ((3 # 10) + (1 # 100000000))%Q)] g_ints g_coh = inr EValue /\
  gen_construct [(1, 7 # 10); (2, ((3 # 10) + 5 * eps)%Q)] g_ints g_coh = inr EValue /\
  gen_construct [(1, 7 # 10); (2, ((3 # 10) - 5 * eps)%Q)] g_ints g_coh = inr EValue /\
  gen_construct [(1, 7 # 10); (2, 6 # 10)] g_ints g_coh = inr EValue /\
  (exists out, gen_construct [(1, 7 # 10); (2, ((3 # 10) + 4 * eps)%Q)] g_ints g_coh = inl out) /\
  ~ props_ok [(1, 7 # 10); (2, ((3 # 10) + (1 # 100000000))%Q)].
Proof.
  repeat (split; [vm_compute; reflexivity|]). split; [eexists; vm_compute; reflexivity|].
  apply rounds_to_one_false_iff. vm_compute. reflexivity.
Qed.

(* bloc names: a renamed bloc in the intervals / in the cohesion table; a missing one *)
Example ex_gen_names :
  gen_construct g_props [(3, [(2, i22); (1, i21)]); (1, [(1, i11); (2, i12)])] g_coh = inr EValue /\
  gen_construct g_props [(1, [(1, i11); (2, i12)])] g_coh = inr EValue /\
  gen_construct g_props g_ints [(3, [(1, 1 # 5); (2, 4 # 5)]); (1, [(1, 9 # 10); (2, 1 # 10)])]
    = inr EValue /\
  ~ names_pi_ok g_props [3; 1].
Proof.
  repeat (split; [vm_compute; reflexivity|]).
  apply same_keys_false_iff. vm_compute. reflexivity.
Qed.

(* cohesion rows: the LAST row off by 5e-9 refused, by 4e-9 accepted; a row summing to 2 *)
Example ex_gen_rows :
  gen_construct g_props g_ints
    [(2, [(1, 1 # 5); (2, 4 # 5)]); (1, [(1, 9 # 10); (2, ((1 # 10) - 5 * eps)%Q)])] = inr EValue /\
  (exists out, gen_construct g_props g_ints
    [(2, [(1, 1 # 5); (2, 4 # 5)]); (1, [(1, 9 # 10); (2, ((1 # 10) - 4 * eps)%Q)])] = inl out) /\
  gen_construct g_props g_ints
    [(2, [(1, 1%Q); (2, 1%Q)]); (1, [(1, 9 # 10); (2, 1 # 10)])] = inr EValue.
Proof.
  split; [vm_compute; reflexivity|]. split; [eexists; vm_compute; reflexivity|].
  vm_compute. reflexivity.
Qed.

(* overlap: bloc 2's interval for slate 2 also lists candidate 3 (supported), or candidate 2 with
   zero support; everything else as in the accepted example *)
Example ex_gen_overlap :
  gen_construct g_props
    [(2, [(2, mkPI [(4, 1 # 2); (3, 1 # 2)] [5]); (1, i21)]); (1, [(1, i11); (2, i12)])] g_coh
    = inr EValue /\
  gen_construct g_props
    [(2, [(2, mkPI [(4, 1 # 1)] [5; 2]); (1, i21)]); (1, [(1, i11); (2, i12)])] g_coh
    = inr EValue /\
  overlapping (map pi_cands [i21; mkPI [(4, 1 # 1)] [5; 2]]) /\
  bloc_intervals [(2, [(2, mkPI [(4, 1 # 1)] [5; 2]); (1, i21)]); (1, [(1, i11); (2, i12)])]
                 (map fst g_props) 2 = inl [i21; mkPI [(4, 1 # 1)] [5; 2]].
Proof.
  split; [vm_compute; reflexivity|]. split; [vm_compute; reflexivity|]. split.
  - exists 0%nat, 1%nat, 2. cbn. repeat split; auto.
  - vm_compute. reflexivity.
Qed.

(* an inner dictionary without bloc 2: KeyError, after the checks passed; a cohesion row with an
   extra key sums to one for __init__ but not for combine_preference_intervals: ValueError *)
Example ex_gen_inner_keys :
  gen_construct g_props [(2, [(2, i22); (1, i21)]); (1, [(1, i11)])] g_coh = inr EKey /\
  bloc_checks g_props [2; 1] g_coh = inl tt /\
  gen_construct g_props g_ints
    [(2, [(1, 1 # 5); (2, 4 # 5)]); (1, [(1, 1 # 2); (2, 3 # 10); (3, 1 # 5)])] = inr EValue /\
  bloc_checks g_props (map fst g_ints)
    [(2, [(1, 1 # 5); (2, 4 # 5)]); (1, [(1, 1 # 2); (2, 3 # 10); (3, 1 # 5)])] = inl tt.
Proof. repeat split; vm_compute; reflexivity. Qed.

(* the first failing bloc decides: bloc 1 (first in bloc_voter_prop) has a missing inner key,
   bloc 2 an overlap: KeyError *)
Example ex_gen_first_failure :
  gen_construct g_props
    [(2, [(2, mkPI [(4, 1 # 2); (3, 1 # 2)] [5]); (1, i21)]); (1, [(1, i11)])] g_coh = inr EKey /\
  gen_construct [(2, 3 # 10); (1, 7 # 10)]
    [(2, [(2, mkPI [(4, 1 # 2); (3, 1 # 2)] [5]); (1, i21)]); (1, [(1, i11)])] g_coh = inr EValue.
Proof. repeat split; vm_compute; reflexivity. Qed.

End C20GenExamples.
