(* Properties/C01_stv.v — C01 for the STV family (STV, IRV = m 1, SequentialRCV = TFullWeight):
   a round keeps the profile valid and removes exactly the elected / eliminated candidates (A), the
   invariant of the count (F), the recorded rounds partition the candidates, statuses are
   permanent, exactly m are elected (G), the count terminates (H), with a Droop quota and a
   quota-preserving transfer there is never over-election and the only errors are the documented
   ones (I); the failures of Hare / SequentialRCV / random transfer are exhibited.
   Statements only; proofs are in Proofs/STV_inv.v.  Vocabulary: header of Properties/C02.v, and
     elected_in st / eliminated_in st     candidates elected / eliminated in state st
     all_elected sts / all_eliminated sts the same over a list of states
     elected_upto sts r / eliminated_upto sts r   what get_elected(r) / get_eliminated(r) return
     hist_ok p0 sts   at each earlier time, elected ++ remaining ++ eliminated rearranged cands p0
     stv_inv cfg t N p0 p sts   the invariant of the loop (states newest first), Spec/STVSpec.v *)
From VK Require Import Base Core STV Rules EditSpec STVSpec.
From VK.Proofs Require Import STV_inv STV_final.
From Coq Require Import Permutation.

Section C01.
Variable cand : Type.
Variable ceqb : cand -> cand -> bool.
Hypothesis ceqb_spec : forall a b, reflect (a = b) (ceqb a b).

Notation profile := (profile cand).
Notation estate := (estate cand).
Notation mstate := (mstate cand).
Notation cset := (cset cand).
Notation flat := (flat cand).
Notation total_wt := (total_wt cand).
Notation tally := (tally cand ceqb).
Notation wf_stv0 := (wf_stv0 cand).
Notation state_of := (state_of cand ceqb).
Notation step_ctx := (step_ctx cand ceqb).
Notation script_ok := (script_ok cand).
Notation elected_in := (elected_in cand).
Notation eliminated_in := (eliminated_in cand).
Notation all_elected := (all_elected cand).
Notation elected_upto := (elected_upto cand).
Notation eliminated_upto := (eliminated_upto cand).
Notation stv_inv := (stv_inv cand ceqb).
Notation stv_init := (stv_init cand).
Notation stv_step := (stv_step cand ceqb).
Notation stv_loop := (stv_loop cand ceqb).
Notation run_stv := (run_stv cand ceqb).
Notation count_elected := (count_elected cand).

(* ---------- A: one round ---------- *)

(* a successful round from a valid-or-empty profile with its state returns a valid-or-empty
   profile with its state; the candidates it elected or eliminated are distinct candidates of the
   old profile and the new candidate list is the old one without them *)
Theorem c01_stv_step_wf : forall cfg t (p0 p : profile) prev,
  step_ctx p0 p prev ->
  forall n (s s' : mstate) np st,
  (s_transfer cfg = TRandom -> script_ok s) ->
  stv_step cfg t p0 n p prev s = inl ((np, st), s') ->
  wf_stv0 np /\ state_of np st /\
  NoDup (elected_in st ++ eliminated_in st) /\
  incl (elected_in st ++ eliminated_in st) (cands p) /\
  NoDup (cands np) /\
  (forall c, In c (cands np) <-> In c (cands p) /\ ~ In c (elected_in st ++ eliminated_in st)) /\
  step_ctx p0 np st.
Proof. exact (stv_step_wf cand ceqb ceqb_spec). Qed.

(* ---------- F: the invariant ---------- *)

Theorem c01_stv_invariant_init : forall cfg (p0 : profile) t s0,
  wf_stv0 p0 -> stv_init cfg p0 = inl t -> initial_state cand ceqb p0 = inl s0 ->
  stv_inv cfg t (total_wt (ballots p0)) p0 p0 [s0].
Proof. exact (stv_inv_init cand ceqb). Qed.

Theorem c01_stv_invariant_step : forall cfg t N (p0 p : profile) prev older (s s' : mstate) np st,
  stv_inv cfg t N p0 p (prev :: older) ->
  (s_transfer cfg = TRandom -> script_ok s) ->
  stv_step cfg t p0 (count_elected (prev :: older)) p prev s = inl ((np, st), s') ->
  stv_inv cfg t N p0 np (st :: prev :: older) /\ scr_suffix cand s s'.
Proof. exact (stv_inv_step cand ceqb ceqb_spec). Qed.

(* hence it holds when the loop stops, where exactly m candidates have been elected *)
Theorem c01_stv_invariant : forall fuel cfg t N (p0 p : profile) sts (s s' : mstate) out,
  stv_inv cfg t N p0 p sts -> (s_transfer cfg = TRandom -> script_ok s) ->
  stv_loop fuel cfg t p0 p sts s = inl (out, s') ->
  exists pf stsf, stv_inv cfg t N p0 pf stsf /\ out = rev stsf /\
    count_elected stsf = s_m cfg /\ scr_suffix cand s s'.
Proof. exact (stv_loop_inv cand ceqb ceqb_spec). Qed.

(* ---------- G: the recorded outcome ---------- *)

(* at every recorded round the elected, remaining and eliminated groups together list each
   candidate of the profile exactly once *)
Theorem c01_stv_partition : forall cfg (p : profile) (s s' : mstate) out,
  wf_stv0 p -> (s_transfer cfg = TRandom -> script_ok s) ->
  run_stv cfg p s = inl (out, s') ->
  forall r st, nth_error out r = Some st ->
    Permutation (flat (elected_upto out r) ++ flat (remaining st) ++ flat (eliminated_upto out r))
                (cands p).
Proof. exact (run_stv_partition cand ceqb ceqb_spec). Qed.

(* elected_upto / eliminated_upto are what the Election queries return *)
Theorem c01_stv_queries : forall (sts : list estate) r, (r < length sts)%nat ->
  get_elected cand sts (Z.of_nat r) = inl (elected_upto sts r) /\
  get_eliminated cand sts (Z.of_nat r) = inl (eliminated_upto sts r) /\
  exists st, nth_error sts r = Some st /\ get_remaining cand sts (Z.of_nat r) = inl (remaining st).
Proof. exact (queries_upto cand). Qed.

(* an elected (eliminated) candidate keeps that status in all later rounds; with the partition
   above (NoDup) it is then neither remaining nor in the other list *)
Theorem c01_stv_monotone_elected : forall (out : list estate) r r' c, (r <= r')%nat ->
  In c (flat (elected_upto out r)) -> In c (flat (elected_upto out r')).
Proof. exact (elected_upto_mono cand). Qed.

Theorem c01_stv_monotone_eliminated : forall (out : list estate) r r' c, (r <= r')%nat ->
  In c (flat (eliminated_upto out r)) -> In c (flat (eliminated_upto out r')).
Proof. exact (eliminated_upto_mono cand). Qed.

(* exactly m candidates are elected, all different *)
Theorem c01_stv_count : forall cfg (p : profile) (s s' : mstate) out,
  wf_stv0 p -> (s_transfer cfg = TRandom -> script_ok s) ->
  run_stv cfg p s = inl (out, s') ->
  count_elected out = s_m cfg /\ NoDup (all_elected out).
Proof. exact (run_stv_count cand ceqb ceqb_spec). Qed.

(* ---------- H: termination ---------- *)

Theorem c01_stv_terminates : forall cfg (p : profile) (s : mstate),
  wf_stv0 p -> (s_transfer cfg = TRandom -> script_ok s) -> run_stv cfg p s <> inr EFuel.
Proof. exact (run_stv_no_fuel cand ceqb ceqb_spec). Qed.

(* ---------- I: Droop quota with a quota-preserving transfer ---------- *)

(* in every reachable situation, any set W of distinct candidates at or above the threshold
   together with those already elected fits in the m seats *)
Theorem c01_stv_no_overelection_droop : forall cfg t N (p0 p : profile) sts (W : cset),
  stv_inv cfg t N p0 p sts -> s_transfer cfg <> TFullWeight ->
  N < inject_Z (s_m cfg + 1) * t -> 0 < t ->
  NoDup W -> incl W (cands p) ->
  (forall w, In w W -> t <= tally w (ballots p)) ->
  W <> [] -> (Z.of_nat (length W) + count_elected sts <= s_m cfg)%Z.
Proof. exact (droop_seats cand ceqb ceqb_spec). Qed.

(* hence, for a valid-or-empty profile, STV with the Droop quota and the fractional or random
   transfer never raises IndexError / ZeroDivisionError / KeyError and never loops; what remains:
   m out of range (ValueError); a script that does not fit (EScript: only in replays); in
   one-by-one mode a tie for the seat with tiebreak None (ValueError) or an unknown tiebreak name;
   and for the random transfer non-integral weights (TypeError) or too few transferable ballots
   (ValueError) *)
Theorem c01_stv_droop_errors : forall cfg (p : profile) (s : mstate) e,
  wf_stv0 p -> s_quota cfg = QDroop -> s_transfer cfg <> TFullWeight ->
  (s_transfer cfg = TRandom -> script_ok s) ->
  run_stv cfg p s = inr e ->
  (e = EValue /\ ~ (1 <= s_m cfg <= Z.of_nat (length (cands p)))%Z) \/
  e = EScript \/
  (e = EValue /\ s_simul cfg = false /\ (s_tiebreak cfg = None \/ s_tiebreak cfg = Some TBInvalid)) \/
  (s_transfer cfg = TRandom /\ (e = EType \/ e = EValue)).
Proof. exact (droop_run_errors cand ceqb ceqb_spec). Qed.

End C01.

Print Assumptions c01_stv_step_wf.
Print Assumptions c01_stv_invariant_init.
Print Assumptions c01_stv_invariant_step.
Print Assumptions c01_stv_invariant.
Print Assumptions c01_stv_partition.
Print Assumptions c01_stv_queries.
Print Assumptions c01_stv_monotone_elected.
Print Assumptions c01_stv_monotone_eliminated.
Print Assumptions c01_stv_count.
Print Assumptions c01_stv_terminates.
Print Assumptions c01_stv_no_overelection_droop.
Print Assumptions c01_stv_droop_errors.

(* ---------- what does NOT hold, on the faithful model ---------- *)
Open Scope positive_scope.

Definition bal1 (r : list positive) (w : Q) : ballot positive :=
  mkBallot (map (fun c => [c]) r) w [] None None.
Definition no_script : mstate positive := mkM [] [].

Definition valid (p : profile positive) : Prop := wf_stv_profile positive p.
Ltac valid := apply (wf_stv_profile_b_ok positive Pos.eqb Pos.eqb_spec); vm_compute; reflexivity.

(* Hare quota: ballots A, B, C of weight 1, two seats: quota floor(3/2) = 1, all three reach it and
   are elected at once; the loop then never sees "= 2" and dies with IndexError *)
Theorem c01_stv_hare_overelection_refuted : exists cfg p,
  valid p /\ s_quota cfg = QHare /\ s_transfer cfg = TFractional /\
  (1 <= s_m cfg <= Z.of_nat (length (cands p)))%Z /\
  run_stv positive Pos.eqb cfg p no_script = inr EIndex.
Proof.
  exists (mkStv 2%Z QHare true TFractional None),
         (mkProfile [bal1 [1] 1%Q; bal1 [2] 1%Q; bal1 [3] 1%Q] [1; 2; 3]).
  split; [valid|]. repeat split; try (vm_compute; reflexivity); vm_compute; discriminate.
Qed.

(* SequentialRCV (full-weight transfer), Droop: A>B x5, A>C x4, two seats, quota 4: A is elected,
   its 9 votes move on at full weight, then B (5) and C (4) both reach the quota: three elected *)
Theorem c01_seqrcv_overelection_refuted : exists cfg p,
  valid p /\ s_quota cfg = QDroop /\ s_transfer cfg = TFullWeight /\
  (1 <= s_m cfg <= Z.of_nat (length (cands p)))%Z /\
  run_stv positive Pos.eqb cfg p no_script = inr EIndex.
Proof.
  exists (mkStv 2%Z QDroop true TFullWeight None),
         (mkProfile [bal1 [1; 2] 5%Q; bal1 [1; 3] 4%Q] [1; 2; 3]).
  split; [valid|]. repeat split; try (vm_compute; reflexivity); vm_compute; discriminate.
Qed.

(* random transfer: A x8 (bullet votes), A>B x2, B x3, C x2, two seats, quota 6: A's surplus is 4
   but only 2 of its ballots are transferable: random.sample raises ValueError, before any tie *)
Theorem c01_random_transfer_shortage_refuted : exists cfg p,
  valid p /\ integral_weights positive p /\ s_quota cfg = QDroop /\ s_transfer cfg = TRandom /\
  (1 <= s_m cfg <= Z.of_nat (length (cands p)))%Z /\
  run_stv positive Pos.eqb cfg p no_script = inr EValue.
Proof.
  exists (mkStv 2%Z QDroop true TRandom None),
         (mkProfile [bal1 [1] 8%Q; bal1 [1; 2] 2%Q; bal1 [2] 3%Q; bal1 [3] 2%Q] [1; 2; 3]).
  split; [valid|]. split; [repeat constructor|].
  repeat split; try (vm_compute; reflexivity); vm_compute; discriminate.
Qed.

(* Hare quota 0: one ballot A, candidates A, B, C, two seats: quota floor(1/2) = 0, the zero-vote
   candidates "reach" it and their transfer value divides by zero *)
Theorem c01_hare_zero_quota_refuted : exists cfg p,
  valid p /\ s_quota cfg = QHare /\ s_transfer cfg = TFractional /\
  (1 <= s_m cfg <= Z.of_nat (length (cands p)))%Z /\
  run_stv positive Pos.eqb cfg p no_script = inr EZeroDiv.
Proof.
  exists (mkStv 2%Z QHare true TFractional None), (mkProfile [bal1 [1] 1%Q] [1; 2; 3]).
  split; [valid|]. repeat split; try (vm_compute; reflexivity); vm_compute; discriminate.
Qed.

Print Assumptions c01_stv_hare_overelection_refuted.
Print Assumptions c01_seqrcv_overelection_refuted.
Print Assumptions c01_random_transfer_shortage_refuted.
Print Assumptions c01_hare_zero_quota_refuted.

(* ---------- non-vacuity: a count with a quota election, two eliminations and a default election ---------- *)

(* A x5, B x3, C x2, D x1 ; two seats ; Droop quota floor(11/3)+1 = 4 *)
Definition ex1_p : profile positive :=
  mkProfile [bal1 [1] 5%Q; bal1 [2] 3%Q; bal1 [3] 2%Q; bal1 [4] 1%Q] [1; 2; 3; 4].
Definition ex1_cfg : stv_cfg := mkStv 2%Z QDroop true TFractional None.

Example ex1_valid : valid ex1_p.
Proof. valid. Qed.

Example ex1_run :
  match run_stv positive Pos.eqb ex1_cfg ex1_p no_script with
  | inl (sts, _) =>
      map (fun st => (elected st, eliminated st)) sts =
      [([[]], [[]]); ([[1]], [[]]); ([[]], [[4]]); ([[]], [[3]]); ([[2]], [[]])] /\
      count_elected positive sts = 2%Z /\
      elected_upto positive sts 4 = [[1]; [2]] /\ eliminated_upto positive sts 4 = [[3]; [4]]
  | inr _ => False
  end.
Proof. vm_compute. repeat split. Qed.

Example ex1_inv :
  match stv_init positive ex1_cfg ex1_p, initial_state positive Pos.eqb ex1_p with
  | inl t, inl s0 => stv_inv positive Pos.eqb ex1_cfg t (total_wt positive (ballots ex1_p)) ex1_p ex1_p [s0]
  | _, _ => False
  end.
Proof.
  destruct (stv_init positive ex1_cfg ex1_p) as [t|e] eqn:Ei; [|vm_compute in Ei; discriminate].
  destruct (initial_state positive Pos.eqb ex1_p) as [s0|e] eqn:E0; [|vm_compute in E0; discriminate].
  apply (stv_inv_init positive Pos.eqb ex1_cfg ex1_p t s0); [apply ex1_valid|exact Ei|exact E0].
Qed.
