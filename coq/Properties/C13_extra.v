(* Properties/C13_extra.v — C13, error runs.  Statements only; proofs are in Proofs/C13_extra.v.

   Properties/C13.v characterises the SUCCESSFUL runs of TopTwo and Alaska ([= inl (sts, s')]) as
   the composition of their component elections; c13_toptwo_tie covers one error path (exact tie,
   no tiebreak rule).  Here the error runs are characterised in full, for every tiebreak setting,
   every m_1, m_2, every STV configuration and every script: the composite raises e exactly when
   the first component that fails raises e -- argument check, ranking check, round 0, the
   Plurality stage (its Plurality election, the removal of the losers, the first-place tally of
   the reduced profile), the second Plurality / the STV on the reduced profile run from the monad
   state the stage left, or the get_profile() replay.  Together with c13_toptwo / c13_alaska this
   gives equality with the separately run component elections on all paths. *)
From VK Require Import Base Core STV Pairwise Rules PV Election.
From VK.Proofs Require Import C13_extra.

Section C13Extra.
Variable cand : Type.
Variable ceqb : cand -> cand -> bool.

Notation profile := (profile cand).
Notation estate := (estate cand).
Notation mstate := (mstate cand).
Notation flat := (flat cand).
Notation ranking_validate := (ranking_validate cand).
Notation stv_init := (stv_init cand).
Notation stv_replay := (stv_replay cand ceqb).
Notation run_stv := (run_stv cand ceqb).
Notation run_plurality := (run_plurality cand ceqb).
Notation run_toptwo := (run_toptwo cand ceqb).
Notation run_alaska := (run_alaska cand ceqb).
Notation plurality_stage := (plurality_stage cand ceqb).
Notation one_shot_step := (one_shot_step cand ceqb).
Notation round0 := (round0 cand ceqb).
Notation first_place_votes := (first_place_votes cand ceqb).
Notation remove_cand_prof := (remove_cand_prof cand ceqb).

(* the Plurality stage shared by TopTwo and Alaska fails with e iff its Plurality(m) election
   fails with e, or that election returns two states and removing its losers from p fails with e,
   or the first-place tally of the reduced profile fails with e *)
Theorem c13_plurality_stage_error : forall m tb (p : profile) prev s e,
  plurality_stage m tb p prev s = inr e <->
  run_plurality m tb p s = inr e \/
  exists q0 q1 sa,
    run_plurality m tb p s = inl ([q0; q1], sa) /\
    (remove_cand_prof (flat (remaining q1)) true false p = inr e \/
     exists p1, remove_cand_prof (flat (remaining q1)) true false p = inl p1 /\
                first_place_votes p1 = inr e).
Proof. exact (plurality_stage_error_proof cand ceqb). Qed.

(* TopTwo raises e iff the first failing component raises e: the ranking check, round 0, the
   Plurality(2) stage, Plurality(1) on the reduced profile (run from the monad state [sa] the
   stage left), or the replay made by plurality.get_profile() *)
Theorem c13_toptwo_error : forall tb (p : profile) s e,
  run_toptwo tb p s = inr e <->
  ranking_validate p = inr e \/
  ranking_validate p = inl tt /\
  (round0 SKFpv p = inr e \/
   exists s0, round0 SKFpv p = inl s0 /\
   (plurality_stage 2 tb p s0 s = inr e \/
    exists p1 s1 sa, plurality_stage 2 tb p s0 s = inl ((p1, s1), sa) /\
    (run_plurality 1 tb p1 sa = inr e \/
     exists q0 q1 sb, run_plurality 1 tb p1 sa = inl ([q0; q1], sb) /\
                      one_shot_step SKFpv 1 tb p1 q0 sb = inr e))).
Proof. exact (toptwo_error_proof cand ceqb). Qed.

(* Alaska raises e iff the first failing component raises e: the argument check on m_1, m_2, the
   ranking check, round 0, the Plurality(m_1) stage, the quota of STV(m_2) on the reduced profile,
   the STV(m_2) election itself (run from the monad state [sa] the stage left), or the replay made
   by stv.get_profile() *)
Theorem c13_alaska_error : forall m1 m2 cfg (p : profile) s e,
  run_alaska m1 m2 cfg p s = inr e <->
  alaska_args m1 m2 = inr e \/
  alaska_args m1 m2 = inl tt /\
  (ranking_validate p = inr e \/
   ranking_validate p = inl tt /\
   (round0 SKFpv p = inr e \/
    exists s0, round0 SKFpv p = inl s0 /\
    (plurality_stage m1 (s_tiebreak cfg) p s0 s = inr e \/
     exists p1 s1 sa, plurality_stage m1 (s_tiebreak cfg) p s0 s = inl ((p1, s1), sa) /\
     (stv_init (with_m cfg m2) p1 = inr e \/
      exists t, stv_init (with_m cfg m2) p1 = inl t /\
      (run_stv (with_m cfg m2) p1 sa = inr e \/
       exists ssts sb, run_stv (with_m cfg m2) p1 sa = inl (ssts, sb) /\
         stv_replay (with_m cfg m2) t p1 [] p1 (removelast ssts) sb = inr e))))).
Proof. exact (alaska_error_proof cand ceqb). Qed.

End C13Extra.

Print Assumptions c13_plurality_stage_error.
Print Assumptions c13_toptwo_error.
Print Assumptions c13_alaska_error.

(* ------------------------------------------------------------------ *)
(* Non-vacuity (cand := positive). *)

Definition rbx (r : list (list positive)) (w : Q) : ballot positive := plain_ballot positive r w.
Definition stx : Core.mstate positive := mkM [] [].

(* first places 3, 3, 1; candidates 1 and 2 survive and tie 3 : 3 head to head *)
Definition ex_px : Core.profile positive :=
  mkProfile [rbx [[1];[2];[3]]%positive 3; rbx [[2];[3];[1]]%positive 3; rbx [[3]]%positive 1]
            [1;2;3]%positive.

(* TopTwo without a tiebreak rule: every component up to the Plurality(2) stage succeeds, the
   separately run Plurality(1) on the reduced profile raises ValueError, and so does TopTwo
   (fourth alternative of c13_toptwo_error) *)
Example ex_toptwo_error :
  exists s0 p1 s1 sa,
    STV.ranking_validate positive ex_px = inl tt /\
    Rules.round0 positive Pos.eqb SKFpv ex_px = inl s0 /\
    Rules.plurality_stage positive Pos.eqb 2 None ex_px s0 stx = inl ((p1, s1), sa) /\
    cands p1 = [1; 2]%positive /\
    Rules.run_plurality positive Pos.eqb 1 None p1 sa = inr EValue /\
    Rules.run_toptwo positive Pos.eqb None ex_px stx = inr EValue.
Proof.
  do 4 eexists. split; [reflexivity|]. split; [vm_compute; reflexivity|].
  split; [vm_compute; reflexivity|]. split; [reflexivity|]. split; vm_compute; reflexivity.
Qed.

(* Alaska(m_1 = 2, m_2 = 1) on the same profile with an empty script: the Plurality(2) stage
   succeeds without a tiebreak, the separately run STV for one seat on the reduced profile must
   break the 3 : 3 tie by a random draw, finds the script empty, and raises; Alaska raises the same
   error (sixth alternative of c13_alaska_error) *)
Example ex_alaska_error :
  let cfg := mkStv 1 QDroop true TFractional None in
  exists s0 p1 s1 sa t,
    alaska_args 2 1 = inl tt /\
    STV.ranking_validate positive ex_px = inl tt /\
    Rules.round0 positive Pos.eqb SKFpv ex_px = inl s0 /\
    Rules.plurality_stage positive Pos.eqb 2 None ex_px s0 stx = inl ((p1, s1), sa) /\
    tiebreaks s1 = [] /\
    STV.stv_init positive (with_m cfg 1) p1 = inl t /\ t == 4 /\
    STV.run_stv positive Pos.eqb (with_m cfg 1) p1 sa = inr EScript /\
    Rules.run_alaska positive Pos.eqb 2 1 cfg ex_px stx = inr EScript.
Proof.
  cbv zeta. do 5 eexists. split; [reflexivity|]. split; [reflexivity|].
  split; [vm_compute; reflexivity|]. split; [vm_compute; reflexivity|]. split; [reflexivity|].
  split; [vm_compute; reflexivity|]. split; [reflexivity|]. split; vm_compute; reflexivity.
Qed.

(* m_1 < m_2: the argument check raises ValueError and so does Alaska (first alternative) *)
Example ex_alaska_args_error :
  alaska_args 1 2 = inr EValue /\
  Rules.run_alaska positive Pos.eqb 1 2 (mkStv 1 QDroop true TFractional None) ex_px stx
  = inr EValue.
Proof. split; vm_compute; reflexivity. Qed.
