(* Properties/C09.v — property C09: round-by-round queries on a finished election are consistent
   and pure.

   Subject: the query functions of models.py as modelled in Model/Rules.v ([norm_index],
   [get_elected], [get_eliminated], [get_remaining], [get_ranking], [status_scan],
   [get_status]) and Model/Election.v ([get_profile]).  Unless a theorem says otherwise the list
   [sts] of round records is ARBITRARY (not assumed to come from a run).
   Vocabulary ([in_range], [round_of], [is_sentinel], [elected_upto], [eliminated_upto],
   [in_elected] ..., [last_with], [settled_once]) is in Spec/QuerySpec.v, written from the Python
   comprehensions of models.py.  Proofs: Proofs/C09_queries.v (and Proofs/C10_script.v for the
   locality of the draw monad).

   Purity.  In the model the election object is the immutable triple (rule, profile, sts); the
   queries get_elected / get_eliminated / get_remaining / get_ranking / get_status are plain
   functions of (sts, index): they neither receive nor return any state, so no sequence of calls
   can change the records or a later answer.  The only stateful query is get_profile, which
   replays steps in the draw monad; [c09_pure] states what purity means for it. *)
From Coq Require Import List ZArith QArith Bool Permutation.
From VK Require Import Base Core STV Pairwise Rules PV Election.
From VK.Spec Require Import QuerySpec.
From VK.Proofs Require Import C09_queries.
Import ListNotations.

Section C09.
Variable cand : Type.
Variable ceqb : cand -> cand -> bool.
Hypothesis ceqb_spec : forall a b, reflect (a = b) (ceqb a b).

Notation estate := (estate cand).
Notation ranking := (ranking cand).
Notation mstate := (mstate cand).

(* ---------- B1: negative indices ---------- *)

(* index -i (1 <= i <= len) is answered exactly as index len - i, by every query *)
Theorem c09_negative_index :
  forall (sts : list estate) (i : Z),
    (0 < i <= Z.of_nat (length sts))%Z ->
    get_elected cand sts (- i) = get_elected cand sts (Z.of_nat (length sts) - i) /\
    get_eliminated cand sts (- i) = get_eliminated cand sts (Z.of_nat (length sts) - i) /\
    get_remaining cand sts (- i) = get_remaining cand sts (Z.of_nat (length sts) - i) /\
    get_ranking cand sts (- i) = get_ranking cand sts (Z.of_nat (length sts) - i) /\
    (forall cs, get_status cand ceqb cs sts (- i)
                = get_status cand ceqb cs sts (Z.of_nat (length sts) - i)) /\
    (forall r p, get_profile cand ceqb r p sts (- i)
                 = get_profile cand ceqb r p sts (Z.of_nat (length sts) - i)).
Proof. exact (negative_index cand ceqb). Qed.

(* every valid index is answered as the round it addresses *)
Theorem c09_canonical_index :
  forall (sts : list estate) (i : Z),
    in_range (length sts) i ->
    let j := Z.of_nat (round_of (length sts) i) in
    get_elected cand sts i = get_elected cand sts j /\
    get_eliminated cand sts i = get_eliminated cand sts j /\
    get_remaining cand sts i = get_remaining cand sts j /\
    get_ranking cand sts i = get_ranking cand sts j /\
    (forall cs, get_status cand ceqb cs sts i = get_status cand ceqb cs sts j) /\
    (forall r p, get_profile cand ceqb r p sts i = get_profile cand ceqb r p sts j).
Proof. exact (canonical_index cand ceqb). Qed.

(* ---------- B2: IndexError exactly outside [-len, len-1] ---------- *)

(* for get_profile only "out of range => IndexError" is claimed: an in-range replay can fail with
   other errors (and a replayed step can itself raise IndexError) *)
Theorem c09_out_of_range :
  forall (sts : list estate) (i : Z),
    let n := length sts in
    let out := (i < - Z.of_nat n \/ Z.of_nat n - 1 < i)%Z in
    (get_elected cand sts i = inr EIndex <-> out) /\
    (get_eliminated cand sts i = inr EIndex <-> out) /\
    (get_remaining cand sts i = inr EIndex <-> out) /\
    (get_ranking cand sts i = inr EIndex <-> out) /\
    (forall cs, get_status cand ceqb cs sts i = inr EIndex <-> out) /\
    (out -> forall r p (s : mstate), get_profile cand ceqb r p sts i s = inr EIndex) /\
    (in_range n i ->
       (exists e, get_elected cand sts i = inl e) /\
       (exists x, get_eliminated cand sts i = inl x) /\
       (exists m, get_remaining cand sts i = inl m) /\
       (exists k, get_ranking cand sts i = inl k) /\
       (forall cs, exists t, get_status cand ceqb cs sts i = inl t)).
Proof. exact (out_of_range cand ceqb). Qed.

(* ---------- B3: the cumulative answers ---------- *)

(* closed forms at any valid index, r being the round it addresses and s the record of round r:
   elected = the non-sentinel elected fields of rounds 0..r in round order; eliminated = the
   non-sentinel eliminated fields of rounds r..0, each reversed; remaining = the field of round r;
   ranking = the non-empty groups of elected ++ remaining ++ eliminated; status = one row per
   candidate of the ranking, in that order, computed by the scan over rounds 1..r *)
Theorem c09_cumulative :
  forall (sts : list estate) (i : Z),
    in_range (length sts) i ->
    let r := round_of (length sts) i in
    exists s, nth_error sts r = Some s /\
      get_elected cand sts i = inl (elected_upto cand sts r) /\
      get_eliminated cand sts i = inl (eliminated_upto cand sts r) /\
      get_remaining cand sts i = inl (remaining s) /\
      get_ranking cand sts i =
        inl (filter nonempty
               (elected_upto cand sts r ++ remaining s ++ eliminated_upto cand sts r)) /\
      forall cs, get_status cand ceqb cs sts i =
        inl (map (fun c => (c, status_scan cand ceqb (firstn r (tl sts)) 1%Z c (1, 0)%Z))
                 (flat cand (filter nonempty
                    (elected_upto cand sts r ++ remaining s ++ eliminated_upto cand sts r)))).
Proof. exact (cumulative_at_index cand ceqb). Qed.

(* consistency between rounds: round r+1 appends its elected field and prepends its reversed
   eliminated field; hence elected lists grow by suffixes and eliminated lists by prefixes *)
Theorem c09_cumulative_rounds :
  forall (sts : list estate),
    (forall s0 rest, sts = s0 :: rest ->
       elected_upto cand sts 0 = (if is_sentinel cand (elected s0) then [] else elected s0) /\
       eliminated_upto cand sts 0
         = (if is_sentinel cand (eliminated s0) then [] else rev (eliminated s0))) /\
    (forall r s, nth_error sts (S r) = Some s ->
       elected_upto cand sts (S r)
         = elected_upto cand sts r ++ (if is_sentinel cand (elected s) then [] else elected s) /\
       eliminated_upto cand sts (S r)
         = (if is_sentinel cand (eliminated s) then [] else rev (eliminated s))
           ++ eliminated_upto cand sts r) /\
    (forall i j, (i <= j)%nat ->
       (exists l, elected_upto cand sts j = elected_upto cand sts i ++ l) /\
       (exists l, eliminated_upto cand sts j = l ++ eliminated_upto cand sts i)) /\
    (forall r c,
       (In c (flat cand (elected_upto cand sts r)) <->
        exists s, In s (firstn (S r) sts) /\ in_elected cand c s) /\
       (In c (flat cand (eliminated_upto cand sts r)) <->
        exists s, In s (firstn (S r) sts) /\ in_eliminated cand c s)).
Proof.
  intros sts. split; [|split; [|split]].
  - intros s0 rest ->. apply upto_zero.
  - intros r s H. split; [apply elected_upto_step|apply eliminated_upto_step]; exact H.
  - intros i j H. apply upto_monotone. exact H.
  - intros r c. split; [apply in_elected_upto|apply in_eliminated_upto].
Qed.

(* ---------- status ---------- *)

(* the table lists exactly the candidates of get_ranking, in that order, each with the result of
   the scan over the records of rounds 1..r *)
Theorem c09_status_listing :
  forall cs (sts : list estate) (i : Z) order t,
    get_ranking cand sts i = inl order -> get_status cand ceqb cs sts i = inl t ->
    map fst t = flat cand order /\
    Forall (fun e => snd e = status_scan cand ceqb (firstn (round_of (length sts) i) (tl sts))
                                         1%Z (fst e) (1, 0)%Z) t.
Proof. exact (status_listing cand ceqb). Qed.

(* the exact semantics of the scan (last writer wins), for ANY list l of records, read as rounds
   1, 2, ..., |l|.  Code: 3 iff some round eliminates c and no later round elects or eliminates
   it; 2 iff some round elects c without also eliminating it (the eliminated field is written
   after the elected field of the same round) and no later round elects or eliminates it; 1 iff
   no round does either.  Round: the number of the last round naming c in any of its three
   fields, 0 if there is none. *)
Theorem c09_status_fold :
  forall (c : cand) (l : list estate),
    let st := status_scan cand ceqb l 1%Z c (1, 0)%Z in
    (fst st = st_remaining \/ fst st = st_elected \/ fst st = st_eliminated) /\
    (fst st = st_remaining <-> Forall (fun s => ~ touched cand c s) l) /\
    (fst st = st_elected <->
       exists l1 s, last_with cand (touched cand c)
                              (fun s => in_elected cand c s /\ ~ in_eliminated cand c s) l l1 s) /\
    (fst st = st_eliminated <->
       exists l1 s, last_with cand (touched cand c) (in_eliminated cand c) l l1 s) /\
    (snd st = 0%Z <-> Forall (fun s => ~ seen cand c s) l) /\
    (forall l1 s, last_with cand (seen cand c) (seen cand c) l l1 s ->
                  snd st = Z.of_nat (S (length l1))).
Proof.
  intros c l st.
  destruct (status_code_spec cand ceqb ceqb_spec c l) as [H1 [H2 H3]].
  destruct (status_round_spec cand ceqb ceqb_spec c l) as [R0 R1].
  split; [exact (status_code_range cand ceqb ceqb_spec c l)|].
  split; [exact H1|]. split; [exact H2|]. split; [exact H3|]. split; [exact R0|exact R1].
Qed.

(* under the partition invariant for c on rounds 1..r (and the round-0 record electing and
   eliminating nobody, as every rule's initial state does): Elected iff c is in get_elected,
   Eliminated iff c is in get_eliminated, a candidate remaining in round r is Remaining with
   round r, a listed candidate with status Remaining is in get_remaining, and the recorded round
   of an elected / eliminated candidate is the round that elected / eliminated it *)
Theorem c09_status_partition :
  forall (c : cand) (s0 : estate) (rest : list estate) (r : nat) (sr : estate),
    flat cand (elected s0) = [] -> flat cand (eliminated s0) = [] ->
    nth_error (s0 :: rest) r = Some sr ->
    settled_once cand c (firstn r rest) ->
    let sts := s0 :: rest in
    let st := status_scan cand ceqb (firstn r rest) 1%Z c (1, 0)%Z in
    (fst st = st_elected <-> In c (flat cand (elected_upto cand sts r))) /\
    (fst st = st_eliminated <-> In c (flat cand (eliminated_upto cand sts r))) /\
    (In c (flat cand (remaining sr)) -> fst st = st_remaining /\ snd st = Z.of_nat r) /\
    (fst st = st_remaining ->
     In c (flat cand (filter nonempty
            (elected_upto cand sts r ++ remaining sr ++ eliminated_upto cand sts r))) ->
     In c (flat cand (remaining sr))) /\
    (forall j s, (1 <= j <= r)%nat -> nth_error sts j = Some s -> touched cand c s ->
                 snd st = Z.of_nat j).
Proof. exact (status_partition cand ceqb ceqb_spec). Qed.

(* ---------- B4: purity of get_profile ---------- *)

(* The answer of get_profile depends on the monad state only through the draws it consumes:
   (1) it is determined by the consumed prefix of the script, wherever it is asked;
   (2) if it consumed no draw — always the case for a replay of rounds that needed no random
       choice — it left the state untouched and returns the same profile from EVERY state, in
       particular from the state left by any sequence of earlier queries: for any two query
       histories the answer to the same (rule, profile, records, index) is the same.
   Holds for every rule (STV, Alaska, TopTwo, the random dictators included). *)
Theorem c09_pure :
  forall r p (sts : list estate) (i : Z) (s : mstate) a s',
    get_profile cand ceqb r p sts i s = inl (a, s') ->
    (exists used calls,
       scr s = used ++ scr s' /\ lg s' = calls ++ lg s /\ length calls = length used /\
       forall (s2 : mstate) rest, scr s2 = used ++ rest ->
         get_profile cand ceqb r p sts i s2 = inl (a, mkM rest (calls ++ lg s2))) /\
    (scr s' = scr s ->
       s' = s /\ forall s2 : mstate, get_profile cand ceqb r p sts i s2 = inl (a, s2)).
Proof.
  intros r p sts i s a s' H. split.
  - exact (get_profile_prefix cand ceqb r p sts i s a s' H).
  - intros Hscr. exact (get_profile_no_draw cand ceqb r p sts i s a s' H Hscr).
Qed.

(* ---------- B5: one-shot rules (Plurality/SNTV, Borda, the rating family) ---------- *)

(* DESIGN.md asks for c09_profile_cands / c09_rescoring for every rule (STV, Alaska, TopTwo,
   CondoBorda, DominatingSets, the dictators):
     cands (get_profile r) ~ flat (remaining states[r])  and  score (get_profile r) = scores states[r]
   for every round r of a finished election whose rounds drew nothing.  Only the one-shot rules
   are covered here; the multi-round rules (induction over stv_replay / replay_steps against the
   run) are not proved in this file. *)

(* if the run recorded no tiebreak then it consumed no draw, get_profile(0) is the input profile,
   get_profile(1) = get_profile(-1) is — from every state — a profile np whose re-scoring with the
   rule's score function is the tally recorded for round 1, and whose candidates are exactly the
   candidates remaining after round 1 (when there are any; with none left the constructor
   falls back on the candidates cast) *)
Theorem c09_profile_cands_oneshot :
  forall r p k m tb (s s' : mstate) (s0 s1 : estate),
    one_shot_kind cand r p = Some (k, m, tb) ->
    run_rule cand ceqb r p s = inl ([s0; s1], s') ->
    tiebreaks s1 = [] ->
    s' = s /\
    (forall s2 : mstate, get_profile cand ceqb r p [s0; s1] 0 s2 = inl (p, s2)) /\
    exists np,
      (forall s2 : mstate, get_profile cand ceqb r p [s0; s1] 1 s2 = inl (np, s2)) /\
      (forall s2 : mstate, get_profile cand ceqb r p [s0; s1] (-1) s2 = inl (np, s2)) /\
      score_fn cand ceqb k np = inl (escores s1) /\
      (NoDup (cands p) -> flat cand (remaining s1) <> [] ->
       Permutation (cands np) (flat cand (remaining s1)) /\ NoDup (cands np)).
Proof. exact (oneshot_replay cand ceqb ceqb_spec). Qed.

End C09.

Print Assumptions c09_negative_index.
Print Assumptions c09_canonical_index.
Print Assumptions c09_out_of_range.
Print Assumptions c09_cumulative.
Print Assumptions c09_cumulative_rounds.
Print Assumptions c09_status_listing.
Print Assumptions c09_status_fold.
Print Assumptions c09_status_partition.
Print Assumptions c09_pure.
Print Assumptions c09_profile_cands_oneshot.

(* ---------- non-vacuity ---------- *)

Definition xA : positive := 1%positive.
Definition xB : positive := 2%positive.
Definition xC : positive := 3%positive.

(* three records: round 0, A elected in round 1, C eliminated in round 2 *)
Definition t0 : estate positive := mkState 0 [[xA]; [xB]; [xC]] [[]] [[]] [] [].
Definition t1 : estate positive := mkState 1 [[xB]; [xC]] [[xA]] [[]] [] [].
Definition t2 : estate positive := mkState 2 [[xB]] [[]] [[xC]] [] [].
Definition tsts := [t0; t1; t2].

Example ex_queries :
  get_elected positive tsts (-1) = inl [[xA]] /\
  get_elected positive tsts 0 = inl [] /\
  get_eliminated positive tsts (-1) = inl [[xC]] /\
  get_eliminated positive tsts 1 = inl [] /\
  get_remaining positive tsts (-2) = inl [[xB]; [xC]] /\
  get_ranking positive tsts 2 = inl [[xA]; [xB]; [xC]] /\
  get_status positive Pos.eqb [xA; xB; xC] tsts (-1)
    = inl [(xA, (2, 1)%Z); (xB, (1, 2)%Z); (xC, (3, 2)%Z)] /\
  get_status positive Pos.eqb [xA; xB; xC] tsts 1
    = inl [(xA, (2, 1)%Z); (xB, (1, 1)%Z); (xC, (1, 1)%Z)] /\
  get_elected positive tsts 3 = inr EIndex /\
  get_ranking positive tsts (-4) = inr EIndex /\
  get_elected positive (@nil (estate positive)) 0 = inr EIndex /\
  get_elected positive (@nil (estate positive)) (-1) = inr EIndex.
Proof. repeat split. Qed.

Example ex_in_range : in_range (length tsts) (-3) /\ round_of (length tsts) (-3) = 0%nat /\
                      in_range (length tsts) 2 /\ ~ in_range (length tsts) 3.
Proof. unfold in_range. cbn. repeat split; try discriminate. intros [_ H]. apply H. reflexivity. Qed.

(* the partition invariant holds for A (elected in round 1) on rounds 1..2 *)
Example ex_settled : settled_once positive xA [t1; t2].
Proof.
  intros l1 s l2 E Ht.
  destruct l1 as [|a [|b [|c l1]]]; inversion E; subst; clear E.
  - repeat split.
    + intros [_ H]. cbn in H. exact H.
    + intros H. cbn in H. unfold xA, xB, xC in H. intuition discriminate.
    + repeat constructor. intros H. unfold seen, touched, in_elected, in_eliminated, in_remaining in H.
      cbn in H. unfold xA, xB, xC in H. intuition discriminate.
  - exfalso. unfold touched, in_elected, in_eliminated in Ht. cbn in Ht. unfold xA, xC in Ht.
    intuition discriminate.
Qed.

(* a one-shot election without tiebreak: the hypotheses of c09_profile_cands_oneshot hold *)
Definition tprof : profile positive :=
  mkProfile [plain_ballot positive [[xA]; [xB]] 3; plain_ballot positive [[xB]; [xA]] 2;
             plain_ballot positive [[xC]] 1] [xA; xB; xC].

Example ex_oneshot :
  exists s0 s1,
    one_shot_kind positive (RPlurality 1 None) tprof = Some (SKFpv, 1%Z, None) /\
    run_rule positive Pos.eqb (RPlurality 1 None) tprof (mkM [] [])
      = inl ([s0; s1], mkM [] []) /\
    tiebreaks s1 = [] /\ NoDup (cands tprof) /\ flat positive (remaining s1) <> [] /\
    remaining s1 = [[xB]; [xC]] /\
    exists np, get_profile positive Pos.eqb (RPlurality 1 None) tprof [s0; s1] (-1) (mkM [] [])
               = inl (np, mkM [] []) /\ cands np = [xB; xC].
Proof.
  assert (E : exists sts, run_rule positive Pos.eqb (RPlurality 1 None) tprof (mkM [] [])
                          = inl (sts, mkM [] [])).
  { vm_compute. eexists. reflexivity. }
  destruct E as [sts E]. vm_compute in E. inversion E as [Es]. clear E.
  eexists. eexists. split; [reflexivity|]. split; [vm_compute; reflexivity|].
  split; [reflexivity|]. split.
  { unfold tprof, xA, xB, xC. cbn [cands]. repeat constructor; cbn; intuition discriminate. }
  split; [discriminate|]. split; [reflexivity|].
  eexists. split; [vm_compute; reflexivity|reflexivity].
Qed.

(* a replay that does consume a draw: a Plurality election with a two-way tie for the seat and a
   random tiebreak; get_profile(1) asks the generator again *)
Definition tieprof : profile positive :=
  mkProfile [plain_ballot positive [[xA]; [xB]] 1; plain_ballot positive [[xB]; [xA]] 1] [xA; xB].

Example ex_replay_draws :
  exists sts s' np s'',
    run_rule positive Pos.eqb (RPlurality 1 (Some TBRandom)) tieprof (mkM [DPerm [xB; xA]] [])
      = inl (sts, s') /\
    get_profile positive Pos.eqb (RPlurality 1 (Some TBRandom)) tieprof sts 1
                (mkM [DPerm [xA; xB]] []) = inl (np, s'') /\
    scr s'' = [] /\ cands np = [xB].
Proof.
  eexists. eexists. eexists. eexists. split; [vm_compute; reflexivity|].
  split; [vm_compute; reflexivity|]. split; reflexivity.
Qed.
