(* Properties/C10_stv2.v — C10 for the STV family at full generality: EVERY transfer rule (the random
   one included, which Properties/C10_closed.v: c10_stv_tiebreak excludes), and with the profile
   on which an election tie was broken identified as THE PROFILE OF THE TRACE at that round
   (c10_stv_tiebreak only says "exists pc").  Hence for STV election ties too: "a borda /
   first_place tiebreak orders the tied candidates by that score of the profile and falls back to
   a random order only among candidates still tied on it".
   Statements only; proofs are in Proofs/C10_stv2.v (and Proofs/C02_run.v for the trace).

   Vocabulary: stv_trace (Spec/ReplaySpec.v, see the header of Properties/C02_run.v); tied_at, big,
   rebuild (Spec/TieSpec.v); Spec/STVRunSpec.v:
     ordered_by d l              l lists candidates by non-increasing score in d
     scored_resolution kind q g tt sa s1
                                 with d the first_place / borda scores of q: tt lists g by
                                 non-increasing d; g is grouped by equal d (ranking r); the script
                                 from sa to s1 holds exactly one permutation per group of r with
                                 two or more members, in order, and tt is r with these groups
                                 replaced by the drawn orders
     random_resolution g tt sa s1  one draw, a duplicate-free permutation of g
     resolution kind q g tt sa s1  the one of the two that applies to kind
     stv_tie cfg t p0 pr prev st sa sb g tt   what a recorded pair (g, tt) means, spelled out in
                                 Spec/STVRunSpec.v: (g, tt) is the only record of its round; g is a
                                 duplicate-free set of two or more candidates of the current
                                 profile pr (themselves candidates of the input p0); they are
                                 EXACTLY the candidates of pr whose current tally equals k; and
       - one-by-one election: k is the largest tally and reaches t, g is the top group of the
         previous ranking, tt = tiebreak_set g (Some pr) kind from sa (leaving s1, from which the
         winner's transfer runs to sb; s1 = sb unless the transfer is random), with its
         [resolution] on pr; tt is a strict order of g; its first candidate is the one elected; or
       - elimination: nobody reaches t, k is the smallest tally, g is the last group, tt =
         tiebreak_set g (Some p0) TBFirstPlace from sa to sb, with its [scored_resolution] on the
         INITIAL profile p0; tt is a strict order of g; its last candidate is the one eliminated *)
From VK Require Import Base Core STV Rules EditSpec.
From VK.Spec Require Import STVSpec ScoreSpec TieSpec ReplaySpec STVRunSpec.
From VK.Proofs Require Import C10_stv2 STV_final.
From Coq Require Import Permutation.

Section C10_stv2.
Variable cand : Type.
Variable ceqb : cand -> cand -> bool.
Hypothesis ceqb_spec : forall a b, reflect (a = b) (ceqb a b).

Notation profile := (profile cand).
Notation estate := (estate cand).
Notation mstate := (mstate cand).
Notation wf_stv0 := (wf_stv0 cand).
Notation step_ctx := (step_ctx cand ceqb).
Notation script_ok := (script_ok cand).
Notation stv_trace := (stv_trace cand ceqb).
Notation stv_init := (stv_init cand).
Notation stv_step := (stv_step cand ceqb).
Notation run_stv := (run_stv cand ceqb).
Notation tiebreak_set := (tiebreak_set cand ceqb).
Notation stv_tie := (stv_tie cand ceqb).

(* every tiebreak recorded in a round of a successful run from a valid-or-empty profile — any
   quota, mode, tiebreak setting and transfer rule — is an [stv_tie] of the profile, record and
   random-source state the trace has at that round; round 0 records none *)
Theorem c10_stv_tiebreak_trace : forall cfg (p : profile) (s s' : mstate) sts,
  wf_stv0 p -> (s_transfer cfg = TRandom -> script_ok s) ->
  run_stv cfg p s = inl (sts, s') ->
  exists t ps ss,
    stv_init cfg p = inl t /\ stv_trace cfg t p sts ps ss /\
    nth_error ps 0 = Some p /\ nth_error ss 0 = Some s /\ last ss s = s' /\
    (forall st0, nth_error sts 0 = Some st0 -> tiebreaks st0 = []) /\
    forall r pr prev st sa sb g tt,
      nth_error ps r = Some pr -> nth_error sts r = Some prev -> nth_error ss r = Some sa ->
      nth_error sts (S r) = Some st -> nth_error ss (S r) = Some sb ->
      In (g, tt) (tiebreaks st) ->
      stv_tie cfg t p pr prev st sa sb g tt.
Proof. exact (run_ties cand ceqb ceqb_spec). Qed.

(* the same for one round from a valid context (extends c10_stv_step_tiebreak to TRandom) *)
Theorem c10_stv_step_tie : forall cfg t (p0 p : profile) prev n (s s' : mstate) np st g tt,
  step_ctx p0 p prev -> (s_transfer cfg = TRandom -> script_ok s) ->
  stv_step cfg t p0 n p prev s = inl ((np, st), s') ->
  In (g, tt) (tiebreaks st) ->
  stv_tie cfg t p0 p prev st s s' g tt.
Proof. exact (step_tie cand ceqb ceqb_spec). Qed.

(* OBSERVATION.  In a one-by-one election round the configured tiebreak is run on the CURRENT
   profile, whose first-place votes are the very tallies on which the candidates are tied.  So
   tiebreak = first_place can never separate them: candidates tied on the first-place votes of q
   are resolved by the first_place tiebreak on q through one permutation of the whole set ... *)
Theorem c10_first_place_on_tied_is_random :
  forall (q : profile) g tt (sa s1 : mstate) (d : scores cand) k,
  first_place_votes cand ceqb q = inl d -> NoDup (map fst d) -> NoDup g -> (2 <= length g)%nat ->
  incl g (map fst d) -> tied_at cand d g k ->
  tiebreak_set g (Some q) TBFirstPlace sa = inl (tt, s1) ->
  random_resolution cand g tt sa s1.
Proof. exact (fpv_tiebreak_on_tied cand ceqb ceqb_spec). Qed.

(* ... and every tiebreak recorded by an election round of an STV configured with
   tiebreak = first_place is such a random permutation of the tied set *)
Theorem c10_stv_first_place_election_tie :
  forall cfg t (p0 p : profile) prev n (s s' : mstate) np st g tt,
  step_ctx p0 p prev -> (s_transfer cfg = TRandom -> script_ok s) ->
  stv_step cfg t p0 n p prev s = inl ((np, st), s') ->
  In (g, tt) (tiebreaks st) ->
  (exists c, reaches cand ceqb t p c) -> s_tiebreak cfg = Some TBFirstPlace ->
  exists s1, tiebreak_set g (Some p) TBFirstPlace s = inl (tt, s1) /\
             random_resolution cand g tt s s1.
Proof. exact (first_place_election_tie cand ceqb ceqb_spec). Qed.

End C10_stv2.

Print Assumptions c10_stv_tiebreak_trace.
Print Assumptions c10_stv_step_tie.
Print Assumptions c10_first_place_on_tied_is_random.
Print Assumptions c10_stv_first_place_election_tie.

(* ---------- non-vacuity ---------- *)
Module C10Stv2Examples.
Open Scope positive_scope.

Definition bal (r : list positive) (w : Q) : ballot positive :=
  mkBallot (map (fun c => [c]) r) w [] None None.
Ltac valid := apply (wf_stv_profile_b_ok positive Pos.eqb Pos.eqb_spec); vm_compute; reflexivity.

(* one-by-one STV with the RANDOM transfer and a Borda tiebreak.  A>C x3, B>C x3, C>A x1; two
   seats; Droop quota 3.  A and B share the top tally 3; the Borda scores of the profile (A 14,
   B 13) put A first — no draw; A's transfer samples 0 ballots (surplus 0); then B is elected
   alone, sampling 0 ballots.  The recorded tiebreak is ({A,B}, A > B). *)
Definition ex_p : profile positive := mkProfile [bal [1; 3] 3; bal [2; 3] 3; bal [3; 1] 1] [1; 2; 3].
Definition ex_cfg : stv_cfg := mkStv 2%Z QDroop false TRandom (Some TBBorda).
Definition ex_s : mstate positive := mkM [DRanks []; DRanks []] [].

Example ex_run :
  wf_stv0 positive ex_p /\ (s_transfer ex_cfg = TRandom -> script_ok positive ex_s) /\
  match run_stv positive Pos.eqb ex_cfg ex_p ex_s with
  | inl (sts, s') =>
      scr s' = [] /\
      map (@tiebreaks positive) sts = [[]; [([1; 2], [[1]; [2]])]; []] /\
      map (@elected positive) sts = [[[]]; [[1]]; [[2]]]
  | inr _ => False
  end.
Proof.
  split; [assert (H : wf_stv_profile positive ex_p) by valid; apply H|].
  split; [intros _; repeat constructor|]. vm_compute. repeat split.
Qed.

(* the same tie under a RANDOM tiebreak: one permutation is drawn first, then the samples *)
Definition ex_cfg2 : stv_cfg := mkStv 2%Z QDroop false TRandom (Some TBRandom).
Definition ex_s2 : mstate positive := mkM [DPerm [2; 1]; DRanks []; DRanks []] [].

Example ex_run2 :
  (s_transfer ex_cfg2 = TRandom -> script_ok positive ex_s2) /\
  match run_stv positive Pos.eqb ex_cfg2 ex_p ex_s2 with
  | inl (sts, s') =>
      scr s' = [] /\
      map (@tiebreaks positive) sts = [[]; [([1; 2], [[2]; [1]])]; []] /\
      map (@elected positive) sts = [[[]]; [[2]]; [[1]]]
  | inr _ => False
  end.
Proof. split; [intros _; repeat constructor|]. vm_compute. repeat split. Qed.

(* an elimination tie under the random transfer: A x2, B x1, C x1; one seat; quota 3; B and C tie
   at the bottom, also on initial first-place votes: one draw; the last of the order goes *)
Definition ex_p3 : profile positive := mkProfile [bal [1] 2; bal [2] 1; bal [3] 1] [1; 2; 3].
Definition ex_cfg3 : stv_cfg := mkStv 1%Z QDroop true TRandom None.

Example ex_run3 :
  wf_stv0 positive ex_p3 /\
  match run_stv positive Pos.eqb ex_cfg3 ex_p3 (mkM [DPerm [2; 3]] []) with
  | inl (sts, s') =>
      map (@tiebreaks positive) sts = [[]; [([2; 3], [[2]; [3]])]; []; []] /\
      map (@eliminated positive) sts = [[[]]; [[3]]; [[2]]; [[]]]
  | inr _ => False
  end.
Proof.
  split; [assert (H : wf_stv_profile positive ex_p3) by valid; apply H|].
  vm_compute. repeat split.
Qed.

(* tiebreak = first_place on the same election tie: the script must supply a permutation (with an
   empty script the round fails), and the drawn order decides *)
Definition ex_cfg4 : stv_cfg := mkStv 2%Z QDroop false TFractional (Some TBFirstPlace).

Example ex_run4 :
  run_stv positive Pos.eqb ex_cfg4 ex_p (mkM [] []) = inr EScript /\
  match run_stv positive Pos.eqb ex_cfg4 ex_p (mkM [DPerm [2; 1]] []) with
  | inl (sts, s') =>
      scr s' = [] /\ map (@tiebreaks positive) sts = [[]; [([1; 2], [[2]; [1]])]; []] /\
      map (@elected positive) sts = [[[]]; [[2]]; [[1]]]
  | inr _ => False
  end.
Proof. split; [vm_compute; reflexivity|]. vm_compute. repeat split. Qed.

End C10Stv2Examples.
