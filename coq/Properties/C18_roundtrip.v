(* Properties/C18_roundtrip.v — C18: the value of load_csv as a MULTISET of ballots, and the
   to_csv -> load_csv round trip.  ORDER-INSENSITIVE statements only: nothing in this file says
   in which order load_csv emits its ballots (the implementation iterates a pandas groupby, i.e.
   sorted groups; the model keeps first-occurrence order; the differential harness compares the
   ballots as a set, so that aspect of the model is not validated and is not claimed here).
   Every conclusion is up to Permutation of the ballots, membership, weight-per-content (wtof) or
   PreferenceProfile.__eq__ (profile_eq).  Statements only; proofs in Proofs/C18_roundtrip.v and
   Proofs/C18_order.v.

   Vocabulary (Spec/LoaderSpec.v, Spec/LoaderOrderSpec.v):
     pattern ranks r, sel_ranks, rows_with, wf_table     as in Properties/C18.v
     csv_ballot ranks wc ic rows k   the ballot expected for pattern k: ranking [pattern_ranking k],
                                     weight = number (or summed weight column) of the rows with
                                     pattern k, no scores, no id, voter set = the ids of those rows
                                     (listed in TABLE row order; a voter set is a set)
     literal_cells enc_rk enc_sc row := [CNum weight; CStr (enc_rk ranking); CStr (enc_sc scores)]
                                     the three fields to_csv writes, ranking and scores each
                                     rendered as ONE string by arbitrary functions
     cvr_cells n row                 := CNum weight :: one cell per position ++ blanks up to n cells
     cvr_ballot n b                  no scores, at most n positions, each a single named candidate
     pad_ballot n b                  ranking padded with [blank] positions up to n *)
From VK Require Import Base Core Loaders.
From VK.Spec Require Import EditSpec Content LoaderSpec LoaderOrderSpec.
From VK.Proofs Require Import C18_order C18_roundtrip.
From Coq Require Import Lia Permutation.

#[local] Arguments CBlank {cand}.
#[local] Arguments CStr {cand}.
#[local] Arguments CNum {cand}.
#[local] Arguments CId {cand}.

Section C18_roundtrip.
Variable cand : Type.
Variable ceqb : cand -> cand -> bool.
Hypothesis ceqb_spec : forall a b, reflect (a = b) (ceqb a b).
Variable blank : cand.

Notation cell := (cell cand).
Notation ballot := (ballot cand).
Notation profile := (profile cand).
Notation load_csv := (load_csv cand ceqb blank).
Notation to_csv_rows := (to_csv_rows cand).
Notation pattern := (pattern cand).
Notation wf_table := (wf_table cand blank).
Notation csv_ballot := (csv_ballot cand ceqb blank).
Notation cvr_cells := (cvr_cells cand).
Notation cvr_ballot := (cvr_ballot cand blank).
Notation pad_ballot := (pad_ballot cand blank).
Notation wtof := (wtof cand ceqb).
Notation profile_eq := (profile_eq cand ceqb).

(* ---------- A. load_csv on a well-formed table, as a multiset ---------- *)

(* a well-formed table loads, and the ballots returned are, up to order, exactly one expected
   ballot (ranking, weight, voter set) per distinct pattern of the selected rank columns:
   whatever duplicate-free enumeration ks of the patterns of the rows is taken *)
Theorem c18_load_csv_multiset : forall ncols rows rc wc ic, wf_table ncols rows rc wc ic ->
  exists p, load_csv ncols rows rc wc ic = inl p /\
    forall ks : list (list cell), NoDup ks ->
      (forall k, In k ks <-> exists r, In r rows /\ pattern (sel_ranks ncols rc wc ic) r = k) ->
      Permutation (ballots p) (map (csv_ballot (sel_ranks ncols rc wc ic) wc ic rows) ks).
Proof. exact (load_csv_multiset cand ceqb ceqb_spec blank). Qed.

(* the candidate set of the loaded profile: no repetition, exactly the candidates (blank
   included) cast on a ballot of positive weight *)
Theorem c18_load_csv_cands_set : forall ncols rows rc wc ic, wf_table ncols rows rc wc ic ->
  forall p, load_csv ncols rows rc wc ic = inl p ->
  NoDup (cands p) /\
  forall c, In c (cands p) <->
            exists b, In b (ballots p) /\ 0 < wt b /\ In c (ballot_cands cand b).
Proof. exact (load_csv_cands_set cand ceqb ceqb_spec blank). Qed.

(* ---------- B. to_csv -> load_csv, rows decoded into the CVR layout ---------- *)

(* for a non-empty profile of score-free, tie-free ballots of at most n named positions: the rows
   to_csv writes, laid out as CVR rows (weight column 0, n rank columns), load; the result gives
   every ballot content the weight the profile gives it once short ballots are padded with
   explicit blanks — it is equal, in the sense of PreferenceProfile.__eq__, to the padded
   profile, and to the profile itself when every ballot fills the n columns *)
Theorem c18_roundtrip_cvr : forall n (p : profile),
  ballots p <> [] -> (forall b, In b (ballots p) -> cvr_ballot n b) ->
  exists p', load_csv (S n) (map (cvr_cells n) (to_csv_rows p)) [] (Some 0%nat) None = inl p' /\
    (forall k, wtof k (map (pad_ballot n) (ballots p)) == wtof k (ballots p')) /\
    profile_eq (mkProfile (map (pad_ballot n) (ballots p)) (cands p)) p' = true /\
    ((forall b, In b (ballots p) -> length (rk b) = n) -> profile_eq p p' = true).
Proof. exact (roundtrip_cvr_eq cand ceqb ceqb_spec blank). Qed.

(* a profile without ballots writes a header-only file: reading it back is EmptyDataError *)
Theorem c18_roundtrip_empty : forall n (p : profile) rc wc ic, ballots p = [] ->
  load_csv (S n) (map (cvr_cells n) (to_csv_rows p)) rc wc ic = inr EEmptyData.
Proof. exact (roundtrip_empty cand ceqb blank). Qed.

End C18_roundtrip.

Print Assumptions c18_load_csv_multiset.
Print Assumptions c18_load_csv_cands_set.
Print Assumptions c18_roundtrip_cvr.
Print Assumptions c18_roundtrip_empty.

(* ---------- C. what does NOT hold (cand := positive, blank := 9) ---------- *)
Section Refuted.
Local Open Scope positive_scope.

(* NOT a theorem: "load_csv (the file written by to_csv) = the profile".  to_csv writes three
   fields per ballot — weight, the whole ranking as one string, the whole score tuple as one
   string — whereas load_csv expects one candidate per rank cell.  Whatever the two renderings
   are, reading the ranking column (rank_cols = [1]) or all non-weight columns (rank_cols = []) of
   the literal rows of the one-ballot profile A > B > C yields only ballots of fewer than three
   positions, and a profile different (PreferenceProfile.__eq__) from it. *)
Theorem c18_roundtrip_literal_refuted :
  forall (enc_rk : ranking positive -> positive) (enc_sc : list (positive * Q) -> positive),
  exists p : profile positive,
    p = mkProfile [mkBallot [[1];[2];[3]] 2 [] None None] [1;2;3] /\
    forall rc, rc = [1%nat] \/ rc = [] ->
    exists p', Loaders.load_csv positive Pos.eqb 9 3%nat
                 (map (literal_cells positive enc_rk enc_sc) (Loaders.to_csv_rows positive p))
                 rc (Some 0%nat) None = inl p' /\
               Forall (fun b => (length (rk b) < 3)%nat) (ballots p') /\
               Core.profile_eq positive Pos.eqb p p' = false.
Proof. exact roundtrip_literal_refuted. Qed.

(* NOT a theorem: c18_roundtrip_cvr with "profile_eq p p' = true" for short ballots.  A ballot
   with fewer positions than rank columns is read back with explicit blank positions, which is
   another ballot content (as in the implementation, where empty cells become {None}); the
   rankings of the reloaded profile are given as a multiset *)
Theorem c18_roundtrip_short_refuted :
  exists (n : nat) (p p' : profile positive),
    ballots p <> [] /\ (forall b, In b (ballots p) -> LoaderOrderSpec.cvr_ballot positive 9 n b) /\
    Loaders.load_csv positive Pos.eqb 9 (S n)
      (map (LoaderOrderSpec.cvr_cells positive n) (Loaders.to_csv_rows positive p)) [] (Some 0%nat) None = inl p' /\
    Permutation (map rk (ballots p')) [[[1];[2]]; [[1];[9]]] /\
    Core.profile_eq positive Pos.eqb p p' = false.
Proof. exact roundtrip_short_refuted_perm. Qed.

End Refuted.
Print Assumptions c18_roundtrip_literal_refuted.
Print Assumptions c18_roundtrip_short_refuted.

(* ---------- non-vacuity (cand := positive, blank := 9) ---------- *)
Section Examples.
Local Open Scope positive_scope.
Let C := cell positive.

(* id column 0, two rank columns, no weight column.  Row patterns, with A = (2, blank) a short
   ballot, B = (1, 2), C = (blank, 1):   A B A C B  *)
Let rowsO : list (list C) :=
  [[CId 1; CStr 2; CBlank]; [CId 2; CStr 1; CStr 2]; [CId 3; CStr 2; CBlank];
   [CId 4; CBlank; CStr 1]; [CId 5; CStr 1; CStr 2]].

Example c18r_ex_wf : LoaderSpec.wf_table positive 9 3 rowsO [] None (Some 0%nat).
Proof.
  constructor.
  - discriminate.
  - intros r H. cbn in H. intuition (subst; reflexivity).
  - intros i [].
  - intros r i Hr Hi. cbn in Hr, Hi.
    repeat match goal with H : _ \/ _ |- _ => destruct H end; subst; cbn; try exact I; try discriminate; contradiction.
  - intros i H. injection H as <-. split; [repeat constructor|]. split.
    + intros r Hr. cbn in Hr.
      repeat match goal with H : _ \/ _ |- _ => destruct H end; subst; try contradiction; eexists; reflexivity.
    + cbn. repeat constructor; cbn; intuition discriminate.
  - intros w H. discriminate.
Qed.

(* the theorem applied with the patterns enumerated in SORTED order (B, A, C): the loaded
   ballots are, up to order, B x2 {2,5}, A x2 {1,3}, C x1 {4} *)
Example c18r_ex_multiset :
  exists p, Loaders.load_csv positive Pos.eqb 9 3 rowsO [] None (Some 0%nat) = inl p /\
    Permutation (ballots p)
      [mkBallot [[1];[2]] 2 [] None (Some [2;5]);
       mkBallot [[2];[9]] 2 [] None (Some [1;3]);
       mkBallot [[9];[1]] 1 [] None (Some [4])].
Proof.
  destruct (c18_load_csv_multiset positive Pos.eqb Pos.eqb_spec 9 3%nat rowsO [] None (Some 0%nat) c18r_ex_wf)
    as (p & Hp & Hperm).
  exists p. split; [exact Hp|].
  apply (Hperm [[CStr 1; CStr 2]; [CStr 2; CBlank]; [CBlank; CStr 1]]).
  - repeat (constructor; [cbn; intuition discriminate|]). constructor.
  - intros k. split.
    + intros [<-|[<-|[<-|[]]]].
      * exists [CId 2; CStr 1; CStr 2]. split; [cbn; tauto|reflexivity].
      * exists [CId 1; CStr 2; CBlank]. split; [cbn; tauto|reflexivity].
      * exists [CId 4; CBlank; CStr 1]. split; [cbn; tauto|reflexivity].
    + intros (r & Hr & <-). cbn in Hr.
      repeat match goal with H : _ \/ _ |- _ => destruct H end; subst; try contradiction; cbn; tauto.
Qed.

(* round trip, CVR layout, n = 2: a repeated ranking is merged *)
Let profR : profile positive :=
  mkProfile [mkBallot [[1];[2]] (3#2) [] None None; mkBallot [[2];[3]] 1 [] None None;
             mkBallot [[1];[2]] (1#2) [] None None] [1;2;3].

Example c18r_ex_cvr_domain :
  ballots profR <> [] /\
  (forall b, In b (ballots profR) -> LoaderOrderSpec.cvr_ballot positive 9 2 b) /\
  (forall b, In b (ballots profR) -> length (rk b) = 2%nat).
Proof.
  split; [discriminate|]. split.
  - intros b [<-|[<-|[<-|[]]]]; (split; [reflexivity|]; split; [cbn; lia|]);
      repeat constructor; eexists; (split; [reflexivity|discriminate]).
  - intros b [<-|[<-|[<-|[]]]]; reflexivity.
Qed.

Example c18r_ex_roundtrip :
  exists p', Loaders.load_csv positive Pos.eqb 9 3
               (map (LoaderOrderSpec.cvr_cells positive 2) (Loaders.to_csv_rows positive profR))
               [] (Some 0%nat) None = inl p' /\
             Permutation (map (fun b => (rk b, Qred (wt b))) (ballots p'))
                         [([[2];[3]], 1%Q); ([[1];[2]], 2%Q)] /\
             Core.profile_eq positive Pos.eqb profR p' = true.
Proof.
  eexists. split; [vm_compute; reflexivity|]. split; [|vm_compute; reflexivity].
  vm_compute. apply perm_swap.
Qed.

End Examples.
