(* Properties/C19_alln.v — property C19, the ballot-graph half, for EVERY number of candidates
   (Properties/C19.v has the same statements for n = 2..6 by evaluation).  Statements only; proofs
   are in Proofs/C19_alln.v, by induction on the recursive construction of [build_graph]
   (ballot_graph.py:96-143): the graph on n+1 candidates is made of n+1 relabelled copies of the
   graph on n candidates plus the bullet votes.

   Spec vocabulary (Spec/MetricSpec.v):
     valid_node n k     k is a duplicate-free list over 1..n with 1 <= |k| <= n, |k| <> n-1
     adjacent_swap a b  b is a with two adjacent entries exchanged
     extends_last n a b b = a ++ [x],  or |a| = n-2, |b| = n, 2 <= n and a is a prefix of b
     has_edge g a b     (a,b) or (b,a) is in g_edges g
     spec_ballot_node cs b  positions of the ballot's candidates (+ the missing one if |.| = n-1)
     linear_ballot cs b non-empty untied ranking of distinct candidates of cs
     weight_at ws k     weight recorded for node k in the table ws
   (Spec/GraphLoadSpec.v):
     ballot_positions cs b  positions (1-based, in cs) of the candidates b ranks, in ballot order
     one_short cs b     b ranks exactly |cs| - 1 candidates

   Base cases of the model: build_graph 0 is empty, build_graph 1 is the single node [1] (Python:
   the int 1), build_graph 2 the two full rankings joined by an edge; the statements below hold for
   these as well, so the premise 2 <= n of the node and edge theorems is not used. *)
From VK Require Import Base Core Metrics EditSpec MetricSpec.
From VK.Spec Require Import GraphLoadSpec.
From VK.Proofs Require Import C19_alln.
From Coq Require Import Lia.

Local Open Scope nat_scope.

(* G1, all n: the graph has exactly one node for every ranking of length 1..n except n-1 *)
Theorem c19_graph_nodes_all_n : forall n, 2 <= n ->
  (forall k, In k (g_nodes (build_graph n)) <->
     NoDup k /\ (forall x, In x k -> 1 <= x <= n) /\ 1 <= length k <= n /\ length k <> n - 1) /\
  NoDup (g_nodes (build_graph n)).
Proof. exact graph_nodes_ge2. Qed.
Print Assumptions c19_graph_nodes_all_n.

(* the same without the premise (n = 0: no node; n = 1: the node [1]) *)
Theorem c19_graph_nodes_every_n : forall n,
  (forall k, In k (g_nodes (build_graph n)) <-> valid_node n k) /\ NoDup (g_nodes (build_graph n)).
Proof. exact graph_nodes_all_n. Qed.
Print Assumptions c19_graph_nodes_every_n.

(* G2, all n: two nodes are joined exactly when they differ by an adjacent swap or by adding /
   removing the last ranked candidate (lengths n-2 and n adjacent); edges join nodes of the graph *)
Theorem c19_graph_edges_all_n : forall n, 2 <= n ->
  (forall a b, In a (g_nodes (build_graph n)) -> In b (g_nodes (build_graph n)) ->
     (has_edge (build_graph n) a b <->
      adjacent_swap a b \/ extends_last n a b \/ extends_last n b a)) /\
  (forall a b, In (a, b) (g_edges (build_graph n)) ->
     In a (g_nodes (build_graph n)) /\ In b (g_nodes (build_graph n))).
Proof. exact graph_edges_ge2. Qed.
Print Assumptions c19_graph_edges_all_n.

(* the same without the premise, and on rankings rather than on membership in the node list *)
Theorem c19_graph_edges_every_n : forall n a b,
  (valid_node n a -> valid_node n b ->
     (has_edge (build_graph n) a b <->
      adjacent_swap a b \/ extends_last n a b \/ extends_last n b a)) /\
  (has_edge (build_graph n) a b -> valid_node n a /\ valid_node n b).
Proof. exact graph_edges_valid. Qed.
Print Assumptions c19_graph_edges_every_n.

(* the same as a boolean statement about the model's [spec_adjacent] *)
Theorem c19_graph_edges_bool_all_n : forall n a b,
  In a (g_nodes (build_graph n)) -> In b (g_nodes (build_graph n)) ->
  (has_edge (build_graph n) a b <-> spec_adjacent n a b = true).
Proof. exact graph_edges_bool_all_n. Qed.
Print Assumptions c19_graph_edges_bool_all_n.

(* the base cases of the construction, literally *)
Theorem c19_graph_base_cases :
  build_graph 0 = mkGraph [] [] /\ build_graph 1 = mkGraph [[1]] [] /\
  build_graph 2 = mkGraph [[1; 2]; [2; 1]] [([1; 2], [2; 1])].
Proof. exact graph_small. Qed.
Print Assumptions c19_graph_base_cases.

(* G3, all n (the premise of c19_load_total_any_n discharged): loading a profile of untied ballots
   on any number of candidates, short ballots completed: the node keys are distinct, the weights add
   up to the profile's total, and each node holds the weight of the ballots filed there *)
Theorem c19_load_total_all_n : forall (cand : Type) (ceqb : cand -> cand -> bool),
  (forall a b, reflect (a = b) (ceqb a b)) ->
  forall p : profile cand,
  NoDup (cands p) -> Forall (linear_ballot cand (cands p)) (ballots p) ->
  exists ws, node_weights cand ceqb p true = inl ws /\
    NoDup (map fst ws) /\
    (qsum (map snd ws) == total_wt cand (ballots p))%Q /\
    (forall k, (weight_at ws k ==
                qsum (map wt (filter (fun b => node_eqb (spec_ballot_node cand ceqb (cands p) b) k)
                                     (ballots p))))%Q) /\
    (forall k, In k (map fst ws) ->
       exists b, In b (ballots p) /\ k = spec_ballot_node cand ceqb (cands p) b).
Proof. exact load_total_all_n. Qed.
Print Assumptions c19_load_total_all_n.

(* G3 with fix_short = False, all n: no error; a ballot ranking all candidates but one is not a
   node of the graph and is silently dropped, every other ballot is filed under its positions.  So
   the node weights add up to the total weight MINUS the weight of the one-short ballots. *)
Theorem c19_load_no_fix_short : forall (cand : Type) (ceqb : cand -> cand -> bool),
  (forall a b, reflect (a = b) (ceqb a b)) ->
  forall p : profile cand,
  NoDup (cands p) -> Forall (linear_ballot cand (cands p)) (ballots p) ->
  exists ws, node_weights cand ceqb p false = inl ws /\
    NoDup (map fst ws) /\
    (qsum (map snd ws) ==
       total_wt cand (filter (fun b => negb (one_short cand (cands p) b)) (ballots p)))%Q /\
    (qsum (map snd ws) ==
       total_wt cand (ballots p) - total_wt cand (filter (one_short cand (cands p)) (ballots p)))%Q /\
    (forall k, (weight_at ws k ==
                qsum (map wt (filter (fun b => node_eqb (ballot_positions cand ceqb (cands p) b) k)
                                     (filter (fun b => negb (one_short cand (cands p) b)) (ballots p)))))%Q) /\
    (forall k, In k (map fst ws) ->
       exists b, In b (ballots p) /\ one_short cand (cands p) b = false /\
                 k = ballot_positions cand ceqb (cands p) b).
Proof. exact load_no_fix_short. Qed.
Print Assumptions c19_load_no_fix_short.

(* ================= Non-vacuity ================= *)

Section Examples.

Ltac conj_tac := repeat match goal with |- _ /\ _ => split end.
Ltac valid_tac' :=
  split;
  [repeat (constructor; [cbn [In]; lia|]); constructor
  |split; [intros x Hx; cbn [In] in Hx; lia|cbn [length]; lia]].
Ltac valid_tac := unfold valid_node; valid_tac'.

(* n = 3 and n = 7: membership obtained from the theorem, not by building the graph *)
Example c19_alln_ex_nodes :
  In [2; 3; 1] (g_nodes (build_graph 3)) /\ In [2] (g_nodes (build_graph 3)) /\
  ~ In [2; 3] (g_nodes (build_graph 3)) /\
  In [3; 7; 1; 5; 2] (g_nodes (build_graph 7)) /\ In [4] (g_nodes (build_graph 7)) /\
  In [3; 7; 1; 5; 2; 6; 4] (g_nodes (build_graph 7)) /\
  ~ In [3; 7; 1; 5; 2; 6] (g_nodes (build_graph 7)) /\ ~ In [3; 7; 3] (g_nodes (build_graph 7)) /\
  ~ In [3; 8] (g_nodes (build_graph 7)).
Proof.
  assert (N3 := proj1 (c19_graph_nodes_all_n 3 ltac:(lia))).
  assert (N7 := proj1 (c19_graph_nodes_all_n 7 ltac:(lia))).
  conj_tac.
  - apply (proj2 (N3 _)). valid_tac'.
  - apply (proj2 (N3 _)). valid_tac'.
  - intros H. apply (proj1 (N3 _)) in H. destruct H as [_ [_ [_ H]]]. apply H. reflexivity.
  - apply (proj2 (N7 _)). valid_tac'.
  - apply (proj2 (N7 _)). valid_tac'.
  - apply (proj2 (N7 _)). valid_tac'.
  - intros H. apply (proj1 (N7 _)) in H. destruct H as [_ [_ [_ H]]]. apply H. reflexivity.
  - intros H. apply (proj1 (N7 _)) in H. destruct H as [H _]. inversion H as [|x l Hn _]; subst. apply Hn. cbn [In]. lia.
  - intros H. apply (proj1 (N7 _)) in H. destruct H as [_ [H _]]. specialize (H 8). cbn [In] in H. lia.
Qed.

(* n = 7 edges from the theorem: an adjacent swap, a one-step extension, the n-2 -> n completion;
   and two non-edges *)
Example c19_alln_ex_edges :
  has_edge (build_graph 7) [3; 7; 1; 5; 2] [3; 7; 5; 1; 2] /\
  has_edge (build_graph 7) [3; 7; 1] [3; 7; 1; 5] /\
  has_edge (build_graph 7) [3; 7; 1; 5; 2; 6; 4] [3; 7; 1; 5; 2] /\
  ~ has_edge (build_graph 7) [3; 7; 1] [1; 7; 3] /\
  ~ has_edge (build_graph 7) [3; 7; 1] [3; 7; 1; 5; 2].
Proof.
  assert (V1 : valid_node 7 [3; 7; 1; 5; 2]) by valid_tac.
  assert (V2 : valid_node 7 [3; 7; 5; 1; 2]) by valid_tac.
  assert (V3 : valid_node 7 [3; 7; 1]) by valid_tac.
  assert (V4 : valid_node 7 [3; 7; 1; 5]) by valid_tac.
  assert (V5 : valid_node 7 [3; 7; 1; 5; 2; 6; 4]) by valid_tac.
  assert (V6 : valid_node 7 [1; 7; 3]) by valid_tac.
  assert (N7 := proj1 (c19_graph_nodes_all_n 7 ltac:(lia))).
  conj_tac.
  - apply (proj2 (proj1 (c19_graph_edges_every_n 7 _ _) V1 V2)). left. exists [3; 7], 1, 5, [2]. split; reflexivity.
  - apply (proj2 (proj1 (c19_graph_edges_every_n 7 _ _) V3 V4)). right. left. left. exists 5. reflexivity.
  - apply (proj2 (proj1 (c19_graph_edges_every_n 7 _ _) V5 V1)). right. right. right.
    split; [reflexivity|]. split; [reflexivity|]. split; [lia|]. exists [6; 4]. reflexivity.
  - intros H.
    apply (proj1 (c19_graph_edges_bool_all_n 7 _ _ (proj2 (N7 _) V3) (proj2 (N7 _) V6))) in H.
    vm_compute in H. discriminate.
  - intros H.
    apply (proj1 (c19_graph_edges_bool_all_n 7 _ _ (proj2 (N7 _) V3) (proj2 (N7 _) V1))) in H.
    vm_compute in H. discriminate.
Qed.

Local Open Scope positive_scope.
Let pb (r : list (list positive)) (w : Q) : Core.ballot positive := plain_ballot positive r w.
(* three candidates: one one-short ballot of weight 2 and another of weight 3 *)
Let G3 : Core.profile positive :=
  mkProfile [pb [[5];[7]] 2; pb [[9]] 1; pb [[5];[7];[9]] (1 # 2); pb [[9];[5]] 3] [5;7;9].
(* seven candidates, ballots of length 1, 5, 6 (one short) and 7 *)
Let G7 : Core.profile positive :=
  mkProfile [pb [[4]] 2; pb [[3];[7];[1];[5];[2]] (1 # 3); pb [[3];[7];[1];[5];[2];[6]] 5;
             pb [[7];[6];[5];[4];[3];[2];[1]] 1] [1;2;3;4;5;6;7].

Ltac linear_tac :=
  repeat (apply Forall_cons || apply Forall_nil); unfold MetricSpec.linear_ballot; cbn;
    (split; [discriminate|]); (split; [repeat constructor|]);
    (split; [repeat (constructor; [cbn; intuition discriminate|]); constructor
            |intros x Hx; cbn in Hx |- *; intuition]).

Example c19_alln_ex_load_hyps :
  (NoDup (cands G3) /\ Forall (MetricSpec.linear_ballot positive (cands G3)) (ballots G3)) /\
  (NoDup (cands G7) /\ Forall (MetricSpec.linear_ballot positive (cands G7)) (ballots G7)).
Proof.
  split; (split; [repeat (constructor; [cbn; intuition discriminate|]); constructor|linear_tac]).
Qed.

(* fix_short = False on three candidates, by evaluation: the two one-short ballots (weights 2 and
   3) are dropped, 13/2 - 5 = 3/2 remains *)
Example c19_alln_ex_no_fix_short :
  Metrics.node_weights positive Pos.eqb G3 false = inl [([3]%nat, 1%Q); ([1;2;3]%nat, (1 # 2)%Q)] /\
  (Core.total_wt positive (ballots G3) == 13 # 2)%Q /\
  (Core.total_wt positive (filter (one_short positive (cands G3)) (ballots G3)) == 5)%Q /\
  ballot_positions positive Pos.eqb (cands G3) (pb [[9];[5]] 3) = [3; 1]%nat.
Proof. repeat split; vm_compute; reflexivity. Qed.

(* seven candidates, from the theorems (the graph has 8660 nodes and is not built here) *)
Example c19_alln_ex_load7 :
  (exists ws, Metrics.node_weights positive Pos.eqb G7 true = inl ws /\
              (qsum (map snd ws) == 25 # 3)%Q) /\
  (exists ws, Metrics.node_weights positive Pos.eqb G7 false = inl ws /\
              (qsum (map snd ws) == 10 # 3)%Q).
Proof.
  destruct c19_alln_ex_load_hyps as [_ [H1 H2]]. split.
  - destruct (c19_load_total_all_n positive Pos.eqb Pos.eqb_spec G7 H1 H2) as [ws [E [_ [S _]]]].
    exists ws. split; [exact E|]. rewrite S. vm_compute. reflexivity.
  - destruct (c19_load_no_fix_short positive Pos.eqb Pos.eqb_spec G7 H1 H2) as [ws [E [_ [S _]]]].
    exists ws. split; [exact E|]. rewrite S. vm_compute. reflexivity.
Qed.

End Examples.
