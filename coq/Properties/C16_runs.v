(* Properties/C16_runs.v — property C16 at the level of whole generator runs (the run functions of
   Spec/GenRunSpec.v, i.e. what Model/Dispatch.v assembles):

   (e) INDEPENDENCE ACROSS BALLOTS.  Every ballot of a bloc is the image of ITS OWN recorded draw by
       the one-ballot kernel, the primitive calls logged for it depend on the parameters only
       (same population, same p, same size for every ballot of the bloc), and the bloc's profile
       counts these ballots content by content.  With the trusted assumption that distinct calls of
       the primitives are independent, the ballots of a bloc are i.i.d. with the one-ballot laws of
       Properties/C16.v / C16_gen2.v.  (The exact table samplers make ONE call of size n per bloc:
       n independent draws by the primitive's contract.  The MCMC samplers are chains: ballot j is
       the state after steps 1..j.)
   (d) WITHIN-SLATE ORDER.  In every model built on [slate_ballot] (slate-Plackett-Luce, exact and
       MCMC slate-Bradley-Terry) the candidates of one slate, read off the ballot in ballot order,
       are exactly the recorded result of the call GPL (pi_int iv) |pi_int iv| — Plackett-Luce
       from the voter bloc's interval iv for that slate (law [law_pl], closed form c16_pl_prob).
       (CambridgeSampler: Properties/C16_gen2.v T6/T7.  AlternatingCrossover disregards its
       intervals from the second ballot on: Properties/C16.v c16_ac_internal_pl_refuted.)
   (f) CROSSOVER SPLIT.  AlternatingCrossover / CambridgeSampler: in every bloc's profile the
       ballots headed by an opposing-slate candidate weigh exactly the number of crossover voters
       and those headed by an own-slate candidate the number of bloc voters.
   Vocabulary (Spec/GenRunSpec.v): pl_calls, slate_calls, within_slate_order, first_in,
   weight_first_in, spl_params_ok, spl_draw_shape_ok, slate_params_ok, sm_params_ok, slate_nz.
   Proofs: Proofs/C16_runs.v. *)
From VK Require Import Base Core GenValidation PrefInterval Generators Generators2 Laws.
From VK.Spec Require Import Content GenSpec Gen2Spec BTSpec GenLaws GenRunSpec.
From VK.Proofs Require Import C14_wf C16_runs.
From Coq Require Import Permutation Lia.

(* ====================== (e) pointwise kernels ====================== *)

Theorem c16_pl_run_pointwise : forall bl blocs by_bloc agg calls,
  gen_pl_run bl blocs = inl (by_bloc, agg, calls) ->
  (exists pools : list (list gballot),
     Forall2 (fun (x : pl_in) pool =>
                Forall2 (fun d b => pl_ballot (snd (fst x)) bl d = inl (b, pl_calls (snd (fst x)) bl))
                        (snd x) pool) blocs pools /\
     Forall2 (fun pool (bq : bloc * gprofile) =>
                forall k, wtof pcand Pos.eqb k (ballots (snd bq)) == wtof pcand Pos.eqb k pool)
             pools by_bloc) /\
  calls = concat (map (fun x : pl_in => concat (map (fun _ => pl_calls (snd (fst x)) bl) (snd x))) blocs).
Proof. exact pl_run_pointwise. Qed.
Print Assumptions c16_pl_run_pointwise.

Theorem c16_cumulative_run_pointwise : forall nv blocs by_bloc agg calls,
  gen_cumulative_run nv blocs = inl (by_bloc, agg, calls) ->
  (exists pools : list (list gballot),
     Forall2 (fun (x : cum_in) pool =>
                Forall2 (fun d b => cumulative_ballot (snd (fst x)) nv d = inl (b, [GIID (pi_int (snd (fst x))) nv]))
                        (snd x) pool) blocs pools /\
     Forall2 (fun pool (bq : bloc * gprofile) =>
                forall k, wtof pcand Pos.eqb k (ballots (snd bq)) == wtof pcand Pos.eqb k pool)
             pools by_bloc) /\
  calls = concat (map (fun x : cum_in => map (fun _ => GIID (pi_int (snd (fst x))) nv) (snd x)) blocs).
Proof. exact cumulative_run_pointwise. Qed.
Print Assumptions c16_cumulative_run_pointwise.

(* exact name-BT: one table call GTable (bt_pdf (pi_int iv)) n per bloc — the C15 table of the
   bloc's combined interval (Properties/C15_compose.v starts it from the user's supports) *)
Theorem c16_bt_run_pointwise : forall blocs by_bloc agg calls,
  gen_bt_run blocs = inl (by_bloc, agg, calls) ->
  (exists pools : list (list gballot),
     Forall2 (fun (x : bt_in) pool =>
                pool = map (fun r => unit_ballot (rank_of r (pi_zero (bt_iv x)))) (snd x) /\
                length (snd x) = snd (fst x) /\
                forall r, In r (snd x) -> exists v, In (r, v) (bt_pdf (pi_int (bt_iv x))) /\ 0 < v)
             blocs pools /\
     Forall2 (fun pool (bq : bloc * gprofile) =>
                forall k, wtof pcand Pos.eqb k (ballots (snd bq)) == wtof pcand Pos.eqb k pool)
             pools by_bloc) /\
  calls = map (fun x : bt_in => GTable (bt_pdf (pi_int (bt_iv x))) (snd (fst x))) blocs.
Proof. exact bt_run_pointwise. Qed.
Print Assumptions c16_bt_run_pointwise.

(* ====================== (d) within-slate Plackett-Luce order ====================== *)

(* one ballot: [t] any type with the right multiplicities *)
Theorem c16_slate_ballot_within_order : forall ivs zero t orders b calls,
  NoDup (map fst ivs) -> NoDup (slate_nz ivs) ->
  (forall c, In c zero -> ~ In c (slate_nz ivs)) ->
  (forall x, In x t -> In x (map fst ivs)) ->
  (forall bl iv, In (bl, iv) ivs -> count_bloc bl t = length (pi_int iv)) ->
  slate_ballot ivs zero t orders = inl (b, calls) ->
  calls = map (fun x : bloc * pinterval => GPL (pi_int (snd x)) (length (pi_int (snd x))))
              (filter (fun x : bloc * pinterval => nonempty (pi_int (snd x))) ivs) /\
  forall bl iv, In (bl, iv) ivs -> pi_int iv <> [] ->
    filter (fun c => pmem c (map fst (pi_int iv))) (flat pcand (rk b)) = order_of orders bl /\
    valid_sample (map fst (pi_int iv)) (length (pi_int iv)) (order_of orders bl) = true.
Proof. exact slate_ballot_within_order. Qed.
Print Assumptions c16_slate_ballot_within_order.

(* slate-Plackett-Luce, whole run: ballot j of a bloc is built from the type its own flips select
   and its own per-slate orders *)
Theorem c16_slate_pl_run_pointwise : forall blocs by_bloc agg calls,
  (forall x, In x blocs -> spl_params_ok x /\
     (forall c, In c (spl_zero x) -> ~ In c (slate_nz (spl_ivs x))) /\
     forall d, In d (spl_ballots x) -> spl_draw_shape_ok x d) ->
  gen_slate_pl_run blocs = inl (by_bloc, agg, calls) ->
  exists pools : list (list gballot),
    Forall2 (fun (x : spl_in) pool =>
               Forall2 (fun (d : spl_draw) b =>
                          exists t c1,
                            type_loop (fst (fst d)) (map fst (spl_coh x)) (map snd (spl_coh x))
                                      (spl_sizes x) [] (snd (fst d)) = inl (t, c1) /\
                            slate_ballot (spl_ivs x) (spl_zero x) t (snd d) = inl (b, slate_calls (spl_ivs x)) /\
                            within_slate_order (spl_ivs x) (snd d) b)
                       (spl_ballots x) pool) blocs pools /\
    Forall2 (fun pool (bq : bloc * gprofile) =>
               forall k, wtof pcand Pos.eqb k (ballots (snd bq)) == wtof pcand Pos.eqb k pool)
            pools by_bloc.
Proof. exact slate_pl_run_pointwise. Qed.
Print Assumptions c16_slate_pl_run_pointwise.

(* exact slate-Bradley-Terry *)
Theorem c16_slate_bt_run_pointwise : forall blocs by_bloc agg calls,
  (forall x, In x blocs -> slate_params_ok (sbt_ivs x) (sbt_sizes x) /\
     (forall c, In c (sbt_zero x) -> ~ In c (slate_nz (sbt_ivs x)))) ->
  gen_slate_bt_run blocs = inl (by_bloc, agg, calls) ->
  exists pools : list (list gballot),
    Forall2 (fun (x : sbt_in) pool =>
               Forall2 (fun (d : list bloc * list (bloc * list pcand)) b =>
                          (exists v, In (fst d, v) (sbt_table x) /\ 0 < v) /\
                          slate_ballot (sbt_ivs x) (sbt_zero x) (fst d) (snd d) = inl (b, slate_calls (sbt_ivs x)) /\
                          within_slate_order (sbt_ivs x) (snd d) b)
                       (sbt_ballots x) pool) blocs pools /\
    Forall2 (fun pool (bq : bloc * gprofile) =>
               forall k, wtof pcand Pos.eqb k (ballots (snd bq)) == wtof pcand Pos.eqb k pool)
            pools by_bloc.
Proof. exact slate_bt_run_pointwise. Qed.
Print Assumptions c16_slate_bt_run_pointwise.

(* slate-Bradley-Terry MCMC: ballot j is built from the j-th state of the chain *)
Theorem c16_slate_mcmc_run_pointwise : forall blocs by_bloc agg calls,
  (forall x, In x blocs -> sm_params_ok x /\
     (forall c, In c (sm_zero x) -> ~ In c (slate_nz (sm_ivs x)))) ->
  gen_slate_mcmc_run blocs = inl (by_bloc, agg, calls) ->
  exists pools : list (list gballot),
    Forall2 (fun (x : sm_in) pool =>
               length (sm_orders x) = length (sm_steps x) /\
               Forall2 (fun (to : list bloc * list (bloc * list pcand)) b =>
                          slate_ballot (sm_ivs x) (sm_zero x) (fst to) (snd to) = inl (b, slate_calls (sm_ivs x)) /\
                          within_slate_order (sm_ivs x) (snd to) b)
                       (combine (slate_mcmc_run (sm_own x) (sm_coh x) (sm_seed x) (sm_steps x)) (sm_orders x))
                       pool) blocs pools /\
    Forall2 (fun pool (bq : bloc * gprofile) =>
               forall k, wtof pcand Pos.eqb k (ballots (snd bq)) == wtof pcand Pos.eqb k pool)
            pools by_bloc.
Proof. exact slate_mcmc_run_pointwise. Qed.
Print Assumptions c16_slate_mcmc_run_pointwise.

(* ====================== (f) bloc-first versus opposing-first ballots ====================== *)

(* AlternatingCrossover, per bloc: the first [ac_ncross] ballots generated are crossover ballots *)
Theorem c16_ac_split_generation_order : forall x bs calls,
  ac_pool x = inl (ac_id x, (bs, calls)) ->
  length bs = length (ac_draws x) /\
  forall k d, nth_error (ac_draws x) k = Some d ->
    nth_error bs k = Some (ac_ballot (Nat.ltb k (ac_ncross x)) (fst d) (snd d)) /\
    flat pcand (rk (ac_ballot (Nat.ltb k (ac_ncross x)) (fst d) (snd d))) =
      (if Nat.ltb k (ac_ncross x) then interleave (snd d) (fst d) else fst d ++ snd d).
Proof. exact C14_runs.gen_ac_split. Qed.
Print Assumptions c16_ac_split_generation_order.

(* ... and in the returned profile of every bloc (both slates with a supported candidate, disjoint) *)
Theorem c16_ac_crossover_split : forall blocs by_bloc agg calls,
  (forall x, In x blocs -> ac_bcands x <> [] /\ ac_ocands x <> [] /\
     forall c, In c (ac_bcands x) -> ~ In c (ac_ocands x)) ->
  gen_ac_run blocs = inl (by_bloc, agg, calls) ->
  Forall2 (fun (x : ac_in) (bq : bloc * gprofile) =>
             weight_first_in (ac_ocands x) (ballots (snd bq)) ==
               Qnat (Nat.min (ac_ncross x) (length (ac_draws x))) /\
             weight_first_in (ac_bcands x) (ballots (snd bq)) ==
               Qnat (length (ac_draws x) - Nat.min (ac_ncross x) (length (ac_draws x))))
          blocs by_bloc.
Proof. exact gen_ac_crossover_split. Qed.
Print Assumptions c16_ac_crossover_split.

(* CambridgeSampler: nb ballots headed by an own-slate candidate, nc by an opposing-slate one *)
Theorem c16_cambridge_split : forall freqs blocs by_bloc agg calls,
  (forall x, In x blocs -> cam_own x <> cam_opp x /\
     (forall c, In c (cam_so x) -> In c (cam_sp x) -> False) /\
     (exists c, In c (map fst (pi_int (cam_iv x))) /\ In c (cam_so x)) /\
     (exists c, In c (map fst (pi_int (cam_iv x))) /\ In c (cam_sp x))) ->
  gen_cambridge_run freqs blocs = inl (by_bloc, agg, calls) ->
  Forall2 (fun (x : cam_in) (bq : bloc * gprofile) =>
             weight_first_in (cam_so x) (ballots (snd bq)) == Qnat (cam_nb x) /\
             weight_first_in (cam_sp x) (ballots (snd bq)) == Qnat (cam_nc x))
          blocs by_bloc.
Proof. exact gen_cambridge_split. Qed.
Print Assumptions c16_cambridge_split.

(* ====================== non-vacuity ====================== *)
Module C16RunsExamples.
Local Open Scope positive_scope.

(* slate-PL run of Properties/C14_runs.v: the slate-1 candidates of the two ballots, in ballot
   order, are the recorded orders [12;11] and [11;12] *)
Definition spl_ex : spl_in :=
  mkSPL 1 [(1, mkPI [(11, 1#2); (12, 1#2)] []); (2, mkPI [(21, 1%Q)] [22])]
        [(1, 2%nat); (2, 1%nat)] [(1, 3#4); (2, 1#4)] [22]
        [([1#2; 9#10; 1#4]%Q, None, [(1, [12; 11]); (2, [21])]);
         ([9#10; 1#2; 1#2]%Q, None, [(1, [11; 12]); (2, [21])])].

Example ex_within_order : exists by_bloc agg calls,
  gen_slate_pl_run [spl_ex] = inl (by_bloc, agg, calls) /\
  map (fun b => filter (fun c => pmem c [11; 12]) (flat pcand (rk b))) (ballots agg) = [[12; 11]; [11; 12]] /\
  slate_calls (spl_ivs spl_ex) = [GPL [(11, 1#2); (12, 1#2)] 2; GPL [(21, 1%Q)] 1].
Proof. do 3 eexists. split; [vm_compute; reflexivity|]. split; reflexivity. Qed.

(* the zero-support candidate is outside every slate's supported set, the shuffle premise is
   vacuous here (no shuffle call): the hypotheses of c16_slate_pl_run_pointwise hold *)
Example ex_within_order_premises :
  (forall c, In c (spl_zero spl_ex) -> ~ In c (slate_nz (spl_ivs spl_ex))) /\
  (forall d, In d (spl_ballots spl_ex) -> spl_draw_shape_ok spl_ex d).
Proof.
  split.
  - intros c [<-|[]] H. cbn in H. intuition discriminate.
  - intros d [<-|[<-|[]]]; (split; [reflexivity|]); intros t calls H pop Hin;
      vm_compute in H; injection H as <- <-; destruct Hin.
Qed.

(* AlternatingCrossover: 3 voters, 1 crossover: weight 1 headed by an opposing candidate, 2 by an own *)
Example ex_ac_split : exists by_bloc agg calls,
  gen_ac_run [mkAC 1 1 [1; 2] [3; 4] [1#2; 1#2]%Q [1#4; 3#4]%Q
                [([2; 1], [4; 3]); ([1; 2], [3; 4]); ([1; 2], [3; 4])]] = inl (by_bloc, agg, calls) /\
  weight_first_in [3; 4] (ballots agg) == 1 /\ weight_first_in [1; 2] (ballots agg) == 2.
Proof. do 3 eexists. split; [vm_compute; reflexivity|]. split; vm_compute; reflexivity. Qed.

End C16RunsExamples.
