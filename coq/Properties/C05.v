(* Properties/C05.v — C05: score-ballot elections enforce their limits and elect the top m
   totals.  Statements only; proofs are in Proofs/C13_wiring.v, Proofs/C20_validation.v and
   Proofs/C05_rating.v.

   Model: [run_rating m L k tb p] is GeneralRating(p, m, L, k, tiebreak) run to the end;
   [sc b] are the ballot's scores with zeros already dropped (Ballot.__init__), so "no scores"
   is [sc b = []].  The five public classes are tied to it through Generated/Wiring.v, which is
   regenerated from the Python source on every build.
   Vocabulary (Spec/RatingSpec.v): [rating_args_ok/bad], [score_ballot_ok/bad], [score_total]. *)
From VK Require Import Base Core STV Pairwise Rules PV Election.
From VK.Generated Require Import Wiring.
From VK.Spec Require Import ScoreSpec RatingSpec.
From VK.Proofs Require Import C13_wiring C20_validation C05_rating.
From Coq Require Import Permutation.

(* ---------- wiring of the public classes (no candidates involved) ---------- *)

(* Rating(m, L) = GeneralRating(m, L, k = None) *)
Theorem c05_wiring_rating : forall m L tb,
  expand (WRating m L tb) = Some (wire_Rating m L tb) /\ guard_Rating m L tb = false /\
  wire_Rating m L tb = RRating m L None tb.
Proof. exact c05_wiring_rating_proof. Qed.

(* Approval(m) = GeneralRating(m, L = 1, k = None) *)
Theorem c05_wiring_approval : forall m tb,
  expand (WApproval m tb) = Some (wire_Approval m tb) /\ guard_Approval m tb = false /\
  wire_Approval m tb = RRating m 1 None tb.
Proof. exact c05_wiring_approval_proof. Qed.

(* Cumulative(m) = Limited(m, k = m) *)
Theorem c05_wiring_cumulative : forall m tb,
  expand (WCumulative m tb) = Some (wire_Cumulative m tb) /\ guard_Cumulative m tb = false /\
  wire_Cumulative m tb = RLimited m (inject_Z m) tb.
Proof. exact c05_wiring_cumulative_proof. Qed.

Print Assumptions c05_wiring_rating.
Print Assumptions c05_wiring_approval.
Print Assumptions c05_wiring_cumulative.

Section C05.
Variable cand : Type.
Variable ceqb : cand -> cand -> bool.
Hypothesis ceqb_spec : forall a b, reflect (a = b) (ceqb a b).

Notation profile := (profile cand).
Notation estate := (estate cand).
Notation mstate := (mstate cand).
Notation flat := (flat cand).
Notation singletons := (singletons cand).
Notation rating_validate := (rating_validate cand).
Notation run_rule := (run_rule cand ceqb).
Notation run_wrule := (run_wrule cand ceqb).
Notation run_rating := (run_rating cand ceqb).
Notation run_one_shot := (run_one_shot cand ceqb).
Notation score_to_ranking := (score_to_ranking cand).
Notation remove_cand_prof := (remove_cand_prof cand ceqb).
Notation score_ballot_ok := (score_ballot_ok cand).
Notation score_ballot_bad := (score_ballot_bad cand).
Notation score_total := (score_total cand ceqb).

(* Limited(m, k): ValueError when k > m, otherwise GeneralRating(m, L = k, k) *)
Theorem c05_wiring_limited : forall m k tb (p : profile),
  run_rule (RLimited m k tb) p
  = (if guard_Limited m k tb then mfail EValue else run_rule (wire_Limited m k tb) p) /\
  guard_Limited m k tb = Qlt_bool (inject_Z m) k /\
  wire_Limited m k tb = RRating m k (Some k) tb.
Proof. exact (c05_wiring_limited_proof cand ceqb). Qed.

(* BlocPlurality(m, k): GeneralRating(m, L = 1, k = (k if k else m)) *)
Theorem c05_wiring_bloc : forall m k tb (p : profile),
  run_rule (RBloc m k tb) p = run_rule (wire_BlocPlurality m k tb) p /\
  guard_BlocPlurality m k tb = false /\
  wire_BlocPlurality m k tb
  = RRating m 1 (Some (inject_Z (match k with
                                 | Some x => if Z.eqb x 0 then m else x
                                 | None => m
                                 end))) tb.
Proof. exact (c05_wiring_bloc_proof cand ceqb). Qed.

(* Cumulative(m) = Limited(m, m) = GeneralRating(m, L = m, k = m); Limited's guard cannot fire *)
Theorem c05_wiring_cumulative_full : forall m tb (p : profile),
  guard_Limited m (inject_Z m) tb = false /\
  run_wrule (WCumulative m tb) p = run_rule (RLimited m (inject_Z m) tb) p /\
  run_wrule (WCumulative m tb) p = run_rule (wire_Limited m (inject_Z m) tb) p /\
  run_wrule (WCumulative m tb) p = run_rating m (inject_Z m) (Some (inject_Z m)) tb p.
Proof. exact (c05_wiring_cumulative_full_proof cand ceqb). Qed.

(* Rating and Approval run GeneralRating *)
Theorem c05_wiring_rating_run : forall m L tb (p : profile),
  run_wrule (WRating m L tb) p = run_rule (wire_Rating m L tb) p /\
  run_wrule (WRating m L tb) p = run_rating m L None tb p.
Proof. exact (c05_wiring_rating_run_proof cand ceqb). Qed.

Theorem c05_wiring_approval_run : forall m tb (p : profile),
  run_wrule (WApproval m tb) p = run_rule (wire_Approval m tb) p /\
  run_wrule (WApproval m tb) p = run_rating m 1 None tb p.
Proof. exact (c05_wiring_approval_run_proof cand ceqb). Qed.

(* R1: acceptance.  Validation passes exactly when the arguments are in range and every ballot
   carries scores, all in [0, L], summing to at most the budget; otherwise ValueError for the
   arguments (tested first) or TypeError for the profile, decided by the first offending ballot;
   in neither case does a state list exist (the result is a sum type). *)
Theorem c05_accept_iff : forall m L k tb (p : profile) s,
  ((rating_args m L k = inl tt /\ rating_validate L k p = inl tt) <->
   (rating_args_ok m L k /\ Forall (score_ballot_ok L k) (ballots p))) /\
  (rating_args_bad m L k -> run_rating m L k tb p s = inr EValue) /\
  (rating_args_ok m L k -> (exists b, In b (ballots p) /\ score_ballot_bad L k b) ->
     run_rating m L k tb p s = inr EType) /\
  (rating_args_ok m L k -> Forall (score_ballot_ok L k) (ballots p) ->
     run_rating m L k tb p s = run_one_shot SKBallotScores m tb p s) /\
  (rating_args_ok m L k \/ rating_args_bad m L k) /\
  ~ (rating_args_ok m L k /\ rating_args_bad m L k) /\
  (Forall (score_ballot_ok L k) (ballots p) \/ exists b, In b (ballots p) /\ score_ballot_bad L k b) /\
  ~ (Forall (score_ballot_ok L k) (ballots p) /\ exists b, In b (ballots p) /\ score_ballot_bad L k b) /\
  (forall e, rating_validate L k p = inr e <->
     exists pre b post, ballots p = pre ++ b :: post /\
       Forall (score_ballot_ok L k) pre /\ score_ballot_bad L k b /\ e = EType).
Proof. exact (c05_accept_iff_proof cand ceqb). Qed.

(* R2: the round-0 score of each candidate is the sum over ballots of score times weight; the
   round-0 ranking is score_dict_to_ranking of these totals; every scored candidate is a
   candidate of the profile (otherwise the run ends in KeyError) *)
Theorem c05_totals : forall m L k tb (p : profile) s sts s',
  run_rating m L k tb p s = inl (sts, s') ->
  exists s0 s1, sts = [s0; s1] /\
    rnd s0 = 0%Z /\ elected s0 = [[]] /\ eliminated s0 = [[]] /\ tiebreaks s0 = [] /\
    escores s0 = map (fun c => (c, score_total p c)) (cands p) /\
    (forall c q, In (c, q) (escores s0) <-> In c (cands p) /\ q = score_total p c) /\
    remaining s0 = score_to_ranking (escores s0) true /\
    (forall b, In b (ballots p) -> incl (map fst (sc b)) (cands p)).
Proof. exact (c05_totals_proof cand ceqb ceqb_spec). Qed.

(* R3: the m highest totals are elected *)
Theorem c05_top_m : forall m L k tb (p : profile) s sts s',
  NoDup (cands p) ->
  run_rating m L k tb p s = inl (sts, s') ->
  exists s0 s1, sts = [s0; s1] /\
    escores s0 = map (fun c => (c, score_total p c)) (cands p) /\
    remaining s0 = score_to_ranking (escores s0) true /\
    rnd s1 = 1%Z /\ eliminated s1 = [[]] /\
    (1 <= m <= Z.of_nat (length (cands p)))%Z /\
    (* exactly m elected; elected and remaining partition the candidates *)
    Z.of_nat (length (flat (elected s1))) = m /\
    Permutation (flat (elected s1) ++ flat (remaining s1)) (cands p) /\
    (* no elected candidate has a lower total than a remaining one *)
    (forall c1 c2, In c1 (flat (elected s1)) -> In c2 (flat (remaining s1)) ->
       score_total p c2 <= score_total p c1) /\
    (* descending order, strictly except inside the group split by the recorded tiebreak *)
    (forall pre g1 mid g2 post c1 c2,
       elected s1 ++ remaining s1 = pre ++ g1 :: mid ++ g2 :: post -> In c1 g1 -> In c2 g2 ->
       score_total p c2 < score_total p c1 \/
       (score_total p c1 == score_total p c2 /\
        exists g t, tiebreaks s1 = [(g, t)] /\ In c1 g /\ In c2 g)) /\
    (* members of a reported group have equal totals *)
    (forall g c1 c2, In g (elected s1 ++ remaining s1) -> In c1 g -> In c2 g ->
       score_total p c1 == score_total p c2) /\
    (* equal totals are reported tied unless the recorded tiebreak separated them *)
    (forall c1 c2, In c1 (cands p) -> In c2 (cands p) -> score_total p c1 == score_total p c2 ->
       (exists g, In g (elected s1 ++ remaining s1) /\ In c1 g /\ In c2 g) \/
       (exists g t, tiebreaks s1 = [(g, t)] /\ In c1 g /\ In c2 g)) /\
    (tiebreaks s1 = [] -> elected s1 ++ remaining s1 = remaining s0) /\
    (forall g t, In (g, t) (tiebreaks s1) ->
       tiebreaks s1 = [(g, t)] /\ In g (remaining s0) /\
       exists l, t = singletons l /\ Permutation l g) /\
    (* the round-1 scores are the totals of the profile with the winners removed *)
    (exists np, remove_cand_prof (flat (elected s1)) true false p = inl np /\
       escores s1 = map (fun c => (c, score_total np c)) (cands np) /\
       (set_diff cand ceqb (cands p) (flat (elected s1)) <> [] ->
        cands np = set_diff cand ceqb (cands p) (flat (elected s1)))).
Proof. exact (c05_top_m_proof cand ceqb ceqb_spec). Qed.

(* ... and the election step fails with ValueError when there are fewer than m candidates, and,
   without a tiebreak rule, exactly when moreover candidates of equal total straddle seat m *)
Theorem c05_top_m_errors : forall m L k (p : profile) s,
  NoDup (cands p) -> rating_args_ok m L k -> Forall (score_ballot_ok L k) (ballots p) ->
  (forall b, In b (ballots p) -> incl (map fst (sc b)) (cands p)) ->
  (forall tb, (Z.of_nat (length (cands p)) < m)%Z -> run_rating m L k tb p s = inr EValue) /\
  (run_rating m L k None p s = inr EValue <->
     (Z.of_nat (length (cands p)) < m)%Z \/
     exists pre g post,
       score_to_ranking (map (fun c => (c, score_total p c)) (cands p)) true = pre ++ g :: post /\
       (Z.of_nat (length (flat pre)) < m)%Z /\ (m < Z.of_nat (length (flat pre) + length g))%Z).
Proof. exact (c05_top_m_errors_proof cand ceqb ceqb_spec). Qed.

End C05.

Print Assumptions c05_wiring_limited.
Print Assumptions c05_wiring_bloc.
Print Assumptions c05_wiring_cumulative_full.
Print Assumptions c05_wiring_rating_run.
Print Assumptions c05_wiring_approval_run.
Print Assumptions c05_accept_iff.
Print Assumptions c05_totals.
Print Assumptions c05_top_m.
Print Assumptions c05_top_m_errors.

(* ------------------------------------------------------------------ *)
(* Non-vacuity (cand := positive): rational weights, a candidate scored by nobody, a ballot
   exactly at the budget. *)

Definition sbal (d : list (positive * Q)) (w : Q) : ballot positive := mkBallot [] w d None None.
Definition st0 : Core.mstate positive := mkM [] [].

Definition ex_pr : Core.profile positive :=
  mkProfile [sbal [(1%positive, 3); (2%positive, 2)] (3#2);
             sbal [(2%positive, 3); (3%positive, 1#2)] 2;
             sbal [(3%positive, 3)] 1;
             sbal [(1%positive, 1); (2%positive, 1); (3%positive, 1)] 1] [1;2;3;4]%positive.

Ltac ex_nodup := repeat (constructor; [cbn; intuition discriminate|]); constructor.

(* the hypotheses of c05_top_m / c05_top_m_errors hold for L = 3, k = 5 (first ballot: 3 + 2 = 5,
   exactly at the budget; a score equal to L) *)
Example ex_pr_accepted :
  NoDup (cands ex_pr) /\ rating_args_ok 2 3 (Some 5) /\
  Forall (score_ballot_ok positive 3 (Some 5)) (ballots ex_pr) /\
  (forall b, In b (ballots ex_pr) -> incl (map fst (sc b)) (cands ex_pr)).
Proof.
  split; [cbn; ex_nodup|]. split.
  - split; [discriminate|]. split; [reflexivity|]. split; [reflexivity|discriminate].
  - split.
    + apply Forall_forall. intros b Hb. cbn in Hb.
      repeat (destruct Hb as [Hb|Hb];
        [subst b; split; [discriminate|]; split;
           [intros c q Hin; cbn [sc sbal In] in Hin;
            repeat (destruct Hin as [Hin|Hin]; [inversion Hin; subst; split; discriminate|]);
            destruct Hin
           |vm_compute; discriminate]|]).
      destruct Hb.
    + intros b Hb x Hx. cbn in Hb.
      repeat (destruct Hb as [Hb|Hb]; [subst b; cbn in Hx |- *; intuition|]). destruct Hb.
Qed.

(* totals 11/2, 10, 5, 0; two seats: 2 and 1 elected, candidate 4 (scored by nobody) last *)
Example ex_pr_runs :
  exists s0 s1,
    run_rating positive Pos.eqb 2 3 (Some 5) None ex_pr st0 = inl ([s0; s1], st0) /\
    Forall2 Qeq (map snd (escores s0)) [11#2; 10; 5; 0] /\
    Forall2 Qeq (map (score_total positive Pos.eqb ex_pr) (cands ex_pr)) [11#2; 10; 5; 0] /\
    remaining s0 = [[2];[1];[3];[4]]%positive /\
    elected s1 = [[2];[1]]%positive /\ remaining s1 = [[3];[4]]%positive /\ tiebreaks s1 = [].
Proof.
  do 2 eexists. split; [vm_compute; reflexivity|].
  split; [repeat constructor; vm_compute; reflexivity|].
  split; [repeat constructor; vm_compute; reflexivity|].
  repeat split.
Qed.

(* one unit less budget, or a limit just below the highest score: TypeError; bad arguments:
   ValueError, and they win over a bad profile; too many seats: ValueError *)
Example ex_pr_rejected :
  run_rating positive Pos.eqb 2 3 (Some (49#10)) None ex_pr st0 = inr EType /\
  (exists b, In b (ballots ex_pr) /\ score_ballot_bad positive 3 (Some (49#10)) b) /\
  run_rating positive Pos.eqb 2 (29#10) None None ex_pr st0 = inr EType /\
  run_rating positive Pos.eqb 0 (29#10) None None ex_pr st0 = inr EValue /\
  run_rating positive Pos.eqb 2 3 (Some (5#2)) None ex_pr st0 = inr EValue /\
  run_rating positive Pos.eqb 5 3 None None ex_pr st0 = inr EValue.
Proof.
  split; [vm_compute; reflexivity|]. split.
  - eexists. split; [left; reflexivity|]. right. right. eexists. split; [reflexivity|].
    vm_compute. reflexivity.
  - repeat split; vm_compute; reflexivity.
Qed.

(* a tie straddling the last seat: ValueError without a tiebreak, resolved by a recorded random
   draw otherwise *)
Definition ex_ptie : Core.profile positive :=
  mkProfile [sbal [(1%positive, 1); (2%positive, 1)] 1; sbal [(3%positive, 1)] 2] [1;2;3]%positive.

Example ex_tie :
  run_rating positive Pos.eqb 2 1 None None ex_ptie st0 = inr EValue /\
  score_to_ranking positive (map (fun c => (c, score_total positive Pos.eqb ex_ptie c)) (cands ex_ptie)) true
  = [[3];[1;2]]%positive /\
  exists s0 s1,
    run_rating positive Pos.eqb 2 1 None (Some TBRandom) ex_ptie (mkM [DPerm [2;1]%positive] [])
    = inl ([s0; s1], mkM [] [CSample [1;2]%positive]) /\
    elected s1 = [[3];[2]]%positive /\ remaining s1 = [[1]]%positive /\
    tiebreaks s1 = [([1;2]%positive, [[2];[1]]%positive)].
Proof.
  split; [vm_compute; reflexivity|]. split; [vm_compute; reflexivity|].
  do 2 eexists. split; [vm_compute; reflexivity|]. repeat split.
Qed.

(* the five public classes on concrete arguments *)
Example ex_classes :
  run_wrule positive Pos.eqb (WApproval 1 None) ex_ptie st0
  = run_rating positive Pos.eqb 1 1 None None ex_ptie st0 /\
  (exists sts, run_wrule positive Pos.eqb (WApproval 1 None) ex_ptie st0 = inl (sts, st0)) /\
  run_wrule positive Pos.eqb (WCumulative 2 None) ex_ptie st0 = inr EValue /\
  run_rule positive Pos.eqb (RLimited 1 2 None) ex_ptie st0 = inr EValue /\
  (exists sts, run_rule positive Pos.eqb (RLimited 2 2 (Some TBRandom)) ex_ptie
                 (mkM [DPerm [1;2]%positive] []) = inl (sts, mkM [] [CSample [1;2]%positive])) /\
  (exists sts, run_rule positive Pos.eqb (RBloc 1 None None) ex_ptie st0 = inr EType /\
               run_rule positive Pos.eqb (RBloc 1 (Some 2%Z) None) ex_ptie st0 = inl (sts, st0)).
Proof.
  split; [reflexivity|]. split; [eexists; vm_compute; reflexivity|].
  split; [vm_compute; reflexivity|]. split; [vm_compute; reflexivity|].
  split; [eexists; vm_compute; reflexivity|]. eexists. split; vm_compute; reflexivity.
Qed.
