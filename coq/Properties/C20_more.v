(* Properties/C20_more.v — C20, complements to Properties/C20.v: forward directions (a bad request
   IS refused, with which exception, in which order of the checks) and WHEN the refusal happens.
   Statements only; proofs are in Proofs/C20_more.v.

   1. "no partial result", with content: a request refused by the up-front checks of its class
      ([upfront], Spec/UpfrontSpec.v: argument checks then _validate_profile, in the constructor's
      order) is refused from EVERY random script — nothing is drawn, nothing depends on the seed;
      more generally an exception (other than the replay error EScript) raised with no random source
      at hand is raised from every script.  (An error result of the model carries no state at all:
      [res (A * mstate)] — there is no partially updated script or log to speak of.)
   2. seat counts out of range: CondoBorda; Alaska, with the order of its checks.
   3. an unknown tiebreak name is a ValueError exactly when the tiebreak is consulted: STV round,
      first stage of TopTwo / Alaska, PluralityVeto's veto loop (one-shot rules:
      Properties/C05_tiebreaks.v [c05_invalid_tiebreak]).
   4. non-integer weights and the random transfer: checked UP FRONT by STV's constructor (since the
      fix "random transfer refuses non-integer weights in __init__"): TypeError for every validated
      profile with a non-integral weight, whatever m, the quota and the script; the older lazy
      check, made on a winner's pile at the moment it is transferred, is still in the transfer
      function (step-level theorems below) but no run reaches it any more. *)
From VK Require Import Base Core STV Pairwise Rules PV Election.
From VK.Spec Require Import ScoreSpec EditSpec STVSpec PairwiseSpec RunSpec UpfrontSpec.
From VK.Proofs Require Import STV_final C20_more.
From Coq Require Import Permutation.

Section C20.
Variable cand : Type.
Variable ceqb : cand -> cand -> bool.
Hypothesis ceqb_spec : forall a b, reflect (a = b) (ceqb a b).

Notation profile := (profile cand).
Notation ballot := (ballot cand).
Notation estate := (estate cand).
Notation mstate := (mstate cand).
Notation flat := (flat cand).
Notation wf_profile := (wf_profile cand).
Notation ranked_profile := (ranked_profile cand).
Notation straddles_seat := (straddles_seat cand).
Notation untied_profile := (untied_profile cand).
Notation score_free := (EditSpec.score_free cand).
Notation wf_stv0 := (wf_stv0 cand).
Notation integral_weights := (integral_weights cand).
Notation script_ok := (script_ok cand).
Notation step_ctx := (step_ctx cand ceqb).
Notation tally := (tally cand ceqb).
Notation first_place_votes := (first_place_votes cand ceqb).
Notation score_to_ranking := (score_to_ranking cand).
Notation plurality_stage := (plurality_stage cand ceqb).
Notation run_toptwo := (run_toptwo cand ceqb).
Notation run_alaska := (run_alaska cand ceqb).
Notation run_stv := (run_stv cand ceqb).
Notation stv_step := (stv_step cand ceqb).
Notation stv_init := (stv_init cand).
Notation run_rule := (run_rule cand ceqb).
Notation run_pv := (run_pv cand ceqb).
Notation upfront := (upfront cand).
Notation pv_upfront := (pv_upfront cand).
Notation round0 := (round0 cand ceqb).
Notation stv_validate := (stv_validate cand).
Notation ranking_validate := (ranking_validate cand).

(* ================================================================== *)
(** * 1. refused up front = refused whatever the random source *)

Theorem c20_upfront_rejects : forall r (p : profile) e,
  upfront r p = inr e -> forall s : mstate, run_rule r p s = inr e.
Proof. exact (upfront_rejects cand ceqb). Qed.

Theorem c20_pv_upfront_rejects : forall m tb (p : profile) e,
  pv_upfront m p = inr e -> forall s : mstate, run_pv m tb p s = inr e.
Proof. exact (pv_upfront_rejects cand ceqb). Qed.

Theorem c20_error_before_any_draw : forall r (p : profile) l0 e,
  run_rule r p (mkM [] l0) = inr e -> e <> EScript ->
  forall s : mstate, run_rule r p s = inr e.
Proof. exact (error_before_any_draw cand ceqb). Qed.

(* ================================================================== *)
(** * 2. seat counts out of range *)

(* CondoBorda on untied ballots: m < 1 or m > n is a ValueError (the converse is
   [c01_condoborda_errors]); on score-free ballots this is the ONLY ValueError *)
Theorem c20_condoborda_m_range : forall m (p : profile) (s : mstate), untied_profile p ->
  (m < 1 \/ Z.of_nat (length (cands p)) < m)%Z -> run_rule (RCondoBorda m) p s = inr EValue.
Proof. exact (condoborda_m_range cand ceqb ceqb_spec). Qed.

Theorem c20_condoborda_m_range_iff : forall m (p : profile) (s : mstate),
  untied_profile p -> score_free (ballots p) ->
  (run_rule (RCondoBorda m) p s = inr EValue <-> (m < 1 \/ Z.of_nat (length (cands p)) < m)%Z).
Proof. exact (condoborda_m_range_iff cand ceqb ceqb_spec). Qed.

(* Alaska(m_1, m_2), in the order of the checks: stage sizes not ordered (m_1 <= 0, m_2 <= 0 or
   m_1 < m_2): ValueError for EVERY profile; then a ballot without ranking: TypeError; then the
   first stage: m_1 > n is a ValueError; hence on a well-formed ranked profile ValueError unless
   1 <= m_2 <= m_1 <= n *)
Theorem c20_alaska_sizes : forall m1 m2 cfg (p : profile) (s : mstate),
  ((m1 <= 0 \/ m2 <= 0 \/ m1 < m2)%Z -> run_alaska m1 m2 cfg p s = inr EValue) /\
  ((1 <= m2 <= m1)%Z -> (exists b, In b (ballots p) /\ rk b = []) ->
     run_alaska m1 m2 cfg p s = inr EType) /\
  ((1 <= m2 <= m1)%Z -> wf_profile p -> (Z.of_nat (length (cands p)) < m1)%Z ->
     run_alaska m1 m2 cfg p s = inr EValue) /\
  (wf_profile p -> ~ ((1 <= m2 <= m1)%Z /\ (m1 <= Z.of_nat (length (cands p)))%Z) ->
     run_alaska m1 m2 cfg p s = inr EValue).
Proof. exact (alaska_sizes cand ceqb ceqb_spec). Qed.

(* conversely, with 1 <= m_2 <= m_1 <= n on a ranked profile an error is never a size error: it is
   the error of the first-stage election — ValueError for a first-place tie straddling seat m_1
   with no tiebreak rule or for an unknown tiebreak name, EScript for a wrong replay script — or
   the first stage has succeeded and the error comes from the STV stage *)
Theorem c20_alaska_sizes_ok_errors : forall m1 m2 cfg (p : profile) (s : mstate) e,
  ranked_profile p -> (1 <= m2 <= m1)%Z -> (m1 <= Z.of_nat (length (cands p)))%Z ->
  run_alaska m1 m2 cfg p s = inr e ->
  exists s0 d, round0 SKFpv p = inl s0 /\ first_place_votes p = inl d /\
    ((plurality_stage m1 (s_tiebreak cfg) p s0 s = inr e /\
      ((e = EValue /\ ((s_tiebreak cfg = None /\ straddles_seat (score_to_ranking d true) m1) \/
                       s_tiebreak cfg = Some TBInvalid)) \/
       (e = EScript /\ s_tiebreak cfg <> None))) \/
     (exists p1 s1 sa, plurality_stage m1 (s_tiebreak cfg) p s0 s = inl ((p1, s1), sa))).
Proof. exact (alaska_sizes_ok_errors cand ceqb ceqb_spec). Qed.

(* ================================================================== *)
(** * 3. an unknown tiebreak name *)

(* an STV round (any profile, any state): in one-by-one mode, when some tally reaches the threshold
   and the top group of the previous ranking has two or more members, the unknown name is a
   ValueError ... *)
Theorem c20_stv_round_invalid_tiebreak : forall cfg t p0 n (p : profile) prev (s : mstate) g rest,
  filter (fun q => Qle_bool t (snd q)) (escores prev) <> [] ->
  s_simul cfg = false -> s_tiebreak cfg = Some TBInvalid ->
  remaining prev = g :: rest -> (2 <= length g)%nat ->
  stv_step cfg t p0 n p prev s = inr EValue.
Proof. exact (stv_round_invalid_tiebreak cand ceqb). Qed.

(* ... and in every other situation (simultaneous mode, nobody at the threshold — elimination ties
   are always broken by first-place votes —, or a single candidate on top) the round is the same
   whatever the tiebreak option tb' is, known or not *)
Theorem c20_stv_round_tiebreak_unused : forall cfg tb' t p0 n (p : profile) prev (s : mstate),
  s_simul cfg = true \/ filter (fun q => Qle_bool t (snd q)) (escores prev) = [] \/
  (exists c rest, remaining prev = [c] :: rest) ->
  stv_step cfg t p0 n p prev s =
  stv_step (mkStv (s_m cfg) (s_quota cfg) (s_simul cfg) (s_transfer cfg) tb') t p0 n p prev s.
Proof. exact (stv_round_tiebreak_unused cand ceqb). Qed.

(* TopTwo / Alaska on a ranked profile: ValueError when the first stage consults it (a first-place
   tie straddles seat 2, resp. m_1) or has too few candidates *)
Theorem c20_toptwo_alaska_invalid_tiebreak : forall (p : profile) (s : mstate), ranked_profile p ->
  exists d, first_place_votes p = inl d /\
    ((Z.of_nat (length (cands p)) < 2)%Z \/ straddles_seat (score_to_ranking d true) 2 ->
       run_toptwo (Some TBInvalid) p s = inr EValue) /\
    (forall m1 m2 cfg, s_tiebreak cfg = Some TBInvalid -> (1 <= m2 <= m1)%Z ->
       (Z.of_nat (length (cands p)) < m1)%Z \/ straddles_seat (score_to_ranking d true) m1 ->
       run_alaska m1 m2 cfg p s = inr EValue).
Proof. exact (toptwo_alaska_invalid_tiebreak cand ceqb ceqb_spec). Qed.

(* PluralityVeto: the veto loop consults it when the last position of the ballot at hand holds two
   or more candidates *)
Theorem c20_pv_veto_invalid_tiebreak :
  forall bi order idx (bs : list ballot) (p : profile) d tbs (s : mstate) b lastg others,
  nth_error bs bi = Some b -> rev (rk b) = lastg :: others -> (2 <= length lastg)%nat ->
  veto_loop cand ceqb (bi :: order) idx bs p (Some TBInvalid) d tbs s = inr EValue.
Proof. exact (pv_veto_invalid_tiebreak cand ceqb). Qed.

(* ================================================================== *)
(** * 4. non-integer weights and the random transfer *)

(* 4a. THE UP-FRONT CHECK.  With the random transfer, EVERY profile that passes the ranking /
   no-tie validation and has a non-integral weight is refused with TypeError by the constructor,
   whatever the seat count (even out of range), the quota name (even unknown), the other options
   and the script of draws; hence by the run and by the rule *)
Theorem c20_random_nonintegral_type_error : forall cfg (p : profile),
  stv_validate p = inl tt -> s_transfer cfg = TRandom ->
  (exists b, In b (ballots p) /\ is_integral (wt b) = false) ->
  stv_init cfg p = inr EType /\ upfront (RSTV cfg) p = inr EType /\
  forall s : mstate, run_stv cfg p s = inr EType /\ run_rule (RSTV cfg) p s = inr EType.
Proof. exact (random_nonintegral_type_error cand ceqb). Qed.

(* the check exactly: TypeError iff some weight is not integral; the constructor goes on to the
   seat-count and quota checks, as with any other transfer, iff all weights are integral *)
Theorem c20_random_upfront_iff : forall cfg (p : profile),
  stv_validate p = inl tt -> s_transfer cfg = TRandom ->
  ((exists b, In b (ballots p) /\ is_integral (wt b) = false) <-> stv_init cfg p = inr EType) /\
  ((forall b, In b (ballots p) -> is_integral (wt b) = true) <->
   stv_init cfg p =
   if ((s_m cfg <=? 0) || (Z.of_nat (length (cands p)) <? s_m cfg))%Z then inr EValue
   else threshold (s_quota cfg) (s_m cfg) (total_wt cand (ballots p))).
Proof. exact (random_upfront_iff cand). Qed.

(* hence success of the constructor, or of a run, with the random transfer IMPLIES integral
   weights (no hypothesis on the profile) *)
Theorem c20_random_success_integral : forall cfg (p : profile),
  s_transfer cfg = TRandom ->
  (forall t, stv_init cfg p = inl t -> integral_weights p) /\
  (forall (s s' : mstate) sts, run_stv cfg p s = inl (sts, s') -> integral_weights p).
Proof. exact (random_success_integral cand ceqb). Qed.

(* Alaska: the STV stage is constructed on the profile p1 left by the first stage, and the same
   check refuses it *)
Theorem c20_alaska_stage_random_nonintegral :
  forall m1 m2 cfg (p : profile) (s sa : mstate) s0 p1 s1,
  alaska_args m1 m2 = inl tt -> ranking_validate p = inl tt -> round0 SKFpv p = inl s0 ->
  plurality_stage m1 (s_tiebreak cfg) p s0 s = inl ((p1, s1), sa) ->
  stv_validate p1 = inl tt -> s_transfer cfg = TRandom ->
  (exists b, In b (ballots p1) /\ is_integral (wt b) = false) ->
  run_alaska m1 m2 cfg p s = inr EType.
Proof. exact (alaska_stage_random_nonintegral cand ceqb). Qed.

(* 4b. run level, valid (untied, positive-weight) profile: STV raises TypeError iff the transfer is
   the random one and some weight is not integral ... *)
Theorem c20_stv_type_error_iff : forall cfg (p : profile) (s : mstate),
  wf_stv0 p -> (s_transfer cfg = TRandom -> script_ok s) ->
  (run_stv cfg p s = inr EType <-> s_transfer cfg = TRandom /\ ~ integral_weights p).
Proof. exact (run_stv_type_error_iff cand ceqb ceqb_spec). Qed.

(* ... in particular never with integral weights, under any script of draws ... *)
Theorem c20_stv_no_type_error : forall cfg (p : profile) (s : mstate),
  wf_stv0 p -> (s_transfer cfg = TRandom -> script_ok s /\ integral_weights p) ->
  run_stv cfg p s <> inr EType.
Proof. exact (run_stv_no_type_error cand ceqb ceqb_spec). Qed.

(* ... and never from a round: once the constructor has succeeded the lazy check of the transfer
   function (4c) cannot fire *)
Theorem c20_stv_rounds_no_type_error : forall cfg (p : profile) (s : mstate) t,
  wf_stv0 p -> (s_transfer cfg = TRandom -> script_ok s) ->
  stv_init cfg p = inl t -> run_stv cfg p s <> inr EType.
Proof. exact (run_stv_rounds_no_type_error cand ceqb ceqb_spec). Qed.

(* integrality is an invariant of the count: a round of the random transfer maps a profile with
   integral weights to a profile with integral weights *)
Theorem c20_random_round_integral : forall cfg t p0 (p : profile) prev,
  step_ctx p0 p prev -> forall n (s s' : mstate) np st, s_transfer cfg = TRandom -> script_ok s -> integral_weights p ->
  stv_step cfg t p0 n p prev s = inl ((np, st), s') -> integral_weights np.
Proof. exact (step_integral cand ceqb ceqb_spec). Qed.

(* 4c. THE LAZY CHECK, at the level of one round (stv_step called on an arbitrary situation
   satisfying step_ctx; by 4b no run of run_stv reaches these cases any more, they describe the
   transfer function itself, e.g. as called on the example ex_second below).  A round raises
   TypeError only with the random transfer, only when some candidate w reaches the threshold, and
   only because a ballot of w's pile has a non-integral weight (so an elimination round never
   does) ... *)
Theorem c20_round_type_error : forall cfg t p0 (p : profile) prev,
  step_ctx p0 p prev -> forall n (s : mstate), (s_transfer cfg = TRandom -> script_ok s) ->
  stv_step cfg t p0 n p prev s = inr EType ->
  s_transfer cfg = TRandom /\
  exists w b, In w (cands p) /\ t <= tally w (ballots p) /\
    In b (ballots p) /\ first_is cand ceqb w b = true /\ is_integral (wt b) = false.
Proof. exact (step_type_error cand ceqb ceqb_spec). Qed.

(* ... a round that succeeds in electing somebody has found only integral weights in the pile of
   every candidate it elected ... *)
Theorem c20_random_elected_pile_integral : forall cfg t p0 (p : profile) prev,
  step_ctx p0 p prev -> forall n (s s' : mstate) np st, s_transfer cfg = TRandom -> script_ok s ->
  stv_step cfg t p0 n p prev s = inl ((np, st), s') ->
  (exists c, In c (cands p) /\ t <= tally c (ballots p)) ->
  forall w b, In w (flat (elected st)) -> In b (ballots p) -> first_is cand ceqb w b = true ->
    is_integral (wt b) = true.
Proof. exact (step_elected_pile_integral cand ceqb ceqb_spec). Qed.

(* ... and when a single candidate w is on top, reaches the threshold and owns a ballot of
   non-integral weight, w's pile is the first to be transferred: the round raises TypeError
   (whatever the script) *)
Theorem c20_first_transfer_type_error : forall cfg t p0 (p : profile) prev,
  step_ctx p0 p prev -> forall n (s : mstate) w rest, s_transfer cfg = TRandom ->
  remaining prev = [w] :: rest -> t <= tally w (ballots p) ->
  (exists b, In b (ballots p) /\ first_is cand ceqb w b = true /\ is_integral (wt b) = false) ->
  stv_step cfg t p0 n p prev s = inr EType.
Proof. exact (step_first_transfer_type_error cand ceqb ceqb_spec). Qed.

(* (the former run-level corollary c20_run_first_transfer_type_error assumed stv_init cfg p = inl t
   together with the random transfer and a non-integral weight: since the up-front check these
   hypotheses exclude each other; it is superseded by c20_random_nonintegral_type_error, which has
   the same conclusion without the hypotheses on the threshold and on the top candidate) *)

End C20.

Print Assumptions c20_upfront_rejects.
Print Assumptions c20_pv_upfront_rejects.
Print Assumptions c20_error_before_any_draw.
Print Assumptions c20_condoborda_m_range.
Print Assumptions c20_condoborda_m_range_iff.
Print Assumptions c20_alaska_sizes.
Print Assumptions c20_alaska_sizes_ok_errors.
Print Assumptions c20_stv_round_invalid_tiebreak.
Print Assumptions c20_stv_round_tiebreak_unused.
Print Assumptions c20_toptwo_alaska_invalid_tiebreak.
Print Assumptions c20_pv_veto_invalid_tiebreak.
Print Assumptions c20_random_nonintegral_type_error.
Print Assumptions c20_random_upfront_iff.
Print Assumptions c20_random_success_integral.
Print Assumptions c20_alaska_stage_random_nonintegral.
Print Assumptions c20_stv_type_error_iff.
Print Assumptions c20_stv_no_type_error.
Print Assumptions c20_stv_rounds_no_type_error.
Print Assumptions c20_random_round_integral.
Print Assumptions c20_round_type_error.
Print Assumptions c20_random_elected_pile_integral.
Print Assumptions c20_first_transfer_type_error.

(* ------------------------------------------------------------------ *)
(* Non-vacuity (cand := positive). *)
Open Scope positive_scope.

Definition B (l : list positive) (w : Q) : Core.ballot positive :=
  plain_ballot positive (Core.singletons positive l) w.
Definition st0 : Core.mstate positive := mkM [] [].
Definition rcfg (m : Z) (simul : bool) : stv_cfg := mkStv m QDroop simul TRandom None.

Definition ex_good : Core.profile positive :=
  mkProfile [B [1;2;3] 3; B [2;1] 2; B [3] 1] [1;2;3].

Example ex_good_wf : wf_stv0 positive ex_good /\ untied_profile positive ex_good /\
  ranked_profile positive ex_good /\ integral_weights positive ex_good.
Proof.
  split; [exact (proj1 (wf_stv_profile_b_ok positive Pos.eqb Pos.eqb_spec ex_good eq_refl))|].
  split.
  - split; [repeat (constructor; [cbn; intuition discriminate|]); constructor|]. split; [discriminate|].
    repeat (constructor; [split; [discriminate|]; split; [repeat constructor|]; split;
      [repeat (constructor; [cbn; intuition discriminate|]); constructor|];
      split; [intros x Hx; cbn in Hx |- *; intuition|]; split; [intros x []|reflexivity]|]).
    constructor.
  - split; [|repeat constructor]. split; [|repeat constructor]. split.
    + repeat (constructor; [cbn; intuition discriminate|]); constructor.
    + repeat (constructor; [cbn; repeat split;
        [discriminate|repeat (constructor; [discriminate|]); constructor
        |repeat (constructor; [cbn; intuition discriminate|]); constructor
        |intros x Hx; cbn in Hx |- *; intuition]|]). constructor.
Qed.

(* 1. refused up front: an increasing Borda vector, Alaska sizes, a seat count for STV; and an
   error found without any random source *)
Example ex_upfront :
  upfront positive (RBorda 1 (Some [1; 2]%Q) (Some TBRandom)) ex_good = inr EValue /\
  upfront positive (RAlaska 1 2 (rcfg 1 true)) ex_good = inr EValue /\
  upfront positive (RSTV (rcfg 4 true)) ex_good = inr EValue /\
  upfront positive (RPlurality 1 None) (mkProfile [B [1;2;3] 3; B [] 1] [1;2;3]) = inr EType /\
  upfront positive (RPlurality 1 None) ex_good = inl tt /\
  pv_upfront positive 4 ex_good = inr EValue /\
  run_rule positive Pos.eqb (RCondoBorda 4) ex_good st0 = inr EValue.
Proof. repeat split; vm_compute; reflexivity. Qed.

(* 2. CondoBorda and Alaska: m = n accepted, m = n + 1 and m = 0 refused *)
Example ex_sizes :
  run_rule positive Pos.eqb (RCondoBorda 4) ex_good st0 = inr EValue /\
  run_rule positive Pos.eqb (RCondoBorda 0) ex_good st0 = inr EValue /\
  (exists sts, run_rule positive Pos.eqb (RCondoBorda 3) ex_good st0 = inl (sts, st0)) /\
  run_alaska positive Pos.eqb 4 1 (mkStv 1 QDroop true TFractional None) ex_good st0 = inr EValue /\
  run_alaska positive Pos.eqb 2 3 (mkStv 1 QDroop true TFractional None) ex_good st0 = inr EValue /\
  (exists sts, run_alaska positive Pos.eqb 3 1 (mkStv 1 QDroop true TFractional None) ex_good st0
               = inl (sts, st0)).
Proof.
  split; [vm_compute; reflexivity|]. split; [vm_compute; reflexivity|].
  split; [eexists; vm_compute; reflexivity|]. split; [vm_compute; reflexivity|].
  split; [vm_compute; reflexivity|]. eexists; vm_compute; reflexivity.
Qed.

(* 3. an unknown tiebreak name: STV one-by-one with two candidates tied on top at the threshold:
   ValueError; the same profile in simultaneous mode: no error *)
Definition ex_top_tie : Core.profile positive :=
  mkProfile [B [1;3] 2; B [2;3] 2; B [3] 1] [1;2;3].

Example ex_invalid_tb :
  run_stv positive Pos.eqb (mkStv 2 QDroop false TFractional (Some TBInvalid)) ex_top_tie st0 = inr EValue /\
  (exists sts, run_stv positive Pos.eqb (mkStv 2 QDroop true TFractional (Some TBInvalid)) ex_top_tie st0
               = inl (sts, st0)) /\
  run_toptwo positive Pos.eqb (Some TBInvalid) (mkProfile [B [1] 2; B [2] 1; B [3] 1] [1;2;3]) st0 = inr EValue /\
  (exists sts, run_toptwo positive Pos.eqb (Some TBInvalid) ex_good st0 = inl (sts, st0)).
Proof.
  split; [vm_compute; reflexivity|]. split; [eexists; vm_compute; reflexivity|].
  split; [vm_compute; reflexivity|]. eexists; vm_compute; reflexivity.
Qed.

(* 4. the random transfer IS refused up front for a non-integer weight.
   (i) ex_lazy: candidate 1 (weight 4) reaches the Droop quota 3 at once; the ballot of weight 3/2
       belongs to candidate 2's pile, which is never transferred.  Before the fix the run succeeded
       (the check was lazy); now it is a TypeError from every script, even for a seat count out of
       range and an unknown quota name, while the ROUND itself (stv_step from the initial state,
       threshold 3) still succeeds: the refusal is the constructor's;
   (ii) ex_first: the non-integral ballot is in the winner's pile: TypeError (now up front);
   (iii) ex_second: TypeError up front.  At the level of rounds (threshold 3, as the fractional
       configuration computes it) the lazy check is still what the transfer function does: nobody
       reaches the quota in round 1 (an elimination: no check), candidate 2 does in round 2 with
       the ballot of weight 5/2 in its pile: stv_step raises TypeError only then *)
Definition ex_lazy : Core.profile positive := mkProfile [B [1;2] 4; B [2;1] (3#2)] [1;2].
Definition ex_first : Core.profile positive := mkProfile [B [1;2] (7#2); B [2;1] 1] [1;2].
Definition ex_second : Core.profile positive :=
  mkProfile [B [1;3] 2; B [2;3] (5#2); B [3;2] 1] [1;2;3].
Definition fcfg (m : Z) (simul : bool) : stv_cfg := mkStv m QDroop simul TFractional None.

Example ex_random_transfer_upfront :
  wf_stv0 positive ex_lazy /\ ~ integral_weights positive ex_lazy /\
  (forall cfg s, s_transfer cfg = TRandom -> run_stv positive Pos.eqb cfg ex_lazy s = inr EType) /\
  run_stv positive Pos.eqb (mkStv 7 QBad true TRandom None) ex_lazy st0 = inr EType /\
  run_stv positive Pos.eqb (mkStv 7 QBad true TFractional None) ex_lazy st0 = inr EValue /\
  (exists sts s', run_stv positive Pos.eqb (fcfg 1 true) ex_lazy st0 = inl (sts, s')) /\
  (exists s0 np st s', STV.stv_init positive (fcfg 1 true) ex_lazy = inl 3%Q /\
     initial_state positive Pos.eqb ex_lazy = inl s0 /\
     stv_step positive Pos.eqb (rcfg 1 true) 3 ex_lazy 0 ex_lazy s0 (mkM [DRanks [[[2]]]] [])
       = inl ((np, st), s') /\ elected st = [[1]]) /\
  wf_stv0 positive ex_first /\
  (forall s, run_stv positive Pos.eqb (rcfg 1 true) ex_first s = inr EType) /\
  wf_stv0 positive ex_second /\
  (forall s, run_stv positive Pos.eqb (rcfg 1 true) ex_second s = inr EType) /\
  (exists s0 np st, STV.stv_init positive (fcfg 1 true) ex_second = inl 3%Q /\
     initial_state positive Pos.eqb ex_second = inl s0 /\
     stv_step positive Pos.eqb (rcfg 1 true) 3 ex_second 0 ex_second s0 st0 = inl ((np, st), st0) /\
     eliminated st = [[3]] /\
     stv_step positive Pos.eqb (rcfg 1 true) 3 ex_second 0 np st st0 = inr EType).
Proof.
  assert (Hup : forall (p : Core.profile positive) cfg s,
            STV.stv_validate positive p = inl tt -> s_transfer cfg = TRandom ->
            (exists b, In b (ballots p) /\ is_integral (wt b) = false) ->
            run_stv positive Pos.eqb cfg p s = inr EType).
  { intros p cfg s Hv Hk Hb.
    exact (proj1 (proj2 (proj2 (c20_random_nonintegral_type_error positive Pos.eqb cfg p Hv Hk Hb)) s)). }
  split; [exact (proj1 (wf_stv_profile_b_ok positive Pos.eqb Pos.eqb_spec ex_lazy eq_refl))|].
  split.
  { intros H. inversion H as [|x l _ H2]; subst. inversion H2 as [|y l' Hy _]; subst. vm_compute in Hy. discriminate. }
  split.
  { intros cfg s Hk. apply Hup; [vm_compute; reflexivity|exact Hk|].
    eexists. split; [right; left; reflexivity|vm_compute; reflexivity]. }
  split; [vm_compute; reflexivity|]. split; [vm_compute; reflexivity|].
  split; [do 2 eexists; vm_compute; reflexivity|].
  split.
  { do 4 eexists. split; [vm_compute; reflexivity|]. split; [vm_compute; reflexivity|].
    split; [vm_compute; reflexivity|reflexivity]. }
  split; [exact (proj1 (wf_stv_profile_b_ok positive Pos.eqb Pos.eqb_spec ex_first eq_refl))|].
  split.
  { intros s. apply Hup; [vm_compute; reflexivity|reflexivity|].
    eexists. split; [left; reflexivity|vm_compute; reflexivity]. }
  split; [exact (proj1 (wf_stv_profile_b_ok positive Pos.eqb Pos.eqb_spec ex_second eq_refl))|].
  split.
  { intros s. apply Hup; [vm_compute; reflexivity|reflexivity|].
    eexists. split; [right; left; reflexivity|vm_compute; reflexivity]. }
  do 3 eexists. split; [vm_compute; reflexivity|]. split; [vm_compute; reflexivity|].
  split; [vm_compute; reflexivity|]. split; [reflexivity|]. vm_compute. reflexivity.
Qed.

(* with integral weights: no TypeError, e.g. a run that draws one ballot of the winner's surplus *)
Definition ex_int : Core.profile positive := mkProfile [B [1;2] 4; B [2;1] 1] [1;2].

Example ex_random_integral :
  wf_stv0 positive ex_int /\ integral_weights positive ex_int /\
  exists sts s', run_stv positive Pos.eqb (rcfg 1 true) ex_int (mkM [DRanks [[[2]]]] []) = inl (sts, s').
Proof.
  split; [exact (proj1 (wf_stv_profile_b_ok positive Pos.eqb Pos.eqb_spec ex_int eq_refl))|].
  split; [repeat constructor|]. do 2 eexists. vm_compute. reflexivity.
Qed.
