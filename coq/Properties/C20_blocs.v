(* Properties/C20_blocs.v — C20, generator side: "Generators refuse bloc proportions or cohesion
   parameters that do not sum to one, mismatched bloc names and preference intervals with
   overlapping candidate sets".  Statements only; proofs in Proofs/C20_blocs.v.

   [bloc_checks props interval_keys cohesion] models the parameter checks of
   BallotGenerator.__init__ (props = bloc_voter_prop, interval_keys = the keys of
   pref_intervals_by_bloc, cohesion = cohesion_parameters, each as an association list over numbered
   blocs); [combine_checks] models the checks of combine_preference_intervals.
   Vocabulary (Spec/BlocSpec.v): [sums_to_one q] = |q - 1| < 5e-9 (the model's reading of
   round(q, 8) == 1), [same_names a b] = same set of names, [props_ok], [names_pi_ok],
   [names_coh_ok], [row_ok]/[rows_ok] = the four documented preconditions, [overlapping] = two of
   the candidate lists share a candidate, [self_repeating] = one list repeats a candidate.
   Every failure is a ValueError ([EValue]); the model does not carry the message text, so the
   ORDER of the checks is stated as: which preconditions must hold for a later check to be the one
   that decides. *)
From VK Require Import Base GenValidation PrefInterval.
From VK.Spec Require Import BlocSpec.
From VK.Proofs Require Import C20_blocs.
From Coq Require Import List QArith.
Import ListNotations.

(* ---- the two primitive tests ---- *)

(* the sum test accepts exactly the totals strictly within 5e-9 of 1 *)
Theorem c20_blocs_sum_test : forall q,
  (rounds_to_one q = true <-> 1 - (5 # 1000000000) < q /\ q < 1 + (5 # 1000000000)) /\
  (rounds_to_one q = false <-> (q <= 1 - (5 # 1000000000) \/ 1 + (5 # 1000000000) <= q)).
Proof. exact sum_test. Qed.

(* the key test accepts exactly equal name SETS; a mismatch is a name present on one side only *)
Theorem c20_blocs_names_test : forall a b : list positive,
  (same_keys a b = true <-> forall x, In x a <-> In x b) /\
  (same_keys a b = false <-> exists x, (In x a /\ ~ In x b) \/ (In x b /\ ~ In x a)).
Proof. exact names_test. Qed.

(* ---- BallotGenerator.__init__ ---- *)

(* only ValueError, and always a result *)
Theorem c20_blocs_only_value_error : forall props ik coh,
  (forall e, bloc_checks props ik coh = inr e -> e = EValue) /\
  (bloc_checks props ik coh = inl tt \/ bloc_checks props ik coh = inr EValue).
Proof. exact bloc_checks_only_total. Qed.

(* accepted iff none of the four causes applies *)
Theorem c20_blocs_accepted_iff : forall props ik coh,
  bloc_checks props ik coh = inl tt <->
  sums_to_one (qsum (map snd props)) /\
  same_names (map fst props) ik /\
  same_names (map fst props) (map fst coh) /\
  (forall row, In row coh -> sums_to_one (qsum (map snd (snd row)))).
Proof. exact bloc_checks_ok_iff. Qed.

(* refused, with ValueError, iff the proportions do not sum to one, or the bloc names of the
   proportions differ from those of the preference intervals, or from those of the cohesion
   parameters, or some bloc's cohesion row does not sum to one *)
Theorem c20_blocs_rejected_iff : forall props ik coh,
  bloc_checks props ik coh = inr EValue <->
  ~ sums_to_one (qsum (map snd props)) \/
  ~ same_names (map fst props) ik \/
  ~ same_names (map fst props) (map fst coh) \/
  (exists row, In row coh /\ ~ sums_to_one (qsum (map snd (snd row)))).
Proof. exact bloc_checks_err_iff. Qed.

(* one cause at a time (the quantifier of the property: violate exactly one precondition while
   satisfying the others): the call is refused iff that precondition is violated *)
Theorem c20_blocs_single_cause : forall props ik coh,
  (names_pi_ok props ik -> names_coh_ok props coh -> rows_ok coh ->
     (bloc_checks props ik coh = inr EValue <-> ~ props_ok props)) /\
  (props_ok props -> names_coh_ok props coh -> rows_ok coh ->
     (bloc_checks props ik coh = inr EValue <-> ~ names_pi_ok props ik)) /\
  (props_ok props -> names_pi_ok props ik -> rows_ok coh ->
     (bloc_checks props ik coh = inr EValue <-> ~ names_coh_ok props coh)) /\
  (props_ok props -> names_pi_ok props ik -> names_coh_ok props coh ->
     (bloc_checks props ik coh = inr EValue <-> exists row, In row coh /\ ~ row_ok row)).
Proof. exact bloc_checks_single_cause. Qed.

(* order of the checks (first error wins): the proportions are tested whatever the rest; the
   interval names only once the proportions passed; the cohesion names only once both passed; and
   then the cohesion rows are scanned in dictionary order up to the FIRST row that does not sum to
   one (rows after it are never looked at) *)
Theorem c20_blocs_order : forall props ik coh,
  (~ props_ok props -> bloc_checks props ik coh = inr EValue) /\
  (props_ok props -> ~ names_pi_ok props ik -> bloc_checks props ik coh = inr EValue) /\
  (props_ok props -> names_pi_ok props ik -> ~ names_coh_ok props coh ->
     bloc_checks props ik coh = inr EValue) /\
  (props_ok props -> names_pi_ok props ik -> names_coh_ok props coh ->
     (bloc_checks props ik coh = inr EValue <->
      exists pre row post, coh = pre ++ row :: post /\ (forall r, In r pre -> row_ok r) /\ ~ row_ok row)).
Proof. exact bloc_checks_order. Qed.

(* the code's fourth test (interval names against cohesion names) is implied by the second and
   third: it can never be the one that raises *)
Theorem c20_blocs_fourth_test_dead : forall (props : list (positive * Q)) ik
                                            (coh : list (positive * list (positive * Q))),
  same_keys (map fst props) ik = true -> same_keys (map fst props) (map fst coh) = true ->
  same_keys ik (map fst coh) = true.
Proof. exact fourth_test_dead. Qed.

(* ---- combine_preference_intervals ---- *)

(* the disjointness test (total size = size of the union) fails iff one candidate list repeats a
   candidate or two of the lists share one *)
Theorem c20_combine_overlap_meaning : forall ls : list (list positive),
  (~ NoDup (concat ls) <-> self_repeating ls \/ overlapping ls) /\
  (NoDup (concat ls) <-> ~ self_repeating ls /\ ~ overlapping ls).
Proof. exact overlap_meaning. Qed.

(* refused, with ValueError, iff the candidate sets overlap or the proportions do not sum to one;
   accepted iff neither *)
Theorem c20_combine_checks : forall (ics : list (list positive)) (props : list Q),
  (combine_checks ics props = inr EValue <->
     self_repeating ics \/ overlapping ics \/ ~ sums_to_one (qsum props)) /\
  (forall e, combine_checks ics props = inr e -> e = EValue) /\
  (combine_checks ics props = inl tt <->
     ~ self_repeating ics /\ ~ overlapping ics /\ sums_to_one (qsum props)).
Proof. exact combine_checks_iff. Qed.

(* order: disjointness first, whatever the proportions; the proportions only for disjoint sets *)
Theorem c20_combine_order : forall (ics : list (list positive)) (props : list Q),
  (~ NoDup (concat ics) -> combine_checks ics props = inr EValue) /\
  (NoDup (concat ics) -> ~ sums_to_one (qsum props) -> combine_checks ics props = inr EValue) /\
  (NoDup (concat ics) -> sums_to_one (qsum props) -> combine_checks ics props = inl tt).
Proof. exact combine_checks_staged. Qed.

(* no partial result: when the checks refuse, combine_preference_intervals returns that error
   and no interval *)
Theorem c20_combine_intervals_refused : forall (is : list pinterval) (props : list Q),
  combine_checks (map pi_cands is) props = inr EValue -> combine_intervals is props = inr EValue.
Proof. exact combine_intervals_checks_first. Qed.

Print Assumptions c20_blocs_sum_test.
Print Assumptions c20_blocs_names_test.
Print Assumptions c20_blocs_only_value_error.
Print Assumptions c20_blocs_accepted_iff.
Print Assumptions c20_blocs_rejected_iff.
Print Assumptions c20_blocs_single_cause.
Print Assumptions c20_blocs_order.
Print Assumptions c20_blocs_fourth_test_dead.
Print Assumptions c20_combine_overlap_meaning.
Print Assumptions c20_combine_checks.
Print Assumptions c20_combine_order.
Print Assumptions c20_combine_intervals_refused.

(* ------------------------------------------------------------------ *)
(* Non-vacuity: two blocs 1, 2 (three in the cohesion examples); each precondition violated
   alone, by the smallest margin and grossly; boundary cases accepted. *)

Definition eps : Q := 1 # 1000000000.          (* 1e-9 *)
Definition g_props : list (positive * Q) := [(1%positive, 7 # 10); (2%positive, 3 # 10)].
Definition g_keys : list positive := [2; 1]%positive.          (* same names, another order *)
Definition g_coh : list (positive * list (positive * Q)) :=
  [(2%positive, [(1%positive, 1 # 5); (2%positive, 4 # 5)]);
   (1%positive, [(1%positive, 9 # 10); (2%positive, 1 # 10)])].

Example ex_blocs_good :
  props_ok g_props /\ names_pi_ok g_props g_keys /\ names_coh_ok g_props g_coh /\ rows_ok g_coh /\
  bloc_checks g_props g_keys g_coh = inl tt.
Proof.
  assert (H : bloc_checks g_props g_keys g_coh = inl tt) by (vm_compute; reflexivity).
  pose proof (proj1 (c20_blocs_accepted_iff _ _ _) H) as (H1 & H2 & H3 & H4).
  split; [exact H1|]. split; [exact H2|]. split; [exact H3|]. split; [exact H4|exact H].
Qed.

(* proportions: 1 + 4e-9 accepted, 1 + 5e-9 and 1 - 5e-9 refused, 1.3 refused; all other
   preconditions met *)
Example ex_blocs_props :
  bloc_checks [(1%positive, 7 # 10); (2%positive, (3 # 10) + 4 * eps)] g_keys g_coh = inl tt /\
  bloc_checks [(1%positive, 7 # 10); (2%positive, (3 # 10) + 5 * eps)] g_keys g_coh = inr EValue /\
  bloc_checks [(1%positive, 7 # 10); (2%positive, (3 # 10) - 5 * eps)] g_keys g_coh = inr EValue /\
  bloc_checks [(1%positive, 7 # 10); (2%positive, 6 # 10)] g_keys g_coh = inr EValue /\
  ~ props_ok [(1%positive, 7 # 10); (2%positive, (3 # 10) + 5 * eps)].
Proof.
  repeat (split; [vm_compute; reflexivity|]).
  apply rounds_to_one_false_iff. vm_compute. reflexivity.
Qed.

(* bloc names: an extra / a missing / a renamed bloc in the intervals or in the cohesion table *)
Example ex_blocs_names :
  bloc_checks g_props [2; 1; 3]%positive g_coh = inr EValue /\
  bloc_checks g_props [2]%positive g_coh = inr EValue /\
  bloc_checks g_props [2; 3]%positive g_coh = inr EValue /\
  bloc_checks g_props g_keys
    [(3%positive, [(1%positive, 1 # 5); (2%positive, 4 # 5)]);
     (1%positive, [(1%positive, 9 # 10); (2%positive, 1 # 10)])] = inr EValue /\
  bloc_checks g_props g_keys [(1%positive, [(1%positive, 9 # 10); (2%positive, 1 # 10)])] = inr EValue /\
  ~ names_pi_ok g_props [2; 3]%positive /\
  (* repeated names do not matter: keys are compared as sets *)
  bloc_checks g_props [2; 1; 2]%positive g_coh = inl tt.
Proof.
  repeat (split; [vm_compute; reflexivity|]). split; [|vm_compute; reflexivity].
  apply same_keys_false_iff. vm_compute. reflexivity.
Qed.

(* cohesion rows: the LAST row off by 5e-9 is refused, by 4e-9 accepted; a row summing to 2 *)
Example ex_blocs_rows :
  bloc_checks g_props g_keys
    [(2%positive, [(1%positive, 1 # 5); (2%positive, 4 # 5)]);
     (1%positive, [(1%positive, 9 # 10); (2%positive, (1 # 10) - 5 * eps)])] = inr EValue /\
  bloc_checks g_props g_keys
    [(2%positive, [(1%positive, 1 # 5); (2%positive, 4 # 5)]);
     (1%positive, [(1%positive, 9 # 10); (2%positive, (1 # 10) - 4 * eps)])] = inl tt /\
  bloc_checks g_props g_keys
    [(2%positive, [(1%positive, 1); (2%positive, 1)]);
     (1%positive, [(1%positive, 9 # 10); (2%positive, 1 # 10)])] = inr EValue.
Proof. repeat split; vm_compute; reflexivity. Qed.

(* combine: a shared candidate (3) between the second and third interval; a repeated candidate;
   proportions 1/2 + 1/4; disjoint with proportions 1/4 + 0 + 3/4 accepted *)
Example ex_combine_checks :
  combine_checks [[1; 2]; [3]; [4; 3]]%positive [1 # 4; 0; 3 # 4] = inr EValue /\
  overlapping [[1; 2]; [3]; [4; 3]]%positive /\
  combine_checks [[1; 1]; [3]]%positive [1 # 4; 3 # 4] = inr EValue /\
  self_repeating [[1; 1]; [3]]%positive /\
  combine_checks [[1; 2]; [3]; [4; 5]]%positive [1 # 2; 0; 1 # 4] = inr EValue /\
  combine_checks [[1; 2]; [3]; [4; 5]]%positive [1 # 4; 0; (3 # 4) + 5 * eps] = inr EValue /\
  combine_checks [[1; 2]; [3]; [4; 5]]%positive [1 # 4; 0; (3 # 4) + 4 * eps] = inl tt /\
  combine_checks [[1; 2]; [3]; [4; 5]]%positive [1 # 4; 0; 3 # 4] = inl tt.
Proof.
  split; [vm_compute; reflexivity|]. split.
  { exists 1%nat, 2%nat, 3%positive. cbn. repeat split; auto. }
  split; [vm_compute; reflexivity|]. split.
  { exists [1; 1]%positive. split; [left; reflexivity|]. intros H. inversion H as [|x l Hn _]; subst.
    apply Hn. left. reflexivity. }
  repeat split; vm_compute; reflexivity.
Qed.
