(* Properties/C13.v — C13: composite and alias rules equal the composition they are documented
   to be.  Statements only; proofs are in Proofs/C13_wiring.v and Proofs/C13_composite.v.

   The alias theorems are stated against Generated/Wiring.v, which harness/wiring_gen.py
   regenerates from the Python source on every build: [wire_X] is what class X forwards to its
   parent's __init__, [guard_X] the ValueError test made before that, [default_*] the constructor
   defaults, [wired_threshold] the quota formulas of STV.get_threshold.  If the source changes
   what a wrapper forwards, these theorems stop compiling.

   [top_m_facts] (Spec/TopMSpec.v) is the conclusion of c04_top_m: exactly m elected, a partition
   of the candidates, nobody elected below somebody remaining, descending order, ties grouped
   unless the recorded tiebreak separated them. *)
From VK Require Import Base Core STV Pairwise Rules PV Election.
From VK.Generated Require Import Wiring.
From VK.Spec Require Import ScoreSpec TopMSpec.
From VK.Proofs Require Import C13_wiring C13_composite.
From Coq Require Import Permutation.

(* ---------- alias classes: what the wrappers forward (no candidates involved) ---------- *)

(* IRV is STV with one seat, the fractional transfer and simultaneous election *)
Theorem c13_irv : forall q tb,
  expand (WIRV q tb) = Some (wire_IRV q tb) /\ guard_IRV q tb = false /\
  wire_IRV q tb = RSTV (mkStv 1 q true TFractional tb).
Proof. exact c13_irv_proof. Qed.

(* SequentialRCV is STV whose transfer passes the winner's ballots on at full weight *)
Theorem c13_seqrcv : forall m q simul tb,
  expand (WSeqRCV m q simul tb) = Some (wire_SequentialRCV m q simul tb) /\
  guard_SequentialRCV m q simul tb = false /\
  wire_SequentialRCV m q simul tb = RSTV (mkStv m q simul TFullWeight tb).
Proof. exact c13_seqrcv_proof. Qed.

(* SNTV is Plurality *)
Theorem c13_sntv : forall m tb,
  expand (WSNTV m tb) = Some (wire_SNTV m tb) /\ guard_SNTV m tb = false /\
  wire_SNTV m tb = RPlurality m tb.
Proof. exact c13_sntv_proof. Qed.

(* the hand-written quota formulas of the STV model are the generated ones *)
Theorem c02_threshold_wired : forall q m total, threshold q m total = wired_threshold q m total.
Proof. exact c02_threshold_wired_proof. Qed.

Theorem c13_stv_defaults :
  default_STV_m = 1%Z /\ default_STV_transfer = TFractional /\ default_STV_quota = QDroop /\
  default_STV_simultaneous = true /\ default_STV_tiebreak = None.
Proof. exact c13_stv_defaults_proof. Qed.

(* the aliases keep STV's defaults for the parameters they expose, so IRV() = STV() *)
Theorem c13_alias_defaults :
  default_IRV_quota = default_STV_quota /\ default_IRV_tiebreak = default_STV_tiebreak /\
  default_SequentialRCV_m = default_STV_m /\ default_SequentialRCV_quota = default_STV_quota /\
  default_SequentialRCV_simultaneous = default_STV_simultaneous /\
  default_SequentialRCV_tiebreak = default_STV_tiebreak /\
  wire_IRV default_IRV_quota default_IRV_tiebreak
  = RSTV (mkStv default_STV_m default_STV_quota default_STV_simultaneous default_STV_transfer
                default_STV_tiebreak).
Proof. exact c13_alias_defaults_proof. Qed.

Print Assumptions c13_irv.
Print Assumptions c13_seqrcv.
Print Assumptions c13_sntv.
Print Assumptions c02_threshold_wired.
Print Assumptions c13_stv_defaults.
Print Assumptions c13_alias_defaults.

Section C13.
Variable cand : Type.
Variable ceqb : cand -> cand -> bool.
Hypothesis ceqb_spec : forall a b, reflect (a = b) (ceqb a b).

Notation profile := (profile cand).
Notation estate := (estate cand).
Notation mstate := (mstate cand).
Notation flat := (flat cand).
Notation ranking_validate := (ranking_validate cand).
Notation stv_init := (stv_init cand).
Notation run_rule := (run_rule cand ceqb).
Notation run_wrule := (run_wrule cand ceqb).
Notation run_stv := (run_stv cand ceqb).
Notation run_plurality := (run_plurality cand ceqb).
Notation run_toptwo := (run_toptwo cand ceqb).
Notation run_alaska := (run_alaska cand ceqb).
Notation plurality_stage := (plurality_stage cand ceqb).
Notation one_shot_step := (one_shot_step cand ceqb).
Notation stv_replay := (stv_replay cand ceqb).
Notation round0 := (round0 cand ceqb).
Notation initial_state := (initial_state cand ceqb).
Notation first_place_votes := (first_place_votes cand ceqb).
Notation elect_top_m := (elect_top_m cand ceqb).
Notation score_to_ranking := (score_to_ranking cand).
Notation remove_cand_prof := (remove_cand_prof cand ceqb).
Notation real_groups := (real_groups cand).
Notation no_group := (no_group cand).
Notation bump := (bump cand).
Notation top_m_facts := (top_m_facts cand).

(* ---------- the alias classes run their parent: same states, same errors, same draws ---------- *)

Theorem c13_irv_run : forall q tb (p : profile),
  run_wrule (WIRV q tb) p = run_rule (wire_IRV q tb) p /\
  run_wrule (WIRV q tb) p = run_stv (mkStv 1 q true TFractional tb) p.
Proof. exact (c13_irv_run_proof cand ceqb). Qed.

Theorem c13_seqrcv_run : forall m q simul tb (p : profile),
  run_wrule (WSeqRCV m q simul tb) p = run_rule (wire_SequentialRCV m q simul tb) p /\
  run_wrule (WSeqRCV m q simul tb) p = run_stv (mkStv m q simul TFullWeight tb) p.
Proof. exact (c13_seqrcv_run_proof cand ceqb). Qed.

Theorem c13_sntv_run : forall m tb (p : profile),
  run_wrule (WSNTV m tb) p = run_rule (wire_SNTV m tb) p /\
  run_wrule (WSNTV m tb) p = run_plurality m tb p.
Proof. exact (c13_sntv_run_proof cand ceqb). Qed.

(* ---------- STV numbers its rounds 0, 1, 2, ...; round 0 is the initial state ---------- *)

Theorem c13_stv_numbered : forall cfg (p : profile) s sts s',
  run_stv cfg p s = inl (sts, s') ->
  (forall i st, nth_error sts i = Some st -> rnd st = Z.of_nat i) /\
  exists t q0 more, stv_init cfg p = inl t /\ initial_state p = inl q0 /\ sts = q0 :: more.
Proof. exact (run_stv_numbered cand ceqb). Qed.

(* ---------- the Plurality stage shared by TopTwo (m = 2) and Alaska (m = m_1) ---------- *)

(* as coded: run Plurality(m) on p; keep its winners as "remaining", its losers as "eliminated",
   carry its tiebreak record; the new profile is p with the losers removed from every ballot
   (condensed, emptied ballots dropped), scored by first-place votes *)
Theorem c13_plurality_stage : forall m tb (p : profile) prev s p1 s1 sa,
  plurality_stage m tb p prev s = inl ((p1, s1), sa) <->
  exists q0 q1 d,
    run_plurality m tb p s = inl ([q0; q1], sa) /\
    remove_cand_prof (flat (remaining q1)) true false p = inl p1 /\
    first_place_votes p1 = inl d /\
    s1 = mkState (rnd prev + 1) (real_groups (elected q1)) no_group (remaining q1) (tiebreaks q1) d.
Proof. exact (plurality_stage_iff cand ceqb). Qed.

(* ---------- TopTwo ---------- *)

(* T1: TopTwo = [round 0 of p; the Plurality(2) stage; round 1 of Plurality(1) on the reduced
   profile, renumbered 2].  The final [one_shot_step] is the replay made by
   plurality.get_profile(): its result [x] is not used in the states *)
Theorem c13_toptwo : forall tb (p : profile) s sts s',
  run_toptwo tb p s = inl (sts, s') <->
  exists s0 p1 s1 sa q0 q1 sb x,
    ranking_validate p = inl tt /\ round0 SKFpv p = inl s0 /\
    plurality_stage 2 tb p s0 s = inl ((p1, s1), sa) /\
    run_plurality 1 tb p1 sa = inl ([q0; q1], sb) /\
    one_shot_step SKFpv 1 tb p1 q0 sb = inl (x, s') /\
    sts = [s0; s1; mkState 2 (remaining q1) (elected q1) (eliminated q1) (tiebreaks q1) (escores q1)].
Proof. exact (c13_toptwo_proof cand ceqb). Qed.

(* the winner is the head-to-head first-preference winner between the two highest first-place
   candidates, counted on the profile from which everybody else has been removed *)
Theorem c13_toptwo_winner : forall tb (p : profile) s sts s',
  NoDup (cands p) ->
  run_toptwo tb p s = inl (sts, s') ->
  exists s0 s1 s2 p1 d0 d,
    sts = [s0; s1; s2] /\ rnd s0 = 0%Z /\ rnd s1 = 1%Z /\ rnd s2 = 2%Z /\
    (* round 0: first-place ranking of p *)
    first_place_votes p = inl d0 /\ escores s0 = d0 /\ remaining s0 = score_to_ranking d0 true /\
    (* round 1: the two candidates elected by Plurality(2) remain, the others are eliminated *)
    Z.of_nat (length (flat (remaining s1))) = 2%Z /\
    Permutation (flat (remaining s1) ++ flat (eliminated s1)) (cands p) /\
    (forall c1 c2 q1 q2, In c1 (flat (remaining s1)) -> In c2 (flat (eliminated s1)) ->
       In (c1, q1) d0 -> In (c2, q2) d0 -> q2 <= q1) /\
    (* the reduced profile: everybody else removed from every ballot *)
    remove_cand_prof (flat (eliminated s1)) true false p = inl p1 /\
    Permutation (cands p1) (flat (remaining s1)) /\
    first_place_votes p1 = inl d /\ escores s1 = d /\ map fst d = cands p1 /\
    (* round 2: Plurality(1) on the reduced profile *)
    Z.of_nat (length (flat (elected s2))) = 1%Z /\
    Permutation (flat (elected s2) ++ flat (remaining s2)) (cands p1) /\
    (* without a recorded tiebreak in round 2 the winner strictly beats the loser head to head *)
    (tiebreaks s2 = [] ->
       exists w l qw ql, elected s2 = [[w]] /\ remaining s2 = [[l]] /\
         Permutation [w; l] (flat (remaining s1)) /\
         In (w, qw) d /\ In (l, ql) d /\ ql < qw).
Proof. exact (c13_toptwo_winner_proof cand ceqb ceqb_spec). Qed.

(* an exact head-to-head tie and no tiebreak rule: ValueError, from the second Plurality *)
Theorem c13_toptwo_tie : forall (p : profile) s s0 p1 s1 sa a b qa qb,
  NoDup (cands p) ->
  ranking_validate p = inl tt -> round0 SKFpv p = inl s0 ->
  plurality_stage 2 None p s0 s = inl ((p1, s1), sa) ->
  a <> b -> In (a, qa) (escores s1) -> In (b, qb) (escores s1) -> qa == qb ->
  run_plurality 1 None p1 sa = inr EValue /\ run_toptwo None p s = inr EValue.
Proof. exact (c13_toptwo_tie_proof cand ceqb ceqb_spec). Qed.

(* ---------- Alaska ---------- *)

(* T2, as coded: argument check, ranking check, round 0, the Plurality(m_1) stage, then STV for
   m_2 seats on the reduced profile, run from the monad state the stage left; the STV's own round
   0 is dropped and its other rounds are renumbered (+1).  The replay made by stv.get_profile()
   comes last: it can consume further draws ([sb] to [s']) or turn the whole call into an error,
   but the returned states do not mention its result [pf] *)
Theorem c13_alaska : forall m1 m2 cfg (p : profile) s sts s',
  run_alaska m1 m2 cfg p s = inl (sts, s') <->
  exists s0 p1 s1 sa t ssts sb pf,
    alaska_args m1 m2 = inl tt /\ ranking_validate p = inl tt /\ round0 SKFpv p = inl s0 /\
    plurality_stage m1 (s_tiebreak cfg) p s0 s = inl ((p1, s1), sa) /\
    stv_init (with_m cfg m2) p1 = inl t /\
    run_stv (with_m cfg m2) p1 sa = inl (ssts, sb) /\
    stv_replay (with_m cfg m2) t p1 [] p1 (removelast ssts) sb = inl (pf, s') /\
    sts = s0 :: s1 :: map bump (tl ssts).
Proof. exact (c13_alaska_proof cand ceqb). Qed.

(* ... and read as a specification: the m_1 highest first-place candidates survive, STV(m_2) is
   run on the profile with everybody else removed, rounds are numbered 0, 1, 2, ... *)
Theorem c13_alaska_states : forall m1 m2 cfg (p : profile) s sts s',
  NoDup (cands p) ->
  run_alaska m1 m2 cfg p s = inl (sts, s') ->
  exists s0 p1 s1 sa ssts sb d el rem t,
    (1 <= m2 <= m1)%Z /\
    (* round 0: first-place votes of p *)
    round0 SKFpv p = inl s0 /\ rnd s0 = 0%Z /\ escores s0 = d /\ first_place_votes p = inl d /\
    (* round 1: the Plurality(m1) stage *)
    plurality_stage m1 (s_tiebreak cfg) p s0 s = inl ((p1, s1), sa) /\
    elect_top_m (score_to_ranking d true) m1 (Some p) (s_tiebreak cfg) s = inl ((el, rem, t), sa) /\
    top_m_facts d m1 el rem t /\
    remove_cand_prof (flat rem) true false p = inl p1 /\
    rnd s1 = 1%Z /\ remaining s1 = el /\ elected s1 = [[]] /\ eliminated s1 = rem /\
    tiebreaks s1 = (match t with Some x => [x] | None => [] end) /\
    first_place_votes p1 = inl (escores s1) /\
    Permutation (cands p1) (flat el) /\ Z.of_nat (length (cands p1)) = m1 /\
    (* rounds 2..: STV(m2) on the reduced profile, from the monad state the stage left *)
    run_stv (with_m cfg m2) p1 sa = inl (ssts, sb) /\
    (exists q0, initial_state p1 = inl q0 /\ ssts = q0 :: tl ssts /\ escores q0 = escores s1) /\
    sts = s0 :: s1 :: map bump (tl ssts) /\
    (* consecutive numbering *)
    (forall i st, nth_error sts i = Some st -> rnd st = Z.of_nat i) /\
    length sts = S (length ssts).
Proof. exact (c13_alaska_states_proof cand ceqb ceqb_spec). Qed.

End C13.

Print Assumptions c13_irv_run.
Print Assumptions c13_seqrcv_run.
Print Assumptions c13_sntv_run.
Print Assumptions c13_stv_numbered.
Print Assumptions c13_plurality_stage.
Print Assumptions c13_toptwo.
Print Assumptions c13_toptwo_winner.
Print Assumptions c13_toptwo_tie.
Print Assumptions c13_alaska.
Print Assumptions c13_alaska_states.

(* ------------------------------------------------------------------ *)
(* Non-vacuity (cand := positive). *)

Definition rb (r : list (list positive)) (w : Q) : ballot positive := plain_ballot positive r w.
Definition st0 : Core.mstate positive := mkM [] [].

(* candidate 1 leads on first-place votes (4, 3, 2, 1) but loses the head-to-head count 4 : 6
   against candidate 2 once 3 and 4 are removed from every ballot *)
Definition ex_pt : Core.profile positive :=
  mkProfile [rb [[1];[2];[3]]%positive 4; rb [[2];[3];[1]]%positive 3; rb [[3];[2];[1]]%positive 2;
             rb [[4];[2]]%positive 1] [1;2;3;4]%positive.

Example ex_toptwo_runs :
  NoDup (cands ex_pt) /\
  exists s0 s1 s2,
    run_toptwo positive Pos.eqb None ex_pt st0 = inl ([s0; s1; s2], st0) /\
    remaining s1 = [[1];[2]]%positive /\ eliminated s1 = [[3];[4]]%positive /\
    Forall2 (fun x y => fst x = fst y /\ snd x == snd y) (escores s1) [(1%positive, 4); (2%positive, 6)] /\
    elected s2 = [[2]]%positive /\ remaining s2 = [[1]]%positive /\ tiebreaks s2 = [] /\
    (rnd s0, rnd s1, rnd s2) = (0, 1, 2)%Z.
Proof.
  split; [repeat (constructor; [cbn; intuition discriminate|]); constructor|].
  do 3 eexists. split; [vm_compute; reflexivity|].
  repeat split; repeat constructor; reflexivity.
Qed.

(* a 3 : 3 head-to-head tie between the two survivors, no tiebreak: the hypotheses of
   c13_toptwo_tie hold and the election is refused *)
Definition ex_ptie : Core.profile positive :=
  mkProfile [rb [[1];[2];[3]]%positive 3; rb [[2];[3];[1]]%positive 3; rb [[3]]%positive 1]
            [1;2;3]%positive.

Example ex_toptwo_tie :
  NoDup (cands ex_ptie) /\ STV.ranking_validate positive ex_ptie = inl tt /\
  exists s0 p1 s1,
    Rules.round0 positive Pos.eqb SKFpv ex_ptie = inl s0 /\
    Rules.plurality_stage positive Pos.eqb 2 None ex_ptie s0 st0 = inl ((p1, s1), st0) /\
    In (1%positive, 3) (escores s1) /\ In (2%positive, 3) (escores s1) /\
    run_toptwo positive Pos.eqb None ex_ptie st0 = inr EValue.
Proof.
  split; [repeat (constructor; [cbn; intuition discriminate|]); constructor|].
  split; [reflexivity|]. do 3 eexists.
  split; [vm_compute; reflexivity|]. split; [vm_compute; reflexivity|].
  split; [left; reflexivity|]. split; [right; left; reflexivity|]. vm_compute. reflexivity.
Qed.

(* Alaska(m_1 = 3, m_2 = 2) on the first profile: candidate 4 is dropped, then STV with the
   Droop quota 4 elects 1 and 2 simultaneously; three rounds numbered 0, 1, 2 *)
Example ex_alaska_runs :
  exists s0 s1 s2,
    run_alaska positive Pos.eqb 3 2 (mkStv 1 QDroop true TFractional None) ex_pt st0
    = inl ([s0; s1; s2], st0) /\
    remaining s1 = [[1];[2];[3]]%positive /\ eliminated s1 = [[4]]%positive /\
    elected s2 = [[1;2]]%positive /\ remaining s2 = [[3]]%positive /\
    (rnd s0, rnd s1, rnd s2) = (0, 1, 2)%Z /\
    exists ssts,
      run_stv positive Pos.eqb (mkStv 2 QDroop true TFractional None)
        (mkProfile [rb [[1];[2];[3]]%positive 4; rb [[2];[3];[1]]%positive 4; rb [[3];[2];[1]]%positive 2]
                   [1;2;3]%positive) st0 = inl (ssts, st0) /\
      [s2] = map (Rules.bump positive) (tl ssts).
Proof.
  do 3 eexists. split; [vm_compute; reflexivity|].
  repeat (split; [reflexivity|]). eexists. split; vm_compute; reflexivity.
Qed.

(* IRV through the wrapper and STV(m = 1) built directly agree on a concrete profile *)
Example ex_irv_is_stv :
  run_wrule positive Pos.eqb (WIRV QDroop None) ex_pt st0
  = run_stv positive Pos.eqb (mkStv 1 QDroop true TFractional None) ex_pt st0 /\
  exists sts, run_wrule positive Pos.eqb (WIRV QDroop None) ex_pt st0 = inl (sts, st0) /\
              length sts = 4%nat.
Proof. split; [reflexivity|]. eexists. split; vm_compute; reflexivity. Qed.
