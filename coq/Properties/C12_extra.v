(* Properties/C12_extra.v — C12, the `condense` flag of remove_cand (utils.py remove_cand ->
   condense_ballots; Model/Core.v remove_cand_bs removed true lz).
   Properties/C12.v and C12_profile.v give, for both values of the flag, the weight that the output
   LIST gives to a ranking or content (wtof_rk / wtof sum over every output ballot carrying it).  With
   condense = true "the total weight per resulting ranking" is stronger: every resulting content is
   carried by exactly ONE output ballot, and that ballot's own weight is the summed weight of the
   input ballots that map to it.  Statements only; proofs are in Proofs/C12_extra.v.
   Spec vocabulary (Spec/Content.v, Spec/EditSpec.v):
     same_content x y   rankings equal (positions as sets) and score dictionaries equal
     wt_where p bs      summed weight of the ballots of bs passing test p
     maps_to rem r' b   := ranking_eqb r' (strip rem (rk b)) *)
From VK Require Import Base Core EditSpec.
From VK.Spec Require Import Content.
From VK.Proofs Require Import C12_extra.

Section C12Extra.
Variable cand : Type.
Variable ceqb : cand -> cand -> bool.
Hypothesis ceqb_spec : forall a b, reflect (a = b) (ceqb a b).

Notation ballot := (ballot cand).
Notation ranking_eqb := (ranking_eqb cand ceqb).
Notation same_content := (same_content cand ceqb).
Notation strip := (strip cand ceqb).
Notation strip_scores := (strip_scores cand ceqb).
Notation scrub := (scrub cand ceqb).
Notation pos_wt := (pos_wt cand).
Notation remove_cand_bs := (remove_cand_bs cand ceqb).
Notation wt_where := (wt_where cand).
Notation maps_to := (maps_to cand ceqb).

(* any ballots (rankings and/or scores), any removal set, either value of leave_zero_weight_ballots:
   the condensed output repeats no ballot and no two of its ballots have the same content *)
Theorem c12_remove_condensed_distinct : forall removed lz (bs : list ballot),
  NoDup (remove_cand_bs removed true lz bs) /\
  (forall x y, In x (remove_cand_bs removed true lz bs) -> In y (remove_cand_bs removed true lz bs) ->
     same_content x y = true -> x = y).
Proof. exact (remove_condensed_distinct cand ceqb ceqb_spec). Qed.

(* the weight of each single output ballot is the summed weight of the input ballots scrubbed into
   its content that survive (keep a position or a score; positive weight unless leave_zero) *)
Theorem c12_remove_condensed_weight : forall removed lz (bs : list ballot) (k : ballot),
  In k (remove_cand_bs removed true lz bs) ->
  wt k == wt_where (fun b => same_content k (scrub removed b) &&
                             (nonempty (strip removed (rk b)) || nonempty (strip_scores removed (sc b))) &&
                             (lz || pos_wt b)) bs.
Proof. exact (remove_condensed_weight cand ceqb ceqb_spec). Qed.

(* ranked ballots without scores: each resulting ranking appears on one output ballot only ... *)
Theorem c12_remove_condensed_rankings : forall removed lz (bs : list ballot),
  Forall (fun b => sc b = []) bs ->
  forall x y, In x (remove_cand_bs removed true lz bs) -> In y (remove_cand_bs removed true lz bs) ->
    ranking_eqb (rk x) (rk y) = true -> x = y.
Proof. exact (remove_condensed_rankings cand ceqb ceqb_spec). Qed.

(* ... and that ballot's weight is the summed weight of the input ballots whose ranking maps to it *)
Theorem c12_remove_condensed_weight_rk : forall removed lz (bs : list ballot) (k : ballot),
  Forall (fun b => sc b = []) bs ->
  In k (remove_cand_bs removed true lz bs) -> nonempty (rk k) = true ->
  wt k == wt_where (fun b => maps_to removed (rk k) b && (lz || pos_wt b)) bs.
Proof. exact (remove_condensed_weight_rk cand ceqb ceqb_spec). Qed.

End C12Extra.

Print Assumptions c12_remove_condensed_distinct.
Print Assumptions c12_remove_condensed_weight.
Print Assumptions c12_remove_condensed_rankings.
Print Assumptions c12_remove_condensed_weight_rk.

(* ---------- non-vacuity: concrete inputs (cand := positive) ---------- *)
Section Examples.
Local Open Scope positive_scope.
Let B := Core.ballot positive.
Let pb (r : list (list positive)) (w : Q) : B := mkBallot r w [] None None.

(* removing 3: ballots 1, 2 and 5 all map to 1 > 2 (the fifth lists the tied pair the other way
   round), the third is exhausted, the fourth maps to {1,2} tied > 4 *)
Let bs0 : list B :=
  [pb [[1];[2]] 1%Q; pb [[1];[3];[2]] 2%Q; pb [[3]] (1#2)%Q; pb [[1;2];[3];[4]] 5%Q; pb [[3];[1];[2]] (1#3)%Q].

Example c12x_ex_hyps : Forall (fun b : B => sc b = []) bs0.
Proof. repeat constructor. Qed.

Example c12x_ex_output :
  map rk (Core.remove_cand_bs positive Pos.eqb [3] true false bs0) = [[[1];[2]]; [[1;2];[4]]] /\
  Forall2 Qeq (map wt (Core.remove_cand_bs positive Pos.eqb [3] true false bs0)) [(10#3)%Q; 5%Q] /\
  length (Core.remove_cand_bs positive Pos.eqb [3] false false bs0) = 4%nat.
Proof. split; [vm_compute; reflexivity|]. split; [|vm_compute; reflexivity]. repeat constructor; vm_compute; reflexivity. Qed.

(* the premises of c12_remove_condensed_weight_rk hold for the first output ballot, and the
   right-hand side is 1 + 2 + 1/3 *)
Example c12x_ex_instance :
  exists k, In k (Core.remove_cand_bs positive Pos.eqb [3] true false bs0) /\
            nonempty (rk k) = true /\ rk k = [[1];[2]] /\
            wt_where positive (fun b => EditSpec.maps_to positive Pos.eqb [3] (rk k) b &&
                                        (false || Core.pos_wt positive b)) bs0 == (10#3)%Q.
Proof.
  exists (mkBallot [[1];[2]] (1 + 2 + (1#3))%Q [] None None).
  split; [vm_compute; left; reflexivity|]. repeat split; vm_compute; reflexivity.
Qed.

End Examples.
