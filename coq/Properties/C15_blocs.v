(* Properties/C15_blocs.v — property C15 ("closed-form model probabilities equal their
   definitions"), the slate-Bradley-Terry ballot-type table slate_bt_pdf
   (= slate_BradleyTerry._compute_ballot_type_dist) for 1, 2, 3 and more blocs.

   The code's raw weight of a type t is  cohesion^s * (1 - cohesion)^(total - s)  with
   s = number of (own above opp) pairs and total = the product of ALL bloc sizes; the table is the
   raw weight divided by its sum over the distinct arrangements.

   * Any number of blocs (own, opp of sizes a, b; every further bloc non-empty): total - s =
     (opp above own pairs) + (total - a*b), the second summand being the same for every type; so for
     0 <= cohesion < 1 the table is proportional to
         cohesion^(own-above-opp pairs) * (1 - cohesion)^(opp-above-own pairs)
     and sums to one.  "other" is the ONE designated opposing bloc: pairs with a third slate do not
     count, and for three blocs the table is NOT proportional to the weight of the MCMC sampler,
     which counts every other slate (c15_slate_three_blocs_not_all_others_refuted).
     slate_BradleyTerry.__init__ raises for more than two slates, so for three or more blocs these
     are statements about the table function only; no profile can be generated from it.
   * cohesion = 1: the table sums to one iff some arrangement has at least [total] (own above opp)
     pairs — always the case for two blocs (Properties/C15.v, c15_slate_bt_sums_to_one), but with a
     third bloc of size >= 2 every raw weight is 0 and the table is 0/0
     (c15_slate_sum_c1_three_refuted; in Python a ZeroDivisionError).
   * One bloc: the table function would give the single type [own .. own] the value
     (1-c)^a / (1-c)^a, i.e. 1 unless cohesion = 1 — and the cohesion of a single bloc is
     necessarily 1, where this is 0/0.  The code does not call the table function for one bloc; it
     uses the constant table {type: 1}.

   Proofs: Proofs/C15_blocs.v. *)
From VK Require Import Base Core GenValidation PrefInterval Generators Laws.
From VK.Spec Require Import BTSpec GenLaws.
From VK.Proofs Require Import C15_slate C15_blocs.
From Coq Require Import Permutation.

(* A1: among the positions of own and opp every pair is ordered one way or the other *)
Theorem c15_pairs_total_any : forall (sizes : list (bloc * nat)) (own opp : bloc) (a b : nat) (t : list bloc),
  NoDup (map fst sizes) -> own <> opp -> In (own, a) sizes -> In (opp, b) sizes ->
  Permutation t (concat (map (fun bn : bloc * nat => repeat (fst bn) (snd bn)) sizes)) ->
  (above_pairs own opp t + above_pairs opp own t = a * b)%nat.
Proof. exact pairs_total_any. Qed.
Print Assumptions c15_pairs_total_any.

(* A2: the model's exponent of (1 - cohesion) is the number of (opp above own) pairs plus a
   constant that does not depend on the type *)
Theorem c15_slate_bt_exponent : forall (sizes : list (bloc * nat)) (own opp : bloc) (a b : nat) (t : list bloc),
  NoDup (map fst sizes) -> own <> opp -> In (own, a) sizes -> In (opp, b) sizes ->
  (forall z n, In (z, n) sizes -> z <> own -> z <> opp -> (1 <= n)%nat) ->
  Permutation t (concat (map (fun bn : bloc * nat => repeat (fst bn) (snd bn)) sizes)) ->
  let total := fold_right Nat.mul 1%nat (map snd sizes) in
  (total - successes own opp t = above_pairs opp own t + (total - a * b))%nat.
Proof. exact slate_bt_exponent. Qed.
Print Assumptions c15_slate_bt_exponent.

(* A3: any number of blocs, 0 <= cohesion < 1: the table has exactly the distinct arrangements as
   keys and each entry is cohesion^(own above opp) (1-cohesion)^(opp above own), normalised *)
Theorem c15_slate_bt_any_blocs : forall (sizes : list (bloc * nat)) (own opp : bloc) (a b : nat),
  NoDup (map fst sizes) -> own <> opp -> In (own, a) sizes -> In (opp, b) sizes ->
  (forall z n, In (z, n) sizes -> z <> own -> z <> opp -> (1 <= n)%nat) ->
  forall (c : Q) (all : list (list bloc)),
  let sample := concat (map (fun bn : bloc * nat => repeat (fst bn) (snd bn)) sizes) in
  0 <= c -> c < 1 -> enumerates all sample ->
  0 < qsum (map (slate_weight c own opp) all) /\
  (forall t, Permutation t sample -> exists v, In (t, v) (slate_bt_pdf sizes own opp c)) /\
  (forall t v, In (t, v) (slate_bt_pdf sizes own opp c) ->
     Permutation t sample /\
     (above_pairs own opp t + above_pairs opp own t = a * b)%nat /\
     v == slate_weight c own opp t / qsum (map (slate_weight c own opp) all)).
Proof. exact slate_bt_any_blocs. Qed.
Print Assumptions c15_slate_bt_any_blocs.

(* A4: for 0 <= cohesion < 1 the table sums to one, whatever the size list (any number of blocs,
   empty blocs, own or opp absent); own = opp needs cohesion > 0 *)
Theorem c15_slate_sum_any_blocs : forall (sizes : list (bloc * nat)) (own opp : bloc) (c : Q),
  own <> opp \/ 0 < c -> 0 <= c -> c < 1 ->
  qsum (map snd (slate_bt_pdf sizes own opp c)) == 1 /\
  NoDup (map fst (slate_bt_pdf sizes own opp c)) /\
  (forall t v, In (t, v) (slate_bt_pdf sizes own opp c) -> 0 <= v).
Proof. exact slate_sum_any_blocs. Qed.
Print Assumptions c15_slate_sum_any_blocs.

(* ... and the side condition is needed: own = opp with two candidates at cohesion 0 gives 0/0 *)
Theorem c15_slate_sum_same_bloc_refuted :
  exists (sizes : list (bloc * nat)) (own : bloc),
    qsum (map snd (slate_bt_pdf sizes own own 0)) == 0.
Proof. exact slate_sum_same_bloc_refuted. Qed.
Print Assumptions c15_slate_sum_same_bloc_refuted.

(* cohesion = 1: the table sums to one iff some arrangement reaches [total] successes; if none
   does, every entry is 0 *)
Theorem c15_slate_sum_c1 : forall (sizes : list (bloc * nat)) (own opp : bloc) (c : Q), c == 1 ->
  let sample := concat (map (fun bn : bloc * nat => repeat (fst bn) (snd bn)) sizes) in
  let total := fold_right Nat.mul 1%nat (map snd sizes) in
  (qsum (map snd (slate_bt_pdf sizes own opp c)) == 1 <->
   exists t, Permutation t sample /\ (total <= successes own opp t)%nat) /\
  ((forall t, Permutation t sample -> (successes own opp t < total)%nat) ->
   qsum (map snd (slate_bt_pdf sizes own opp c)) == 0).
Proof. exact slate_sum_c1. Qed.
Print Assumptions c15_slate_sum_c1.

(* REFUTED for three blocs at cohesion 1 (sizes 1, 1, 2): the table does not sum to one *)
Theorem c15_slate_sum_c1_three_refuted :
  exists (sizes : list (bloc * nat)) (own opp : bloc),
    NoDup (map fst sizes) /\ own <> opp /\ In own (map fst sizes) /\ In opp (map fst sizes) /\
    length sizes = 3%nat /\ (forall z n, In (z, n) sizes -> (1 <= n)%nat) /\
    qsum (map snd (slate_bt_pdf sizes own opp 1)) == 0.
Proof. exact slate_sum_c1_three_refuted. Qed.
Print Assumptions c15_slate_sum_c1_three_refuted.

(* REFUTED reading "other = every other slate": for three blocs the table is not proportional to
   slate_stat own c t = c^(own above any other) (1-c)^(any other above own) *)
Theorem c15_slate_three_blocs_not_all_others_refuted :
  exists (sizes : list (bloc * nat)) (own opp : bloc) (c : Q) (t1 t2 : list bloc) (v1 v2 : Q),
    NoDup (map fst sizes) /\ own <> opp /\ 0 < c /\ c < 1 /\
    In (t1, v1) (slate_bt_pdf sizes own opp c) /\ In (t2, v2) (slate_bt_pdf sizes own opp c) /\
    ~ v1 * slate_stat own c t2 == v2 * slate_stat own c t1.
Proof. exact slate_three_blocs_not_all_others_refuted. Qed.
Print Assumptions c15_slate_three_blocs_not_all_others_refuted.

(* A6: one bloc *)
Theorem c15_arrangements_one_bloc : forall (own : bloc) (a : nat),
  arrangements_ms (repeat own a) = [repeat own a].
Proof. exact arrangements_repeat. Qed.
Print Assumptions c15_arrangements_one_bloc.

Theorem c15_slate_one_bloc : forall (own opp : bloc) (a : nat) (c : Q), own <> opp ->
  exists v, slate_bt_pdf [(own, a)] own opp c = [(repeat own a, v)] /\
            (~ c == 1 \/ a = O -> v == 1) /\
            (c == 1 -> (0 < a)%nat -> v == 0).
Proof. exact slate_one_bloc. Qed.
Print Assumptions c15_slate_one_bloc.

(* ====================== non-vacuity ====================== *)
Local Open Scope positive_scope.

(* three blocs of sizes 2, 1, 2; own = 1, opp = 2: total = 4, a * b = 2 *)
Definition ex3_sizes : list (bloc * nat) := [(1, 2%nat); (2, 1%nat); (3, 2%nat)].

Example c15_ex3_hyps :
  NoDup (map fst ex3_sizes) /\ 1 <> 2 /\ In (1, 2%nat) ex3_sizes /\ In (2, 1%nat) ex3_sizes /\
  (forall z n, In (z, n) ex3_sizes -> z <> 1 -> z <> 2 -> (1 <= n)%nat) /\
  Permutation [1; 3; 2; 3; 1] (concat (map (fun bn : bloc * nat => repeat (fst bn) (snd bn)) ex3_sizes)) /\
  enumerates (arrangements_ms [1; 1; 2; 3; 3]) (concat (map (fun bn : bloc * nat => repeat (fst bn) (snd bn)) ex3_sizes)).
Proof.
  split; [repeat constructor; cbn; intuition discriminate|].
  split; [discriminate|]. split; [left; reflexivity|]. split; [right; left; reflexivity|].
  split.
  { intros z n [E|[E|[E|[]]]]; injection E as <- <-; intros H1 H2; try contradiction; repeat constructor. }
  split.
  { vm_compute. apply perm_skip. apply Permutation_sym.
    apply (Permutation_cons_app [3; 2; 3] []). cbn [app].
    apply (Permutation_cons_app [3] [3]). reflexivity. }
  apply (arrangements_enumerates [1; 1; 2; 3; 3]).
Qed.

(* pairs and exponent on the type [1;3;2;3;1]: one (1 above 2) pair, one (2 above 1) pair, and
   4 - 1 = 1 + (4 - 2) *)
Example c15_ex3_exponent :
  above_pairs 1 2 [1; 3; 2; 3; 1] = 1%nat /\ above_pairs 2 1 [1; 3; 2; 3; 1] = 1%nat /\
  successes 1 2 [1; 3; 2; 3; 1] = 1%nat /\ fold_right Nat.mul 1%nat (map snd ex3_sizes) = 4%nat.
Proof. repeat split; vm_compute; reflexivity. Qed.

(* the table at cohesion 3/4: 30 types, sums to one, and the entry of [1;3;2;3;1] is the
   normalised weight (3/4)^1 (1/4)^1 *)
Example c15_ex3_table :
  length (slate_bt_pdf ex3_sizes 1 2 (3 # 4)) = 30%nat /\
  qsum (map snd (slate_bt_pdf ex3_sizes 1 2 (3 # 4))) == 1%Q /\
  slate_weight (3 # 4) 1 2 [1; 3; 2; 3; 1] == (3 # 16)%Q /\
  (exists v, In ([1; 3; 2; 3; 1], v) (slate_bt_pdf ex3_sizes 1 2 (3 # 4)) /\
             v == Qdiv (slate_weight (3 # 4) 1 2 [1; 3; 2; 3; 1])
                       (qsum (map (slate_weight (3 # 4) 1 2) (arrangements_ms [1; 1; 2; 3; 3])))).
Proof.
  split; [vm_compute; reflexivity|]. split; [vm_compute; reflexivity|].
  split; [vm_compute; reflexivity|].
  pose proof c15_ex3_hyps as (H1 & H2 & H3 & H4 & H5 & H6 & H7).
  destruct (c15_slate_bt_any_blocs ex3_sizes 1 2 2 1 H1 H2 H3 H4 H5 (3 # 4)%Q
              (arrangements_ms [1; 1; 2; 3; 3]) ltac:(discriminate) ltac:(reflexivity) H7)
    as (_ & Hex & Hent).
  destruct (Hex [1; 3; 2; 3; 1] H6) as (v & Hv).
  exists v. split; [exact Hv|]. apply (Hent _ _ Hv).
Qed.

(* the ends of the cohesion range on three blocs *)
Example c15_ex3_ends :
  qsum (map snd (slate_bt_pdf ex3_sizes 1 2 0)) == 1%Q /\
  (* cohesion 1 with a third bloc of size 2: total = 4 > 2 >= successes, the table is all zeros *)
  qsum (map snd (slate_bt_pdf ex3_sizes 1 2 1)) == 0%Q /\
  (* cohesion 1 with a third bloc of size 1: total = a * b, fine *)
  qsum (map snd (slate_bt_pdf [(1, 2%nat); (2, 1%nat); (3, 1%nat)] 1 2 1)) == 1%Q.
Proof. repeat split; vm_compute; reflexivity. Qed.

(* one bloc with three candidates: a single type; value 1 below cohesion 1, 0/0 = 0 at cohesion 1 *)
Example c15_ex_one_bloc :
  map fst (slate_bt_pdf [(1, 3%nat)] 1 2 (3 # 4)) = [[1; 1; 1]] /\
  qsum (map snd (slate_bt_pdf [(1, 3%nat)] 1 2 (3 # 4))) == 1%Q /\
  qsum (map snd (slate_bt_pdf [(1, 3%nat)] 1 2 1)) == 0%Q /\
  qsum (map snd (slate_bt_pdf [(1, 0%nat)] 1 2 1)) == 1%Q.
Proof. repeat split; vm_compute; reflexivity. Qed.
