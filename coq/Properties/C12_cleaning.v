(* Properties/C12_cleaning.v — C12, cleaning module (votekit/cleaning.py, Model/Cleaning.v):
   remove_empty_ballots, clean_profile's groupby/merge (group_adjacent, merge_ballots,
   merge_adjacent), deduplicate_profiles (dedup_positions), remove_noncands.  These functions act on
   WHOLE positions of a ranking (they are meant for untied ballots, possibly with repeated candidates).
   Statements only; proofs are in Proofs/C12_cleaning.v.
   Spec vocabulary (Spec/EditSpec.v, Spec/CleanSpec.v):
     wtof_rk r bs         weight carried by ranking r in bs (positions compared as sets)
     wt_where p bs        summed weight of the ballots of bs passing test p
     subseq l1 l2         l1 is l2 with some elements struck out (order kept)
     untied r             every position of r is a singleton
     distinct_positions r no two positions of r are equal as sets
     noncand_pos non s    s is exactly {x} for some x of non
     cleaned non r        := dedup_positions [] (filter (fun s => negb (noncand_pos non s)) r)
     rankless b           b has no ranking
     voter_of g x         x belongs to the voter set of some ballot of g
     merged_voters g v    v = Some l with l listing exactly the voters of g, or None if g has none
     merged_from g b      g = b0 :: _, rk b = rk b0, wt b = Σ wt g, no scores, no id,
                          merged_voters g (vs b) *)
From VK Require Import Base Core Cleaning EditSpec CleanSpec.
From VK.Proofs Require Import C12_cleaning.

Section C12Cleaning.
Variable cand : Type.
Variable ceqb : cand -> cand -> bool.
Hypothesis ceqb_spec : forall a b, reflect (a = b) (ceqb a b).

Notation cset := (cset cand).
Notation ranking := (ranking cand).
Notation ballot := (ballot cand).
Notation profile := (profile cand).
Notation cset_eqb := (cset_eqb cand ceqb).
Notation ranking_eqb := (ranking_eqb cand ceqb).
Notation flat := (flat cand).
Notation total_wt := (total_wt cand).
Notation wtof_rk := (wtof_rk cand ceqb).
Notation wt_where := (wt_where cand).
Notation cast_cands := (cast_cands cand ceqb).
Notation remove_empty_ballots := (remove_empty_ballots cand ceqb).
Notation group_adjacent := (group_adjacent cand ceqb).
Notation merge_ballots := (merge_ballots cand).
Notation merge_adjacent := (merge_adjacent cand ceqb).
Notation dedup_positions := (dedup_positions cand ceqb).
Notation deduplicate_profiles := (deduplicate_profiles cand ceqb).
Notation remove_noncands := (remove_noncands cand ceqb).
Notation untied := (untied cand).
Notation distinct_positions := (distinct_positions cand ceqb).
Notation noncand_pos := (noncand_pos cand ceqb).
Notation cleaned := (cleaned cand ceqb).
Notation rankless := (rankless cand).
Notation merged_from := (merged_from cand).

(* ---------- B1. itertools.groupby: maximal runs of adjacent equal rankings ---------- *)
Theorem c12_group_adjacent : forall bs : list ballot,
  concat (group_adjacent bs) = bs /\
  Forall (fun g => g <> []) (group_adjacent bs) /\
  (forall g b0 rest, In g (group_adjacent bs) -> g = b0 :: rest ->
     Forall (fun b => ranking_eqb (rk b0) (rk b) = true) rest) /\
  (forall pre g1 g2 post, group_adjacent bs = pre ++ g1 :: g2 :: post ->
     forall b1 b2, In b1 g1 -> In b2 g2 -> ranking_eqb (rk b1) (rk b2) = false).
Proof. exact (group_adjacent_spec cand ceqb ceqb_spec). Qed.

(* ---------- B2. merge_ballots / merge_adjacent ---------- *)
Theorem c12_merge_ballots :
  merge_ballots [] = inr EIndex /\
  forall b0 rest, exists b, merge_ballots (b0 :: rest) = inl b /\ merged_from (b0 :: rest) b.
Proof. exact (conj (merge_ballots_nil cand) (merge_ballots_spec cand)). Qed.

(* never an error (groups are non-empty, the candidate list passed is empty); one merged ballot per
   group, in order; candidates recomputed from the ballots cast *)
Theorem c12_merge_adjacent : forall bs : list ballot,
  exists p, merge_adjacent bs = inl p /\ Forall2 merged_from (group_adjacent bs) (ballots p) /\
            cands p = cast_cands (ballots p).
Proof. exact (merge_adjacent_spec cand ceqb ceqb_spec). Qed.

Theorem c12_merge_adjacent_weights : forall (bs : list ballot) p, merge_adjacent bs = inl p ->
  (forall r, wtof_rk r (ballots p) == wtof_rk r bs) /\ total_wt (ballots p) == total_wt bs.
Proof. exact (merge_adjacent_weights cand ceqb ceqb_spec). Qed.

(* ---------- B3. dedup_positions / deduplicate_profiles ---------- *)

(* order kept; no repeated position; every position still represented; the last position of a
   ranking is kept iff no earlier position equals it (so it is the FIRST occurrence that survives);
   on untied rankings: no candidate repeated, candidates in first-occurrence order, same candidates *)
Theorem c12_dedup_positions : forall r : ranking,
  subseq (dedup_positions [] r) r /\
  distinct_positions (dedup_positions [] r) /\
  (forall s, In s r -> exists t, In t (dedup_positions [] r) /\ cset_eqb t s = true) /\
  (forall pre s, dedup_positions [] (pre ++ [s]) =
                 if existsb (fun t => cset_eqb t s) pre then dedup_positions [] pre
                 else dedup_positions [] pre ++ [s]) /\
  (untied r -> untied (dedup_positions [] r) /\ NoDup (flat (dedup_positions [] r)) /\
               subseq (flat (dedup_positions [] r)) (flat r) /\
               (forall c, In c (flat (dedup_positions [] r)) <-> In c (flat r))).
Proof. exact (dedup_positions_spec cand ceqb ceqb_spec). Qed.

Theorem c12_deduplicate_profiles : forall p : profile,
  (deduplicate_profiles p = inr EType <-> exists b, In b (ballots p) /\ rk b = []) /\
  (forall e, deduplicate_profiles p = inr e -> e = EType) /\
  ((forall b, In b (ballots p) -> rk b <> []) -> exists out, deduplicate_profiles p = inl out) /\
  (forall out, deduplicate_profiles p = inl out ->
     (forall r', wtof_rk r' (ballots out) ==
                 wt_where (fun b => ranking_eqb r' (dedup_positions [] (rk b))) (ballots p)) /\
     total_wt (ballots out) == total_wt (ballots p) /\
     (forall b', In b' (ballots out) ->
        exists b, In b (ballots p) /\ rk b' = dedup_positions [] (rk b)) /\
     cands out = cast_cands (ballots out)).
Proof. exact (deduplicate_profiles_spec cand ceqb ceqb_spec). Qed.

(* ---------- B4. remove_noncands ---------- *)

(* the per-ranking edit: order kept, positions distinct, no non-candidate position left, every
   other position still represented; on untied rankings the candidates left are exactly the ranked
   candidates outside [non], each once *)
Theorem c12_cleaned : forall (non : cset) (r : ranking),
  subseq (cleaned non r) r /\
  distinct_positions (cleaned non r) /\
  (forall s, In s (cleaned non r) -> noncand_pos non s = false) /\
  (forall x, In x non -> ~ In [x] (cleaned non r)) /\
  (forall s, In s r -> noncand_pos non s = false ->
             exists t, In t (cleaned non r) /\ cset_eqb t s = true) /\
  (untied r -> untied (cleaned non r) /\ NoDup (flat (cleaned non r)) /\
               (forall c, In c (flat (cleaned non r)) <-> In c (flat r) /\ ~ In c non)).
Proof. exact (cleaned_spec cand ceqb ceqb_spec). Qed.

(* TypeError iff some ballot has no ranking; otherwise every output ranking is the (non-empty)
   cleaned ranking of an input ballot, every non-empty ranking carries the summed weight of the
   input ballots cleaned to it, and weight disappears only with ballots that end up empty *)
Theorem c12_remove_noncands : forall (p : profile) (non : cset),
  (remove_noncands p non = inr EType <-> exists b, In b (ballots p) /\ rk b = []) /\
  (forall e, remove_noncands p non = inr e -> e = EType) /\
  ((forall b, In b (ballots p) -> rk b <> []) -> exists out, remove_noncands p non = inl out) /\
  (forall out, remove_noncands p non = inl out ->
     (forall r', nonempty r' = true ->
        wtof_rk r' (ballots out) ==
        wt_where (fun b => ranking_eqb r' (cleaned non (rk b))) (ballots p)) /\
     total_wt (ballots p) - total_wt (ballots out) ==
       wt_where (fun b => negb (nonempty (cleaned non (rk b)))) (ballots p) /\
     (forall b', In b' (ballots out) ->
        rk b' <> [] /\ exists b, In b (ballots p) /\ rk b' = cleaned non (rk b)) /\
     cands out = cast_cands (ballots out)).
Proof. exact (remove_noncands_spec cand ceqb ceqb_spec). Qed.

(* ---------- B5. remove_empty_ballots ---------- *)
Theorem c12_remove_empty : forall (p : profile) (keep : bool),
  (forall q, remove_empty_ballots p keep = inl q ->
     ballots q = filter (fun b => nonempty (rk b)) (ballots p) /\
     cands q = (if keep then match cands p with [] => cast_cands (ballots q) | cs => cs end
                else cast_cands (ballots q)) /\
     total_wt (ballots p) - total_wt (ballots q) == wt_where rankless (ballots p)) /\
  (forall e, remove_empty_ballots p keep = inr e <-> e = EValue /\ keep = true /\ ~ NoDup (cands p)) /\
  (keep = false \/ NoDup (cands p) -> exists q, remove_empty_ballots p keep = inl q).
Proof. exact (remove_empty_spec cand ceqb ceqb_spec). Qed.

End C12Cleaning.

Print Assumptions c12_group_adjacent.
Print Assumptions c12_merge_ballots.
Print Assumptions c12_merge_adjacent.
Print Assumptions c12_merge_adjacent_weights.
Print Assumptions c12_dedup_positions.
Print Assumptions c12_deduplicate_profiles.
Print Assumptions c12_cleaned.
Print Assumptions c12_remove_noncands.
Print Assumptions c12_remove_empty.

(* ---------- non-vacuity: concrete inputs (cand := positive) ---------- *)
Section Examples.
Local Open Scope positive_scope.
Let B := Core.ballot positive.
Let vb (r : list (list positive)) (w : Q) (v : option (list positive)) : B := mkBallot r w [] None v.

(* adjacent equal rankings merge, the separated third [[1];[2]] does not (groupby semantics) *)
Let bs0 : list B :=
  [vb [[1];[2]] 1%Q (Some [1]); vb [[1];[2]] (1#2)%Q (Some [2;1]); vb [[2]] 2%Q None; vb [[1];[2]] 3%Q None].

Example c12c_ex_group :
  map (map wt) (Cleaning.group_adjacent positive Pos.eqb bs0) = [[1%Q; (1#2)%Q]; [2%Q]; [3%Q]].
Proof. vm_compute. reflexivity. Qed.

Example c12c_ex_merge :
  exists p, Cleaning.merge_adjacent positive Pos.eqb bs0 = inl p /\
            map rk (ballots p) = [[[1];[2]]; [[2]]; [[1];[2]]] /\
            map vs (ballots p) = [Some [1;2]; None; None] /\
            wtof_rk positive Pos.eqb [[1];[2]] (ballots p) == (9#2)%Q /\
            wtof_rk positive Pos.eqb [[1];[2]] bs0 == (9#2)%Q.
Proof. eexists. split; [vm_compute; reflexivity|]. repeat split; vm_compute; reflexivity. Qed.

Example c12c_ex_dedup :
  Cleaning.dedup_positions positive Pos.eqb [] [[1];[2];[1];[3];[2]] = [[1];[2];[3]] /\
  CleanSpec.untied positive [[1];[2];[1];[3];[2]].
Proof. split; [vm_compute; reflexivity|]. repeat constructor; eexists; reflexivity. Qed.

Example c12c_ex_dedup_profile :
  exists out,
    Cleaning.deduplicate_profiles positive Pos.eqb
      (mkProfile [vb [[1];[2];[1]] 1%Q None; vb [[1];[2]] 2%Q None; vb [[2];[2]] 1%Q None] [1;2]) = inl out /\
    map rk (ballots out) = [[[1];[2]]; [[2]]] /\ Forall2 Qeq (map wt (ballots out)) [3%Q; 1%Q].
Proof. eexists. split; [vm_compute; reflexivity|]. split; [reflexivity|]. repeat constructor; vm_compute; reflexivity. Qed.

Example c12c_ex_dedup_error :
  Cleaning.deduplicate_profiles positive Pos.eqb (mkProfile [vb [[1]] 1%Q None; vb [] 1%Q None] [1]) = inr EType.
Proof. vm_compute. reflexivity. Qed.

(* candidate 9 is a write-in: the second ballot ends up empty and its weight 2 disappears *)
Let p1 : Core.profile positive :=
  mkProfile [vb [[1];[9];[2]] 1%Q None; vb [[9];[9]] 2%Q None; vb [[9];[1];[2];[1]] 3%Q None] [1;2;9].

Example c12c_ex_noncands :
  exists out, Cleaning.remove_noncands positive Pos.eqb p1 [9] = inl out /\
    map rk (ballots out) = [[[1];[2]]] /\
    total_wt positive (ballots out) == 4%Q /\
    total_wt positive (ballots p1) - total_wt positive (ballots out) == 2%Q /\
    wt_where positive (fun b => negb (nonempty (CleanSpec.cleaned positive Pos.eqb [9] (rk b)))) (ballots p1) == 2%Q /\
    cands out = [1;2].
Proof. eexists. split; [vm_compute; reflexivity|]. repeat split; vm_compute; reflexivity. Qed.

Example c12c_ex_remove_empty :
  (exists q, Cleaning.remove_empty_ballots positive Pos.eqb
               (mkProfile [vb [[1]] 1%Q None; vb [] 2%Q None; vb [[2]] 3%Q None] [1;2;3]) true = inl q /\
             map rk (ballots q) = [[[1]]; [[2]]] /\ cands q = [1;2;3]) /\
  (exists q, Cleaning.remove_empty_ballots positive Pos.eqb
               (mkProfile [vb [[1]] 1%Q None; vb [] 2%Q None; vb [[2]] 3%Q None] [1;2;3]) false = inl q /\
             cands q = [1;2]) /\
  Cleaning.remove_empty_ballots positive Pos.eqb (mkProfile [vb [[1]] 1%Q None] [1;1]) true = inr EValue.
Proof.
  split; [eexists; split; [vm_compute; reflexivity|split; reflexivity]|].
  split; [eexists; split; [vm_compute; reflexivity|reflexivity]|]. vm_compute. reflexivity.
Qed.

End Examples.
