(* Properties/C11_closest.v — property C11, ballot construction: "floats [are stored] as the
   closest such fraction", i.e. as a closest fraction with denominator at most one million.

   Subject: Model/BallotCtor.v, [limit_den] (line-by-line Gallina port of CPython 3.12's
   Fraction.limit_denominator with max_denominator = 10^6), [conv_weight], [conv_scores].
   Proofs: Proofs/C11_closest.v (on top of Proofs/C11_limit_den.v).

   This closes what Properties/C11_ctor.v lists as "trusted, not proved": the optimality of the
   value returned by the algorithm.  It is proved for EVERY rational argument (a float is
   represented by its exact dyadic value, [PFloat q]), against every competitor p/q with
   1 <= q <= 10^6, by the Farey-neighbour argument on the two candidates of the algorithm.
   "Closest" is "a closest": ties exist (see [ex_tie]); the algorithm then returns one of the two
   equidistant fractions. *)
From Coq Require Import List ZArith QArith Qreduction Qabs Bool.
From VK Require Import Base Core BallotCtor.
From VK.Proofs Require Import C11_closest.
Import ListNotations.

(* ---------- limit_den ---------- *)

(* B1. no fraction with denominator <= 10^6 is closer to x than limit_den x *)
Theorem c11_limit_den_closest :
  forall (x : Q) (p : Z) (q : positive),
    (Zpos q <= 1000000)%Z -> Qabs (x - limit_den x) <= Qabs (x - (p # q)).
Proof. exact limit_den_closest. Qed.
Print Assumptions c11_limit_den_closest.

(* B1'. ... and limit_den x is itself such a fraction: it is a minimiser of the distance to x
   over the fractions with denominator <= 10^6 *)
Theorem c11_limit_den_argmin :
  forall x : Q,
    (Zpos (Qden (limit_den x)) <= 1000000)%Z /\
    forall (p : Z) (q : positive),
      (Zpos q <= 1000000)%Z -> Qabs (x - limit_den x) <= Qabs (x - (p # q)).
Proof. exact limit_den_argmin. Qed.
Print Assumptions c11_limit_den_argmin.

(* B2. ties: a fraction that is exactly as close as the result is the result itself or its
   mirror image about x (so there are at most two closest fractions, and the result is one) *)
Theorem c11_limit_den_tie_cases :
  forall (x : Q) (p : Z) (q : positive),
    Qabs (x - (p # q)) == Qabs (x - limit_den x) ->
    (p # q) == limit_den x \/ (p # q) == 2 * x - limit_den x.
Proof. exact limit_den_tie_cases. Qed.
Print Assumptions c11_limit_den_tie_cases.

(* ---------- the validators ---------- *)

(* B3. a float weight is stored as a closest fraction with denominator <= 10^6 *)
Theorem c11_weight_float_closest :
  forall (v : Q) (p : Z) (q : positive),
    (Zpos q <= 1000000)%Z ->
    Qabs (v - conv_weight (PFloat v)) <= Qabs (v - (p # q)).
Proof. exact conv_weight_float_closest. Qed.
Print Assumptions c11_weight_float_closest.

(* ... and so is every weight, whatever the Python type of the argument (a Fraction is stored
   exactly, whatever its denominator) *)
Theorem c11_weight_closest :
  forall (w : pynum) (p : Z) (q : positive),
    (Zpos q <= 1000000)%Z ->
    Qabs (pynum_val w - conv_weight w) <= Qabs (pynum_val w - (p # q)).
Proof. exact conv_weight_closest. Qed.
Print Assumptions c11_weight_closest.

Section C11_closest_scores.
Variable cand : Type.

(* B4. every stored score comes from an entry of the given dict, has a denominator <= 10^6 and
   is a closest such fraction to the value the caller wrote *)
Theorem c11_scores_closest :
  forall (d : list (cand * pynum)) (c : cand) (s : Q),
    In (c, s) (conv_scores cand d) ->
    exists x : pynum,
      In (c, x) d /\ s = limit_den (pynum_val x) /\
      (Zpos (Qden s) <= 1000000)%Z /\
      forall (p : Z) (q : positive),
        (Zpos q <= 1000000)%Z -> Qabs (pynum_val x - s) <= Qabs (pynum_val x - (p # q)).
Proof. exact (conv_scores_closest cand). Qed.

End C11_closest_scores.
Print Assumptions c11_scores_closest.

(* ---------- non-vacuity ---------- *)

(* Fraction(3.141592653589793...).limit_denominator(): the large branch *)
Example ex_pi16 : limit_den (3141592653589793 # 1000000000000000) = 3126535 # 995207.
Proof. vm_compute. reflexivity. Qed.

(* the theorem on that input against the other candidate of the algorithm (the last
   convergent 1146408/364913), against 355/113, and the actual distances *)
Example ex_pi16_vs_convergent :
  Qabs ((3141592653589793 # 1000000000000000) - limit_den (3141592653589793 # 1000000000000000))
  <= Qabs ((3141592653589793 # 1000000000000000) - (1146408 # 364913)).
Proof. apply c11_limit_den_closest. discriminate. Qed.

Example ex_pi16_distances :
  Qabs ((3141592653589793 # 1000000000000000) - (3126535 # 995207))
    == 1137122151 # 995207000000000000000 /\
  Qabs ((3141592653589793 # 1000000000000000) - (1146408 # 364913))
    == 587866991 # 364913000000000000000 /\
  (1137122151 # 995207000000000000000) < (587866991 # 364913000000000000000) /\
  (1137122151 # 995207000000000000000) < Qabs ((3141592653589793 # 1000000000000000) - (355 # 113)).
Proof. repeat split; vm_compute; reflexivity. Qed.

(* the bound on the competitor's denominator is needed: the next convergent 4272943/1360120
   is strictly closer *)
Example ex_pi16_bound_needed :
  Qabs ((3141592653589793 # 1000000000000000) - (4272943 # 1360120))
  < Qabs ((3141592653589793 # 1000000000000000) - limit_den (3141592653589793 # 1000000000000000))
  /\ (1000000 < 1360120)%Z.
Proof. split; vm_compute; reflexivity. Qed.

(* a tie: 0 and 1/10^6 are both at distance 1/(2*10^6) from 1/(2*10^6); the model returns 0,
   as CPython does, and 1/10^6 is the mirror image of B2 *)
Example ex_tie :
  limit_den (1 # 2000000) = 0 /\
  Qabs ((1 # 2000000) - (1 # 1000000)) == Qabs ((1 # 2000000) - limit_den (1 # 2000000)) /\
  (1 # 1000000) == 2 * (1 # 2000000) - limit_den (1 # 2000000) /\
  ~ (1 # 1000000) == limit_den (1 # 2000000).
Proof.
  split; [vm_compute; reflexivity|]. split; [vm_compute; reflexivity|].
  split; [vm_compute; reflexivity|]. intros H; vm_compute in H; discriminate H.
Qed.

(* the float 0.1 = 3602879701896397 / 2^55 as a weight *)
Example ex_weight_tenth :
  conv_weight (PFloat (3602879701896397 # 36028797018963968)) = 1 # 10 /\
  Qabs ((3602879701896397 # 36028797018963968)
        - conv_weight (PFloat (3602879701896397 # 36028797018963968)))
  <= Qabs ((3602879701896397 # 36028797018963968) - (99999 # 999991)).
Proof. split; [vm_compute; reflexivity|apply c11_weight_float_closest; discriminate]. Qed.

(* the hypothesis of B4 is satisfiable: a float score is kept, rounded *)
Example ex_scores_in :
  In (3%positive, 1 # 3)
     (conv_scores positive
        [(1%positive, PInt 0); (3%positive, PFloat (6004799503160661 # 18014398509481984))]).
Proof. vm_compute. left. reflexivity. Qed.
