(* Properties/C14_gen2.v — C14 (ballot generators return well-formed profiles of exactly the
   requested size) for the generators the first round left without theorems:
     BallotSimplex.from_point            table_bloc (point_table ..) + pool_to_profile   (Model/Generators.v)
     ImpartialCulture / ImpartialAnonymousCulture (BallotSimplex(alpha))   alpha_profile  (Model/Generators2.v)
     CambridgeSampler                    cam_fill, cam_ballot, cam_bloc, cond_table      (Model/Generators2.v)
     exact / MCMC slate-Bradley-Terry    slate_bt_pdf / slate_mcmc_run + slate_ballot
     name-/short-name Plackett-Luce on PreferenceInterval(...) and combine_preference_intervals(...)
   Statements only; proofs are in Proofs/C14_gen2.v.
   As in Properties/C14.v every random kernel takes the primitive's recorded result as an argument,
   rejects impossible results with EScript and reports the primitive calls it stands for; "for
   every stream" = for every recorded result on which the function returns [inl].
   Spec vocabulary: (Spec/GenSpec.v) whole_pos_weights, pool_count, slots, order_of, size_of;
   (Spec/Gen2Spec.v) cam_kept own t na no = the slots of the historical type t that receive a
   candidate when na own-slate and no opposing-slate candidates are available (a slot whose slate is
   used up is skipped), cam_kept_direct = the same without recursion, count_other, other_slots,
   pairs_of; (Spec/ApportionSpec.v) cross_props; (Spec/BTSpec.v) wf_interval. *)
From VK Require Import Base Core GenValidation PrefInterval Generators Generators2.
From VK.Spec Require Import Content GenSpec Gen2Spec BTSpec ApportionSpec.
From VK.Proofs Require Import C14_wf C14_kernels C14_gen2.
From Coq Require Import Permutation Lia.

(* ====================== G1. BallotSimplex from a point ====================== *)

(* the rows of the table are exactly the complete rankings (permutations) of the candidates *)
Theorem c14_point_table_rows : forall cands point,
  map fst (point_table cands point) = perms pcand cands /\
  length (point_table cands point) = fact (length cands) /\
  (forall r, In r (map fst (point_table cands point)) <-> Permutation r cands) /\
  (NoDup cands -> NoDup (map fst (point_table cands point)) /\
                  forall r, In r (map fst (point_table cands point)) -> NoDup r).
Proof. exact point_table_rows. Qed.
Print Assumptions c14_point_table_rows.

(* n draws from the table, then ballot_pool_to_profile: total weight n, positive whole weights,
   every ballot a complete duplicate-free ranking of the declared candidates, one ballot per
   distinct drawn ranking carrying its multiplicity; the only primitive call is GTable *)
Theorem c14_from_point_profile : forall cands point n draws bs calls p,
  table_bloc (point_table cands point) [] n draws = inl (bs, calls) ->
  pool_to_profile draws cands = inl p ->
  calls = [GTable (point_table cands point) n] /\ length draws = n /\ NoDup cands /\
  (forall r, In r draws -> exists v, In (r, v) (point_table cands point) /\ 0 < v) /\
  (cands <> [] -> Core.cands p = cands) /\
  total_wt pcand (ballots p) == Qnat n /\
  whole_pos_weights (ballots p) /\
  NoDup (map rk (ballots p)) /\
  (forall b, In b (ballots p) ->
     sc b = [] /\
     exists r, In r draws /\ rk b = singletons pcand r /\ flat pcand (rk b) = r /\
               Permutation r cands /\ NoDup r /\
               wt b = Qnat (pool_count draws r) /\ (0 < pool_count draws r)%nat) /\
  (forall r, In r draws -> exists b, In b (ballots p) /\ rk b = singletons pcand r).
Proof. exact from_point_wf. Qed.
Print Assumptions c14_from_point_profile.

(* ====================== G2. BallotSimplex(alpha): IC and IAC ====================== *)

(* what the model accepts as "the Dirichlet draw laid over itertools.permutations(candidates)" *)
Theorem c14_full_table : forall cands tbl, NoDup cands -> full_table cands tbl = true ->
  length tbl = fact (length cands) /\ NoDup (map fst tbl) /\
  (forall r, In r (map fst tbl) <-> Permutation r cands) /\
  Permutation (map fst tbl) (perms pcand cands).
Proof. exact full_table_spec. Qed.
Print Assumptions c14_full_table.

(* on success: the only primitive call is GTable tbl n; total weight n; positive whole weights;
   every ballot a complete duplicate-free ranking of [cands] *)
Theorem c14_alpha_profile : forall cands tbl n draws p calls,
  alpha_profile cands tbl n draws = inl (p, calls) ->
  calls = [GTable tbl n] /\ length draws = n /\ NoDup cands /\
  (length tbl = fact (length cands) /\ NoDup (map fst tbl) /\
   forall r, In r (map fst tbl) <-> Permutation r cands) /\
  (forall r, In r draws -> exists v, In (r, v) tbl /\ 0 < v) /\
  (cands <> [] -> Core.cands p = cands) /\
  total_wt pcand (ballots p) == Qnat n /\
  whole_pos_weights (ballots p) /\
  NoDup (map rk (ballots p)) /\
  (forall b, In b (ballots p) ->
     sc b = [] /\
     exists r, In r draws /\ rk b = singletons pcand r /\ flat pcand (rk b) = r /\
               Permutation r cands /\ NoDup r /\
               wt b = Qnat (pool_count draws r) /\ (0 < pool_count draws r)%nat) /\
  (forall r, In r draws -> exists b, In b (ballots p) /\ rk b = singletons pcand r).
Proof. exact alpha_profile_wf. Qed.
Print Assumptions c14_alpha_profile.

(* it fails only on a recorded result the primitives could not have produced, and succeeds on
   every result they can produce *)
Theorem c14_alpha_profile_errors : forall cands tbl n draws e,
  alpha_profile cands tbl n draws = inr e -> e = EScript.
Proof. exact alpha_profile_errors. Qed.
Print Assumptions c14_alpha_profile_errors.

Theorem c14_alpha_profile_succeeds : forall cands tbl n draws,
  NoDup cands -> full_table cands tbl = true -> length draws = n ->
  (forall r, In r draws -> exists v, In (r, v) tbl /\ 0 < v) ->
  exists p, alpha_profile cands tbl n draws = inl (p, [GTable tbl n]).
Proof. exact alpha_profile_succeeds. Qed.
Print Assumptions c14_alpha_profile_succeeds.

(* ====================== G3. CambridgeSampler: filling a historical type ====================== *)

(* [ob] / [oo] = the own-slate / opposing-slate candidates in drawn order.  The result has one
   candidate per served slot; the served own-label slots carry the first own candidates in drawn
   order, the other served slots the first opposing candidates in drawn order *)
Theorem c14_cam_fill : forall own t ob oo,
  let r := cam_fill own t ob oo in
  let k := cam_kept own t (length ob) (length oo) in
  length r = length k /\
  slots own k r = firstn (count_bloc own t) ob /\
  other_slots own k r = firstn (count_other own t) oo.
Proof. exact cam_fill_slots. Qed.
Print Assumptions c14_cam_fill.

(* position i holds an own-slate candidate iff the i-th served slot has the own label *)
Theorem c14_cam_fill_positions : forall own t ob oo i b,
  nth_error (cam_kept own t (length ob) (length oo)) i = Some b ->
  exists c, nth_error (cam_fill own t ob oo) i = Some c /\
            (if Pos.eqb b own then In c ob else In c oo).
Proof. exact cam_fill_positions. Qed.
Print Assumptions c14_cam_fill_positions.

(* which slots are served: slot i of t is served iff fewer than |ob| own-label (resp. fewer than
   |oo| other-label) slots precede it; counts and length; nothing is skipped when both slates have
   enough candidates *)
Theorem c14_cam_kept : forall own t na no,
  cam_kept own t na no = cam_kept_direct own t na no /\
  count_bloc own (cam_kept own t na no) = Nat.min (count_bloc own t) na /\
  count_other own (cam_kept own t na no) = Nat.min (count_other own t) no /\
  length (cam_kept own t na no) = (Nat.min (count_bloc own t) na + Nat.min (count_other own t) no)%nat /\
  ((count_bloc own t <= na)%nat -> (count_other own t <= no)%nat -> cam_kept own t na no = t).
Proof.
  intros own t na no. split; [apply cam_kept_direct_eq|].
  split; [apply (proj1 (cam_kept_counts own t na no))|].
  split; [apply (proj2 (cam_kept_counts own t na no))|].
  split; [apply cam_kept_length|apply cam_kept_all].
Qed.
Print Assumptions c14_cam_kept.

(* length, multiset, no candidate twice, and the relative order of each slate's candidates *)
Theorem c14_cam_fill_wf : forall own t ob oo,
  length (cam_fill own t ob oo) =
    (Nat.min (count_bloc own t) (length ob) + Nat.min (count_other own t) (length oo))%nat /\
  Permutation (cam_fill own t ob oo)
              (firstn (count_bloc own t) ob ++ firstn (count_other own t) oo) /\
  (NoDup ob -> NoDup oo -> (forall c, In c ob -> ~ In c oo) -> NoDup (cam_fill own t ob oo)) /\
  (forall P : pcand -> bool,
     (forall c, In c ob -> P c = true) -> (forall c, In c oo -> P c = false) ->
     filter P (cam_fill own t ob oo) = firstn (count_bloc own t) ob /\
     filter (fun c => negb (P c)) (cam_fill own t ob oo) = firstn (count_other own t) oo).
Proof.
  intros own t ob oo. split; [apply cam_fill_length|]. split; [apply cam_fill_perm|].
  split; [apply cam_fill_NoDup|]. intros P. apply cam_fill_filter.
Qed.
Print Assumptions c14_cam_fill_wf.

(* first place *)
Theorem c14_cam_fill_head : forall own b t ob oo,
  (Pos.eqb b own = true -> forall c ob', ob = c :: ob' ->
     cam_fill own (b :: t) ob oo = c :: cam_fill own t ob' oo) /\
  (Pos.eqb b own = false -> forall c oo', oo = c :: oo' ->
     cam_fill own (b :: t) ob oo = c :: cam_fill own t ob oo').
Proof. exact cam_fill_head. Qed.
Print Assumptions c14_cam_fill_head.

(* ====================== G4. CambridgeSampler: one ballot ====================== *)

(* d = (historical type, Plackett-Luce order of ALL supported candidates of the combined interval);
   [so] / [sp] = the voter's own / the opposing slate *)
Theorem c14_cam_ballot : forall iv own so sp d b calls,
  cam_ballot iv own so sp d = inl (b, calls) ->
  let ob := filter (fun c => pmem c so) (snd d) in
  let oo := filter (fun c => pmem c sp) (snd d) in
  let r := cam_fill own (fst d) ob oo in
  calls = [CamPL (pi_int iv) (length (pi_int iv))] /\
  (length (snd d) = length (pi_int iv) /\ NoDup (snd d) /\ incl (snd d) (map fst (pi_int iv)) /\
   incl (map fst (pi_int iv)) (snd d)) /\
  b = unit_ballot (singletons pcand r) /\
  wt b == 1 /\ sc b = [] /\ rk b = singletons pcand r /\ flat pcand (rk b) = r /\
  incl r (snd d) /\
  (forall c, In c r -> pmem c so = true \/ pmem c sp = true) /\
  Permutation r (firstn (count_bloc own (fst d)) ob ++ firstn (count_other own (fst d)) oo) /\
  length r = (Nat.min (count_bloc own (fst d)) (length ob) +
              Nat.min (count_other own (fst d)) (length oo))%nat /\
  ((forall c, pmem c so = true -> pmem c sp = true -> False) ->
     NoDup r /\
     filter (fun c => pmem c so) r = firstn (count_bloc own (fst d)) ob /\
     filter (fun c => pmem c sp) r = firstn (count_other own (fst d)) oo).
Proof. exact cam_ballot_wf. Qed.
Print Assumptions c14_cam_ballot.

Theorem c14_cam_ballot_slots : forall iv own so sp d b calls,
  cam_ballot iv own so sp d = inl (b, calls) ->
  let ob := filter (fun c => pmem c so) (snd d) in
  let oo := filter (fun c => pmem c sp) (snd d) in
  let k := cam_kept own (fst d) (length ob) (length oo) in
  length (flat pcand (rk b)) = length k /\
  slots own k (flat pcand (rk b)) = firstn (count_bloc own (fst d)) ob /\
  other_slots own k (flat pcand (rk b)) = firstn (count_other own (fst d)) oo /\
  (forall i l, nth_error k i = Some l ->
     exists c, nth_error (flat pcand (rk b)) i = Some c /\ In c (snd d) /\
               (if Pos.eqb l own then pmem c so = true else pmem c sp = true)).
Proof. exact cam_ballot_slots. Qed.
Print Assumptions c14_cam_ballot_slots.

(* ====================== G5. CambridgeSampler: one bloc ====================== *)

(* prob_ballot_given_X_first: the types that start with l, each with freq / (their total) *)
Theorem c14_cond_table : forall freqs l,
  let sel := filter (fun e : btype * Q => starts_with l (fst e)) freqs in
  map fst (cond_table freqs l) = map fst sel /\
  (forall t v, In (t, v) (cond_table freqs l) ->
     starts_with l t = true /\ exists f, In (t, f) freqs /\ v = f / qsum (map snd sel)) /\
  (forall t f, In (t, f) freqs -> starts_with l t = true ->
     In (t, f / qsum (map snd sel)) (cond_table freqs l)) /\
  (~ qsum (map snd sel) == 0 -> qsum (map snd (cond_table freqs l)) == 1) /\
  ((forall t f, In (t, f) freqs -> 0 <= f) -> forall t v, In (t, v) (cond_table freqs l) -> 0 <= v).
Proof. exact cond_table_spec. Qed.
Print Assumptions c14_cond_table.

(* n_bloc + n_cross unit-weight ballots; the first n_bloc use types starting with the own label,
   the remaining n_cross types starting with the opposing label; the calls are the two
   random.choices calls over the conditional tables, then one Plackett-Luce draw per ballot *)
Theorem c14_cam_bloc : forall freqs iv own opp so sp nb nc draws bs calls,
  cam_bloc freqs iv own opp so sp nb nc draws = inl (bs, calls) ->
  length draws = (nb + nc)%nat /\ length bs = (nb + nc)%nat /\
  calls = CamChoices (cond_table freqs own) nb :: CamChoices (cond_table freqs opp) nc ::
          repeat (CamPL (pi_int iv) (length (pi_int iv))) (nb + nc) /\
  (forall i d, nth_error draws i = Some d ->
     (exists b, nth_error bs i = Some b /\
                cam_ballot iv own so sp d = inl (b, [CamPL (pi_int iv) (length (pi_int iv))])) /\
     ((i < nb)%nat -> starts_with own (fst d) = true /\
                      exists v, In (fst d, v) (cond_table freqs own) /\ 0 < v) /\
     ((nb <= i)%nat -> starts_with opp (fst d) = true /\
                       exists v, In (fst d, v) (cond_table freqs opp) /\ 0 < v)) /\
  (forall b, In b bs -> wt b == 1 /\ sc b = []).
Proof. exact cam_bloc_wf. Qed.
Print Assumptions c14_cam_bloc.

(* "bloc-first versus opposing-first ballots in the apportioned split", at kernel level: each of the
   first n_bloc ballots starts with an own-slate candidate (the first one of the draw) as soon as
   the own slate has a supported candidate; each of the remaining n_cross ballots starts with an
   opposing-slate candidate as soon as the opposing slate has one *)
Theorem c14_cam_first_choice : forall freqs iv own opp so sp nb nc draws bs calls i d b,
  cam_bloc freqs iv own opp so sp nb nc draws = inl (bs, calls) ->
  nth_error draws i = Some d -> nth_error bs i = Some b ->
  ((i < nb)%nat -> (exists c, In c (map fst (pi_int iv)) /\ pmem c so = true) ->
     exists c rest, flat pcand (rk b) = c :: rest /\ pmem c so = true /\
                    hd_error (filter (fun x => pmem x so) (snd d)) = Some c) /\
  ((nb <= i)%nat -> own <> opp -> (exists c, In c (map fst (pi_int iv)) /\ pmem c sp = true) ->
     exists c rest, flat pcand (rk b) = c :: rest /\ pmem c sp = true /\
                    hd_error (filter (fun x => pmem x sp) (snd d)) = Some c).
Proof. exact cam_bloc_first_choice. Qed.
Print Assumptions c14_cam_first_choice.

(* ====================== G6. CambridgeSampler: per-bloc and aggregate sizes ====================== *)

(* bloc i generated n_bloc_i + n_cross_i ballots with cam_bloc: its condensed profile has exactly
   that total weight, the aggregate the sum, all weights positive whole numbers *)
Theorem c14_cam_profile_sizes : forall (pools : list (bloc * list gballot)) (splits : list (nat * nat)) by_bloc agg,
  Forall2 (fun (bp : bloc * list gballot) (s : nat * nat) =>
             exists freqs iv own opp so sp draws calls,
               cam_bloc freqs iv own opp so sp (fst s) (snd s) draws = inl (snd bp, calls))
          pools splits ->
  finish_blocs pools = inl (by_bloc, agg) ->
  length by_bloc = length splits /\
  map fst by_bloc = map fst pools /\
  Forall2 (fun (bq : bloc * gprofile) (s : nat * nat) =>
             total_wt pcand (ballots (snd bq)) == Qnat (fst s + snd s)) by_bloc splits /\
  total_wt pcand (ballots agg) == Qnat (list_sum (map (fun s : nat * nat => (fst s + snd s)%nat) splits)) /\
  whole_pos_weights (ballots agg) /\
  (forall bq, In bq by_bloc -> whole_pos_weights (ballots (snd bq))).
Proof. exact cam_profile_sizes. Qed.
Print Assumptions c14_cam_profile_sizes.

Section C14_cam_sizes.
(* TRUSTED ASSUMPTION, as in Properties/C14_sizes.v: the external apportionment oracle returns one
   size per proportion and the sizes add up to N (checked at run time on every recorded call) *)
Variable apportion : list Q -> nat -> list nat.
Hypothesis apportion_ok : forall props N, props <> [] ->
  length (apportion props N) = length props /\ fold_right Nat.add 0%nat (apportion props N) = N.

(* the splits are the consecutive pairs of the apportionment of N over the voter types
   (b,"bloc"), (b,"cross") with proportions cohesion_b * prop_b and (1 - cohesion_b) * prop_b *)
Theorem c14_cam_crossover_sizes : forall (cp : list (Q * Q)) N (pools : list (bloc * list gballot)) by_bloc agg,
  cp <> [] ->
  Forall2 (fun (bp : bloc * list gballot) (s : nat * nat) =>
             exists freqs iv own opp so sp draws calls,
               cam_bloc freqs iv own opp so sp (fst s) (snd s) draws = inl (snd bp, calls))
          pools (pairs_of (apportion (cross_props cp) N)) ->
  finish_blocs pools = inl (by_bloc, agg) ->
  length by_bloc = length cp /\
  map fst by_bloc = map fst pools /\
  (forall i bq, nth_error by_bloc i = Some bq ->
     total_wt pcand (ballots (snd bq)) ==
     Qnat (nth (2 * i) (apportion (cross_props cp) N) 0%nat +
           nth (2 * i + 1) (apportion (cross_props cp) N) 0%nat)) /\
  total_wt pcand (ballots agg) == Qnat N /\
  whole_pos_weights (ballots agg).
Proof. exact (cam_crossover_sizes apportion apportion_ok). Qed.
End C14_cam_sizes.
Print Assumptions c14_cam_crossover_sizes.

(* ====================== G7. slate-Bradley-Terry: the sampled types fit the intervals ============ *)

(* [intervals] = the voter bloc's interval for every slate; the table is computed from the numbers
   of supported candidates.  Every type of the table (whatever its probability) uses only the
   slates' labels, each exactly as often as the slate has supported candidates: these are the
   hypotheses of c14_slate_ballot *)
Theorem c14_slate_bt_type_counts : forall (intervals : list (bloc * pinterval)) own opp c t v,
  NoDup (map fst intervals) ->
  In (t, v) (slate_bt_pdf (map (fun x : bloc * pinterval => (fst x, length (pi_int (snd x)))) intervals)
                          own opp c) ->
  (forall x, In x t -> In x (map fst intervals)) /\
  (forall bl iv, In (bl, iv) intervals -> count_bloc bl t = length (pi_int iv)) /\
  length t = list_sum (map (fun x : bloc * pinterval => length (pi_int (snd x))) intervals).
Proof. exact slate_bt_type_counts. Qed.
Print Assumptions c14_slate_bt_type_counts.

(* the same for every state of the MCMC chain started at the seed type *)
Theorem c14_slate_mcmc_type_counts : forall (intervals : list (bloc * pinterval)) own c steps t,
  NoDup (map fst intervals) ->
  In t (slate_mcmc_run own c
          (concat (map (fun bn : bloc * nat => repeat (fst bn) (snd bn))
                       (map (fun x : bloc * pinterval => (fst x, length (pi_int (snd x)))) intervals)))
          steps) ->
  (forall x, In x t -> In x (map fst intervals)) /\
  (forall bl iv, In (bl, iv) intervals -> count_bloc bl t = length (pi_int iv)).
Proof. exact slate_mcmc_type_counts. Qed.
Print Assumptions c14_slate_mcmc_type_counts.

(* hence c14_slate_ballot without its multiplicity hypotheses: a ballot built from a type of the
   exact table ranks every supported candidate of every slate once (given disjoint slates), each
   slate's candidates in their drawn Plackett-Luce order, then the zero-support group *)
Theorem c14_slate_bt_exact_ballot : forall (intervals : list (bloc * pinterval)) zero own opp c t v orders b calls,
  NoDup (map fst intervals) ->
  In (t, v) (slate_bt_pdf (map (fun x : bloc * pinterval => (fst x, length (pi_int (snd x)))) intervals)
                          own opp c) ->
  slate_ballot intervals zero t orders = inl (b, calls) ->
  exists r,
    wt b == 1 /\ sc b = [] /\
    rk b = singletons pcand r ++ (match zero with [] => [] | _ => [zero] end) /\
    flat pcand (rk b) = r ++ zero /\
    length r = list_sum (map (fun x : bloc * pinterval => length (pi_int (snd x))) intervals) /\
    (forall bl iv, In (bl, iv) intervals ->
       (pi_int iv <> [] -> slots bl t r = order_of orders bl) /\
       length (slots bl t r) = length (pi_int iv) /\ NoDup (slots bl t r) /\
       incl (slots bl t r) (map fst (pi_int iv)) /\
       (NoDup (map fst (pi_int iv)) -> Permutation (slots bl t r) (map fst (pi_int iv)))) /\
    Permutation r (concat (map (fun x : bloc * pinterval => slots (fst x) t r) intervals)) /\
    calls = map (fun x : bloc * pinterval => GPL (pi_int (snd x)) (length (pi_int (snd x))))
                (filter (fun x : bloc * pinterval => nonempty (pi_int (snd x))) intervals) /\
    (NoDup (concat (map (fun x : bloc * pinterval => map fst (pi_int (snd x))) intervals)) ->
       Permutation r (concat (map (fun x : bloc * pinterval => map fst (pi_int (snd x))) intervals)) /\
       (NoDup zero -> (forall x, In x r -> ~ In x zero) -> NoDup (flat pcand (rk b)))).
Proof. exact slate_bt_exact_ballot. Qed.
Print Assumptions c14_slate_bt_exact_ballot.

(* ====================== G8. Plackett-Luce ballots on the library's own intervals ================ *)

(* c14_pl_ballot's disjointness premise discharged for PreferenceInterval(d) (C15): no candidate
   twice, exactly the requested length, only declared candidates *)
Theorem c14_pl_ballot_mk_interval : forall d iv bl draw b calls,
  (forall c s, In (c, s) d -> 0 <= s) -> NoDup (map fst d) ->
  mk_interval d = inl iv ->
  pl_ballot iv bl draw = inl (b, calls) ->
  NoDup (pi_cands iv) /\ Permutation (pi_cands iv) (map fst d) /\
  NoDup (flat pcand (rk b)) /\ length (flat pcand (rk b)) = bl /\
  incl (flat pcand (rk b)) (map fst d).
Proof. exact pl_ballot_mk_interval. Qed.
Print Assumptions c14_pl_ballot_mk_interval.

(* ... and for combine_preference_intervals: supported and zero-support candidates of the combined
   interval are disjoint, together they are exactly the candidates of the combined intervals *)
Theorem c14_combine_cands : forall (is : list pinterval) (props : list Q) r,
  Forall wf_interval is -> length is = length props -> Forall (fun p => 0 <= p) props ->
  NoDup (concat (map pi_cands is)) -> rounds_to_one (qsum props) = true ->
  combine_intervals is props = inl r ->
  (forall c, In c (map fst (pi_int r)) -> ~ In c (pi_zero r)) /\
  NoDup (pi_cands r) /\
  Permutation (pi_cands r) (concat (map pi_cands is)).
Proof. exact combine_cands. Qed.
Print Assumptions c14_combine_cands.

(* name_PlackettLuce end to end: a complete ranking of all candidates, zero-support (and
   zero-cohesion) candidates only as the final tied group *)
Theorem c14_name_pl_combined_complete : forall (is : list pinterval) (props : list Q) r d b calls,
  Forall wf_interval is -> length is = length props -> Forall (fun p => 0 <= p) props ->
  NoDup (concat (map pi_cands is)) -> rounds_to_one (qsum props) = true ->
  combine_intervals is props = inl r ->
  pl_ballot r (length (pi_cands r)) d = inl (b, calls) ->
  NoDup (flat pcand (rk b)) /\
  Permutation (flat pcand (rk b)) (concat (map pi_cands is)) /\
  exists order tail,
    rk b = singletons pcand order ++ (match tail with [] => [] | _ => [tail] end) /\
    Permutation order (map fst (pi_int r)) /\ Permutation tail (pi_zero r).
Proof. exact name_pl_combined_complete. Qed.
Print Assumptions c14_name_pl_combined_complete.

(* ====================== non-vacuity ====================== *)
Module C14Gen2Examples.
Local Open Scope positive_scope.

(* from_point over three candidates: the table has 3! rows; two draws of the same ranking and one
   of another give a profile of total weight 3 with weights 2 and 1 *)
Example ex_point : exists bs calls p,
  table_bloc (point_table [1; 2; 3] [(1, 1#2); (2, 1#4); (3, 1#4)]) [] 3 [[2; 1; 3]; [3; 2; 1]; [2; 1; 3]]
    = inl (bs, calls) /\
  pool_to_profile [[2; 1; 3]; [3; 2; 1]; [2; 1; 3]] [1; 2; 3] = inl p /\
  map wt (ballots p) = [Qnat 2; Qnat 1] /\
  map rk (ballots p) = [[[2]; [1]; [3]]; [[3]; [2]; [1]]] /\
  length (point_table [1; 2; 3] [(1, 1#2); (2, 1#4); (3, 1#4)]) = 6%nat.
Proof.
  eexists. eexists. eexists. split; [vm_compute; reflexivity|]. split; [vm_compute; reflexivity|].
  repeat split.
Qed.

(* IC / IAC: a table over the six rankings of three candidates (any positive weights) *)
Definition ex_tbl : list (list pcand * Q) :=
  [([1; 2; 3], 1#4); ([1; 3; 2], 1#8); ([2; 1; 3], 1#8); ([2; 3; 1], 1#4); ([3; 1; 2], 1#8); ([3; 2; 1], 1#8)].

Example ex_alpha : exists p,
  alpha_profile [1; 2; 3] ex_tbl 4 [[2; 3; 1]; [1; 2; 3]; [2; 3; 1]; [3; 1; 2]] = inl (p, [GTable ex_tbl 4%nat]) /\
  full_table [1; 2; 3] ex_tbl = true /\
  map wt (ballots p) = [Qnat 2; Qnat 1; Qnat 1] /\ Core.cands p = [1; 2; 3].
Proof. eexists. split; [vm_compute; reflexivity|]. repeat split. Qed.

(* a table that misses a ranking, or a draw outside the table, is rejected *)
Example ex_alpha_rejects :
  alpha_profile [1; 2; 3] (tl ex_tbl) 1 [[2; 3; 1]] = inr EScript /\
  alpha_profile [1; 2; 3] ex_tbl 1 [[2; 3]] = inr EScript.
Proof. split; vm_compute; reflexivity. Qed.

(* cam_fill: own label 1; type 1 2 1 1 2 with two own candidates [11;12] and one opposing [21]:
   the third own slot and the second opposing slot are skipped *)
Example ex_cam_fill :
  cam_fill 1 [1; 2; 1; 1; 2] [11; 12] [21] = [11; 21; 12] /\
  cam_kept 1 [1; 2; 1; 1; 2] 2 1 = [1; 2; 1] /\
  cam_kept_direct 1 [1; 2; 1; 1; 2] 2 1 = [1; 2; 1] /\
  slots 1 [1; 2; 1] [11; 21; 12] = [11; 12] /\ other_slots 1 [1; 2; 1] [11; 21; 12] = [21].
Proof. repeat split. Qed.

(* one bloc: own historical label 1, opposing 2; historical types with frequencies; own slate
   {11,12}, opposing slate {21}; one bloc voter and one crossover voter *)
Definition ex_freqs : list (btype * Q) := [([1; 1; 2], 3%Q); ([1; 2], 1%Q); ([2; 1; 1], 2%Q); ([2], 2%Q)].
Definition ex_civ : pinterval := mkPI [(11, 3#8); (12, 3#8); (21, 1#4)] [].

Example ex_cond_table :
  map fst (cond_table ex_freqs 1) = [[1; 1; 2]; [1; 2]] /\
  map (fun e : btype * Q => Qred (snd e)) (cond_table ex_freqs 1) = [3 # 4; 1 # 4] /\
  qsum (map snd (cond_table ex_freqs 1)) == 1 /\ qsum (map snd (cond_table ex_freqs 2)) == 1.
Proof. split; [reflexivity|]. split; [vm_compute; reflexivity|]. split; vm_compute; reflexivity. Qed.

Example ex_cam_bloc : exists bs calls,
  cam_bloc ex_freqs ex_civ 1 2 [11; 12] [21] 1 1
           [([1; 1; 2], [12; 21; 11]); ([2; 1; 1], [11; 12; 21])] = inl (bs, calls) /\
  map (fun b => flat pcand (rk b)) bs = [[12; 11; 21]; [21; 11; 12]] /\
  length calls = 4%nat.
Proof. eexists. eexists. split; [vm_compute; reflexivity|]. split; reflexivity. Qed.

(* a type that starts with the opposing label among the bloc voters is rejected *)
Example ex_cam_bloc_rejects :
  cam_bloc ex_freqs ex_civ 1 2 [11; 12] [21] 1 1
           [([2; 1; 1], [12; 21; 11]); ([2; 1; 1], [11; 12; 21])] = inr EScript.
Proof. vm_compute. reflexivity. Qed.

(* sizes: two blocs with splits (1,1) and (2,0): per-bloc totals 2 and 2, aggregate 4 *)
Example ex_cam_sizes : exists bs1 c1 bs2 c2 by_bloc agg,
  cam_bloc ex_freqs ex_civ 1 2 [11; 12] [21] 1 1
           [([1; 1; 2], [12; 21; 11]); ([2; 1; 1], [11; 12; 21])] = inl (bs1, c1) /\
  cam_bloc ex_freqs ex_civ 2 1 [21] [11; 12] 2 0
           [([2], [12; 21; 11]); ([2; 1; 1], [11; 12; 21])] = inl (bs2, c2) /\
  finish_blocs [(1, bs1); (2, bs2)] = inl (by_bloc, agg) /\
  map (fun bq : bloc * gprofile => total_wt pcand (ballots (snd bq))) by_bloc = [2; 2]%Q /\
  total_wt pcand (ballots agg) == 4.
Proof.
  do 6 eexists. split; [vm_compute; reflexivity|]. split; [vm_compute; reflexivity|].
  split; [vm_compute; reflexivity|]. split; vm_compute; reflexivity.
Qed.

(* exact slate-BT: a type of the table for intervals with 2 and 1 supported candidates *)
Definition ex_ivs : list (bloc * pinterval) :=
  [(1, mkPI [(11, 1#2); (12, 1#2)] []); (2, mkPI [(21, 1%Q)] [22])].

Example ex_slate_bt : exists v b calls,
  In ([1; 2; 1], v) (slate_bt_pdf (map (fun x : bloc * pinterval => (fst x, length (pi_int (snd x)))) ex_ivs)
                                  1 2 (3#4)) /\
  slate_ballot ex_ivs [22] [1; 2; 1] [(1, [12; 11]); (2, [21])] = inl (b, calls) /\
  flat pcand (rk b) = [12; 21; 11; 22].
Proof.
  eexists. eexists. eexists. split; [vm_compute; right; left; reflexivity|].
  split; [vm_compute; reflexivity|]. reflexivity.
Qed.

(* name-PL on a combined interval with a zero-cohesion slate: complete ranking, the slate tied last *)
Example ex_name_pl_combined : exists r b calls,
  combine_intervals [mkPI [(1, 1#4); (3, 3#4)] [2]; mkPI [(4, 1%Q)] []] [1; 0]%Q = inl r /\
  pl_ballot r (length (pi_cands r)) ([3; 1], [4; 2]) = inl (b, calls) /\
  rk b = [[3]; [1]; [4; 2]].
Proof. eexists. eexists. eexists. split; [vm_compute; reflexivity|]. split; vm_compute; reflexivity. Qed.

End C14Gen2Examples.
